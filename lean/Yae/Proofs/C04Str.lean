/-
  Law "string literal decoding", item by item.

  The parser decodes every string token, interpreted `"…"` and raw `` `…` ``, with
  `Num.unquote` (the model of Go's `strconv.Unquote`); `none` is a syntax error.  The lexer
  admits `"(?:[^"\\]*|\\["\\trnbf\/]|\\u[0-9a-fA-F]{4})*"` and `` `[^`]*` ``.

  SPEC.  The body of an interpreted literal is a list of `StrItem`s (a plain character, a
  simple escape, a `\uXXXX` escape); `StrItem.src` is the text of an item, `StrItem.ok` says it
  is an item of the documented grammar, `StrItem.val` is the character it denotes (`none` =
  the item is rejected), `decodeItems` concatenates all-or-nothing.

  THEOREMS.
  * `unquote_items`       : `unquote ("\"" ++ src of the items ++ "\"") = decodeItems items`.
  * `unquote_plain`       : escape-free bodies decode to themselves.
  * `unquote_esc_context` : one equation for an escape between arbitrary items.
  * `unquote_none_iff`    : the literal is rejected iff it contains `\/`, a raw newline or a
                            `\u` surrogate (FINDINGS: all three are in the lexer's language).
  * `unquote_raw`         : a raw literal decodes to its body WITHOUT carriage returns
                            (FINDING: not verbatim), no escape processing.
  * `str_matches_iff`, `raw_matches_iff`, `unquote_of_str_matches`, `unquote_of_raw_matches`:
    the words of the two lexer patterns are exactly the texts the theorems above speak about.

  Core Lean only; standard axioms only (see the `#print axioms` at the end).
-/
import Yae.Proofs.NumLemmas
import Yae.Proofs.LexRegexStr
namespace Yae.Num

/-! ## The spec: items of an interpreted string literal and their meaning -/

/-- One iteration of `(?:[^"\\]*|\\["\\trnbf\/]|\\u[0-9a-fA-F]{4})*` (a run of plain characters
    is as many `plain` items). -/
inductive StrItem
  /-- a character standing for itself -/
  | plain (c : Char)
  /-- `\e` -/
  | esc (e : Char)
  /-- `\uh1h2h3h4` -/
  | uni (h1 h2 h3 h4 : Char)
  deriving DecidableEq, Repr

/-- the text of an item -/
def StrItem.src : StrItem → List Char
  | .plain c => [c]
  | .esc e => ['\\', e]
  | .uni h1 h2 h3 h4 => ['\\', 'u', h1, h2, h3, h4]

/-- the item is one of the documented grammar: `[^"\\]`, `\\["\\trnbf\/]`, `\\u[0-9a-fA-F]{4}` -/
def StrItem.ok : StrItem → Prop
  | .plain c => c ≠ '"' ∧ c ≠ '\\'
  | .esc e => isSimpleEscape e = true
  | .uni h1 h2 h3 h4 => isHex h1 = true ∧ isHex h2 = true ∧ isHex h3 = true ∧ isHex h4 = true

instance (i : StrItem) : Decidable i.ok := by
  cases i <;> unfold StrItem.ok <;> infer_instance

/-- value of a hexadecimal digit `[0-9a-fA-F]` -/
def hexVal (c : Char) : Nat :=
  if '0' ≤ c && c ≤ '9' then c.toNat - '0'.toNat
  else if 'a' ≤ c && c ≤ 'f' then c.toNat - 'a'.toNat + 10
  else c.toNat - 'A'.toNat + 10

/-- the number written by four hexadecimal digits -/
def hex4 (h1 h2 h3 h4 : Char) : Nat :=
  ((hexVal h1 * 16 + hexVal h2) * 16 + hexVal h3) * 16 + hexVal h4

/-- the character a simple escape `\e` denotes; `\/` denotes nothing (!) -/
def escVal (e : Char) : Option Char :=
  if e = '"' then some '"'
  else if e = '\\' then some '\\'
  else if e = 't' then some '\t'
  else if e = 'r' then some '\r'
  else if e = 'n' then some '\n'
  else if e = 'b' then some (Char.ofNat 8)
  else if e = 'f' then some (Char.ofNat 12)
  else none

/-- the character an item denotes, `none` when the decoder rejects it: a raw newline, `\/`,
    a `\u` escape of a surrogate code point -/
def StrItem.val : StrItem → Option Char
  | .plain c => if c = '\n' then none else some c
  | .esc e => escVal e
  | .uni h1 h2 h3 h4 =>
    if validRune (hex4 h1 h2 h3 h4) then some (Char.ofNat (hex4 h1 h2 h3 h4)) else none

/-- the decoded text: the values of the items one after the other, all or nothing -/
def decodeItems : List StrItem → Option (List Char)
  | [] => some []
  | i :: is =>
    match i.val, decodeItems is with
    | some c, some cs => some (c :: cs)
    | _, _ => none

/-- the text between the quotes -/
def srcOf (items : List StrItem) : List Char := items.flatMap StrItem.src

/-! ### The spec on examples (kernel-checked) -/

example : hexVal '0' = 0 ∧ hexVal '9' = 9 ∧ hexVal 'a' = 10 ∧ hexVal 'f' = 15 ∧ hexVal 'A' = 10 ∧
    hexVal 'F' = 15 := by decide
example : hex4 '0' '0' '4' '1' = 0x41 ∧ hex4 '4' 'e' '2' 'D' = 0x4e2d := by decide
example : srcOf [.plain 'a', .esc 't', .uni '0' '0' '4' '1'] = "a\\t\\u0041".toList := by decide
example : decodeItems [.plain 'a', .esc 't', .uni '0' '0' '4' '1'] = some "a\tA".toList := by decide
example : decodeItems [.plain 'a', .esc '/'] = none := by decide
example : (StrItem.esc '/').ok ∧ (StrItem.plain '\n').ok ∧ (StrItem.uni 'd' '8' '0' '0').ok := by
  decide
example : ¬ (StrItem.plain '"').ok ∧ ¬ (StrItem.esc 'a').ok ∧ ¬ (StrItem.uni '0' '0' 'g' '0').ok := by
  decide

/-! ## `decodeItems` is compositional -/

theorem decodeItems_cons (i : StrItem) (is : List StrItem) :
    decodeItems (i :: is) = (do let c ← i.val; let cs ← decodeItems is; pure (c :: cs)) := by
  rw [decodeItems]
  cases i.val <;> cases decodeItems is <;> rfl

/-- the decoding of a concatenation is the concatenation of the decodings -/
theorem decodeItems_append (a b : List StrItem) :
    decodeItems (a ++ b) = (do let x ← decodeItems a; let y ← decodeItems b; pure (x ++ y)) := by
  induction a with
  | nil => cases h : decodeItems b <;> simp [decodeItems, h]
  | cons i a ih =>
    rw [List.cons_append, decodeItems_cons, decodeItems_cons, ih]
    cases i.val <;> cases decodeItems a <;> cases decodeItems b <;> rfl

theorem decodeItems_singleton (i : StrItem) : decodeItems [i] = i.val.map (fun c => [c]) := by
  rw [decodeItems_cons]; cases i.val <;> rfl

/-- the decoding fails exactly when some item is rejected -/
theorem decodeItems_eq_none_iff (items : List StrItem) :
    decodeItems items = none ↔ ∃ i ∈ items, i.val = none := by
  induction items with
  | nil => simp [decodeItems]
  | cons i is ih =>
    rw [decodeItems_cons]
    cases hv : i.val with
    | none => simp [hv]
    | some c =>
      cases hd : decodeItems is with
      | none =>
        have := ih.mp hd
        obtain ⟨j, hj, hjv⟩ := this
        simp only [List.mem_cons]
        exact ⟨fun _ => ⟨j, .inr hj, hjv⟩, fun _ => rfl⟩
      | some cs =>
        constructor
        · intro h; cases h
        · rintro ⟨j, hj, hjv⟩
          rcases List.mem_cons.mp hj with rfl | hj
          · rw [hv] at hjv; cases hjv
          · have := ih.mpr ⟨j, hj, hjv⟩
            rw [hd] at this; cases this

/-- when it succeeds, the decoding has one character per item -/
theorem decodeItems_length {items : List StrItem} {out : List Char}
    (h : decodeItems items = some out) : out.length = items.length := by
  induction items generalizing out with
  | nil => simp [decodeItems] at h; subst h; rfl
  | cons i is ih =>
    rw [decodeItems_cons] at h
    cases hv : i.val with
    | none => simp [hv] at h
    | some c =>
      cases hd : decodeItems is with
      | none => simp [hv, hd] at h
      | some cs =>
        simp [hv, hd] at h
        subst h
        simp [ih hd]

theorem srcOf_append (a b : List StrItem) : srcOf (a ++ b) = srcOf a ++ srcOf b := by
  simp [srcOf, List.flatMap_append]

theorem srcOf_cons (i : StrItem) (is : List StrItem) : srcOf (i :: is) = i.src ++ srcOf is := by
  simp [srcOf]

theorem srcOf_plain (body : List Char) : srcOf (body.map .plain) = body := by
  induction body with
  | nil => rfl
  | cons c cs ih => rw [List.map_cons, srcOf_cons, ih]; rfl

theorem decodeItems_plain (body : List Char) (h : ∀ c ∈ body, c ≠ '\n') :
    decodeItems (body.map .plain) = some body := by
  induction body with
  | nil => rfl
  | cons c cs ih =>
    have hc : c ≠ '\n' := h c (by simp)
    rw [List.map_cons, decodeItems_cons, ih (fun d hd => h d (by simp [hd]))]
    simp [StrItem.val, hc]

/-! ## Hexadecimal digits -/

theorem char_range {a b c : Char} (h : (a ≤ c && c ≤ b) = true) :
    a.toNat ≤ c.toNat ∧ c.toNat ≤ b.toNat := by
  simp only [Bool.and_eq_true, decide_eq_true_eq] at h
  obtain ⟨h1, h2⟩ := h
  rw [Char.le_def, UInt32.le_iff_toNat_le] at h1 h2
  exact ⟨h1, h2⟩

/-- on the lexer's hex digits the decoder's digit value is `hexVal`, a number below 16 -/
theorem hexDigitVal_of_isHex {c : Char} (h : isHex c = true) :
    hexDigitVal c = some (hexVal c) ∧ hexVal c < 16 := by
  unfold hexDigitVal hexVal
  by_cases h1 : ('0' ≤ c && c ≤ '9') = true
  · rw [if_pos h1, if_pos h1]
    have := char_range h1
    simp at this
    exact ⟨by simp, by simp; omega⟩
  · rw [if_neg h1, if_neg h1]
    by_cases h2 : ('a' ≤ c && c ≤ 'f') = true
    · rw [if_pos h2, if_pos h2]
      have := char_range h2
      simp at this
      exact ⟨by simp; omega, by simp; omega⟩
    · rw [if_neg h2, if_neg h2]
      have h3 : ('A' ≤ c && c ≤ 'F') = true := by
        simp only [isHex, Yae.isDigit, Bool.or_eq_true] at h
        rcases h with (h | h) | h
        · exact absurd h h1
        · exact absurd h h2
        · exact h
      rw [if_pos h3]
      have := char_range h3
      simp at this
      exact ⟨by simp; omega, by simp; omega⟩

/-- four hex digits are read as `hex4` -/
theorem takeHex_four {h1 h2 h3 h4 : Char} (x1 : isHex h1 = true) (x2 : isHex h2 = true)
    (x3 : isHex h3 = true) (x4 : isHex h4 = true) (tail : List Char) :
    takeHex 4 0 (h1 :: h2 :: h3 :: h4 :: tail) = some (hex4 h1 h2 h3 h4, tail) := by
  simp [takeHex, (hexDigitVal_of_isHex x1).1, (hexDigitVal_of_isHex x2).1,
    (hexDigitVal_of_isHex x3).1, (hexDigitVal_of_isHex x4).1, hex4]

theorem hex4_lt {h1 h2 h3 h4 : Char} (x1 : isHex h1 = true) (x2 : isHex h2 = true)
    (x3 : isHex h3 = true) (x4 : isHex h4 = true) : hex4 h1 h2 h3 h4 < 0x10000 := by
  have := (hexDigitVal_of_isHex x1).2
  have := (hexDigitVal_of_isHex x2).2
  have := (hexDigitVal_of_isHex x3).2
  have := (hexDigitVal_of_isHex x4).2
  unfold hex4; omega

/-! ## One item = one step of the decoder -/

/-- One item of the grammar is one step of `unquoteBody` (one unit of fuel, whatever the
    length of the item): the value is pushed, or the whole literal is rejected. -/
theorem unquoteBody_item (i : StrItem) (hok : i.ok) (fuel : Nat) (acc tail : List Char) :
    unquoteBody '"' false (fuel + 1) acc (i.src ++ tail)
      = match i.val with
        | some c => unquoteBody '"' false fuel (c :: acc) tail
        | none => none := by
  cases i with
  | plain c =>
    obtain ⟨hq, hb⟩ := hok
    by_cases hn : c = '\n'
    · subst hn; simp [StrItem.src, StrItem.val, unquoteBody]
    · simp [StrItem.src, StrItem.val, unquoteBody, hq, hb, hn]
  | esc e =>
    have hok' : isSimpleEscape e = true := hok
    simp only [isSimpleEscape, Bool.or_eq_true, beq_iff_eq] at hok'
    have ho : isOctal '/' = false := by decide
    rcases hok' with ((((((h | h) | h) | h) | h) | h) | h) | h <;> subst h <;>
      simp [StrItem.src, StrItem.val, escVal, unquoteBody, unescape, ho]
  | uni h1 h2 h3 h4 =>
    obtain ⟨x1, x2, x3, x4⟩ := hok
    have ht := takeHex_four x1 x2 x3 x4 tail
    by_cases hv : validRune (hex4 h1 h2 h3 h4) = true
    · simp [StrItem.src, StrItem.val, unquoteBody, unescape, ht, hv]
    · simp [StrItem.src, StrItem.val, unquoteBody, unescape, ht, hv]

/-- the items one after the other, then the closing quote -/
theorem unquoteBody_items (items : List StrItem) : ∀ (fuel : Nat) (acc : List Char),
    items.length + 1 ≤ fuel → (∀ i ∈ items, i.ok) →
    unquoteBody '"' false fuel acc (srcOf items ++ ['"'])
      = (decodeItems items).map (fun out => (acc.reverse ++ out, [])) := by
  induction items with
  | nil =>
    intro fuel acc h _
    obtain ⟨f, rfl⟩ : ∃ f, fuel = f + 1 := ⟨fuel - 1, by omega⟩
    simp [srcOf, decodeItems, unquoteBody]
  | cons i is ih =>
    intro fuel acc h hok
    obtain ⟨f, rfl⟩ : ∃ f, fuel = f + 1 := ⟨fuel - 1, by omega⟩
    rw [srcOf_cons, List.append_assoc, unquoteBody_item i (hok i (by simp)), decodeItems_cons]
    cases hv : i.val with
    | none => rfl
    | some c =>
      simp only []
      rw [ih f (c :: acc) (by simpa using h) (fun j hj => hok j (by simp [hj]))]
      cases decodeItems is <;> simp

theorem src_length_pos (i : StrItem) : 1 ≤ i.src.length := by
  cases i <;> simp [StrItem.src]

theorem length_le_srcOf (items : List StrItem) : items.length ≤ (srcOf items).length := by
  induction items with
  | nil => simp
  | cons i is ih =>
    have := src_length_pos i
    rw [srcOf_cons]
    simp only [List.length_append, List.length_cons]
    omega

/-! ## The main theorem -/

/-- **String literal decoding, item by item.**  A double-quoted literal whose body consists of
    items of the documented grammar decodes to the concatenation of the values of its items,
    and is rejected (a syntax error in the parser) when some item has no value. -/
theorem unquote_items (items : List StrItem) (hok : ∀ i ∈ items, i.ok) :
    unquote (String.ofList ('"' :: srcOf items ++ ['"'])) = (decodeItems items).map String.ofList := by
  unfold unquote
  rw [String.toList_ofList]
  have hlen := length_le_srcOf items
  show (match '"' :: (srcOf items ++ ['"']) with
    | [] => none | [_] => none | q :: rest => _) = _
  cases hx : srcOf items ++ ['"'] with
  | nil => simp at hx
  | cons y ys =>
    simp only []
    rw [← hx]
    have e1 : ('"' == '`') = false := by decide
    have e2 : ('"' == '\'') = false := by decide
    have e3 : ('"' == '"') = true := by decide
    simp only [e1, e2, e3]
    rw [unquoteBody_items items _ [] (by simp only [List.length_append, List.length_singleton]; omega) hok]
    cases decodeItems items <;> simp

example : unquote (String.ofList ('"' :: srcOf [.plain 'a', .esc 't', .uni '0' '0' '4' '1'] ++ ['"']))
    = some "a\tA" := by
  rw [unquote_items _ (by decide)]; decide

/-! ## Corollaries -/

/-- **Escape-free bodies decode to themselves**: no quote, no backslash, no newline. -/
theorem unquote_plain (body : List Char) (h : ∀ c ∈ body, c ≠ '"' ∧ c ≠ '\\' ∧ c ≠ '\n') :
    unquote (String.ofList ('"' :: body ++ ['"'])) = some (String.ofList body) := by
  have := unquote_items (body.map .plain) (by
    intro i hi
    obtain ⟨c, hc, rfl⟩ := List.mem_map.mp hi
    exact ⟨(h c hc).1, (h c hc).2.1⟩)
  rw [srcOf_plain, decodeItems_plain body (fun c hc => (h c hc).2.2)] at this
  exact this

example : unquote (String.ofList ('"' :: "héllo 中".toList ++ ['"'])) = some "héllo 中" := by
  rw [unquote_plain _ (by decide), String.ofList_toList]

/-- the seven escapes that have a value, and their values -/
theorem escVal_eq_some_iff (e c : Char) : escVal e = some c ↔
    (e = '"' ∧ c = '"') ∨ (e = '\\' ∧ c = '\\') ∨ (e = 't' ∧ c = '\t') ∨ (e = 'r' ∧ c = '\r') ∨
    (e = 'n' ∧ c = '\n') ∨ (e = 'b' ∧ c = Char.ofNat 8) ∨ (e = 'f' ∧ c = Char.ofNat 12) := by
  unfold escVal
  constructor
  · intro h
    repeat' split at h
    all_goals first | (cases h; done) | (simp only [Option.some.injEq] at h; subst_vars; decide)
  · rintro (⟨rfl, rfl⟩ | ⟨rfl, rfl⟩ | ⟨rfl, rfl⟩ | ⟨rfl, rfl⟩ | ⟨rfl, rfl⟩ | ⟨rfl, rfl⟩ | ⟨rfl, rfl⟩) <;>
      decide

/-- **One escape between arbitrary items** (`\e` with `e` one of `"\trnbf`, value `c`): the
    literal decodes to the text before, then `c`, then the text after. -/
theorem unquote_esc_context (pre post : List StrItem) (hpre : ∀ i ∈ pre, i.ok)
    (hpost : ∀ i ∈ post, i.ok) (e c : Char) (he : escVal e = some c) :
    unquote (String.ofList ('"' :: srcOf pre ++ '\\' :: e :: srcOf post ++ ['"']))
      = (do let x ← decodeItems pre; let y ← decodeItems post; pure (String.ofList (x ++ c :: y))) := by
  have hesc : (StrItem.esc e).ok := by
    show isSimpleEscape e = true
    rcases (escVal_eq_some_iff e c).mp he with h | h | h | h | h | h | h <;>
      (obtain ⟨rfl, _⟩ := h; decide)
  have := unquote_items (pre ++ .esc e :: post) (by
    intro i hi
    rcases List.mem_append.mp hi with hi | hi
    · exact hpre i hi
    · rcases List.mem_cons.mp hi with rfl | hi
      · exact hesc
      · exact hpost i hi)
  rw [srcOf_append, srcOf_cons, decodeItems_append, decodeItems_cons] at this
  simp only [StrItem.src, StrItem.val, he, List.cons_append, List.nil_append,
    List.append_assoc] at this ⊢
  rw [this]
  cases decodeItems pre <;> cases decodeItems post <;> rfl

/-- `\n` between arbitrary items of the grammar -/
example (pre post : List StrItem) (hpre : ∀ i ∈ pre, i.ok) (hpost : ∀ i ∈ post, i.ok) :
    unquote (String.ofList ('"' :: srcOf pre ++ '\\' :: 'n' :: srcOf post ++ ['"']))
      = (do let x ← decodeItems pre; let y ← decodeItems post; pure (String.ofList (x ++ '\n' :: y))) :=
  unquote_esc_context pre post hpre hpost 'n' '\n' (by decide)

/-- non-vacuity: `"a\tb\u0041"` around a `\"` -/
example : unquote (String.ofList ('"' :: srcOf [.plain 'a', .esc 't'] ++ '\\' :: '"' ::
    srcOf [.plain 'b', .uni '0' '0' '4' '1'] ++ ['"'])) = some "a\t\"bA" := by
  rw [unquote_esc_context _ _ (by decide) (by decide) '"' '"' (by decide)]; decide

/-- the same for `\uXXXX` of a non-surrogate code point -/
theorem unquote_uni_context (pre post : List StrItem) (hpre : ∀ i ∈ pre, i.ok)
    (hpost : ∀ i ∈ post, i.ok) (h1 h2 h3 h4 : Char) (hx : (StrItem.uni h1 h2 h3 h4).ok)
    (hv : validRune (hex4 h1 h2 h3 h4) = true) :
    unquote (String.ofList ('"' :: srcOf pre ++ '\\' :: 'u' :: h1 :: h2 :: h3 :: h4 :: srcOf post ++ ['"']))
      = (do let x ← decodeItems pre; let y ← decodeItems post
            pure (String.ofList (x ++ Char.ofNat (hex4 h1 h2 h3 h4) :: y))) := by
  have := unquote_items (pre ++ .uni h1 h2 h3 h4 :: post) (by
    intro i hi
    rcases List.mem_append.mp hi with hi | hi
    · exact hpre i hi
    · rcases List.mem_cons.mp hi with rfl | hi
      · exact hx
      · exact hpost i hi)
  rw [srcOf_append, srcOf_cons, decodeItems_append, decodeItems_cons] at this
  simp only [StrItem.src, StrItem.val, hv, if_true, List.cons_append, List.nil_append,
    List.append_assoc] at this ⊢
  rw [this]
  cases decodeItems pre <;> cases decodeItems post <;> rfl

/-- non-vacuity: `\u4e2d` between `a` and `\n` -/
example : unquote (String.ofList ('"' :: srcOf [.plain 'a'] ++ '\\' :: 'u' :: '4' :: 'e' :: '2' :: 'd' ::
    srcOf [.esc 'n'] ++ ['"'])) = some "a中\n" := by
  rw [unquote_uni_context _ _ (by decide) (by decide) '4' 'e' '2' 'd' (by decide) (by decide)]; decide

/-! ### every escape of the grammar, kernel-checked on the model itself -/

example : unquote "\"a\\tb\"" = some "a\tb" := by decide
example : unquote "\"a\\rb\"" = some "a\rb" := by decide
example : unquote "\"a\\nb\"" = some "a\nb" := by decide
example : unquote "\"a\\bb\"" = some "a\x08b" := by decide
example : unquote "\"a\\fb\"" = some "a\x0cb" := by decide
example : unquote "\"a\\\"b\"" = some "a\"b" := by decide
example : unquote "\"a\\\\b\"" = some "a\\b" := by decide
example : unquote "\"\\u0041\"" = some "A" := by decide
example : unquote "\"\\u4e2d\"" = some "中" := by decide
example : unquote "\"\\u4E2D\\u6587\"" = some "中文" := by decide
example : unquote "\"\"" = some "" := by decide

/-! ## FINDINGS: documented forms that are rejected

The lexer admits them (they are words of the string pattern, see `str_matches_iff`), the
decoder (like Go's `strconv.Unquote`) returns an error, the parser reports a syntax error. -/

/-- an item of the grammar has no value exactly in three cases: a raw newline, `\/`, a `\u`
    escape of a surrogate code point `D800`–`DFFF` -/
theorem val_eq_none_iff (i : StrItem) (hok : i.ok) : i.val = none ↔
    i = .plain '\n' ∨ i = .esc '/' ∨
    ∃ h1 h2 h3 h4, i = .uni h1 h2 h3 h4 ∧ 0xD800 ≤ hex4 h1 h2 h3 h4 ∧ hex4 h1 h2 h3 h4 ≤ 0xDFFF := by
  cases i with
  | plain c =>
    by_cases hn : c = '\n' <;> simp [StrItem.val, hn]
  | esc e =>
    have hok' : isSimpleEscape e = true := hok
    simp only [isSimpleEscape, Bool.or_eq_true, beq_iff_eq] at hok'
    rcases hok' with ((((((h | h) | h) | h) | h) | h) | h) | h <;> subst h <;>
      simp [StrItem.val, escVal]
  | uni h1 h2 h3 h4 =>
    obtain ⟨x1, x2, x3, x4⟩ := hok
    have hlt := hex4_lt x1 x2 x3 x4
    simp only [StrItem.val, reduceCtorEq, false_or, StrItem.uni.injEq]
    constructor
    · intro h
      refine ⟨h1, h2, h3, h4, ⟨rfl, rfl, rfl, rfl⟩, ?_⟩
      by_cases hv : validRune (hex4 h1 h2 h3 h4) = true
      · simp [hv] at h
      · simp [validRune] at hv; omega
    · rintro ⟨_, _, _, _, ⟨rfl, rfl, rfl, rfl⟩, ha, hb⟩
      have : validRune (hex4 h1 h2 h3 h4) = false := by simp [validRune]; omega
      simp [this]

/-- **Exactly which literals of the grammar are rejected**: those containing a raw newline,
    `\/`, or a `\u` surrogate.  All the others decode (`unquote_items`). -/
theorem unquote_none_iff (items : List StrItem) (hok : ∀ i ∈ items, i.ok) :
    unquote (String.ofList ('"' :: srcOf items ++ ['"'])) = none ↔
    .plain '\n' ∈ items ∨ .esc '/' ∈ items ∨
    ∃ h1 h2 h3 h4, .uni h1 h2 h3 h4 ∈ items ∧ 0xD800 ≤ hex4 h1 h2 h3 h4 ∧ hex4 h1 h2 h3 h4 ≤ 0xDFFF := by
  rw [unquote_items items hok, Option.map_eq_none_iff, decodeItems_eq_none_iff]
  constructor
  · rintro ⟨i, hi, hv⟩
    rcases (val_eq_none_iff i (hok i hi)).mp hv with rfl | rfl | ⟨h1, h2, h3, h4, rfl, hr⟩
    · exact .inl hi
    · exact .inr (.inl hi)
    · exact .inr (.inr ⟨h1, h2, h3, h4, hi, hr⟩)
  · rintro (hi | hi | ⟨h1, h2, h3, h4, hi, hr⟩)
    · exact ⟨_, hi, (val_eq_none_iff _ (hok _ hi)).mpr (.inl rfl)⟩
    · exact ⟨_, hi, (val_eq_none_iff _ (hok _ hi)).mpr (.inr (.inl rfl))⟩
    · exact ⟨_, hi, (val_eq_none_iff _ (hok _ hi)).mpr (.inr (.inr ⟨h1, h2, h3, h4, rfl, hr⟩))⟩

/-- FINDING: `\/` is in the documented grammar and makes the whole literal a syntax error. -/
theorem unquote_slash_rejected (items : List StrItem) (hok : ∀ i ∈ items, i.ok)
    (h : .esc '/' ∈ items) : unquote (String.ofList ('"' :: srcOf items ++ ['"'])) = none :=
  (unquote_none_iff items hok).mpr (.inr (.inl h))

/-- FINDING: a raw newline between double quotes is in the documented grammar (`[^"\\]`) and
    makes the whole literal a syntax error. -/
theorem unquote_newline_rejected (items : List StrItem) (hok : ∀ i ∈ items, i.ok)
    (h : .plain '\n' ∈ items) : unquote (String.ofList ('"' :: srcOf items ++ ['"'])) = none :=
  (unquote_none_iff items hok).mpr (.inl h)

/-- FINDING: `\uD800` … `\uDFFF` are in the documented grammar and make the whole literal a
    syntax error. -/
theorem unquote_surrogate_rejected (items : List StrItem) (hok : ∀ i ∈ items, i.ok)
    (h1 h2 h3 h4 : Char) (h : .uni h1 h2 h3 h4 ∈ items)
    (hr : 0xD800 ≤ hex4 h1 h2 h3 h4 ∧ hex4 h1 h2 h3 h4 ≤ 0xDFFF) :
    unquote (String.ofList ('"' :: srcOf items ++ ['"'])) = none :=
  (unquote_none_iff items hok).mpr (.inr (.inr ⟨h1, h2, h3, h4, h, hr⟩))

/-! ### the findings, kernel-checked on the model itself -/

example : unquote "\"\\/\"" = none := by decide
example : unquote "\"http:\\/\\/x\"" = none := by decide
example : unquote "\"a\nb\"" = none := by decide
example : unquote "\"\\ud800\"" = none := by decide
example : unquote "\"\\uDFFF\"" = none := by decide
example : unquote "\"\\ud83d\\ude00\"" = none := by decide   -- a surrogate PAIR (JSON style) too
example : unquote "\"\\ud7ff\\ue000\"" = some "\ud7ff\ue000" := by decide  -- the neighbours are fine
/-- non-vacuity of the three rejection theorems -/
example : unquote (String.ofList ('"' :: srcOf [.plain 'a', .esc '/'] ++ ['"'])) = none :=
  unquote_slash_rejected _ (by decide) (by decide)
example : unquote (String.ofList ('"' :: srcOf [.plain 'a', .plain '\n'] ++ ['"'])) = none :=
  unquote_newline_rejected _ (by decide) (by decide)
example : unquote (String.ofList ('"' :: srcOf [.uni 'd' 'B' 'f' 'F'] ++ ['"'])) = none :=
  unquote_surrogate_rejected _ (by decide) 'd' 'B' 'f' 'F' (by decide) (by decide)

/-! ## Raw strings -/

theorem takeWhile_notBq (body tail : List Char) (h : ∀ c ∈ body, c ≠ '`') :
    (body ++ '`' :: tail).takeWhile (· != '`') = body ∧
    (body ++ '`' :: tail).dropWhile (· != '`') = '`' :: tail := by
  induction body with
  | nil => simp
  | cons c cs ih =>
    have hc : c ≠ '`' := h c (by simp)
    have ih' := ih (fun d hd => h d (by simp [hd]))
    simp [hc, ih'.1, ih'.2]

/-- **Raw string literals**: the body is taken as it is, no escape processing, EXCEPT that
    carriage returns are dropped. -/
theorem unquote_raw (body : List Char) (h : ∀ c ∈ body, c ≠ '`') :
    unquote (String.ofList ('`' :: body ++ ['`']))
      = some (String.ofList (body.filter (· != '\r'))) := by
  unfold unquote
  rw [String.toList_ofList]
  have ht := takeWhile_notBq body [] h
  show (match '`' :: (body ++ ['`']) with
    | [] => none | [_] => none | q :: rest => _) = _
  cases hx : body ++ ['`'] with
  | nil => simp at hx
  | cons y ys =>
    simp only []
    rw [← hx]
    have e1 : ('`' == '`') = true := by decide
    simp only [e1, if_true, ht.1, ht.2]

/-- raw strings without carriage return decode verbatim -/
theorem unquote_raw_verbatim (body : List Char) (h : ∀ c ∈ body, c ≠ '`') (hr : ∀ c ∈ body, c ≠ '\r') :
    unquote (String.ofList ('`' :: body ++ ['`'])) = some (String.ofList body) := by
  rw [unquote_raw body h, List.filter_eq_self.mpr (by simpa using hr)]

/-- FINDING: "raw strings decode verbatim" fails exactly on carriage returns. -/
theorem unquote_raw_verbatim_iff (body : List Char) (h : ∀ c ∈ body, c ≠ '`') :
    unquote (String.ofList ('`' :: body ++ ['`'])) = some (String.ofList body) ↔ ∀ c ∈ body, c ≠ '\r' := by
  constructor
  · intro he
    rw [unquote_raw body h] at he
    have := String.ofList_injective (Option.some.inj he)
    have := List.filter_eq_self.mp this
    simpa using this
  · exact unquote_raw_verbatim body h

example : unquote "`a\rb`" = some "ab" := by decide          -- FINDING: the `\r` is gone
example : unquote "`a\r\nb`" = some "a\nb" := by decide
example : unquote "`a\\nb`" = some "a\\nb" := by decide      -- no escape processing
example : unquote "`\"\\/\n`" = some "\"\\/\n" := by decide  -- quotes, `\/`, newlines are fine
example : unquote "``" = some "" := by decide
example : unquote (String.ofList ('`' :: "a\\u0041\n\"".toList ++ ['`'])) = some "a\\u0041\n\"" := by
  rw [unquote_raw_verbatim _ (by decide) (by decide), String.ofList_toList]

/-! ## Tie-in: the words of the lexer's patterns are the texts above -/

open Re in
theorem star_strItem_of_items (items : List StrItem) (hok : ∀ i ∈ items, i.ok) :
    Matches (star strItem) (srcOf items) := by
  induction items with
  | nil => exact .starNil
  | cons i is ih =>
    rw [srcOf_cons]
    refine .starCons ?_ (ih (fun j hj => hok j (by simp [hj])))
    have hi := hok i (by simp)
    cases i with
    | plain c => exact strItem_plain c hi
    | esc e => exact strItem_esc e hi
    | uni h1 h2 h3 h4 => exact strItem_uni h1 h2 h3 h4 hi.1 hi.2.1 hi.2.2.1 hi.2.2.2

open Re in
theorem items_of_star_strItem {w : List Char} (h : Matches (star strItem) w) :
    ∃ items, (∀ i ∈ items, i.ok) ∧ w = srcOf items := by
  refine Matches.star_induction (P := fun w => ∃ items, (∀ i ∈ items, i.ok) ∧ w = srcOf items)
    ⟨[], by simp, rfl⟩ ?_ h
  rintro u v hu _ ⟨is, hok, rfl⟩
  rcases strItem_inv hu with hp | ⟨e, rfl, he⟩ | ⟨h1, h2, h3, h4, rfl, x1, x2, x3, x4⟩
  · refine ⟨u.map .plain ++ is, ?_, by rw [srcOf_append, srcOf_plain]⟩
    intro i hi
    rcases List.mem_append.mp hi with hi | hi
    · obtain ⟨c, hc, rfl⟩ := List.mem_map.mp hi
      exact hp c hc
    · exact hok i hi
  · refine ⟨.esc e :: is, ?_, by rw [srcOf_cons]; rfl⟩
    intro i hi
    rcases List.mem_cons.mp hi with rfl | hi
    · exact he
    · exact hok i hi
  · refine ⟨.uni h1 h2 h3 h4 :: is, ?_, by rw [srcOf_cons]; rfl⟩
    intro i hi
    rcases List.mem_cons.mp hi with rfl | hi
    · exact ⟨x1, x2, x3, x4⟩
    · exact hok i hi

/-- **The language of the string pattern** `"(?:[^"\\]*|\\["\\trnbf\/]|\\u[0-9a-fA-F]{4})*"` is
    exactly: a quote, the texts of `ok` items, a quote. -/
theorem str_matches_iff (w : List Char) : (reOf .str).Matches w ↔
    ∃ items, (∀ i ∈ items, i.ok) ∧ w = '"' :: srcOf items ++ ['"'] := by
  constructor
  · intro h
    obtain ⟨u1, u2, rfl, a1, a2⟩ := Re.Matches.cat_inv h
    have := a1.chr_inv; subst this
    obtain ⟨b, u3, rfl, a3, a4⟩ := a2.cat_inv
    have := a4.chr_inv; subst this
    obtain ⟨items, hok, rfl⟩ := items_of_star_strItem a3
    exact ⟨items, hok, rfl⟩
  · rintro ⟨items, hok, rfl⟩
    exact Re.Matches.cat (u := ['"']) (.chr '"')
      (Re.Matches.cat (star_strItem_of_items items hok) (.chr '"'))

/-- **Every string token of the lexer decodes by items**: a word of the string pattern is the
    text of some items of the grammar, and the parser's decoding of it is their `decodeItems`. -/
theorem unquote_of_str_matches {w : List Char} (h : (reOf .str).Matches w) :
    ∃ items, (∀ i ∈ items, i.ok) ∧ w = '"' :: srcOf items ++ ['"'] ∧
      unquote (String.ofList w) = (decodeItems items).map String.ofList := by
  obtain ⟨items, hok, rfl⟩ := (str_matches_iff w).mp h
  exact ⟨items, hok, rfl, unquote_items items hok⟩

/-- **The language of the raw pattern** `` `[^`]*` `` -/
theorem raw_matches_iff (w : List Char) : (reOf .raw).Matches w ↔
    ∃ body, (∀ c ∈ body, c ≠ '`') ∧ w = '`' :: body ++ ['`'] := by
  have hcls : ∀ c, clsTest true [.ch '`'] c = true ↔ c ≠ '`' := by
    intro c; simp [clsTest, CItem.test]
  constructor
  · intro h
    obtain ⟨u1, u2, rfl, a1, a2⟩ := Re.Matches.cat_inv h
    have := a1.chr_inv; subst this
    obtain ⟨b, u3, rfl, a3, a4⟩ := a2.cat_inv
    have := a4.chr_inv; subst this
    refine ⟨b, ?_, rfl⟩
    refine Re.Matches.star_induction (P := fun b => ∀ c ∈ b, c ≠ '`') (by simp) ?_ a3
    intro u v hu _ ih c hc
    obtain ⟨x, rfl, hx⟩ := hu.cls_inv
    rcases List.mem_append.mp hc with hc | hc
    · simp only [List.mem_singleton] at hc; subst hc; exact (hcls _).mp hx
    · exact ih c hc
  · rintro ⟨body, hb, rfl⟩
    refine Re.Matches.cat (u := ['`']) (.chr '`') (Re.Matches.cat ?_ (.chr '`'))
    induction body with
    | nil => exact .starNil
    | cons c cs ih =>
      exact Re.Matches.starCons (u := [c]) (.cls ((hcls c).mpr (hb c (by simp))))
        (ih (fun d hd => hb d (by simp [hd])))

/-- **Every raw-string token of the lexer decodes to its body without carriage returns**
    (never a syntax error). -/
theorem unquote_of_raw_matches {w : List Char} (h : (reOf .raw).Matches w) :
    ∃ body, w = '`' :: body ++ ['`'] ∧
      unquote (String.ofList w) = some (String.ofList (body.filter (· != '\r'))) := by
  obtain ⟨body, hb, rfl⟩ := (raw_matches_iff w).mp h
  exact ⟨body, rfl, unquote_raw body hb⟩

/-- the three rejected forms are words of the string pattern: the lexer produces the token,
    the parser then fails on it -/
example : (reOf .str).Matches "\"\\/\"".toList ∧ (reOf .str).Matches "\"a\nb\"".toList ∧
    (reOf .str).Matches "\"\\ud800\"".toList :=
  ⟨(str_matches_iff _).mpr ⟨[.esc '/'], by decide, by decide⟩,
   (str_matches_iff _).mpr ⟨[.plain 'a', .plain '\n', .plain 'b'], by decide, by decide⟩,
   (str_matches_iff _).mpr ⟨[.uni 'd' '8' '0' '0'], by decide, by decide⟩⟩

end Yae.Num

#print axioms Yae.Num.unquote_items
#print axioms Yae.Num.unquote_plain
#print axioms Yae.Num.unquote_esc_context
#print axioms Yae.Num.unquote_uni_context
#print axioms Yae.Num.unquote_none_iff
#print axioms Yae.Num.unquote_raw
#print axioms Yae.Num.unquote_raw_verbatim_iff
#print axioms Yae.Num.str_matches_iff
#print axioms Yae.Num.raw_matches_iff
#print axioms Yae.Num.unquote_of_str_matches
#print axioms Yae.Num.unquote_of_raw_matches
