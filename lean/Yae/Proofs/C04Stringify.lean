/-
  C04, "string conversion": the equations `fun.stringify` (`Val.stringify`, the `string()`
  built-in) satisfies, and its relation to `(*Val).String()` (`Val.render`).

  * equations: `stringify_list`, `stringify_obj`, `stringify_map'` (a string converts to itself,
    a bool to `true` / `false`, a number to `renderNum`, an instant to `Time.String()`: by
    definition, see `C04.string_prim`);
  * `stringify_eq_render`: the two texts coincide on values hereditarily free of strings,
    function values, maybes and objects whose fields are not declared in name order;
  * kernel-checked differences for each excluded case (`string_not_quoted`,
    `map_keys_stay_quoted`, `obj_order_differs`, `maybe_fn_differ`).
-/
import Yae.Proofs.ValRelEq
import Yae.Model.Builtins
namespace Yae

/-! ### the equations of `string()` -/

theorem intercalate_two (sep a b : String) : sep.intercalate [a, b] = a ++ sep ++ b := by
  simp [String.append_assoc]

/-- a list: the members' conversions, separated by `, `, in brackets -/
theorem stringify_list (ty : Ty) (vs : ValList) :
    Val.stringify (.list ty vs) = "[" ++ ", ".intercalate (vs.toList.map Val.stringify) ++ "]" := by
  simp only [Val.stringify, stringifyVals_eq, joinStr]

theorem render_list (ty : Ty) (vs : ValList) :
    Val.render (.list ty vs) = "[" ++ ", ".intercalate (vs.toList.map Val.render) ++ "]" := by
  simp only [Val.render, renderVals_eq, joinStr]

theorem stringify_list_two (ty : Ty) (a b : Val) :
    Val.stringify (.list ty (.cons a (.cons b .nil))) =
      "[" ++ a.stringify ++ ", " ++ b.stringify ++ "]" := by
  rw [stringify_list]
  simp [ValList.toList, String.append_assoc]

/-- an object: `name: conversion` of the fields IN DECLARATION ORDER, separated by `, `, in braces -/
theorem stringify_obj (fs : FieldList) (vs : ValList) :
    Val.stringify (.obj (.obj fs) vs) =
      "{" ++ ", ".intercalate ((List.zip fs.names (vs.toList.map Val.stringify)).map
        fun kv => kv.1 ++ ": " ++ kv.2) ++ "}" := by
  simp only [Val.stringify, stringifyVals_eq, joinStr]

/-- a map: `[:]` when empty, else `key text: conversion` of the entries, sorted by key text -/
theorem stringify_map' (ty : Ty) (es : EntryList) :
    Val.stringify (.map ty es) =
      if es.toList = [] then "[:]" else
        "[" ++ ", ".intercalate ((sortBy (fun a b => decide (a.1 < b.1))
          (es.toList.map fun e => (e.2.1, e.2.2.stringify))).map fun kv => kv.1 ++ ": " ++ kv.2)
          ++ "]" := by
  cases es with
  | nil => simp [Val.stringify, EntryList.toList]
  | cons t k v es =>
    rw [if_neg (by simp [EntryList.toList])]
    simp only [Val.stringify, stringifyEntries_eq, joinStr]


/-! ### `string()` against `(*Val).String()` -/

/-- a list sorted strictly by key is left as it is by the stable sort -/
theorem sortBy_of_sorted {α : Type} (key : α → String) : ∀ l : List α,
    l.Pairwise (fun a b => key a < key b) → sortBy (ltKey key) l = l
  | [], _ => rfl
  | [x], _ => rfl
  | x :: y :: l, h => by
    have ih := sortBy_of_sorted key (y :: l) (List.pairwise_cons.1 h).2
    have hxy : key x < key y := (List.pairwise_cons.1 h).1 y (by simp)
    show insertBy (ltKey key) x (sortBy (ltKey key) (y :: l)) = x :: y :: l
    rw [ih]
    simp [insertBy, ltKey, hxy]

theorem pairwise_zip_fst : ∀ (ks : List String) (vs : List String),
    ks.Pairwise (· < ·) → (List.zip ks vs).Pairwise (fun a b => a.1 < b.1)
  | [], _, _ => by simp
  | _ :: _, [], _ => by simp
  | k :: ks, v :: vs, h => by
    rw [List.zip_cons_cons, List.pairwise_cons]
    refine ⟨fun b hb => (List.pairwise_cons.1 h).1 b.1 (List.of_mem_zip (a := b.1) (b := b.2) hb).1,
      pairwise_zip_fst ks vs (List.pairwise_cons.1 h).2⟩

/-- The nodes at which the two texts of a value agree: no string (quoted by `String()`, bare in
`string()`), no function value (`<type>#fun` / `#fun`), no maybe (`Just#<type>(…)` / `Just(…)`),
and an object only if its fields are declared in strictly increasing order of their names
(`String()` sorts them, `string()` keeps the declaration order). -/
def Val.LocalSameText : Val → Prop
  | .str _ => False
  | .fn _ _ _ => False
  | .just _ _ => False
  | .nothing _ => False
  | .obj (.obj fs) _ => fs.names.Pairwise (· < ·)
  | _ => True

/-- **`string(x)` is `(*Val).String()`** on values built from numbers, bools, instants, lists,
maps and objects with fields in name order (hereditarily: `Val.All`). -/
theorem stringify_eq_render : ∀ v : Val, v.All Val.LocalSameText → v.stringify = v.render := by
  apply Val.induct_mem (P := fun v => v.All Val.LocalSameText → v.stringify = v.render)
  case num => intro x _; rfl
  case bool => intro b _; rfl
  case time => intro t _; rfl
  case nil => intro _; rfl
  case str => intro s h; exact absurd h (by simp [Val.All, Val.LocalSameText])
  case fn => intro ty r l h; exact absurd h (by simp [Val.All, Val.LocalSameText])
  case nothing => intro el h; exact absurd h (by simp [Val.All, Val.LocalSameText])
  case just => intro el v _ h; exact absurd (Val.all_just.1 h).1 (by simp [Val.LocalSameText])
  case list =>
    intro ty vs ih h
    rw [stringify_list, render_list]
    rw [List.map_congr_left (fun v hv => ih v hv ((Val.all_list.1 h).2 v hv))]
  case map =>
    intro ty es ih h
    rw [stringify_map, render_map, stringifyEntries_eq, renderEntries_eq]
    rw [List.map_congr_left (fun e he => by rw [ih e he ((Val.all_map.1 h).2 e he)])]
  case obj =>
    intro ty vs ih h
    have hvs : stringifyVals vs = renderVals vs := by
      rw [stringifyVals_eq, renderVals_eq]
      exact List.map_congr_left (fun v hv => ih v hv ((Val.all_obj.1 h).2 v hv))
    cases ty with
    | obj fs =>
      have hs : fs.names.Pairwise (· < ·) := (Val.all_obj.1 h).1
      rw [render_obj, objText, sortBy_of_sorted Prod.fst _ (pairwise_zip_fst _ _ hs)]
      simp only [Val.stringify, hvs]
    | _ => simp [Val.stringify, Val.render]


/-- non-vacuity: `[true, false]` satisfies the hypothesis; both texts are `[true, false]` -/
example : (Val.list (.list .bool) (.cons (.bool true) (.cons (.bool false) .nil))).All
    Val.LocalSameText ∧
    (Val.list (.list .bool) (.cons (.bool true) (.cons (.bool false) .nil))).stringify =
      "[true, false]" := by
  refine ⟨by simp [Val.All, ValList.All, Val.LocalSameText], by decide⟩

/-! #### where the two texts differ (each clause of `LocalSameText` is needed) -/

/-- a string: bare in `string()`, quoted in `String()`; also INSIDE a list -/
theorem string_not_quoted :
    (Val.str "a").stringify = "a" ∧ (Val.str "a").render = "\"a\"" ∧
    (Val.list (.list .str) (.cons (.str "a") (.cons (.str "b c") .nil))).stringify = "[a, b c]" ∧
    (Val.list (.list .str) (.cons (.str "a") (.cons (.str "b c") .nil))).render =
      "[\"a\", \"b c\"]" := by decide

/-- … but the KEYS of a map are the key texts (`Key()`), which are quoted for strings: in
`string(["k": "v"])` the key is quoted and the value is not -/
theorem map_keys_stay_quoted :
    (Val.map (.map .str .str) (.cons .str (Num.quote "k") (.str "v") .nil)).stringify =
      "[\"k\": v]" ∧
    (Val.map (.map .str .str) (.cons .str (Num.quote "k") (.str "v") .nil)).render =
      "[\"k\": \"v\"]" := by decide

/-- an object: declaration order in `string()`, name order in `String()` -/
theorem obj_order_differs :
    (Val.obj (.obj (.cons "b" .bool (.cons "a" .bool .nil)))
      (.cons (.bool true) (.cons (.bool false) .nil))).stringify = "{b: true, a: false}" ∧
    (Val.obj (.obj (.cons "b" .bool (.cons "a" .bool .nil)))
      (.cons (.bool true) (.cons (.bool false) .nil))).render = "{a: false, b: true}" := by decide

/-- maybes and function values: `String()` shows the type, `string()` does not -/
theorem maybe_fn_differ :
    (Val.just .bool (.bool true)).stringify = "Just(true)" ∧
    (Val.just .bool (.bool true)).render = "Just#bool(true)" ∧
    (Val.nothing .bool).stringify = "Nothing()" ∧ (Val.nothing .bool).render = "Nothing#bool()" ∧
    (Val.fn (.fn "f" .nil .bool) (.builtin 0) false).stringify = "#fun" ∧
    (Val.fn (.fn "f" .nil .bool) (.builtin 0) false).render = "func f() bool#fun" := by decide

end Yae

#print axioms Yae.stringify_eq_render
#print axioms Yae.stringify_list
#print axioms Yae.stringify_obj
#print axioms Yae.stringify_map'
