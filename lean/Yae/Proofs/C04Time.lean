/-
  C04, "absolute date-time forms": the model's calendar arithmetic against the calendar.

  `Yae/Spec/Civil.lean` defines the day number of a date by counting days (`dayNumber`).  Here:

  * `civilFromDays_dayNumber`: `civilFromDays (dayNumber y m d) = (y, m, d)` for every date of the
    calendar from 0000-03-01 on (no upper limit);
  * `civilFromDays_valid`: from day -719468 (0000-03-01) on `civilFromDays` returns a date of the
    calendar, and `dayNumber_civilFromDays`: its day number is the day it was computed from;
  * so `civilFromDays` and `dayNumber` are inverse bijections between the days `≥ -719468` and the
    dates `≥ 0000-03-01`.

  The proofs are linear arithmetic (`omega`) around the facts about Hinnant's formula already
  proved for C18 (`Yae/Proofs/ValRelTextTime.lean`: `civil_eq`, `yoe_eq`, `civil_inj`), sharpened
  here from "at most 365 days after the first day of the year" to "inside the year" (`yoe_tight`).
-/
import Yae.Spec.Civil
import Yae.Proofs.ValRelTextTime
namespace Yae
open Civil

/-! ### years of the 400-year era (March based) -/

/-- days before March-based year `y` of a 400-year era -/
def eraDays (y : Nat) : Nat := 365 * y + y / 4 - y / 100

theorem red1t (r e h a : Nat) (he : e ≤ 3) (hr : r ≤ 36523)
    (hh : h = (24 * e + r) / 1460) (ha : a = (r - h) / 365) :
    365 * a + a / 4 ≤ r ∧ r < 365 * (a + 1) + (a + 1) / 4 ∧ a ≤ 99 := by
  omega

/-- Hinnant's year of the era is THE year the day lies in -/
theorem yoe_tight (doe yoe : Nat) (h : doe ≤ 146096)
    (hy : yoe = (doe - doe / 1460 + doe / 36524 - doe / 146096) / 365) :
    eraDays yoe ≤ doe ∧ (doe < eraDays (yoe + 1) ∨ yoe = 399) ∧ yoe ≤ 399 := by
  unfold eraDays
  by_cases hd : doe = 146096
  · subst hd; subst hy; decide
  · have hle : doe ≤ 146095 := by omega
    rw [yoe_eq doe hle] at hy
    have hr := red1t (doe % 36524) (doe / 36524)
      ((24 * (doe / 36524) + doe % 36524) / 1460)
      ((doe % 36524 - (24 * (doe / 36524) + doe % 36524) / 1460) / 365)
      (by omega) (by omega) rfl rfl
    omega

/-- a year of the era has 365 or 366 days: 366 iff the next March-based year number is
divisible by 4 and not by 100 -/
theorem eraDays_step (a : Nat) :
    eraDays a + 365 ≤ eraDays (a + 1) ∧ eraDays (a + 1) ≤ eraDays a + 366 ∧
      (eraDays (a + 1) = eraDays a + 366 ↔ ((a + 1) % 4 = 0 ∧ (a + 1) % 100 ≠ 0)) := by
  unfold eraDays; omega

theorem eraDays_mono {a b : Nat} (h : a ≤ b) : eraDays a ≤ eraDays b := by
  induction b with
  | zero =>
    have : a = 0 := by omega
    subst this; exact Nat.le_refl _
  | succ b ih =>
    rcases Nat.lt_or_ge a (b + 1) with h1 | h1
    · have := ih (by omega); have := (eraDays_step b).1; omega
    · have : a = b + 1 := by omega
      subst this; exact Nat.le_refl _

theorem eraDays_399 : eraDays 399 = 145731 := by decide

theorem yoe_unique (doe yoe : Nat) (h : doe ≤ 146096) (hy : yoe ≤ 399)
    (h1 : eraDays yoe ≤ doe) (h2 : doe < eraDays (yoe + 1) ∨ yoe = 399) :
    (doe - doe / 1460 + doe / 36524 - doe / 146096) / 365 = yoe := by
  obtain ⟨g1, g2, g3⟩ := yoe_tight doe _ h rfl
  generalize (doe - doe / 1460 + doe / 36524 - doe / 146096) / 365 = y' at *
  rcases Nat.lt_trichotomy y' yoe with hlt | heq | hgt
  · have := eraDays_mono (show y' + 1 ≤ yoe from hlt)
    omega
  · exact heq
  · have := eraDays_mono (show yoe + 1 ≤ y' from hgt)
    omega

/-! ### the sums of `Yae/Spec/Civil.lean` in closed form -/

theorem isLeap_iff (y : Nat) : isLeap y = true ↔ y % 4 = 0 ∧ (y % 100 ≠ 0 ∨ y % 400 = 0) := by
  simp [isLeap]

/-- 1 for a leap year -/
def lbit (y : Nat) : Nat := if isLeap y then 1 else 0

theorem lbit_facts (y : Nat) :
    (lbit y = 1 ∧ y % 4 = 0 ∧ (y % 100 ≠ 0 ∨ y % 400 = 0)) ∨
      (lbit y = 0 ∧ ¬ (y % 4 = 0 ∧ (y % 100 ≠ 0 ∨ y % 400 = 0))) := by
  unfold lbit
  by_cases h : isLeap y = true
  · exact .inl ⟨by simp [h], (isLeap_iff y).1 h⟩
  · exact .inr ⟨by simp [h], fun h' => h ((isLeap_iff y).2 h')⟩

theorem daysInYear_eq (y : Nat) : daysInYear y = 365 + lbit y := by
  unfold daysInYear lbit; split <;> rfl

theorem daysBeforeYear_eq (y : Nat) :
    daysBeforeYear y = 365 * y + (y + 3) / 4 - (y + 99) / 100 + (y + 399) / 400 := by
  induction y with
  | zero => rfl
  | succ y ih =>
    rw [daysBeforeYear, ih, daysInYear_eq]
    have := lbit_facts y
    omega

theorem dby_era1 (era yoe : Nat) (h : yoe ≤ 399) :
    (400 * era + yoe + 3) / 4 = 100 * era + (yoe + 3) / 4 ∧
    (400 * era + yoe + 99) / 100 = 4 * era + (yoe + 99) / 100 ∧
    (400 * era + yoe + 399) / 400 = era + (if yoe = 0 then 0 else 1) := by
  refine ⟨by omega, by omega, ?_⟩
  split <;> omega

theorem dby_era2 (yoe lb : Nat) (h : yoe ≤ 399)
    (hlb : (lb = 1 ∧ yoe % 4 = 0 ∧ (yoe % 100 ≠ 0 ∨ yoe % 400 = 0)) ∨
        (lb = 0 ∧ ¬ (yoe % 4 = 0 ∧ (yoe % 100 ≠ 0 ∨ yoe % 400 = 0)))) :
    (yoe + 3) / 4 - (yoe + 99) / 100 + (if yoe = 0 then 0 else 1) + lb = yoe / 4 - yoe / 100 + 1 ∧
    (yoe + 99) / 100 ≤ (yoe + 3) / 4 ∧ yoe / 100 ≤ yoe / 4 := by
  split <;> omega

/-- the days before year `400·era + yoe`, in Hinnant's coordinates -/
theorem daysBeforeYear_era (era yoe : Nat) (h : yoe ≤ 399) :
    daysBeforeYear (400 * era + yoe) + lbit (400 * era + yoe) =
      146097 * era + eraDays yoe + 1 := by
  rw [daysBeforeYear_eq]
  obtain ⟨e1, e2, e3⟩ := dby_era1 era yoe h
  have hl := lbit_facts (400 * era + yoe)
  have m4 : (400 * era + yoe) % 4 = yoe % 4 := by omega
  have m100 : (400 * era + yoe) % 100 = yoe % 100 := by omega
  have m400 : (400 * era + yoe) % 400 = yoe % 400 := by omega
  rw [m4, m100, m400] at hl
  obtain ⟨g1, g2, g3⟩ := dby_era2 yoe _ h hl
  rw [e1, e2, e3]
  unfold eraDays
  generalize lbit (400 * era + yoe) = lb at *
  generalize (yoe + 3) / 4 = A at *
  generalize (yoe + 99) / 100 = B at *
  generalize (if yoe = 0 then 0 else 1 : Nat) = C at *
  generalize yoe / 4 = D at *
  generalize yoe / 100 = E at *
  omega

theorem daysBeforeMonth_eq (y m : Nat) (h1 : 1 ≤ m) (h2 : m ≤ 12) :
    daysBeforeMonth y m = if m ≤ 2 then 31 * (m - 1)
      else (153 * (m - 3) + 2) / 5 + 59 + lbit y := by
  have : m = 1 ∨ m = 2 ∨ m = 3 ∨ m = 4 ∨ m = 5 ∨ m = 6 ∨ m = 7 ∨ m = 8 ∨ m = 9 ∨ m = 10 ∨
      m = 11 ∨ m = 12 := by omega
  rcases this with rfl | rfl | rfl | rfl | rfl | rfl | rfl | rfl | rfl | rfl | rfl | rfl <;>
    by_cases hl : isLeap y = true <;> simp [daysBeforeMonth, daysInMonth, lbit, hl]

theorem daysInMonth_eq (y m : Nat) (h1 : 1 ≤ m) (h2 : m ≤ 12) :
    (m = 2 → daysInMonth y m = 28 + lbit y) ∧
      (m ≠ 2 → daysInMonth y m = 30 + (m + m / 8) % 2) := by
  have hm : m = 1 ∨ m = 2 ∨ m = 3 ∨ m = 4 ∨ m = 5 ∨ m = 6 ∨ m = 7 ∨ m = 8 ∨ m = 9 ∨ m = 10 ∨
      m = 11 ∨ m = 12 := by omega
  constructor
  · intro h; subst h
    by_cases hl : isLeap y = true <;> simp [daysInMonth, lbit, hl]
  · intro h
    rcases hm with rfl | rfl | rfl | rfl | rfl | rfl | rfl | rfl | rfl | rfl | rfl | rfl <;>
      simp [daysInMonth] at h ⊢

/-! ### the day number of a date in Hinnant's coordinates -/

/-- what `dayNumber_hinnant` says of a date -/
def HinnantOf (y m d : Nat) (era yoe mp doy : Nat) : Prop :=
  yoe ≤ 399 ∧ mp ≤ 11 ∧ monthOf mp = m ∧
    y = (if m ≤ 2 then yoe + era * 400 + 1 else yoe + era * 400) ∧
    doy + 1 = (153 * mp + 2) / 5 + d ∧ mp = (5 * doy + 2) / 153 ∧
    dayNumber y m d + 719468 = ((era * 146097 + (eraDays yoe + doy) : Nat) : Int) ∧
    (eraDays yoe + doy < eraDays (yoe + 1) ∨ yoe = 399) ∧ eraDays yoe + doy ≤ 146096

/-- March to December: the year of the era is the year -/
theorem dayNumber_hinnant_late (era yoe m d : Nat) (hy : yoe ≤ 399) (hm : 3 ≤ m) (hm2 : m ≤ 12)
    (hd1 : 1 ≤ d) (hd2 : d ≤ daysInMonth (400 * era + yoe) m) :
    HinnantOf (400 * era + yoe) m d era yoe (m - 3) ((153 * (m - 3) + 2) / 5 + d - 1) := by
  have hdby := daysBeforeYear_era era yoe hy
  have hdbm := daysBeforeMonth_eq (400 * era + yoe) m (by omega) hm2
  rw [if_neg (by omega)] at hdbm
  have hdim := (daysInMonth_eq (400 * era + yoe) m (by omega) hm2).2 (by omega)
  have hstep := (eraDays_step yoe).1
  have hmono := eraDays_mono hy
  rw [eraDays_399] at hmono
  unfold HinnantOf
  simp only [dayNumber, epochDay]
  rw [if_neg (by omega)]
  generalize daysBeforeMonth (400 * era + yoe) m = dbm at *
  generalize daysBeforeYear (400 * era + yoe) = dby at *
  generalize daysInMonth (400 * era + yoe) m = dim at *
  generalize lbit (400 * era + yoe) = lb at *
  generalize eraDays (yoe + 1) = E1 at *
  generalize eraDays yoe = E0 at *
  have hmm : m = 3 ∨ m = 4 ∨ m = 5 ∨ m = 6 ∨ m = 7 ∨ m = 8 ∨ m = 9 ∨ m = 10 ∨ m = 11 ∨ m = 12 := by
    omega
  rcases hmm with rfl | rfl | rfl | rfl | rfl | rfl | rfl | rfl | rfl | rfl <;>
    refine ⟨hy, by omega, by decide, by omega, by omega, by omega, by omega, by omega, by omega⟩

/-- January, February: they belong to the previous March-based year -/
theorem dayNumber_hinnant_early (era yoe m d : Nat) (hy : yoe ≤ 399) (hm1 : 1 ≤ m) (hm : m ≤ 2)
    (hd1 : 1 ≤ d) (hd2 : d ≤ daysInMonth (400 * era + yoe + 1) m) :
    HinnantOf (400 * era + yoe + 1) m d era yoe (m + 9) ((153 * (m + 9) + 2) / 5 + d - 1) := by
  have hdby := daysBeforeYear_era era yoe hy
  have hdby1 : daysBeforeYear (400 * era + yoe + 1) =
      daysBeforeYear (400 * era + yoe) + (365 + lbit (400 * era + yoe)) := by
    rw [daysBeforeYear, daysInYear_eq]
  have hdbm := daysBeforeMonth_eq (400 * era + yoe + 1) m hm1 (by omega)
  rw [if_pos hm] at hdbm
  obtain ⟨hdimF, hdimO⟩ := daysInMonth_eq (400 * era + yoe + 1) m hm1 (by omega)
  obtain ⟨hs1, hs2, hs3⟩ := eraDays_step yoe
  have hmono := eraDays_mono hy
  rw [eraDays_399] at hmono
  have hmono1 : yoe ≤ 398 → eraDays (yoe + 1) ≤ 145731 := fun h => by
    rw [← eraDays_399]; exact eraDays_mono (by omega)
  have hl := lbit_facts (400 * era + yoe + 1)
  have m4 : (400 * era + yoe + 1) % 4 = (yoe + 1) % 4 := by omega
  have m100 : (400 * era + yoe + 1) % 100 = (yoe + 1) % 100 := by omega
  have m400 : (400 * era + yoe + 1) % 400 = (yoe + 1) % 400 := by omega
  rw [m4, m100, m400] at hl
  unfold HinnantOf
  simp only [dayNumber, epochDay]
  rw [if_pos hm, hdby1]
  generalize daysBeforeMonth (400 * era + yoe + 1) m = dbm at *
  generalize daysBeforeYear (400 * era + yoe) = dby at *
  generalize daysInMonth (400 * era + yoe + 1) m = dim at *
  generalize lbit (400 * era + yoe + 1) = lb1 at *
  generalize lbit (400 * era + yoe) = lb at *
  generalize eraDays (yoe + 1) = E1 at *
  generalize eraDays yoe = E0 at *
  have hmm : m = 1 ∨ m = 2 := by omega
  rcases hmm with rfl | rfl
  · have := hdimO (by decide)
    refine ⟨hy, by omega, by decide, by omega, by omega, by omega, by omega, by omega, by omega⟩
  · have := hdimF rfl
    refine ⟨hy, by omega, by decide, by omega, by omega, by omega, by omega, by omega, by omega⟩

theorem dayNumber_hinnant (y m d : Nat) (hv : ValidDate y m d) (hr : FromMarch0 y m) :
    ∃ era yoe mp doy : Nat, HinnantOf y m d era yoe mp doy := by
  obtain ⟨hm1, hm2, hd1, hd2⟩ := hv
  by_cases hm : m ≤ 2
  · have hy : 0 < y := by rcases hr with h | h <;> omega
    have e : y = 400 * ((y - 1) / 400) + (y - 1) % 400 + 1 := by omega
    rw [e] at hd2 ⊢
    exact ⟨_, _, _, _, dayNumber_hinnant_early _ _ m d (by omega) hm1 hm hd1 hd2⟩
  · have e : y = 400 * (y / 400) + y % 400 := by omega
    rw [e] at hd2 ⊢
    exact ⟨_, _, _, _, dayNumber_hinnant_late _ _ m d (by omega) (by omega) hm2 hd1 hd2⟩

/-! ### the round trips -/

/-- **date ↦ day ↦ date.**  From 0000-03-01 on, `civilFromDays` returns the date whose day number
it is given. -/
theorem civilFromDays_dayNumber (y m d : Nat) (hv : ValidDate y m d) (hr : FromMarch0 y m) :
    civilFromDays (dayNumber y m d) = ((y : Int), m, d) := by
  obtain ⟨era, yoe, mp, doy, hyoe, hmp, hmo, hy, hdoy, hmpd, hz, htight, hle⟩ :=
    dayNumber_hinnant y m d hv hr
  obtain ⟨era', doe', yoe', doy', mp', hera', hz', hd', hy', hdy', hmp', hc⟩ :=
    civil_eq (dayNumber y m d) (by rw [hz]; exact Int.natCast_nonneg _)
  rw [hc]
  have hE : era' = (era : Int) ∧ doe' = eraDays yoe + doy := by
    rw [hz] at hz'
    generalize eraDays yoe + doy = doe at *
    omega
  obtain ⟨hE1, hE2⟩ := hE
  subst hE2
  have hY : yoe' = yoe := by
    rw [hy']; exact yoe_unique _ yoe hle hyoe (by omega) htight
  subst hY
  have hD : doy' = doy := by
    rw [hdy']
    have : eraDays yoe' = 365 * yoe' + yoe' / 4 - yoe' / 100 := rfl
    omega
  subst hD
  have hM : mp' = mp := by rw [hmp', ← hmpd]
  subst hM
  rw [hmo, hE1]
  refine Prod.ext ?_ (Prod.ext rfl ?_)
  · show (if m ≤ 2 then (yoe' : Int) + era * 400 + 1 else (yoe' : Int) + era * 400) = y
    rw [hy]; split <;> simp
  · show doy' - (153 * mp' + 2) / 5 + 1 = d
    omega

theorem monthOf_0 : monthOf 0 = 3 := rfl
theorem monthOf_1 : monthOf 1 = 4 := rfl
theorem monthOf_2 : monthOf 2 = 5 := rfl
theorem monthOf_3 : monthOf 3 = 6 := rfl
theorem monthOf_4 : monthOf 4 = 7 := rfl
theorem monthOf_5 : monthOf 5 = 8 := rfl
theorem monthOf_6 : monthOf 6 = 9 := rfl
theorem monthOf_7 : monthOf 7 = 10 := rfl
theorem monthOf_8 : monthOf 8 = 11 := rfl
theorem monthOf_9 : monthOf 9 = 12 := rfl

/-- **`civilFromDays` returns dates of the calendar** from day -719468 (0000-03-01) on: a year
`≥ 0`, a month `1..12`, a day `1..` the length of that month in that year. -/
theorem civilFromDays_valid (z : Int) (hz : 0 ≤ z + 719468) :
    ∃ y m d : Nat, civilFromDays z = ((y : Int), m, d) ∧ ValidDate y m d ∧ FromMarch0 y m := by
  obtain ⟨era, doe, yoe, doy, mp, hera, hzz, hd, hy, hdy, hmp, hc⟩ := civil_eq z hz
  obtain ⟨t1, t2, t3⟩ := yoe_tight doe yoe hd hy
  obtain ⟨s1, s2, s3⟩ := eraDays_step yoe
  have hdoe : doe = eraDays yoe + doy := by
    have : eraDays yoe = 365 * yoe + yoe / 4 - yoe / 100 := rfl
    omega
  have hdoy : doy ≤ 365 := by
    rcases t2 with h | h
    · omega
    · subst h; rw [eraDays_399] at hdoe; omega
  have hmp11 : mp ≤ 11 := by omega
  -- a 366th day only in a year before a leap year
  have hleap : doy = 365 → lbit (yoe + era.toNat * 400 + 1) = 1 := by
    intro h365
    have hl := lbit_facts (yoe + era.toNat * 400 + 1)
    have m4 : (yoe + era.toNat * 400 + 1) % 4 = (yoe + 1) % 4 := by omega
    have m100 : (yoe + era.toNat * 400 + 1) % 100 = (yoe + 1) % 100 := by omega
    have m400 : (yoe + era.toNat * 400 + 1) % 400 = (yoe + 1) % 400 := by omega
    rw [m4, m100, m400] at hl
    rcases t2 with h | h
    · have : eraDays (yoe + 1) = eraDays yoe + 366 := by omega
      have := s3.1 this
      omega
    · subst h; omega
  rw [hc]
  have heraN : (era.toNat : Int) = era := Int.toNat_of_nonneg hera
  by_cases hm : monthOf mp ≤ 2
  · -- January, February of the next year
    refine ⟨yoe + era.toNat * 400 + 1, monthOf mp, doy - (153 * mp + 2) / 5 + 1, ?_, ?_, .inl (by omega)⟩
    · rw [if_pos hm]; refine Prod.ext ?_ rfl
      show (yoe : Int) + era * 400 + 1 = ((yoe + era.toNat * 400 + 1 : Nat) : Int)
      omega
    · have hmm : mp = 10 ∨ mp = 11 := by
        unfold monthOf at hm; split at hm <;> omega
      obtain ⟨hF, hO⟩ := daysInMonth_eq (yoe + era.toNat * 400 + 1) (monthOf mp)
        (by unfold monthOf; split <;> omega) (by unfold monthOf; split <;> omega)
      rcases hmm with rfl | rfl
      · have := hO (by decide)
        have e : monthOf 10 = 1 := by decide
        rw [e] at this ⊢
        exact ⟨by omega, by omega, by omega, by omega⟩
      · have := hF (by decide)
        have e : monthOf 11 = 2 := by decide
        rw [e] at this ⊢
        exact ⟨by omega, by omega, by omega, by omega⟩
  · refine ⟨yoe + era.toNat * 400, monthOf mp, doy - (153 * mp + 2) / 5 + 1, ?_, ?_, .inr (by omega)⟩
    · rw [if_neg hm]; refine Prod.ext ?_ rfl
      show (yoe : Int) + era * 400 = ((yoe + era.toNat * 400 : Nat) : Int)
      omega
    · have hmm : mp = 0 ∨ mp = 1 ∨ mp = 2 ∨ mp = 3 ∨ mp = 4 ∨ mp = 5 ∨ mp = 6 ∨ mp = 7 ∨ mp = 8 ∨
          mp = 9 := by
        unfold monthOf at hm; split at hm <;> omega
      obtain ⟨_, hO⟩ := daysInMonth_eq (yoe + era.toNat * 400) (monthOf mp)
        (by unfold monthOf; split <;> omega) (by unfold monthOf; split <;> omega)
      clear hy hzz hdoe hleap t1 t2 s1 s2 s3 hm
      rcases hmm with rfl | rfl | rfl | rfl | rfl | rfl | rfl | rfl | rfl | rfl <;>
        (have := hO (by decide)
         simp only [monthOf_0, monthOf_1, monthOf_2, monthOf_3, monthOf_4, monthOf_5, monthOf_6,
           monthOf_7, monthOf_8, monthOf_9] at this ⊢
         exact ⟨by omega, by omega, by omega, by omega⟩)

/-- **day ↦ date ↦ day.**  From day -719468 on, the day number of the date `civilFromDays`
returns is the day it was given. -/
theorem dayNumber_civilFromDays (z : Int) (hz : 0 ≤ z + 719468) :
    dayNumber (civilFromDays z).1.toNat (civilFromDays z).2.1 (civilFromDays z).2.2 = z := by
  obtain ⟨y, m, d, hc, hv, hr⟩ := civilFromDays_valid z hz
  rw [hc]
  show dayNumber ((y : Int).toNat) m d = z
  rw [Int.toNat_natCast]
  obtain ⟨era, yoe, mp, doy, _, _, _, _, _, _, hzz, _, _⟩ := dayNumber_hinnant y m d hv hr
  apply civil_inj _ _ (by rw [hzz]; exact Int.natCast_nonneg _) hz
  rw [civilFromDays_dayNumber y m d hv hr, hc]

end Yae

#print axioms Yae.civilFromDays_dayNumber
#print axioms Yae.civilFromDays_valid
#print axioms Yae.dayNumber_civilFromDays
