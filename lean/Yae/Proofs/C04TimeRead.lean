/-
  C04, "absolute date-time forms": reading texts.

  * `readTime`: a reader for the layout of `Time.String()`,
    `YYYY-MM-DD hh:mm:ss[.fffffffff] ±hhmm ZONE`, that computes the instant from the fields by the
    calendar of `Yae/Spec/Civil.lean`; `readTime_render`: applied to the text of an instant it
    returns the instant (seconds and nanoseconds);
  * `timeLit_quoted`: the parser's `ast.Time` on a lexeme `'body'` looks `body` up in the table of
    `timelib.Strtotime` (the byte slicing `s[1:len(s)-1]` removes exactly the two quotes).
-/
import Yae.Proofs.C04TimeText
import Yae.Model.Parser
namespace Yae
open Civil

/-! ### a reader for the layout of `Time.String()` -/

def numVal (ds : List Char) : Nat := Nat.ofDigitChars 10 ds 0

/-- a non-empty run of digits: its value and what follows -/
def readNum (cs : List Char) : Option (Nat × List Char) :=
  let ds := cs.takeWhile Char.isDigit
  if ds = [] then none else some (numVal ds, cs.dropWhile Char.isDigit)

def expect (c : Char) : List Char → Option (List Char)
  | d :: r => if d = c then some r else none
  | [] => none

/-- optional fraction `.d{1,9}`: nanoseconds -/
def readFrac : List Char → Option (Nat × List Char)
  | '.' :: r =>
    let ds := r.takeWhile Char.isDigit
    if ds = [] ∨ 9 < ds.length then none
    else some (numVal (ds ++ List.replicate (9 - ds.length) '0'), r.dropWhile Char.isDigit)
  | r => some (0, r)

/-- `±hhmm` -/
def readOffset : List Char → Option (Int × List Char)
  | sg :: r =>
    let ds := r.takeWhile Char.isDigit
    if ds.length = 4 ∧ (sg = '+' ∨ sg = '-') then
      some (offsetOf (sg == '-') (numVal (ds.take 2)) (numVal (ds.drop 2)), r.dropWhile Char.isDigit)
    else none
  | [] => none

/-- reads `YYYY-MM-DD hh:mm:ss[.fffffffff] ±hhmm ZONE`; answers seconds and nanoseconds since the
epoch, computed from the fields by the calendar (`instantOf`) -/
def readTimeL (cs : List Char) : Option (Int × Nat) := do
  let (Y, r) ← readNum cs
  let r ← expect '-' r
  let (M, r) ← readNum r
  let r ← expect '-' r
  let (D, r) ← readNum r
  let r ← expect ' ' r
  let (hh, r) ← readNum r
  let r ← expect ':' r
  let (mm, r) ← readNum r
  let r ← expect ':' r
  let (ss, r) ← readNum r
  let (ns, r) ← readFrac r
  let r ← expect ' ' r
  let (off, r) ← readOffset r
  let _ ← expect ' ' r
  pure (instantOf Y M D hh mm ss off, ns)

def readTime (s : String) : Option (Int × Nat) := readTimeL s.toList

theorem takeWhile_digits {ds r : List Char} (hd : ∀ c ∈ ds, c.isDigit = true)
    (hr : ∀ c t, r = c :: t → c.isDigit = false) :
    (ds ++ r).takeWhile Char.isDigit = ds ∧ (ds ++ r).dropWhile Char.isDigit = r := by
  induction ds with
  | nil =>
    cases r with
    | nil => exact ⟨rfl, rfl⟩
    | cons c t => simp [hr c t rfl]
  | cons d ds ih =>
    have hd' := hd d (by simp)
    have := ih (fun c hc => hd c (by simp [hc]))
    simp [hd', this]

theorem readNum_pad (w n : Nat) {r : List Char} (hr : ∀ c t, r = c :: t → c.isDigit = false) :
    readNum (padL w n ++ r) = some (n, r) := by
  obtain ⟨h1, h2⟩ := takeWhile_digits (padL_isDigit w n) hr
  simp only [readNum, h1, h2, if_neg (padL_ne_nil w n), numVal, padL_value]

theorem expect_cons (c : Char) (r : List Char) : expect c (c :: r) = some r := by simp [expect]

/-- putting the stripped zeros back -/
theorem strip_restore (l : List Char) :
    (l.reverse.dropWhile (· == '0')).reverse ++
      List.replicate (l.length - (l.reverse.dropWhile (· == '0')).reverse.length) '0' = l := by
  have h1 : l.reverse.takeWhile (· == '0') =
      List.replicate (l.reverse.takeWhile (· == '0')).length '0' := by
    rw [List.eq_replicate_iff]
    refine ⟨rfl, fun b hb => ?_⟩
    have := mem_takeWhile_imp' _ _ _ hb
    simpa using this
  have h2 : l.reverse = l.reverse.takeWhile (· == '0') ++ l.reverse.dropWhile (· == '0') :=
    List.takeWhile_append_dropWhile.symm
  have h3 : l = (l.reverse.dropWhile (· == '0')).reverse ++ (l.reverse.takeWhile (· == '0')).reverse := by
    rw [← List.reverse_append, ← h2, List.reverse_reverse]
  have hlen : l.length = (l.reverse.dropWhile (· == '0')).length +
      (l.reverse.takeWhile (· == '0')).length := by
    have := congrArg List.length h2
    simp only [List.length_append, List.length_reverse] at this
    omega
  have h4 : (l.reverse.takeWhile (· == '0')).reverse =
      List.replicate (l.length - (l.reverse.dropWhile (· == '0')).reverse.length) '0' := by
    rw [h1, List.reverse_replicate, List.length_reverse]
    congr 1; omega
  rw [← h4]; exact h3.symm

theorem readFrac_fracL (ns : Nat) (h : ns < 1000000000) (rest : List Char) :
    readFrac (fracL ns ++ ' ' :: rest) = some (ns, ' ' :: rest) := by
  unfold fracL
  by_cases h0 : ns = 0
  · subst h0; simp [readFrac]
  · rw [if_neg h0]
    have hlen : (padL 9 ns).length = 9 := padL_length (by decide) (by simpa using h)
    have hS : ∀ c ∈ ((padL 9 ns).reverse.dropWhile (· == '0')).reverse, c.isDigit = true :=
      fun c hc => padL_isDigit 9 ns c
        (List.mem_reverse.1 ((List.dropWhile_sublist _).mem (List.mem_reverse.1 hc)))
    have hres := strip_restore (padL 9 ns)
    generalize ((padL 9 ns).reverse.dropWhile (· == '0')).reverse = S at *
    have hSlen : S.length ≤ 9 := by
      have := congrArg List.length hres
      simp only [List.length_append, List.length_replicate] at this
      omega
    have hSne : S ≠ [] := by
      intro hnil; subst hnil
      simp only [List.nil_append, List.length_nil, Nat.sub_zero] at hres
      have := padL_value 9 ns
      rw [← hres, hlen] at this
      exact h0 (by rw [← this]; decide)
    obtain ⟨t1, t2⟩ := takeWhile_digits (r := ' ' :: rest) hS
      (by intro c t e; cases e; decide)
    rw [hlen] at hres
    simp only [List.cons_append, readFrac, t1, t2]
    rw [if_neg (by intro hc; rcases hc with hc | hc; exact hSne hc; omega), hres, numVal, padL_value]

theorem readOffset_pad (neg : Bool) (oh om : Nat) (hoh : oh < 100) (hom : om < 100)
    (zone : List Char) :
    readOffset ((if neg then '-' else '+') :: ((padL 2 oh ++ padL 2 om) ++ ' ' :: zone)) =
      some (offsetOf neg oh om, ' ' :: zone) := by
  have l1 : (padL 2 oh).length = 2 := padL_length (by decide) (by simpa using hoh)
  have l2 : (padL 2 om).length = 2 := padL_length (by decide) (by simpa using hom)
  obtain ⟨t1, t2⟩ := takeWhile_digits (ds := padL 2 oh ++ padL 2 om) (r := ' ' :: zone)
    (by intro c hc; rcases List.mem_append.1 hc with hc | hc <;> exact padL_isDigit _ _ c hc)
    (by intro c t e; cases e; decide)
  have hsg : ((if neg then '-' else '+' : Char) == '-') = neg := by cases neg <;> decide
  have hsg' : (if neg then '-' else '+' : Char) = '+' ∨ (if neg then '-' else '+' : Char) = '-' := by
    cases neg <;> simp
  simp only [readOffset, t1, t2, List.length_append, l1, l2, hsg, hsg', and_self, if_true]
  rw [List.take_left' l1, List.drop_left' l1]
  simp only [numVal, padL_value]

/-- the reader on a text of the layout: the instant the fields denote -/
theorem readTimeL_timeL (Y M D hh mm ss ns : Nat) (neg : Bool) (oh om : Nat) (zone : List Char)
    (hns : ns < 1000000000) (hoh : oh < 100) (hom : om < 100) :
    readTimeL (timeL Y M D hh mm ss ns neg oh om zone) =
      some (instantOf Y M D hh mm ss (offsetOf neg oh om), ns) := by
  have nd : ∀ (x : Char) (rest : List Char), x.isDigit = false →
      ∀ c t, x :: rest = c :: t → c.isDigit = false := by
    intro x rest hx c t e; cases e; exact hx
  have hfr : ∀ rest : List Char, ∀ c t, fracL ns ++ ' ' :: rest = c :: t → c.isDigit = false := by
    intro rest c t e
    unfold fracL at e
    split at e
    · simp only [List.nil_append, List.cons.injEq] at e; rw [← e.1]; decide
    · simp only [List.cons_append, List.cons.injEq] at e; rw [← e.1]; decide
  simp only [readTimeL, timeL, bind, Option.bind, pure,
    readNum_pad 4 Y (nd '-' _ (by decide)), readNum_pad 2 M (nd '-' _ (by decide)),
    readNum_pad 2 D (nd ' ' _ (by decide)), readNum_pad 2 hh (nd ':' _ (by decide)),
    readNum_pad 2 mm (nd ':' _ (by decide)), readNum_pad 2 ss (hfr _), expect_cons,
    readFrac_fracL ns hns, readOffset_pad neg oh om hoh hom]

/-- **reading the rendered text back gives the instant**: for an instant displayed from
0000-03-01 on, with a whole-minute zone offset of less than 100 hours and nanoseconds below
`10^9`, the reader applied to `Time.String()` returns its seconds and nanoseconds. -/
theorem readTime_render (t : TimeV) (ht : t.TextOK) (hoff : t.offset.natAbs < 360000) :
    readTime t.render = some (t.sec, t.nsec) := by
  have hr := render_toList t
  obtain ⟨h1, _⟩ := read_back t ht ht.nsec (by omega) hr
  rw [readTime, hr, readTimeL_timeL _ _ _ _ _ _ _ _ _ _ _ ht.nsec (by omega) (by omega), ← h1]

set_option maxRecDepth 20000 in
example : readTime "2024-02-29 12:30:05.25 +0200 CEST" = some (1709202605, 250000000) := by
  decide


/-! ### time literals -/

theorem fromUTF8?_toByteArray (s : String) : String.fromUTF8? s.toByteArray = some s := by
  unfold String.fromUTF8?
  rw [dif_pos s.isValidUTF8]
  rfl

theorem toUTF8_eq (s : String) : s.toUTF8 = s.toByteArray := rfl

/-- a time literal `'body'`: the text between the quotes is looked up in the table -/
theorem timeLit_quoted (env : PEnv) (t : Token) (body : String) (v : Int)
    (h : t.lexeme = "'" ++ body ++ "'") (hl : env.times.lookup body = some v) :
    env.timeLit t = .ok (.time t.pos v) := by
  have hq : ("'" : String).toByteArray.size = 1 := by decide
  have hb : t.lexeme.toUTF8 = ("'" : String).toByteArray ++ (body.toByteArray ++ ("'" : String).toByteArray) := by
    rw [h, toUTF8_eq, String.toByteArray_append, String.toByteArray_append, ByteArray.append_assoc]
  have hsz : t.lexeme.toUTF8.size = 1 + (body.toByteArray.size + 1) := by
    rw [hb, ByteArray.size_append, ByteArray.size_append, hq]
  have hex : t.lexeme.toUTF8.extract 1 (t.lexeme.toUTF8.size - 1) = body.toByteArray := by
    rw [hsz, hb, ByteArray.extract_append]
    have e1 : ("'" : String).toByteArray.extract 1 (1 + (body.toByteArray.size + 1) - 1) =
        ByteArray.empty := ByteArray.extract_eq_empty_iff.mpr (by rw [hq]; omega)
    rw [e1, ByteArray.empty_append, hq]
    exact ByteArray.extract_append_eq_left (by omega)
  unfold PEnv.timeLit
  simp only [hex, fromUTF8?_toByteArray, hl]
  rw [if_neg (by omega)]

end Yae

#print axioms Yae.readTimeL_timeL
#print axioms Yae.readTime_render
#print axioms Yae.timeLit_quoted
