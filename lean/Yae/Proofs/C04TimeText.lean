/-
  C04, "absolute date-time forms": instants, their text and the calendar.

  * `render_unix_epochOf`: the instant of the absolute form `y-m-d hh:mm:ss` UTC (`Civil.epochOf`,
    what `timelib.Strtotime` answers for it; the model takes that answer from a table) is displayed
    by `Time.String()` with exactly these fields;
  * `sec_of_displayed`: the civil date `TimeV.render` prints is a date of the calendar and
    determines the seconds of the instant (with time of day and zone offset);
  * `read_back`: in whatever way the text is read as the layout
    `YYYY-MM-DD hh:mm:ss[.fffffffff] ±hhmm ZONE`, the fields denote the instant.
  All from 0000-03-01 on (`C18.needs_date_from_march_of_year_0`: the model is wrong before).
-/
import Yae.Proofs.C04Time
namespace Yae
open Civil

theorem pad2_zero : pad 2 0 = "00" := by decide
theorem fracStr_zero : fracStr 0 = "" := by decide

theorem epochOf_days_sod (y m d hh mm ss : Nat) (h1 : hh < 24) (h2 : mm < 60) (h3 : ss < 60) :
    (epochOf y m d hh mm ss).fdiv 86400 = dayNumber y m d ∧
      (epochOf y m d hh mm ss).fmod 86400 = ((hh * 3600 + mm * 60 + ss : Nat) : Int) := by
  rw [Int.fdiv_eq_ediv_of_nonneg _ (by decide), Int.fmod_eq_emod_of_nonneg _ (by decide)]
  unfold epochOf
  generalize dayNumber y m d = D
  omega

/-- **an absolute date-time displays as itself**: the instant `epochOf y m d hh mm ss` (what
`strtotime` / a time literal yields for the absolute form `y-m-d hh:mm:ss` in UTC) is rendered
with exactly these fields. -/
theorem render_unix_epochOf (y m d hh mm ss : Nat) (hv : ValidDate y m d) (hr : FromMarch0 y m)
    (h1 : hh < 24) (h2 : mm < 60) (h3 : ss < 60) :
    (TimeV.unix (epochOf y m d hh mm ss)).render =
      pad 4 y ++ "-" ++ pad 2 m ++ "-" ++ pad 2 d ++ " " ++ pad 2 hh ++ ":" ++ pad 2 mm ++ ":" ++
        pad 2 ss ++ " +0000 UTC" := by
  obtain ⟨e1, e2⟩ := epochOf_days_sod y m d hh mm ss h1 h2 h3
  have f1 : (hh * 3600 + mm * 60 + ss) / 3600 = hh := by omega
  have f2 : (hh * 3600 + mm * 60 + ss) % 3600 / 60 = mm := by omega
  have f3 : (hh * 3600 + mm * 60 + ss) % 60 = ss := by omega
  simp only [TimeV.render, TimeV.unix, Int.add_zero, e1, e2, civilFromDays_dayNumber y m d hv hr,
    Int.toNat_natCast, f1, f2, f3, fracStr_zero, Int.natAbs_zero, Nat.zero_div, Nat.zero_mod, pad2_zero]
  simp [String.append_assoc]

/-- the instant of a displayed date-time: civil date and time of day in a zone `off` seconds east
of UTC -/
def instantOf (y m d hh mm ss : Nat) (off : Int) : Int := epochOf y m d hh mm ss - off

/-- the zone offset a `±hhmm` field denotes -/
def offsetOf (neg : Bool) (oh om : Nat) : Int :=
  if neg then -((oh * 3600 + om * 60 : Nat) : Int) else ((oh * 3600 + om * 60 : Nat) : Int)

theorem TimeV.sec_eq (t : TimeV) : t.sec = t.days * 86400 + t.sod - t.offset := by
  have h1 : (0 : Int) ≤ (t.sec + t.offset) % 86400 := Int.emod_nonneg _ (by decide)
  simp only [TimeV.days, TimeV.sod, Int.fdiv_eq_ediv_of_nonneg _ (by decide : (0 : Int) ≤ 86400),
    Int.fmod_eq_emod_of_nonneg _ (by decide : (0 : Int) ≤ 86400), Int.toNat_of_nonneg h1]
  omega

theorem TimeV.sod_lt (t : TimeV) : t.sod < 86400 := by
  have h1 : (0 : Int) ≤ (t.sec + t.offset) % 86400 := Int.emod_nonneg _ (by decide)
  have h2 : (t.sec + t.offset) % 86400 < 86400 := Int.emod_lt_of_pos _ (by decide)
  simp only [TimeV.sod, Int.fmod_eq_emod_of_nonneg _ (by decide : (0 : Int) ≤ 86400)]
  omega

theorem TimeV.days_ge (t : TimeV) (h : -62162035200 ≤ t.sec + t.offset) : 0 ≤ t.days + 719468 := by
  simp only [TimeV.days, Int.fdiv_eq_ediv_of_nonneg _ (by decide : (0 : Int) ≤ 86400)]
  omega

/-- **the displayed fields give back the instant.**  For an instant displayed from 0000-03-01 on
(`year_lo`), the civil date `TimeV.render` prints is a date of the calendar, and the seconds are
the Unix time of that date and time of day, minus the zone offset. -/
theorem sec_of_displayed (t : TimeV) (h : -62162035200 ≤ t.sec + t.offset) :
    ∃ y m d : Nat, civilFromDays t.days = ((y : Int), m, d) ∧ ValidDate y m d ∧ FromMarch0 y m ∧
      t.sec = instantOf y m d (t.sod / 3600) (t.sod % 3600 / 60) (t.sod % 60) t.offset := by
  have hz := t.days_ge h
  obtain ⟨y, m, d, hc, hv, hr⟩ := civilFromDays_valid t.days hz
  refine ⟨y, m, d, hc, hv, hr, ?_⟩
  have hd := dayNumber_civilFromDays t.days hz
  rw [hc] at hd
  simp only [Int.toNat_natCast] at hd
  rw [instantOf, epochOf, hd, t.sec_eq]
  have := t.sod_lt
  generalize t.sod = s at *
  omega

/-- **reading the text back.**  However the text of an instant (`Time.String()`) is split into the
fields of its layout `YYYY-MM-DD hh:mm:ss[.fffffffff] ±hhmm ZONE`, the instant is the one these
fields denote: seconds by the calendar (`instantOf`), nanoseconds from the fraction. -/
theorem read_back (t : TimeV) (ht : t.TextOK) {Y M D hh mm ss ns oh om : Nat} {neg : Bool}
    {zone : List Char} (hns : ns < 1000000000) (hom : om < 100)
    (h : t.render.toList = timeL Y M D hh mm ss ns neg oh om zone) :
    t.sec = instantOf Y M D hh mm ss (offsetOf neg oh om) ∧ t.nsec = ns := by
  rw [render_toList] at h
  have hoff := ht.offset_min
  obtain ⟨eY, eM, eD, ehh, emm, ess, ens, eneg, eoh, eom⟩ :=
    timeL_inj ht.nsec hns (by omega) hom h
  obtain ⟨y, m, d, hc, hv, hr, hsec⟩ := sec_of_displayed t ht.year_lo
  rw [hc] at eY eM eD
  simp only [Int.toNat_natCast] at eY eM eD
  subst eY eM eD ehh emm ess ens eoh eom
  refine ⟨?_, rfl⟩
  rw [hsec]
  congr 1
  unfold offsetOf
  subst eneg
  by_cases hneg : t.offset < 0
  · simp only [hneg, decide_true, if_true]; omega
  · simp only [hneg, decide_false]; simp; omega

end Yae

#print axioms Yae.render_unix_epochOf
#print axioms Yae.sec_of_displayed
#print axioms Yae.read_back
