/-
  Lemmas for C15: the own type of a converted value against the static type of its Go type
  (`Plain`: the value conforms to its static type, has no interface-typed part, and every nil
  struct field is tagged `maybe`), and the error clauses of `valOf` / `typeOf`.
-/
import Yae.Proofs.ConvVal
namespace Yae.ConvVal
open Yae Yae.Sound

/-! ### values that conform to their static type -/

mutual
/-- `Plain g t`: `g` is a value of static type `t` as `reflect` would present it (elements,
entries and fields have the declared types), no part of it has an interface type, and a struct
field that is nil is tagged `maybe`.  (A nil pointer / slice / map may occur exactly there: as a
field tagged `maybe`; a nil slice or map may also sit behind a pointer, where it converts like an
empty one.) -/
def Plain : GoVal → GoType → Prop
  | .bool _, t => t = .bool
  | .int k _, t => t = .int k
  | .uint k _, t => t = .uint k
  | .float is32 _, t => t = (if is32 then .float32 else .float64)
  | .string _, t => t = .string
  | .time _, t => t = .time
  | .ptr v, t => ∃ t', t = .ptr t' ∧ Plain v t'
  | .sliceNil el, t => t = .slice el
  | .slice el vs, t => t = .slice el ∧ PlainList vs el
  | .array el vs, t => t = .array vs.length el ∧ PlainList vs el
  | .mapNil k e, t => t = .map k e
  | .map k e es, t => t = .map k e ∧ PlainEntries es k e
  | .struct fs vs, t => t = .struct fs ∧ PlainFields fs vs
  | .invalid, _ | .ptrNil _, _ | .ifaceNil, _ | .iface _, _ | .unsupported _ _, _ => False
def PlainList : GoValList → GoType → Prop
  | .nil, _ => True
  | .cons v vs, t => Plain v t ∧ PlainList vs t
def PlainEntries : GoEntryList → GoType → GoType → Prop
  | .nil, _, _ => True
  | .cons k v es, kt, vt => Plain k kt ∧ Plain v vt ∧ PlainEntries es kt vt
def PlainFields : GoFieldList → GoValList → Prop
  | .nil, .nil => True
  | .cons name tag t _ fr, .cons x xs =>
    (if x.isNil then (parseTag name tag).2 = true else Plain x t) ∧ PlainFields fr xs
  | .nil, .cons _ _ => False
  | .cons _ _ _ _ _, .nil => False
end

/-- positional agreement of the static field list with the converted one -/
def FieldsAgree : FieldList → FieldList → Prop
  | .nil, .nil => True
  | .cons n t fs, .cons m u gs => n = m ∧ tyEq t u = true ∧ FieldsAgree fs gs
  | _, _ => False

theorem tyEqFields_weaken : ∀ (fs gs : FieldList) (n : String) (u : Ty),
    tyEqFields fs gs = true → (fs.find? n).isNone = true → tyEqFields fs (.cons n u gs) = true
  | .nil, _, _, _, _, _ => rfl
  | .cons m t fs, gs, n, u, h, hn => by
    simp only [tyEqFields, Bool.and_eq_true] at h ⊢
    simp only [FieldList.find?] at hn
    split at hn
    · cases hn
    · next hmn =>
      have hnm : ¬ n = m := fun h => hmn h.symm
      simp only [FieldList.find?, hnm, if_false]
      exact ⟨h.1, tyEqFields_weaken fs gs n u h.2 hn⟩

theorem FieldsAgree.tyEq : ∀ (fs gs : FieldList), FieldsAgree fs gs →
    fieldNamesDistinct fs = true → fs.length = gs.length ∧ tyEqFields fs gs = true
  | .nil, .nil, _, _ => ⟨rfl, rfl⟩
  | .cons n t fs, .cons m u gs, h, hd => by
    obtain ⟨rfl, htu, hr⟩ := h
    simp only [fieldNamesDistinct, Bool.and_eq_true] at hd
    obtain ⟨hl, he⟩ := FieldsAgree.tyEq fs gs hr hd.2
    refine ⟨by simp [FieldList.length, hl], ?_⟩
    simp only [tyEqFields, FieldList.find?, if_true, Bool.and_eq_true]
    exact ⟨htu, tyEqFields_weaken fs gs n u he hd.1⟩
  | .nil, .cons _ _ _, h, _ => by cases h
  | .cons _ _ _, .nil, h, _ => by cases h

theorem typeOf_ptr {t : GoType} {lv : Nat} {T : Ty} (h : typeOf (.ptr t) lv = .ok T) :
    typeOf t lv = .ok T := by
  simp only [typeOf] at h
  split at h
  · cases h
  · exact h

theorem typeOf_slice_inv {g : GoType} {el : GoType} {lv : Nat} {T : Ty}
    (hg : g = .slice el ∨ ∃ n, g = .array n el) (h : typeOf g lv = .ok T) :
    ∃ e, typeOf el (lv+1) = .ok e ∧ T = .list e := by
  rcases hg with hg | ⟨n, hg⟩ <;> subst hg <;>
  · simp only [typeOf] at h
    split at h
    · cases h
    · obtain ⟨e, he, hT⟩ := bind_eq_ok.1 h
      exact ⟨e, he, (pure_eq_ok.1 hT).symm⟩

theorem typeOf_map_inv' {k e : GoType} {lv : Nat} {T : Ty} (h : typeOf (.map k e) lv = .ok T) :
    ∃ k' e', typeOf k (lv+1) = .ok k' ∧ typeOf e (lv+1) = .ok e' ∧ T = .map k' e' := by
  simp only [typeOf] at h
  split at h
  · cases h
  · obtain ⟨k', hk, h⟩ := bind_eq_ok.1 h
    obtain ⟨v', hv, h⟩ := bind_eq_ok.1 h
    split at h
    · exact ⟨k', v', hk, hv, (pure_eq_ok.1 h).symm⟩
    · exact absurd h throw_ne_ok

theorem typeOf_struct_inv {fs : GoFieldList} {lv : Nat} {T : Ty}
    (h : typeOf (.struct fs) lv = .ok T) :
    ∃ F, typeOfFields fs (lv+1) = .ok F ∧ fieldNamesDistinct F = true ∧ T = .obj F := by
  simp only [typeOf] at h
  split at h
  · cases h
  · obtain ⟨F, hF, h⟩ := bind_eq_ok.1 h
    split at h
    · next hd => exact ⟨F, hF, hd, (pure_eq_ok.1 h).symm⟩
    · exact absurd h throw_ne_ok

/-- an empty container takes the static type: equal to whatever static type was computed at
another level -/
theorem static_agree {t : GoType} {lv lv' : Nat} {T T' : Ty} (h : typeOf t lv = .ok T)
    (h' : typeOf t lv' = .ok T') : tyEq T T' = true := by
  cases typeOf_level t lv lv' T T' h h'
  exact tyEq_refl' (typeOf_wf t lv T h)

mutual
theorem agreeU : ∀ (g : GoVal) (t : GoType) (lv lv' : Nat) (ro : Bool) (T : Ty) (v : Val),
    Plain g t → typeOf t lv = .ok T → valOfU g lv' ro = .ok v → tyEq T v.typeOf = true
  | .invalid, _, _, _, _, _, _, hp, _, _ | .ptrNil _, _, _, _, _, _, _, hp, _, _
  | .ifaceNil, _, _, _, _, _, _, hp, _, _ | .iface _, _, _, _, _, _, _, hp, _, _
  | .unsupported _ _, _, _, _, _, _, _, hp, _, _ => by simp [Plain] at hp
  | .bool b, t, lv, lv', ro, T, v, hp, hT, hv => by
    simp only [Plain] at hp; subst hp
    rw [valOfU] at hv; cases hv
    simp only [typeOf] at hT
    split at hT <;> cases hT; rfl
  | .int k b, t, lv, lv', ro, T, v, hp, hT, hv => by
    simp only [Plain] at hp; subst hp
    rw [valOfU] at hv; cases hv
    simp only [typeOf] at hT
    split at hT <;> cases hT; rfl
  | .uint k b, t, lv, lv', ro, T, v, hp, hT, hv => by
    simp only [Plain] at hp; subst hp
    rw [valOfU] at hv; cases hv
    simp only [typeOf] at hT
    split at hT <;> cases hT; rfl
  | .float is32 b, t, lv, lv', ro, T, v, hp, hT, hv => by
    simp only [Plain] at hp; subst hp
    rw [valOfU] at hv; cases hv
    cases is32 <;>
    · simp only [typeOf, Bool.false_eq_true, if_false, if_true] at hT
      split at hT <;> cases hT; rfl
  | .string b, t, lv, lv', ro, T, v, hp, hT, hv => by
    simp only [Plain] at hp; subst hp
    rw [valOfU] at hv; cases hv
    simp only [typeOf] at hT
    split at hT <;> cases hT; rfl
  | .time b, t, lv, lv', ro, T, v, hp, hT, hv => by
    simp only [Plain] at hp; subst hp
    rw [valOfU] at hv
    split at hv
    · cases hv
    · cases hv
      simp only [typeOf] at hT
      split at hT <;> cases hT; rfl
  | .ptr p, t, lv, lv', ro, T, v, hp, hT, hv => by
    simp only [Plain] at hp
    obtain ⟨t', rfl, hp'⟩ := hp
    rw [valOfU] at hv
    exact agreeU p t' lv lv' ro T v hp' (typeOf_ptr hT) hv
  | .sliceNil el, t, lv, lv', ro, T, v, hp, hT, hv => by
    simp only [Plain] at hp; subst hp
    rw [valOfU] at hv
    obtain ⟨t', ht', hv⟩ := bind_eq_ok.1 hv
    cases pure_eq_ok.1 hv
    exact static_agree hT ht'
  | .slice el .nil, t, lv, lv', ro, T, v, hp, hT, hv => by
    simp only [Plain] at hp; obtain ⟨rfl, _⟩ := hp
    rw [valOfU] at hv
    obtain ⟨t', ht', hv⟩ := bind_eq_ok.1 hv
    cases pure_eq_ok.1 hv
    exact static_agree hT ht'
  | .slice el (.cons e es), t, lv, lv', ro, T, v, hp, hT, hv => by
    simp only [Plain, PlainList] at hp; obtain ⟨rfl, hpe, _⟩ := hp
    rw [valOfU] at hv
    obtain ⟨v0, h0, hv⟩ := bind_eq_ok.1 hv
    obtain ⟨rest, _, hv⟩ := bind_eq_ok.1 hv
    cases pure_eq_ok.1 hv
    obtain ⟨e', he', rfl⟩ := typeOf_slice_inv (Or.inl rfl) hT
    simpa [Val.typeOf, tyEq] using
      agreeU e el (lv+1) (lv'+1) ro e' v0 hpe he' (valOfChecks_ok h0).2.2
  | .array el .nil, t, lv, lv', ro, T, v, hp, hT, hv => by
    simp only [Plain] at hp; obtain ⟨rfl, _⟩ := hp
    rw [valOfU] at hv
    obtain ⟨t', ht', hv⟩ := bind_eq_ok.1 hv
    cases pure_eq_ok.1 hv
    exact static_agree hT ht'
  | .array el (.cons e es), t, lv, lv', ro, T, v, hp, hT, hv => by
    simp only [Plain, PlainList] at hp; obtain ⟨rfl, hpe, _⟩ := hp
    rw [valOfU] at hv
    obtain ⟨v0, h0, hv⟩ := bind_eq_ok.1 hv
    obtain ⟨rest, _, hv⟩ := bind_eq_ok.1 hv
    cases pure_eq_ok.1 hv
    obtain ⟨e', he', rfl⟩ := typeOf_slice_inv (Or.inr ⟨_, rfl⟩) hT
    simpa [Val.typeOf, tyEq] using
      agreeU e el (lv+1) (lv'+1) ro e' v0 hpe he' (valOfChecks_ok h0).2.2
  | .mapNil k e, t, lv, lv', ro, T, v, hp, hT, hv => by
    simp only [Plain] at hp; subst hp
    rw [valOfU] at hv
    obtain ⟨t', ht', hv⟩ := bind_eq_ok.1 hv
    cases pure_eq_ok.1 hv
    exact static_agree hT ht'
  | .map k e .nil, t, lv, lv', ro, T, v, hp, hT, hv => by
    simp only [Plain] at hp; obtain ⟨rfl, _⟩ := hp
    rw [valOfU] at hv
    obtain ⟨t', ht', hv⟩ := bind_eq_ok.1 hv
    cases pure_eq_ok.1 hv
    exact static_agree hT ht'
  | .map k e (.cons k0 e0 rest), t, lv, lv', ro, T, v, hp, hT, hv => by
    simp only [Plain, PlainEntries] at hp; obtain ⟨rfl, hpk, hpe, _⟩ := hp
    rw [valOfU_map_cons] at hv
    obtain ⟨kv, hk, hv⟩ := bind_eq_ok.1 hv
    obtain ⟨ev, he, hv⟩ := bind_eq_ok.1 hv
    obtain ⟨k', e', hk', he', rfl⟩ := typeOf_map_inv' hT
    have a1 := agreeU k0 k (lv+1) (lv'+1) ro k' kv hpk hk' (valOfChecks_ok hk).2.2
    have a2 := agreeU e0 e (lv+1) (lv'+1) ro e' ev hpe he' (valOfChecks_ok (entryVal_ok he).2).2.2
    split at hv
    · split at hv
      · cases hv
      · obtain ⟨es', _, hv⟩ := bind_eq_ok.1 hv
        cases pure_eq_ok.1 hv
        show tyEq (.map k' e') (.map kv.typeOf ev.typeOf) = true
        simp only [tyEq, a1, a2, Bool.and_self]
    · cases hv
  | .struct .nil vs, t, lv, lv', ro, T, v, hp, hT, hv => by
    simp only [Plain] at hp; obtain ⟨rfl, _⟩ := hp
    rw [valOfU] at hv
    cases pure_eq_ok.1 hv
    obtain ⟨F, hF, _, rfl⟩ := typeOf_struct_inv hT
    simp only [typeOfFields] at hF
    cases pure_eq_ok.1 hF
    rfl
  | .struct (.cons n tg ft ex fr) vs, t, lv, lv', ro, T, v, hp, hT, hv => by
    simp only [Plain] at hp; obtain ⟨rfl, hpf⟩ := hp
    rw [valOfU] at hv
    · obtain ⟨⟨ftys, vals⟩, hf, hv⟩ := bind_eq_ok.1 hv
      simp only at hv
      split at hv
      · cases pure_eq_ok.1 hv
        obtain ⟨F, hF, hd, rfl⟩ := typeOf_struct_inv hT
        have := agreeFields (.cons n tg ft ex fr) vs (lv+1) lv' ro F ftys vals hpf hF hf
        obtain ⟨hl, he⟩ := FieldsAgree.tyEq F ftys this hd
        simp [Val.typeOf, tyEq, hl, he]
      · exact absurd hv throw_ne_ok
    · intro hc; cases hc
theorem agreeFields : ∀ (fs : GoFieldList) (vs : GoValList) (lv lv' : Nat) (ro : Bool)
    (F ftys : FieldList) (vals : ValList), PlainFields fs vs → typeOfFields fs lv = .ok F →
    valOfFields fs vs lv' ro = .ok (ftys, vals) → FieldsAgree F ftys
  | .cons name tag t ex frest, .cons x xs, lv, lv', ro, F, ftys, vals, hp, hF, h => by
    simp only [PlainFields] at hp
    rw [valOfFields_cons] at h
    obtain ⟨vl, hvl, h⟩ := bind_eq_ok.1 h
    obtain ⟨⟨f2, v2⟩, hrest, h⟩ := bind_eq_ok.1 h
    have h := pure_eq_ok.1 h
    simp only [Prod.mk.injEq] at h
    obtain ⟨rfl, rfl⟩ := h
    simp only [typeOfFields] at hF
    obtain ⟨ft, hft, hF⟩ := bind_eq_ok.1 hF
    obtain ⟨rest', hr, hF⟩ := bind_eq_ok.1 hF
    cases pure_eq_ok.1 hF
    refine ⟨rfl, ?_, agreeFields frest xs lv lv' ro rest' f2 v2 hp.2 hr hrest⟩
    unfold fieldVal at hvl
    have hp1 := hp.1
    split at hvl
    · next hnil =>
      rw [if_pos hnil] at hp1
      obtain ⟨ft0, hft0, hvl⟩ := bind_eq_ok.1 hvl
      cases pure_eq_ok.1 hvl
      rw [if_pos hp1]
      simpa [Val.typeOf, tyEq] using static_agree hft hft0
    · next hnil =>
      rw [if_neg hnil] at hp1
      obtain ⟨w, hw, hvl⟩ := bind_eq_ok.1 hvl
      cases pure_eq_ok.1 hvl
      have a := agreeU x t lv (lv'+1) (ro || !ex) ft w hp1 hft (valOfChecks_ok hw).2.2
      split
      · simpa [Val.typeOf, tyEq] using a
      · exact a
  | .nil, .nil, lv, lv', ro, F, ftys, vals, _, hF, h => by
    rw [valOfFields] at h
    · have h := pure_eq_ok.1 h
      simp only [Prod.mk.injEq] at h
      obtain ⟨rfl, rfl⟩ := h
      simp only [typeOfFields] at hF
      cases pure_eq_ok.1 hF
      trivial
    · intro _ _ _ _ _ _ _ hc; cases hc
  | .nil, .cons _ _, _, _, _, _, _, _, hp, _, _ => by simp [PlainFields] at hp
  | .cons _ _ _ _ _, .nil, _, _, _, _, _, _, hp, _, _ => by simp [PlainFields] at hp
end

theorem Plain.goType : ∀ (g : GoVal) (t : GoType), Plain g t → g.goType? = some t
  | .bool _, _, h | .int _ _, _, h | .uint _ _, _, h | .float _ _, _, h | .string _, _, h
  | .time _, _, h | .sliceNil _, _, h | .mapNil _ _, _, h => by
    simp only [Plain] at h; subst h; rfl
  | .slice _ _, _, h | .array _ _, _, h | .map _ _ _, _, h | .struct _ _, _, h => by
    simp only [Plain] at h; rw [h.1]; rfl
  | .ptr p, _, h => by
    simp only [Plain] at h
    obtain ⟨t', rfl, hp⟩ := h
    simp [GoVal.goType?, Plain.goType p t' hp]
  | .invalid, _, h | .ptrNil _, _, h | .ifaceNil, _, h | .iface _, _, h
  | .unsupported _ _, _, h => by simp [Plain] at h

/-! ### the error clauses -/

theorem valOf_depth (g : GoVal) (lv : Nat) (ro : Bool) (h : lv > maxLevel) :
    valOf g lv ro = .error .depth := by
  simp [valOf, valOfChecks, h]

theorem valOf_nil (g : GoVal) (lv : Nat) (ro : Bool) (hl : lv ≤ maxLevel) (hn : g.isNil = true) :
    valOf g lv ro = .error (if lv = 0 then .nilTop else .nilInside) := by
  have : ¬ lv > maxLevel := by omega
  simp [valOf, valOfChecks, this, hn]

theorem valOf_unsupported (n : String) (lv : Nat) (ro : Bool) (hl : lv ≤ maxLevel) :
    valOf (.unsupported n false) lv ro = .error .unsupported := by
  have : ¬ lv > maxLevel := by omega
  simp [valOf, valOfChecks, this, GoVal.isNil, valOfU]

theorem typeOf_unsupported (n : String) (lv : Nat) (hl : lv ≤ maxLevel) :
    typeOf (.unsupported n) lv = .error .unsupported ∧ typeOf .iface lv = .error .unsupported := by
  have : ¬ lv > maxLevel := by omega
  simp [typeOf, this]

theorem valOf_eq_valOfChecks (g : GoVal) (lv : Nat) (ro : Bool) :
    (valOfChecks g lv fun _ => valOfU g lv ro) = valOf g lv ro := rfl

/-- a slice whose second element converts to a value of another type than the first -/
theorem valOf_slice_mixed {el : GoType} {e0 e1 : GoVal} {es : GoValList} {lv : Nat} {ro : Bool}
    {v0 v1 : Val} (hl : lv ≤ maxLevel) (h0 : valOf e0 (lv+1) ro = .ok v0)
    (h1 : valOf e1 (lv+1) ro = .ok v1) (hne : tyEq v0.typeOf v1.typeOf = false) :
    valOf (.slice el (.cons e0 (.cons e1 es))) lv ro = .error .mixed := by
  have : ¬ lv > maxLevel := by omega
  unfold valOf valOfChecks
  simp only [this, if_false, GoVal.isNil, Bool.false_eq_true]
  rw [valOfU, valOf_eq_valOfChecks, h0]
  show (valOfRest v0.typeOf (.cons e1 es) (lv+1) ro >>= _) = _
  rw [valOfRest_cons, valOf_eq_valOfChecks, h1]
  simp [bind, Except.bind, hne]

/-- `n` slices around `g` -/
def nest : Nat → GoType → GoVal → GoVal
  | 0, _, g => g
  | n+1, t, g => .slice t (.cons (nest n t g) .nil)

/-- nesting beyond the depth limit -/
theorem valOf_nest_depth (t : GoType) (g : GoVal) (ro : Bool) : ∀ (n lv : Nat),
    lv + n > maxLevel → valOf (nest n t g) lv ro = .error .depth
  | 0, lv, h => valOf_depth _ _ _ (by omega)
  | n+1, lv, h => by
    rcases Nat.lt_or_ge maxLevel lv with hl | hl
    · exact valOf_depth _ _ _ hl
    · have : ¬ lv > maxLevel := by omega
      unfold valOf valOfChecks
      simp only [this, if_false, nest, GoVal.isNil, Bool.false_eq_true]
      rw [valOfU, valOf_eq_valOfChecks, valOf_nest_depth t g ro n (lv+1) (by omega)]
      rfl

/-! ### contents: element order -/

/-- element by element, in order -/
def Elementwise (lv : Nat) (ro : Bool) : GoValList → ValList → Prop
  | .nil, .nil => True
  | .cons e es, .cons x xs => valOf e lv ro = .ok x ∧ Elementwise lv ro es xs
  | _, _ => False

theorem valOfRest_elementwise (t0 : Ty) : ∀ (es : GoValList) (lv : Nat) (ro : Bool) (xs : ValList),
    valOfRest t0 es lv ro = .ok xs → Elementwise lv ro es xs
  | .nil, lv, ro, xs, h => by
    rw [valOfRest] at h
    cases pure_eq_ok.1 h; trivial
  | .cons e es, lv, ro, xs, h => by
    rw [valOfRest_cons] at h
    obtain ⟨x, hx, h⟩ := bind_eq_ok.1 h
    split at h
    · obtain ⟨r, hr, h⟩ := bind_eq_ok.1 h
      cases pure_eq_ok.1 h
      exact ⟨hx, valOfRest_elementwise t0 es lv ro r hr⟩
    · cases h

/-- a slice converts to the list of its converted elements, in the same order, one level deeper -/
theorem content_slice {el : GoType} {vs : GoValList} {lv : Nat} {ro : Bool} {v : Val}
    (h : valOf (.slice el vs) lv ro = .ok v) :
    ∃ ty xs, v = .list ty xs ∧ Elementwise (lv+1) ro vs xs := by
  have h := (valOfChecks_ok h).2.2
  cases vs with
  | nil =>
    rw [valOfU] at h
    obtain ⟨t, _, h⟩ := bind_eq_ok.1 h
    cases pure_eq_ok.1 h
    exact ⟨t, .nil, rfl, trivial⟩
  | cons e es =>
    rw [valOfU] at h
    obtain ⟨v0, h0, h⟩ := bind_eq_ok.1 h
    obtain ⟨rest, hr, h⟩ := bind_eq_ok.1 h
    cases pure_eq_ok.1 h
    exact ⟨_, _, rfl, h0, valOfRest_elementwise _ es (lv+1) ro rest hr⟩

end Yae.ConvVal
