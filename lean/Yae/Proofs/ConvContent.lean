/-
  Lemmas for C15, "contents equal the original" (`Yae/Spec/ConvContent.lean`):
  the content of a converted value is the normalised content of the Go value
  (`valOfU_content`, `valOf_content`), for every shape, by mutual induction along `valOfU`.
-/
import Yae.Spec.ConvContent
import Yae.Proofs.ConvAgree
namespace Yae.ConvVal
open Yae Yae.Sound

/-! ### keys -/

theorem key?_content (v : Val) : v.key? = v.content.key? := by
  cases v with
  | obj ty vs => cases ty <;> rfl
  | _ => rfl

theorem key?_norm (c : Content) : c.norm.key? = c.key? := by
  cases c <;> rfl

theorem EntryList.content_insert : ∀ (acc : EntryList) (t : Kind) (k : String) (v : Val),
    (acc.insert t k v).content = acc.content.insert t k v.content
  | .nil, _, _, _ => rfl
  | .cons t k v es, t', k', v' => by
    simp only [EntryList.insert, EntryList.content, ContentEntries.insert]
    split
    · rfl
    · simp only [EntryList.content, EntryList.content_insert es t' k' v']

/-! ### the main induction -/

theorem fieldVal_content {name tag : String} {t : GoType} {ex : Bool} {x : GoVal} {lv : Nat}
    {ro : Bool} {vl : Val} (h : fieldVal name tag t ex x lv ro = .ok vl)
    (ih : ∀ w, valOfU x (lv+1) (ro || !ex) = .ok w → ∃ c, x.content = some c ∧ w.content = c.norm) :
    ∃ c, (if x.isNil then some Content.absent
          else x.content.map fun c => if (parseTag name tag).2 then Content.present c else c)
        = some c ∧ vl.content = c.norm := by
  unfold fieldVal at h
  split at h
  · next hnil =>
    obtain ⟨ft, _, h⟩ := bind_eq_ok.1 h
    cases pure_eq_ok.1 h
    exact ⟨.absent, by rw [if_pos hnil], rfl⟩
  · next hnil =>
    obtain ⟨w, hw, h⟩ := bind_eq_ok.1 h
    cases pure_eq_ok.1 h
    obtain ⟨c, hc, hwc⟩ := ih w (valOfChecks_ok hw).2.2
    rw [if_neg hnil, hc]
    cases (parseTag name tag).2
    · exact ⟨c, rfl, hwc⟩
    · refine ⟨.present c, rfl, ?_⟩
      simp only [if_true, Val.content, Content.norm, hwc]

mutual
theorem valOfU_content : ∀ (g : GoVal) (lv : Nat) (ro : Bool) (v : Val),
    valOfU g lv ro = .ok v → ∃ c, g.content = some c ∧ v.content = c.norm
  | .invalid, _, _, _, h | .ptrNil _, _, _, _, h | .ifaceNil, _, _, _, h
  | .unsupported _ _, _, _, _, h => by simp [valOfU] at h
  | .ptr p, lv, ro, v, h => by
    rw [valOfU] at h
    simpa only [GoVal.content] using valOfU_content p lv ro v h
  | .iface d, lv, ro, v, h => by
    rw [valOfU] at h
    simpa only [GoVal.content] using valOfU_content d lv ro v h
  | .time t, lv, ro, v, h => by
    rw [valOfU] at h
    split at h
    · cases h
    · cases h; exact ⟨_, rfl, rfl⟩
  | .bool b, _, _, v, h | .int _ b, _, _, v, h | .uint _ b, _, _, v, h | .float _ b, _, _, v, h
  | .string b, _, _, v, h => by
    rw [valOfU] at h; cases h; exact ⟨_, rfl, rfl⟩
  | .sliceNil el, lv, ro, v, h => by
    rw [valOfU] at h
    obtain ⟨t, _, h⟩ := bind_eq_ok.1 h
    cases pure_eq_ok.1 h
    exact ⟨_, rfl, rfl⟩
  | .slice el .nil, lv, ro, v, h => by
    rw [valOfU] at h
    obtain ⟨t, _, h⟩ := bind_eq_ok.1 h
    cases pure_eq_ok.1 h
    exact ⟨_, rfl, rfl⟩
  | .slice el (.cons e es), lv, ro, v, h => by
    rw [valOfU] at h
    obtain ⟨v0, h0, h⟩ := bind_eq_ok.1 h
    obtain ⟨rest, hr, h⟩ := bind_eq_ok.1 h
    cases pure_eq_ok.1 h
    obtain ⟨c0, hc0, e0⟩ := valOfU_content e (lv+1) ro v0 (valOfChecks_ok h0).2.2
    obtain ⟨cs, hcs, er⟩ := valOfRest_content v0.typeOf es (lv+1) ro rest hr
    refine ⟨.seq (.cons c0 cs), ?_, ?_⟩
    · simp only [GoVal.content, GoValList.content, hc0, hcs, Option.map]
    · simp only [Val.content, ValList.content, Content.norm, ContentList.norm, e0, er]
  | .array el .nil, lv, ro, v, h => by
    rw [valOfU] at h
    obtain ⟨t, _, h⟩ := bind_eq_ok.1 h
    cases pure_eq_ok.1 h
    exact ⟨_, rfl, rfl⟩
  | .array el (.cons e es), lv, ro, v, h => by
    rw [valOfU] at h
    obtain ⟨v0, h0, h⟩ := bind_eq_ok.1 h
    obtain ⟨rest, hr, h⟩ := bind_eq_ok.1 h
    cases pure_eq_ok.1 h
    obtain ⟨c0, hc0, e0⟩ := valOfU_content e (lv+1) ro v0 (valOfChecks_ok h0).2.2
    obtain ⟨cs, hcs, er⟩ := valOfRest_content v0.typeOf es (lv+1) ro rest hr
    refine ⟨.seq (.cons c0 cs), ?_, ?_⟩
    · simp only [GoVal.content, GoValList.content, hc0, hcs, Option.map]
    · simp only [Val.content, ValList.content, Content.norm, ContentList.norm, e0, er]
  | .mapNil k e, lv, ro, v, h => by
    rw [valOfU] at h
    obtain ⟨t, _, h⟩ := bind_eq_ok.1 h
    cases pure_eq_ok.1 h
    exact ⟨_, rfl, rfl⟩
  | .map k e .nil, lv, ro, v, h => by
    rw [valOfU] at h
    obtain ⟨t, _, h⟩ := bind_eq_ok.1 h
    cases pure_eq_ok.1 h
    exact ⟨_, rfl, rfl⟩
  | .map k e (.cons k0 e0 rest), lv, ro, v, h => by
    rw [valOfU_map_cons] at h
    obtain ⟨kv, hk, h⟩ := bind_eq_ok.1 h
    obtain ⟨ev, he, h⟩ := bind_eq_ok.1 h
    obtain ⟨kc, hkc, ek⟩ := valOfU_content k0 (lv+1) ro kv (valOfChecks_ok hk).2.2
    obtain ⟨ec, hec, ee⟩ :=
      valOfU_content e0 (lv+1) ro ev (valOfChecks_ok (entryVal_ok he).2).2.2
    split at h
    · split at h
      · cases h
      · next tag txt hkq =>
        obtain ⟨es', hes, h⟩ := bind_eq_ok.1 h
        cases pure_eq_ok.1 h
        obtain ⟨cr, hcr, er⟩ :=
          valOfEntries_content kv.typeOf ev.typeOf rest (lv+1) ro _ es' hes
        have hkey : kc.key? = some (tag, txt) := by
          rw [← key?_norm, ← ek, ← key?_content, hkq]
        refine ⟨.entries (.cons tag txt ec cr), ?_, ?_⟩
        · simp only [GoVal.content, GoEntryList.content, hkc, hec, hcr, Option.bind, hkey,
            Option.map]
        · simp only [Val.content, Content.norm, ContentEntries.normInto, ContentEntries.insert, er,
            EntryList.content, ee]
    · cases h
  | .struct .nil vs, lv, ro, v, h => by
    rw [valOfU] at h
    cases pure_eq_ok.1 h
    refine ⟨.fields .nil, ?_, rfl⟩
    simp only [GoVal.content, GoFieldList.content, Option.map]
  | .struct (.cons n tg t ex fr) vs, lv, ro, v, h => by
    rw [valOfU] at h
    · obtain ⟨⟨ftys, vals⟩, hf, h⟩ := bind_eq_ok.1 h
      simp only at h
      split at h
      · cases pure_eq_ok.1 h
        obtain ⟨cf, hcf, ef⟩ := valOfFields_content (.cons n tg t ex fr) vs lv ro ftys vals hf
        refine ⟨.fields cf, ?_, ?_⟩
        · simp only [GoVal.content, hcf, Option.map]
        · simp only [Val.content, Content.norm, ef]
      · exact absurd h throw_ne_ok
    · intro hc; cases hc
theorem valOfRest_content : ∀ (t0 : Ty) (vs : GoValList) (lv : Nat) (ro : Bool) (xs : ValList),
    valOfRest t0 vs lv ro = .ok xs →
    ∃ cs, GoValList.content vs = some cs ∧ xs.content = cs.norm
  | t0, .nil, lv, ro, xs, h => by
    rw [valOfRest] at h
    cases pure_eq_ok.1 h; exact ⟨.nil, rfl, rfl⟩
  | t0, .cons e es, lv, ro, xs, h => by
    rw [valOfRest_cons] at h
    obtain ⟨x, hx, h⟩ := bind_eq_ok.1 h
    split at h
    · obtain ⟨r, hr, h⟩ := bind_eq_ok.1 h
      cases pure_eq_ok.1 h
      obtain ⟨c, hc, ec⟩ := valOfU_content e lv ro x (valOfChecks_ok hx).2.2
      obtain ⟨cs, hcs, er⟩ := valOfRest_content t0 es lv ro r hr
      refine ⟨.cons c cs, ?_, ?_⟩
      · simp only [GoValList.content, hc, hcs]
      · simp only [ValList.content, ContentList.norm, ec, er]
    · cases h
theorem valOfEntries_content : ∀ (kt et : Ty) (es : GoEntryList) (lv : Nat) (ro : Bool)
    (acc out : EntryList), valOfEntries kt et es lv ro acc = .ok out →
    ∃ ces, GoEntryList.content es = some ces ∧ out.content = ces.normInto acc.content
  | kt, et, .nil, lv, ro, acc, out, h => by
    rw [valOfEntries] at h
    cases pure_eq_ok.1 h; exact ⟨.nil, rfl, rfl⟩
  | kt, et, .cons k e rest, lv, ro, acc, out, h => by
    rw [valOfEntries_cons] at h
    obtain ⟨kv, hk, h⟩ := bind_eq_ok.1 h
    split at h
    · obtain ⟨ev, he, h⟩ := bind_eq_ok.1 h
      obtain ⟨kc, hkc, ek⟩ := valOfU_content k lv ro kv (valOfChecks_ok hk).2.2
      obtain ⟨ec, hec, ee⟩ := valOfU_content e lv ro ev (valOfChecks_ok (entryVal_ok he).2).2.2
      split at h
      · split at h
        · cases h
        · next tag txt hkq =>
          obtain ⟨cr, hcr, er⟩ := valOfEntries_content kt et rest lv ro _ out h
          have hkey : kc.key? = some (tag, txt) := by
            rw [← key?_norm, ← ek, ← key?_content, hkq]
          refine ⟨.cons tag txt ec cr, ?_, ?_⟩
          · simp only [GoEntryList.content, hkc, hec, hcr, Option.bind, hkey]
          · rw [er, EntryList.content_insert, ee]; rfl
      · cases h
    · cases h
theorem valOfFields_content : ∀ (fs : GoFieldList) (vs : GoValList) (lv : Nat) (ro : Bool)
    (ftys : FieldList) (vals : ValList), valOfFields fs vs lv ro = .ok (ftys, vals) →
    ∃ cf, GoFieldList.content fs vs = some cf ∧ ValList.fieldContent ftys vals = cf.norm
  | .cons name tag t ex frest, .cons x xs, lv, ro, ftys, vals, h => by
    rw [valOfFields_cons] at h
    obtain ⟨vl, hvl, h⟩ := bind_eq_ok.1 h
    obtain ⟨⟨f2, v2⟩, hrest, h⟩ := bind_eq_ok.1 h
    have h := pure_eq_ok.1 h
    simp only [Prod.mk.injEq] at h
    obtain ⟨rfl, rfl⟩ := h
    obtain ⟨c, hc, ec⟩ := fieldVal_content hvl fun w hw => valOfU_content x (lv+1) (ro || !ex) w hw
    obtain ⟨cf, hcf, ef⟩ := valOfFields_content frest xs lv ro f2 v2 hrest
    refine ⟨.cons (parseTag name tag).1 c cf, ?_, ?_⟩
    · simp only [GoFieldList.content, hc, hcf]
    · simp only [ValList.fieldContent, ContentFields.norm, ec, ef]
  | .nil, vs, lv, ro, ftys, vals, h => by
    rw [valOfFields] at h
    · have h := pure_eq_ok.1 h
      simp only [Prod.mk.injEq] at h
      obtain ⟨rfl, rfl⟩ := h
      refine ⟨.nil, ?_, rfl⟩
      simp only [GoFieldList.content]
    · intro _ _ _ _ _ _ _ hc; cases hc
  | .cons _ _ _ _ _, .nil, lv, ro, ftys, vals, h => by
    rw [valOfFields] at h
    · have h := pure_eq_ok.1 h
      simp only [Prod.mk.injEq] at h
      obtain ⟨rfl, rfl⟩ := h
      refine ⟨.nil, ?_, rfl⟩
      simp only [GoFieldList.content]
    · intro _ _ _ _ _ _ _ _ hc; cases hc
end

/-- **the content of a converted value is the content of the Go value**, its entry lists
inserted one by one (`Content.norm`) -/
theorem valOf_content {g : GoVal} {lv : Nat} {ro : Bool} {v : Val} (h : valOf g lv ro = .ok v) :
    ∃ c, g.content = some c ∧ v.content = c.norm :=
  valOfU_content g lv ro v (valOfChecks_ok h).2.2

end Yae.ConvVal
