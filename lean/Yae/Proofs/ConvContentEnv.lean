/-
  Lemmas for C15 about environments:
  * `valEnvOf_content`: the bindings `conv.ValEnvOf` produces carry the contents the Go value
    offers (`GoVal.envContent`): map entries under their key text, struct fields under their tag
    names;
  * `sample_accepts`: for two plain values of one Go type whose static type is an object type,
    the environment of the second passes `envCheck` against the type environment of the first.
-/
import Yae.Proofs.ConvContent
import Yae.Proofs.ConvContentEquiv
import Yae.Proofs.ConvEnv
namespace Yae.ConvVal
open Yae Yae.Sound Yae.ConvEnv

/-! ### the contents of an environment -/

/-- what a list of bindings holds -/
def envContents (env : List (String × Val)) : List (String × Content) :=
  env.map fun p => (p.1, p.2.content)

/-- every entry list inside every binding inserted one by one -/
def envNorm (cs : List (String × Content)) : List (String × Content) :=
  cs.map fun p => (p.1, p.2.norm)

theorem mapError_eq_ok {ε ε' α : Type} {a : Except ε α} {f : ε → ε'} {x : α} :
    a.mapError f = .ok x ↔ a = .ok x := by
  cases a <;> simp [Except.mapError]

theorem valEnvOfMap_content : ∀ (es : GoEntryList) (env : List (String × Val)),
    valEnvOfMap es = .ok env → ∃ cs, es.envContent = some cs ∧ envContents env = envNorm cs
  | .nil, env, h => by
    simp only [valEnvOfMap] at h
    cases pure_eq_ok.1 h
    exact ⟨[], rfl, rfl⟩
  | .cons k v es, env, h => by
    simp only [valEnvOfMap] at h
    obtain ⟨x, hx, h⟩ := bind_eq_ok.1 h
    obtain ⟨rest, hr, h⟩ := bind_eq_ok.1 h
    cases pure_eq_ok.1 h
    obtain ⟨c, hc, ec⟩ := valOf_content (mapError_eq_ok.1 hx)
    obtain ⟨cs, hcs, er⟩ := valEnvOfMap_content es rest hr
    refine ⟨(keyName k, c) :: cs, ?_, ?_⟩
    · simp only [GoEntryList.envContent, hc, hcs]
    · simp only [envContents, envNorm, List.map_cons, ec] at er ⊢
      rw [er]

theorem zip_fieldContent : ∀ (fs : FieldList) (vs : ValList),
    envContents (List.zip fs.names vs.toList) = (ValList.fieldContent fs vs).toList
  | .cons n t fs, .cons v vs => by
    simp only [FieldList.names, ValList.toList, List.zip_cons_cons, envContents, List.map_cons,
      ValList.fieldContent, ContentFields.toList]
    exact congrArg _ (zip_fieldContent fs vs)
  | .nil, vs => by simp [FieldList.names, envContents, ValList.fieldContent, ContentFields.toList]
  | .cons _ _ _, .nil => by
    simp [ValList.toList, envContents, ValList.fieldContent, ContentFields.toList]

theorem toList_normFields : ∀ fs : ContentFields,
    (ContentFields.norm fs).toList = envNorm fs.toList
  | .nil => rfl
  | .cons n c fs => by
    simp only [ContentFields.norm, ContentFields.toList, envNorm, List.map_cons]
    exact congrArg _ (toList_normFields fs)

theorem norm_eq_fields {c : Content} {fs : ContentFields} (h : c.norm = .fields fs) :
    ∃ cf, c = .fields cf ∧ ContentFields.norm cf = fs := by
  cases c <;> simp only [Content.norm] at h <;> cases h
  exact ⟨_, rfl, rfl⟩

/-- **the bindings of a converted environment carry the contents the Go value offers** -/
theorem valEnvOf_content {g : GoVal} {env : List (String × Val)} (h : valEnvOf g = .ok env) :
    ∃ cs, g.envContent = some cs ∧ envContents env = envNorm cs := by
  unfold valEnvOf at h
  unfold GoVal.envContent
  split at h
  · cases pure_eq_ok.1 h
    exact ⟨[], rfl, rfl⟩
  · next hne =>
    split at h
    · cases h
    · next es hrm =>
      simp only [hrm]
      exact valEnvOfMap_content es env h
    · next hrm =>
      obtain ⟨x, hx, h⟩ := bind_eq_ok.1 h
      split at h
      · next fs vs =>
        cases pure_eq_ok.1 h
        obtain ⟨c, hc, ec⟩ := valOf_content (g := g) (lv := 0) (ro := false) hx
        simp only [Val.content] at ec
        obtain ⟨cf, rfl, hcf⟩ := norm_eq_fields ec.symm
        refine ⟨cf.toList, ?_, ?_⟩
        · simp only [hrm, hc]
        · rw [zip_fieldContent, ← hcf, toList_normFields]
      · exact absurd h throw_ne_ok

/-! ### one sample stands for the type: the environment check -/

theorem typeOf_scalar_ne_obj {t : GoType} {lv : Nat} {F : FieldList}
    (ht : t = .bool ∨ (∃ k, t = .int k) ∨ (∃ k, t = .uint k) ∨ t = .float32 ∨ t = .float64 ∨
      t = .string ∨ t = .time) : typeOf t lv ≠ .ok (.obj F) := by
  intro h
  rcases ht with rfl | ⟨k, rfl⟩ | ⟨k, rfl⟩ | rfl | rfl | rfl | rfl <;>
  · simp only [typeOf] at h
    split at h <;> cases h

/-- a plain value whose static type is an object type is a struct behind zero or more pointers -/
theorem unwrapEnv_plain : ∀ (g : GoVal) (t : GoType) (lv : Nat) (F : FieldList), Plain g t →
    typeOf t lv = .ok (.obj F) → ∃ fs vs, unwrapEnv g = some (.struct fs vs)
  | .invalid, _, _, _, hp, _ | .ptrNil _, _, _, _, hp, _ | .ifaceNil, _, _, _, hp, _
  | .iface _, _, _, _, hp, _ | .unsupported _ _, _, _, _, hp, _ => by simp [Plain] at hp
  | .bool _, t, lv, F, hp, hT => by
    simp only [Plain] at hp; exact absurd hT (typeOf_scalar_ne_obj (Or.inl hp))
  | .int k _, t, lv, F, hp, hT => by
    simp only [Plain] at hp; exact absurd hT (typeOf_scalar_ne_obj (Or.inr (Or.inl ⟨k, hp⟩)))
  | .uint k _, t, lv, F, hp, hT => by
    simp only [Plain] at hp
    exact absurd hT (typeOf_scalar_ne_obj (Or.inr (Or.inr (Or.inl ⟨k, hp⟩))))
  | .float is32 _, t, lv, F, hp, hT => by
    simp only [Plain] at hp
    refine absurd hT (typeOf_scalar_ne_obj ?_)
    cases is32
    · exact Or.inr (Or.inr (Or.inr (Or.inr (Or.inl hp))))
    · exact Or.inr (Or.inr (Or.inr (Or.inl hp)))
  | .string _, t, lv, F, hp, hT => by
    simp only [Plain] at hp
    exact absurd hT (typeOf_scalar_ne_obj (Or.inr (Or.inr (Or.inr (Or.inr (Or.inr (Or.inl hp)))))))
  | .time _, t, lv, F, hp, hT => by
    simp only [Plain] at hp
    exact absurd hT (typeOf_scalar_ne_obj (Or.inr (Or.inr (Or.inr (Or.inr (Or.inr (Or.inr hp)))))))
  | .ptr p, t, lv, F, hp, hT => by
    simp only [Plain] at hp
    obtain ⟨t', rfl, hp'⟩ := hp
    simpa only [unwrapEnv] using unwrapEnv_plain p t' lv F hp' (typeOf_ptr hT)
  | .sliceNil el, t, lv, F, hp, hT => by
    simp only [Plain] at hp; subst hp
    obtain ⟨e, _, h⟩ := typeOf_slice_inv (Or.inl rfl) hT; cases h
  | .slice el _, t, lv, F, hp, hT => by
    simp only [Plain] at hp; obtain ⟨rfl, _⟩ := hp
    obtain ⟨e, _, h⟩ := typeOf_slice_inv (Or.inl rfl) hT; cases h
  | .array el vs, t, lv, F, hp, hT => by
    simp only [Plain] at hp; obtain ⟨rfl, _⟩ := hp
    obtain ⟨e, _, h⟩ := typeOf_slice_inv (Or.inr ⟨_, rfl⟩) hT; cases h
  | .mapNil k e, t, lv, F, hp, hT => by
    simp only [Plain] at hp; subst hp
    obtain ⟨_, _, _, _, h⟩ := typeOf_map_inv' hT; cases h
  | .map k e _, t, lv, F, hp, hT => by
    simp only [Plain] at hp; obtain ⟨rfl, _⟩ := hp
    obtain ⟨_, _, _, _, h⟩ := typeOf_map_inv' hT; cases h
  | .struct fs vs, _, _, _, _, _ => ⟨fs, vs, rfl⟩

theorem reflectMap_plain {g : GoVal} {t : GoType} {lv : Nat} {F : FieldList} (hp : Plain g t)
    (hT : typeOf t lv = .ok (.obj F)) : reflectMap g = .notMap := by
  obtain ⟨fs, vs, hu⟩ := unwrapEnv_plain g t lv F hp hT
  unfold reflectMap
  split
  · rfl
  · rw [hu]

theorem plain_ne_invalid {g : GoVal} {t : GoType} (hp : Plain g t) : g ≠ .invalid := by
  rintro rfl; simp [Plain] at hp

/-- from `tyEqFields`: a field of the left list is on the right with an equal type -/
theorem tyEqFields_find : ∀ (fs gs : FieldList) (n : String) (t : Ty),
    tyEqFields fs gs = true → (n, t) ∈ fs.toList → ∃ u, gs.find? n = some u ∧ tyEq t u = true
  | .nil, _, _, _, _, hm => by simp [FieldList.toList] at hm
  | .cons m t' fs, gs, n, t, h, hm => by
    simp only [tyEqFields, Bool.and_eq_true] at h
    simp only [FieldList.toList, List.mem_cons, Prod.mk.injEq] at hm
    rcases hm with ⟨rfl, rfl⟩ | hm
    · cases hq : gs.find? n with
      | none => simp [hq] at h
      | some u => exact ⟨u, rfl, by simpa [hq] using h.1⟩
    · exact tyEqFields_find fs gs n t h.2 hm

/-- a well-formed object value binds (first binding) each of its field names to a value whose
own type equals the type the object's type gives that name -/
theorem lookup_zip_wfObj : ∀ (fs : FieldList) (vs : ValList) (n : String) (u : Ty),
    WFObj fs vs = true → fs.find? n = some u →
    ∃ v, lookupVal (List.zip fs.names vs.toList) n = some v ∧ WF v = true ∧
      tyEq u v.typeOf = true
  | .nil, _, _, _, _, hf => by simp [FieldList.find?] at hf
  | .cons m t fs, .nil, _, _, hw, _ => by simp [WFObj] at hw
  | .cons m t fs, .cons v vs, n, u, hw, hf => by
    simp only [WFObj, Bool.and_eq_true] at hw
    simp only [FieldList.find?] at hf
    simp only [FieldList.names, ValList.toList, List.zip_cons_cons]
    split at hf
    · next hmn =>
      cases hf
      exact ⟨v, by simp [lookupVal, hmn], hw.1.1, hw.1.2⟩
    · next hmn =>
      obtain ⟨w, hw1, hw2⟩ := lookup_zip_wfObj fs vs n u hw.2 hf
      refine ⟨w, ?_, hw2⟩
      unfold lookupVal at hw1 ⊢
      rw [List.find?_cons_of_neg (by simpa using hmn)]
      exact hw1

/-- an object value whose own type equals (`types.Equals`) the declared object type passes the
check of every declared field -/
theorem obj_env_accepts {F fs : FieldList} {vs : ValList} (hF : (Ty.obj F).wf = true)
    (hw : WF (.obj (.obj fs) vs) = true) (he : tyEq (.obj F) (.obj fs) = true) :
    envCheck F.toList (List.zip fs.names vs.toList) = .ok () := by
  rw [ConvEnv.accept_iff]
  intro n t hm
  simp only [tyEq, Bool.and_eq_true] at he
  simp only [WF, Bool.and_eq_true] at hw
  obtain ⟨u, hu, htu⟩ := tyEqFields_find F fs n t he.2 hm
  obtain ⟨v, hv, _, huv⟩ := lookup_zip_wfObj fs vs n u hw.2 hu
  refine ⟨v, hv, ?_⟩
  have hwt : t.wf = true := by
    exact wf_of_mem F n t hF hm
  exact tyEq_trans' hwt (wfFields_find fs n u hw.1 hu) htu huv
where
  wf_of_mem : ∀ (F : FieldList) (n : String) (t : Ty), (Ty.obj F).wf = true →
      (n, t) ∈ F.toList → t.wf = true
    | .nil, _, _, _, hm => by simp [FieldList.toList] at hm
    | .cons m t' fs, n, t, hF, hm => by
      simp only [Ty.wf, wfFields, Bool.and_eq_true] at hF
      simp only [FieldList.toList, List.mem_cons, Prod.mk.injEq] at hm
      rcases hm with ⟨rfl, rfl⟩ | hm
      · exact hF.1.2
      · exact wf_of_mem fs n t (by simpa [Ty.wf] using hF.2) hm

/-- **one sample stands for the type, as the facade sees it.**  `g₁`, `g₂` plain values of one Go
type `t` whose static type is an object type (a struct, possibly behind pointers): the
environment made of `g₂` passes the check against the type environment made of `g₁`. -/
theorem sample_accepts {g1 g2 : GoVal} {t : GoType} {F : FieldList}
    {tenv : List (String × Ty)} {venv : List (String × Val)}
    (h1 : Plain g1 t) (h2 : Plain g2 t) (hT : typeOf t 0 = .ok (.obj F))
    (ht : typeEnvOf g1 = .ok tenv) (hv : valEnvOf g2 = .ok venv) :
    envCheck tenv venv = .ok () := by
  have wT := typeOf_wf t 0 _ hT
  -- the compile-time side
  obtain ⟨F1, rfl, hF1w, hF1e⟩ : ∃ F1, tenv = F1.toList ∧ (Ty.obj F1).wf = true ∧
      tyEq (.obj F) (.obj F1) = true := by
    unfold typeEnvOf at ht
    split at ht
    · exact absurd rfl (plain_ne_invalid h1)
    · rw [reflectMap_plain h1 hT] at ht
      simp only at ht
      obtain ⟨T1, hT1, ht⟩ := bind_eq_ok.1 ht
      split at ht
      · next F1 =>
        cases pure_eq_ok.1 ht
        refine ⟨F1, rfl, ?_⟩
        unfold typeOfRV at hT1
        split at hT1
        · next x hx =>
          injection hT1 with heq
          have := agreeU g1 t 0 0 false _ x h1 hT (valOfChecks_ok hx).2.2
          rw [heq] at this
          exact ⟨heq ▸ WF_typeOf_wf x (valOf_wf hx), this⟩
        · rw [Plain.goType g1 t h1] at hT1
          simp only at hT1
          rw [hT] at hT1; cases hT1
          exact ⟨wT, tyEq_refl' wT⟩
      · exact absurd ht throw_ne_ok
  -- the run-time side
  unfold valEnvOf at hv
  split at hv
  · exact absurd rfl (plain_ne_invalid h2)
  · rw [reflectMap_plain h2 hT] at hv
    simp only at hv
    obtain ⟨x, hx, hv⟩ := bind_eq_ok.1 hv
    split at hv
    · next fs vs =>
      cases pure_eq_ok.1 hv
      have hx : valOf g2 0 false = .ok (.obj (.obj fs) vs) := hx
      have hw := valOf_wf hx
      have ha := agreeU g2 t 0 0 false _ _ h2 hT (valOfChecks_ok hx).2.2
      simp only [Val.typeOf] at ha
      refine obj_env_accepts hF1w hw ?_
      rw [tyEq_symm' wT hF1w] at hF1e
      exact tyEq_trans' hF1w wT hF1e ha
    · exact absurd hv throw_ne_ok

end Yae.ConvVal
