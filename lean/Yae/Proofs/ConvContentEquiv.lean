/-
  Lemmas for C15, "contents equal the original", about the abstract content tree itself:
  * `norm_of_distinct`: with pairwise distinct keys in every entry list, inserting the entries
    one by one changes nothing (`Content.norm c = c`);
  * `Content.Equiv` (equality up to the order of map entries) is reflexive, symmetric, contains
    every permutation of an entry list (`ContentEntries.Equiv.of_perm`), relates only entry lists
    with the same keys up to order (`ContentEntries.Equiv.keys_perm`), and preserves
    `distinctKeys` (`Content.Equiv.distinctKeys_eq`).
-/
import Yae.Spec.ConvContent
namespace Yae.ConvVal
open Yae

/-! ### entry lists -/

def ContentEntries.append : ContentEntries → ContentEntries → ContentEntries
  | .nil, ys => ys
  | .cons t k c es, ys => .cons t k c (ContentEntries.append es ys)

theorem ContentEntries.append_nil : ∀ es : ContentEntries, ContentEntries.append es .nil = es
  | .nil => rfl
  | .cons t k c es => by simp only [ContentEntries.append, ContentEntries.append_nil es]

theorem ContentEntries.append_assoc : ∀ a b c : ContentEntries,
    ContentEntries.append (ContentEntries.append a b) c =
      ContentEntries.append a (ContentEntries.append b c)
  | .nil, _, _ => rfl
  | .cons t k x a, b, c => by simp only [ContentEntries.append, ContentEntries.append_assoc a b c]

theorem ContentEntries.hasKey_append : ∀ (a b : ContentEntries) (t : Kind) (k : String),
    (ContentEntries.append a b).hasKey t k = (a.hasKey t k || b.hasKey t k)
  | .nil, b, t, k => by simp [ContentEntries.append, ContentEntries.hasKey]
  | .cons t' k' c a, b, t, k => by
    simp only [ContentEntries.append, ContentEntries.hasKey, ContentEntries.hasKey_append a b t k,
      Bool.or_assoc]

/-- inserting under a key that is not there appends the entry -/
theorem ContentEntries.insert_of_not_hasKey : ∀ (acc : ContentEntries) (t : Kind) (k : String)
    (c : Content), acc.hasKey t k = false →
    acc.insert t k c = ContentEntries.append acc (.cons t k c .nil)
  | .nil, _, _, _, _ => rfl
  | .cons t' k' c' es, t, k, c, h => by
    simp only [ContentEntries.hasKey, Bool.or_eq_false_iff, Bool.and_eq_false_iff] at h
    have hne : ¬ (t' = t ∧ k' = k) := by
      rintro ⟨rfl, rfl⟩
      rcases h.1 with h1 | h1 <;> simp at h1
    simp only [ContentEntries.insert, if_neg hne, ContentEntries.append,
      ContentEntries.insert_of_not_hasKey es t k c h.2]

/-! ### distinct keys: `norm` is the identity -/

mutual
theorem norm_of_distinct : ∀ c : Content, c.distinctKeys = true → c.norm = c
  | .num _, _ | .str _, _ | .bool _, _ | .time _, _ | .absent, _ | .other, _ => rfl
  | .seq xs, h => by
    simp only [Content.distinctKeys] at h
    simp only [Content.norm, normList_of_distinct xs h]
  | .entries es, h => by
    simp only [Content.distinctKeys, Bool.and_eq_true] at h
    simp only [Content.norm]
    rw [normInto_of_distinct es .nil h.1 h.2 (fun _ _ _ => rfl)]
    rfl
  | .fields fs, h => by
    simp only [Content.distinctKeys] at h
    simp only [Content.norm, normFields_of_distinct fs h]
  | .present c, h => by
    simp only [Content.distinctKeys] at h
    simp only [Content.norm, norm_of_distinct c h]
theorem normList_of_distinct : ∀ cs : ContentList, ContentList.distinctKeys cs = true →
    ContentList.norm cs = cs
  | .nil, _ => rfl
  | .cons c cs, h => by
    simp only [ContentList.distinctKeys, Bool.and_eq_true] at h
    simp only [ContentList.norm, norm_of_distinct c h.1, normList_of_distinct cs h.2]
/-- entries with pairwise distinct keys, none of which is in `acc`, are appended in their order -/
theorem normInto_of_distinct : ∀ (es acc : ContentEntries), es.keysNodup = true →
    ContentEntries.distinctKeys es = true →
    (∀ t k, es.hasKey t k = true → acc.hasKey t k = false) →
    ContentEntries.normInto es acc = ContentEntries.append acc es
  | .nil, acc, _, _, _ => by
    simp only [ContentEntries.normInto, ContentEntries.append_nil]
  | .cons t k c es, acc, hn, hd, hdis => by
    simp only [ContentEntries.keysNodup, Bool.and_eq_true, Bool.not_eq_true'] at hn
    simp only [ContentEntries.distinctKeys, Bool.and_eq_true] at hd
    have hacc : acc.hasKey t k = false := hdis t k (by simp [ContentEntries.hasKey])
    simp only [ContentEntries.normInto, norm_of_distinct c hd.1,
      ContentEntries.insert_of_not_hasKey acc t k c hacc]
    rw [normInto_of_distinct es _ hn.2 hd.2, ContentEntries.append_assoc]
    · rfl
    · intro t' k' hk
      rw [ContentEntries.hasKey_append, hdis t' k' (by simp [ContentEntries.hasKey, hk])]
      simp only [ContentEntries.hasKey, Bool.or_false, Bool.false_or, Bool.and_eq_false_iff]
      by_cases h1 : t = t'
      · by_cases h2 : k = k'
        · subst h1; subst h2; rw [hn.1] at hk; cases hk
        · exact Or.inr (by simpa using h2)
      · exact Or.inl (by simpa using h1)
theorem normFields_of_distinct : ∀ fs : ContentFields, ContentFields.distinctKeys fs = true →
    ContentFields.norm fs = fs
  | .nil, _ => rfl
  | .cons n c fs, h => by
    simp only [ContentFields.distinctKeys, Bool.and_eq_true] at h
    simp only [ContentFields.norm, norm_of_distinct c h.1, normFields_of_distinct fs h.2]
end

/-! ### `≈` -/

mutual
theorem Content.Equiv.refl : ∀ c : Content, Content.Equiv c c
  | .num x => .num x | .str s => .str s | .bool b => .bool b | .time t => .time t
  | .absent => .absent | .other => .other
  | .present c => .present (Content.Equiv.refl c)
  | .seq xs => .seq (ContentList.Equiv.refl xs)
  | .entries es => .entries (ContentEntries.Equiv.refl es)
  | .fields fs => .fields (ContentFields.Equiv.refl fs)
theorem ContentList.Equiv.refl : ∀ cs : ContentList, ContentList.Equiv cs cs
  | .nil => .nil
  | .cons c cs => .cons (Content.Equiv.refl c) (ContentList.Equiv.refl cs)
theorem ContentEntries.Equiv.refl : ∀ es : ContentEntries, ContentEntries.Equiv es es
  | .nil => .nil
  | .cons _ _ c es => .cons (Content.Equiv.refl c) (ContentEntries.Equiv.refl es)
theorem ContentFields.Equiv.refl : ∀ fs : ContentFields, ContentFields.Equiv fs fs
  | .nil => .nil
  | .cons _ c fs => .cons (Content.Equiv.refl c) (ContentFields.Equiv.refl fs)
end

def ContentEntries.ofList : List ((Kind × String) × Content) → ContentEntries
  | [] => .nil
  | ((t, k), c) :: es => .cons t k c (ContentEntries.ofList es)

theorem ContentEntries.ofList_toList : ∀ es : ContentEntries,
    ContentEntries.ofList es.toList = es
  | .nil => rfl
  | .cons t k c es => by
    simp only [ContentEntries.toList, ContentEntries.ofList, ContentEntries.ofList_toList es]

theorem ContentEntries.toList_ofList : ∀ l : List ((Kind × String) × Content),
    (ContentEntries.ofList l).toList = l
  | [] => rfl
  | ((t, k), c) :: es => by
    simp only [ContentEntries.toList, ContentEntries.ofList, ContentEntries.toList_ofList es]

theorem ContentEntries.Equiv.of_perm_list {l1 l2 : List ((Kind × String) × Content)}
    (h : l1.Perm l2) :
    ContentEntries.Equiv (ContentEntries.ofList l1) (ContentEntries.ofList l2) := by
  induction h with
  | nil => exact .nil
  | cons x _ ih =>
    obtain ⟨⟨t, k⟩, c⟩ := x
    exact .cons (Content.Equiv.refl c) ih
  | swap x y l =>
    obtain ⟨⟨t, k⟩, c⟩ := x
    obtain ⟨⟨t', k'⟩, c'⟩ := y
    exact .swap
  | trans _ _ ih1 ih2 => exact .trans ih1 ih2

/-- **`≈` contains every reordering of an entry list** -/
theorem ContentEntries.Equiv.of_perm {es fs : ContentEntries} (h : es.toList.Perm fs.toList) :
    ContentEntries.Equiv es fs := by
  have := ContentEntries.Equiv.of_perm_list h
  rwa [ContentEntries.ofList_toList, ContentEntries.ofList_toList] at this

theorem hasKey_eq_true_iff : ∀ (es : ContentEntries) (t : Kind) (k : String),
    es.hasKey t k = true ↔ (t, k) ∈ es.toList.map Prod.fst
  | .nil, t, k => by simp [ContentEntries.hasKey, ContentEntries.toList]
  | .cons t' k' c es, t, k => by
    simp only [ContentEntries.hasKey, ContentEntries.toList, List.map_cons, List.mem_cons,
      Bool.or_eq_true, Bool.and_eq_true, beq_iff_eq, hasKey_eq_true_iff es t k, Prod.mk.injEq]
    constructor
    · rintro (⟨rfl, rfl⟩ | h)
      · exact Or.inl ⟨rfl, rfl⟩
      · exact Or.inr h
    · rintro (⟨rfl, rfl⟩ | h)
      · exact Or.inl ⟨rfl, rfl⟩
      · exact Or.inr h

theorem keysNodup_eq_true_iff : ∀ es : ContentEntries,
    es.keysNodup = true ↔ (es.toList.map Prod.fst).Nodup
  | .nil => by simp [ContentEntries.keysNodup, ContentEntries.toList]
  | .cons t k c es => by
    simp only [ContentEntries.keysNodup, ContentEntries.toList, List.map_cons, List.nodup_cons,
      Bool.and_eq_true, Bool.not_eq_true', keysNodup_eq_true_iff es]
    rw [← Bool.not_eq_true, hasKey_eq_true_iff]

/-- what `≈` preserves, for the recursor (one motive per relation of the mutual block) -/
private def MotC (c d : Content) : Prop := Content.Equiv d c ∧ c.distinctKeys = d.distinctKeys
private def MotL (cs ds : ContentList) : Prop :=
  ContentList.Equiv ds cs ∧ ContentList.distinctKeys cs = ContentList.distinctKeys ds
private def MotE (es fs : ContentEntries) : Prop :=
  ContentEntries.Equiv fs es ∧ (es.toList.map Prod.fst).Perm (fs.toList.map Prod.fst) ∧
    ContentEntries.distinctKeys es = ContentEntries.distinctKeys fs
private def MotF (fs gs : ContentFields) : Prop :=
  ContentFields.Equiv gs fs ∧ ContentFields.distinctKeys fs = ContentFields.distinctKeys gs

theorem keysNodup_perm {es fs : ContentEntries}
    (h : (es.toList.map Prod.fst).Perm (fs.toList.map Prod.fst)) :
    es.keysNodup = fs.keysNodup := by
  rw [Bool.eq_iff_iff, keysNodup_eq_true_iff, keysNodup_eq_true_iff]
  exact h.nodup_iff

private theorem equiv_all :
    (∀ c d, Content.Equiv c d → MotC c d) ∧ (∀ es fs, ContentEntries.Equiv es fs → MotE es fs) := by
  have key := @Content.Equiv.rec (motive_1 := fun c d _ => MotC c d)
    (motive_2 := fun cs ds _ => MotL cs ds) (motive_3 := fun es fs _ => MotE es fs)
    (motive_4 := fun fs gs _ => MotF fs gs)
    (fun x => ⟨.num x, rfl⟩) (fun s => ⟨.str s, rfl⟩) (fun b => ⟨.bool b, rfl⟩)
    (fun t => ⟨.time t, rfl⟩) ⟨.absent, rfl⟩ ⟨.other, rfl⟩
    (fun _ ih => ⟨.present ih.1, by simp only [Content.distinctKeys, ih.2]⟩)
    (fun _ ih => ⟨.seq ih.1, by simp only [Content.distinctKeys, ih.2]⟩)
    (fun _ ih => ⟨.entries ih.1, by
      simp only [Content.distinctKeys, ih.2.2, keysNodup_perm ih.2.1]⟩)
    (fun _ ih => ⟨.fields ih.1, by simp only [Content.distinctKeys, ih.2]⟩)
    ⟨.nil, rfl⟩
    (fun _ _ ih1 ih2 => ⟨.cons ih1.1 ih2.1, by simp only [ContentList.distinctKeys, ih1.2, ih2.2]⟩)
    ⟨.nil, List.Perm.refl _, rfl⟩
    (fun _ _ ih1 ih2 => ⟨.cons ih1.1 ih2.1, by
      simp only [ContentEntries.toList, List.map_cons]; exact ih2.2.1.cons _, by
      simp only [ContentEntries.distinctKeys, ih1.2, ih2.2.2]⟩)
    (fun {t k c t' k' c' es} => ⟨.swap, by
      simp only [ContentEntries.toList, List.map_cons]; exact List.Perm.swap _ _ _, by
      simp only [ContentEntries.distinctKeys]
      cases c.distinctKeys <;> cases c'.distinctKeys <;> rfl⟩)
    (fun _ _ ih1 ih2 => ⟨.trans ih2.1 ih1.1, ih1.2.1.trans ih2.2.1, ih1.2.2.trans ih2.2.2⟩)
    ⟨.nil, rfl⟩
    (fun _ _ ih1 ih2 => ⟨.cons ih1.1 ih2.1, by
      simp only [ContentFields.distinctKeys, ih1.2, ih2.2]⟩)
  exact ⟨fun c d h => key h, fun es fs h => @ContentEntries.Equiv.rec
    (motive_1 := fun c d _ => MotC c d)
    (motive_2 := fun cs ds _ => MotL cs ds) (motive_3 := fun es fs _ => MotE es fs)
    (motive_4 := fun fs gs _ => MotF fs gs)
    (fun x => ⟨.num x, rfl⟩) (fun s => ⟨.str s, rfl⟩) (fun b => ⟨.bool b, rfl⟩)
    (fun t => ⟨.time t, rfl⟩) ⟨.absent, rfl⟩ ⟨.other, rfl⟩
    (fun _ ih => ⟨.present ih.1, by simp only [Content.distinctKeys, ih.2]⟩)
    (fun _ ih => ⟨.seq ih.1, by simp only [Content.distinctKeys, ih.2]⟩)
    (fun _ ih => ⟨.entries ih.1, by
      simp only [Content.distinctKeys, ih.2.2, keysNodup_perm ih.2.1]⟩)
    (fun _ ih => ⟨.fields ih.1, by simp only [Content.distinctKeys, ih.2]⟩)
    ⟨.nil, rfl⟩
    (fun _ _ ih1 ih2 => ⟨.cons ih1.1 ih2.1, by simp only [ContentList.distinctKeys, ih1.2, ih2.2]⟩)
    ⟨.nil, List.Perm.refl _, rfl⟩
    (fun _ _ ih1 ih2 => ⟨.cons ih1.1 ih2.1, by
      simp only [ContentEntries.toList, List.map_cons]; exact ih2.2.1.cons _, by
      simp only [ContentEntries.distinctKeys, ih1.2, ih2.2.2]⟩)
    (fun {t k c t' k' c' es} => ⟨.swap, by
      simp only [ContentEntries.toList, List.map_cons]; exact List.Perm.swap _ _ _, by
      simp only [ContentEntries.distinctKeys]
      cases c.distinctKeys <;> cases c'.distinctKeys <;> rfl⟩)
    (fun _ _ ih1 ih2 => ⟨.trans ih2.1 ih1.1, ih1.2.1.trans ih2.2.1, ih1.2.2.trans ih2.2.2⟩)
    ⟨.nil, rfl⟩
    (fun _ _ ih1 ih2 => ⟨.cons ih1.1 ih2.1, by
      simp only [ContentFields.distinctKeys, ih1.2, ih2.2]⟩) es fs h⟩

/-- `≈` is symmetric -/
theorem Content.Equiv.symm {c d : Content} (h : Content.Equiv c d) : Content.Equiv d c :=
  (equiv_all.1 c d h).1

/-- **`≈` relates only trees with the same `distinctKeys` verdict** -/
theorem Content.Equiv.distinctKeys_eq {c d : Content} (h : Content.Equiv c d) :
    c.distinctKeys = d.distinctKeys :=
  (equiv_all.1 c d h).2

/-- **`≈` relates only entry lists with the same keys up to order** (so: no entry lost, none
invented) -/
theorem ContentEntries.Equiv.keys_perm {es fs : ContentEntries} (h : ContentEntries.Equiv es fs) :
    (es.toList.map Prod.fst).Perm (fs.toList.map Prod.fst) :=
  (equiv_all.2 es fs h).2.1

private def TrC (c d : Content) : Prop := ∀ e, Content.Equiv d e → Content.Equiv c e
private def TrL (cs ds : ContentList) : Prop :=
  ∀ es, ContentList.Equiv ds es → ContentList.Equiv cs es
private def TrF (fs gs : ContentFields) : Prop :=
  ∀ hs, ContentFields.Equiv gs hs → ContentFields.Equiv fs hs

/-- `≈` is transitive (with `refl` and `symm`: an equivalence relation) -/
theorem Content.Equiv.trans {c d e : Content} (h1 : Content.Equiv c d) (h2 : Content.Equiv d e) :
    Content.Equiv c e :=
  @Content.Equiv.rec (motive_1 := fun c d _ => TrC c d) (motive_2 := fun cs ds _ => TrL cs ds)
    (motive_3 := fun _ _ _ => True) (motive_4 := fun fs gs _ => TrF fs gs)
    (fun _ _ h => h) (fun _ _ h => h) (fun _ _ h => h) (fun _ _ h => h) (fun _ h => h)
    (fun _ h => h)
    (fun _ ih e h => by cases h with | present h' => exact .present (ih _ h'))
    (fun _ ih e h => by cases h with | seq h' => exact .seq (ih _ h'))
    (fun he _ e h => by cases h with | entries h' => exact .entries (.trans he h'))
    (fun _ ih e h => by cases h with | fields h' => exact .fields (ih _ h'))
    (fun _ h => h)
    (fun _ _ ihc ihl es h => by cases h with | cons h1 h2 => exact .cons (ihc _ h1) (ihl _ h2))
    trivial (fun _ _ _ _ => trivial) trivial (fun _ _ _ _ => trivial)
    (fun _ h => h)
    (fun _ _ ihc ihl es h => by cases h with | cons h1 h2 => exact .cons (ihc _ h1) (ihl _ h2))
    c d h1 e h2

end Yae.ConvVal
