/-
  Lemmas for C15: the content equations read through the accessors of the model —
  `EntryList.find?` (map subscript), `objGet?` (member access by name), `lookupVal`
  (environment lookup).
-/
import Yae.Proofs.ConvContentEnv
import Yae.Proofs.NumLemmas
namespace Yae.ConvVal
open Yae Yae.Sound Yae.ConvEnv

/-! ### shapes -/

theorem content_eq_seq {v : Val} {cs : ContentList} (h : v.content = .seq cs) :
    ∃ ty xs, v = .list ty xs ∧ ValList.content xs = cs := by
  cases v with
  | list ty xs => simp only [Val.content, Content.seq.injEq] at h; exact ⟨ty, xs, rfl, h⟩
  | obj ty vs => cases ty <;> simp [Val.content] at h
  | _ => simp [Val.content] at h

theorem content_eq_entries {v : Val} {ces : ContentEntries} (h : v.content = .entries ces) :
    ∃ ty es, v = .map ty es ∧ EntryList.content es = ces := by
  cases v with
  | map ty es => simp only [Val.content, Content.entries.injEq] at h; exact ⟨ty, es, rfl, h⟩
  | obj ty vs => cases ty <;> simp [Val.content] at h
  | _ => simp [Val.content] at h

theorem content_eq_fields {v : Val} {cf : ContentFields} (h : v.content = .fields cf) :
    ∃ fs vs, v = .obj (.obj fs) vs ∧ ValList.fieldContent fs vs = cf := by
  cases v with
  | obj ty vs =>
    cases ty <;> simp only [Val.content, reduceCtorEq] at h
    next fs => exact ⟨fs, vs, rfl, by simpa using h⟩
  | _ => simp [Val.content] at h

/-! ### map entries by key -/

theorem mem_hasKey : ∀ (es : ContentEntries) (t : Kind) (k : String) (c : Content),
    ((t, k), c) ∈ es.toList → es.hasKey t k = true
  | .nil, _, _, _, h => by simp [ContentEntries.toList] at h
  | .cons t' k' c' es, t, k, c, h => by
    simp only [ContentEntries.toList, List.mem_cons, Prod.mk.injEq] at h
    simp only [ContentEntries.hasKey, Bool.or_eq_true, Bool.and_eq_true, beq_iff_eq]
    rcases h with ⟨⟨rfl, rfl⟩, _⟩ | h
    · exact Or.inl ⟨rfl, rfl⟩
    · exact Or.inr (mem_hasKey es t k c h)

/-- with distinct keys, looking a key up in the yae map finds the value listed under it -/
theorem entries_find : ∀ (es : EntryList) (t : Kind) (k : String) (c : Content),
    (EntryList.content es).keysNodup = true → ((t, k), c) ∈ (EntryList.content es).toList →
    ∃ x, es.find? t k = some x ∧ x.content = c
  | .nil, _, _, _, _, h => by simp [EntryList.content, ContentEntries.toList] at h
  | .cons t' k' v es, t, k, c, hn, h => by
    simp only [EntryList.content, ContentEntries.keysNodup, Bool.and_eq_true,
      Bool.not_eq_true'] at hn
    simp only [EntryList.content, ContentEntries.toList, List.mem_cons, Prod.mk.injEq] at h
    simp only [EntryList.find?]
    rcases h with ⟨⟨rfl, rfl⟩, rfl⟩ | h
    · exact ⟨v, by simp, rfl⟩
    · have hk := mem_hasKey _ t k c h
      have hne : ¬ (t' = t ∧ k' = k) := by
        rintro ⟨rfl, rfl⟩; rw [hn.1] at hk; cases hk
      rw [if_neg hne]
      exact entries_find es t k c hn.2 h

/-! ### object fields by name -/

theorem mem_fieldContent_names : ∀ (fs : FieldList) (vs : ValList) (n : String) (c : Content),
    (n, c) ∈ (ValList.fieldContent fs vs).toList → n ∈ fs.names
  | .cons m t fs, .cons v vs, n, c, h => by
    simp only [ValList.fieldContent, ContentFields.toList, List.mem_cons, Prod.mk.injEq] at h
    simp only [FieldList.names, List.mem_cons]
    rcases h with ⟨rfl, _⟩ | h
    · exact Or.inl rfl
    · exact Or.inr (mem_fieldContent_names fs vs n c h)
  | .nil, _, _, _, h => by simp [ValList.fieldContent, ContentFields.toList] at h
  | .cons _ _ _, .nil, _, _, h => by simp [ValList.fieldContent, ContentFields.toList] at h

/-- with distinct field names, member access by name finds the value listed under the name -/
theorem fieldContent_get : ∀ (fs : FieldList) (vs : ValList) (n : String) (c : Content),
    fs.names.Nodup → (n, c) ∈ (ValList.fieldContent fs vs).toList →
    ∃ x, objGet? (.obj fs) vs n = some x ∧ x.content = c
  | .cons m t fs, .cons v vs, n, c, hnd, h => by
    simp only [ValList.fieldContent, ContentFields.toList, List.mem_cons, Prod.mk.injEq] at h
    simp only [FieldList.names, List.nodup_cons] at hnd
    simp only [objGet?, FieldList.indexOf?]
    rcases h with ⟨rfl, rfl⟩ | h
    · exact ⟨v, by simp [ValList.get?], rfl⟩
    · have hmem := mem_fieldContent_names fs vs n c h
      have hne : ¬ m = n := by rintro rfl; exact hnd.1 hmem
      obtain ⟨x, hx, hc⟩ := fieldContent_get fs vs n c hnd.2 h
      simp only [objGet?] at hx
      rw [if_neg hne]
      cases hi : fs.indexOf? n with
      | none => simp [hi] at hx
      | some i =>
        simp only [hi, Option.bind] at hx
        exact ⟨x, by simpa [ValList.get?] using hx, hc⟩
  | .nil, _, _, _, _, h => by simp [ValList.fieldContent, ContentFields.toList] at h
  | .cons _ _ _, .nil, _, _, _, h => by simp [ValList.fieldContent, ContentFields.toList] at h

/-! ### environments by name -/

theorem envContents_fst (env : List (String × Val)) :
    (envContents env).map Prod.fst = env.map Prod.fst := by
  simp [envContents, List.map_map, Function.comp_def]

/-- a binding list whose contents are `cs` (names distinct) binds every name of `cs` to a value
with the listed content -/
theorem lookup_of_envContents {env : List (String × Val)} {cs : List (String × Content)}
    (he : envContents env = cs) (hnd : (cs.map Prod.fst).Nodup) {n : String} {c : Content}
    (hm : (n, c) ∈ cs) : ∃ v, lookupVal env n = some v ∧ v.content = c := by
  subst he
  rw [envContents_fst] at hnd
  simp only [envContents, List.mem_map, Prod.mk.injEq] at hm
  obtain ⟨⟨n', v⟩, hmem, rfl, rfl⟩ := hm
  exact ⟨v, (lookupVal_eq_some_iff hnd n' v).2 hmem, rfl⟩

theorem envNorm_of_distinct : ∀ cs : List (String × Content),
    (∀ p ∈ cs, p.2.distinctKeys = true) → envNorm cs = cs
  | [], _ => rfl
  | p :: cs, h => by
    simp only [envNorm, List.map_cons]
    rw [norm_of_distinct p.2 (h p List.mem_cons_self)]
    exact congrArg _ (envNorm_of_distinct cs fun q hq => h q (List.mem_cons_of_mem _ hq))

/-! ### the names of a struct environment are distinct -/

theorem map_fst_zip_sublist : ∀ (a : List String) (b : List Val),
    ((List.zip a b).map Prod.fst).Sublist a
  | [], _ => by simp
  | _ :: _, [] => by simp
  | x :: a, y :: b => by
    simp only [List.zip_cons_cons, List.map_cons]
    exact (map_fst_zip_sublist a b).cons_cons x

/-- an environment made of a struct (not of a string-keyed map) has pairwise distinct names:
`valOf` refuses a struct with two fields of one tag name -/
theorem valEnvOf_struct_nodup {g : GoVal} {env : List (String × Val)}
    (h : valEnvOf g = .ok env) (hrm : reflectMap g = .notMap) : (env.map Prod.fst).Nodup := by
  unfold valEnvOf at h
  split at h
  · cases pure_eq_ok.1 h; simp
  · rw [hrm] at h
    simp only at h
    obtain ⟨x, hx, h⟩ := bind_eq_ok.1 h
    split at h
    · next fs vs =>
      cases pure_eq_ok.1 h
      have hx : valOf g 0 false = .ok (.obj (.obj fs) vs) := hx
      have hw := valOf_wf hx
      simp only [WF, Ty.wf, Bool.and_eq_true] at hw
      exact (wfFields_nodup fs hw.1).sublist (map_fst_zip_sublist _ _)
    · exact absurd h throw_ne_ok

/-! ### string keys never collide -/

/-- the keys of a map whose keys are all plain Go strings -/
def stringKeys : GoEntryList → Option (List String)
  | .nil => some []
  | .cons (.string s) _ es => (stringKeys es).map (s :: ·)
  | .cons _ _ _ => none

theorem hasKey_stringKeys : ∀ (es : GoEntryList) (ks : List String) (ces : ContentEntries)
    (s : String), stringKeys es = some ks → GoEntryList.content es = some ces →
    ces.hasKey .str (Num.quote s) = true → s ∈ ks
  | .nil, ks, ces, s, _, hc, hk => by
    simp only [GoEntryList.content, Option.some.injEq] at hc
    subst hc; simp [ContentEntries.hasKey] at hk
  | .cons k v es, ks, ces, s, hs, hc, hk => by
    cases k <;> simp only [stringKeys, Option.map_eq_some_iff, reduceCtorEq] at hs
    next s' =>
    obtain ⟨ks', hks', rfl⟩ := hs
    simp only [GoEntryList.content, GoVal.content, Option.bind, Content.key?] at hc
    split at hc
    · next tag key c r htk hv hr =>
      cases hc; cases htk
      simp only [ContentEntries.hasKey, Bool.or_eq_true, Bool.and_eq_true, beq_iff_eq] at hk
      rcases hk with ⟨_, hq⟩ | hk
      · rw [Num.quote_injective hq]; exact List.mem_cons_self
      · exact List.mem_cons_of_mem _ (hasKey_stringKeys es ks' r s hks' hr hk)
    · cases hc

/-- **distinct Go string keys convert to distinct yae keys** (quoting is injective) -/
theorem stringKeys_nodup : ∀ (es : GoEntryList) (ks : List String) (ces : ContentEntries),
    stringKeys es = some ks → ks.Nodup → GoEntryList.content es = some ces →
    ces.keysNodup = true
  | .nil, ks, ces, _, _, hc => by
    simp only [GoEntryList.content, Option.some.injEq] at hc
    subst hc; rfl
  | .cons k v es, ks, ces, hs, hnd, hc => by
    cases k <;> simp only [stringKeys, Option.map_eq_some_iff, reduceCtorEq] at hs
    next s' =>
    obtain ⟨ks', hks', rfl⟩ := hs
    simp only [GoEntryList.content, GoVal.content, Option.bind, Content.key?] at hc
    split at hc
    · next tag key c r htk hv hr =>
      cases hc; cases htk
      simp only [List.nodup_cons] at hnd
      simp only [ContentEntries.keysNodup, Bool.and_eq_true, Bool.not_eq_true']
      refine ⟨?_, stringKeys_nodup es ks' r hks' hnd.2 hr⟩
      cases hh : r.hasKey .str (Num.quote s') with
      | false => rfl
      | true => exact absurd (hasKey_stringKeys es ks' r s' hks' hr hh) hnd.1
    · cases hc

end Yae.ConvVal
