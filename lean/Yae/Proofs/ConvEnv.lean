/-
  Lemmas for C07: the facade's environment check (`Yae.envCheck`, `facade.go: envCheck`).
-/
import Yae.Model.Conv
import Yae.Proofs.TyEq
namespace Yae.ConvEnv
open Yae

/-! ### one binding -/

theorem checkBinding_none_iff (venv : List (String × Val)) (n : String) (t : Ty) :
    checkBinding venv n t = none ↔ ∃ v, lookupVal venv n = some v ∧ tyEq t v.typeOf = true := by
  unfold checkBinding
  cases h : lookupVal venv n with
  | none => simp
  | some v =>
    by_cases ht : tyEq t v.typeOf = true <;> simp [ht]

theorem checkBinding_undefined_iff (venv : List (String × Val)) (n : String) (t : Ty) :
    checkBinding venv n t = some .undefined ↔ lookupVal venv n = none := by
  unfold checkBinding
  cases h : lookupVal venv n with
  | none => simp
  | some v => by_cases ht : tyEq t v.typeOf = true <;> simp [ht]

theorem checkBinding_mismatch_iff (venv : List (String × Val)) (n : String) (t : Ty) :
    checkBinding venv n t = some .mismatch ↔
      ∃ v, lookupVal venv n = some v ∧ tyEq t v.typeOf = false := by
  unfold checkBinding
  cases h : lookupVal venv n with
  | none => simp
  | some v => by_cases ht : tyEq t v.typeOf = true <;> simp [ht]

theorem checkBinding_ne_mixed (venv : List (String × Val)) (n : String) (t : Ty) :
    checkBinding venv n t ≠ some .mixed := by
  unfold checkBinding
  cases h : lookupVal venv n with
  | none => simp
  | some v => by_cases ht : tyEq t v.typeOf = true <;> simp [ht]

/-! ### the list of offences -/

/-- the offences `envCheck` collects, in the order of `tenv` -/
def errs (tenv : List (String × Ty)) (venv : List (String × Val)) : List EnvErr :=
  tenv.filterMap fun (n, t) => checkBinding venv n t

/-- the verdict as a function of the offences -/
def verdict (es : List EnvErr) : Except EnvErr Unit :=
  if es.isEmpty then .ok ()
  else if es.all (· == .undefined) then .error .undefined
  else if es.all (· == .mismatch) then .error .mismatch
  else .error .mixed

theorem envCheck_eq (tenv : List (String × Ty)) (venv : List (String × Val)) :
    envCheck tenv venv = verdict (errs tenv venv) := rfl

theorem verdict_ok_iff (es : List EnvErr) : verdict es = .ok () ↔ es = [] := by
  unfold verdict
  cases es with
  | nil => simp
  | cons e es =>
    simp only [List.isEmpty_cons, Bool.false_eq_true, if_false, reduceCtorEq, iff_false]
    split
    · simp
    · split <;> simp

theorem verdict_perm {es es' : List EnvErr} (h : es.Perm es') : verdict es = verdict es' := by
  unfold verdict
  have h1 : es.isEmpty = es'.isEmpty := by
    cases es <;> cases es' <;> simp_all
  have h2 : ∀ p : EnvErr → Bool, es.all p = es'.all p := by
    intro p
    rw [Bool.eq_iff_iff, List.all_eq_true, List.all_eq_true]
    exact ⟨fun H x hx => H x (h.mem_iff.2 hx), fun H x hx => H x (h.mem_iff.1 hx)⟩
  rw [h1, h2, h2]

theorem errs_eq_nil_iff (tenv : List (String × Ty)) (venv : List (String × Val)) :
    errs tenv venv = [] ↔ ∀ n t, (n, t) ∈ tenv → checkBinding venv n t = none := by
  unfold errs
  rw [List.filterMap_eq_nil_iff]
  constructor
  · intro h n t hm; exact h (n, t) hm
  · intro h p hm; exact h p.1 p.2 hm

/-- **acceptance**: every compile-time binding (every one of them, also when a name occurs
twice in `tenv`) finds — by the first binding of that name in `venv` — a value whose own type is
`types.Equals` to the declared type. -/
theorem accept_iff (tenv : List (String × Ty)) (venv : List (String × Val)) :
    envCheck tenv venv = .ok () ↔
      ∀ n t, (n, t) ∈ tenv → ∃ v, lookupVal venv n = some v ∧ tyEq t v.typeOf = true := by
  rw [envCheck_eq, verdict_ok_iff, errs_eq_nil_iff]
  constructor
  · intro h n t hm; exact (checkBinding_none_iff venv n t).1 (h n t hm)
  · intro h n t hm; exact (checkBinding_none_iff venv n t).2 (h n t hm)

theorem reject_iff (tenv : List (String × Ty)) (venv : List (String × Val)) :
    (∃ e, envCheck tenv venv = .error e) ↔
      ∃ n t, (n, t) ∈ tenv ∧ (lookupVal venv n = none ∨
        ∃ v, lookupVal venv n = some v ∧ tyEq t v.typeOf = false) := by
  constructor
  · rintro ⟨e, he⟩
    have hno : ¬ envCheck tenv venv = .ok () := by rw [he]; simp
    rw [accept_iff] at hno
    obtain ⟨n, hno⟩ := Classical.not_forall.1 hno
    obtain ⟨t, hno⟩ := Classical.not_forall.1 hno
    obtain ⟨hm, hx⟩ := Classical.not_imp.1 hno
    refine ⟨n, t, hm, ?_⟩
    cases hl : lookupVal venv n with
    | none => exact Or.inl rfl
    | some v =>
      refine Or.inr ⟨v, rfl, ?_⟩
      cases ht : tyEq t v.typeOf with
      | false => rfl
      | true => exact absurd ⟨v, hl, ht⟩ hx
  · rintro ⟨n, t, hm, hx⟩
    cases hc : envCheck tenv venv with
    | error e => exact ⟨e, rfl⟩
    | ok u =>
      exfalso
      obtain ⟨v, hv, ht⟩ := (accept_iff tenv venv).1 hc n t hm
      rcases hx with hx | ⟨w, hw, hf⟩
      · rw [hx] at hv; cases hv
      · rw [hw] at hv; cases hv; rw [ht] at hf; cases hf

/-! ### the verdict only looks at the compile-time names -/

theorem envCheck_congr {tenv : List (String × Ty)} {venv venv' : List (String × Val)}
    (h : ∀ n t, (n, t) ∈ tenv → lookupVal venv n = lookupVal venv' n) :
    envCheck tenv venv = envCheck tenv venv' := by
  rw [envCheck_eq, envCheck_eq]
  congr 1
  unfold errs
  induction tenv with
  | nil => rfl
  | cons p rest ih =>
    have hp : checkBinding venv p.1 p.2 = checkBinding venv' p.1 p.2 := by
      unfold checkBinding
      rw [h p.1 p.2 List.mem_cons_self]
    have ih' := ih fun n t hm => h n t (List.mem_cons_of_mem _ hm)
    simp only [List.filterMap_cons, hp, ih']

theorem lookupVal_append (a b : List (String × Val)) (n : String) :
    lookupVal (a ++ b) n = (lookupVal a n).or (lookupVal b n) := by
  unfold lookupVal
  rw [List.find?_append]
  cases List.find? (fun p => p.1 == n) a <;> simp

theorem lookupVal_none_of_not_mem {a : List (String × Val)} {n : String}
    (h : ∀ p ∈ a, p.1 ≠ n) : lookupVal a n = none := by
  unfold lookupVal
  rw [Option.map_eq_none_iff, List.find?_eq_none]
  intro p hp; simpa using h p hp

/-- run-time bindings for names the compile-time environment does not know, placed anywhere
(in front of, behind, or around the others), do not change the verdict -/
theorem extra_names_ok (tenv : List (String × Ty)) (venv pre post : List (String × Val))
    (hpre : ∀ p ∈ pre, ∀ t, (p.1, t) ∉ tenv) (hpost : ∀ p ∈ post, ∀ t, (p.1, t) ∉ tenv) :
    envCheck tenv (pre ++ venv ++ post) = envCheck tenv venv := by
  apply envCheck_congr
  intro n t hm
  have h1 : lookupVal pre n = none :=
    lookupVal_none_of_not_mem fun p hp hpn => hpre p hp t (by rw [hpn]; exact hm)
  have h2 : lookupVal post n = none :=
    lookupVal_none_of_not_mem fun p hp hpn => hpost p hp t (by rw [hpn]; exact hm)
  rw [lookupVal_append, lookupVal_append, h1, h2]
  cases lookupVal venv n <;> rfl

/-! ### order -/

theorem lookupVal_eq_some_iff {venv : List (String × Val)} (hnd : (venv.map Prod.fst).Nodup)
    (n : String) (v : Val) : lookupVal venv n = some v ↔ (n, v) ∈ venv := by
  induction venv with
  | nil => simp [lookupVal]
  | cons p rest ih =>
    obtain ⟨m, w⟩ := p
    simp only [List.map_cons, List.nodup_cons, List.mem_map, not_exists, not_and] at hnd
    have ih' := ih hnd.2
    by_cases hmn : m = n
    · subst hmn
      have : lookupVal ((m, w) :: rest) m = some w := by simp [lookupVal]
      rw [this]
      constructor
      · intro h; cases h; exact List.mem_cons_self
      · intro h
        rcases List.mem_cons.1 h with h | h
        · cases h; rfl
        · exact absurd rfl (hnd.1 (m, v) h)
    · have : lookupVal ((m, w) :: rest) n = lookupVal rest n := by
        simp [lookupVal, hmn]
      rw [this, ih']
      constructor
      · exact List.mem_cons_of_mem _
      · intro h
        rcases List.mem_cons.1 h with h | h
        · cases h; exact absurd rfl hmn
        · exact h

theorem lookupVal_perm {venv venv' : List (String × Val)} (hnd : (venv.map Prod.fst).Nodup)
    (hp : venv.Perm venv') (n : String) : lookupVal venv n = lookupVal venv' n := by
  have hnd' : (venv'.map Prod.fst).Nodup := (hp.map Prod.fst).nodup_iff.1 hnd
  apply Option.ext
  intro v
  rw [lookupVal_eq_some_iff hnd, lookupVal_eq_some_iff hnd', hp.mem_iff]

/-- the verdict — including the class of the error — does not depend on the order of the
compile-time bindings, nor on the order of the run-time bindings when their names are distinct
(both are Go maps) -/
theorem order_irrelevant {tenv tenv' : List (String × Ty)} {venv venv' : List (String × Val)}
    (ht : tenv.Perm tenv') (hv : venv.Perm venv') (hnd : (venv.map Prod.fst).Nodup) :
    envCheck tenv venv = envCheck tenv' venv' := by
  rw [envCheck_congr (venv' := venv') (fun n _ _ => lookupVal_perm hnd hv n),
    envCheck_eq, envCheck_eq]
  exact verdict_perm (ht.filterMap _)

/-! ### the error classes -/

theorem mem_errs_iff (tenv : List (String × Ty)) (venv : List (String × Val)) (e : EnvErr) :
    e ∈ errs tenv venv ↔ ∃ n t, (n, t) ∈ tenv ∧ checkBinding venv n t = some e := by
  unfold errs
  rw [List.mem_filterMap]
  constructor
  · rintro ⟨p, hp, h⟩; exact ⟨p.1, p.2, hp, h⟩
  · rintro ⟨n, t, hp, h⟩; exact ⟨(n, t), hp, h⟩

theorem verdict_undefined_iff (es : List EnvErr) :
    verdict es = .error .undefined ↔ es ≠ [] ∧ ∀ e ∈ es, e = .undefined := by
  unfold verdict
  cases es with
  | nil => simp
  | cons e es =>
    simp only [List.isEmpty_cons, Bool.false_eq_true, if_false, ne_eq, reduceCtorEq,
      not_false_eq_true, true_and]
    split
    · next h =>
      rw [List.all_eq_true] at h
      simp only [true_iff]
      intro x hx; simpa using h x hx
    · next h =>
      rw [List.all_eq_true] at h
      have : ¬ ∀ x ∈ e :: es, x = EnvErr.undefined := fun H => h fun x hx => by simpa using H x hx
      split <;> simpa using this

theorem envCheck_undefined_iff (tenv : List (String × Ty)) (venv : List (String × Val)) :
    envCheck tenv venv = .error .undefined ↔
      (∃ n t, (n, t) ∈ tenv ∧ lookupVal venv n = none) ∧
      ∀ n t, (n, t) ∈ tenv → ∀ v, lookupVal venv n = some v → tyEq t v.typeOf = true := by
  rw [envCheck_eq, verdict_undefined_iff]
  constructor
  · rintro ⟨hne, hall⟩
    constructor
    · cases he : errs tenv venv with
      | nil => exact absurd he hne
      | cons e es =>
        have hmem : e ∈ errs tenv venv := by rw [he]; exact List.mem_cons_self
        obtain ⟨n, t, hm, hc⟩ := (mem_errs_iff tenv venv e).1 hmem
        rw [hall e hmem] at hc
        exact ⟨n, t, hm, (checkBinding_undefined_iff venv n t).1 hc⟩
    · intro n t hm v hv
      cases ht : tyEq t v.typeOf with
      | true => rfl
      | false =>
        have hc := (checkBinding_mismatch_iff venv n t).2 ⟨v, hv, ht⟩
        have := hall _ ((mem_errs_iff tenv venv _).2 ⟨n, t, hm, hc⟩)
        cases this
  · rintro ⟨⟨n, t, hm, hv⟩, hall⟩
    constructor
    · intro he
      have := (mem_errs_iff tenv venv .undefined).2
        ⟨n, t, hm, (checkBinding_undefined_iff venv n t).2 hv⟩
      rw [he] at this; cases this
    · intro e he
      obtain ⟨n, t, hm, hc⟩ := (mem_errs_iff tenv venv e).1 he
      cases e with
      | undefined => rfl
      | mismatch =>
        obtain ⟨v, hv, hf⟩ := (checkBinding_mismatch_iff venv n t).1 hc
        rw [hall n t hm v hv] at hf; cases hf
      | mixed => exact absurd hc (checkBinding_ne_mixed venv n t)

end Yae.ConvEnv
