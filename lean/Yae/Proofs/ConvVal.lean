/-
  Lemmas for C15: `conv.typeOf` / `conv.valOf` (`Yae/Model/Conv.lean`).
  * every reported type is well formed (`typeOf_wf`), independent of the level (`typeOf_level`);
  * every converted value is deeply well formed (`valOfU_wf`, `valOf_wf`);
  * the error clauses.
-/
import Yae.Model.Conv
import Yae.Proofs.SoundnessBasic
namespace Yae.ConvVal
open Yae Yae.Sound

/-! ### `Except` plumbing -/

theorem bind_eq_ok {ε α β : Type} {a : Except ε α} {f : α → Except ε β} {v : β} :
    (a >>= f) = .ok v ↔ ∃ x, a = .ok x ∧ f x = .ok v := by
  cases a <;> simp [bind, Except.bind]

theorem pure_eq_ok {ε α : Type} {x v : α} : (pure x : Except ε α) = .ok v ↔ x = v := by
  simp [pure, Except.pure]

theorem throw_ne_ok {ε α : Type} {e : ε} {v : α} : (throw e : Except ε α) ≠ .ok v := by
  simp [throw, throwThe, MonadExceptOf.throw]

/-! ### field lists -/

def allWf : FieldList → Bool
  | .nil => true
  | .cons _ t fs => t.wf && allWf fs

theorem wfFields_of : ∀ fs : FieldList, fieldNamesDistinct fs = true → allWf fs = true →
    wfFields fs = true
  | .nil, _, _ => rfl
  | .cons n t fs, h1, h2 => by
    simp only [fieldNamesDistinct, Bool.and_eq_true] at h1
    simp only [allWf, Bool.and_eq_true] at h2
    simp only [wfFields, Bool.and_eq_true]
    exact ⟨⟨h1.1, h2.1⟩, wfFields_of fs h1.2 h2.2⟩

/-! ### `typeOf` -/

theorem typeOf_depth (t : GoType) (lv : Nat) (h : lv > maxLevel) : typeOf t lv = .error .depth := by
  cases t <;> simp [typeOf, h]

theorem typeOf_le {t : GoType} {lv : Nat} {T : Ty} (h : typeOf t lv = .ok T) : lv ≤ maxLevel := by
  rcases Nat.lt_or_ge maxLevel lv with hl | hl
  · rw [typeOf_depth t lv hl] at h; cases h
  · exact hl

mutual
theorem typeOf_wf : ∀ (t : GoType) (lv : Nat) (T : Ty), typeOf t lv = .ok T → T.wf = true
  | .bool, lv, T, h | .int _, lv, T, h | .uint _, lv, T, h | .float32, lv, T, h
  | .float64, lv, T, h | .string, lv, T, h | .time, lv, T, h => by
    simp only [typeOf] at h
    split at h
    · cases h
    · cases h; rfl
  | .iface, lv, T, h | .unsupported _, lv, T, h => by
    simp only [typeOf] at h
    split at h <;> cases h
  | .ptr t, lv, T, h => by
    simp only [typeOf] at h
    split at h
    · cases h
    · exact typeOf_wf t lv T h
  | .slice el, lv, T, h => by
    simp only [typeOf] at h
    split at h
    · cases h
    · obtain ⟨e, he, hT⟩ := bind_eq_ok.1 h
      cases pure_eq_ok.1 hT
      simpa [Ty.wf] using typeOf_wf el (lv+1) e he
  | .array _ el, lv, T, h => by
    simp only [typeOf] at h
    split at h
    · cases h
    · obtain ⟨e, he, hT⟩ := bind_eq_ok.1 h
      cases pure_eq_ok.1 hT
      simpa [Ty.wf] using typeOf_wf el (lv+1) e he
  | .map k v, lv, T, h => by
    simp only [typeOf] at h
    split at h
    · cases h
    · obtain ⟨k', hk, h⟩ := bind_eq_ok.1 h
      obtain ⟨v', hv, h⟩ := bind_eq_ok.1 h
      split at h
      · next hkey =>
        cases pure_eq_ok.1 h
        simp [Ty.wf, hkey, typeOf_wf k (lv+1) k' hk, typeOf_wf v (lv+1) v' hv]
      · exact absurd h throw_ne_ok
  | .struct fs, lv, T, h => by
    simp only [typeOf] at h
    split at h
    · cases h
    · obtain ⟨fs', hf, h⟩ := bind_eq_ok.1 h
      split at h
      · next hd =>
        cases pure_eq_ok.1 h
        simp only [Ty.wf]
        exact wfFields_of fs' hd (typeOfFields_wf fs (lv+1) fs' hf)
      · exact absurd h throw_ne_ok
theorem typeOfFields_wf : ∀ (fs : GoFieldList) (lv : Nat) (F : FieldList),
    typeOfFields fs lv = .ok F → allWf F = true
  | .nil, lv, F, h => by
    simp only [typeOfFields] at h
    cases pure_eq_ok.1 h; rfl
  | .cons name tag t ex rest, lv, F, h => by
    simp only [typeOfFields] at h
    obtain ⟨ft, hft, h⟩ := bind_eq_ok.1 h
    obtain ⟨rest', hr, h⟩ := bind_eq_ok.1 h
    cases pure_eq_ok.1 h
    have hw := typeOf_wf t lv ft hft
    simp only [allWf, Bool.and_eq_true]
    refine ⟨?_, typeOfFields_wf rest lv rest' hr⟩
    split
    · simpa [Ty.wf] using hw
    · exact hw
end

mutual
/-- the reported type does not depend on the level (the level only decides the depth error) -/
theorem typeOf_level : ∀ (t : GoType) (lv lv' : Nat) (T T' : Ty),
    typeOf t lv = .ok T → typeOf t lv' = .ok T' → T = T'
  | .bool, lv, lv', T, T', h, h' | .int _, lv, lv', T, T', h, h' | .uint _, lv, lv', T, T', h, h'
  | .float32, lv, lv', T, T', h, h' | .float64, lv, lv', T, T', h, h'
  | .string, lv, lv', T, T', h, h' | .time, lv, lv', T, T', h, h' => by
    simp only [typeOf] at h h'
    split at h
    · cases h
    · split at h'
      · cases h'
      · cases h; cases h'; rfl
  | .iface, lv, _, T, _, h, _ | .unsupported _, lv, _, T, _, h, _ => by
    simp only [typeOf] at h
    split at h <;> cases h
  | .ptr t, lv, lv', T, T', h, h' => by
    simp only [typeOf] at h h'
    split at h
    · cases h
    · split at h'
      · cases h'
      · exact typeOf_level t lv lv' T T' h h'
  | .slice el, lv, lv', T, T', h, h' => by
    simp only [typeOf] at h h'
    split at h
    · cases h
    · split at h'
      · cases h'
      · obtain ⟨e, he, hT⟩ := bind_eq_ok.1 h
        obtain ⟨e', he', hT'⟩ := bind_eq_ok.1 h'
        cases pure_eq_ok.1 hT; cases pure_eq_ok.1 hT'
        rw [typeOf_level el _ _ e e' he he']
  | .array _ el, lv, lv', T, T', h, h' => by
    simp only [typeOf] at h h'
    split at h
    · cases h
    · split at h'
      · cases h'
      · obtain ⟨e, he, hT⟩ := bind_eq_ok.1 h
        obtain ⟨e', he', hT'⟩ := bind_eq_ok.1 h'
        cases pure_eq_ok.1 hT; cases pure_eq_ok.1 hT'
        rw [typeOf_level el _ _ e e' he he']
  | .map k v, lv, lv', T, T', h, h' => by
    simp only [typeOf] at h h'
    split at h
    · cases h
    · split at h'
      · cases h'
      · obtain ⟨k1, hk1, h⟩ := bind_eq_ok.1 h
        obtain ⟨v1, hv1, h⟩ := bind_eq_ok.1 h
        obtain ⟨k2, hk2, h'⟩ := bind_eq_ok.1 h'
        obtain ⟨v2, hv2, h'⟩ := bind_eq_ok.1 h'
        cases typeOf_level k _ _ k1 k2 hk1 hk2
        cases typeOf_level v _ _ v1 v2 hv1 hv2
        split at h
        · next hk =>
          rw [if_pos hk] at h'
          cases pure_eq_ok.1 h; cases pure_eq_ok.1 h'; rfl
        · exact absurd h throw_ne_ok
  | .struct fs, lv, lv', T, T', h, h' => by
    simp only [typeOf] at h h'
    split at h
    · cases h
    · split at h'
      · cases h'
      · obtain ⟨f1, hf1, h⟩ := bind_eq_ok.1 h
        obtain ⟨f2, hf2, h'⟩ := bind_eq_ok.1 h'
        cases typeOfFields_level fs _ _ f1 f2 hf1 hf2
        split at h
        · next hk =>
          rw [if_pos hk] at h'
          cases pure_eq_ok.1 h; cases pure_eq_ok.1 h'; rfl
        · exact absurd h throw_ne_ok
theorem typeOfFields_level : ∀ (fs : GoFieldList) (lv lv' : Nat) (F F' : FieldList),
    typeOfFields fs lv = .ok F → typeOfFields fs lv' = .ok F' → F = F'
  | .nil, lv, lv', F, F', h, h' => by
    simp only [typeOfFields] at h h'
    cases pure_eq_ok.1 h; cases pure_eq_ok.1 h'; rfl
  | .cons name tag t ex rest, lv, lv', F, F', h, h' => by
    simp only [typeOfFields] at h h'
    obtain ⟨ft, hft, h⟩ := bind_eq_ok.1 h
    obtain ⟨r1, hr1, h⟩ := bind_eq_ok.1 h
    obtain ⟨ft', hft', h'⟩ := bind_eq_ok.1 h'
    obtain ⟨r2, hr2, h'⟩ := bind_eq_ok.1 h'
    cases pure_eq_ok.1 h; cases pure_eq_ok.1 h'
    rw [typeOf_level t _ _ ft ft' hft hft', typeOfFields_level rest _ _ r1 r2 hr1 hr2]
end

/-! ### `valOf` -/

theorem valOfChecks_ok {v : GoVal} {lv : Nat} {k : Unit → Except ConvErr Val} {x : Val}
    (h : valOfChecks v lv k = .ok x) : lv ≤ maxLevel ∧ v.isNil = false ∧ k () = .ok x := by
  unfold valOfChecks at h
  split at h
  · cases h
  · split at h
    · cases h
    · next h1 h2 => exact ⟨by omega, by simpa using h2, h⟩

theorem key?_kind {v : Val} {tag : Kind} {txt : String} (h : v.key? = some (tag, txt)) :
    tag = v.typeOf.kind := by
  cases v <;> simp [Val.key?] at h <;> simp [Val.typeOf, Ty.kind, h.1.symm]

theorem typeOf_list_inv {g : GoType} {lv : Nat} {T : Ty} (hg : ∃ el, g = .slice el ∨ ∃ n, g = .array n el)
    (h : typeOf g lv = .ok T) : ∃ e, T = .list e := by
  obtain ⟨el, hg | ⟨n, hg⟩⟩ := hg <;> subst hg <;>
  · simp only [typeOf] at h
    split at h
    · cases h
    · obtain ⟨e, _, hT⟩ := bind_eq_ok.1 h
      exact ⟨e, (pure_eq_ok.1 hT).symm⟩

theorem typeOf_map_inv {k e : GoType} {lv : Nat} {T : Ty} (h : typeOf (.map k e) lv = .ok T) :
    ∃ k' e', T = .map k' e' := by
  simp only [typeOf] at h
  split at h
  · cases h
  · obtain ⟨k', _, h⟩ := bind_eq_ok.1 h
    obtain ⟨v', _, h⟩ := bind_eq_ok.1 h
    split at h
    · exact ⟨k', v', (pure_eq_ok.1 h).symm⟩
    · exact absurd h throw_ne_ok


/-! clean one-step equations (the `do` blocks of the model without their join points) -/

theorem valOfRest_cons (t0 : Ty) (e : GoVal) (es : GoValList) (lv : Nat) (ro : Bool) :
    valOfRest t0 (.cons e es) lv ro =
      ((valOfChecks e lv fun _ => valOfU e lv ro) >>= fun x =>
        if tyEq t0 x.typeOf then (valOfRest t0 es lv ro >>= fun r => pure (.cons x r))
        else .error .mixed) := by
  rw [valOfRest]
  rcases (valOfChecks e lv fun _ => valOfU e lv ro) with _ | x
  · rfl
  · show _ = (if tyEq t0 x.typeOf then _ else _)
    cases h : tyEq t0 x.typeOf <;> simp [bind, Except.bind, h] <;> rfl

/-- the value belonging to a map key: `MapIndex(k)` finds nothing for a key with a NaN inside -/
def entryVal (k e : GoVal) (lv : Nat) (ro : Bool) : Except ConvErr Val :=
  if keyHasNaN k then (if lv > maxLevel then .error .depth else .error .nilInside)
  else valOfChecks e lv fun _ => valOfU e lv ro

theorem valOfU_map_cons (k e : GoType) (k0 e0 : GoVal) (rest : GoEntryList) (lv : Nat) (ro : Bool) :
    valOfU (.map k e (.cons k0 e0 rest)) lv ro =
      ((valOfChecks k0 (lv+1) fun _ => valOfU k0 (lv+1) ro) >>= fun kv =>
       entryVal k0 e0 (lv+1) ro >>= fun ev =>
        if kv.typeOf.keyable then
          match kv.key? with
          | none => .error .other
          | some (tag, txt) =>
            valOfEntries kv.typeOf ev.typeOf rest (lv+1) ro (.cons tag txt ev .nil) >>= fun es' =>
              pure (.map (.map kv.typeOf ev.typeOf) es')
        else .error .mapKey) := by
  rw [valOfU]
  rcases (valOfChecks k0 (lv+1) fun _ => valOfU k0 (lv+1) ro) with _ | kv
  · rfl
  · show _ = (entryVal k0 e0 (lv+1) ro >>= _)
    unfold entryVal
    cases hn : keyHasNaN k0
    · simp only [bind, Except.bind, hn, Bool.false_eq_true, if_false]
      rcases (valOfChecks e0 (lv+1) fun _ => valOfU e0 (lv+1) ro) with _ | ev
      · rfl
      · cases hk : kv.typeOf.keyable <;> simp [hk] <;> rfl
    · simp only [bind, Except.bind, hn, if_true]
      by_cases hl : lv + 1 > maxLevel <;> simp only [hl, if_true, if_false]

theorem valOfEntries_cons (kt et : Ty) (k e : GoVal) (rest : GoEntryList) (lv : Nat) (ro : Bool)
    (acc : EntryList) :
    valOfEntries kt et (.cons k e rest) lv ro acc =
      ((valOfChecks k lv fun _ => valOfU k lv ro) >>= fun kv =>
        if tyEq kt kv.typeOf then
          entryVal k e lv ro >>= fun ev =>
            if tyEq et ev.typeOf then
              match kv.key? with
              | none => .error .other
              | some (tag, txt) => valOfEntries kt et rest lv ro (acc.insert tag txt ev)
            else .error .mixed
        else .error .mixed) := by
  rw [valOfEntries]
  rcases (valOfChecks k lv fun _ => valOfU k lv ro) with _ | kv
  · rfl
  · show _ = (if tyEq kt kv.typeOf then _ else _)
    cases hk : tyEq kt kv.typeOf
    · simp [bind, Except.bind, hk]; rfl
    · simp only [bind, Except.bind, hk, if_true, Bool.not_true, Bool.false_eq_true, if_false]
      unfold entryVal
      cases hn : keyHasNaN k
      · simp only [Bool.false_eq_true, if_false]
        rcases (valOfChecks e lv fun _ => valOfU e lv ro) with _ | ev
        · rfl
        · cases he : tyEq et ev.typeOf <;> simp [he] <;> rfl
      · simp only [if_true]
        by_cases hl : lv > maxLevel <;> simp only [hl, if_true, if_false]

/-- the value of one struct field: a nil field is an absent optional of the field's static
type (whether or not it is tagged `maybe`), a non-nil one is converted and wrapped if tagged -/
def fieldVal (name tag : String) (t : GoType) (ex : Bool) (x : GoVal) (lv : Nat) (ro : Bool) :
    Except ConvErr Val :=
  if x.isNil then (typeOf t 0 >>= fun ft => pure (Val.nothing ft))
  else (valOfChecks x (lv+1) fun _ => valOfU x (lv+1) (ro || !ex)) >>= fun vl =>
    pure (if (parseTag name tag).2 then Val.just vl.typeOf vl else vl)

theorem valOfFields_cons (name tag : String) (t : GoType) (ex : Bool) (frest : GoFieldList)
    (x : GoVal) (xs : GoValList) (lv : Nat) (ro : Bool) :
    valOfFields (.cons name tag t ex frest) (.cons x xs) lv ro =
      (fieldVal name tag t ex x lv ro >>= fun vl =>
        valOfFields frest xs lv ro >>= fun p =>
          pure (.cons (parseTag name tag).1 vl.typeOf p.1, .cons vl p.2)) := by
  rw [valOfFields]
  unfold fieldVal
  cases hx : x.isNil
  · simp only [Bool.false_eq_true, if_false]
    rcases (valOfChecks x (lv+1) fun _ => valOfU x (lv+1) (ro || !ex)) with _ | vl
    · rfl
    · simp only [bind, Except.bind, pure, Except.pure]
  · simp only [if_true]
    rcases typeOf t 0 with _ | ft
    · rfl
    · simp only [bind, Except.bind, pure, Except.pure]

theorem entryVal_ok {k e : GoVal} {lv : Nat} {ro : Bool} {ev : Val}
    (h : entryVal k e lv ro = .ok ev) :
    keyHasNaN k = false ∧ (valOfChecks e lv fun _ => valOfU e lv ro) = .ok ev := by
  unfold entryVal at h
  split at h
  · split at h <;> cases h
  · next hn => exact ⟨by simpa using hn, h⟩

/-- the positional invariant of a converted struct: the i-th value is well formed and its own
type is the i-th field type; all field types are well formed -/
def FieldsOK : FieldList → ValList → Prop
  | .nil, .nil => True
  | .cons _ t fs, .cons v vs => WF v = true ∧ t = v.typeOf ∧ FieldsOK fs vs
  | _, _ => False

theorem FieldsOK.wfObj : ∀ (fs : FieldList) (vs : ValList), FieldsOK fs vs →
    WFObj fs vs = true ∧ allWf fs = true
  | .nil, .nil, _ => ⟨rfl, rfl⟩
  | .cons _ t fs, .cons v vs, h => by
    obtain ⟨h1, h2, h3⟩ := h
    have ih := FieldsOK.wfObj fs vs h3
    have hw := WF_typeOf_wf v h1
    subst h2
    simp only [WFObj, allWf, Bool.and_eq_true]
    exact ⟨⟨⟨h1, tyEq_refl' hw⟩, ih.1⟩, hw, ih.2⟩
  | .nil, .cons _ _, h => by cases h
  | .cons _ _ _, .nil, h => by cases h

mutual
theorem valOfU_wf : ∀ (v : GoVal) (lv : Nat) (ro : Bool) (x : Val),
    valOfU v lv ro = .ok x → WF x = true
  | .invalid, _, _, _, h | .ptrNil _, _, _, _, h | .ifaceNil, _, _, _, h
  | .unsupported _ _, _, _, _, h => by simp [valOfU] at h
  | .ptr p, lv, ro, x, h => by
    rw [valOfU] at h; exact valOfU_wf p lv ro x h
  | .iface d, lv, ro, x, h => by
    rw [valOfU] at h; exact valOfU_wf d lv ro x h
  | .time t, lv, ro, x, h => by
    rw [valOfU] at h
    split at h
    · cases h
    · cases h; rfl
  | .bool b, _, _, x, h | .int _ b, _, _, x, h | .uint _ b, _, _, x, h | .float _ b, _, _, x, h
  | .string b, _, _, x, h => by
    rw [valOfU] at h; cases h; rfl
  | .sliceNil el, lv, ro, x, h => by
    rw [valOfU] at h
    obtain ⟨t, ht, h⟩ := bind_eq_ok.1 h
    cases pure_eq_ok.1 h
    obtain ⟨e, rfl⟩ := typeOf_list_inv ⟨el, Or.inl rfl⟩ ht
    simp [WF, WFList, typeOf_wf _ _ _ ht]
  | .slice el .nil, lv, ro, x, h => by
    rw [valOfU] at h
    obtain ⟨t, ht, h⟩ := bind_eq_ok.1 h
    cases pure_eq_ok.1 h
    obtain ⟨e, rfl⟩ := typeOf_list_inv ⟨el, Or.inl rfl⟩ ht
    simp [WF, WFList, typeOf_wf _ _ _ ht]
  | .slice el (.cons e es), lv, ro, x, h => by
    rw [valOfU] at h
    obtain ⟨v0, h0, h⟩ := bind_eq_ok.1 h
    obtain ⟨rest, hr, h⟩ := bind_eq_ok.1 h
    cases pure_eq_ok.1 h
    have w0 := valOfU_wf e (lv+1) ro v0 (valOfChecks_ok h0).2.2
    have wr := valOfRest_wf v0.typeOf es (lv+1) ro rest hr
    have hw := WF_typeOf_wf v0 w0
    simp [WF, WFList, Ty.wf, w0, wr, hw, tyEq_refl' hw]
  | .array el .nil, lv, ro, x, h => by
    rw [valOfU] at h
    obtain ⟨t, ht, h⟩ := bind_eq_ok.1 h
    cases pure_eq_ok.1 h
    obtain ⟨e, rfl⟩ := typeOf_list_inv ⟨el, Or.inr ⟨0, rfl⟩⟩ ht
    simp [WF, WFList, typeOf_wf _ _ _ ht]
  | .array el (.cons e es), lv, ro, x, h => by
    rw [valOfU] at h
    obtain ⟨v0, h0, h⟩ := bind_eq_ok.1 h
    obtain ⟨rest, hr, h⟩ := bind_eq_ok.1 h
    cases pure_eq_ok.1 h
    have w0 := valOfU_wf e (lv+1) ro v0 (valOfChecks_ok h0).2.2
    have wr := valOfRest_wf v0.typeOf es (lv+1) ro rest hr
    have hw := WF_typeOf_wf v0 w0
    simp [WF, WFList, Ty.wf, w0, wr, hw, tyEq_refl' hw]
  | .mapNil k e, lv, ro, x, h => by
    rw [valOfU] at h
    obtain ⟨t, ht, h⟩ := bind_eq_ok.1 h
    cases pure_eq_ok.1 h
    obtain ⟨k', e', rfl⟩ := typeOf_map_inv ht
    simp [WF, WFEntries, typeOf_wf _ _ _ ht]
  | .map k e .nil, lv, ro, x, h => by
    rw [valOfU] at h
    obtain ⟨t, ht, h⟩ := bind_eq_ok.1 h
    cases pure_eq_ok.1 h
    obtain ⟨k', e', rfl⟩ := typeOf_map_inv ht
    simp [WF, WFEntries, typeOf_wf _ _ _ ht]
  | .map k e (.cons k0 e0 rest), lv, ro, x, h => by
    rw [valOfU_map_cons] at h
    obtain ⟨kv, hk, h⟩ := bind_eq_ok.1 h
    obtain ⟨ev, he, h⟩ := bind_eq_ok.1 h
    have wk := valOfU_wf k0 (lv+1) ro kv (valOfChecks_ok hk).2.2
    have we : WF ev = true := valOfU_wf e0 (lv+1) ro ev (valOfChecks_ok (entryVal_ok he).2).2.2
    split at h
    · next hkey =>
      split at h
      · cases h
      · next tag txt hkq =>
        obtain ⟨es', hes, h⟩ := bind_eq_ok.1 h
        cases pure_eq_ok.1 h
        have hwk := WF_typeOf_wf kv wk
        have hwe := WF_typeOf_wf ev we
        have hacc : WFEntries kv.typeOf ev.typeOf (.cons tag txt ev .nil) = true := by
          simp [WFEntries, key?_kind hkq, we, tyEq_refl' hwe]
        have := valOfEntries_wf kv.typeOf ev.typeOf rest (lv+1) ro _ es' hacc hes
        simp [WF, Ty.wf, hkey, hwk, hwe, this]
    · cases h
  | .struct .nil vs, lv, ro, x, h => by
    rw [valOfU] at h
    cases pure_eq_ok.1 h
    simp [WF, Ty.wf, wfFields, WFObj]
  | .struct (.cons n tg t ex fr) vs, lv, ro, x, h => by
    rw [valOfU] at h
    · obtain ⟨⟨ftys, vals⟩, hf, h⟩ := bind_eq_ok.1 h
      simp only at h
      split at h
      · next hd =>
        cases pure_eq_ok.1 h
        have := FieldsOK.wfObj _ _ (valOfFields_wf (.cons n tg t ex fr) vs lv ro ftys vals hf)
        simp [WF, Ty.wf, wfFields_of ftys hd this.2, this.1]
      · exact absurd h throw_ne_ok
    · intro hc; cases hc
theorem valOfRest_wf : ∀ (t0 : Ty) (vs : GoValList) (lv : Nat) (ro : Bool) (xs : ValList),
    valOfRest t0 vs lv ro = .ok xs → WFList t0 xs = true
  | t0, .nil, lv, ro, xs, h => by
    rw [valOfRest] at h
    cases pure_eq_ok.1 h; rfl
  | t0, .cons e es, lv, ro, xs, h => by
    rw [valOfRest_cons] at h
    obtain ⟨x, hx, h⟩ := bind_eq_ok.1 h
    split at h
    · next hty =>
      obtain ⟨r, hr, h⟩ := bind_eq_ok.1 h
      cases pure_eq_ok.1 h
      have wx := valOfU_wf e lv ro x (valOfChecks_ok hx).2.2
      have wr := valOfRest_wf t0 es lv ro r hr
      simp [WFList, wx, wr, hty]
    · cases h
theorem valOfEntries_wf : ∀ (kt et : Ty) (es : GoEntryList) (lv : Nat) (ro : Bool)
    (acc out : EntryList), WFEntries kt et acc = true →
    valOfEntries kt et es lv ro acc = .ok out → WFEntries kt et out = true
  | kt, et, .nil, lv, ro, acc, out, ha, h => by
    rw [valOfEntries] at h
    cases pure_eq_ok.1 h; exact ha
  | kt, et, .cons k e rest, lv, ro, acc, out, ha, h => by
    rw [valOfEntries_cons] at h
    obtain ⟨kv, hk, h⟩ := bind_eq_ok.1 h
    split at h
    · next hkt =>
      obtain ⟨ev, he, h⟩ := bind_eq_ok.1 h
      have we : WF ev = true := valOfU_wf e lv ro ev (valOfChecks_ok (entryVal_ok he).2).2.2
      split at h
      · next het =>
        split at h
        · cases h
        · next tag txt hkq =>
          refine valOfEntries_wf kt et rest lv ro _ out ?_ h
          refine WFEntries_insert kt et acc tag txt ev ha ?_ we het
          rw [key?_kind hkq, tyEq_kind hkt]
      · cases h
    · cases h
theorem valOfFields_wf : ∀ (fs : GoFieldList) (vs : GoValList) (lv : Nat) (ro : Bool)
    (ftys : FieldList) (vals : ValList),
    valOfFields fs vs lv ro = .ok (ftys, vals) → FieldsOK ftys vals
  | .cons name tag t ex frest, .cons x xs, lv, ro, ftys, vals, h => by
    rw [valOfFields_cons] at h
    obtain ⟨vl, hvl, h⟩ := bind_eq_ok.1 h
    obtain ⟨⟨f2, v2⟩, hrest, h⟩ := bind_eq_ok.1 h
    have h := pure_eq_ok.1 h
    simp only [Prod.mk.injEq] at h
    obtain ⟨rfl, rfl⟩ := h
    refine ⟨?_, rfl, valOfFields_wf frest xs lv ro f2 v2 hrest⟩
    unfold fieldVal at hvl
    split at hvl
    · obtain ⟨ft, hft, hvl⟩ := bind_eq_ok.1 hvl
      cases pure_eq_ok.1 hvl
      simpa [WF] using typeOf_wf t 0 ft hft
    · obtain ⟨w, hw, hvl⟩ := bind_eq_ok.1 hvl
      cases pure_eq_ok.1 hvl
      have ww := valOfU_wf x (lv+1) (ro || !ex) w (valOfChecks_ok hw).2.2
      split
      · simp [WF, ww, WF_typeOf_wf w ww, tyEq_refl' (WF_typeOf_wf w ww)]
      · exact ww
  | .nil, vs, lv, ro, ftys, vals, h => by
    rw [valOfFields] at h
    · have h := pure_eq_ok.1 h
      simp only [Prod.mk.injEq] at h
      obtain ⟨rfl, rfl⟩ := h
      trivial
    · intro _ _ _ _ _ _ _ hc; cases hc
  | .cons _ _ _ _ _, .nil, lv, ro, ftys, vals, h => by
    rw [valOfFields] at h
    · have h := pure_eq_ok.1 h
      simp only [Prod.mk.injEq] at h
      obtain ⟨rfl, rfl⟩ := h
      trivial
    · intro _ _ _ _ _ _ _ _ hc; cases hc
end

/-- **every converted value is deeply well formed** -/
theorem valOf_wf {g : GoVal} {lv : Nat} {ro : Bool} {v : Val} (h : valOf g lv ro = .ok v) :
    WF v = true :=
  valOfU_wf g lv ro v (valOfChecks_ok h).2.2

end Yae.ConvVal
