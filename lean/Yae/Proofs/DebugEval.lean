/-
  Lemmas for C19: debug (power-assert) evaluation against plain evaluation, the record
  (`Yae.Debug.rec`) and the report (`Yae.Debug.render`).
-/
import Yae.Proofs.TypingEval
import Yae.Proofs.DebugEvalBuiltins
import Yae.Model.Debug
namespace Yae.DebugEval
open Yae EvalM

/-! ### debug events -/

def isDbg : Event → Bool
  | .dbg _ _ => true
  | _ => false

/-- forget the debug record entries of a log -/
def stripDbg (l : List Event) : List Event := l.filter fun e => !isDbg e

@[simp] theorem stripDbg_nil : stripDbg [] = [] := rfl
@[simp] theorem stripDbg_dbg (v : Val) (c : Int) (l : List Event) :
    stripDbg (.dbg v c :: l) = stripDbg l := rfl
@[simp] theorem stripDbg_call (n : String) (a : List String) (l : List Event) :
    stripDbg (.call n a :: l) = .call n a :: stripDbg l := rfl
@[simp] theorem stripDbg_print (t : String) (l : List Event) :
    stripDbg (.print t :: l) = .print t :: stripDbg l := rfl
theorem stripDbg_append (a b : List Event) : stripDbg (a ++ b) = stripDbg a ++ stripDbg b := by
  simp [stripDbg]

theorem stripDbg_idem (l : List Event) : stripDbg (stripDbg l) = stripDbg l := by
  simp [stripDbg]

theorem applyBuiltin_noDbg {ext : Externs} {id : BId} {args : List Val} {v : Val}
    {evs : List Event} (h : applyBuiltin ext id args = .ok (v, evs)) :
    stripDbg evs.reverse = evs.reverse := by
  rcases applyBuiltin_events h with rfl | ⟨t, rfl⟩ <;> rfl

/-! ### simulation: a debug run and a plain run differ by the debug events only -/

/-- same result; the plain log is the debug log without its debug entries -/
def Sim {α : Type} (x y : Except Fail α × List Event) : Prop :=
  x.1 = y.1 ∧ stripDbg x.2 = y.2

def SimM {α : Type} (x y : EvalM α) : Prop := ∀ log, Sim (x log) (y (stripDbg log))

theorem SimM.pure {α : Type} (a : α) : SimM (pure a : EvalM α) (pure a) :=
  fun _ => ⟨rfl, rfl⟩

theorem SimM.fail {α : Type} (f : Fail) : SimM (EvalM.fail f : EvalM α) (EvalM.fail f) :=
  fun _ => ⟨rfl, rfl⟩

theorem SimM.lift {α : Type} (x : Except Fail α) : SimM (EvalM.lift x) (EvalM.lift x) :=
  fun _ => ⟨rfl, rfl⟩

theorem SimM.emit {e : Event} (h : isDbg e = false) : SimM (EvalM.emit e) (EvalM.emit e) := by
  intro log
  refine ⟨rfl, ?_⟩
  show stripDbg (e :: log) = e :: stripDbg log
  simp [stripDbg, h]

theorem SimM.emitAll {es : List Event} (h : stripDbg es.reverse = es.reverse) :
    SimM (EvalM.emitAll es) (EvalM.emitAll es) := by
  intro log
  refine ⟨rfl, ?_⟩
  show stripDbg (es.reverse ++ log) = es.reverse ++ stripDbg log
  rw [stripDbg_append, h]

theorem SimM.bind {α β : Type} {x y : EvalM α} {f g : α → EvalM β} (hx : SimM x y)
    (hf : ∀ a, SimM (f a) (g a)) : SimM (x >>= f) (y >>= g) := by
  intro log
  rw [EvalM.bind_apply, EvalM.bind_apply]
  obtain ⟨h1, h2⟩ := hx log
  rcases hxl : x log with ⟨r, l⟩
  rcases hyl : y (stripDbg log) with ⟨r', l'⟩
  rw [hxl, hyl] at h1 h2
  simp only at h1 h2
  subst h1 h2
  cases r with
  | error e => exact ⟨rfl, rfl⟩
  | ok a => exact hf a l

/-- `bind` where the continuation only has to be related on values the first run can return -/
theorem SimM.bind' {α β : Type} {x y : EvalM α} {f g : α → EvalM β} (hx : SimM x y)
    (hf : ∀ a log l, x log = (.ok a, l) → SimM (f a) (g a)) : SimM (x >>= f) (y >>= g) := by
  intro log
  rw [EvalM.bind_apply, EvalM.bind_apply]
  obtain ⟨h1, h2⟩ := hx log
  rcases hxl : x log with ⟨r, l⟩
  rcases hyl : y (stripDbg log) with ⟨r', l'⟩
  rw [hxl, hyl] at h1 h2
  simp only at h1 h2
  subst h1 h2
  cases r with
  | error e => exact ⟨rfl, rfl⟩
  | ok a => exact hf a log l hxl l

theorem SimM.recDbg (v : Val) (col : Int) : SimM (recDbg true v col) (recDbg false v col) := by
  intro log
  rw [recDbg_apply, recDbg_apply]
  exact ⟨rfl, rfl⟩

theorem SimM.hostStrict (name : String) (beh : HostBeh) (args : List Val) :
    SimM (hostStrict name beh args) (hostStrict name beh args) := by
  unfold Yae.hostStrict
  refine SimM.bind (SimM.emit rfl) fun _ => ?_
  cases beh
  case retArg i => dsimp only; cases args[i]? <;> first | exact SimM.pure _ | exact SimM.fail _
  all_goals first | exact SimM.pure _ | exact SimM.fail _

section step
variable {f : Nat} {ρ : REnv}

/-- the induction hypothesis: at fuel `f` -/
def EvalSim (f : Nat) (ρ : REnv) : Prop := ∀ e, SimM (eval f true ρ e) (eval f false ρ e)

theorem evalList_sim (ih : EvalSim f ρ) : ∀ es, SimM (evalList f true ρ es) (evalList f false ρ es)
  | .nil => by rw [evalList, evalList]; exact SimM.pure _
  | .cons e es => by
    rw [evalList, evalList]
    exact SimM.bind (ih e) fun v => SimM.bind (evalList_sim ih es) fun vs => SimM.pure _

theorem evalFields_sim (ih : EvalSim f ρ) :
    ∀ fs, SimM (evalFields f true ρ fs) (evalFields f false ρ fs)
  | .nil => by rw [evalFields, evalFields]; exact SimM.pure _
  | .cons n e fs => by
    rw [evalFields, evalFields]
    exact SimM.bind (ih e) fun v => SimM.bind (evalFields_sim ih fs) fun vs => SimM.pure _

theorem evalPairs_sim (ih : EvalSim f ρ) :
    ∀ ps acc, SimM (evalPairs f true ρ ps acc) (evalPairs f false ρ ps acc)
  | .nil, acc => by rw [evalPairs, evalPairs]; exact SimM.pure _
  | .cons k v ps, acc => by
    rw [evalPairs, evalPairs]
    refine SimM.bind (ih k) fun kv => ?_
    cases kv.key? with
    | none => exact SimM.fail _
    | some tk =>
      exact SimM.bind (ih v) fun vv => evalPairs_sim ih ps _

theorem forceSeq_sim (ih : EvalSim f ρ) (args : ExprList) :
    ∀ order last, SimM (forceSeq f true ρ args order last) (forceSeq f false ρ args order last)
  | [], some v => by rw [forceSeq, forceSeq]; exact SimM.pure _
  | [], none => by rw [forceSeq, forceSeq]; exact SimM.fail _
  | i :: rest, last => by
    rw [forceSeq, forceSeq]
    cases args.get? i with
    | none => exact SimM.fail _
    | some a => exact SimM.bind (ih a) fun v => forceSeq_sim ih args rest _

theorem boolCast_sim (yv : Val) :
    SimM (match yv with
          | .bool b => (Pure.pure (Val.bool b) : EvalM Val)
          | _ => EvalM.fail (.stuck "cast:bool"))
         (match yv with
          | .bool b => (Pure.pure (Val.bool b) : EvalM Val)
          | _ => EvalM.fail (.stuck "cast:bool")) := by
  cases yv <;> first | exact SimM.pure _ | exact SimM.fail _

theorem callFun_sim (ih : EvalSim f ρ) (ref : FunRef) (isLazy : Bool) (args : ExprList) :
    SimM (callFun f true ρ ref isLazy args) (callFun f false ρ ref isLazy args) := by
  cases ref with
  | builtin idx =>
    rw [callFun, callFun]
    cases hb : builtins[idx]? with
    | none => exact SimM.fail _
    | some d =>
      dsimp only
      cases isLazy with
      | true =>
        simp only [if_true]
        split
        · refine SimM.bind (ih _) fun cv => ?_
          split
          · exact ih _
          · exact ih _
          · exact SimM.fail _
        · refine SimM.bind (ih _) fun xv => ?_
          split
          · exact SimM.bind (ih _) boolCast_sim
          · exact SimM.pure _
          · exact SimM.fail _
        · refine SimM.bind (ih _) fun xv => ?_
          split
          · exact SimM.pure _
          · exact SimM.bind (ih _) boolCast_sim
          · exact SimM.fail _
        · exact SimM.fail _
      | false =>
        simp only [Bool.false_eq_true, if_false]
        refine SimM.bind (evalList_sim ih args) fun vs => ?_
        refine SimM.bind' (SimM.lift _) fun r log l hr => ?_
        rcases r with ⟨v, evs⟩
        have hab : applyBuiltin ρ.ext d.id vs.toList = .ok (v, evs) := by
          have := congrArg Prod.fst hr
          exact this
        exact SimM.bind (SimM.emitAll (applyBuiltin_noDbg hab)) fun _ => SimM.pure _
  | host name beh =>
    cases isLazy with
    | true =>
      cases beh
      case force order =>
        rw [callFun, callFun]
        simp only [if_true]
        exact SimM.bind (SimM.emit (e := .call name []) rfl) fun _ => forceSeq_sim ih args _ none
      all_goals
        unfold callFun
        exact SimM.fail _
    | false =>
      unfold callFun
      simp only [Bool.false_eq_true, if_false]
      exact SimM.bind (evalList_sim ih args) fun vs => SimM.hostStrict _ _ _

theorem evalSim_zero : EvalSim 0 ρ := by
  intro e
  simp only [eval]
  exact SimM.fail _

theorem evalSim_succ (ih : EvalSim f ρ) : EvalSim (f+1) ρ := by
  intro e
  cases e with
  | str p v => simp only [eval]; exact SimM.pure _
  | num p v => simp only [eval]; exact SimM.pure _
  | time p v => simp only [eval]; exact SimM.pure _
  | bool p v => simp only [eval]; exact SimM.pure _
  | list p es ty =>
    cases es with
    | nil => simp only [eval]; exact SimM.pure _
    | cons a as =>
      cases ty <;> simp only [eval] <;>
        exact SimM.bind (evalList_sim ih _) fun vs => (by first | exact SimM.pure _ | exact SimM.fail _)
  | map p ps ty =>
    cases ps with
    | nil => simp only [eval]; exact SimM.pure _
    | cons k v ps =>
      cases ty with
      | none => simp only [eval]; exact SimM.fail _
      | some t => simp only [eval]; exact SimM.bind (evalPairs_sim ih _ _) fun es => SimM.pure _
  | obj p fs ty =>
    cases fs with
    | nil => simp only [eval]; exact SimM.pure _
    | cons n a fs =>
      cases ty <;> simp only [eval] <;>
        exact SimM.bind (evalFields_sim ih _) fun vs => (by first | exact SimM.pure _ | exact SimM.fail _)
  | ident p name =>
    simp only [eval]
    cases ρ.lookupVar name with
    | none => exact SimM.fail _
    | some v => exact SimM.recDbg v _
  | call p col callee args cty resolved index =>
    simp only [eval]
    refine SimM.bind ?_ fun v => SimM.recDbg v col
    split
    · refine SimM.bind (ih callee) fun fv => ?_
      split
      · exact callFun_sim ih _ _ _
      · exact SimM.fail _
    · split
      · exact callFun_sim ih _ _ _
      · exact SimM.fail _
  | subscript p col var idx vty =>
    simp only [eval]
    refine SimM.bind (ih var) fun x => SimM.bind ?_ fun v => SimM.recDbg v col
    split
    · refine SimM.bind (ih idx) fun i => ?_
      split
      · split
        · exact SimM.fail _
        · split <;> first | exact SimM.pure _ | exact SimM.fail _
      · exact SimM.fail _
    · refine SimM.bind (ih idx) fun k => ?_
      split
      · split <;> first | exact SimM.pure _ | exact SimM.fail _
      · exact SimM.fail _
    · exact SimM.fail _
  | member p col obj field fp oty index =>
    simp only [eval]
    refine SimM.bind (ih obj) fun o => SimM.bind ?_ fun v => SimM.recDbg v col
    split
    · split <;> first | exact SimM.pure _ | exact SimM.fail _
    · exact SimM.fail _
  | unary => simp only [eval]; exact SimM.fail _
  | binary => simp only [eval]; exact SimM.fail _
  | ternary => simp only [eval]; exact SimM.fail _
  | group => simp only [eval]; exact SimM.fail _

theorem evalSim : ∀ f, EvalSim f ρ
  | 0 => evalSim_zero
  | f+1 => evalSim_succ (evalSim f)

end step

/-- **debug mode only adds debug entries**: same value or failure, and the plain log is the debug
log without its debug entries (same host calls and prints, in the same order). -/
theorem eval_sim (fuel : Nat) (ρ : REnv) (e : Expr) (log : List Event) :
    (eval fuel true ρ e log).1 = (eval fuel false ρ e (stripDbg log)).1 ∧
    stripDbg (eval fuel true ρ e log).2 = (eval fuel false ρ e (stripDbg log)).2 :=
  evalSim fuel e log

/-! ### the recorded nodes -/

/-- the column a node is recorded under — the four recorded kinds -/
def recCol : Expr → Option Int
  | .ident p _ => some p.col
  | .call _ col _ _ _ _ _ => some col
  | .subscript _ col _ _ _ => some col
  | .member _ col _ _ _ _ _ => some col
  | _ => none

/-- what a recorded node computes before it is recorded: its own sub-evaluations (at one fuel
less) and its own operation -/
def body (f : Nat) (dbg : Bool) (ρ : REnv) : Expr → EvalM Val
  | .ident _ name =>
    match ρ.lookupVar name with
    | some v => pure v
    | none => fail (.stuck "missing-var")
  | .call _ _ callee args _ resolved index =>
    if resolved == "" then do
      let fv ← eval f dbg ρ callee
      match fv with
      | .fn (.fn _ _ _) ref isLazy => callFun f dbg ρ ref isLazy args
      | _ => fail (.stuck "cast:fun")
    else
      match resolveStatic ρ.funs resolved index with
      | some d => callFun f dbg ρ d.ref d.isLazy args
      | none => fail (.stuck "fun-not-defined")
  | .subscript _ _ var idx _ => fun log =>
    seq (eval f dbg ρ var log) fun x l1 => subscriptStep f dbg ρ idx x l1
  | .member _ _ obj field _ _ _ => do
    let o ← eval f dbg ρ obj
    match o with
    | .obj ty vs =>
      match objGet? ty vs field with
      | some v => pure v
      | none => fail (.stuck "member-missing")
    | _ => fail (.stuck "cast:obj")
  | _ => fail (.stuck "not-recorded")

/-- a recorded node: first its body, then — only when the body succeeded — ONE record entry with
the node's value under the node's column (+1: columns are 1-based in the record) -/
theorem eval_recorded (f : Nat) (dbg : Bool) (ρ : REnv) (e : Expr) (c : Int)
    (hc : recCol e = some c) (log : List Event) :
    eval (f+1) dbg ρ e log = seq (body f dbg ρ e log) fun v l => recDbg dbg v c l := by
  cases e <;> simp only [recCol, Option.some.injEq, reduceCtorEq] at hc
  case ident p name =>
    subst hc
    rw [eval_ident']
    simp only [body]
    cases ρ.lookupVar name <;> rfl
  case call p col callee args cty resolved index =>
    subst hc
    rw [eval, EvalM.bind_apply]
    rfl
  case subscript p col var idx vty =>
    subst hc
    rw [eval_subscript']
    simp only [body]
    rcases eval f dbg ρ var log with ⟨r, l⟩
    cases r <;> rfl
  case member p col obj field fp oty index =>
    subst hc
    rw [eval, EvalM.bind_apply]
    simp only [body]
    rw [EvalM.bind_apply]
    rcases eval f dbg ρ obj log with ⟨r, l⟩
    cases r with
    | error x => rfl
    | ok o => simp only [seq_ok]; rw [EvalM.bind_apply]; rfl

theorem seq_recDbg_ok {r : Except Fail Val × List Event} {c : Int} {v : Val} {l : List Event}
    (h : (seq r fun v l => recDbg true v c l) = (.ok v, l)) :
    ∃ l', r = (.ok v, l') ∧ l = .dbg v (c + 1) :: l' := by
  rcases r with ⟨r, l'⟩
  cases r with
  | error x => simp [seq] at h
  | ok w =>
    rw [seq_ok, recDbg_apply] at h
    simp only [if_true, Prod.mk.injEq, Except.ok.injEq] at h
    obtain ⟨rfl, rfl⟩ := h
    exact ⟨l', rfl, rfl⟩

theorem seq_recDbg_error {r : Except Fail Val × List Event} {c : Int} {x : Fail} {l : List Event}
    {dbg : Bool} (h : (seq r fun v l => recDbg dbg v c l) = (.error x, l)) :
    r = (.error x, l) := by
  rcases r with ⟨r, l'⟩
  cases r with
  | error y => simpa [seq] using h
  | ok w => rw [seq_ok, recDbg_apply] at h; simp at h

/-- non-recorded nodes and literals: the four literal kinds leave the log alone -/
theorem eval_literal_log (f : Nat) (dbg : Bool) (ρ : REnv) (e : Expr) (log : List Event)
    (h : match e with | .str .. | .num .. | .time .. | .bool .. => True | _ => False) :
    (eval (f+1) dbg ρ e log).2 = log := by
  cases e <;> simp only at h <;> simp only [eval] <;> rfl

/-! ### the record (`debug.Record.Rec`) -/

open Yae.Debug

def cols (r : Record) : List Int := r.map (·.col)

theorem hasCol_iff (r : Record) (c : Int) : r.hasCol c = true ↔ c ∈ cols r := by
  unfold Record.hasCol cols
  simp only [List.any_eq_true, beq_iff_eq, List.mem_map]

theorem recAux_spec : ∀ (fuel : Nat) (r : Record) (text : String) (col : Int),
    ∃ k : Nat, k ≤ fuel ∧ recAux fuel r text col = r ++ [⟨text, col + k⟩] ∧
      (∀ i : Nat, i < k → r.hasCol (col + i) = true) ∧
      (k < fuel → r.hasCol (col + k) = false)
  | 0, r, text, col => ⟨0, Nat.le_refl _, by simp [recAux], by intro i hi; omega, by intro h; omega⟩
  | fuel+1, r, text, col => by
    unfold recAux
    split
    · next hh =>
      obtain ⟨k, hk, he, hocc, hfree⟩ := recAux_spec fuel r text (col + 1)
      refine ⟨k+1, by omega, ?_, ?_, ?_⟩
      · rw [he]; congr 3; push_cast; omega
      · intro i hi
        cases i with
        | zero => simpa using hh
        | succ i =>
          have := hocc i (by omega)
          rw [← this]; congr 1; push_cast; omega
      · intro hlt
        have := hfree (by omega)
        rw [← this]; congr 1; push_cast; omega
    · next hh =>
      refine ⟨0, by omega, by simp, by intro i hi; omega, ?_⟩
      intro _; simpa using hh

/-- pigeonhole: `n + 1` consecutive columns cannot all be taken by `n` entries -/
theorem not_all_taken (r : Record) (col : Int)
    (h : ∀ i : Nat, i < r.length + 1 → r.hasCol (col + i) = true) : False := by
  let xs : List Int := (List.range (r.length + 1)).map fun i : Nat => col + (i : Int)
  have hnd : xs.Nodup := by
    refine List.Pairwise.map _ ?_ (List.nodup_range (n := r.length + 1))
    intro a b hab h
    exact hab (by omega)
  have hsub : xs ⊆ cols r := by
    intro c hc
    simp only [xs, List.mem_map, List.mem_range] at hc
    obtain ⟨i, hi, rfl⟩ := hc
    exact (hasCol_iff r _).1 (h i hi)
  have := hnd.length_le_of_subset hsub
  simp [xs, cols] at this
  omega

/-- `Rec`: the entry is appended under the first free column at or after its own (always found) -/
theorem recText_spec (r : Record) (text : String) (col : Int) :
    ∃ k : Nat, recText r text col = r ++ [⟨text, col + k⟩] ∧
      (∀ i : Nat, i < k → r.hasCol (col + i) = true) ∧ r.hasCol (col + k) = false := by
  obtain ⟨k, hk, he, hocc, hfree⟩ := recAux_spec (r.length + 1) r text col
  refine ⟨k, he, hocc, hfree ?_⟩
  rcases Nat.lt_or_ge k (r.length + 1) with h | h
  · exact h
  · have hk' : k = r.length + 1 := by omega
    subst hk'
    exact (not_all_taken r col hocc).elim

/-- the own column is free: the entry lands there -/
theorem recText_free (r : Record) (text : String) (col : Int) (h : r.hasCol col = false) :
    recText r text col = r ++ [⟨text, col⟩] := by
  unfold recText recAux
  simp [h]

/-- the own column is taken: the entry is shifted to the right (finding D27) -/
theorem recText_taken (r : Record) (text : String) (col : Int) (h : r.hasCol col = true) :
    ∃ k : Nat, 0 < k ∧ recText r text col = r ++ [⟨text, col + k⟩] := by
  obtain ⟨k, he, _, hfree⟩ := recText_spec r text col
  refine ⟨k, ?_, he⟩
  cases k with
  | zero => simp [h] at hfree
  | succ k => omega

theorem recText_nodup (r : Record) (text : String) (col : Int) (h : (cols r).Nodup) :
    (cols (recText r text col)).Nodup := by
  obtain ⟨k, he, _, hfree⟩ := recText_spec r text col
  rw [he]
  unfold cols
  rw [List.map_append, List.nodup_append]
  refine ⟨h, by simp, ?_⟩
  intro a ha b hb
  simp only [List.map_cons, List.map_nil, List.mem_singleton] at hb
  subst hb
  intro hab
  subst hab
  have := (hasCol_iff r _).2 ha
  rw [this] at hfree; cases hfree

/-- the record entries the debug events stand for, each under its own column -/
def entriesOf (evs : List Event) : Record :=
  evs.filterMap fun
    | .dbg v col => some ⟨v.render, col⟩
    | _ => none

def recStep (r : Record) (ev : Event) : Record :=
  match ev with
  | .dbg v col => Debug.rec r v col
  | _ => r

theorem recordOf_eq_foldl (evs : List Event) : recordOf evs = evs.foldl recStep [] := rfl

theorem foldl_recStep_nodup : ∀ (evs : List Event) (r : Record), (cols r).Nodup →
    (cols (evs.foldl recStep r)).Nodup
  | [], r, h => h
  | ev :: evs, r, h => by
    rw [List.foldl_cons]
    apply foldl_recStep_nodup evs
    cases ev <;> first | exact h | exact recText_nodup r _ _ h

theorem foldl_recStep_length : ∀ (evs : List Event) (r : Record),
    (evs.foldl recStep r).length = r.length + (entriesOf evs).length
  | [], r => by simp [entriesOf]
  | ev :: evs, r => by
    rw [List.foldl_cons, foldl_recStep_length evs]
    cases ev with
    | dbg v c =>
      obtain ⟨k, he, _⟩ := recText_spec r v.render c
      simp only [recStep, Debug.rec, he, entriesOf, List.filterMap_cons, List.length_append,
        List.length_cons, List.length_nil]
      omega
    | _ => simp [recStep, entriesOf]

theorem foldl_recStep_faithful : ∀ (evs : List Event) (r : Record),
    (cols r ++ cols (entriesOf evs)).Nodup → evs.foldl recStep r = r ++ entriesOf evs
  | [], r, _ => by simp [entriesOf]
  | ev :: evs, r, h => by
    rw [List.foldl_cons]
    cases ev with
    | dbg v c =>
      have hfree : r.hasCol c = false := by
        cases hh : r.hasCol c with
        | false => rfl
        | true =>
          have hm := (hasCol_iff r c).1 hh
          rw [List.nodup_append] at h
          exact absurd rfl (h.2.2 c hm c (by simp [entriesOf, cols]))
      have hstep : recStep r (.dbg v c) = r ++ [⟨v.render, c⟩] := recText_free r _ c hfree
      rw [hstep, foldl_recStep_faithful evs]
      · simp [entriesOf]
      · have : cols (r ++ [⟨v.render, c⟩]) ++ cols (entriesOf evs) =
            cols r ++ cols (entriesOf (.dbg v c :: evs)) := by simp [cols, entriesOf]
        rw [this]; exact h
    | call n a => exact foldl_recStep_faithful evs r (by simpa [entriesOf] using h)
    | print t => exact foldl_recStep_faithful evs r (by simpa [entriesOf] using h)

/-! ### the report -/

/-- the report starts with the source text; anything after it starts on a new line -/
theorem render_firstline (src : String) (r : Record) :
    ∃ rest, render src r = src ++ rest ∧ (rest = "" ∨ ∃ rest', rest = "\n" ++ rest') := by
  unfold render
  dsimp only
  generalize (renderValues (sortDesc r) [{ chars := [], start := 0 }]).map
    (fun l => String.ofList l.chars) = ls
  cases ls with
  | nil => exact ⟨"", by simp, Or.inl rfl⟩
  | cons u l =>
    refine ⟨"\n" ++ "\n".intercalate (u :: l), ?_, Or.inr ⟨_, rfl⟩⟩
    rw [String.intercalate_cons_cons, String.append_assoc]

end Yae.DebugEval
