/-
  For C19: what the strict built-ins write to the event log (never a debug record entry).
  Kept in its own file because the case split over `applyBuiltin` is slow.
-/
import Yae.Model.Eval
namespace Yae.DebugEval
open Yae

/-- the strict built-ins write nothing but (at most one) line of standard output -/
theorem applyBuiltin_events {ext : Externs} {id : BId} {args : List Val} {v : Val}
    {evs : List Event} (h : applyBuiltin ext id args = .ok (v, evs)) :
    evs = [] ∨ ∃ t, evs = [.print t] := by
  unfold applyBuiltin at h
  split at h
  all_goals first
    | (simp only [Except.ok.injEq, Prod.mk.injEq] at h; exact Or.inl h.2.symm)
    | (simp only [Except.ok.injEq, Prod.mk.injEq] at h; exact Or.inr ⟨_, h.2.symm⟩)
    | (simp only [stuckCast] at h; cases h)
    | (try dsimp only at h
       repeat' split at h
       all_goals first
        | (simp only [Except.ok.injEq, Prod.mk.injEq] at h; exact Or.inl h.2.symm)
        | (simp only [stuckCast] at h; cases h)
        | cases h)

end Yae.DebugEval
