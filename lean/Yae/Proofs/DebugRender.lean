/-
  Lemmas for C19, the report: `Yae.Debug.render` shows every recorded value at its column.

  The argument.  `renderValues` works through the entries by descending column.  A value that has
  been written to line `i` at column `c` is protected by the invariant `Holds`: the line's `start`
  is at most `c`.  Every later entry has a smaller column `c' < c`, and whatever it does to line `i`
  — a `|` at `c'`, or its own text when `c' + length < start ≤ c` — touches only cells strictly to
  the left of column `c`, and leaves `start ≤ c`.  Lines are only ever appended.
-/
import Yae.Model.Debug
namespace Yae.DebugRender
open Yae Yae.Debug

/-! ### text at a position -/

/-- `s` occupies the cells `a, a+1, …` (0-based) of `line` -/
def At (line : List Char) (a : Nat) (s : List Char) : Prop :=
  ∀ i (h : i < s.length), line[a + i]? = some s[i]

theorem at_iff {line : List Char} {a : Nat} {s : List Char} :
    At line a s ↔ (line.drop a).take s.length = s := by
  constructor
  · intro h
    apply List.ext_getElem?
    intro i
    rw [List.getElem?_take]
    split
    · rename_i hi
      rw [List.getElem?_drop, h i hi, List.getElem?_eq_getElem hi]
    · rename_i hi
      rw [List.getElem?_eq_none (by omega)]
  · intro h i hi
    have : ((line.drop a).take s.length)[i]? = s[i]? := by rw [h]
    rw [List.getElem?_take, if_pos hi, List.getElem?_drop, List.getElem?_eq_getElem hi] at this
    exact this

theorem at_nil (line : List Char) (a : Nat) : At line a [] := by
  intro i h; simp at h

/-! ### `placeString` -/

theorem placeString_at (line str : List Char) (col : Nat) (hc : 1 ≤ col) :
    At (placeString line str col) (col - 1) str := by
  intro i hi
  unfold placeString
  dsimp only
  have hlen : (line ++ List.replicate (col - line.length) ' ').length ≥ col := by
    simp; omega
  generalize line ++ List.replicate (col - line.length) ' ' = L at hlen
  have ht : (L.take (col - 1)).length = col - 1 := by simp; omega
  split
  · rw [List.getElem?_append_right (by omega), ht]
    simp [hi]
  · rw [List.append_assoc, List.getElem?_append_right (by omega), ht,
      List.getElem?_append_left (by omega)]
    simp [hi]

/-- cells of the old line to the right of the written text are kept -/
theorem placeString_keep (line str : List Char) (col : Nat) (k : Nat) (hk : k < line.length)
    (hs : col - 1 + str.length ≤ k) : (placeString line str col)[k]? = line[k]? := by
  unfold placeString
  dsimp only
  have hlen : (line ++ List.replicate (col - line.length) ' ').length ≥ line.length := by simp
  have hL : (line ++ List.replicate (col - line.length) ' ')[k]? = line[k]? :=
    List.getElem?_append_left hk
  rw [← hL]
  generalize line ++ List.replicate (col - line.length) ' ' = L at hlen
  split
  · omega
  · rename_i h
    have ht : (L.take (col - 1)).length = col - 1 := by simp; omega
    rw [List.append_assoc, List.getElem?_append_right (by omega), ht,
      List.getElem?_append_right (by omega), List.getElem?_drop]
    congr 1; omega

theorem placeString_mem {line str : List Char} {col : Nat} {x : Char}
    (h : x ∈ placeString line str col) : x ∈ line ∨ x = ' ' ∨ x ∈ str := by
  unfold placeString at h
  dsimp only at h
  have hL : ∀ y ∈ line ++ List.replicate (col - line.length) ' ', y ∈ line ∨ y = ' ' := by
    intro y hy
    rcases List.mem_append.1 hy with h | h
    · exact Or.inl h
    · exact Or.inr (List.eq_of_mem_replicate h)
  generalize line ++ List.replicate (col - line.length) ' ' = L at h hL
  split at h
  · rcases List.mem_append.1 h with h | h
    · rcases hL x (List.mem_of_mem_take h) with h | h
      · exact Or.inl h
      · exact Or.inr (Or.inl h)
    · exact Or.inr (Or.inr h)
  · rcases List.mem_append.1 h with h | h
    · rcases List.mem_append.1 h with h | h
      · rcases hL x (List.mem_of_mem_take h) with h | h
        · exact Or.inl h
        · exact Or.inr (Or.inl h)
      · exact Or.inr (Or.inr h)
    · rcases hL x (List.mem_of_mem_drop h) with h | h
      · exact Or.inl h
      · exact Or.inr (Or.inl h)

/-! ### `splitLines` -/

/-- no line break character -/
def NoBreak (s : List Char) : Prop := ∀ x ∈ s, x ≠ '\n' ∧ x ≠ '\r'

theorem noBreak_nil : NoBreak [] := by intro x h; simp at h

theorem NoBreak.cons {c : Char} {s : List Char} (hc : c ≠ '\n' ∧ c ≠ '\r') (h : NoBreak s) :
    NoBreak (c :: s) := by
  intro x hx
  rcases List.mem_cons.1 hx with rfl | hx
  · exact hc
  · exact h x hx

theorem NoBreak.reverse {s : List Char} (h : NoBreak s) : NoBreak s.reverse := by
  intro x hx; exact h x (List.mem_reverse.1 hx)

theorem NoBreak.append {s t : List Char} (hs : NoBreak s) (ht : NoBreak t) : NoBreak (s ++ t) := by
  intro x hx
  rcases List.mem_append.1 hx with h | h
  · exact hs x h
  · exact ht x h

theorem splitLines_ne_nil (s cur : List Char) : splitLines s cur ≠ [] := by
  fun_induction splitLines s cur <;> simp_all

theorem splitLines_pos (s cur : List Char) : 0 < (splitLines s cur).length :=
  List.length_pos_iff.2 (splitLines_ne_nil s cur)

/-- the pieces contain no line break -/
theorem splitLines_noBreak (s cur : List Char) (hcur : NoBreak cur) :
    ∀ x ∈ splitLines s cur, NoBreak x := by
  fun_induction splitLines s cur
  case case1 cur =>
    intro x hx
    rw [List.mem_singleton] at hx
    subst hx
    exact hcur.reverse
  case case2 rest cur ih =>
    intro x hx
    rcases List.mem_cons.1 hx with rfl | hx
    · exact hcur.reverse
    · exact ih noBreak_nil x hx
  case case3 rest cur _ ih =>
    intro x hx
    rcases List.mem_cons.1 hx with rfl | hx
    · exact hcur.reverse
    · exact ih noBreak_nil x hx
  case case4 rest cur ih =>
    intro x hx
    rcases List.mem_cons.1 hx with rfl | hx
    · exact hcur.reverse
    · exact ih noBreak_nil x hx
  case case5 c rest cur h1 h2 h3 ih =>
    refine ih (NoBreak.cons ⟨?_, ?_⟩ hcur)
    · rintro rfl; exact h3 rfl
    · rintro rfl; exact h2 rfl

/-- a text without line break is one piece -/
theorem splitLines_of_noBreak (s cur : List Char) (h : NoBreak s) :
    splitLines s cur = [cur.reverse ++ s] := by
  fun_induction splitLines s cur
  case case1 cur => simp
  case case2 rest cur ih => exact absurd rfl (h '\r' (by simp)).2
  case case3 rest cur _ ih => exact absurd rfl (h '\r' (by simp)).2
  case case4 rest cur ih => exact absurd rfl (h '\n' (by simp)).1
  case case5 c rest cur h1 h2 h3 ih =>
    rw [ih (fun x hx => h x (List.mem_cons_of_mem _ hx))]
    simp

/-- one piece only: the text has no line break (and is that piece) -/
theorem splitLines_length_one (s cur : List Char) (h : (splitLines s cur).length = 1) :
    NoBreak s := by
  fun_induction splitLines s cur
  case case1 cur => exact noBreak_nil
  case case2 rest cur ih =>
    have := splitLines_pos rest []
    simp only [List.length_cons] at h; omega
  case case3 rest cur _ ih =>
    have := splitLines_pos rest []
    simp only [List.length_cons] at h; omega
  case case4 rest cur ih =>
    have := splitLines_pos rest []
    simp only [List.length_cons] at h; omega
  case case5 c rest cur h1 h2 h3 ih =>
    refine NoBreak.cons ⟨?_, ?_⟩ (ih h)
    · rintro rfl; exact h3 rfl
    · rintro rfl; exact h2 rfl

/-! ### `scan` and `renderValues`, unfolded -/

/-- the text ending before `ec` fits strictly left of what is on line `l` -/
def free (ec : Option Nat) (l : Line) : Bool :=
  match ec with
  | some e => decide ((e : Int) < l.start)
  | none => false

theorem scan_cons (str : List Char) (sc : Nat) (ec : Option Nat) (j : Nat) (l : Line)
    (ls : List Line) :
    scan str sc ec j (l :: ls) =
      if free ec l then ({ chars := placeString l.chars str sc, start := sc } :: ls, true)
      else ({ chars := placeString l.chars ['|'] sc,
              start := if j > 1 then (sc : Int) + 1 else l.start } ::
              (scan str sc ec (j + 1) ls).1, (scan str sc ec (j + 1) ls).2) := by
  cases ec <;> rfl

/-- the entry is not rendered: unknown column, or the next entry has the same column -/
def skip (e : Entry) (rest : List Entry) : Bool :=
  e.col < 1 || (match rest with
    | e' :: _ => e'.col == e.col
    | [] => false)

/-- `endCol`: one past the last column of a single-line text, `none` (= `math.MaxInt`) for a
text with line breaks -/
def endColOf (e : Entry) : Option Nat :=
  if (splitLines e.text.toList []).length == 1 then some (e.col.toNat + e.text.toList.length)
  else none

/-- the fresh lines: one per piece of the text, each piece at the column -/
def freshOf (e : Entry) : List Line :=
  (splitLines e.text.toList []).map fun s =>
    ({ chars := placeString [] s e.col.toNat, start := e.col.toNat } : Line)

theorem renderValues_cons (e : Entry) (rest : List Entry) (lines : List Line) :
    renderValues (e :: rest) lines =
      if skip e rest then renderValues rest lines
      else if (scan e.text.toList e.col.toNat (endColOf e) 1 lines).2 then
        renderValues rest (scan e.text.toList e.col.toNat (endColOf e) 1 lines).1
      else renderValues rest
        ((scan e.text.toList e.col.toNat (endColOf e) 1 lines).1 ++ freshOf e) := by
  cases rest <;> rfl

theorem endColOf_ge (e : Entry) : ∀ x, endColOf e = some x → e.col.toNat + e.text.toList.length ≤ x := by
  intro x h
  unfold endColOf at h
  split at h
  · cases h; exact Nat.le_refl _
  · cases h

theorem endColOf_noBreak (e : Entry) (h : endColOf e ≠ none) : NoBreak e.text.toList := by
  unfold endColOf at h
  split at h
  · rename_i h1
    exact splitLines_length_one _ _ (by simpa using h1)
  · exact absurd rfl h

/-! ### `scan` -/

theorem scan_length (str : List Char) (sc : Nat) (ec : Option Nat) :
    ∀ (ls : List Line) (j : Nat), (scan str sc ec j ls).1.length = ls.length := by
  intro ls
  induction ls with
  | nil => intro j; rfl
  | cons l0 ls ih =>
    intro j
    rw [scan_cons]
    split
    · rfl
    · simp only [List.length_cons, ih]

/-- what `scan` does to the line at index `i`: nothing, or a `|` at the column (and the line's
start becomes the column + 1, or stays), or — only when the text fits strictly left of the line's
start — the text at the column (and the line's start becomes the column) -/
theorem scan_get (str : List Char) (sc : Nat) (ec : Option Nat) :
    ∀ (ls : List Line) (j i : Nat) (l : Line), ls[i]? = some l →
    ∃ l', (scan str sc ec j ls).1[i]? = some l' ∧
      (l' = l ∨
       (l'.chars = placeString l.chars ['|'] sc ∧ (l'.start = (sc : Int) + 1 ∨ l'.start = l.start)) ∨
       (∃ e, ec = some e ∧ (e : Int) < l.start ∧ l' = ⟨placeString l.chars str sc, sc⟩)) := by
  intro ls
  induction ls with
  | nil => intro j i l h; simp at h
  | cons l0 ls ih =>
    intro j i l h
    rw [scan_cons]
    split
    · rename_i hfree
      cases i with
      | zero =>
        simp only [List.getElem?_cons_zero, Option.some.injEq] at h
        subst h
        refine ⟨_, rfl, Or.inr (Or.inr ?_)⟩
        cases ec with
        | none => simp [free] at hfree
        | some e => exact ⟨e, rfl, by simpa [free] using hfree, rfl⟩
      | succ i =>
        simp only [List.getElem?_cons_succ] at h
        exact ⟨l, by simpa using h, Or.inl rfl⟩
    · cases i with
      | zero =>
        simp only [List.getElem?_cons_zero, Option.some.injEq] at h
        subst h
        refine ⟨_, rfl, Or.inr (Or.inl ⟨rfl, ?_⟩)⟩
        dsimp only
        split
        · exact Or.inl rfl
        · exact Or.inr rfl
      | succ i =>
        simp only [List.getElem?_cons_succ] at h
        obtain ⟨l', h1, h2⟩ := ih (j + 1) i l h
        exact ⟨l', by simpa using h1, h2⟩

/-- when `scan` reports success it has written the text to one of the lines -/
theorem scan_placed (str : List Char) (sc : Nat) (ec : Option Nat) :
    ∀ (ls : List Line) (j : Nat), (scan str sc ec j ls).2 = true →
    ∃ (i : Nat) (l : Line), ls[i]? = some l ∧ ec ≠ none ∧
      (scan str sc ec j ls).1[i]? = some ({ chars := placeString l.chars str sc, start := sc } : Line) := by
  intro ls
  induction ls with
  | nil => intro j h; simp [scan] at h
  | cons l0 ls ih =>
    intro j h
    rw [scan_cons] at h ⊢
    split
    · rename_i hfree
      refine ⟨0, l0, rfl, ?_, rfl⟩
      rintro rfl
      simp [free] at hfree
    · rename_i hfree
      rw [if_neg hfree] at h
      obtain ⟨i, l, h1, h2, h3⟩ := ih (j + 1) h
      exact ⟨i + 1, l, by simpa using h1, h2, by simpa using h3⟩

/-! ### the protecting invariant -/

/-- line `i` carries `s` from column `c` on, and the line's start is not to the right of `c` -/
def Holds (lines : List Line) (i : Nat) (c : Int) (s : List Char) : Prop :=
  ∃ l, lines[i]? = some l ∧ l.start ≤ c ∧ At l.chars (c.toNat - 1) s

theorem Holds.append {lines : List Line} {i : Nat} {c : Int} {s : List Char}
    (h : Holds lines i c s) (more : List Line) : Holds (lines ++ more) i c s := by
  obtain ⟨l, h1, h2⟩ := h
  refine ⟨l, ?_, h2⟩
  rw [List.getElem?_append_left (by
    rcases Nat.lt_or_ge i lines.length with h | h
    · exact h
    · rw [List.getElem?_eq_none h] at h1; cases h1)]
  exact h1

theorem lt_of_getElem?_eq_some {α : Type} {l : List α} {k : Nat} {a : α} (h : l[k]? = some a) :
    k < l.length := by
  rcases Nat.lt_or_ge k l.length with h' | h'
  · exact h'
  · rw [List.getElem?_eq_none h'] at h; cases h

/-- an entry with a smaller column leaves what is there alone -/
theorem scan_holds (str : List Char) (sc : Nat) (ec : Option Nat) (ls : List Line) (j : Nat)
    {i : Nat} {c : Int} {s : List Char} (hsc : (sc : Int) < c) (h1 : 1 ≤ sc)
    (hec : ∀ x, ec = some x → sc + str.length ≤ x)
    (h : Holds ls i c s) : Holds (scan str sc ec j ls).1 i c s := by
  obtain ⟨l, hl, hst, hat⟩ := h
  obtain ⟨l', hl', hcase⟩ := scan_get str sc ec ls j i l hl
  refine ⟨l', hl', ?_⟩
  rcases hcase with rfl | ⟨hch, hs⟩ | ⟨e, rfl, he, rfl⟩
  · exact ⟨hst, hat⟩
  · refine ⟨by omega, ?_⟩
    intro k hk
    have hk' := hat k hk
    have hlt := lt_of_getElem?_eq_some hk'
    rw [hch, placeString_keep _ _ _ _ hlt (by simp only [List.length_cons, List.length_nil]; omega)]
    exact hk'
  · have := hec e rfl
    refine ⟨by dsimp only; omega, ?_⟩
    intro k hk
    have hk' := hat k hk
    have hlt := lt_of_getElem?_eq_some hk'
    dsimp only
    rw [placeString_keep _ _ _ _ hlt (by omega)]
    exact hk'

theorem one_le_of_not_skip {e : Entry} {rest : List Entry} (h : ¬ skip e rest = true) :
    1 ≤ e.col := by
  by_cases h' : e.col < 1
  · simp [skip, h'] at h
  · omega

/-- … through all the remaining entries, provided their columns are smaller -/
theorem renderValues_holds {i : Nat} {c : Int} {s : List Char} :
    ∀ (rest : List Entry) (lines : List Line), (∀ x ∈ rest, x.col < c) →
    Holds lines i c s → Holds (renderValues rest lines) i c s := by
  intro rest
  induction rest with
  | nil => intro lines _ h; exact h
  | cons e rest ih =>
    intro lines hlt h
    have hrest : ∀ x ∈ rest, x.col < c := fun x hx => hlt x (List.mem_cons_of_mem _ hx)
    have he : e.col < c := hlt e List.mem_cons_self
    rw [renderValues_cons]
    split
    · exact ih lines hrest h
    · rename_i hskip
      have h1 := one_le_of_not_skip hskip
      have hs := scan_holds e.text.toList e.col.toNat (endColOf e) lines 1 (by omega) (by omega)
        (endColOf_ge e) h
      split
      · exact ih _ hrest hs
      · exact ih _ hrest (hs.append _)

/-! ### the `|` line -/

/-- the first line below the source exists and never takes a value (`startCols[1] = 0`) -/
def HeadOK (lines : List Line) : Prop := ∃ l ls, lines = l :: ls ∧ l.start ≤ 0

theorem not_free_head (ec : Option Nat) {l : Line} (h : l.start ≤ 0) : ¬ free ec l = true := by
  cases ec with
  | none => simp [free]
  | some e => simp [free]; omega

theorem scan_headOK (str : List Char) (sc : Nat) (ec : Option Nat) {lines : List Line}
    (h : HeadOK lines) : HeadOK (scan str sc ec 1 lines).1 := by
  obtain ⟨l, ls, rfl, hl⟩ := h
  rw [scan_cons, if_neg (not_free_head ec hl)]
  exact ⟨_, _, rfl, hl⟩

theorem HeadOK.append {lines : List Line} (h : HeadOK lines) (more : List Line) :
    HeadOK (lines ++ more) := by
  obtain ⟨l, ls, rfl, hl⟩ := h
  exact ⟨l, ls ++ more, rfl, hl⟩

theorem scan_placed_pos (str : List Char) (sc : Nat) (ec : Option Nat) {lines : List Line}
    (h : HeadOK lines) (hp : (scan str sc ec 1 lines).2 = true) :
    ∃ (i : Nat) (l : Line), 1 ≤ i ∧ lines[i]? = some l ∧ ec ≠ none ∧
      (scan str sc ec 1 lines).1[i]? = some ({ chars := placeString l.chars str sc, start := sc } : Line) := by
  obtain ⟨l0, ls, rfl, hl⟩ := h
  rw [scan_cons, if_neg (not_free_head ec hl)] at hp ⊢
  obtain ⟨i, l, h1, h2, h3⟩ := scan_placed str sc ec ls 2 hp
  exact ⟨i + 1, l, Nat.le_add_left 1 i, by simpa using h1, h2, by simpa using h3⟩

/-! ### the step that writes the value -/

/-- the first step of `renderValues (e :: rest)` writes the pieces of `e`'s text to consecutive
lines at `e`'s column, and the remaining steps keep them -/
theorem renderValues_places (e : Entry) (rest : List Entry) (lines : List Line)
    (hhead : HeadOK lines) (hskip : ¬ skip e rest = true) (hrest : ∀ x ∈ rest, x.col < e.col) :
    ∃ i, 1 ≤ i ∧ ∀ k (hk : k < (splitLines e.text.toList []).length),
      Holds (renderValues (e :: rest) lines) (i + k) e.col (splitLines e.text.toList [])[k] := by
  have h1 := one_le_of_not_skip hskip
  have hcol : ((e.col.toNat : Nat) : Int) = e.col := by omega
  rw [renderValues_cons, if_neg hskip]
  split
  · rename_i hplaced
    obtain ⟨i, l, hi1, hl, hec, hget⟩ := scan_placed_pos _ _ _ hhead hplaced
    have hnb := endColOf_noBreak e hec
    have hsp : splitLines e.text.toList [] = [e.text.toList] := by
      rw [splitLines_of_noBreak _ _ hnb]; rfl
    refine ⟨i, hi1, fun k hk => ?_⟩
    apply renderValues_holds rest _ hrest
    have hk0 : k = 0 := by rw [hsp] at hk; simpa using hk
    subst hk0
    refine ⟨_, hget, by dsimp only; omega, ?_⟩
    simp only [hsp, List.getElem_cons_zero]
    exact placeString_at _ _ _ (by omega)
  · refine ⟨(scan e.text.toList e.col.toNat (endColOf e) 1 lines).1.length, ?_, fun k hk => ?_⟩
    · obtain ⟨l, ls, hl, _⟩ := scan_headOK e.text.toList e.col.toNat (endColOf e) hhead
      rw [hl]; exact Nat.le_add_left 1 _
    apply renderValues_holds rest _ hrest
    refine ⟨⟨placeString [] (splitLines e.text.toList [])[k] e.col.toNat, e.col.toNat⟩, ?_,
      by dsimp only; omega, placeString_at _ _ _ (by omega)⟩
    rw [List.getElem?_append_right (Nat.le_add_right _ _), Nat.add_sub_cancel_left]
    unfold freshOf
    rw [List.getElem?_map, List.getElem?_eq_getElem hk]
    rfl

/-- the entries in front only change the lines the entry starts from -/
theorem renderValues_append (s1 : List Entry) (e : Entry) (s2 : List Entry) :
    ∀ lines, HeadOK lines →
      ∃ lines', HeadOK lines' ∧ renderValues (s1 ++ e :: s2) lines = renderValues (e :: s2) lines' := by
  induction s1 with
  | nil => intro lines h; exact ⟨lines, h, rfl⟩
  | cons x s1 ih =>
    intro lines h
    rw [List.cons_append, renderValues_cons]
    have hs := scan_headOK x.text.toList x.col.toNat (endColOf x) h
    split
    · exact ih _ h
    · split
      · exact ih _ hs
      · exact ih _ (hs.append _)

end Yae.DebugRender
