/-
  Lemmas for C19, the report (continued): the entries that are NOT rendered — unknown column
  (`col < 1`), or a later entry of the record has the same column — have no influence at all on
  the report (`render_hidden`).
-/
import Yae.Proofs.DebugRenderReport
namespace Yae.DebugRender
open Yae Yae.Debug

/-- what follows a hidden entry `e` in the sorted list: `e` has an unknown column and nothing
larger follows, or the very next entry has `e`'s column -/
def Tail (e : Entry) (s2 : List Entry) : Prop :=
  (e.col < 1 ∧ ∀ y ∈ s2, y.col ≤ e.col) ∨ ∃ z t, s2 = z :: t ∧ z.col = e.col

theorem skip_self_of_tail {e : Entry} {s2 : List Entry} (h : Tail e s2) : skip e s2 = true := by
  rcases h with ⟨h, _⟩ | ⟨z, t, rfl, hz⟩
  · simp [skip, h]
  · simp [skip, hz]

/-- whether the entry in front of `e` is skipped does not depend on `e` -/
theorem skip_pred_of_tail {e : Entry} {s2 : List Entry} (h : Tail e s2) (x : Entry) :
    skip x (e :: s2) = skip x s2 := by
  rcases h with ⟨h, hle⟩ | ⟨z, t, rfl, hz⟩
  · by_cases hx : x.col < 1
    · simp [skip, hx]
    · cases s2 with
      | nil =>
        have : ¬ e.col = x.col := by omega
        simp [skip, hx, this]
      | cons z t =>
        have := hle z List.mem_cons_self
        have h1 : (e.col == x.col) = false := by simp; omega
        have h2 : (z.col == x.col) = false := by simp; omega
        simp [skip, hx, h1, h2]
  · simp [skip, hz]

theorem insertDesc_hidden (x e : Entry) {s2 : List Entry} (ht : Tail e s2) :
    ∀ (s1 : List Entry), ∃ s1' s2', insertDesc x (s1 ++ e :: s2) = s1' ++ e :: s2' ∧
      insertDesc x (s1 ++ s2) = s1' ++ s2' ∧ Tail e s2' := by
  intro s1
  induction s1 with
  | nil =>
    rw [List.nil_append, List.nil_append, insertDesc]
    split
    · rename_i hex
      refine ⟨[x], s2, rfl, ?_, ht⟩
      cases s2 with
      | nil => rfl
      | cons z t =>
        have hz : z.col ≤ x.col := by
          rcases ht with ⟨_, hle⟩ | ⟨z', t', h, hz⟩
          · have := hle z List.mem_cons_self; omega
          · cases h; omega
        rw [insertDesc, if_pos hz]; rfl
    · rename_i hex
      refine ⟨[], insertDesc x s2, rfl, rfl, ?_⟩
      rcases ht with ⟨h1, hle⟩ | ⟨z, t, rfl, hz⟩
      · refine Or.inl ⟨h1, ?_⟩
        intro y hy
        rcases insertDesc_mem.1 hy with rfl | hy
        · omega
        · exact hle y hy
      · refine Or.inr ⟨z, insertDesc x t, ?_, hz⟩
        rw [insertDesc, if_neg (by omega)]
  | cons y s1 ih =>
    rw [List.cons_append, List.cons_append, insertDesc, insertDesc]
    split
    · exact ⟨x :: y :: s1, s2, rfl, rfl, ht⟩
    · obtain ⟨s1', s2', h1, h2, h3⟩ := ih
      exact ⟨y :: s1', s2', by rw [h1]; rfl, by rw [h2]; rfl, h3⟩

theorem insertDesc_hidden_self (e : Entry) : ∀ (l : List Entry), Desc l →
    (e.col < 1 ∨ ∃ y ∈ l, y.col = e.col) →
    ∃ s1 s2, insertDesc e l = s1 ++ e :: s2 ∧ l = s1 ++ s2 ∧ Tail e s2 := by
  intro l
  induction l with
  | nil =>
    intro _ h
    refine ⟨[], [], rfl, rfl, Or.inl ⟨?_, by simp⟩⟩
    rcases h with h | ⟨y, hy, _⟩
    · exact h
    · simp at hy
  | cons z t ih =>
    intro hd h
    have hz := List.pairwise_cons.1 hd
    rw [insertDesc]
    split
    · rename_i hze
      refine ⟨[], z :: t, rfl, rfl, ?_⟩
      rcases h with h | ⟨y, hy, hye⟩
      · refine Or.inl ⟨h, ?_⟩
        intro y hy
        rcases List.mem_cons.1 hy with rfl | hy
        · exact hze
        · exact Int.le_trans (hz.1 y hy) hze
      · refine Or.inr ⟨z, t, rfl, ?_⟩
        rcases List.mem_cons.1 hy with rfl | hy
        · exact hye
        · have := hz.1 y hy; omega
    · rename_i hze
      have h' : e.col < 1 ∨ ∃ y ∈ t, y.col = e.col := by
        rcases h with h | ⟨y, hy, hye⟩
        · exact Or.inl h
        · rcases List.mem_cons.1 hy with rfl | hy
          · omega
          · exact Or.inr ⟨y, hy, hye⟩
      obtain ⟨s1, s2, h1, h2, h3⟩ := ih hz.2 h'
      exact ⟨z :: s1, s2, by rw [h1]; rfl, by rw [h2]; rfl, h3⟩

theorem sortDesc_hidden (e : Entry) (r2 : Record) (h : e.col < 1 ∨ ∃ y ∈ r2, y.col = e.col) :
    ∀ (r1 : Record), ∃ s1 s2, sortDesc (r1 ++ e :: r2) = s1 ++ e :: s2 ∧
      sortDesc (r1 ++ r2) = s1 ++ s2 ∧ Tail e s2 := by
  intro r1
  induction r1 with
  | nil =>
    rw [List.nil_append, List.nil_append, sortDesc_cons]
    refine insertDesc_hidden_self e _ (sortDesc_desc r2) ?_
    rcases h with h | ⟨y, hy, hye⟩
    · exact Or.inl h
    · exact Or.inr ⟨y, sortDesc_mem.2 hy, hye⟩
  | cons x r1 ih =>
    obtain ⟨s1, s2, h1, h2, h3⟩ := ih
    rw [List.cons_append, List.cons_append, sortDesc_cons, sortDesc_cons, h1, h2]
    exact insertDesc_hidden x e h3 s1

theorem renderValues_hidden {e : Entry} {s2 : List Entry} (ht : Tail e s2) :
    ∀ (s1 : List Entry) (lines : List Line),
      renderValues (s1 ++ e :: s2) lines = renderValues (s1 ++ s2) lines := by
  intro s1
  induction s1 with
  | nil =>
    intro lines
    rw [List.nil_append, List.nil_append, renderValues_cons, if_pos (skip_self_of_tail ht)]
  | cons x s1 ih =>
    intro lines
    have hskip : skip x (s1 ++ e :: s2) = skip x (s1 ++ s2) := by
      cases s1 with
      | nil => exact skip_pred_of_tail ht x
      | cons y s1 => rfl
    rw [List.cons_append, List.cons_append, renderValues_cons, renderValues_cons, hskip]
    simp only [ih]

/-- an entry that is not rendered — unknown column, or a later entry of the record has the same
column — has no influence on the report -/
theorem render_hidden (src : String) (r1 : Record) (e : Entry) (r2 : Record)
    (h : e.col < 1 ∨ ∃ y ∈ r2, y.col = e.col) :
    render src (r1 ++ e :: r2) = render src (r1 ++ r2) := by
  obtain ⟨s1, s2, h1, h2, h3⟩ := sortDesc_hidden e r2 h r1
  unfold render
  dsimp only
  rw [h1, h2, renderValues_hidden h3]

end Yae.DebugRender
