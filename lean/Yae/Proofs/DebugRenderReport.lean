/-
  Lemmas for C19, the report (continued): the stable descending sort, the lines of the report, and
  `render` shows every recorded value at its column (`render_shows_last`).
-/
import Yae.Proofs.DebugRender
namespace Yae.DebugRender
open Yae Yae.Debug

/-! ### the stable descending sort -/

/-- sorted by column, descending -/
def Desc (l : List Entry) : Prop := l.Pairwise fun a b => b.col ≤ a.col

theorem insertDesc_mem {x y : Entry} : ∀ {l : List Entry}, y ∈ insertDesc x l ↔ y = x ∨ y ∈ l := by
  intro l
  induction l with
  | nil => simp [insertDesc]
  | cons z l ih =>
    rw [insertDesc]
    split
    · simp
    · rw [List.mem_cons, ih, List.mem_cons]
      constructor
      · rintro (h | h | h)
        · exact Or.inr (Or.inl h)
        · exact Or.inl h
        · exact Or.inr (Or.inr h)
      · rintro (h | h | h)
        · exact Or.inr (Or.inl h)
        · exact Or.inl h
        · exact Or.inr (Or.inr h)

theorem insertDesc_desc (x : Entry) : ∀ {l : List Entry}, Desc l → Desc (insertDesc x l) := by
  intro l
  induction l with
  | nil => intro _; simp [insertDesc, Desc]
  | cons z l ih =>
    intro h
    rw [insertDesc]
    have hz := List.pairwise_cons.1 h
    split
    · rename_i hzx
      refine List.pairwise_cons.2 ⟨?_, h⟩
      intro a ha
      rcases List.mem_cons.1 ha with rfl | ha
      · exact hzx
      · exact Int.le_trans (hz.1 a ha) hzx
    · rename_i hzx
      refine List.pairwise_cons.2 ⟨?_, ih hz.2⟩
      intro a ha
      rcases insertDesc_mem.1 ha with rfl | ha
      · omega
      · exact hz.1 a ha

theorem sortDesc_cons (x : Entry) (r : Record) : sortDesc (x :: r) = insertDesc x (sortDesc r) := rfl

theorem sortDesc_desc : ∀ (r : Record), Desc (sortDesc r) := by
  intro r
  induction r with
  | nil => exact List.Pairwise.nil
  | cons x r ih => rw [sortDesc_cons]; exact insertDesc_desc x ih

theorem sortDesc_mem {y : Entry} : ∀ {r : Record}, y ∈ sortDesc r ↔ y ∈ r := by
  intro r
  induction r with
  | nil => simp [sortDesc]
  | cons x r ih => rw [sortDesc_cons, insertDesc_mem, ih, List.mem_cons]

/-- inserting `x` into a sorted list without `x`'s column: everything behind `x` is smaller -/
theorem insertDesc_split_self (x : Entry) : ∀ (l : List Entry), Desc l →
    (∀ y ∈ l, y.col ≠ x.col) →
    ∃ s1 s2, insertDesc x l = s1 ++ x :: s2 ∧ ∀ y ∈ s2, y.col < x.col := by
  intro l
  induction l with
  | nil => intro _ _; exact ⟨[], [], rfl, by simp⟩
  | cons z l ih =>
    intro hd hne
    have hz := List.pairwise_cons.1 hd
    rw [insertDesc]
    split
    · rename_i hzx
      refine ⟨[], z :: l, rfl, ?_⟩
      intro y hy
      have hne' := hne y hy
      rcases List.mem_cons.1 hy with rfl | hy'
      · omega
      · have := hz.1 y hy'; omega
    · obtain ⟨s1, s2, h1, h2⟩ := ih hz.2 (fun y hy => hne y (List.mem_cons_of_mem _ hy))
      exact ⟨z :: s1, s2, by rw [h1]; rfl, h2⟩

/-- inserting another entry keeps that shape: it never lands between `e` and the smaller ones
in a way that puts a column `≥ e.col` behind `e` -/
theorem insertDesc_split_other (x e : Entry) (s2 : List Entry) (h : ∀ y ∈ s2, y.col < e.col) :
    ∀ (s1 : List Entry), ∃ s1' s2', insertDesc x (s1 ++ e :: s2) = s1' ++ e :: s2' ∧
      ∀ y ∈ s2', y.col < e.col := by
  intro s1
  induction s1 with
  | nil =>
    rw [List.nil_append, insertDesc]
    split
    · exact ⟨[x], s2, rfl, h⟩
    · rename_i hex
      refine ⟨[], insertDesc x s2, rfl, ?_⟩
      intro y hy
      rcases insertDesc_mem.1 hy with rfl | hy
      · omega
      · exact h y hy
  | cons z s1 ih =>
    rw [List.cons_append, insertDesc]
    split
    · exact ⟨x :: z :: s1, s2, rfl, h⟩
    · obtain ⟨s1', s2', h1, h2⟩ := ih
      exact ⟨z :: s1', s2', by rw [h1]; rfl, h2⟩

/-- in the sorted list, behind the LAST recorded entry of a column come smaller columns only -/
theorem sortDesc_split (e : Entry) (r2 : Record) (hne : ∀ y ∈ r2, y.col ≠ e.col) :
    ∀ (r1 : Record), ∃ s1 s2, sortDesc (r1 ++ e :: r2) = s1 ++ e :: s2 ∧ ∀ y ∈ s2, y.col < e.col := by
  intro r1
  induction r1 with
  | nil =>
    rw [List.nil_append, sortDesc_cons]
    exact insertDesc_split_self e _ (sortDesc_desc r2) (fun y hy => hne y (sortDesc_mem.1 hy))
  | cons x r1 ih =>
    obtain ⟨s1, s2, h1, h2⟩ := ih
    rw [List.cons_append, sortDesc_cons, h1]
    exact insertDesc_split_other x e s2 h2 s1

theorem not_skip {e : Entry} {s2 : List Entry} (hc : 1 ≤ e.col) (h : ∀ y ∈ s2, y.col < e.col) :
    ¬ skip e s2 = true := by
  unfold skip
  cases s2 with
  | nil => simp; omega
  | cons y s2 =>
    have := h y List.mem_cons_self
    simp; omega

/-- **the value is shown**: the last recorded entry of a column `≥ 1` — the pieces of its text
are on consecutive lines, each at the entry's column -/
theorem renderValues_shows (r1 : Record) (e : Entry) (r2 : Record) (hc : 1 ≤ e.col)
    (hne : ∀ y ∈ r2, y.col ≠ e.col) (lines : List Line) (hhead : HeadOK lines) :
    ∃ i, 1 ≤ i ∧ ∀ k (hk : k < (splitLines e.text.toList []).length),
      Holds (renderValues (sortDesc (r1 ++ e :: r2)) lines) (i + k) e.col
        (splitLines e.text.toList [])[k] := by
  obtain ⟨s1, s2, hs, hlt⟩ := sortDesc_split e r2 hne r1
  obtain ⟨lines', hh, hl⟩ := renderValues_append s1 e s2 lines hhead
  rw [hs, hl]
  exact renderValues_places e s2 lines' hh (not_skip hc hlt) hlt

/-! ### no line break inside a line -/

def Clean (ls : List Line) : Prop := ∀ l ∈ ls, NoBreak l.chars

theorem placeString_noBreak {line str : List Char} (col : Nat) (hl : NoBreak line)
    (hs : NoBreak str) : NoBreak (placeString line str col) := by
  intro x hx
  rcases placeString_mem hx with h | rfl | h
  · exact hl x h
  · decide
  · exact hs x h

theorem bar_noBreak : NoBreak ['|'] := by
  intro x hx
  rw [List.mem_singleton] at hx
  subst hx
  decide

theorem scan_clean (str : List Char) (sc : Nat) (ec : Option Nat) (hstr : ec ≠ none → NoBreak str) :
    ∀ (ls : List Line) (j : Nat), Clean ls → Clean (scan str sc ec j ls).1 := by
  intro ls
  induction ls with
  | nil => intro j h; exact h
  | cons l0 ls ih =>
    intro j h
    have h0 : NoBreak l0.chars := h l0 List.mem_cons_self
    have hls : Clean ls := fun l hl => h l (List.mem_cons_of_mem _ hl)
    rw [scan_cons]
    split
    · rename_i hfree
      have hec : ec ≠ none := by rintro rfl; simp [free] at hfree
      intro l hl
      rcases List.mem_cons.1 hl with rfl | hl
      · exact placeString_noBreak _ h0 (hstr hec)
      · exact hls l hl
    · intro l hl
      rcases List.mem_cons.1 hl with rfl | hl
      · exact placeString_noBreak _ h0 bar_noBreak
      · exact ih (j + 1) hls l hl

theorem freshOf_clean (e : Entry) : Clean (freshOf e) := by
  intro l hl
  unfold freshOf at hl
  obtain ⟨s, hs, rfl⟩ := List.mem_map.1 hl
  exact placeString_noBreak _ noBreak_nil (splitLines_noBreak _ _ noBreak_nil s hs)

theorem Clean.append {a b : List Line} (ha : Clean a) (hb : Clean b) : Clean (a ++ b) := by
  intro l hl
  rcases List.mem_append.1 hl with h | h
  · exact ha l h
  · exact hb l h

/-- no line of the report (below the source) contains a line break character -/
theorem renderValues_clean : ∀ (es : List Entry) (lines : List Line), Clean lines →
    Clean (renderValues es lines) := by
  intro es
  induction es with
  | nil => intro lines h; exact h
  | cons e es ih =>
    intro lines h
    rw [renderValues_cons]
    have hs := scan_clean e.text.toList e.col.toNat (endColOf e) (endColOf_noBreak e) lines 1 h
    split
    · exact ih _ h
    · split
      · exact ih _ hs
      · exact ih _ (hs.append (freshOf_clean e))

/-! ### the report as a list of lines -/

/-- split at every `'\n'` (`cur`: the current line, reversed) -/
def linesAux : List Char → List Char → List (List Char)
  | [], cur => [cur.reverse]
  | c :: rest, cur =>
    if c = '\n' then cur.reverse :: linesAux rest [] else linesAux rest (c :: cur)

/-- the lines of a text: the text split at every `'\n'` -/
def linesOf (s : String) : List (List Char) := linesAux s.toList []

theorem linesAux_append (a : List Char) (ha : ∀ x ∈ a, x ≠ '\n') :
    ∀ (b cur : List Char), linesAux (a ++ b) cur = linesAux b (a.reverse ++ cur) := by
  induction a with
  | nil => intro b cur; rfl
  | cons c a ih =>
    intro b cur
    rw [List.cons_append, linesAux, if_neg (ha c List.mem_cons_self),
      ih (fun x hx => ha x (List.mem_cons_of_mem _ hx))]
    simp

theorem linesAux_intercalate : ∀ (a : List Char) (L : List (List Char)) (cur : List Char),
    (∀ l ∈ a :: L, ∀ x ∈ l, x ≠ '\n') →
    linesAux (['\n'].intercalate (a :: L)) cur = (cur.reverse ++ a) :: L := by
  intro a L
  induction L generalizing a with
  | nil =>
    intro cur h
    rw [List.intercalate_singleton]
    have := linesAux_append a (h a List.mem_cons_self) [] cur
    rw [List.append_nil] at this
    rw [this, linesAux]
    simp
  | cons b L ih =>
    intro cur h
    rw [List.intercalate_cons_cons, List.append_assoc,
      linesAux_append a (h a List.mem_cons_self), List.singleton_append, linesAux, if_pos rfl,
      ih b [] (fun l hl => h l (List.mem_cons_of_mem _ hl))]
    simp

/-- the lines below the source line -/
def valueLines (r : Record) : List Line := renderValues (sortDesc r) [{ chars := [], start := 0 }]

theorem valueLines_clean (r : Record) : Clean (valueLines r) := by
  apply renderValues_clean
  intro l hl
  rw [List.mem_singleton] at hl
  subst hl
  exact noBreak_nil

/-- the report, split at its line breaks: the source, then the lines `renderValues` built -/
theorem linesOf_render (src : String) (r : Record) (hsrc : ∀ x ∈ src.toList, x ≠ '\n') :
    linesOf (render src r) = src.toList :: (valueLines r).map (·.chars) := by
  unfold linesOf render
  dsimp only
  rw [String.toList_intercalate, List.map_cons, List.map_map]
  have h1 : "\n".toList = ['\n'] := rfl
  have h2 : (String.toList ∘ fun (l : Line) => String.ofList l.chars) = fun l => l.chars := by
    funext l; simp
  rw [h1, h2, linesAux_intercalate]
  · rfl
  · intro l hl
    rcases List.mem_cons.1 hl with rfl | hl
    · exact hsrc
    · obtain ⟨l', hl', rfl⟩ := List.mem_map.1 hl
      intro x hx
      exact (valueLines_clean r l' hl' x hx).1

/-! ### the report shows the values -/

/-- the last recorded entry of a column `≥ 1`: the pieces of its text stand on consecutive lines
of the report, below the source line and the `|` line, each from the entry's column on -/
theorem render_shows_last (src : String) (r1 : Record) (e : Entry) (r2 : Record)
    (hsrc : ∀ x ∈ src.toList, x ≠ '\n') (hc : 1 ≤ e.col) (hne : ∀ y ∈ r2, y.col ≠ e.col) :
    ∃ i, 2 ≤ i ∧ ∀ k (hk : k < (splitLines e.text.toList []).length), ∃ line,
      (linesOf (render src (r1 ++ e :: r2)))[i + k]? = some line ∧
      (line.drop (e.col.toNat - 1)).take ((splitLines e.text.toList [])[k]).length =
        (splitLines e.text.toList [])[k] := by
  obtain ⟨i, hi1, hi⟩ := renderValues_shows r1 e r2 hc hne [{ chars := [], start := 0 }]
    ⟨_, _, rfl, Int.le_refl 0⟩
  refine ⟨i + 1, Nat.succ_le_succ hi1, fun k hk => ?_⟩
  obtain ⟨l, hl, _, hat⟩ := hi k hk
  refine ⟨l.chars, ?_, at_iff.1 hat⟩
  rw [linesOf_render src _ hsrc, Nat.add_right_comm, List.getElem?_cons_succ, List.getElem?_map]
  unfold valueLines
  rw [hl]
  rfl

/-- with pairwise distinct columns every entry is the last of its column -/
theorem split_of_nodup {r : Record} (hd : (r.map (·.col)).Nodup) {e : Entry} (he : e ∈ r) :
    ∃ r1 r2, r = r1 ++ e :: r2 ∧ ∀ y ∈ r2, y.col ≠ e.col := by
  obtain ⟨r1, r2, rfl⟩ := List.append_of_mem he
  refine ⟨r1, r2, rfl, ?_⟩
  intro y hy hcol
  rw [List.map_append, List.map_cons] at hd
  have h2 := (List.nodup_append.1 hd).2.1
  have h3 := (List.nodup_cons.1 h2).1
  exact h3 (hcol ▸ List.mem_map_of_mem hy)

theorem render_shows_lines (src : String) (r : Record) (hsrc : ∀ x ∈ src.toList, x ≠ '\n')
    (hd : (r.map (·.col)).Nodup) (e : Entry) (he : e ∈ r) (hc : 1 ≤ e.col) :
    ∃ i, 2 ≤ i ∧ ∀ k (hk : k < (splitLines e.text.toList []).length), ∃ line,
      (linesOf (render src r))[i + k]? = some line ∧
      (line.drop (e.col.toNat - 1)).take ((splitLines e.text.toList [])[k]).length =
        (splitLines e.text.toList [])[k] := by
  obtain ⟨r1, r2, rfl, hne⟩ := split_of_nodup hd he
  exact render_shows_last src r1 e r2 hsrc hc hne

/-- a single-line value: one line of the report carries the whole text -/
theorem single_of_lines {L : List (List Char)} {e : Entry}
    (hone : ∀ x ∈ e.text.toList, x ≠ '\n' ∧ x ≠ '\r')
    (h : ∃ i, 2 ≤ i ∧ ∀ k (hk : k < (splitLines e.text.toList []).length), ∃ line,
      L[i + k]? = some line ∧
      (line.drop (e.col.toNat - 1)).take ((splitLines e.text.toList [])[k]).length =
        (splitLines e.text.toList [])[k]) :
    ∃ i line, 2 ≤ i ∧ L[i]? = some line ∧
      (line.drop (e.col.toNat - 1)).take e.text.length = e.text.toList := by
  have hsp : splitLines e.text.toList [] = [e.text.toList] := by
    rw [splitLines_of_noBreak _ _ hone]; rfl
  obtain ⟨i, hi, h⟩ := h
  obtain ⟨line, h1, h2⟩ := h 0 (by rw [hsp]; exact Nat.zero_lt_one)
  refine ⟨i, line, hi, h1, ?_⟩
  simp only [hsp, List.getElem_cons_zero, String.length_toList] at h2
  exact h2

/-- below the source line no line contains a line break character -/
theorem render_tail_noBreak (src : String) (r : Record) (hsrc : ∀ x ∈ src.toList, x ≠ '\n') :
    ∀ line ∈ (linesOf (render src r)).tail, NoBreak line := by
  rw [linesOf_render src r hsrc, List.tail_cons]
  intro line hl
  obtain ⟨l, hl', rfl⟩ := List.mem_map.1 hl
  exact valueLines_clean r l hl'

/-- the report loses nothing when split into its lines -/
theorem render_eq_join (src : String) (r : Record) (hsrc : ∀ x ∈ src.toList, x ≠ '\n') :
    "\n".intercalate ((linesOf (render src r)).map String.ofList) = render src r := by
  rw [linesOf_render src r hsrc, List.map_cons, String.ofList_toList, List.map_map]
  rfl

end Yae.DebugRender
