/-
  Lemmas about `Yae.desugar` (model of `trans.Desugar`) for property C10.

  All inductions go through `desugar.mutual_induct`, the functional induction principle of the
  mutual block `desugar / desugarList / desugarPairs / desugarFields`; its two `call` cases are
  exactly the two `call` equations of `desugar` ("callee is directly a `Member`" and "callee is
  anything else").
-/
import Yae.Model.Desugar
namespace Yae

/-! ## the `call` equation for a callee that is not directly a `Member` -/

theorem desugar_call_of_not_member {p : Pos} {col : Int} {callee : Expr} {args : ExprList}
    {cty : Option Ty} {res : String} {idx : Int} (h : callee.isMember = false) :
    desugar (.call p col callee args cty res idx)
      = .call p col (desugar callee) (desugarList args) none "" (-1) := by
  cases callee <;> first | rfl | (simp [Expr.isMember] at h)

theorem isMember_false_of_forall {callee : Expr}
    (h : ∀ (p : Pos) (col : Int) (o : Expr) (f : String) (fp : Pos) (objTy : Option Ty)
      (index : Int), callee = Expr.member p col o f fp objTy index → False) :
    callee.isMember = false := by
  cases callee <;> first | rfl | exact (h _ _ _ _ _ _ _ rfl).elim

/-! ## order: the list functions are maps -/

theorem desugarList_toList (es : ExprList) :
    (desugarList es).toList = es.toList.map desugar := by
  have : ∀ es : ExprList, (desugarList es).toList = es.toList.map desugar := by
    intro es
    refine (desugar.mutual_induct (fun _ => True) (fun _ => True) (fun _ => True)
      (fun es => (desugarList es).toList = es.toList.map desugar)
      ?_ ?_ ?_ ?_ ?_ ?_ ?_ ?_ ?_ ?_ ?_ ?_ ?_ ?_ ?_ ?_ ?_ ?_ ?_ ?_ ?_ ?_).2.2.2 es
    all_goals (intros; first | trivial | simp_all [desugarList, ExprList.toList])
  exact this es

theorem desugarPairs_toList (ps : PairList) :
    (desugarPairs ps).toList = ps.toList.map (fun kv => (desugar kv.1, desugar kv.2)) := by
  refine (desugar.mutual_induct (fun _ => True) (fun _ => True)
    (fun ps => (desugarPairs ps).toList = ps.toList.map (fun kv => (desugar kv.1, desugar kv.2)))
    (fun _ => True)
    ?_ ?_ ?_ ?_ ?_ ?_ ?_ ?_ ?_ ?_ ?_ ?_ ?_ ?_ ?_ ?_ ?_ ?_ ?_ ?_ ?_ ?_).2.2.1 ps
  all_goals (intros; first | trivial | simp_all [desugarPairs, PairList.toList])

theorem desugarFields_toList (fs : FieldEList) :
    (desugarFields fs).toList = fs.toList.map (fun ne => (ne.1, desugar ne.2)) := by
  refine (desugar.mutual_induct (fun _ => True)
    (fun fs => (desugarFields fs).toList = fs.toList.map (fun ne => (ne.1, desugar ne.2)))
    (fun _ => True) (fun _ => True)
    ?_ ?_ ?_ ?_ ?_ ?_ ?_ ?_ ?_ ?_ ?_ ?_ ?_ ?_ ?_ ?_ ?_ ?_ ?_ ?_ ?_ ?_).2.1 fs
  all_goals (intros; first | trivial | simp_all [desugarFields, FieldEList.toList])

theorem desugarList_length (es : ExprList) : (desugarList es).length = es.length := by
  refine (desugar.mutual_induct (fun _ => True) (fun _ => True) (fun _ => True)
    (fun es => (desugarList es).length = es.length)
    ?_ ?_ ?_ ?_ ?_ ?_ ?_ ?_ ?_ ?_ ?_ ?_ ?_ ?_ ?_ ?_ ?_ ?_ ?_ ?_ ?_ ?_).2.2.2 es
  all_goals (intros; first | trivial | simp_all [desugarList, ExprList.length])

/-! ## only core forms remain -/

theorem desugar_isCore_all :
    (∀ e : Expr, (desugar e).isCore = true) ∧
    (∀ fs : FieldEList, isCoreFields (desugarFields fs) = true) ∧
    (∀ ps : PairList, isCorePairs (desugarPairs ps) = true) ∧
    (∀ es : ExprList, isCoreList (desugarList es) = true) := by
  refine desugar.mutual_induct (fun e => (desugar e).isCore = true)
    (fun fs => isCoreFields (desugarFields fs) = true)
    (fun ps => isCorePairs (desugarPairs ps) = true)
    (fun es => isCoreList (desugarList es) = true)
    ?_ ?_ ?_ ?_ ?_ ?_ ?_ ?_ ?_ ?_ ?_ ?_ ?_ ?_ ?_ ?_ ?_ ?_ ?_ ?_ ?_ ?_
  case refine_13 =>
    intro p col callee args cty res idx hnm ihc iha
    rw [desugar_call_of_not_member (isMember_false_of_forall hnm)]
    simp [Expr.isCore, ihc, iha]
  all_goals (intros; simp_all [desugar, desugarList, desugarPairs, desugarFields, Expr.isCore,
    isCoreList, isCorePairs, isCoreFields])

theorem desugar_isCore (e : Expr) : (desugar e).isCore = true := desugar_isCore_all.1 e

/-! ## attachments: what `desugar` does to a core tree -/

mutual
/-- Erase the checker attachments (`Type`, `VarType`, `ObjType`, `CalleeType` := nil,
`Resolved` := "", `Index` := -1), keep everything else. -/
def Expr.eraseAtt : Expr → Expr
  | .str p v => .str p v
  | .num p v => .num p v
  | .time p v => .time p v
  | .bool p v => .bool p v
  | .ident p n => .ident p n
  | .list p es _ => .list p (eraseAttList es) none
  | .map p ps _ => .map p (eraseAttPairs ps) none
  | .obj p fs _ => .obj p (eraseAttFields fs) none
  | .call p col c as _ _ _ => .call p col c.eraseAtt (eraseAttList as) none "" (-1)
  | .subscript p col v i _ => .subscript p col v.eraseAtt i.eraseAtt none
  | .member p col o f fp _ _ => .member p col o.eraseAtt f fp none (-1)
  | .unary p n np e pre => .unary p n np e.eraseAtt pre
  | .binary p n np fx l r => .binary p n np fx l.eraseAtt r.eraseAtt
  | .ternary p n np l m r => .ternary p n np l.eraseAtt m.eraseAtt r.eraseAtt
  | .group p e => .group p e.eraseAtt
def eraseAttList : ExprList → ExprList
  | .nil => .nil
  | .cons e es => .cons e.eraseAtt (eraseAttList es)
def eraseAttPairs : PairList → PairList
  | .nil => .nil
  | .cons k v ps => .cons k.eraseAtt v.eraseAtt (eraseAttPairs ps)
def eraseAttFields : FieldEList → FieldEList
  | .nil => .nil
  | .cons n e fs => .cons n e.eraseAtt (eraseAttFields fs)
end

mutual
/-- No call node whose callee is directly a `Member` node (no method-call syntax left). -/
def Expr.noMemberCallee : Expr → Bool
  | .list _ es _ => noMemberCalleeList es
  | .map _ ps _ => noMemberCalleePairs ps
  | .obj _ fs _ => noMemberCalleeFields fs
  | .call _ _ c as _ _ _ => !c.isMember && c.noMemberCallee && noMemberCalleeList as
  | .subscript _ _ v i _ => v.noMemberCallee && i.noMemberCallee
  | .member _ _ o _ _ _ _ => o.noMemberCallee
  | .unary _ _ _ e _ => e.noMemberCallee
  | .binary _ _ _ _ l r => l.noMemberCallee && r.noMemberCallee
  | .ternary _ _ _ l m r => l.noMemberCallee && m.noMemberCallee && r.noMemberCallee
  | .group _ e => e.noMemberCallee
  | _ => true
def noMemberCalleeList : ExprList → Bool
  | .nil => true
  | .cons e es => e.noMemberCallee && noMemberCalleeList es
def noMemberCalleePairs : PairList → Bool
  | .nil => true
  | .cons k v ps => k.noMemberCallee && v.noMemberCallee && noMemberCalleePairs ps
def noMemberCalleeFields : FieldEList → Bool
  | .nil => true
  | .cons _ e fs => e.noMemberCallee && noMemberCalleeFields fs
end

/-- On a core tree without method-call syntax `desugar` only erases the attachments. -/
theorem desugar_core_fixed_all :
    (∀ e : Expr, e.isCore = true → e.noMemberCallee = true → desugar e = e.eraseAtt) ∧
    (∀ fs : FieldEList, isCoreFields fs = true → noMemberCalleeFields fs = true →
      desugarFields fs = eraseAttFields fs) ∧
    (∀ ps : PairList, isCorePairs ps = true → noMemberCalleePairs ps = true →
      desugarPairs ps = eraseAttPairs ps) ∧
    (∀ es : ExprList, isCoreList es = true → noMemberCalleeList es = true →
      desugarList es = eraseAttList es) := by
  refine desugar.mutual_induct
    (fun e => e.isCore = true → e.noMemberCallee = true → desugar e = e.eraseAtt)
    (fun fs => isCoreFields fs = true → noMemberCalleeFields fs = true →
      desugarFields fs = eraseAttFields fs)
    (fun ps => isCorePairs ps = true → noMemberCalleePairs ps = true →
      desugarPairs ps = eraseAttPairs ps)
    (fun es => isCoreList es = true → noMemberCalleeList es = true →
      desugarList es = eraseAttList es)
    ?_ ?_ ?_ ?_ ?_ ?_ ?_ ?_ ?_ ?_ ?_ ?_ ?_ ?_ ?_ ?_ ?_ ?_ ?_ ?_ ?_ ?_
  case refine_13 =>
    intro p col callee args cty res idx hnm ihc iha hc hn
    rw [desugar_call_of_not_member (isMember_false_of_forall hnm)]
    simp [Expr.isCore, Expr.noMemberCallee] at hc hn
    simp [Expr.eraseAtt, ihc hc.1 hn.1.2, iha hc.2 hn.2]
  all_goals (intros; simp_all [desugar, desugarList, desugarPairs, desugarFields, Expr.isCore,
    isCoreList, isCorePairs, isCoreFields, Expr.noMemberCallee, noMemberCalleeList,
    noMemberCalleePairs, noMemberCalleeFields, Expr.eraseAtt, eraseAttList, eraseAttPairs,
    eraseAttFields, Expr.isMember])

/-- The output of `desugar` carries no attachments. -/
theorem eraseAtt_desugar_all :
    (∀ e : Expr, (desugar e).eraseAtt = desugar e) ∧
    (∀ fs : FieldEList, eraseAttFields (desugarFields fs) = desugarFields fs) ∧
    (∀ ps : PairList, eraseAttPairs (desugarPairs ps) = desugarPairs ps) ∧
    (∀ es : ExprList, eraseAttList (desugarList es) = desugarList es) := by
  refine desugar.mutual_induct (fun e => (desugar e).eraseAtt = desugar e)
    (fun fs => eraseAttFields (desugarFields fs) = desugarFields fs)
    (fun ps => eraseAttPairs (desugarPairs ps) = desugarPairs ps)
    (fun es => eraseAttList (desugarList es) = desugarList es)
    ?_ ?_ ?_ ?_ ?_ ?_ ?_ ?_ ?_ ?_ ?_ ?_ ?_ ?_ ?_ ?_ ?_ ?_ ?_ ?_ ?_ ?_
  case refine_13 =>
    intro p col callee args cty res idx hnm ihc iha
    rw [desugar_call_of_not_member (isMember_false_of_forall hnm)]
    simp [Expr.eraseAtt, ihc, iha]
  all_goals (intros; simp_all [desugar, desugarList, desugarPairs, desugarFields,
    Expr.eraseAtt, eraseAttList, eraseAttPairs, eraseAttFields])

/-! ## idempotence and its exception (finding D18) -/

/-- Strip any number of enclosing `Group`s. -/
def Expr.stripGroups : Expr → Expr
  | .group _ e => e.stripGroups
  | e => e

/-- A `Group` (possibly nested `Group`s) around a `Member`: `(o.f)`, `((o.f))`, … -/
def Expr.isGroupedMember : Expr → Bool
  | .group _ e => e.stripGroups.isMember
  | _ => false

mutual
/-- No call node whose callee is a parenthesised member access `(o.f)(…)`. -/
def Expr.noGroupMemberCallee : Expr → Bool
  | .list _ es _ => noGroupMemberCalleeList es
  | .map _ ps _ => noGroupMemberCalleePairs ps
  | .obj _ fs _ => noGroupMemberCalleeFields fs
  | .call _ _ c as _ _ _ =>
      !c.isGroupedMember && c.noGroupMemberCallee && noGroupMemberCalleeList as
  | .subscript _ _ v i _ => v.noGroupMemberCallee && i.noGroupMemberCallee
  | .member _ _ o _ _ _ _ => o.noGroupMemberCallee
  | .unary _ _ _ e _ => e.noGroupMemberCallee
  | .binary _ _ _ _ l r => l.noGroupMemberCallee && r.noGroupMemberCallee
  | .ternary _ _ _ l m r =>
      l.noGroupMemberCallee && m.noGroupMemberCallee && r.noGroupMemberCallee
  | .group _ e => e.noGroupMemberCallee
  | _ => true
def noGroupMemberCalleeList : ExprList → Bool
  | .nil => true
  | .cons e es => e.noGroupMemberCallee && noGroupMemberCalleeList es
def noGroupMemberCalleePairs : PairList → Bool
  | .nil => true
  | .cons k v ps => k.noGroupMemberCallee && v.noGroupMemberCallee && noGroupMemberCalleePairs ps
def noGroupMemberCalleeFields : FieldEList → Bool
  | .nil => true
  | .cons _ e fs => e.noGroupMemberCallee && noGroupMemberCalleeFields fs
end

/-- `desugar e` is a `Member` node exactly when `e` is a `Member` under zero or more `Group`s. -/
theorem desugar_isMember (e : Expr) : (desugar e).isMember = e.stripGroups.isMember := by
  refine (desugar.mutual_induct (fun e => (desugar e).isMember = e.stripGroups.isMember)
    (fun _ => True) (fun _ => True) (fun _ => True)
    ?_ ?_ ?_ ?_ ?_ ?_ ?_ ?_ ?_ ?_ ?_ ?_ ?_ ?_ ?_ ?_ ?_ ?_ ?_ ?_ ?_ ?_).1 e
  case refine_13 =>
    intro p col callee args cty res idx hnm _ _
    rw [desugar_call_of_not_member (isMember_false_of_forall hnm)]
    simp [Expr.isMember, Expr.stripGroups]
  all_goals (intros; first | trivial | simp_all [desugar, Expr.isMember, Expr.stripGroups])

/-- A callee that is not directly a `Member` and not a grouped `Member` does not desugar to a
`Member`. -/
theorem desugar_callee_not_member {c : Expr} (h1 : c.isMember = false)
    (h2 : c.isGroupedMember = false) : (desugar c).isMember = false := by
  rw [desugar_isMember]
  cases c <;> simp_all [Expr.stripGroups, Expr.isMember, Expr.isGroupedMember]

/-- Without `(o.f)(…)` the output of `desugar` has no `Member` callee. -/
theorem desugar_noMemberCallee_all :
    (∀ e : Expr, e.noGroupMemberCallee = true → (desugar e).noMemberCallee = true) ∧
    (∀ fs : FieldEList, noGroupMemberCalleeFields fs = true →
      noMemberCalleeFields (desugarFields fs) = true) ∧
    (∀ ps : PairList, noGroupMemberCalleePairs ps = true →
      noMemberCalleePairs (desugarPairs ps) = true) ∧
    (∀ es : ExprList, noGroupMemberCalleeList es = true →
      noMemberCalleeList (desugarList es) = true) := by
  refine desugar.mutual_induct
    (fun e => e.noGroupMemberCallee = true → (desugar e).noMemberCallee = true)
    (fun fs => noGroupMemberCalleeFields fs = true →
      noMemberCalleeFields (desugarFields fs) = true)
    (fun ps => noGroupMemberCalleePairs ps = true →
      noMemberCalleePairs (desugarPairs ps) = true)
    (fun es => noGroupMemberCalleeList es = true →
      noMemberCalleeList (desugarList es) = true)
    ?_ ?_ ?_ ?_ ?_ ?_ ?_ ?_ ?_ ?_ ?_ ?_ ?_ ?_ ?_ ?_ ?_ ?_ ?_ ?_ ?_ ?_
  case refine_13 =>
    intro p col callee args cty res idx hnm ihc iha hn
    have hm := isMember_false_of_forall hnm
    rw [desugar_call_of_not_member hm]
    simp [Expr.noGroupMemberCallee] at hn
    simp [Expr.noMemberCallee, ihc hn.1.2, iha hn.2, desugar_callee_not_member hm hn.1.1]
  all_goals (intros; simp_all [desugar, desugarList, desugarPairs, desugarFields,
    Expr.noMemberCallee, noMemberCalleeList, noMemberCalleePairs, noMemberCalleeFields,
    Expr.noGroupMemberCallee, noGroupMemberCalleeList, noGroupMemberCalleePairs,
    noGroupMemberCalleeFields, Expr.isMember])

theorem desugar_idem_of_noGroupMemberCallee {e : Expr} (h : e.noGroupMemberCallee = true) :
    desugar (desugar e) = desugar e := by
  rw [desugar_core_fixed_all.1 _ (desugar_isCore e) (desugar_noMemberCallee_all.1 e h)]
  exact eraseAtt_desugar_all.1 e

end Yae
