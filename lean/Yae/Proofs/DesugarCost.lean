/-
  The instrumented desugarer (`Yae/Spec/DesugarCost.lean`): erasure (`desugarC_erase`: dropping
  the counter gives `desugar`) and the bound (`desugarC_calls`: at most one call per node).
  One functional induction over the mutual block for both.
-/
import Yae.Spec.DesugarCost
import Yae.Proofs.Desugar
namespace Yae

theorem desugarC_call_of_not_member {p : Pos} {col : Int} {callee : Expr} {args : ExprList}
    {cty : Option Ty} {res : String} {idx : Int} (h : callee.isMember = false) :
    desugarC (.call p col callee args cty res idx)
      = (.call p col (desugarC callee).1 (desugarListC args).1 none "" (-1),
          (desugarC callee).2 + (desugarListC args).2 + 1) := by
  cases callee <;> first | rfl | (simp [Expr.isMember] at h)

theorem desugarC_all :
    (∀ e : Expr, (desugarC e).1 = desugar e ∧ (desugarC e).2 ≤ e.nodes) ∧
    (∀ fs : FieldEList, (desugarFieldsC fs).1 = desugarFields fs ∧
      (desugarFieldsC fs).2 ≤ nodesFields fs) ∧
    (∀ ps : PairList, (desugarPairsC ps).1 = desugarPairs ps ∧
      (desugarPairsC ps).2 ≤ nodesPairs ps) ∧
    (∀ es : ExprList, (desugarListC es).1 = desugarList es ∧
      (desugarListC es).2 ≤ nodesList es) := by
  refine desugar.mutual_induct
    (fun e => (desugarC e).1 = desugar e ∧ (desugarC e).2 ≤ e.nodes)
    (fun fs => (desugarFieldsC fs).1 = desugarFields fs ∧ (desugarFieldsC fs).2 ≤ nodesFields fs)
    (fun ps => (desugarPairsC ps).1 = desugarPairs ps ∧ (desugarPairsC ps).2 ≤ nodesPairs ps)
    (fun es => (desugarListC es).1 = desugarList es ∧ (desugarListC es).2 ≤ nodesList es)
    ?_ ?_ ?_ ?_ ?_ ?_ ?_ ?_ ?_ ?_ ?_ ?_ ?_ ?_ ?_ ?_ ?_ ?_ ?_ ?_ ?_ ?_
  case refine_13 =>
    intro p col callee args cty res idx hnm ihc iha
    rw [desugar_call_of_not_member (isMember_false_of_forall hnm),
      desugarC_call_of_not_member (isMember_false_of_forall hnm)]
    simp only [ihc.1, iha.1, Expr.nodes, true_and]
    have := ihc.2; have := iha.2; omega
  all_goals
    intros
    simp only [desugarC, desugarListC, desugarPairsC, desugarFieldsC, desugar, desugarList,
      desugarPairs, desugarFields, Expr.nodes, nodesList, nodesPairs, nodesFields]
    first
      | exact ⟨rfl, Nat.le_refl _⟩
      | (simp_all; done)
      | (simp_all; omega)

/-- ERASURE: `desugarC` is `desugar` plus a counter. -/
theorem desugarC_erase (e : Expr) : (desugarC e).1 = desugar e := (desugarC_all.1 e).1

/-- at most one call of `desugar` per node -/
theorem desugarC_calls (e : Expr) : (desugarC e).2 ≤ e.nodes := (desugarC_all.1 e).2

/-- the desugared tree has at most twice the nodes (an operator node becomes a call node plus an
identifier node for the operator name) -/
theorem desugar_nodes_all :
    (∀ e : Expr, (desugar e).nodes ≤ 2 * e.nodes) ∧
    (∀ fs : FieldEList, nodesFields (desugarFields fs) ≤ 2 * nodesFields fs) ∧
    (∀ ps : PairList, nodesPairs (desugarPairs ps) ≤ 2 * nodesPairs ps) ∧
    (∀ es : ExprList, nodesList (desugarList es) ≤ 2 * nodesList es) := by
  refine desugar.mutual_induct
    (fun e => (desugar e).nodes ≤ 2 * e.nodes)
    (fun fs => nodesFields (desugarFields fs) ≤ 2 * nodesFields fs)
    (fun ps => nodesPairs (desugarPairs ps) ≤ 2 * nodesPairs ps)
    (fun es => nodesList (desugarList es) ≤ 2 * nodesList es)
    ?_ ?_ ?_ ?_ ?_ ?_ ?_ ?_ ?_ ?_ ?_ ?_ ?_ ?_ ?_ ?_ ?_ ?_ ?_ ?_ ?_ ?_
  case refine_13 =>
    intro p col callee args cty res idx hnm ihc iha
    rw [desugar_call_of_not_member (isMember_false_of_forall hnm)]
    simp only [Expr.nodes]
    omega
  all_goals
    intros
    simp only [desugar, desugarList, desugarPairs, desugarFields, Expr.nodes, nodesList,
      nodesPairs, nodesFields]
    omega

theorem desugar_nodes (e : Expr) : (desugar e).nodes ≤ 2 * e.nodes := desugar_nodes_all.1 e

end Yae
