/-
  Lemmas for C13: what the tree `check` returns refers to, and what appending to the function
  table does to the resolution of its static calls.

  `Closed Γ e'`: in the positions `eval` visits, every identifier of the checked tree is a
  variable of `Γ`, and every statically dispatched call resolves in `Γ.funs` (no hypothesis on
  `Γ`).  With `EngineEval.eval_congr`: an invocation depends on the run-time environment only
  through the compile-time names, and on the function table only through the entries the tree's
  static calls refer to.
-/
import Yae.Proofs.EngineEval
import Yae.Proofs.SoundnessCheck
import Yae.Proofs.TypingCheck
import Yae.Proofs.ConvEnv
import Yae.Model.Engine
namespace Yae.EngineCheck
open Yae Yae.Facade Yae.EngineEval

def Closed (Γ : TEnv) : Expr → Prop :=
  All (fun x => ∃ t, (x, t) ∈ Γ.vars) (fun r i => ∃ d, resolveStatic Γ.funs r i = some d) True

abbrev ClosedL (Γ : TEnv) : ExprList → Prop :=
  AllL (fun x => ∃ t, (x, t) ∈ Γ.vars) (fun r i => ∃ d, resolveStatic Γ.funs r i = some d) True
abbrev ClosedP (Γ : TEnv) : PairList → Prop :=
  AllP (fun x => ∃ t, (x, t) ∈ Γ.vars) (fun r i => ∃ d, resolveStatic Γ.funs r i = some d) True
abbrev ClosedF (Γ : TEnv) : FieldEList → Prop :=
  AllF (fun x => ∃ t, (x, t) ∈ Γ.vars) (fun r i => ∃ d, resolveStatic Γ.funs r i = some d) True

/-- a successful overload resolution names an entry of the table -/
theorem resolve_resolves {Γ : TEnv} {ctr : Nat} {fname : String} {args : TyList}
    {r : Resolved} {ctr' : Nat} (h : resolveOverloadedFun Γ ctr fname args = .ok (r, ctr')) :
    (r.key == "") = false ∧ ∃ d, resolveStatic Γ.funs r.key r.index = some d := by
  unfold resolveOverloadedFun at h
  simp only [] at h
  split at h
  · next d hd =>
    split at h
    · have := Sound.CR.pure_eq_ok.1 h
      cases this
      exact ⟨Sound.key_ne_empty_mono _ _, d, by simp [resolveStatic, hd]⟩
    · exact absurd h Sound.CR.throw_ne_ok
  · split at h
    · exact absurd h Sound.CR.throw_ne_ok
    · simp only [Sound.Except.bind_eq_ok'] at h
      obtain ⟨⟨res, c1⟩, htry, h⟩ := h
      simp only at h
      split at h
      · next i ps' ret' name =>
        have := Sound.CR.pure_eq_ok.1 h
        cases this
        obtain ⟨d, ps, ret, c, _, hg, _, _⟩ := Sound.tryPoly_some _ _ _ _ _ _ _ _ _ htry
        simp only [Nat.sub_zero] at hg
        refine ⟨by simp, d, ?_⟩
        simp only [resolveStatic]
        rw [if_neg (by omega)]
        simpa using hg
      · exact absurd h Sound.CR.throw_ne_ok

theorem lookupVar_mem {Γ : TEnv} {x : String} {T : Ty} (h : Γ.lookupVar x = some T) :
    (x, T) ∈ Γ.vars := by
  unfold TEnv.lookupVar at h
  simp only [Option.map_eq_some_iff] at h
  obtain ⟨p, hp, rfl⟩ := h
  have h1 := List.find?_some hp
  have h2 := List.mem_of_find?_eq_some hp
  simp only [beq_iff_eq] at h1
  rw [← h1]; exact h2

section
variable {Γ : TEnv}

mutual
theorem check_closed : ∀ (e : Expr) (c : Nat) (T : Ty) (e' : Expr) (c' : Nat),
    check Γ c e = .ok (T, e', c') → Closed Γ e'
  | .str _ _, _, _, _, _, h | .num _ _, _, _, _, _, h | .time _ _, _, _, _, _, h
  | .bool _ _, _, _, _, _, h => by
    simp only [check, Yae.CR.pure_eq_ok, Prod.mk.injEq] at h
    rw [← h.2.1]; simp only [Closed, All]
  | .list p .nil ty, c, T, e', c', h => by
    simp only [check, Yae.CR.pure_eq_ok, Prod.mk.injEq] at h
    rw [← h.2.1]; simp only [Closed, All, AllL]
  | .list p (.cons e es) ty, c, T, e', c', h => by
    simp only [check, Yae.CR.bind_eq_ok, Yae.CR.pure_eq_ok, Prod.mk.injEq] at h
    obtain ⟨⟨T1, e1, c1⟩, h1, ⟨es1, c2⟩, h2, h3⟩ := h
    rw [← h3.2.1]
    simp only [Closed, All, AllL]
    exact ⟨check_closed e _ _ _ _ h1, checkElems_closed es _ _ _ _ h2⟩
  | .map p .nil ty, c, T, e', c', h => by
    simp only [check, Yae.CR.pure_eq_ok, Prod.mk.injEq] at h
    rw [← h.2.1]; simp only [Closed, All, AllP]
  | .map p (.cons k v ps) ty, c, T, e', c', h => by
    simp only [check] at h
    obtain ⟨⟨T1, k1, c1⟩, h1, h⟩ := Yae.CR.bind_eq_ok.1 h
    split at h
    · exact absurd h (by simp [Yae.CR.throw_eq])
    simp only [Yae.CR.bind_eq_ok] at h
    obtain ⟨⟨T2, v1, c2⟩, h3, ⟨ps1, c3⟩, h4, h5⟩ := h
    simp only [Yae.CR.pure_eq_ok, Prod.mk.injEq] at h5
    rw [← h5.2.1]
    simp only [Closed, All, AllP]
    exact ⟨check_closed k _ _ _ _ h1, check_closed v _ _ _ _ h3,
      checkPairs_closed ps _ _ _ _ _ h4⟩
  | .obj p fs ty, c, T, e', c', h => by
    simp only [check, Yae.CR.bind_eq_ok] at h
    obtain ⟨⟨tys, fs1, c1⟩, h1, ty1, h2, h3⟩ := h
    simp only [Yae.CR.pure_eq_ok, Prod.mk.injEq] at h3
    rw [← h3.2.1]
    simp only [Closed, All]
    exact checkFields_closed fs _ _ _ _ h1
  | .ident p x, c, T, e', c', h => by
    simp only [check] at h
    split at h
    · exact absurd h (by simp [Yae.CR.throw_eq])
    split at h
    · next ty hl =>
      simp only [Yae.CR.pure_eq_ok, Prod.mk.injEq] at h
      rw [← h.2.1]; simp only [Closed, All]
      exact ⟨ty, lookupVar_mem hl⟩
    · exact absurd h Yae.CR.throw_ne_ok
  | .call p col callee args cty res idx, c, T, e', c', h => by
    obtain ⟨argTys, args', c1, h1, hcases⟩ := Sound.check_call_inv h
    have hargs := checkArgs_closed args _ _ _ _ h1
    rcases hcases with ⟨cp, fname, r, _, h2, _, _, rfl, rfl⟩ |
      ⟨name, ps, ret, callee', c2, ps', h2, _, _, _, rfl⟩
    · obtain ⟨hne, d, hres⟩ := resolve_resolves h2
      simp only [Closed, All, hne, Bool.false_eq_true, if_false]
      exact ⟨⟨d, hres⟩, hargs⟩
    · simp only [Closed, All, beq_self_eq_true, if_true]
      exact ⟨⟨trivial, check_closed callee _ _ _ _ h2⟩, hargs⟩
  | .subscript p col v i vty, c, T, e', c', h => by
    simp only [check] at h
    obtain ⟨⟨T1, v1, c1⟩, h1, h⟩ := Yae.CR.bind_eq_ok.1 h
    have hv1 := check_closed v _ _ _ _ h1
    cases T1 with
    | list el =>
      obtain ⟨⟨T2, i1, c2⟩, h2, h⟩ := Yae.CR.bind_eq_ok.1 h
      obtain ⟨_, h3, h⟩ := Yae.CR.bind_eq_ok.1 h
      simp only [Yae.CR.pure_eq_ok, Prod.mk.injEq] at h
      rw [← h.2.1]
      simp only [Closed, All]
      exact ⟨hv1, check_closed i _ _ _ _ h2⟩
    | map k v =>
      obtain ⟨⟨T2, i1, c2⟩, h2, h⟩ := Yae.CR.bind_eq_ok.1 h
      obtain ⟨_, h3, h⟩ := Yae.CR.bind_eq_ok.1 h
      simp only [Yae.CR.pure_eq_ok, Prod.mk.injEq] at h
      rw [← h.2.1]
      simp only [Closed, All]
      exact ⟨hv1, check_closed i _ _ _ _ h2⟩
    | _ => exact absurd h Yae.CR.throw_ne_ok
  | .member p col o f fp oty idx, c, T, e', c', h => by
    simp only [check] at h
    obtain ⟨⟨T1, o1, c1⟩, h1, h⟩ := Yae.CR.bind_eq_ok.1 h
    have ho := check_closed o _ _ _ _ h1
    split at h
    · split at h
      · simp only [Yae.CR.pure_eq_ok, Prod.mk.injEq] at h
        rw [← h.2.1]
        simp only [Closed, All]
        exact ho
      · exact absurd h Yae.CR.throw_ne_ok
    · exact absurd h Yae.CR.throw_ne_ok
  | .unary .., _, _, _, _, h | .binary .., _, _, _, _, h | .ternary .., _, _, _, _, h
  | .group .., _, _, _, _, h => by
    simp only [check] at h
    exact absurd h Yae.CR.throw_ne_ok
theorem checkElems_closed : ∀ (es : ExprList) (c : Nat) (T : Ty) (es' : ExprList)
    (c' : Nat), checkElems Γ c T es = .ok (es', c') → ClosedL Γ es'
  | .nil, _, _, _, _, h => by
    simp only [checkElems, Yae.CR.pure_eq_ok, Prod.mk.injEq] at h
    rw [← h.1]; simp only [AllL]
  | .cons e es, c, T, es', c', h => by
    simp only [checkElems, Yae.CR.bind_eq_ok] at h
    obtain ⟨⟨T1, e1, c1⟩, h1, _, h2, ⟨es1, c2⟩, h3, h4⟩ := h
    simp only [Yae.CR.pure_eq_ok, Prod.mk.injEq] at h4
    rw [← h4.1]
    simp only [AllL]
    exact ⟨check_closed e _ _ _ _ h1, checkElems_closed es _ _ _ _ h3⟩
theorem checkPairs_closed : ∀ (ps : PairList) (c : Nat) (K V : Ty) (ps' : PairList)
    (c' : Nat), checkPairs Γ c K V ps = .ok (ps', c') → ClosedP Γ ps'
  | .nil, _, _, _, _, _, h => by
    simp only [checkPairs, Yae.CR.pure_eq_ok, Prod.mk.injEq] at h
    rw [← h.1]; simp only [AllP]
  | .cons k v ps, c, K, V, ps', c', h => by
    simp only [checkPairs, Yae.CR.bind_eq_ok] at h
    obtain ⟨⟨T1, k1, c1⟩, h1, _, h2, ⟨T2, v1, c2⟩, h3, _, h4, ⟨ps1, c3⟩, h5, h6⟩ := h
    simp only [Yae.CR.pure_eq_ok, Prod.mk.injEq] at h6
    rw [← h6.1]
    simp only [AllP]
    exact ⟨check_closed k _ _ _ _ h1, check_closed v _ _ _ _ h3,
      checkPairs_closed ps _ _ _ _ _ h5⟩
theorem checkFields_closed : ∀ (fs : FieldEList) (c : Nat) (tys : FieldList)
    (fs' : FieldEList) (c' : Nat), checkFields Γ c fs = .ok (tys, fs', c') → ClosedF Γ fs'
  | .nil, _, _, _, _, h => by
    simp only [checkFields, Yae.CR.pure_eq_ok, Prod.mk.injEq] at h
    rw [← h.2.1]; simp only [AllF]
  | .cons n e fs, c, tys, fs', c', h => by
    simp only [checkFields, Yae.CR.bind_eq_ok] at h
    obtain ⟨⟨T1, e1, c1⟩, h1, ⟨tys1, fs1, c2⟩, h2, h3⟩ := h
    simp only [Yae.CR.pure_eq_ok, Prod.mk.injEq] at h3
    rw [← h3.2.1]
    simp only [AllF]
    exact ⟨check_closed e _ _ _ _ h1, checkFields_closed fs _ _ _ _ h2⟩
theorem checkArgs_closed : ∀ (es : ExprList) (c : Nat) (tys : TyList)
    (es' : ExprList) (c' : Nat), checkArgs Γ c es = .ok (tys, es', c') → ClosedL Γ es'
  | .nil, _, _, _, _, h => by
    simp only [checkArgs, Yae.CR.pure_eq_ok, Prod.mk.injEq] at h
    rw [← h.2.1]; simp only [AllL]
  | .cons e es, c, tys, es', c', h => by
    simp only [checkArgs, Yae.CR.bind_eq_ok] at h
    obtain ⟨⟨T1, e1, c1⟩, h1, ⟨tys1, es1, c2⟩, h2, h3⟩ := h
    simp only [Yae.CR.pure_eq_ok, Prod.mk.injEq] at h3
    rw [← h3.2.1]
    simp only [AllL]
    exact ⟨check_closed e _ _ _ _ h1, checkArgs_closed es _ _ _ _ h2⟩
end

end

/-- the tree a successful compilation returns is closed in the compile-time environment -/
theorem compileSrc_closed {ops : List Operator} {times : List (String × Int)} {Γ : TEnv}
    {src : String} {T : Ty} {e' : Expr} (hc : compileSrc ops times Γ src = .ok (T, e')) :
    Closed Γ e' := by
  unfold compileSrc at hc
  split at hc
  · cases hc
  · split at hc
    · cases hc
    · split at hc
      · cases hc
      · split at hc
        · cases hc
        · next ty e'' c' hck =>
          simp only [Except.ok.injEq, Prod.mk.injEq] at hc
          obtain ⟨rfl, rfl⟩ := hc
          exact check_closed _ _ _ _ _ hck

/-! ### appending to the function table -/

/-- under a monomorphic key a later registration REPLACES an earlier one -/
theorem lookupMono_append (fs ex : List FunDecl) (key : String) :
    lookupMono (fs ++ ex) key = (lookupMono ex key).or (lookupMono fs key) := by
  unfold lookupMono
  rw [List.filter_append, List.getLast?_append]

/-- under a polymorphic key a later registration comes AFTER the earlier ones -/
theorem lookupPoly_append (fs ex : List FunDecl) (key : String) :
    lookupPoly (fs ++ ex) key = lookupPoly fs key ++ lookupPoly ex key := by
  unfold lookupPoly
  rw [List.filter_append]

/-- **appending does not disturb a resolved call** — unless it is a monomorphic call and a
function with the same monomorphic key is appended -/
theorem resolveStatic_append {fs : List FunDecl} {r : String} {i : Int} {d : FunDecl}
    (ex : List FunDecl) (h : resolveStatic fs r i = some d)
    (hm : i < 0 → lookupMono ex r = none) : resolveStatic (fs ++ ex) r i = some d := by
  unfold resolveStatic at h ⊢
  split
  · next hi =>
    rw [if_pos hi] at h
    rw [lookupMono_append, hm hi, h]; rfl
  · next hi =>
    rw [if_neg hi] at h
    rw [lookupPoly_append]
    have hlt : i.toNat < (lookupPoly fs r).length := by
      rcases Nat.lt_or_ge i.toNat (lookupPoly fs r).length with hlt | hge
      · exact hlt
      · rw [List.getElem?_eq_none hge] at h; cases h
    rw [List.getElem?_append_left hlt, h]

/-- … and when a monomorphic key is registered again, the call refers to the NEW function -/
theorem resolveStatic_append_mono {fs : List FunDecl} {r : String} {i : Int} {d' : FunDecl}
    (ex : List FunDecl) (hi : i < 0) (hm : lookupMono ex r = some d') :
    resolveStatic (fs ++ ex) r i = some d' := by
  unfold resolveStatic
  rw [if_pos hi, lookupMono_append, hm]; rfl

/-- the tree has no monomorphic static call whose key `ex` registers -/
def NoMonoClash (ex : List FunDecl) : Expr → Prop :=
  All (fun _ => True) (fun r i => i < 0 → lookupMono ex r = none) True

theorem lookupMono_poly {ex : List FunDecl} (h : ∀ d ∈ ex, d.key.2 = false) (r : String) :
    lookupMono ex r = none := by
  unfold lookupMono
  have : ex.filter (fun d => d.key == (r, true)) = [] := by
    rw [List.filter_eq_nil_iff]
    intro d hd hk
    have h1 := h d hd
    have h2 : d.key = (r, true) := by simpa using hk
    rw [h2] at h1
    cases h1
  rw [this]; rfl

/-- polymorphic functions never clash -/
theorem noMonoClash_of_poly {ex : List FunDecl} (h : ∀ d ∈ ex, d.key.2 = false) {Γ : TEnv}
    {e : Expr} (hcl : Closed Γ e) : NoMonoClash ex e := by
  unfold NoMonoClash
  exact All.mono (fun _ _ => trivial) (fun r i _ (_ : i < 0) => lookupMono_poly h r) (fun h => h)
    e hcl

/-! ### invocations -/

theorem filterMap_congr' {α β : Type} {f g : α → Option β} :
    ∀ (l : List α), (∀ a ∈ l, f a = g a) → l.filterMap f = l.filterMap g
  | [], _ => rfl
  | a :: l, h => by
    rw [List.filterMap_cons, List.filterMap_cons, h a (List.mem_cons_self ..),
      filterMap_congr' l (fun b hb => h b (List.mem_cons_of_mem _ hb))]

theorem envCheck_congr {tenv : List (String × Ty)} {venv₁ venv₂ : List (String × Val)}
    (h : ∀ x t, (x, t) ∈ tenv → lookupVal venv₁ x = lookupVal venv₂ x) :
    envCheck tenv venv₁ = envCheck tenv venv₂ := by
  rw [ConvEnv.envCheck_eq, ConvEnv.envCheck_eq]
  congr 1
  unfold ConvEnv.errs
  apply filterMap_congr'
  intro p hp
  obtain ⟨n, t⟩ := p
  show checkBinding venv₁ n t = checkBinding venv₂ n t
  unfold checkBinding
  rw [h n t hp]

/-- two invocations of a Callable whose tree is closed in its compile-time environment: same
verdict of the environment check and the same run, when the run-time environments agree on the
compile-time names and the two tables resolve the tree's static calls alike -/
theorem invoke_congr {e₁ e₂ : Engine} {c : Callable} {venv₁ venv₂ : List (String × Val)}
    {ext : Externs} {funs : List FunDecl} {res : List String}
    (hcl : Closed ⟨c.tenv, funs, res⟩ c.tree)
    (hv : ∀ x t, (x, t) ∈ c.tenv → lookupVal venv₁ x = lookupVal venv₂ x)
    (hs : All (fun _ => True) (fun r i => resolveStatic (e₁.tableFor c) r i =
      resolveStatic (e₂.tableFor c) r i) True c.tree) :
    e₁.invoke c venv₁ ext = e₂.invoke c venv₂ ext := by
  unfold Engine.invoke
  rw [envCheck_congr hv]
  have hag : Agree ⟨venv₁, e₁.tableFor c, ext⟩ ⟨venv₂, e₂.tableFor c, ext⟩ c.tree :=
    All.mono₂ (fun x hx _ => by obtain ⟨t, ht⟩ := hx; exact hv x t ht)
      (fun r i _ h => h) (fun h _ => h) c.tree hcl hs
  rw [runEval_congr (ρ₁ := ⟨venv₁, e₁.tableFor c, ext⟩) (ρ₂ := ⟨venv₂, e₂.tableFor c, ext⟩) rfl hag]

/-- the tree of a Callable an engine returned is closed in `env0` and the engine's table -/
theorem callable_closed {e : Engine} {times : List (String × Int)} {tenv : List (String × Ty)}
    {src : String} {c : Callable} (h : (e.compile times tenv src).2 = .ok c) :
    Closed ⟨c.tenv, c.funs, reservedWords⟩ c.tree := by
  unfold Engine.compile at h
  simp only at h
  split at h
  · cases h
  · next ty tree hc =>
    cases h
    exact compileSrc_closed hc

/-- every static call of a closed tree resolves alike in the table and in the table with `ex`
appended, when `ex` does not register a monomorphic key the tree calls -/
theorem append_resolves_alike {Γ : TEnv} {ex : List FunDecl} {e : Expr} (hcl : Closed Γ e)
    (hno : NoMonoClash ex e) :
    All (fun _ => True) (fun r i => resolveStatic (Γ.funs ++ ex) r i = resolveStatic Γ.funs r i)
      True e :=
  All.mono₂ (fun _ _ _ => trivial)
    (fun r i hd hm => by obtain ⟨d, hd⟩ := hd; rw [hd]; exact resolveStatic_append ex hd hm)
    (fun h _ => h) e hcl hno

end Yae.EngineCheck
