/-
  Lemmas for C13: what an evaluation depends on.

  `All P Q D e`: in the positions `eval` visits, every identifier satisfies `P`, every statically
  dispatched call `Q resolved index`, and `D` holds if there is a dynamically dispatched call.
  (The callee of a statically dispatched call is an identifier that is never evaluated.)

  `eval_congr`: two run-time environments with the same externs that give the same value to
  every visited identifier and the same function to every visited static call evaluate alike:
  same result, same events, from every log, with every fuel, in debug mode or not.
-/
import Yae.Proofs.TypingEval
namespace Yae.EngineEval
open Yae EvalM

mutual
def All (P : String → Prop) (Q : String → Int → Prop) (D : Prop) : Expr → Prop
  | .list _ es _ => AllL P Q D es
  | .map _ ps _ => AllP P Q D ps
  | .obj _ fs _ => AllF P Q D fs
  | .ident _ x => P x
  | .call _ _ callee args _ resolved index =>
    (if resolved == "" then D ∧ All P Q D callee else Q resolved index) ∧ AllL P Q D args
  | .subscript _ _ var idx _ => All P Q D var ∧ All P Q D idx
  | .member _ _ obj _ _ _ _ => All P Q D obj
  | _ => True
def AllL (P : String → Prop) (Q : String → Int → Prop) (D : Prop) : ExprList → Prop
  | .nil => True
  | .cons e es => All P Q D e ∧ AllL P Q D es
def AllP (P : String → Prop) (Q : String → Int → Prop) (D : Prop) : PairList → Prop
  | .nil => True
  | .cons k v ps => All P Q D k ∧ All P Q D v ∧ AllP P Q D ps
def AllF (P : String → Prop) (Q : String → Int → Prop) (D : Prop) : FieldEList → Prop
  | .nil => True
  | .cons _ e fs => All P Q D e ∧ AllF P Q D fs
end

section mono
set_option linter.unusedSectionVars false
variable {P P' P'' : String → Prop} {Q Q' Q'' : String → Int → Prop} {D D' D'' : Prop}
  (hP : ∀ x, P x → P' x → P'' x) (hQ : ∀ r i, Q r i → Q' r i → Q'' r i) (hD : D → D' → D'')
include hP hQ hD

mutual
theorem All.mono₂ : ∀ e : Expr, All P Q D e → All P' Q' D' e → All P'' Q'' D'' e
  | .str .., _, _ | .num .., _, _ | .time .., _, _ | .bool .., _, _ => by simp only [All]
  | .unary .., _, _ | .binary .., _, _ | .ternary .., _, _ | .group .., _, _ => by simp only [All]
  | .list _ es _, h, h' => by simp only [All] at h h' ⊢; exact AllL.mono₂ es h h'
  | .map _ ps _, h, h' => by simp only [All] at h h' ⊢; exact AllP.mono₂ ps h h'
  | .obj _ fs _, h, h' => by simp only [All] at h h' ⊢; exact AllF.mono₂ fs h h'
  | .ident _ x, h, h' => by simp only [All] at h h' ⊢; exact hP x h h'
  | .call _ _ callee args _ resolved index, h, h' => by
    simp only [All] at h h' ⊢
    refine ⟨?_, AllL.mono₂ args h.2 h'.2⟩
    have h1 := h.1
    have h1' := h'.1
    split
    · next hr =>
      rw [if_pos hr] at h1 h1'
      exact ⟨hD h1.1 h1'.1, All.mono₂ callee h1.2 h1'.2⟩
    · next hr => rw [if_neg hr] at h1 h1'; exact hQ _ _ h1 h1'
  | .subscript _ _ var idx _, h, h' => by
    simp only [All] at h h' ⊢; exact ⟨All.mono₂ var h.1 h'.1, All.mono₂ idx h.2 h'.2⟩
  | .member _ _ obj _ _ _ _, h, h' => by simp only [All] at h h' ⊢; exact All.mono₂ obj h h'
theorem AllL.mono₂ : ∀ es : ExprList, AllL P Q D es → AllL P' Q' D' es → AllL P'' Q'' D'' es
  | .nil, _, _ => by simp only [AllL]
  | .cons e es, h, h' => by
    simp only [AllL] at h h' ⊢; exact ⟨All.mono₂ e h.1 h'.1, AllL.mono₂ es h.2 h'.2⟩
theorem AllP.mono₂ : ∀ ps : PairList, AllP P Q D ps → AllP P' Q' D' ps → AllP P'' Q'' D'' ps
  | .nil, _, _ => by simp only [AllP]
  | .cons k v ps, h, h' => by
    simp only [AllP] at h h' ⊢
    exact ⟨All.mono₂ k h.1 h'.1, All.mono₂ v h.2.1 h'.2.1, AllP.mono₂ ps h.2.2 h'.2.2⟩
theorem AllF.mono₂ : ∀ fs : FieldEList, AllF P Q D fs → AllF P' Q' D' fs → AllF P'' Q'' D'' fs
  | .nil, _, _ => by simp only [AllF]
  | .cons _ e fs, h, h' => by
    simp only [AllF] at h h' ⊢; exact ⟨All.mono₂ e h.1 h'.1, AllF.mono₂ fs h.2 h'.2⟩
end
end mono

theorem All.mono {P P' : String → Prop} {Q Q' : String → Int → Prop} {D D' : Prop}
    (hP : ∀ x, P x → P' x) (hQ : ∀ r i, Q r i → Q' r i) (hD : D → D') (e : Expr)
    (h : All P Q D e) : All P' Q' D' e :=
  All.mono₂ (fun x h _ => hP x h) (fun r i h _ => hQ r i h) (fun h _ => hD h) e h h

theorem AllL.get {P : String → Prop} {Q : String → Int → Prop} {D : Prop} :
    ∀ (es : ExprList) (i : Nat) (a : Expr), AllL P Q D es → es.get? i = some a → All P Q D a
  | .nil, _, _, _, h => by simp [ExprList.get?] at h
  | .cons e es, 0, a, h, hg => by
    simp only [ExprList.get?, Option.some.injEq] at hg
    simp only [AllL] at h
    exact hg ▸ h.1
  | .cons e es, i+1, a, h, hg => by
    simp only [ExprList.get?] at hg
    simp only [AllL] at h
    exact AllL.get es i a h.2 hg

/-! ### evaluation in two environments -/

theorem bind_congr {α β : Type} {x y : EvalM α} {f g : α → EvalM β} (hx : x = y)
    (hf : ∀ a, f a = g a) : x >>= f = y >>= g := by
  subst hx
  have : f = g := funext hf
  rw [this]

/-- the two environments agree on what `e` uses -/
def Agree (ρ₁ ρ₂ : REnv) : Expr → Prop :=
  All (fun x => ρ₁.lookupVar x = ρ₂.lookupVar x)
    (fun r i => resolveStatic ρ₁.funs r i = resolveStatic ρ₂.funs r i) True

abbrev AgreeL (ρ₁ ρ₂ : REnv) : ExprList → Prop :=
  AllL (fun x => ρ₁.lookupVar x = ρ₂.lookupVar x)
    (fun r i => resolveStatic ρ₁.funs r i = resolveStatic ρ₂.funs r i) True

section step
variable {f : Nat} {dbg : Bool} {ρ₁ ρ₂ : REnv}

/-- the induction hypothesis: at fuel `f` -/
def EvalEq (f : Nat) (dbg : Bool) (ρ₁ ρ₂ : REnv) : Prop :=
  ∀ e, Agree ρ₁ ρ₂ e → eval f dbg ρ₁ e = eval f dbg ρ₂ e

theorem evalList_eq (ih : EvalEq f dbg ρ₁ ρ₂) :
    ∀ es, AgreeL ρ₁ ρ₂ es → evalList f dbg ρ₁ es = evalList f dbg ρ₂ es
  | .nil, _ => by rw [evalList, evalList]
  | .cons e es, h => by
    simp only [AllL] at h
    rw [evalList, evalList]
    exact bind_congr (ih e h.1) fun v => bind_congr (evalList_eq ih es h.2) fun vs => rfl

theorem evalFields_eq (ih : EvalEq f dbg ρ₁ ρ₂) :
    ∀ fs, AllF (fun x => ρ₁.lookupVar x = ρ₂.lookupVar x)
        (fun r i => resolveStatic ρ₁.funs r i = resolveStatic ρ₂.funs r i) True fs →
      evalFields f dbg ρ₁ fs = evalFields f dbg ρ₂ fs
  | .nil, _ => by rw [evalFields, evalFields]
  | .cons n e fs, h => by
    simp only [AllF] at h
    rw [evalFields, evalFields]
    exact bind_congr (ih e h.1) fun v => bind_congr (evalFields_eq ih fs h.2) fun vs => rfl

theorem evalPairs_eq (ih : EvalEq f dbg ρ₁ ρ₂) :
    ∀ ps acc, AllP (fun x => ρ₁.lookupVar x = ρ₂.lookupVar x)
        (fun r i => resolveStatic ρ₁.funs r i = resolveStatic ρ₂.funs r i) True ps →
      evalPairs f dbg ρ₁ ps acc = evalPairs f dbg ρ₂ ps acc
  | .nil, acc, _ => by rw [evalPairs, evalPairs]
  | .cons k v ps, acc, h => by
    simp only [AllP] at h
    rw [evalPairs, evalPairs]
    refine bind_congr (ih k h.1) fun kv => ?_
    cases kv.key? with
    | none => rfl
    | some tk => exact bind_congr (ih v h.2.1) fun vv => evalPairs_eq ih ps _ h.2.2

theorem forceSeq_eq (ih : EvalEq f dbg ρ₁ ρ₂) (args : ExprList) (ha : AgreeL ρ₁ ρ₂ args) :
    ∀ order last, forceSeq f dbg ρ₁ args order last = forceSeq f dbg ρ₂ args order last
  | [], some v => by rw [forceSeq, forceSeq]
  | [], none => by rw [forceSeq, forceSeq]
  | i :: rest, last => by
    rw [forceSeq, forceSeq]
    cases hg : args.get? i with
    | none => rfl
    | some a =>
      exact bind_congr (ih a (AllL.get args i a ha hg)) fun v => forceSeq_eq ih args ha rest _

theorem callFun_eq (ih : EvalEq f dbg ρ₁ ρ₂) (hext : ρ₁.ext = ρ₂.ext) (ref : FunRef)
    (isLazy : Bool) (args : ExprList) (ha : AgreeL ρ₁ ρ₂ args) :
    callFun f dbg ρ₁ ref isLazy args = callFun f dbg ρ₂ ref isLazy args := by
  cases ref with
  | builtin idx =>
    rw [callFun, callFun]
    cases hb : builtins[idx]? with
    | none => rfl
    | some d =>
      dsimp only
      cases isLazy with
      | true =>
        simp only [if_true]
        split
        · simp only [AllL] at ha
          refine bind_congr (ih _ ha.1) fun cv => ?_
          split
          · exact ih _ ha.2.1
          · exact ih _ ha.2.2.1
          · rfl
        · simp only [AllL] at ha
          refine bind_congr (ih _ ha.1) fun xv => ?_
          split
          · exact bind_congr (ih _ ha.2.1) fun _ => rfl
          · rfl
          · rfl
        · simp only [AllL] at ha
          refine bind_congr (ih _ ha.1) fun xv => ?_
          split
          · rfl
          · exact bind_congr (ih _ ha.2.1) fun _ => rfl
          · rfl
        · rfl
      | false =>
        simp only [Bool.false_eq_true, if_false]
        rw [hext]
        exact bind_congr (evalList_eq ih args ha) fun vs => rfl
  | host name beh =>
    cases isLazy with
    | true =>
      cases beh
      case force order =>
        rw [callFun, callFun]
        simp only [if_true]
        exact bind_congr rfl fun _ => forceSeq_eq ih args ha _ none
      all_goals
        unfold callFun
        rfl
    | false =>
      unfold callFun
      simp only [Bool.false_eq_true, if_false]
      exact bind_congr (evalList_eq ih args ha) fun vs => rfl

theorem evalEq_zero : EvalEq 0 dbg ρ₁ ρ₂ := by
  intro e _
  simp only [eval]

theorem evalEq_succ (hext : ρ₁.ext = ρ₂.ext) (ih : EvalEq f dbg ρ₁ ρ₂) :
    EvalEq (f+1) dbg ρ₁ ρ₂ := by
  intro e h
  cases e with
  | str p v => simp only [eval]
  | num p v => simp only [eval]
  | time p v => simp only [eval]
  | bool p v => simp only [eval]
  | list p es ty =>
    simp only [Agree, All] at h
    cases es with
    | nil => simp only [eval]
    | cons a as =>
      cases ty <;> simp only [eval] <;>
        exact bind_congr (evalList_eq ih _ h) fun vs => rfl
  | map p ps ty =>
    simp only [Agree, All] at h
    cases ps with
    | nil => simp only [eval]
    | cons k v ps =>
      cases ty with
      | none => simp only [eval]
      | some t => simp only [eval]; exact bind_congr (evalPairs_eq ih _ _ h) fun es => rfl
  | obj p fs ty =>
    simp only [Agree, All] at h
    cases fs with
    | nil => simp only [eval]
    | cons n a fs =>
      cases ty <;> simp only [eval] <;>
        exact bind_congr (evalFields_eq ih _ h) fun vs => rfl
  | ident p name =>
    simp only [Agree, All] at h
    simp only [eval, h]
  | call p col callee args cty resolved index =>
    simp only [Agree, All] at h
    obtain ⟨h1, h2⟩ := h
    simp only [eval]
    refine bind_congr ?_ fun v => rfl
    split
    · next hr =>
      rw [if_pos hr] at h1
      refine bind_congr (ih callee h1.2) fun fv => ?_
      split
      · exact callFun_eq ih hext _ _ _ h2
      · rfl
    · next hr =>
      rw [if_neg hr] at h1
      rw [h1]
      split
      · exact callFun_eq ih hext _ _ _ h2
      · rfl
  | subscript p col var idx vty =>
    simp only [Agree, All] at h
    simp only [eval]
    refine bind_congr (ih var h.1) fun x => bind_congr ?_ fun v => rfl
    split
    · exact bind_congr (ih idx h.2) fun i => rfl
    · exact bind_congr (ih idx h.2) fun k => rfl
    · rfl
  | member p col obj field fp oty index =>
    simp only [Agree, All] at h
    simp only [eval]
    exact bind_congr (ih obj h) fun o => rfl
  | unary => simp only [eval]
  | binary => simp only [eval]
  | ternary => simp only [eval]
  | group => simp only [eval]

theorem evalEq (hext : ρ₁.ext = ρ₂.ext) : ∀ f, EvalEq f dbg ρ₁ ρ₂
  | 0 => evalEq_zero
  | f+1 => evalEq_succ hext (evalEq hext f)

end step

/-- **an evaluation depends on the environment only through what the tree uses** -/
theorem eval_congr {ρ₁ ρ₂ : REnv} (hext : ρ₁.ext = ρ₂.ext) {e : Expr} (h : Agree ρ₁ ρ₂ e)
    (fuel : Nat) (dbg : Bool) : eval fuel dbg ρ₁ e = eval fuel dbg ρ₂ e :=
  evalEq hext fuel e h

theorem runEval_congr {ρ₁ ρ₂ : REnv} (hext : ρ₁.ext = ρ₂.ext) {e : Expr} (h : Agree ρ₁ ρ₂ e)
    (dbg : Bool) : runEval dbg ρ₁ e = runEval dbg ρ₂ e := by
  unfold runEval
  rw [eval_congr hext h]

end Yae.EngineEval
