/-
  Lemmas for C13 (histories of API calls): the engine state machine of `Yae/Model/Engine.lean`.
  What a call does to the engine, and that in a history of compilations and invocations every
  output is the output of that call on the engine alone.
-/
import Yae.Model.Engine
namespace Yae.EngineHistory
open Yae Yae.Facade

/-! ### `makeSureInit` -/

theorem init_inited (e : Engine) : e.init.inited = true := by
  unfold Engine.init
  split
  · assumption
  · split <;> rfl

theorem init_of_inited {e : Engine} (h : e.inited = true) : e.init = e := by
  unfold Engine.init
  rw [if_pos h]

theorem init_idempotent (e : Engine) : e.init.init = e.init := init_of_inited (init_inited e)

theorem init_backend (e : Engine) : e.init.backend = e.backend := by
  unfold Engine.init
  split
  · rfl
  · split <;> rfl

theorem init_useBuiltIn (e : Engine) : e.init.useBuiltIn = e.useBuiltIn := by
  unfold Engine.init
  split
  · rfl
  · split <;> rfl

theorem init_ops (e : Engine) :
    e.init.ops = e.ops ++ (if !e.inited && e.useBuiltIn then builtinOps else []) := by
  unfold Engine.init
  cases e.inited <;> cases e.useBuiltIn <;> simp

theorem init_funs (e : Engine) :
    e.init.funs = e.funs ++ (if !e.inited && e.useBuiltIn then builtinDecls else []) := by
  unfold Engine.init
  cases e.inited <;> cases e.useBuiltIn <;> simp

/-! ### what a call does to the engine -/

theorem compile_fst (e : Engine) (times : List (String × Int)) (tenv : List (String × Ty))
    (src : String) : (e.compile times tenv src).1 = e.init := rfl

theorem compile_init (e : Engine) (times : List (String × Int)) (tenv : List (String × Ty))
    (src : String) : e.init.compile times tenv src = e.compile times tenv src := by
  unfold Engine.compile
  rw [init_idempotent]

theorem compile_of_inited {e : Engine} (h : e.inited = true) (times : List (String × Int))
    (tenv : List (String × Ty)) (src : String) : (e.compile times tenv src).1 = e := by
  rw [compile_fst, init_of_inited h]

/-- a Callable records the table and the compiler of the (initialised) engine -/
theorem compile_callable {e : Engine} {times : List (String × Int)} {tenv : List (String × Ty)}
    {src : String} {c : Callable} (h : (e.compile times tenv src).2 = .ok c) :
    c.tenv = tenv ∧ c.funs = e.init.funs ∧ c.backend = e.backend ∧
      compileSrc e.init.ops times (e.init.tenvOf tenv) src = .ok (c.ty, c.tree) := by
  unfold Engine.compile at h
  simp only at h
  split at h
  · cases h
  · next ty tree hc =>
    cases h
    exact ⟨rfl, rfl, init_backend e, hc⟩

theorem step_use {e : Engine} (he : e.inited = true) (outs : List Out) {op : Op}
    (hu : op.isUse = true) : (e.step outs op).1 = e := by
  cases op with
  | compile times tenv src => exact compile_of_inited he times tenv src
  | invoke k venv ext =>
    simp only [Engine.step]
    split <;> rfl
  | invokeC c venv ext => rfl
  | _ => cases hu

/-! ### histories of compilations and invocations -/

theorem callable_single (e : Engine) (ops : List Op) (k : Nat) :
    Out.callable? (some (e.single ops k)) =
      match ops[k]? with
      | some (.compile times tenv src) =>
        (match (e.compile times tenv src).2 with
         | .ok c => some c
         | .error _ => none)
      | _ => none := by
  unfold Engine.single
  cases hk : ops[k]? with
  | none => rfl
  | some op =>
    cases op with
    | compile times tenv src =>
      simp only
      cases (e.compile times tenv src).2 <;> rfl
    | invoke k' venv ext =>
      simp only
      split
      · split
        · split <;> rfl
        · rfl
      · rfl
    | _ => rfl

theorem step_eq_single {e : Engine} (he : e.inited = true) (pre rest : List Op) (op : Op)
    (hu : op.isUse = true) :
    e.step ((List.range pre.length).map (e.single (pre ++ op :: rest))) op =
      (e, e.single (pre ++ op :: rest) pre.length) := by
  have hget : (pre ++ op :: rest)[pre.length]? = some op := by simp
  cases op with
  | compile times tenv src =>
    simp only [Engine.step, Engine.single, hget, compile_of_inited he]
  | invokeC c venv ext =>
    simp only [Engine.step, Engine.single, hget]
  | invoke k venv ext =>
    simp only [Engine.step]
    by_cases hk : k < pre.length
    · have h1 : ((List.range pre.length).map (e.single (pre ++ Op.invoke k venv ext :: rest)))[k]? =
          some (e.single (pre ++ Op.invoke k venv ext :: rest) k) := by
        simp [hk]
      rw [h1, callable_single]
      conv => rhs; unfold Engine.single
      rw [hget]
      simp only [hk, if_true]
      cases (pre ++ Op.invoke k venv ext :: rest)[k]? with
      | none => rfl
      | some op' =>
        cases op' with
        | compile times tenv src =>
          simp only
          cases (e.compile times tenv src).2 <;> rfl
        | _ => rfl
    · have h1 : ((List.range pre.length).map (e.single (pre ++ Op.invoke k venv ext :: rest)))[k]? =
          none := by
        simp; omega
      rw [h1]
      conv => rhs; unfold Engine.single
      rw [hget]
      simp only [hk, if_false]
      rfl
  | _ => cases hu

theorem runFrom_use {e : Engine} (he : e.inited = true) :
    ∀ (rest pre : List Op), (∀ op ∈ rest, op.isUse = true) →
      e.runFrom ((List.range pre.length).map (e.single (pre ++ rest))) rest =
        (e, (List.range (pre ++ rest).length).map (e.single (pre ++ rest)))
  | [], pre, _ => by simp [Engine.runFrom]
  | op :: rest, pre, h => by
    have hu := h op (List.mem_cons_self ..)
    rw [Engine.runFrom]
    rw [step_eq_single he pre rest op hu]
    have hassoc : pre ++ op :: rest = (pre ++ [op]) ++ rest := by simp
    have hpre : (List.range pre.length).map (e.single (pre ++ op :: rest)) ++
          [e.single (pre ++ op :: rest) pre.length] =
        (List.range (pre ++ [op]).length).map (e.single ((pre ++ [op]) ++ rest)) := by
      rw [← hassoc]
      simp [List.range_succ]
    rw [hpre, runFrom_use he rest (pre ++ [op]) (fun o ho => h o (List.mem_cons_of_mem _ ho)),
      ← hassoc]

/-- **History independence.**  On an initialised engine, in a history of compilations and
invocations the engine never changes and the `i`-th output is the output of the `i`-th call
performed on the engine alone. -/
theorem run_use {e : Engine} (he : e.inited = true) (ops : List Op)
    (h : ∀ op ∈ ops, op.isUse = true) :
    e.run ops = (e, (List.range ops.length).map (e.single ops)) := by
  have := runFrom_use he ops [] h
  simpa [Engine.run] using this

/-! ### the same for an engine that has not compiled anything yet -/

/-- compilations and invocations of Callables of the history itself -/
def isOwnUse : Op → Bool
  | .compile .. | .invoke .. => true
  | _ => false

theorem isOwnUse_isUse {op : Op} (h : isOwnUse op = true) : op.isUse = true := by
  cases op <;> first | rfl | cases h

theorem callable_append_noCallable {outs : List Out}
    (h : ∀ k : Nat, Out.callable? outs[k]? = none) (k : Nat) :
    Out.callable? (outs ++ [Out.noCallable])[k]? = none := by
  by_cases hk : k < outs.length
  · rw [List.getElem?_append_left hk]; exact h k
  · rw [List.getElem?_append_right (by omega)]
    cases hj : k - outs.length with
    | zero => rfl
    | succ j => rfl

/-- before the first compilation no Callable of the history exists, and the first compilation
initialises: the outputs are those of the history on the initialised engine -/
theorem runFrom_fresh (e : Engine) :
    ∀ (ops : List Op) (outs : List Out), (∀ k : Nat, Out.callable? outs[k]? = none) →
      (∀ op ∈ ops, isOwnUse op = true) →
      (e.runFrom outs ops).2 = (e.init.runFrom outs ops).2
  | [], outs, _, _ => rfl
  | op :: rest, outs, hno, h => by
    have hu := h op (List.mem_cons_self ..)
    have hrest : ∀ o ∈ rest, isOwnUse o = true := fun o ho => h o (List.mem_cons_of_mem _ ho)
    cases op with
    | compile times tenv src =>
      rw [Engine.runFrom, Engine.runFrom]
      simp only [Engine.step, compile_fst, compile_init]
    | invoke k venv ext =>
      rw [Engine.runFrom, Engine.runFrom]
      simp only [Engine.step, hno k]
      exact runFrom_fresh e rest _ (callable_append_noCallable hno) hrest
    | _ => cases hu

theorem run_use_fresh (e : Engine) (ops : List Op) (h : ∀ op ∈ ops, isOwnUse op = true) :
    (e.run ops).2 = (List.range ops.length).map (e.init.single ops) := by
  unfold Engine.run
  rw [runFrom_fresh e ops [] (fun k => by simp [Out.callable?]) h]
  have := run_use (init_inited e) ops (fun op ho => isOwnUse_isUse (h op ho))
  unfold Engine.run at this
  rw [this]

end Yae.EngineHistory
