/-
  Lemmas for C13: standard output is written by `print` only.

  `noPrint funs e`: in the positions `eval` visits, every call of the tree is statically
  dispatched, to a declaration of `funs` that does not refer to the built-in `print`.
  `eval_quiet`: evaluating such a tree adds no `.print` event to the log (with every fuel, in
  debug mode or not, whether it succeeds or fails).

  Dynamically dispatched calls (the callee is an expression evaluating to a function VALUE) are
  excluded by `noPrint`: which function such a call runs is decided by the run-time environment,
  not by the tree.
-/
import Yae.Proofs.TypingEval
import Yae.Proofs.EnginePrintBuiltins
namespace Yae.EngineEval
open Yae EvalM

def isPrint : Event → Bool
  | .print _ => true
  | _ => false

/-- no line of standard output in the log -/
def Silent (l : List Event) : Prop := ∀ ev ∈ l, isPrint ev = false

/-- does the function referred to write to standard output?  (The host functions of the model —
`HostBeh` — return an argument or a constant, fail, or force thunks: none prints.) -/
def refPrints : FunRef → Bool
  | .builtin idx =>
    match builtins[idx]? with
    | some b => decide (b.id = .PRINT_ANY)
    | none => false
  | .host _ _ => false

mutual
def noPrint (funs : List FunDecl) : Expr → Bool
  | .list _ es _ => noPrintL funs es
  | .map _ ps _ => noPrintP funs ps
  | .obj _ fs _ => noPrintF funs fs
  | .call _ _ _ args _ resolved index =>
    (resolved != "") &&
    (match resolveStatic funs resolved index with
     | some d => !refPrints d.ref
     | none => true) &&
    noPrintL funs args
  | .subscript _ _ var idx _ => noPrint funs var && noPrint funs idx
  | .member _ _ obj _ _ _ _ => noPrint funs obj
  | _ => true
def noPrintL (funs : List FunDecl) : ExprList → Bool
  | .nil => true
  | .cons e es => noPrint funs e && noPrintL funs es
def noPrintP (funs : List FunDecl) : PairList → Bool
  | .nil => true
  | .cons k v ps => noPrint funs k && noPrint funs v && noPrintP funs ps
def noPrintF (funs : List FunDecl) : FieldEList → Bool
  | .nil => true
  | .cons _ e fs => noPrint funs e && noPrintF funs fs
end

theorem noPrintL_get (funs : List FunDecl) :
    ∀ (es : ExprList) (i : Nat) (a : Expr), noPrintL funs es = true → es.get? i = some a →
      noPrint funs a = true
  | .nil, _, _, _, h => by simp [ExprList.get?] at h
  | .cons e es, 0, a, h, hg => by
    simp only [ExprList.get?, Option.some.injEq] at hg
    simp only [noPrintL, Bool.and_eq_true] at h
    exact hg ▸ h.1
  | .cons e es, i+1, a, h, hg => by
    simp only [ExprList.get?] at hg
    simp only [noPrintL, Bool.and_eq_true] at h
    exact noPrintL_get funs es i a h.2 hg

/-! ### computations that write nothing to standard output -/

def Quiet {α : Type} (x : EvalM α) : Prop := ∀ log, Silent log → Silent (x log).2

theorem Quiet.pure {α : Type} (a : α) : Quiet (pure a : EvalM α) := fun _ h => h
theorem Quiet.fail {α : Type} (f : Fail) : Quiet (EvalM.fail f : EvalM α) := fun _ h => h
theorem Quiet.lift {α : Type} (x : Except Fail α) : Quiet (EvalM.lift x) := fun _ h => h

theorem Quiet.emit {e : Event} (h : isPrint e = false) : Quiet (EvalM.emit e) := by
  intro log hl ev hev
  rcases List.mem_cons.1 hev with rfl | hm
  · exact h
  · exact hl ev hm

theorem Quiet.emitAll_nil : Quiet (EvalM.emitAll []) := fun _ h => h

theorem Quiet.bind' {α β : Type} {x : EvalM α} {f : α → EvalM β} (hx : Quiet x)
    (hf : ∀ a log l, x log = (.ok a, l) → Quiet (f a)) : Quiet (x >>= f) := by
  intro log hl
  rw [EvalM.bind_apply]
  have h1 := hx log hl
  rcases hxl : x log with ⟨r, l⟩
  rw [hxl] at h1
  cases r with
  | error e => exact h1
  | ok a => exact hf a log l hxl l h1

theorem Quiet.bind {α β : Type} {x : EvalM α} {f : α → EvalM β} (hx : Quiet x)
    (hf : ∀ a, Quiet (f a)) : Quiet (x >>= f) :=
  Quiet.bind' hx fun a _ _ _ => hf a

theorem Quiet.recDbg (dbg : Bool) (v : Val) (col : Int) : Quiet (recDbg dbg v col) := by
  intro log hl
  rw [recDbg_apply]
  cases dbg
  · exact hl
  · intro ev hev
    rcases List.mem_cons.1 hev with rfl | hm
    · rfl
    · exact hl ev hm

theorem Quiet.hostStrict (name : String) (beh : HostBeh) (args : List Val) :
    Quiet (hostStrict name beh args) := by
  unfold Yae.hostStrict
  refine Quiet.bind (Quiet.emit rfl) fun _ => ?_
  cases beh
  case retArg i => dsimp only; cases args[i]? <;> first | exact Quiet.pure _ | exact Quiet.fail _
  all_goals first | exact Quiet.pure _ | exact Quiet.fail _

section step
variable {f : Nat} {dbg : Bool} {ρ : REnv}

/-- the induction hypothesis: at fuel `f` -/
def EvalQuiet (f : Nat) (dbg : Bool) (ρ : REnv) : Prop :=
  ∀ e, noPrint ρ.funs e = true → Quiet (eval f dbg ρ e)

theorem evalList_quiet (ih : EvalQuiet f dbg ρ) :
    ∀ es, noPrintL ρ.funs es = true → Quiet (evalList f dbg ρ es)
  | .nil, _ => by rw [evalList]; exact Quiet.pure _
  | .cons e es, h => by
    simp only [noPrintL, Bool.and_eq_true] at h
    rw [evalList]
    exact Quiet.bind (ih e h.1) fun v => Quiet.bind (evalList_quiet ih es h.2) fun vs =>
      Quiet.pure _

theorem evalFields_quiet (ih : EvalQuiet f dbg ρ) :
    ∀ fs, noPrintF ρ.funs fs = true → Quiet (evalFields f dbg ρ fs)
  | .nil, _ => by rw [evalFields]; exact Quiet.pure _
  | .cons n e fs, h => by
    simp only [noPrintF, Bool.and_eq_true] at h
    rw [evalFields]
    exact Quiet.bind (ih e h.1) fun v => Quiet.bind (evalFields_quiet ih fs h.2) fun vs =>
      Quiet.pure _

theorem evalPairs_quiet (ih : EvalQuiet f dbg ρ) :
    ∀ ps acc, noPrintP ρ.funs ps = true → Quiet (evalPairs f dbg ρ ps acc)
  | .nil, acc, _ => by rw [evalPairs]; exact Quiet.pure _
  | .cons k v ps, acc, h => by
    simp only [noPrintP, Bool.and_eq_true] at h
    rw [evalPairs]
    refine Quiet.bind (ih k h.1.1) fun kv => ?_
    cases kv.key? with
    | none => exact Quiet.fail _
    | some tk => exact Quiet.bind (ih v h.1.2) fun vv => evalPairs_quiet ih ps _ h.2

theorem forceSeq_quiet (ih : EvalQuiet f dbg ρ) (args : ExprList)
    (ha : noPrintL ρ.funs args = true) :
    ∀ order last, Quiet (forceSeq f dbg ρ args order last)
  | [], some v => by rw [forceSeq]; exact Quiet.pure _
  | [], none => by rw [forceSeq]; exact Quiet.fail _
  | i :: rest, last => by
    rw [forceSeq]
    cases hg : args.get? i with
    | none => exact Quiet.fail _
    | some a =>
      exact Quiet.bind (ih a (noPrintL_get _ args i a ha hg)) fun v =>
        forceSeq_quiet ih args ha rest _

theorem boolCast_quiet (yv : Val) :
    Quiet (match yv with
          | .bool b => (Pure.pure (Val.bool b) : EvalM Val)
          | _ => EvalM.fail (.stuck "cast:bool")) := by
  cases yv <;> first | exact Quiet.pure _ | exact Quiet.fail _

theorem callFun_quiet (ih : EvalQuiet f dbg ρ) (ref : FunRef) (hr : refPrints ref = false)
    (isLazy : Bool) (args : ExprList) (ha : noPrintL ρ.funs args = true) :
    Quiet (callFun f dbg ρ ref isLazy args) := by
  cases ref with
  | builtin idx =>
    rw [callFun]
    cases hb : builtins[idx]? with
    | none => exact Quiet.fail _
    | some d =>
      dsimp only
      have hid : d.id ≠ .PRINT_ANY := by
        simpa [refPrints, hb] using hr
      cases isLazy with
      | true =>
        simp only [if_true]
        split
        · simp only [noPrintL, Bool.and_eq_true] at ha
          refine Quiet.bind (ih _ ha.1) fun cv => ?_
          split
          · exact ih _ ha.2.1
          · exact ih _ ha.2.2.1
          · exact Quiet.fail _
        · simp only [noPrintL, Bool.and_eq_true] at ha
          refine Quiet.bind (ih _ ha.1) fun xv => ?_
          split
          · exact Quiet.bind (ih _ ha.2.1) boolCast_quiet
          · exact Quiet.pure _
          · exact Quiet.fail _
        · simp only [noPrintL, Bool.and_eq_true] at ha
          refine Quiet.bind (ih _ ha.1) fun xv => ?_
          split
          · exact Quiet.pure _
          · exact Quiet.bind (ih _ ha.2.1) boolCast_quiet
          · exact Quiet.fail _
        · exact Quiet.fail _
      | false =>
        simp only [Bool.false_eq_true, if_false]
        refine Quiet.bind (evalList_quiet ih args ha) fun vs => ?_
        refine Quiet.bind' (Quiet.lift _) fun r log l hr => ?_
        rcases r with ⟨v, evs⟩
        have hab : applyBuiltin ρ.ext d.id vs.toList = .ok (v, evs) := by
          have := congrArg Prod.fst hr
          exact this
        have hevs : evs = [] := applyBuiltin_quiet hid hab
        subst hevs
        exact Quiet.bind Quiet.emitAll_nil fun _ => Quiet.pure _
  | host name beh =>
    cases isLazy with
    | true =>
      cases beh
      case force order =>
        rw [callFun]
        simp only [if_true]
        exact Quiet.bind (Quiet.emit (e := .call name []) rfl) fun _ =>
          forceSeq_quiet ih args ha _ none
      all_goals
        unfold callFun
        exact Quiet.fail _
    | false =>
      unfold callFun
      simp only [Bool.false_eq_true, if_false]
      exact Quiet.bind (evalList_quiet ih args ha) fun vs => Quiet.hostStrict _ _ _

theorem evalQuiet_zero : EvalQuiet 0 dbg ρ := by
  intro e _
  simp only [eval]
  exact Quiet.fail _

theorem evalQuiet_succ (ih : EvalQuiet f dbg ρ) : EvalQuiet (f+1) dbg ρ := by
  intro e h
  cases e with
  | str p v => simp only [eval]; exact Quiet.pure _
  | num p v => simp only [eval]; exact Quiet.pure _
  | time p v => simp only [eval]; exact Quiet.pure _
  | bool p v => simp only [eval]; exact Quiet.pure _
  | list p es ty =>
    simp only [noPrint] at h
    cases es with
    | nil => simp only [eval]; exact Quiet.pure _
    | cons a as =>
      cases ty <;> simp only [eval] <;>
        exact Quiet.bind (evalList_quiet ih _ h) fun vs =>
          (by first | exact Quiet.pure _ | exact Quiet.fail _)
  | map p ps ty =>
    simp only [noPrint] at h
    cases ps with
    | nil => simp only [eval]; exact Quiet.pure _
    | cons k v ps =>
      cases ty with
      | none => simp only [eval]; exact Quiet.fail _
      | some t =>
        simp only [eval]; exact Quiet.bind (evalPairs_quiet ih _ _ h) fun es => Quiet.pure _
  | obj p fs ty =>
    simp only [noPrint] at h
    cases fs with
    | nil => simp only [eval]; exact Quiet.pure _
    | cons n a fs =>
      cases ty <;> simp only [eval] <;>
        exact Quiet.bind (evalFields_quiet ih _ h) fun vs =>
          (by first | exact Quiet.pure _ | exact Quiet.fail _)
  | ident p name =>
    simp only [eval]
    cases ρ.lookupVar name with
    | none => exact Quiet.fail _
    | some v => exact Quiet.recDbg _ v _
  | call p col callee args cty resolved index =>
    simp only [noPrint, Bool.and_eq_true, bne_iff_ne, ne_eq] at h
    obtain ⟨⟨hres, hd⟩, hargs⟩ := h
    have hr : (resolved == "") = false := by simpa using hres
    simp only [eval, hr, Bool.false_eq_true, if_false]
    refine Quiet.bind ?_ fun v => Quiet.recDbg _ v col
    cases hrs : resolveStatic ρ.funs resolved index with
    | none => exact Quiet.fail _
    | some d =>
      rw [hrs] at hd
      simp only [Bool.not_eq_true'] at hd
      exact callFun_quiet ih _ hd _ _ hargs
  | subscript p col var idx vty =>
    simp only [noPrint, Bool.and_eq_true] at h
    simp only [eval]
    refine Quiet.bind (ih var h.1) fun x => Quiet.bind ?_ fun v => Quiet.recDbg _ v col
    split
    · refine Quiet.bind (ih idx h.2) fun i => ?_
      split
      · split
        · exact Quiet.fail _
        · split <;> first | exact Quiet.pure _ | exact Quiet.fail _
      · exact Quiet.fail _
    · refine Quiet.bind (ih idx h.2) fun k => ?_
      split
      · split <;> first | exact Quiet.pure _ | exact Quiet.fail _
      · exact Quiet.fail _
    · exact Quiet.fail _
  | member p col obj field fp oty index =>
    simp only [noPrint] at h
    simp only [eval]
    refine Quiet.bind (ih obj h) fun o => Quiet.bind ?_ fun v => Quiet.recDbg _ v col
    split
    · split <;> first | exact Quiet.pure _ | exact Quiet.fail _
    · exact Quiet.fail _
  | unary => simp only [eval]; exact Quiet.fail _
  | binary => simp only [eval]; exact Quiet.fail _
  | ternary => simp only [eval]; exact Quiet.fail _
  | group => simp only [eval]; exact Quiet.fail _

theorem evalQuiet : ∀ f, EvalQuiet f dbg ρ
  | 0 => evalQuiet_zero
  | f+1 => evalQuiet_succ (evalQuiet f)

end step

/-- **only `print` prints**: evaluating a tree without a call of `print` (and without
dynamically dispatched calls) adds no line of standard output to the log -/
theorem eval_quiet (fuel : Nat) (dbg : Bool) (ρ : REnv) (e : Expr)
    (h : noPrint ρ.funs e = true) (log : List Event) (hl : Silent log) :
    Silent (eval fuel dbg ρ e log).2 :=
  evalQuiet fuel e h log hl

theorem runEval_quiet (dbg : Bool) (ρ : REnv) (e : Expr) (h : noPrint ρ.funs e = true) :
    Silent (runEval dbg ρ e).2 := by
  unfold runEval
  have := eval_quiet (e.depth + 1) dbg ρ e h [] (fun _ hm => by cases hm)
  intro ev hev
  simp only [List.mem_reverse] at hev
  exact this ev hev

end Yae.EngineEval
