/-
  For C13: only the built-in `print` writes to standard output.  Kept in its own file because the
  case split over `applyBuiltin` is slow.
-/
import Yae.Proofs.DebugEvalBuiltins
namespace Yae.EngineEval
open Yae

/-- a strict built-in other than `print` produces no event at all -/
theorem applyBuiltin_quiet {ext : Externs} {id : BId} {args : List Val} {v : Val}
    {evs : List Event} (hid : id ≠ .PRINT_ANY) (h : applyBuiltin ext id args = .ok (v, evs)) :
    evs = [] := by
  unfold applyBuiltin at h
  split at h
  all_goals first
    | (exact absurd rfl hid)
    | (simp only [Except.ok.injEq, Prod.mk.injEq] at h; exact h.2.symm)
    | (simp only [stuckCast] at h; cases h)
    | (try dsimp only at h
       repeat' split at h
       all_goals first
        | (simp only [Except.ok.injEq, Prod.mk.injEq] at h; exact h.2.symm)
        | (simp only [stuckCast] at h; cases h)
        | cases h)

/-- `print x` writes the rendering of its argument, once, and returns the argument -/
theorem applyBuiltin_print (ext : Externs) (x : Val) :
    applyBuiltin ext .PRINT_ANY [x] = .ok (x, [.print x.render]) := rfl

end Yae.EngineEval
