/-
  Lemmas for C13: standard output is written by `print` only — the version that covers
  DYNAMICALLY dispatched calls.

  Which function a dynamic call `e(args)` runs is decided by the VALUE of `e`; function values
  come from the run-time environment only (no built-in makes one).  So: if no value bound in the
  environment holds — at any depth — a function referring to the built-in `print` (`quietVal`),
  and no statically dispatched call of the tree is resolved to `print` (`noPrintD`), then the
  evaluation adds no `.print` event, and every value it computes is again free of `print`.
-/
import Yae.Proofs.EngineQuietVal
namespace Yae.EngineEval
open Yae EvalM

mutual
/-- no statically dispatched call of `print` (dynamic calls allowed) -/
def noPrintD (funs : List FunDecl) : Expr → Bool
  | .list _ es _ => noPrintDL funs es
  | .map _ ps _ => noPrintDP funs ps
  | .obj _ fs _ => noPrintDF funs fs
  | .call _ _ callee args _ resolved index =>
    (if resolved == "" then noPrintD funs callee
     else match resolveStatic funs resolved index with
       | some d => !refPrints d.ref
       | none => true) &&
    noPrintDL funs args
  | .subscript _ _ var idx _ => noPrintD funs var && noPrintD funs idx
  | .member _ _ obj _ _ _ _ => noPrintD funs obj
  | _ => true
def noPrintDL (funs : List FunDecl) : ExprList → Bool
  | .nil => true
  | .cons e es => noPrintD funs e && noPrintDL funs es
def noPrintDP (funs : List FunDecl) : PairList → Bool
  | .nil => true
  | .cons k v ps => noPrintD funs k && noPrintD funs v && noPrintDP funs ps
def noPrintDF (funs : List FunDecl) : FieldEList → Bool
  | .nil => true
  | .cons _ e fs => noPrintD funs e && noPrintDF funs fs
end

theorem noPrintDL_get (funs : List FunDecl) :
    ∀ (es : ExprList) (i : Nat) (a : Expr), noPrintDL funs es = true → es.get? i = some a →
      noPrintD funs a = true
  | .nil, _, _, _, h => by simp [ExprList.get?] at h
  | .cons e es, 0, a, h, hg => by
    simp only [ExprList.get?, Option.some.injEq] at hg
    simp only [noPrintDL, Bool.and_eq_true] at h
    exact hg ▸ h.1
  | .cons e es, i+1, a, h, hg => by
    simp only [ExprList.get?] at hg
    simp only [noPrintDL, Bool.and_eq_true] at h
    exact noPrintDL_get funs es i a h.2 hg

/-! ### computations that write nothing to standard output and return good results -/

def QuietR {α : Type} (good : α → Prop) (x : EvalM α) : Prop :=
  ∀ log, Silent log → Silent (x log).2 ∧ ∀ a, (x log).1 = .ok a → good a

abbrev QV (v : Val) : Prop := quietVal v = true
abbrev QL (vs : ValList) : Prop := quietVals vs = true
abbrev QE (es : EntryList) : Prop := quietEntries es = true

theorem QuietR.pure {α : Type} {good : α → Prop} {a : α} (h : good a) :
    QuietR good (pure a : EvalM α) :=
  fun _ hl => ⟨hl, fun b hb => by cases hb; exact h⟩

theorem QuietR.fail {α : Type} {good : α → Prop} (f : Fail) :
    QuietR good (EvalM.fail f : EvalM α) :=
  fun _ hl => ⟨hl, fun _ hb => by cases hb⟩

theorem QuietR.lift {α : Type} {good : α → Prop} {x : Except Fail α}
    (h : ∀ a, x = .ok a → good a) : QuietR good (EvalM.lift x) :=
  fun _ hl => ⟨hl, h⟩

theorem QuietR.emit {e : Event} (h : isPrint e = false) :
    QuietR (fun _ => True) (EvalM.emit e) := by
  intro log hl
  refine ⟨?_, fun _ _ => trivial⟩
  intro ev hev
  rcases List.mem_cons.1 hev with rfl | hm
  · exact h
  · exact hl ev hm

theorem QuietR.emitAll_nil : QuietR (fun _ => True) (EvalM.emitAll []) :=
  fun _ hl => ⟨hl, fun _ _ => trivial⟩

theorem QuietR.bind {α β : Type} {g : α → Prop} {g' : β → Prop} {x : EvalM α}
    {f : α → EvalM β} (hx : QuietR g x) (hf : ∀ a, g a → QuietR g' (f a)) :
    QuietR g' (x >>= f) := by
  intro log hl
  rw [EvalM.bind_apply]
  obtain ⟨h1, h2⟩ := hx log hl
  rcases hxl : x log with ⟨r, l⟩
  rw [hxl] at h1 h2
  cases r with
  | error e => exact ⟨h1, fun _ hb => by cases hb⟩
  | ok a => exact hf a (h2 a rfl) l h1

theorem QuietR.recDbg (dbg : Bool) {v : Val} (hv : QV v) (col : Int) :
    QuietR QV (recDbg dbg v col) := by
  intro log hl
  rw [recDbg_apply]
  refine ⟨?_, fun a ha => by cases ha; exact hv⟩
  cases dbg
  · exact hl
  · intro ev hev
    rcases List.mem_cons.1 hev with rfl | hm
    · rfl
    · exact hl ev hm

theorem QuietR.hostStrict (name : String) (beh : HostBeh) {args : List Val}
    (ha : ∀ a ∈ args, QV a) : QuietR QV (hostStrict name beh args) := by
  unfold Yae.hostStrict
  refine QuietR.bind (QuietR.emit rfl) fun _ _ => ?_
  cases beh
  case retArg i =>
    dsimp only
    cases hg : args[i]? with
    | none => exact QuietR.fail _
    | some v => exact QuietR.pure (ha v (List.mem_of_getElem? hg))
  all_goals first | exact QuietR.pure rfl | exact QuietR.fail _

section step
variable {f : Nat} {dbg : Bool} {ρ : REnv}

/-- the induction hypothesis: at fuel `f` -/
def EvalQuietD (f : Nat) (dbg : Bool) (ρ : REnv) : Prop :=
  ∀ e, noPrintD ρ.funs e = true → QuietR QV (eval f dbg ρ e)

theorem evalList_quietD (ih : EvalQuietD f dbg ρ) :
    ∀ es, noPrintDL ρ.funs es = true → QuietR QL (evalList f dbg ρ es)
  | .nil, _ => by rw [evalList]; exact QuietR.pure rfl
  | .cons e es, h => by
    simp only [noPrintDL, Bool.and_eq_true] at h
    rw [evalList]
    exact QuietR.bind (ih e h.1) fun v hv =>
      QuietR.bind (evalList_quietD ih es h.2) fun vs hvs =>
        QuietR.pure (by simp only [QL, quietVals, hv, hvs, Bool.and_self])

theorem evalFields_quietD (ih : EvalQuietD f dbg ρ) :
    ∀ fs, noPrintDF ρ.funs fs = true → QuietR QL (evalFields f dbg ρ fs)
  | .nil, _ => by rw [evalFields]; exact QuietR.pure rfl
  | .cons n e fs, h => by
    simp only [noPrintDF, Bool.and_eq_true] at h
    rw [evalFields]
    exact QuietR.bind (ih e h.1) fun v hv =>
      QuietR.bind (evalFields_quietD ih fs h.2) fun vs hvs =>
        QuietR.pure (by simp only [QL, quietVals, hv, hvs, Bool.and_self])

theorem evalPairs_quietD (ih : EvalQuietD f dbg ρ) :
    ∀ ps acc, noPrintDP ρ.funs ps = true → QE acc → QuietR QE (evalPairs f dbg ρ ps acc)
  | .nil, acc, _, hacc => by rw [evalPairs]; exact QuietR.pure hacc
  | .cons k v ps, acc, h, hacc => by
    simp only [noPrintDP, Bool.and_eq_true] at h
    rw [evalPairs]
    refine QuietR.bind (ih k h.1.1) fun kv _ => ?_
    cases kv.key? with
    | none => exact QuietR.fail _
    | some tk =>
      exact QuietR.bind (ih v h.1.2) fun vv hvv =>
        evalPairs_quietD ih ps _ h.2 (quietEntries_insert _ _ _ _ hacc hvv)

theorem forceSeq_quietD (ih : EvalQuietD f dbg ρ) (args : ExprList)
    (ha : noPrintDL ρ.funs args = true) :
    ∀ order (last : Option Val), (∀ v, last = some v → QV v) →
      QuietR QV (forceSeq f dbg ρ args order last)
  | [], some v, hl => by rw [forceSeq]; exact QuietR.pure (hl v rfl)
  | [], none, _ => by rw [forceSeq]; exact QuietR.fail _
  | i :: rest, last, _ => by
    rw [forceSeq]
    cases hg : args.get? i with
    | none => exact QuietR.fail _
    | some a =>
      exact QuietR.bind (ih a (noPrintDL_get _ args i a ha hg)) fun v hv =>
        forceSeq_quietD ih args ha rest _ (fun w hw => by cases hw; exact hv)

theorem boolCast_quietD (yv : Val) :
    QuietR QV (match yv with
          | .bool b => (Pure.pure (Val.bool b) : EvalM Val)
          | _ => EvalM.fail (.stuck "cast:bool")) := by
  cases yv <;> first | exact QuietR.pure rfl | exact QuietR.fail _

theorem callFun_quietD (ih : EvalQuietD f dbg ρ) (ref : FunRef) (hr : refPrints ref = false)
    (isLazy : Bool) (args : ExprList) (ha : noPrintDL ρ.funs args = true) :
    QuietR QV (callFun f dbg ρ ref isLazy args) := by
  cases ref with
  | builtin idx =>
    rw [callFun]
    cases hb : builtins[idx]? with
    | none => exact QuietR.fail _
    | some d =>
      dsimp only
      have hid : d.id ≠ .PRINT_ANY := by
        simpa [refPrints, hb] using hr
      cases isLazy with
      | true =>
        simp only [if_true]
        split
        · simp only [noPrintDL, Bool.and_eq_true] at ha
          refine QuietR.bind (ih _ ha.1) fun cv _ => ?_
          split
          · exact ih _ ha.2.1
          · exact ih _ ha.2.2.1
          · exact QuietR.fail _
        · simp only [noPrintDL, Bool.and_eq_true] at ha
          refine QuietR.bind (ih _ ha.1) fun xv _ => ?_
          split
          · exact QuietR.bind (ih _ ha.2.1) fun yv _ => boolCast_quietD yv
          · exact QuietR.pure rfl
          · exact QuietR.fail _
        · simp only [noPrintDL, Bool.and_eq_true] at ha
          refine QuietR.bind (ih _ ha.1) fun xv _ => ?_
          split
          · exact QuietR.pure rfl
          · exact QuietR.bind (ih _ ha.2.1) fun yv _ => boolCast_quietD yv
          · exact QuietR.fail _
        · exact QuietR.fail _
      | false =>
        simp only [Bool.false_eq_true, if_false]
        refine QuietR.bind (evalList_quietD ih args ha) fun vs hvs => ?_
        refine QuietR.bind (g := fun r => QV r.1 ∧ r.2 = [])
          (QuietR.lift fun r hr' => ?_) fun r hr' => ?_
        · rcases r with ⟨v, evs⟩
          exact ⟨applyBuiltin_quietVal ((quietVals_iff vs).1 hvs) hr',
            applyBuiltin_quiet hid hr'⟩
        · rcases r with ⟨v, evs⟩
          obtain ⟨hv, rfl⟩ := hr'
          exact QuietR.bind QuietR.emitAll_nil fun _ _ => QuietR.pure hv
  | host name beh =>
    cases isLazy with
    | true =>
      cases beh
      case force order =>
        rw [callFun]
        simp only [if_true]
        exact QuietR.bind (QuietR.emit (e := .call name []) rfl) fun _ _ =>
          forceSeq_quietD ih args ha _ none (fun _ h => by cases h)
      all_goals
        unfold callFun
        exact QuietR.fail _
    | false =>
      unfold callFun
      simp only [Bool.false_eq_true, if_false]
      exact QuietR.bind (evalList_quietD ih args ha) fun vs hvs =>
        QuietR.hostStrict _ _ ((quietVals_iff vs).1 hvs)

theorem evalQuietD_zero : EvalQuietD 0 dbg ρ := by
  intro e _
  simp only [eval]
  exact QuietR.fail _

theorem lookupVar_quiet (hρ : ∀ p ∈ ρ.vars, QV p.2) {x : String} {v : Val}
    (h : ρ.lookupVar x = some v) : QV v := by
  unfold REnv.lookupVar at h
  simp only [Option.map_eq_some_iff] at h
  obtain ⟨p, hp, rfl⟩ := h
  exact hρ p (List.mem_of_find?_eq_some hp)

theorem evalQuietD_succ (hρ : ∀ p ∈ ρ.vars, QV p.2) (ih : EvalQuietD f dbg ρ) :
    EvalQuietD (f+1) dbg ρ := by
  intro e h
  cases e with
  | str p v => simp only [eval]; exact QuietR.pure rfl
  | num p v => simp only [eval]; exact QuietR.pure rfl
  | time p v => simp only [eval]; exact QuietR.pure rfl
  | bool p v => simp only [eval]; exact QuietR.pure rfl
  | list p es ty =>
    simp only [noPrintD] at h
    cases es with
    | nil => simp only [eval]; exact QuietR.pure rfl
    | cons a as =>
      cases ty <;> simp only [eval] <;>
        exact QuietR.bind (evalList_quietD ih _ h) fun vs hvs =>
          (by first | exact QuietR.pure (by simpa only [QV, quietVal] using hvs)
                    | exact QuietR.fail _)
  | map p ps ty =>
    simp only [noPrintD] at h
    cases ps with
    | nil => simp only [eval]; exact QuietR.pure rfl
    | cons k v ps =>
      cases ty with
      | none => simp only [eval]; exact QuietR.fail _
      | some t =>
        simp only [eval]
        exact QuietR.bind (evalPairs_quietD ih _ _ h rfl) fun es hes =>
          QuietR.pure (by simpa only [QV, quietVal] using hes)
  | obj p fs ty =>
    simp only [noPrintD] at h
    cases fs with
    | nil => simp only [eval]; exact QuietR.pure rfl
    | cons n a fs =>
      cases ty <;> simp only [eval] <;>
        exact QuietR.bind (evalFields_quietD ih _ h) fun vs hvs =>
          (by first | exact QuietR.pure (by simpa only [QV, quietVal] using hvs)
                    | exact QuietR.fail _)
  | ident p name =>
    simp only [eval]
    cases hl : ρ.lookupVar name with
    | none => exact QuietR.fail _
    | some v => exact QuietR.recDbg _ (lookupVar_quiet hρ hl) _
  | call p col callee args cty resolved index =>
    simp only [noPrintD, Bool.and_eq_true] at h
    obtain ⟨hc, hargs⟩ := h
    simp only [eval]
    refine QuietR.bind ?_ fun v hv => QuietR.recDbg _ hv col
    split
    · next hr =>
      rw [if_pos hr] at hc
      refine QuietR.bind (ih callee hc) fun fv hfv => ?_
      split
      · next ty' ps' ret' ref isLazy =>
        have hrp : refPrints ref = false := by
          simpa only [QV, quietVal, Bool.not_eq_true'] using hfv
        exact callFun_quietD ih _ hrp _ _ hargs
      · exact QuietR.fail _
    · next hr =>
      rw [if_neg hr] at hc
      cases hrs : resolveStatic ρ.funs resolved index with
      | none => exact QuietR.fail _
      | some d =>
        rw [hrs] at hc
        simp only [Bool.not_eq_true'] at hc
        exact callFun_quietD ih _ hc _ _ hargs
  | subscript p col var idx vty =>
    simp only [noPrintD, Bool.and_eq_true] at h
    simp only [eval]
    refine QuietR.bind (ih var h.1) fun x hx => QuietR.bind ?_ fun v hv => QuietR.recDbg _ hv col
    split
    · next ty vs =>
      refine QuietR.bind (ih idx h.2) fun i _ => ?_
      split
      · split
        · exact QuietR.fail _
        · split
          · next v hg =>
            exact QuietR.pure (quietVals_get _ _ _ (by simpa only [QV, quietVal] using hx) hg)
          · exact QuietR.fail _
      · exact QuietR.fail _
    · next ty es =>
      refine QuietR.bind (ih idx h.2) fun k _ => ?_
      split
      · split
        · next v hg =>
          exact QuietR.pure
            (quietEntries_find _ _ _ _ (by simpa only [QV, quietVal] using hx) hg)
        · exact QuietR.fail _
      · exact QuietR.fail _
    · exact QuietR.fail _
  | member p col obj field fp oty index =>
    simp only [noPrintD] at h
    simp only [eval]
    refine QuietR.bind (ih obj h) fun o ho => QuietR.bind ?_ fun v hv => QuietR.recDbg _ hv col
    split
    · next ty vs =>
      split
      · next v hg =>
        exact QuietR.pure (quiet_objGet (by simpa only [QV, quietVal] using ho) hg)
      · exact QuietR.fail _
    · exact QuietR.fail _
  | unary => simp only [eval]; exact QuietR.fail _
  | binary => simp only [eval]; exact QuietR.fail _
  | ternary => simp only [eval]; exact QuietR.fail _
  | group => simp only [eval]; exact QuietR.fail _

theorem evalQuietD (hρ : ∀ p ∈ ρ.vars, QV p.2) : ∀ f, EvalQuietD f dbg ρ
  | 0 => evalQuietD_zero
  | f+1 => evalQuietD_succ hρ (evalQuietD hρ f)

end step

/-- **only `print` prints**, dynamic dispatch included: when no value of the environment holds a
function referring to `print` and no static call of the tree is resolved to `print`, the
evaluation adds no line of standard output to the log, and its value holds no such function -/
theorem eval_quietD (fuel : Nat) (dbg : Bool) (ρ : REnv) (e : Expr)
    (hρ : ∀ p ∈ ρ.vars, quietVal p.2 = true) (h : noPrintD ρ.funs e = true)
    (log : List Event) (hl : Silent log) :
    Silent (eval fuel dbg ρ e log).2 ∧
      ∀ v, (eval fuel dbg ρ e log).1 = .ok v → quietVal v = true :=
  evalQuietD hρ fuel e h log hl

theorem runEval_quietD (dbg : Bool) (ρ : REnv) (e : Expr)
    (hρ : ∀ p ∈ ρ.vars, quietVal p.2 = true) (h : noPrintD ρ.funs e = true) :
    Silent (runEval dbg ρ e).2 := by
  unfold runEval
  have := (eval_quietD (e.depth + 1) dbg ρ e hρ h [] (fun _ hm => by cases hm)).1
  intro ev hev
  simp only [List.mem_reverse] at hev
  exact this ev hev

mutual
/-- a tree without dynamic calls and without `print` is one without static calls of `print` -/
theorem noPrintD_of_noPrint (funs : List FunDecl) :
    ∀ e : Expr, noPrint funs e = true → noPrintD funs e = true
  | .str .., _ | .num .., _ | .time .., _ | .bool .., _ | .ident .., _ => by simp only [noPrintD]
  | .unary .., _ | .binary .., _ | .ternary .., _ | .group .., _ => by simp only [noPrintD]
  | .list _ es _, h => by
    simp only [noPrint] at h; simp only [noPrintD]; exact noPrintDL_of_noPrintL funs es h
  | .map _ ps _, h => by
    simp only [noPrint] at h; simp only [noPrintD]; exact noPrintDP_of_noPrintP funs ps h
  | .obj _ fs _, h => by
    simp only [noPrint] at h; simp only [noPrintD]; exact noPrintDF_of_noPrintF funs fs h
  | .call _ _ callee args _ resolved index, h => by
    simp only [noPrint, Bool.and_eq_true, bne_iff_ne, ne_eq] at h
    obtain ⟨⟨hres, hd⟩, hargs⟩ := h
    have hr : (resolved == "") = false := by simpa using hres
    simp only [noPrintD, hr, Bool.false_eq_true, if_false, Bool.and_eq_true]
    exact ⟨hd, noPrintDL_of_noPrintL funs args hargs⟩
  | .subscript _ _ var idx _, h => by
    simp only [noPrint, Bool.and_eq_true] at h
    simp only [noPrintD, Bool.and_eq_true]
    exact ⟨noPrintD_of_noPrint funs var h.1, noPrintD_of_noPrint funs idx h.2⟩
  | .member _ _ obj _ _ _ _, h => by
    simp only [noPrint] at h; simp only [noPrintD]; exact noPrintD_of_noPrint funs obj h
theorem noPrintDL_of_noPrintL (funs : List FunDecl) :
    ∀ es : ExprList, noPrintL funs es = true → noPrintDL funs es = true
  | .nil, _ => by simp only [noPrintDL]
  | .cons e es, h => by
    simp only [noPrintL, Bool.and_eq_true] at h
    simp only [noPrintDL, Bool.and_eq_true]
    exact ⟨noPrintD_of_noPrint funs e h.1, noPrintDL_of_noPrintL funs es h.2⟩
theorem noPrintDP_of_noPrintP (funs : List FunDecl) :
    ∀ ps : PairList, noPrintP funs ps = true → noPrintDP funs ps = true
  | .nil, _ => by simp only [noPrintDP]
  | .cons k v ps, h => by
    simp only [noPrintP, Bool.and_eq_true] at h
    simp only [noPrintDP, Bool.and_eq_true]
    exact ⟨⟨noPrintD_of_noPrint funs k h.1.1, noPrintD_of_noPrint funs v h.1.2⟩,
      noPrintDP_of_noPrintP funs ps h.2⟩
theorem noPrintDF_of_noPrintF (funs : List FunDecl) :
    ∀ fs : FieldEList, noPrintF funs fs = true → noPrintDF funs fs = true
  | .nil, _ => by simp only [noPrintDF]
  | .cons _ e fs, h => by
    simp only [noPrintF, Bool.and_eq_true] at h
    simp only [noPrintDF, Bool.and_eq_true]
    exact ⟨noPrintD_of_noPrint funs e h.1, noPrintDF_of_noPrintF funs fs h.2⟩
end

end Yae.EngineEval
