/-
  For C13: values that hold no function referring to the built-in `print` (at any depth), and
  that the strict built-ins return such values when given such values.  Kept apart from the
  induction over `eval` because the case split over `applyBuiltin` is slow.
-/
import Yae.Proofs.EnginePrint
import Yae.Proofs.SoundnessBuiltins
namespace Yae.EngineEval
open Yae

mutual
/-- no function value referring to `print` inside -/
def quietVal : Val → Bool
  | .list _ vs => quietVals vs
  | .map _ es => quietEntries es
  | .obj _ vs => quietVals vs
  | .fn _ ref _ => !refPrints ref
  | .just _ v => quietVal v
  | _ => true
def quietVals : ValList → Bool
  | .nil => true
  | .cons v vs => quietVal v && quietVals vs
def quietEntries : EntryList → Bool
  | .nil => true
  | .cons _ _ v es => quietVal v && quietEntries es
end

theorem quietVals_iff : ∀ vs : ValList, quietVals vs = true ↔ ∀ v ∈ vs.toList, quietVal v = true
  | .nil => by simp [quietVals, ValList.toList]
  | .cons v vs => by simp [quietVals, ValList.toList, quietVals_iff vs]

theorem quietVals_ofList (l : List Val) :
    quietVals (ValList.ofList l) = true ↔ ∀ v ∈ l, quietVal v = true := by
  rw [quietVals_iff, Sound.ValList.toList_ofList]

theorem quietVals_get : ∀ (vs : ValList) (i : Nat) (v : Val), quietVals vs = true →
    vs.get? i = some v → quietVal v = true
  | .nil, _, _, _, h => by simp [ValList.get?] at h
  | .cons x xs, 0, v, hq, h => by
    simp only [ValList.get?, Option.some.injEq] at h
    simp only [quietVals, Bool.and_eq_true] at hq
    exact h ▸ hq.1
  | .cons x xs, i+1, v, hq, h => by
    simp only [ValList.get?] at h
    simp only [quietVals, Bool.and_eq_true] at hq
    exact quietVals_get xs i v hq.2 h

theorem quietEntries_find : ∀ (es : EntryList) (t : Kind) (k : String) (v : Val),
    quietEntries es = true → es.find? t k = some v → quietVal v = true
  | .nil, _, _, _, _, h => by simp [EntryList.find?] at h
  | .cons t' k' v' es, t, k, v, hq, h => by
    simp only [quietEntries, Bool.and_eq_true] at hq
    simp only [EntryList.find?] at h
    split at h
    · cases h; exact hq.1
    · exact quietEntries_find es t k v hq.2 h

theorem quietEntries_insert : ∀ (es : EntryList) (t : Kind) (k : String) (v : Val),
    quietEntries es = true → quietVal v = true → quietEntries (es.insert t k v) = true
  | .nil, _, _, _, _, hv => by simp [EntryList.insert, quietEntries, hv]
  | .cons t' k' v' es, t, k, v, hq, hv => by
    simp only [quietEntries, Bool.and_eq_true] at hq
    simp only [EntryList.insert]
    split
    · simp [quietEntries, hv, hq.2]
    · simp [quietEntries, hq.1, quietEntries_insert es t k v hq.2 hv]

theorem quiet_objGet {ty : Ty} {vs : ValList} {field : String} {v : Val}
    (hq : quietVals vs = true) (h : objGet? ty vs field = some v) : quietVal v = true := by
  unfold objGet? at h
  split at h
  · next fs =>
    cases hi : fs.indexOf? field with
    | none => rw [hi] at h; cases h
    | some i => rw [hi] at h; exact quietVals_get vs i v hq h
  · cases h

theorem quiet_union {xs ys : ValList} (hx : quietVals xs = true) (hy : quietVals ys = true) :
    quietVals (ValList.ofList (setUnion (valSetOf xs) (valSetOf ys))) = true := by
  rw [quietVals_ofList]
  intro v hv
  rcases Sound.setUnion_mem hv with ⟨e, he, rfl⟩ | ⟨e, he, rfl⟩
  · exact (quietVals_iff xs).1 hx _ (Sound.valSetOf_mem xs e he)
  · exact (quietVals_iff ys).1 hy _ (Sound.valSetOf_mem ys e he)

theorem quiet_intersect {xs ys : ValList} (hy : quietVals ys = true) :
    quietVals (ValList.ofList (setIntersect (valSetOf xs) (valSetOf ys))) = true := by
  rw [quietVals_ofList]
  intro v hv
  obtain ⟨e, he, rfl⟩ := Sound.setIntersect_mem hv
  exact (quietVals_iff ys).1 hy _ (Sound.valSetOf_mem ys e he)

theorem quiet_diff {xs ys : ValList} (hx : quietVals xs = true) :
    quietVals (ValList.ofList (setDiff (valSetOf xs) (valSetOf ys))) = true := by
  rw [quietVals_ofList]
  intro v hv
  obtain ⟨e, he, rfl⟩ := Sound.setDiff_mem hv
  exact (quietVals_iff xs).1 hx _ (Sound.valSetOf_mem xs e he)

/-- a strict built-in applied to values without `print` inside returns such a value -/
theorem applyBuiltin_quietVal {ext : Externs} {id : BId} {args : List Val} {v : Val}
    {evs : List Event} (hq : ∀ a ∈ args, quietVal a = true)
    (h : applyBuiltin ext id args = .ok (v, evs)) : quietVal v = true := by
  unfold applyBuiltin at h
  split at h
  all_goals first
    | (simp only [Except.ok.injEq, Prod.mk.injEq] at h; obtain ⟨rfl, -⟩ := h; rfl)
    | (simp only [Except.ok.injEq, Prod.mk.injEq] at h; obtain ⟨rfl, -⟩ := h
       apply hq; simp; done)
    | (simp only [stuckCast] at h; cases h)
    | (dsimp only at h
       repeat' split at h
       all_goals first
        | (simp only [Except.ok.injEq, Prod.mk.injEq] at h; obtain ⟨rfl, -⟩ := h; rfl)
        | (simp only [Except.ok.injEq, Prod.mk.injEq] at h; obtain ⟨rfl, -⟩ := h
           apply hq; simp; done)
        | (simp only [stuckCast] at h; cases h)
        | cases h
        | skip)
  all_goals
    have h1 := hq _ (List.mem_cons_self ..)
    have h2 := hq _ (List.mem_cons_of_mem _ (List.mem_cons_self ..))
    simp only [quietVal] at h1 ⊢
    try simp only [quietVal] at h2
    first
      | exact quiet_union h1 h2
      | exact quiet_intersect h2
      | exact quiet_diff h1
      | exact quietEntries_find _ _ _ _ h1 (by assumption)
      | exact quietVals_get _ _ _ h1 (by assumption)
      | exact h1

end Yae.EngineEval
