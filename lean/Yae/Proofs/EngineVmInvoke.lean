/-
  Lemmas for `Yae/Props/EngineVm.lean`: ONE invocation.  A Callable the engine returned
  (`Api.CallableOK`: compiled by an engine with a respectful table from a good `env0`), carrying
  the code `vm.Compile` gives for its tree (`CallableVm.ofCallable`, not refused), invoked on
  well-formed values without lazy function values: `EngineVm.invoke` (the machine, for the `vm`
  back end) returns what `Engine.invoke` (the reference evaluator) returns — result and events.
  This is `C03.runVm_correct_checked`, its hypotheses discharged as in `Api.invoke_home`.
-/
import Yae.Proofs.EngineVmRun
import Yae.Proofs.ApiSound
import Yae.Props.C03
namespace Yae.EngVm
open Yae Yae.Facade Yae.EngineHistory Yae.Api

/-- a Callable that is not a `vm` Callable is run by `Engine.invoke` -/
theorem invoke_other (ev : EngineVm) {c : Callable} (hb : c.backend ≠ .vm)
    (venv : List (String × Val)) (ext : Externs) :
    ev.invoke (.ofCallable c) venv ext = ev.eng.invoke c venv ext := by
  unfold EngineVm.invoke
  show (match c.backend with
    | .vm => _
    | _ => ev.eng.invoke c venv ext) = _
  cases h : c.backend with
  | vm => exact absurd h hb
  | closure => rfl
  | closureDebug => rfl
  | interp => rfl

/-- **the machine returns what the evaluator returns**, for one invocation -/
theorem invoke_eq {c : Callable} (hok : CallableOK c) (hnr : ∀ err, ¬ Refuses c err)
    (ev : EngineVm) (venv : List (String × Val)) (ext : Externs)
    (hwf : ∀ p ∈ venv, Sound.WF p.2 = true) (hnl : ∀ p ∈ venv, VmChk.noLazy p.2 = true) :
    ev.invoke (.ofCallable c) venv ext = ev.eng.invoke c venv ext := by
  by_cases hb : c.backend = .vm
  · obtain ⟨⟨e0, times, src, hc, hf⟩, ht⟩ := hok
    obtain ⟨_, hfuns, _, hsrc⟩ := compile_callable hc
    obtain ⟨d, c', hchk⟩ := compileSrc_check hsrc
    have htab : ev.eng.tableFor c = e0.init.funs := by
      unfold Engine.tableFor
      rw [hb]
      exact hfuns
    unfold EngineVm.invoke Engine.invoke
    simp only [CallableVm.ofCallable, hb, vmCodeOf, Backend.dbg]
    cases henv : envCheck c.tenv venv with
    | error err => rfl
    | ok u =>
      cases u
      simp only
      cases hcomp : Vm.compile c.funs c.tree with
      | error err => exact absurd ⟨hb, hcomp⟩ (hnr err)
      | ok cp =>
        obtain ⟨code, pool⟩ := cp
        simp only
        have hE : Sound.EnvOK (e0.init.tenvOf c.tenv) ⟨venv, ev.eng.tableFor c, ext⟩ :=
          ⟨fun x T hx => by
              have := Yae.C07.accepted_env_ok (tenv := c.tenv) (venv := venv)
                (funs := e0.init.funs) (reserved := reservedWords) (ext := ext) henv hwf x T hx
              obtain ⟨v, hv, hty⟩ := this
              refine ⟨v, ?_, hty⟩
              simpa [REnv.lookupVar] using hv,
            htab, ht⟩
        have hN : Yae.C03.NoLazyFunValues ⟨venv, ev.eng.tableFor c, ext⟩ :=
          Yae.C03.noLazyFunValues_iff.2 hnl
        have hcomp' : Vm.compile (e0.init.tenvOf c.tenv).funs c.tree = .ok (code, pool) := by
          show Vm.compile e0.init.funs c.tree = _
          rw [← hfuns]; exact hcomp
        rw [Yae.C03.runVm_correct_checked hf hE hN hchk hcomp']
        rfl
  · exact invoke_other ev hb venv ext

end Yae.EngVm
