/-
  Lemmas for `Yae/Props/EngineVm.lean`: the steps of a history, `EngineVm.run` against
  `Engine.run`.

  * `prefix_facts`: what is known after the first `i` calls — the same engine, `Sim` outputs
    (`EngineVmRun.run_sim`), the invariant `Api.Inv` on the `Engine` side (`Api.run_inv`).
  * `invoke_cases`: an `invoke k` at step `i` — (A) neither side holds a Callable at `k`, both
    answer `noCallable`; (B) both hold the Callable (`EngineVm` with its code), both answer with
    the SAME result; (C) the VM compiler refused at `k`: `EngineVm` answers `noCallable`,
    `Engine` answers with a result.
  * `compile_step`, `invokeC_step`, `plain_step`: the other calls.
-/
import Yae.Proofs.EngineVmInvoke
namespace Yae.EngVm
open Yae Yae.Facade Yae.EngineHistory Yae.Api

theorem new_eng : EngineVm.new.eng = Engine.new := rfl

/-- the outputs before step `i` are the outputs of the first `i` calls -/
theorem outs_prefix (e : Engine) (ops : List Op) {i j : Nat} (hj : j < i) :
    (e.run (ops.take i)).2[j]? = (e.run ops).2[j]? := by
  rw [Api.run_take, List.getElem?_take_of_lt hj]

theorem outsV_prefix (e : EngineVm) (ops : List Op) {i j : Nat} (hj : j < i) :
    (e.run (ops.take i)).2[j]? = (e.run ops).2[j]? := by
  rw [run_take, List.getElem?_take_of_lt hj]

/-- an index that holds an output of the first `i` calls is below `i` -/
theorem lt_of_prefix_out (e : Engine) (ops : List Op) {i k : Nat} {o : Out}
    (h : (e.run (ops.take i)).2[k]? = some o) : k < i := by
  rcases Nat.lt_or_ge k i with hk | hk
  · exact hk
  · rw [List.getElem?_eq_none (by rw [Api.run_length, List.length_take]; omega)] at h
    cases h

/-- the steps that return `done` -/
theorem plain_step {ops : List Op} {i : Nat} {op : Op} (hop : ops[i]? = some op)
    (hpl : (∃ d, op = .registerFun d) ∨ (∃ o, op = .registerOperator o) ∨
      (∃ f, op = .useBuiltIn f) ∨ (∃ b, op = .useCompiler b)) :
    (EngineVm.new.run ops).2[i]? = some .done ∧ (Engine.new.run ops).2[i]? = some .done := by
  rw [run_out hop, run_out' hop]
  rcases hpl with ⟨d, rfl⟩ | ⟨o, rfl⟩ | ⟨f, rfl⟩ | ⟨b, rfl⟩ <;> exact ⟨rfl, rfl⟩

/-- a `compile` step: the same error of the front end; or the same Callable (with its code); or
a Callable on the `Engine` side and the refusal of the VM compiler on the other -/
theorem compile_step {ops : List Op} {i : Nat} {times : List (String × Int)}
    {tenv : List (String × Ty)} {src : String} (hop : ops[i]? = some (.compile times tenv src)) :
    (∃ err, (EngineVm.new.run ops).2[i]? = some (.compiled (.error (.front err))) ∧
      (Engine.new.run ops).2[i]? = some (.compiled (.error err))) ∨
    (∃ c, (Engine.new.run ops).2[i]? = some (.compiled (.ok c)) ∧
      (((EngineVm.new.run ops).2[i]? = some (.compiled (.ok (.ofCallable c))) ∧
          ∀ err, ¬ Refuses c err) ∨
       (∃ err, (EngineVm.new.run ops).2[i]? = some (.compiled (.error (.vm err))) ∧
          Refuses c err))) := by
  rw [run_out hop, run_out' hop]
  have heng := (run_sim EngineVm.new (ops.take i)).1
  rw [new_eng] at heng
  simp only [EngineVm.step, Engine.step, ← heng]
  rcases compile_cases (EngineVm.new.run (ops.take i)).1 times tenv src with
    ⟨err, h1, h2⟩ | ⟨c, h1, ⟨h2, h3⟩ | ⟨err, h2, h3⟩⟩
  · exact .inl ⟨err, by rw [h2], by rw [h1]⟩
  · exact .inr ⟨c, by rw [h1], .inl ⟨by rw [h2], h3⟩⟩
  · exact .inr ⟨c, by rw [h1], .inr ⟨err, by rw [h2], h3⟩⟩

/-- an `invokeC` step of a Callable that is not a `vm` Callable: the same result -/
theorem invokeC_step {ops : List Op} {i : Nat} {c : Callable} {venv : List (String × Val)}
    {ext : Externs} (hop : ops[i]? = some (.invokeC c venv ext)) (hb : c.backend ≠ .vm) :
    ∃ r, (EngineVm.new.run ops).2[i]? = some (.result r) ∧
      (Engine.new.run ops).2[i]? = some (.result r) := by
  rw [run_out hop, run_out' hop]
  have heng := (run_sim EngineVm.new (ops.take i)).1
  rw [new_eng] at heng
  simp only [EngineVm.step, Engine.step, ← heng]
  exact ⟨_, by rw [invoke_other _ hb], rfl⟩

/-- **an `invoke` step** -/
theorem invoke_cases {ops : List Op} (hops : OpsOK ops)
    (hvenv : ∀ k venv ext, Op.invoke k venv ext ∈ ops → ∀ p ∈ venv, Sound.WF p.2 = true)
    (hnl : ∀ k venv ext, Op.invoke k venv ext ∈ ops → ∀ p ∈ venv, VmChk.noLazy p.2 = true)
    {i k : Nat} {venv : List (String × Val)} {ext : Externs}
    (hop : ops[i]? = some (.invoke k venv ext)) :
    -- (A)
    ((EngineVm.new.run ops).2[i]? = some .noCallable ∧
      (Engine.new.run ops).2[i]? = some .noCallable ∧
      (∀ cv, k < i → (EngineVm.new.run ops).2[k]? ≠ some (.compiled (.ok cv))) ∧
      (∀ c, k < i → (Engine.new.run ops).2[k]? ≠ some (.compiled (.ok c)))) ∨
    -- (B)
    (∃ c r, k < i ∧ (Engine.new.run ops).2[k]? = some (.compiled (.ok c)) ∧
      (EngineVm.new.run ops).2[k]? = some (.compiled (.ok (.ofCallable c))) ∧
      (∀ err, ¬ Refuses c err) ∧
      (EngineVm.new.run ops).2[i]? = some (.result r) ∧
      (Engine.new.run ops).2[i]? = some (.result r)) ∨
    -- (C)
    (∃ c err r, k < i ∧ (Engine.new.run ops).2[k]? = some (.compiled (.ok c)) ∧
      (EngineVm.new.run ops).2[k]? = some (.compiled (.error (.vm err))) ∧
      Refuses c err ∧
      (∃ times src, ops[k]? = some (.compile times c.tenv src)) ∧
      (EngineVm.new.run ops).2[i]? = some .noCallable ∧
      (Engine.new.run ops).2[i]? = some (.result r)) := by
  rw [run_out hop, run_out' hop]
  obtain ⟨heng, hsim⟩ := run_sim EngineVm.new (ops.take i)
  rw [new_eng] at heng
  have hI := run_inv (e := Engine.new) (fun d hd => by cases hd) (ops.take i) (hops.take i)
  have hmem := List.mem_of_getElem? hop
  simp only [EngineVm.step, Engine.step]
  rcases hsim.callable k with ⟨h1, h2⟩ | ⟨c, hc, ⟨hv, hnr⟩ | ⟨err, hv, href⟩⟩
  · left
    rw [new_eng] at h1
    rw [h1, h2]
    refine ⟨rfl, rfl, fun cv hki hk => ?_, fun c hki hk => ?_⟩
    · rw [← outsV_prefix _ _ hki] at hk
      rw [hk] at h2
      cases h2
    · rw [← outs_prefix _ _ hki] at hk
      rw [hk] at h1
      cases h1
  · right; left
    rw [new_eng] at hc
    have hki := lt_of_prefix_out _ _ hc
    have hcc : Out.callable? (Engine.new.run (ops.take i)).2[k]? = some c := by rw [hc]; rfl
    have hvc : OutVm.callable? (EngineVm.new.run (ops.take i)).2[k]? = some (.ofCallable c) := by
      rw [hv]; rfl
    obtain ⟨_, hok, _, _⟩ := hI.call k c hcc
    rw [hcc, hvc]
    refine ⟨c, (Engine.new.run (ops.take i)).1.invoke c venv ext, hki,
      by rw [← outs_prefix _ _ hki]; exact hc,
      by rw [← outsV_prefix _ _ hki]; exact hv, hnr, ?_, rfl⟩
    simp only
    rw [invoke_eq hok hnr _ venv ext (hvenv k venv ext hmem) (hnl k venv ext hmem), heng]
  · right; right
    rw [new_eng] at hc
    have hki := lt_of_prefix_out _ _ hc
    have hcc : Out.callable? (Engine.new.run (ops.take i)).2[k]? = some c := by rw [hc]; rfl
    have hvc : OutVm.callable? (EngineVm.new.run (ops.take i)).2[k]? = none := by rw [hv]; rfl
    obtain ⟨_, _, ⟨times, src, hpre⟩, _⟩ := hI.call k c hcc
    rw [List.getElem?_take_of_lt hki] at hpre
    rw [hcc, hvc]
    exact ⟨c, err, (Engine.new.run (ops.take i)).1.invoke c venv ext, hki,
      by rw [← outs_prefix _ _ hki]; exact hc,
      by rw [← outsV_prefix _ _ hki]; exact hv, href, ⟨times, src, hpre⟩, rfl, rfl⟩

end Yae.EngVm
