/-
  Lemmas for `Yae/Props/EngineVm.lean`: histories on `EngineVm` from the left (as
  `ApiHistory.run_out` for `Engine`), and the LOCKSTEP of `EngineVm.run` and `Engine.run`:
  with no hypothesis at all the two engines are in the same state after every history, and the
  outputs are related by `Sim` — wherever `Engine` returned a Callable, `EngineVm` returned the
  same Callable with the code `vm.Compile` gives (`CallableVm.ofCallable`), or the refusal of the
  VM compiler; and `EngineVm` returns no other Callable.
-/
import Yae.Model.EngineVm
import Yae.Proofs.ApiHistory
namespace Yae.EngVm
open Yae Yae.Facade Yae.EngineHistory Yae.Api

/-! ### histories from the left -/

theorem runFrom_append (e : EngineVm) (outs : List OutVm) (a b : List Op) :
    e.runFrom outs (a ++ b) = (e.runFrom outs a).1.runFrom (e.runFrom outs a).2 b := by
  induction a generalizing e outs with
  | nil => rfl
  | cons op a ih =>
    simp only [List.cons_append, EngineVm.runFrom]
    exact ih _ _

theorem runFrom_outs (e : EngineVm) (outs : List OutVm) (ops : List Op) :
    ∃ t, (e.runFrom outs ops).2 = outs ++ t ∧ t.length = ops.length := by
  induction ops generalizing e outs with
  | nil => exact ⟨[], by simp [EngineVm.runFrom], rfl⟩
  | cons op ops ih =>
    obtain ⟨t, ht, hl⟩ := ih (e.step outs op).1 (outs ++ [(e.step outs op).2])
    refine ⟨(e.step outs op).2 :: t, ?_, by simp [hl]⟩
    rw [EngineVm.runFrom, ht]
    simp

theorem run_length (e : EngineVm) (ops : List Op) : (e.run ops).2.length = ops.length := by
  obtain ⟨t, ht, hl⟩ := runFrom_outs e [] ops
  unfold EngineVm.run
  rw [ht]
  simpa using hl

theorem run_snoc (e : EngineVm) (pre : List Op) (op : Op) :
    e.run (pre ++ [op]) =
      (((e.run pre).1.step (e.run pre).2 op).1,
        (e.run pre).2 ++ [((e.run pre).1.step (e.run pre).2 op).2]) := by
  unfold EngineVm.run
  rw [runFrom_append]
  rfl

theorem run_take (e : EngineVm) (ops : List Op) (i : Nat) :
    (e.run (ops.take i)).2 = (e.run ops).2.take i := by
  rcases Nat.le_total i ops.length with hi | hi
  · have hsplit : e.run ops =
        (e.run (ops.take i)).1.runFrom (e.run (ops.take i)).2 (ops.drop i) := by
      have := runFrom_append e [] (ops.take i) (ops.drop i)
      rw [List.take_append_drop] at this
      exact this
    obtain ⟨t, ht, _⟩ := runFrom_outs (e.run (ops.take i)).1 (e.run (ops.take i)).2 (ops.drop i)
    have hlen : (e.run (ops.take i)).2.length = i := by
      rw [run_length, List.length_take]; omega
    have h2 : (e.run ops).2 = (e.run (ops.take i)).2 ++ t := by rw [hsplit]; exact ht
    rw [h2, List.take_left' hlen]
  · rw [List.take_of_length_le hi, List.take_of_length_le (by rw [run_length]; exact hi)]

/-- the `i`-th output is the output of the `i`-th call on what the calls before it left behind -/
theorem run_out {e : EngineVm} {ops : List Op} {i : Nat} {op : Op} (hop : ops[i]? = some op) :
    (e.run ops).2[i]? = some ((e.run (ops.take i)).1.step (e.run (ops.take i)).2 op).2 := by
  have hi : i < ops.length := by
    rcases Nat.lt_or_ge i ops.length with hi | hi
    · exact hi
    · rw [List.getElem?_eq_none hi] at hop; cases hop
  have hopi : ops[i] = op := by
    rw [List.getElem?_eq_getElem hi] at hop; exact Option.some.inj hop
  have h1 : ops.take (i+1) = ops.take i ++ [op] := by
    rw [List.take_add_one, List.getElem?_eq_getElem hi, hopi]; rfl
  have h2 := run_take e ops (i+1)
  rw [h1, run_snoc] at h2
  simp only at h2
  have hlen : (e.run (ops.take i)).2.length = i := by
    rw [run_length, List.length_take]; omega
  have h3 : ((e.run ops).2.take (i+1))[i]? = (e.run ops).2[i]? :=
    List.getElem?_take_of_lt (by omega)
  rw [← h3, ← h2, List.getElem?_append_right (by omega), hlen, Nat.sub_self]
  rfl

/-- the same for `Engine` (a restatement of `Api.run_out`) -/
theorem run_out' {e : Engine} {ops : List Op} {i : Nat} {op : Op} (hop : ops[i]? = some op) :
    (e.run ops).2[i]? = some ((e.run (ops.take i)).1.step (e.run (ops.take i)).2 op).2 := by
  have hi : i < ops.length := by
    rcases Nat.lt_or_ge i ops.length with hi | hi
    · exact hi
    · rw [List.getElem?_eq_none hi] at hop; cases hop
  have hlt : i < (e.run ops).2.length := by rw [Api.run_length]; exact hi
  have hsome : (e.run ops).2[i]? = some ((e.run ops).2[i]'hlt) := List.getElem?_eq_getElem hlt
  obtain ⟨op', hop', hout⟩ := Api.run_out hsome
  rw [hop] at hop'
  cases hop'
  rw [hsome, hout]

/-! ### the lockstep -/

/-- does `vm.Compile` refuse the tree of this Callable (a `vm` Callable)? -/
def Refuses (c : Callable) (err : Vm.CErr) : Prop :=
  c.backend = .vm ∧ Vm.compile c.funs c.tree = .error err

theorem refuses_iff {c : Callable} {err : Vm.CErr} :
    Refuses c err ↔ vmCodeOf c.backend c.funs c.tree = some (.error err) := by
  unfold Refuses vmCodeOf
  cases c.backend <;> simp

/-- how an output of `EngineVm` relates to the output of `Engine` for the same call, as far as
Callables go -/
structure Sim (ov : OutVm) (o : Out) : Prop where
  fwd : ∀ c, o = .compiled (.ok c) →
    (ov = .compiled (.ok (.ofCallable c)) ∧ ∀ err, ¬ Refuses c err) ∨
    (∃ err, ov = .compiled (.error (.vm err)) ∧ Refuses c err)
  bwd : ∀ cv, ov = .compiled (.ok cv) → o = .compiled (.ok cv.toCallable)

theorem sim_plain {ov : OutVm} {o : Out} (h1 : ∀ c, o ≠ .compiled (.ok c))
    (h2 : ∀ cv, ov ≠ .compiled (.ok cv)) : Sim ov o :=
  ⟨fun c hc => absurd hc (h1 c), fun cv hc => absurd hc (h2 cv)⟩

def SimOuts (outsV : List OutVm) (outs : List Out) : Prop :=
  outsV.length = outs.length ∧
    ∀ (k : Nat) (ov : OutVm) (o : Out), outsV[k]? = some ov → outs[k]? = some o → Sim ov o

theorem SimOuts.snoc {a : List OutVm} {b : List Out} {ov : OutVm} {o : Out} (h : SimOuts a b)
    (hs : Sim ov o) : SimOuts (a ++ [ov]) (b ++ [o]) := by
  unfold SimOuts at h ⊢
  refine ⟨by simp [h.1], fun k ov' o' hv ho => ?_⟩
  rcases Nat.lt_trichotomy k a.length with hk | hk | hk
  · rw [List.getElem?_append_left hk] at hv
    rw [List.getElem?_append_left (by rw [← h.1]; exact hk)] at ho
    exact h.2 k ov' o' hv ho
  · subst hk
    rw [List.getElem?_append_right (Nat.le_refl _), Nat.sub_self] at hv
    rw [List.getElem?_append_right (by rw [h.1]; exact Nat.le_refl _), h.1, Nat.sub_self] at ho
    simp only [List.getElem?_cons_zero, Option.some.injEq] at hv ho
    subst hv; subst ho
    exact hs
  · rw [List.getElem?_eq_none (by simp; omega)] at hv; cases hv

/-- the Callables the two output lists hold at `k`: both none, or `c` and `ofCallable c` (not
refused), or `c` on the `Engine` side and a refusal on the other -/
theorem SimOuts.callable {outsV : List OutVm} {outs : List Out} (h : SimOuts outsV outs) (k : Nat) :
    (Out.callable? outs[k]? = none ∧ OutVm.callable? outsV[k]? = none) ∨
    (∃ c, outs[k]? = some (.compiled (.ok c)) ∧
      ((outsV[k]? = some (.compiled (.ok (.ofCallable c))) ∧ ∀ err, ¬ Refuses c err) ∨
       (∃ err, outsV[k]? = some (.compiled (.error (.vm err))) ∧ Refuses c err))) := by
  unfold SimOuts at h
  rcases Nat.lt_or_ge k outs.length with hk | hk
  · have hkv : k < outsV.length := by rw [h.1]; exact hk
    have ho : outs[k]? = some outs[k] := List.getElem?_eq_getElem hk
    have hv : outsV[k]? = some outsV[k] := List.getElem?_eq_getElem hkv
    have hs := h.2 k _ _ hv ho
    by_cases hc : ∃ c, outs[k] = .compiled (.ok c)
    · obtain ⟨c, hc⟩ := hc
      right
      refine ⟨c, by rw [ho, hc], ?_⟩
      rcases hs.fwd c hc with ⟨h1, h2⟩ | ⟨err, h1, h2⟩
      · exact .inl ⟨by rw [hv, h1], h2⟩
      · exact .inr ⟨err, by rw [hv, h1], h2⟩
    · left
      refine ⟨?_, ?_⟩
      · rw [ho]
        unfold Out.callable?
        split
        · next c heq => exact absurd ⟨c, Option.some.inj heq⟩ hc
        · rfl
      · rw [hv]
        unfold OutVm.callable?
        split
        · next cv heq => exact absurd ⟨_, hs.bwd cv (Option.some.inj heq)⟩ hc
        · rfl
  · left
    rw [List.getElem?_eq_none hk, List.getElem?_eq_none (by rw [h.1]; exact hk)]
    exact ⟨rfl, rfl⟩

/-- `EngineVm.compile` through `Engine.compile` -/
theorem compile_snd (ev : EngineVm) (times : List (String × Int)) (tenv : List (String × Ty))
    (src : String) :
    (ev.compile times tenv src).2 =
      match (ev.eng.compile times tenv src).2 with
      | .error err => .error (.front err)
      | .ok c =>
        match vmCodeOf c.backend c.funs c.tree with
        | some (.error ce) => .error (.vm ce)
        | _ => .ok (.ofCallable c) := by
  unfold EngineVm.compile Engine.compile
  simp only
  cases compileSrc ev.eng.init.ops times (ev.eng.init.tenvOf tenv) src with
  | error err => rfl
  | ok r =>
    obtain ⟨ty, tree⟩ := r
    simp only [CallableVm.ofCallable]
    generalize vmCodeOf ev.eng.init.backend ev.eng.init.funs tree = vc
    rcases vc with _ | (_ | _) <;> rfl

/-- what `EngineVm.compile` returns, by what `Engine.compile` returns -/
theorem compile_cases (ev : EngineVm) (times : List (String × Int)) (tenv : List (String × Ty))
    (src : String) :
    (∃ err, (ev.eng.compile times tenv src).2 = .error err ∧
      (ev.compile times tenv src).2 = .error (.front err)) ∨
    (∃ c, (ev.eng.compile times tenv src).2 = .ok c ∧
      (((ev.compile times tenv src).2 = .ok (.ofCallable c) ∧ ∀ err, ¬ Refuses c err) ∨
       (∃ err, (ev.compile times tenv src).2 = .error (.vm err) ∧ Refuses c err))) := by
  rw [compile_snd]
  cases h : (ev.eng.compile times tenv src).2 with
  | error err => exact .inl ⟨err, rfl, rfl⟩
  | ok c =>
    refine .inr ⟨c, rfl, ?_⟩
    simp only
    split
    · next ce hce => exact .inr ⟨ce, rfl, refuses_iff.2 hce⟩
    · next hne => exact .inl ⟨rfl, fun err he => hne err (refuses_iff.1 he)⟩

theorem compile_sim (ev : EngineVm) (times : List (String × Int)) (tenv : List (String × Ty))
    (src : String) :
    Sim (.compiled (ev.compile times tenv src).2) (.compiled (ev.eng.compile times tenv src).2) := by
  rcases compile_cases ev times tenv src with ⟨err, h1, h2⟩ | ⟨c, h1, ⟨h2, h3⟩ | ⟨err, h2, h3⟩⟩
  · rw [h1, h2]
    exact sim_plain (fun c hc => by cases hc) (fun cv hc => by cases hc)
  · rw [h1, h2]
    refine ⟨fun c' hc => ?_, fun cv hc => ?_⟩
    · cases hc; exact .inl ⟨rfl, h3⟩
    · cases hc; rfl
  · rw [h1, h2]
    refine ⟨fun c' hc => ?_, fun cv hc => by cases hc⟩
    cases hc; exact .inr ⟨err, rfl, h3⟩

/-- **one call, in lockstep**: the same engine afterwards, outputs related by `Sim` -/
theorem step_sim (ev : EngineVm) {outsV : List OutVm} {outs : List Out} (op : Op) :
    (ev.step outsV op).1.eng = (ev.eng.step outs op).1 ∧
      Sim (ev.step outsV op).2 (ev.eng.step outs op).2 := by
  have hp : ∀ {ov : OutVm} {o : Out}, (∀ c, o ≠ .compiled (.ok c)) →
      (∀ cv, ov ≠ .compiled (.ok cv)) → Sim ov o := sim_plain
  cases op with
  | registerFun d => exact ⟨rfl, hp (fun c hc => by cases hc) (fun c hc => by cases hc)⟩
  | registerOperator o => exact ⟨rfl, hp (fun c hc => by cases hc) (fun c hc => by cases hc)⟩
  | useBuiltIn flag => exact ⟨rfl, hp (fun c hc => by cases hc) (fun c hc => by cases hc)⟩
  | useCompiler b => exact ⟨rfl, hp (fun c hc => by cases hc) (fun c hc => by cases hc)⟩
  | invokeC c venv ext => exact ⟨rfl, hp (fun c hc => by cases hc) (fun c hc => by cases hc)⟩
  | compile times tenv src => exact ⟨rfl, compile_sim ev times tenv src⟩
  | invoke k venv ext =>
    simp only [EngineVm.step, Engine.step]
    split <;> split <;>
      exact ⟨rfl, hp (fun c hc => by cases hc) (fun c hc => by cases hc)⟩

theorem runFrom_sim : ∀ (ops : List Op) (ev : EngineVm) (outsV : List OutVm) (outs : List Out),
    SimOuts outsV outs →
    (ev.runFrom outsV ops).1.eng = (ev.eng.runFrom outs ops).1 ∧
      SimOuts (ev.runFrom outsV ops).2 (ev.eng.runFrom outs ops).2
  | [], _, _, _, h => ⟨rfl, h⟩
  | op :: rest, ev, outsV, outs, h => by
    obtain ⟨h1, h2⟩ := step_sim ev (outsV := outsV) (outs := outs) op
    have := runFrom_sim rest (ev.step outsV op).1 _ _ (h.snoc h2)
    rw [h1] at this
    exact this

/-- **every history, in lockstep** (no hypothesis) -/
theorem run_sim (ev : EngineVm) (ops : List Op) :
    (ev.run ops).1.eng = (ev.eng.run ops).1 ∧ SimOuts (ev.run ops).2 (ev.eng.run ops).2 :=
  runFrom_sim ops ev [] [] ⟨rfl, fun k ov o h => by simp at h⟩

end Yae.EngVm
