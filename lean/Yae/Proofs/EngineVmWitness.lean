/-
  The concrete history for `Yae/Props/EngineVm.lean`: `histVm` = `ApiProps.histGood` (register the
  host function `string(a) : str`, compile `x + 1` with `x : num` — the back end is `vm`, the
  default of `NewExpr` —, invoke with `x = 1`, invoke with `x` missing).

  As in `EngineWitness`: the kernel evaluates the front end (lexer, parser, desugaring) on
  `"x + 1"` (`front_plus`) and one lookup in the function table; the checker is unfolded by `simp`
  (`check_plus`).  Nothing else is evaluated: that the VM compiler does not refuse the tree is
  `C03.compiles_small` (in `Props/EngineVm.lean`), from the size of the tree (`plusTree_small`).
-/
import Yae.Props.Api
import Yae.Proofs.EngineVmRefine
namespace Yae.EngVm
open Yae Yae.Facade Yae.EngineHistory Yae.Api Yae.EngineWitness

/-- the tree is `+(x, <number>)` (whatever the positions and attachments) -/
def isPlusX : Expr → Bool
  | .call _ _ (.ident _ g) (.cons (.ident _ y) (.cons (.num _ _) .nil)) _ _ _ => g == "+" && y == "x"
  | _ => false

theorem isPlusX_elim {d : Expr} (h : isPlusX d = true) :
    ∃ p col cp xp np v cty res idx,
      d = .call p col (.ident cp "+") (.cons (.ident xp "x") (.cons (.num np v) .nil)) cty res idx := by
  unfold isPlusX at h
  split at h
  · next p col cp g xp y np v cty res idx =>
    simp only [Bool.and_eq_true, beq_iff_eq] at h
    exact ⟨p, col, cp, xp, np, v, cty, res, idx, by rw [h.1, h.2]⟩
  · cases h

set_option maxRecDepth 100000 in
/-- `x + 1` is desugared to the call of `+` on `x` and a number literal -/
theorem front_plus : (front builtinOps [] "x + 1").map isPlusX = some true := by
  decide +kernel

theorem front_plus_elim :
    ∃ p col cp xp np v cty res idx, front builtinOps [] "x + 1" =
      some (.call p col (.ident cp "+") (.cons (.ident xp "x") (.cons (.num np v) .nil))
        cty res idx) := by
  cases hf : front builtinOps [] "x + 1" with
  | none => have h := front_plus; rw [hf] at h; cases h
  | some d =>
    have h := front_plus
    rw [hf] at h
    simp only [Option.map_some, Option.some.injEq] at h
    obtain ⟨p, col, cp, xp, np, v, cty, res, idx, rfl⟩ := isPlusX_elim h
    exact ⟨p, col, cp, xp, np, v, cty, res, idx, rfl⟩

def plusTy : Ty := .fn "+" (.cons .num (.cons .num .nil)) .num

/-- the checked `x + 1` -/
def plusTree (p : Pos) (col : Int) (cp xp np : Pos) (v : Float) : Expr :=
  .call p col (.ident cp "+") (.cons (.ident xp "x") (.cons (.num np v) .nil)) (some plusTy)
    "λ + (num, num)" (-1)

theorem check_plus {funs : List FunDecl} {d : FunDecl}
    (hm : lookupMono funs "λ + (num, num)" = some d) (hty : d.ty = plusTy)
    (p : Pos) (col : Int) (cp xp np : Pos) (v : Float) (cty : Option Ty) (res : String) (idx : Int) :
    ∃ ctr, check ⟨[("x", .num)], funs, reservedWords⟩ 0
        (.call p col (.ident cp "+") (.cons (.ident xp "x") (.cons (.num np v) .nil)) cty res idx) =
      .ok (.num, plusTree p col cp xp np v, ctr) := by
  have hk1 : (overloadKey "+" (.cons .num (.cons .num .nil)) .bot).1 = "λ + (num, num)" := by
    decide +kernel
  have hr : reservedWords.contains "x" = false := by decide +kernel
  have hl : TEnv.lookupVar ⟨[("x", .num)], funs, reservedWords⟩ "x" = some .num := by
    simp [TEnv.lookupVar]
  have htq : tyEq .num .num = true := by decide +kernel
  simp only [check, checkArgs, htq, bne_self_eq_false, pure_bind, resolveOverloadedFun, hk1, hm,
    hty, plusTy, hr, hl, Bool.false_eq_true, ↓reduceIte, assertParams, typeAssert, TyList.length]
  exact ⟨_, rfl⟩

theorem compile_plus {e : Engine} (hops : e.init.ops = builtinOps) {d : FunDecl}
    (hm : lookupMono e.init.funs "λ + (num, num)" = some d) (hty : d.ty = plusTy) :
    ∃ p col cp xp np v, (e.compile [] [("x", .num)] "x + 1").2 =
      .ok ⟨[("x", .num)], .num, plusTree p col cp xp np v, e.init.funs, e.init.backend⟩ := by
  obtain ⟨p, col, cp, xp, np, v, cty, res, idx, hf⟩ := front_plus_elim
  obtain ⟨ctr, hc⟩ := check_plus hm hty p col cp xp np v cty res idx
  refine ⟨p, col, cp, xp, np, v, ?_⟩
  unfold Engine.compile
  simp only [hops, compileSrc_front hf, Engine.tenvOf, hc]

/-- the checked tree has 4 nodes and one call, of 2 arguments -/
theorem plusTree_small (p : Pos) (col : Int) (cp xp np : Pos) (v : Float) :
    VmChk.argsOK (plusTree p col cp xp np v) = true ∧ VmChk.nodes (plusTree p col cp xp np v) ≤ 4095 := by
  refine ⟨?_, ?_⟩
  · simp [plusTree, VmChk.argsOK, VmChk.argsOKL, ExprList.length]
  · simp [plusTree, VmChk.nodes, VmChk.nodesL]

/-! ### the history -/

def histVm : List Op := Yae.ApiProps.histGood

/-- the engine the compilation of `histVm` runs on -/
def eng1 : Engine := Engine.new.registerFun hostString

theorem eng1_plus : ∃ d, lookupMono eng1.init.funs "λ + (num, num)" = some d ∧ d.ty = plusTy := by
  have h : (lookupMono eng1.init.funs "λ + (num, num)").map (·.ty) = some plusTy := by rfl
  cases hd : lookupMono eng1.init.funs "λ + (num, num)" with
  | none => rw [hd] at h; cases h
  | some d =>
    rw [hd] at h
    exact ⟨d, rfl, Option.some.inj h⟩

/-- step 1 of `histVm` returns a `vm` Callable for the checked `x + 1` -/
theorem histVm_step1 : ∃ p col cp xp np v, (Engine.new.run histVm).2[1]? =
    some (.compiled (.ok ⟨[("x", .num)], .num, plusTree p col cp xp np v, eng1.init.funs, .vm⟩)) := by
  obtain ⟨d, hm, hty⟩ := eng1_plus
  obtain ⟨p, col, cp, xp, np, v, hc⟩ := compile_plus (e := eng1) rfl hm hty
  refine ⟨p, col, cp, xp, np, v, ?_⟩
  rw [run_out' (op := .compile [] [("x", .num)] "x + 1") rfl]
  have hpre : Engine.new.run (List.take 1 histVm) = (eng1, [.done]) := rfl
  rw [hpre]
  simp only [Engine.step, hc]
  rfl

theorem histVm_compiles : ∃ c, (Engine.new.run histVm).2[1]? = some (.compiled (.ok c)) := by
  obtain ⟨p, col, cp, xp, np, v, h⟩ := histVm_step1
  exact ⟨_, h⟩

/-- every Callable `histVm` produces is a small `vm` Callable -/
theorem histVm_callable (k : Nat) (c : Callable)
    (h : (Engine.new.run histVm).2[k]? = some (.compiled (.ok c))) :
    c.backend = .vm ∧ VmChk.argsOK c.tree = true ∧ VmChk.nodes c.tree ≤ 4095 := by
  rcases k with _ | _ | _ | _ | k
  · rw [run_out' (op := .registerFun hostString) rfl] at h
    cases h
  · obtain ⟨p, col, cp, xp, np, v, h1⟩ := histVm_step1
    rw [h1] at h
    cases h
    exact ⟨rfl, plusTree_small p col cp xp np v⟩
  · rw [run_out' (op := .invoke 1 [("x", .num 1)] {}) rfl] at h
    simp only [Engine.step] at h
    split at h <;> cases h
  · rw [run_out' (op := .invoke 1 [] {}) rfl] at h
    simp only [Engine.step] at h
    split at h <;> cases h
  · rw [List.getElem?_eq_none (by rw [Api.run_length]; simp [histVm, Yae.ApiProps.histGood])] at h
    cases h

end Yae.EngVm
