/-
  Concrete histories for C13.  The kernel evaluates the front end (lexer, parser, desugaring) and
  the monomorphic part of the checker; it does not evaluate `inferFun` (well-founded `applySubst`)
  nor `eval` (well-founded mutual recursion), so the polymorphic call is checked through
  `PolyOK.sigOK_inferFun` and the evaluations are unfolded by `simp`.
-/
import Yae.Proofs.EngineHistory
import Yae.Proofs.TypingPolyOK
import Yae.Proofs.TypingCheck
import Yae.Proofs.TypingEval
namespace Yae.EngineWitness
open Yae Yae.Facade Yae.EngineHistory

/-- the front end of `compileSrc`: lexer, parser, desugaring -/
def front (ops : List Operator) (times : List (String × Int)) (src : String) : Option Expr :=
  match lex ops src.toList with
  | .error _ => none
  | .ok toks =>
    match parse ops times toks with
    | .error _ => none
    | .ok parsed => desugarGo parsed

theorem compileSrc_front {ops : List Operator} {times : List (String × Int)} {Γ : TEnv}
    {src : String} {d : Expr} (h : front ops times src = some d) :
    compileSrc ops times Γ src =
      match check Γ 0 d with
      | .error e => .error (.check e)
      | .ok (ty, e', _) => .ok (ty, e') := by
  unfold front at h
  unfold compileSrc
  split at h
  · cases h
  · next toks hl =>
    rw [hl]
    split at h
    · cases h
    · next parsed hp =>
      simp only [hp, h]
      rfl

/-- the tree is `f(true)` (whatever the positions and attachments) -/
def isCallTrue (f : String) : Expr → Bool
  | .call _ _ (.ident _ g) (.cons (.bool _ true) .nil) _ _ _ => g == f
  | _ => false

theorem isCallTrue_elim {f : String} {d : Expr} (h : isCallTrue f d = true) :
    ∃ p col cp bp cty res idx,
      d = .call p col (.ident cp f) (.cons (.bool bp true) .nil) cty res idx := by
  unfold isCallTrue at h
  split at h
  · next p col cp g bp cty res idx =>
    simp only [beq_iff_eq] at h
    exact ⟨p, col, cp, bp, cty, res, idx, by rw [h]⟩
  · cases h

theorem front_elim {ops : List Operator} {src f : String}
    (h : (front ops [] src).map (isCallTrue f) = some true) :
    ∃ p col cp bp cty res idx,
      front ops [] src = some (.call p col (.ident cp f) (.cons (.bool bp true) .nil) cty res idx) := by
  cases hf : front ops [] src with
  | none => rw [hf] at h; cases h
  | some d =>
    rw [hf] at h
    simp only [Option.map_some, Option.some.injEq] at h
    obtain ⟨p, col, cp, bp, cty, res, idx, rfl⟩ := isCallTrue_elim h
    exact ⟨p, col, cp, bp, cty, res, idx, rfl⟩

set_option maxRecDepth 100000 in
/-- `string(true)` is the call of `string` on `true` -/
theorem front_string : (front builtinOps [] "string(true)").map (isCallTrue "string") = some true := by
  decide +kernel

set_option maxRecDepth 100000 in
/-- `!true` is desugared to the call of `!` on `true` -/
theorem front_not : (front builtinOps [] "!true").map (isCallTrue "!") = some true := by
  decide +kernel

/-! ### the checker on `string(true)` -/

def strTy : Ty := .fn "string" (.cons (.var "a") .nil) .str

theorem inferred (ctr : Nat) :
    inferFun ctr "string" (.cons (.var "a") .nil) .str (.cons .bool .nil) =
      .ok (.cons .bool .nil, .str) := by
  rw [PolyOK.sigOK_inferFun (by decide) (by decide)]
  rfl

/-- the checked `string(true)`: the first overload of `string/1` -/
def stringTrue (p : Pos) (col : Int) (cp bp : Pos) : Expr :=
  .call p col (.ident cp "string") (.cons (.bool bp true) .nil)
    (some (.fn "string" (.cons .bool .nil) .str)) "∀.λ string 1" 0

theorem check_string {funs : List FunDecl} {d0 : FunDecl} {rest : List FunDecl}
    (hm : lookupMono funs "λ string (bool)" = none)
    (hp : lookupPoly funs "∀.λ string 1" = d0 :: rest) (hty : d0.ty = strTy)
    (p : Pos) (col : Int) (cp bp : Pos) (cty : Option Ty) (res : String) (idx : Int) :
    ∃ ctr, check ⟨[], funs, reservedWords⟩ 0
        (.call p col (.ident cp "string") (.cons (.bool bp true) .nil) cty res idx) =
      .ok (.str, stringTrue p col cp bp, ctr) := by
  have hk1 : (overloadKey "string" (.cons .bool .nil) .bot).1 = "λ string (bool)" := by
    decide +kernel
  have hk2 : "∀.λ " ++ "string" ++ " " ++ toString (TyList.cons Ty.bool .nil).length =
      "∀.λ string 1" := by decide +kernel
  simp only [check, checkArgs, pure_bind, resolveOverloadedFun, hk1, hm, hk2, hp, List.isEmpty_cons,
    Bool.false_eq_true, if_false, tryPoly, hty, strTy, inferred, liftU]
  exact ⟨_, rfl⟩

/-! ### running the checked `string(true)` -/

theorem resolve_string {funs : List FunDecl} {d0 : FunDecl} {rest : List FunDecl}
    (hp : lookupPoly funs "∀.λ string 1" = d0 :: rest) :
    resolveStatic funs "∀.λ string 1" 0 = some d0 := by
  simp [resolveStatic, hp]

theorem pure_bind' {α β : Type} (a : α) (f : α → EvalM β) : (pure a >>= f) = f a := rfl

/-- index 0 is a host function returning `"host"` -/
theorem run_string_host {funs : List FunDecl} {d0 : FunDecl} {rest : List FunDecl}
    (hp : lookupPoly funs "∀.λ string 1" = d0 :: rest)
    (href : d0.ref = .host "string" (.constStr "host")) (hlazy : d0.isLazy = false)
    (ext : Externs) (p : Pos) (col : Int) (cp bp : Pos) :
    runEval false ⟨[], funs, ext⟩ (stringTrue p col cp bp) =
      (.ok (.str "host"), [.call "string" [(Val.bool true).render]]) := by
  have hd : (stringTrue p col cp bp).depth = 2 := rfl
  unfold runEval
  rw [hd]
  have hne : ("∀.λ string 1" == "") = false := by decide
  simp only [stringTrue, eval, evalList, resolve_string hp, href, hlazy, callFun, hostStrict,
    recDbg, pure_bind', Bool.false_eq_true, if_false, ValList.toList, hne]
  rfl

/-- index 0 is the built-in `string` -/
theorem run_string_builtin {funs : List FunDecl} {d0 : FunDecl} {rest : List FunDecl}
    (hp : lookupPoly funs "∀.λ string 1" = d0 :: rest)
    (href : d0.ref = .builtin 50) (hlazy : d0.isLazy = false)
    (ext : Externs) (p : Pos) (col : Int) (cp bp : Pos) :
    runEval false ⟨[], funs, ext⟩ (stringTrue p col cp bp) =
      (.ok (.str (Val.bool true).stringify), []) := by
  have hd : (stringTrue p col cp bp).depth = 2 := rfl
  have hne : ("∀.λ string 1" == "") = false := by decide
  have hb : builtins[50]? = some ⟨.STRING_ANY, strTy, false⟩ := rfl
  have ha : applyBuiltin ext .STRING_ANY [Val.bool true] =
      .ok (.str (Val.bool true).stringify, []) := rfl
  unfold runEval
  rw [hd]
  simp only [stringTrue, eval, evalList, resolve_string hp, href, hlazy, callFun, hb,
    recDbg, pure_bind', Bool.false_eq_true, if_false, ValList.toList, hne, ha]
  rfl

/-! ### the two histories -/

/-- a polymorphic host overload of `string`: `string(a) : str`, returning `"host"` -/
def hostString : FunDecl := ⟨strTy, .host "string" (.constStr "host"), false⟩
/-- the built-in `string` as `makeSureInit` registers it -/
def builtinString : FunDecl := ⟨strTy, .builtin 50, false⟩

def src : String := "string(true)"

/-- the overload is registered BEFORE the first compilation -/
def histBefore : List Op :=
  [.registerFun hostString, .compile [] [] src, .compile [] [] src, .invoke 2 [] {}]
/-- the same four calls, the registration moved AFTER the first compilation -/
def histAfter : List Op :=
  [.compile [] [] src, .registerFun hostString, .compile [] [] src, .invoke 2 [] {}]

/-- the string an invocation returned -/
def outStr : Out → Option String
  | .result (.ok (.str s), _) => some s
  | _ => none

/-- compiling `string(true)` on an engine with the built-in operators whose table has no
monomorphic `string(bool)` and whose first polymorphic `string/1` is `d0` -/
theorem compile_string {e : Engine} (hops : e.init.ops = builtinOps) {d0 : FunDecl}
    {rest : List FunDecl} (hm : lookupMono e.init.funs "λ string (bool)" = none)
    (hp : lookupPoly e.init.funs "∀.λ string 1" = d0 :: rest) (hty : d0.ty = strTy) :
    ∃ p col cp bp, (e.compile [] [] src).2 =
      .ok ⟨[], .str, stringTrue p col cp bp, e.init.funs, e.init.backend⟩ := by
  obtain ⟨p, col, cp, bp, cty, res, idx, hf⟩ := front_elim front_string
  obtain ⟨ctr, hc⟩ := check_string hm hp hty p col cp bp cty res idx
  refine ⟨p, col, cp, bp, ?_⟩
  unfold Engine.compile
  simp only [hops, src, compileSrc_front hf, Engine.tenvOf, hc]

/-- invoking the compiled `string(true)` when index 0 of its table is the host overload -/
theorem invoke_string_host (e : Engine) {funs : List FunDecl} {d0 : FunDecl}
    {rest : List FunDecl} (hp : lookupPoly funs "∀.λ string 1" = d0 :: rest)
    (href : d0.ref = .host "string" (.constStr "host")) (hlazy : d0.isLazy = false)
    (p : Pos) (col : Int) (cp bp : Pos) :
    e.invoke ⟨[], .str, stringTrue p col cp bp, funs, .vm⟩ [] {} =
      (.ok (.str "host"), [.call "string" [(Val.bool true).render]]) := by
  unfold Engine.invoke
  simp only [Engine.tableFor, Backend.late, Backend.dbg, Bool.false_eq_true, if_false,
    run_string_host hp href hlazy]
  rfl

/-- … and when it is the built-in -/
theorem invoke_string_builtin (e : Engine) {funs : List FunDecl} {d0 : FunDecl}
    {rest : List FunDecl} (hp : lookupPoly funs "∀.λ string 1" = d0 :: rest)
    (href : d0.ref = .builtin 50) (hlazy : d0.isLazy = false)
    (p : Pos) (col : Int) (cp bp : Pos) :
    e.invoke ⟨[], .str, stringTrue p col cp bp, funs, .vm⟩ [] {} =
      (.ok (.str (Val.bool true).stringify), []) := by
  unfold Engine.invoke
  simp only [Engine.tableFor, Backend.late, Backend.dbg, Bool.false_eq_true, if_false,
    run_string_builtin hp href hlazy]
  rfl

theorem before_host : (Engine.new.run histBefore).2.map outStr = [none, none, none, some "host"] := by
  have hp : lookupPoly (Engine.new.registerFun hostString).init.funs "∀.λ string 1" =
      hostString :: [builtinString] := by rfl
  obtain ⟨p, col, cp, bp, hc⟩ :=
    compile_string (e := Engine.new.registerFun hostString) rfl (by rfl) hp rfl
  have hbk : (Engine.new.registerFun hostString).init.backend = .vm := rfl
  simp only [Engine.run, histBefore, Engine.runFrom, Engine.step, compile_fst, compile_init, hc]
  simp [Out.callable?, hbk, invoke_string_host _ hp rfl rfl, outStr]

theorem after_builtin : (Engine.new.run histAfter).2.map outStr = [none, none, none, some "true"] := by
  have hp0 : lookupPoly Engine.new.init.funs "∀.λ string 1" = builtinString :: [] := by rfl
  obtain ⟨p0, col0, cp0, bp0, hc0⟩ := compile_string (e := Engine.new) rfl (by rfl) hp0 rfl
  have hp : lookupPoly (Engine.new.init.registerFun hostString).init.funs "∀.λ string 1" =
      builtinString :: [hostString] := by rfl
  obtain ⟨p, col, cp, bp, hc⟩ :=
    compile_string (e := Engine.new.init.registerFun hostString) rfl (by rfl) hp rfl
  have hbk : (Engine.new.init.registerFun hostString).init.backend = .vm := rfl
  have hs : (Val.bool true).stringify = "true" := by decide
  simp only [Engine.run, histAfter, Engine.runFrom, Engine.step, compile_fst, hc0, hc]
  simp [Out.callable?, hbk, invoke_string_builtin _ hp rfl rfl, outStr, hs]

/-- the two histories consist of the same calls -/
theorem same_calls : histBefore.Perm histAfter := List.Perm.swap _ _ _

/-! ### a monomorphic key registered again after a compilation: `!true` -/

def notTy : Ty := .fn "!" (.cons .bool .nil) .bool

/-- the checked `!true` -/
def notTrue (p : Pos) (col : Int) (cp bp : Pos) : Expr :=
  .call p col (.ident cp "!") (.cons (.bool bp true) .nil) (some notTy) "λ ! (bool)" (-1)

theorem check_not {funs : List FunDecl} {d : FunDecl}
    (hm : lookupMono funs "λ ! (bool)" = some d) (hty : d.ty = notTy)
    (p : Pos) (col : Int) (cp bp : Pos) (cty : Option Ty) (res : String) (idx : Int) :
    ∃ ctr, check ⟨[], funs, reservedWords⟩ 0
        (.call p col (.ident cp "!") (.cons (.bool bp true) .nil) cty res idx) =
      .ok (.bool, notTrue p col cp bp, ctr) := by
  have hk1 : (overloadKey "!" (.cons .bool .nil) .bot).1 = "λ ! (bool)" := by decide +kernel
  simp only [check, checkArgs, pure_bind, resolveOverloadedFun, hk1, hm, hty, notTy]
  exact ⟨_, rfl⟩

theorem compile_not {e : Engine} (hops : e.init.ops = builtinOps) {d : FunDecl}
    (hm : lookupMono e.init.funs "λ ! (bool)" = some d) (hty : d.ty = notTy) :
    ∃ p col cp bp, (e.compile [] [] "!true").2 =
      .ok ⟨[], .bool, notTrue p col cp bp, e.init.funs, e.init.backend⟩ := by
  obtain ⟨p, col, cp, bp, cty, res, idx, hf⟩ := front_elim front_not
  obtain ⟨ctr, hc⟩ := check_not hm hty p col cp bp cty res idx
  refine ⟨p, col, cp, bp, ?_⟩
  unfold Engine.compile
  simp only [hops, compileSrc_front hf, Engine.tenvOf, hc]

theorem resolve_not {funs : List FunDecl} {d : FunDecl}
    (hm : lookupMono funs "λ ! (bool)" = some d) :
    resolveStatic funs "λ ! (bool)" (-1) = some d := by
  simp [resolveStatic, hm]

/-- `"λ ! (bool)"` is the built-in `!` -/
theorem run_not_builtin {funs : List FunDecl} {d : FunDecl}
    (hm : lookupMono funs "λ ! (bool)" = some d)
    (href : d.ref = .builtin 31) (hlazy : d.isLazy = false)
    (ext : Externs) (p : Pos) (col : Int) (cp bp : Pos) :
    runEval false ⟨[], funs, ext⟩ (notTrue p col cp bp) = (.ok (.bool false), []) := by
  have hd : (notTrue p col cp bp).depth = 2 := rfl
  have hne : ("λ ! (bool)" == "") = false := by decide
  have hb : builtins[31]? = some ⟨.LOGIC_NOT_BOOL, notTy, false⟩ := rfl
  have ha : applyBuiltin ext .LOGIC_NOT_BOOL [Val.bool true] = .ok (.bool false, []) := rfl
  unfold runEval
  rw [hd]
  simp only [notTrue, eval, evalList, resolve_not hm, href, hlazy, callFun, hb,
    recDbg, pure_bind', Bool.false_eq_true, if_false, ValList.toList, hne, ha]
  rfl

/-- `"λ ! (bool)"` is a host function returning `true` -/
theorem run_not_host {funs : List FunDecl} {d : FunDecl}
    (hm : lookupMono funs "λ ! (bool)" = some d)
    (href : d.ref = .host "!" (.constBool true)) (hlazy : d.isLazy = false)
    (ext : Externs) (p : Pos) (col : Int) (cp bp : Pos) :
    runEval false ⟨[], funs, ext⟩ (notTrue p col cp bp) =
      (.ok (.bool true), [.call "!" [(Val.bool true).render]]) := by
  have hd : (notTrue p col cp bp).depth = 2 := rfl
  have hne : ("λ ! (bool)" == "") = false := by decide
  unfold runEval
  rw [hd]
  simp only [notTrue, eval, evalList, resolve_not hm, href, hlazy, callFun, hostStrict,
    recDbg, pure_bind', Bool.false_eq_true, if_false, ValList.toList, hne]
  rfl

/-- a monomorphic host function with the key of the built-in `!`: `!(bool) : bool`, returning
`true` -/
def hostNot : FunDecl := ⟨notTy, .host "!" (.constBool true), false⟩
def builtinNot : FunDecl := ⟨notTy, .builtin 31, false⟩

/-- choose the compiler, compile `!true`, register `!` again, invoke -/
def histLate (b : Backend) : List Op :=
  [.useCompiler b, .compile [] [] "!true", .registerFun hostNot, .invoke 1 [] {}]

def outBool : Out → Option Bool
  | .result (.ok (.bool b), _) => some b
  | _ => none

/-- `vm.Compile` (also `closure.Compile`): the Callable keeps the function it was compiled
with -/
theorem late_vm : (Engine.new.run (histLate .vm)).2.map outBool = [none, none, none, some false] := by
  have hm : lookupMono (Engine.new.useCompiler .vm).init.funs "λ ! (bool)" = some builtinNot := by
    rfl
  obtain ⟨p, col, cp, bp, hc⟩ := compile_not (e := Engine.new.useCompiler .vm) rfl hm rfl
  have hbk : (Engine.new.useCompiler .vm).init.backend = .vm := rfl
  simp only [Engine.run, histLate, Engine.runFrom, Engine.step, compile_fst, hc]
  simp only [List.nil_append, List.cons_append, List.getElem?_cons_succ, List.getElem?_cons_zero,
    Out.callable?, hbk, Engine.invoke, Engine.tableFor, Backend.late, Backend.dbg,
    Bool.false_eq_true, if_false, run_not_builtin hm rfl rfl]
  rfl

/-- `interp.Interp`: the Callable runs the function registered under the key when it is
invoked -/
theorem late_interp :
    (Engine.new.run (histLate .interp)).2.map outBool = [none, none, none, some true] := by
  have hm : lookupMono (Engine.new.useCompiler .interp).init.funs "λ ! (bool)" =
      some builtinNot := by rfl
  obtain ⟨p, col, cp, bp, hc⟩ := compile_not (e := Engine.new.useCompiler .interp) rfl hm rfl
  have hbk : (Engine.new.useCompiler .interp).init.backend = .interp := rfl
  have hm' : lookupMono ((Engine.new.useCompiler .interp).init.registerFun hostNot).funs
      "λ ! (bool)" = some hostNot := by rfl
  simp only [Engine.run, histLate, Engine.runFrom, Engine.step, compile_fst, hc]
  simp only [List.nil_append, List.cons_append, List.getElem?_cons_succ, List.getElem?_cons_zero,
    Out.callable?, hbk, Engine.invoke, Engine.tableFor, Backend.late, Backend.dbg,
    if_true, run_not_host hm' rfl rfl]
  rfl

/-! ### the registration order of a MONOMORPHIC function -/

def histMonoBefore : List Op :=
  [.registerFun hostNot, .compile [] [] "!true", .compile [] [] "!true", .invoke 2 [] {}]
def histMonoAfter : List Op :=
  [.compile [] [] "!true", .registerFun hostNot, .compile [] [] "!true", .invoke 2 [] {}]

/-- registered before the first compilation, the host `!` is REPLACED by the built-in -/
theorem mono_before :
    (Engine.new.run histMonoBefore).2.map outBool = [none, none, none, some false] := by
  have hm : lookupMono (Engine.new.registerFun hostNot).init.funs "λ ! (bool)" =
      some builtinNot := by rfl
  obtain ⟨p, col, cp, bp, hc⟩ := compile_not (e := Engine.new.registerFun hostNot) rfl hm rfl
  have hbk : (Engine.new.registerFun hostNot).init.backend = .vm := rfl
  simp only [Engine.run, histMonoBefore, Engine.runFrom, Engine.step, compile_fst, compile_init, hc]
  simp only [List.nil_append, List.cons_append, List.getElem?_cons_succ, List.getElem?_cons_zero,
    Out.callable?, hbk, Engine.invoke, Engine.tableFor, Backend.late, Backend.dbg,
    Bool.false_eq_true, if_false, run_not_builtin hm rfl rfl]
  rfl

/-- registered after it, the host `!` replaces the built-in -/
theorem mono_after :
    (Engine.new.run histMonoAfter).2.map outBool = [none, none, none, some true] := by
  have hm0 : lookupMono Engine.new.init.funs "λ ! (bool)" = some builtinNot := by rfl
  obtain ⟨p0, col0, cp0, bp0, hc0⟩ := compile_not (e := Engine.new) rfl hm0 rfl
  have hm : lookupMono (Engine.new.init.registerFun hostNot).init.funs "λ ! (bool)" =
      some hostNot := by rfl
  obtain ⟨p, col, cp, bp, hc⟩ := compile_not (e := Engine.new.init.registerFun hostNot) rfl hm rfl
  have hbk : (Engine.new.init.registerFun hostNot).init.backend = .vm := rfl
  simp only [Engine.run, histMonoAfter, Engine.runFrom, Engine.step, compile_fst, hc0, hc]
  simp only [List.nil_append, List.cons_append, List.getElem?_cons_succ, List.getElem?_cons_zero,
    Out.callable?, hbk, Engine.invoke, Engine.tableFor, Backend.late, Backend.dbg,
    Bool.false_eq_true, if_false, run_not_host hm rfl rfl]
  rfl

/-! ### `print(true)` -/

def printTy : Ty := .fn "print" (.cons (.var "a") .nil) (.var "a")
def builtinPrint : FunDecl := ⟨printTy, .builtin 48, false⟩

theorem inferred_print (ctr : Nat) :
    inferFun ctr "print" (.cons (.var "a") .nil) (.var "a") (.cons .bool .nil) =
      .ok (.cons .bool .nil, .bool) := by
  rw [PolyOK.sigOK_inferFun (by decide) (by decide)]
  rfl

/-- the checked `print(true)` -/
def printTrue (p : Pos) (col : Int) (cp bp : Pos) : Expr :=
  .call p col (.ident cp "print") (.cons (.bool bp true) .nil)
    (some (.fn "print" (.cons .bool .nil) .bool)) "∀.λ print 1" 0

set_option maxRecDepth 100000 in
theorem front_print : (front builtinOps [] "print(true)").map (isCallTrue "print") = some true := by
  decide +kernel

theorem check_print {funs : List FunDecl} {d0 : FunDecl} {rest : List FunDecl}
    (hm : lookupMono funs "λ print (bool)" = none)
    (hp : lookupPoly funs "∀.λ print 1" = d0 :: rest) (hty : d0.ty = printTy)
    (p : Pos) (col : Int) (cp bp : Pos) (cty : Option Ty) (res : String) (idx : Int) :
    ∃ ctr, check ⟨[], funs, reservedWords⟩ 0
        (.call p col (.ident cp "print") (.cons (.bool bp true) .nil) cty res idx) =
      .ok (.bool, printTrue p col cp bp, ctr) := by
  have hk1 : (overloadKey "print" (.cons .bool .nil) .bot).1 = "λ print (bool)" := by
    decide +kernel
  have hk2 : "∀.λ " ++ "print" ++ " " ++ toString (TyList.cons Ty.bool .nil).length =
      "∀.λ print 1" := by decide +kernel
  simp only [check, checkArgs, pure_bind, resolveOverloadedFun, hk1, hm, hk2, hp, List.isEmpty_cons,
    Bool.false_eq_true, if_false, tryPoly, hty, printTy, inferred_print, liftU]
  exact ⟨_, rfl⟩

theorem compile_print :
    ∃ p col cp bp, (Engine.new.compile [] [] "print(true)").2 =
      .ok ⟨[], .bool, printTrue p col cp bp, builtinDecls, .vm⟩ := by
  obtain ⟨p, col, cp, bp, cty, res, idx, hf⟩ := front_elim front_print
  have hp : lookupPoly Engine.new.init.funs "∀.λ print 1" = builtinPrint :: [] := by rfl
  obtain ⟨ctr, hc⟩ := check_print (by rfl) hp rfl p col cp bp cty res idx
  refine ⟨p, col, cp, bp, ?_⟩
  unfold Engine.compile
  have hops : Engine.new.init.ops = builtinOps := rfl
  simp only [hops, compileSrc_front hf, Engine.tenvOf, hc]
  rfl

/-- `print(true)` returns `true` and writes its rendering, once -/
theorem run_print (ext : Externs) (p : Pos) (col : Int) (cp bp : Pos) :
    runEval false ⟨[], builtinDecls, ext⟩ (printTrue p col cp bp) =
      (.ok (.bool true), [.print (Val.bool true).render]) := by
  have hd : (printTrue p col cp bp).depth = 2 := rfl
  have hne : ("∀.λ print 1" == "") = false := by decide
  have hr : resolveStatic builtinDecls "∀.λ print 1" 0 = some builtinPrint := by rfl
  have hb : builtins[48]? = some ⟨.PRINT_ANY, printTy, false⟩ := rfl
  have ha : applyBuiltin ext .PRINT_ANY [Val.bool true] =
      .ok (.bool true, [.print (Val.bool true).render]) := rfl
  unfold runEval
  rw [hd]
  simp only [printTrue, eval, evalList, hr, builtinPrint, callFun, hb,
    recDbg, pure_bind', Bool.false_eq_true, if_false, ValList.toList, hne, ha]
  rfl

/-! ### a three-step history on a new engine -/

/-- compile `!true`, invoke the Callable, invoke it again -/
def histThree : List Op := [.compile [] [] "!true", .invoke 0 [] {}, .invoke 0 [] {}]

theorem three_steps :
    (Engine.new.run histThree).1 = Engine.new.init ∧
    (Engine.new.run histThree).2.map outBool = [none, some false, some false] := by
  have hm0 : lookupMono Engine.new.init.funs "λ ! (bool)" = some builtinNot := by rfl
  obtain ⟨p0, col0, cp0, bp0, hc0⟩ := compile_not (e := Engine.new) rfl hm0 rfl
  have hbk : Engine.new.init.backend = .vm := rfl
  simp only [Engine.run, histThree, Engine.runFrom, Engine.step, compile_fst, hc0]
  simp only [List.nil_append, List.cons_append, List.getElem?_cons_zero,
    Out.callable?, hbk, Engine.invoke, Engine.tableFor, Backend.late, Backend.dbg,
    Bool.false_eq_true, if_false, run_not_builtin hm0 rfl rfl]
  exact ⟨trivial, rfl⟩

end Yae.EngineWitness
