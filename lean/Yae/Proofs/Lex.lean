/-
  Lemmas about the lexer loop (`Yae.lexLoop`, `Yae.lex`) for C09 / C12:
  the layout invariant (tokens partition the input up to white space, positions are the
  `Pos.move` cursor), progress (every successful round consumes a rune) and fuel.
-/
import Yae.Model.Lexer
namespace Yae

/-- decidable equality of results, for the kernel-checked instances (`by decide`) -/
instance exceptDecEq {ε α : Type} [DecidableEq ε] [DecidableEq α] : DecidableEq (Except ε α)
  | .ok a, .ok b =>
    if h : a = b then isTrue (by rw [h]) else isFalse (by intro h'; cases h'; exact h rfl)
  | .error a, .error b =>
    if h : a = b then isTrue (by rw [h]) else isFalse (by intro h'; cases h'; exact h rfl)
  | .ok _, .error _ => isFalse (by intro h; cases h)
  | .error _, .ok _ => isFalse (by intro h; cases h)

/-! ## the cursor -/

/-- The cursor after moving over a run of characters (`(*Pos).Move` iterated). -/
def Pos.moves (p : Pos) (cs : List Char) : Pos := cs.foldl Pos.move p

@[simp] theorem Pos.moves_nil (p : Pos) : p.moves [] = p := rfl
@[simp] theorem Pos.moves_cons (p : Pos) (c : Char) (cs : List Char) :
    p.moves (c :: cs) = (p.move c).moves cs := rfl
theorem Pos.moves_append (p : Pos) (a b : List Char) :
    p.moves (a ++ b) = (p.moves a).moves b := by simp [Pos.moves, List.foldl_append]

theorem Pos.move_idx (p : Pos) (c : Char) : (p.move c).idx = p.idx + 1 := by
  unfold Pos.move; split <;> rfl
theorem Pos.move_idxEnd (p : Pos) (c : Char) : (p.move c).idxEnd = p.idxEnd := by
  unfold Pos.move; split <;> rfl

theorem Pos.moves_idx (p : Pos) (cs : List Char) : (p.moves cs).idx = p.idx + cs.length := by
  induction cs generalizing p with
  | nil => simp
  | cons c cs ih => simp [ih, Pos.move_idx]; omega

theorem Pos.moves_idxEnd (p : Pos) (cs : List Char) : (p.moves cs).idxEnd = p.idxEnd := by
  induction cs generalizing p with
  | nil => simp
  | cons c cs ih => simp [ih, Pos.move_idxEnd]

/-- Line of the cursor: lines are counted by `'\n'`. -/
theorem Pos.moves_line (p : Pos) (cs : List Char) :
    (p.moves cs).line = p.line + cs.count '\n' := by
  induction cs generalizing p with
  | nil => simp
  | cons c cs ih =>
    simp only [Pos.moves_cons, ih, List.count_cons]
    unfold Pos.move
    by_cases h : c = '\n'
    · subst h; simp; omega
    · have : (c == '\n') = false := by simpa using h
      simp [h, this]

/-- Number of characters after the last `'\n'` (all of them when there is none). -/
def colOf (cs : List Char) : Nat := (cs.reverse.takeWhile (· ≠ '\n')).length

theorem Pos.moves_col_rev (p : Pos) (rs : List Char) :
    (p.moves rs.reverse).col
      = if '\n' ∈ rs then ((rs.takeWhile (· ≠ '\n')).length : Int) else p.col + rs.length := by
  induction rs with
  | nil => simp
  | cons c rs ih =>
    rw [List.reverse_cons, Pos.moves_append]
    simp only [Pos.moves_cons, Pos.moves_nil]
    by_cases h : c = '\n'
    · subst h; simp [Pos.move]
    · have hne : ¬ ('\n' = c) := fun h' => h h'.symm
      simp only [Pos.move, h, if_false, ih, List.mem_cons, hne, false_or]
      split
      · simp [h]
      · simp; omega

/-- Column of the cursor: characters since the last newline; without a newline the start column
is carried. -/
theorem Pos.moves_col (p : Pos) (cs : List Char) :
    (p.moves cs).col = if '\n' ∈ cs then (colOf cs : Int) else p.col + cs.length := by
  have := Pos.moves_col_rev p cs.reverse
  simpa [colOf] using this

/-- The position recorded in a token whose text `lexeme` starts at cursor `p`. -/
def tokPos (p : Pos) (lexeme : List Char) : Pos := { p with idxEnd := (p.moves lexeme).idx }

/-! ## `skipSpace` -/

theorem skipSpace_spec (cs : List Char) (p : Pos) :
    ∃ ws, cs = ws ++ (skipSpace cs p).1 ∧ (∀ c ∈ ws, isSpace c = true) ∧
      (skipSpace cs p).2 = p.moves ws ∧
      (∀ c r, (skipSpace cs p).1 = c :: r → isSpace c = false) := by
  induction cs generalizing p with
  | nil => exact ⟨[], by simp [skipSpace]⟩
  | cons c cs ih =>
    by_cases h : isSpace c = true
    · obtain ⟨ws, h1, h2, h3, h4⟩ := ih (p.move c)
      refine ⟨c :: ws, ?_, ?_, ?_, ?_⟩
      · simp only [skipSpace, h, if_true, List.cons_append]; rw [← h1]
      · intro x hx; cases hx with
        | head => exact h
        | tail _ hx => exact h2 x hx
      · simp only [skipSpace, h, if_true, Pos.moves_cons]; exact h3
      · simp only [skipSpace, h, if_true]; exact h4
    · refine ⟨[], ?_, ?_, ?_, ?_⟩
      · simp [skipSpace, h]
      · simp
      · simp [skipSpace, h]
      · intro x r hx
        simp only [skipSpace, h] at hx
        simp at hx
        simpa [← hx.1] using h

theorem skipSpace_length (cs : List Char) (p : Pos) : (skipSpace cs p).1.length ≤ cs.length := by
  obtain ⟨ws, h1, -⟩ := skipSpace_spec cs p
  have := congrArg List.length h1
  simp at this; omega

theorem skipSpace_of_nonspace {c : Char} (r : List Char) (p : Pos) (h : isSpace c = false) :
    skipSpace (c :: r) p = (c :: r, p) := by simp [skipSpace, h]

/-! ## `firstMatch` -/

theorem firstMatch_spec {rules : List Rule} {s : List Char} {k : String} {n : Nat}
    (h : firstMatch rules s = some (k, n)) :
    ∃ pre r post, rules = pre ++ r :: post ∧ r.kind = k ∧ r.m.run s = some n ∧
      ∀ r' ∈ pre, r'.m.run s = none := by
  induction rules with
  | nil => simp [firstMatch] at h
  | cons r rs ih =>
    simp only [firstMatch] at h
    split at h
    · rename_i m hm
      simp at h
      exact ⟨[], r, rs, rfl, h.1, by rw [hm, h.2], by simp⟩
    · rename_i hm
      obtain ⟨pre, r0, post, e, hk, hr, hp⟩ := ih h
      refine ⟨r :: pre, r0, post, by simp [e], hk, hr, ?_⟩
      intro r' hr'
      cases hr' with
      | head => exact hm
      | tail _ hr' => exact hp r' hr'

theorem firstMatch_none {rules : List Rule} {s : List Char} (h : firstMatch rules s = none) :
    ∀ r ∈ rules, r.m.run s = none := by
  induction rules with
  | nil => simp
  | cons r rs ih =>
    simp only [firstMatch] at h
    split at h
    · simp at h
    · rename_i hm
      intro r' hr'
      cases hr' with
      | head => exact hm
      | tail _ hr' => exact ih h r' hr'

/-! ## the layout invariant -/

/-- `Lexed rules p cs ts`: starting with cursor `p` in front of `cs`, the tokens `ts` are laid
out in `cs` from left to right; before each token and after the last one there is a (possibly
empty) run of white space; each token's lexeme is a non-empty piece of the input that starts with
a non-space character, it is what the first matching rule of `rules` matched at that place
(`firstMatch`, on the whole remaining input), and its recorded position is the cursor reached by
`Pos.move` over everything before it, with `idxEnd` the cursor index after it. -/
inductive Lexed (rules : List Rule) : Pos → List Char → List Token → Prop
  | done {p : Pos} {ws : List Char} : (∀ c ∈ ws, isSpace c = true) → Lexed rules p ws []
  | tok {p : Pos} {ws : List Char} {t : Token} {ts : List Token} {rest : List Char} {n : Nat} :
      (∀ c ∈ ws, isSpace c = true) →
      t.lexeme.toList ≠ [] →
      (∀ c r, t.lexeme.toList = c :: r → isSpace c = false) →
      firstMatch rules (t.lexeme.toList ++ rest) = some (t.kind, n) →
      t.lexeme.toList = (t.lexeme.toList ++ rest).take n →
      t.pos = tokPos (p.moves ws) t.lexeme.toList →
      Lexed rules ((p.moves ws).moves t.lexeme.toList) rest ts →
      Lexed rules p (ws ++ t.lexeme.toList ++ rest) (t :: ts)

theorem Lexed.tok' {rules : List Rule} {p : Pos} {ws : List Char} {kind : String}
    {lexeme rest : List Char} {n : Nat} {ts : List Token} {pos : Pos}
    (hws : ∀ c ∈ ws, isSpace c = true) (hne : lexeme ≠ [])
    (hhead : ∀ c r, lexeme = c :: r → isSpace c = false)
    (hfm : firstMatch rules (lexeme ++ rest) = some (kind, n))
    (htake : lexeme = (lexeme ++ rest).take n)
    (hpos : pos = tokPos (p.moves ws) lexeme)
    (hrest : Lexed rules ((p.moves ws).moves lexeme) rest ts) :
    Lexed rules p (ws ++ lexeme ++ rest) (⟨kind, String.ofList lexeme, pos⟩ :: ts) := by
  have h := Lexed.tok (rules := rules) (p := p) (ws := ws)
    (t := ⟨kind, String.ofList lexeme, pos⟩) (ts := ts) (rest := rest) (n := n) hws
  simp only [String.toList_ofList] at h
  exact h hne hhead hfm htake hpos hrest

/-- A rule that matches the empty string at a non-space character makes the loop spin: the
model runs out of fuel (Go loops for ever).  Hence no successful run contains an empty token. -/
theorem lexLoop_stuck {rules : List Rule} {c : Char} {r : List Char} {k : String}
    (hc : isSpace c = false) (hm : firstMatch rules (c :: r) = some (k, 0)) (fuel : Nat) (p : Pos) :
    lexLoop rules fuel (c :: r) p = .error .fuel := by
  induction fuel with
  | zero => rfl
  | succ f ih =>
    simp only [lexLoop, skipSpace_of_nonspace r p hc, hm, List.take_zero, List.drop_zero,
      List.foldl_nil, ih]

theorem lexLoop_lexed {rules : List Rule} {fuel : Nat} {cs : List Char} {p : Pos}
    {ts : List Token} (h : lexLoop rules fuel cs p = .ok ts) : Lexed rules p cs ts := by
  induction fuel generalizing cs p ts with
  | zero => simp [lexLoop] at h
  | succ f ih =>
    obtain ⟨ws, h1, h2, h3, h4⟩ := skipSpace_spec cs p
    simp only [lexLoop] at h
    generalize hsk : skipSpace cs p = sk at h h1 h3 h4
    obtain ⟨cs1, p1⟩ := sk
    simp only at h1 h3 h4
    cases cs1 with
    | nil =>
      simp at h
      subst h
      rw [h1]; simp
      exact Lexed.done h2
    | cons c r =>
      have hc : isSpace c = false := h4 c r rfl
      simp only at h
      cases hfm : firstMatch rules (c :: r) with
      | none => simp [hfm] at h
      | some kn =>
        obtain ⟨kind, n⟩ := kn
        simp only [hfm] at h
        by_cases hn : n = 0
        · subst hn
          simp only [List.take_zero, List.drop_zero, List.foldl_nil] at h
          rw [lexLoop_stuck hc hfm f p1] at h
          simp at h
        · have htd : List.take n (c :: r) ++ List.drop n (c :: r) = c :: r :=
            List.take_append_drop _ _
          have hne : List.take n (c :: r) ≠ [] := by
            cases n with
            | zero => exact absurd rfl hn
            | succ n => simp
          have hhead : ∀ c' r', List.take n (c :: r) = c' :: r' → isSpace c' = false := by
            intro c' r' hc'
            cases n with
            | zero => exact absurd rfl hn
            | succ n => simp at hc'; rw [← hc'.1]; exact hc
          generalize hm : List.take n (c :: r) = matched at h htd hne hhead
          generalize List.drop n (c :: r) = rest at h htd
          cases hrec : lexLoop rules f rest (List.foldl Pos.move p1 matched) with
          | error e => rw [hrec] at h; simp at h
          | ok ts' =>
            rw [hrec] at h
            simp only [Except.ok.injEq] at h
            subst h
            have ih' := ih hrec
            have hsplit : cs = ws ++ matched ++ rest := by
              rw [List.append_assoc, htd]; exact h1
            rw [hsplit]
            subst h3
            exact Lexed.tok' (n := n) h2 hne hhead (by rw [htd]; exact hfm)
              (by rw [htd]; exact hm.symm) (by simp [tokPos, Pos.moves]) ih'

theorem lex_lexed {ops : List Operator} {s : List Char} {ts : List Token}
    (h : lex ops s = .ok ts) : Lexed (newLexicon ops) Pos.zero s ts := lexLoop_lexed h

/-! ## consequences of the layout invariant -/

/-- What is known about one token of a run: where it sits and which match produced it. -/
theorem Lexed.tokAt {rules : List Rule} {p : Pos} {cs : List Char} {ts : List Token}
    (h : Lexed rules p cs ts) {t : Token} (ht : t ∈ ts) :
    ∃ pre post n, cs = pre ++ t.lexeme.toList ++ post ∧ t.lexeme.toList ≠ [] ∧
      (∀ c r, t.lexeme.toList = c :: r → isSpace c = false) ∧
      t.pos = tokPos (p.moves pre) t.lexeme.toList ∧
      firstMatch rules (t.lexeme.toList ++ post) = some (t.kind, n) ∧
      t.lexeme.toList = (t.lexeme.toList ++ post).take n := by
  induction h with
  | done _ => cases ht
  | @tok p ws t0 ts rest n hws hne hhead hfm htake hpos _ ih =>
    cases ht with
    | head => exact ⟨ws, rest, n, rfl, hne, hhead, hpos, hfm, htake⟩
    | tail _ ht =>
      obtain ⟨pre, post, m, e, h1, h2, h3, h4, h5⟩ := ih ht
      refine ⟨ws ++ t0.lexeme.toList ++ pre, post, m, ?_, h1, h2, ?_, h4, h5⟩
      · rw [e]; simp [List.append_assoc]
      · rw [h3, Pos.moves_append, Pos.moves_append]

/-- The gaps: `cs` is the tokens' lexemes in order, each preceded by a run of white space, followed
by a final run of white space. -/
theorem Lexed.partition {rules : List Rule} {p : Pos} {cs : List Char} {ts : List Token}
    (h : Lexed rules p cs ts) :
    ∃ (gaps : List (List Char)) (last : List Char), gaps.length = ts.length ∧
      (∀ w ∈ gaps, ∀ c ∈ w, isSpace c = true) ∧ (∀ c ∈ last, isSpace c = true) ∧
      cs = (List.zipWith (fun w (t : Token) => w ++ t.lexeme.toList) gaps ts).flatten ++ last := by
  induction h with
  | @done p ws hws => exact ⟨[], ws, rfl, by simp, hws, by simp⟩
  | @tok p ws t0 ts rest n hws hne hhead hfm htake hpos _ ih =>
    obtain ⟨gaps, last, hl, hg, hlast, e⟩ := ih
    refine ⟨ws :: gaps, last, by simp [hl], ?_, hlast, ?_⟩
    · intro w hw
      cases hw with
      | head => exact hws
      | tail _ hw => exact hg w hw
    · rw [e]; simp [List.append_assoc]

/-- Index bounds: every token lies between the cursor and the end of the input, is non-empty,
and the tokens are in source order without overlap. -/
theorem Lexed.bounds {rules : List Rule} {p : Pos} {cs : List Char} {ts : List Token}
    (h : Lexed rules p cs ts) :
    (∀ t ∈ ts, p.idx ≤ t.pos.idx ∧ t.pos.idx < t.pos.idxEnd ∧ t.pos.idxEnd ≤ p.idx + cs.length ∧
      t.pos.idxEnd = t.pos.idx + t.lexeme.toList.length) ∧
    ts.Pairwise (fun a b => a.pos.idxEnd ≤ b.pos.idx) := by
  induction h with
  | done _ => simp
  | @tok p ws t0 ts rest n hws hne hhead hfm htake hpos _ ih =>
    have hlen : 0 < t0.lexeme.toList.length := List.length_pos_iff.mpr hne
    have h0 : t0.pos.idx = p.idx + ws.length := by rw [hpos]; simp [tokPos, Pos.moves_idx]
    have h1 : t0.pos.idxEnd = p.idx + ws.length + t0.lexeme.toList.length := by
      rw [hpos]; simp [tokPos, Pos.moves_idx]
    constructor
    · intro t ht
      cases ht with
      | head =>
        simp only [List.length_append]
        refine ⟨by omega, by omega, by omega, by omega⟩
      | tail _ ht =>
        have := ih.1 t ht
        simp only [Pos.moves_idx, List.length_append] at this ⊢
        omega
    · refine List.pairwise_cons.mpr ⟨?_, ih.2⟩
      intro t ht
      have := ih.1 t ht
      simp only [Pos.moves_idx] at this
      omega

theorem Lexed.length_le {rules : List Rule} {p : Pos} {cs : List Char} {ts : List Token}
    (h : Lexed rules p cs ts) : ts.length ≤ cs.length := by
  induction h with
  | done _ => simp
  | @tok p ws t0 ts rest n hws hne hhead hfm htake hpos _ ih =>
    have hlen : 0 < t0.lexeme.toList.length := List.length_pos_iff.mpr hne
    simp only [List.length_append, List.length_cons]; omega

theorem takeWhile_all {α : Type} (q : α → Bool) (l : List α) (h : ∀ a ∈ l, q a = true) :
    l.takeWhile q = l := by
  induction l with
  | nil => rfl
  | cons a l ih =>
    simp only [List.takeWhile_cons, h a (by simp), if_true]
    rw [ih (fun b hb => h b (by simp [hb]))]

/-- From the zero cursor the recorded position is: number of runes before the token, that plus
the token's length, runes since the last newline, number of newlines. -/
theorem tokPos_zero (pre lexeme : List Char) :
    tokPos (Pos.zero.moves pre) lexeme
      = ⟨pre.length, pre.length + lexeme.length, colOf pre, pre.count '\n'⟩ := by
  have hi := Pos.moves_idx Pos.zero pre
  have hl := Pos.moves_line Pos.zero pre
  have hc := Pos.moves_col Pos.zero pre
  have hcol : (Pos.zero.moves pre).col = (colOf pre : Int) := by
    rw [hc]; split
    · rfl
    · rename_i hn
      have : colOf pre = pre.length := by
        unfold colOf
        rw [takeWhile_all]
        · simp
        · intro c hc'; simp at hc'; simp; intro h; exact hn (h ▸ hc')
      simp [this, Pos.zero]
  simp only [tokPos, Pos.moves_idx]
  rw [show (Pos.zero.moves pre) = ⟨(Pos.zero.moves pre).idx, (Pos.zero.moves pre).idxEnd,
    (Pos.zero.moves pre).col, (Pos.zero.moves pre).line⟩ from rfl]
  simp only [hl, hcol]
  simp [Pos.zero]

/-! ## fuel -/

/-- Every match of every rule consumes at least one rune. -/
def RulesProgress (rules : List Rule) : Prop :=
  ∀ r ∈ rules, ∀ s n, r.m.run s = some n → 0 < n

theorem firstMatch_pos {rules : List Rule} (hp : RulesProgress rules) {s : List Char} {k : String}
    {n : Nat} (h : firstMatch rules s = some (k, n)) : 0 < n := by
  obtain ⟨pre, r, post, e, _, hr, _⟩ := firstMatch_spec h
  exact hp r (by rw [e]; simp) s n hr

theorem lexLoop_no_fuel {rules : List Rule} (hp : RulesProgress rules) (fuel : Nat)
    (cs : List Char) (p : Pos) (hf : cs.length < fuel) : lexLoop rules fuel cs p ≠ .error .fuel := by
  induction fuel generalizing cs p with
  | zero => omega
  | succ f ih =>
    simp only [lexLoop]
    have hlen := skipSpace_length cs p
    generalize skipSpace cs p = sk at hlen
    obtain ⟨cs1, p1⟩ := sk
    cases cs1 with
    | nil => simp
    | cons c r =>
      simp only
      cases hfm : firstMatch rules (c :: r) with
      | none => simp
      | some kn =>
        obtain ⟨kind, n⟩ := kn
        have hn := firstMatch_pos hp hfm
        simp only
        have hd : (List.drop n (c :: r)).length < f := by
          simp only [List.length_drop, List.length_cons] at hlen ⊢; omega
        have := ih (List.drop n (c :: r)) (List.foldl Pos.move p1 (List.take n (c :: r))) hd
        generalize lexLoop rules f (List.drop n (c :: r))
          (List.foldl Pos.move p1 (List.take n (c :: r))) = res at this
        cases res with
        | ok ts => simp
        | error e => simpa using this

/-- Once the fuel suffices, more fuel changes nothing. -/
theorem lexLoop_fuel_mono {rules : List Rule} {f : Nat} {cs : List Char} {p : Pos}
    {r : Except LexErr (List Token)} (h : lexLoop rules f cs p = r) (hr : r ≠ .error .fuel)
    {f' : Nat} (hf : f ≤ f') : lexLoop rules f' cs p = r := by
  induction f generalizing cs p r f' with
  | zero => simp [lexLoop] at h; exact absurd h.symm hr
  | succ f ih =>
    obtain ⟨f', rfl⟩ : ∃ g, f' = g + 1 := ⟨f' - 1, by omega⟩
    simp only [lexLoop] at h ⊢
    generalize skipSpace cs p = sk at h ⊢
    obtain ⟨cs1, p1⟩ := sk
    cases cs1 with
    | nil => exact h
    | cons c r' =>
      simp only at h ⊢
      cases hfm : firstMatch rules (c :: r') with
      | none => simp only [hfm] at h ⊢; exact h
      | some kn =>
        obtain ⟨kind, n⟩ := kn
        simp only [hfm] at h ⊢
        cases hrec : lexLoop rules f (List.drop n (c :: r'))
            (List.foldl Pos.move p1 (List.take n (c :: r'))) with
        | ok ts =>
          rw [ih hrec (by simp) (by omega)]
          rw [hrec] at h; exact h
        | error e =>
          rw [hrec] at h
          simp only at h
          have he : e ≠ .fuel := by intro he; subst he; exact hr h.symm
          rw [ih hrec (by simpa using he) (by omega)]
          exact h

/-- The fuel actually needed for a successful run is the number of rounds: one per token plus
the final round that finds the end of the input. -/
theorem lexLoop_fuel_exact {rules : List Rule} {f : Nat} {cs : List Char} {p : Pos}
    {ts : List Token} (h : lexLoop rules f cs p = .ok ts) :
    lexLoop rules (ts.length + 1) cs p = .ok ts := by
  induction f generalizing cs p ts with
  | zero => simp [lexLoop] at h
  | succ f ih =>
    simp only [lexLoop] at h ⊢
    generalize skipSpace cs p = sk at h ⊢
    obtain ⟨cs1, p1⟩ := sk
    cases cs1 with
    | nil => simp at h; subst h; rfl
    | cons c r' =>
      simp only at h ⊢
      cases hfm : firstMatch rules (c :: r') with
      | none => simp [hfm] at h
      | some kn =>
        obtain ⟨kind, n⟩ := kn
        simp only [hfm] at h ⊢
        cases hrec : lexLoop rules f (List.drop n (c :: r'))
            (List.foldl Pos.move p1 (List.take n (c :: r'))) with
        | error e => rw [hrec] at h; simp at h
        | ok ts' =>
          rw [hrec] at h
          simp only [Except.ok.injEq] at h
          subst h
          simp only [List.length_cons]
          rw [ih hrec]

end Yae
