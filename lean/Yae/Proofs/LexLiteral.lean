/-
  The literal rules of the lexicon and the regular-expression semantics, at the level of
  `firstMatch` / `lex` (for C09, last clause):

  * `newLexicon_split`: the lexicon is `earlyRules ops` followed by the ten literal rules
    `litPats` (kind, pattern), in the order of `newLexicon`;
  * `firstMatch_literal_inv`: a token of a literal kind is the leftmost-first match of the first
    literal pattern (in that order) that has any prefix of the remaining input in its language;
  * `firstMatch_literal`: conversely a word `d` of the language of a literal pattern, followed
    by something that cannot continue it, is what `firstMatch` returns, provided no earlier
    rule matches (`firstMatch_early_none`, `Pat.run_none_of_first`, `int_earlier_none` discharge
    that in the usual cases);
  * `lex_first_token`: the same for `lex` at the start of the input.
-/
import Yae.Proofs.LexRules
import Yae.Proofs.LexRegexToken
namespace Yae
open Re

/-- The rules tried before the literal rules. -/
def earlyRules (ops : List Operator) : List Rule :=
  fixedRules ++ primRules ++ userRules ops ++ boolRules

/-- The ten literal rules: token kind and pattern, in the order of `newLexicon`. -/
def litPats : List (String × Pat) :=
  [("<num>", .floatA), ("<num>", .floatB), ("<num>", .bin), ("<num>", .hex), ("<num>", .oct),
   ("<num>", .int), ("<str>", .str), ("<str>", .raw), ("<time>", .time), ("<sym>", .sym)]

def litRule (kp : String × Pat) : Rule := ⟨kp.1, .regex kp.2⟩

theorem newLexicon_split (ops : List Operator) :
    newLexicon ops = earlyRules ops ++ litPats.map litRule := rfl

/-! ## `firstMatch` -/

theorem firstMatch_eq_none {rules : List Rule} {s : List Char}
    (h : ∀ r ∈ rules, r.m.run s = none) : firstMatch rules s = none := by
  induction rules with
  | nil => rfl
  | cons r rs ih =>
    simp only [firstMatch, h r (by simp)]
    exact ih (fun r' hr' => h r' (by simp [hr']))

/-- `firstMatch` over literal rules: the first pattern, in order, whose rule matches. -/
theorem firstMatch_lit_iff (l : List (String × Pat)) (s : List Char) (k : String) (n : Nat) :
    firstMatch (l.map litRule) s = some (k, n) ↔
      ∃ before after p, l = before ++ (k, p) :: after ∧ (Matcher.regex p).run s = some n ∧
        ∀ kq ∈ before, (Matcher.regex kq.2).run s = none := by
  induction l with
  | nil => simp [firstMatch]
  | cons kp rest ih =>
    obtain ⟨k0, p0⟩ := kp
    simp only [List.map_cons, firstMatch, litRule]
    cases h0 : (Matcher.regex p0).run s with
    | some m =>
      simp only [Option.some.injEq, Prod.mk.injEq]
      constructor
      · rintro ⟨rfl, rfl⟩
        exact ⟨[], rest, p0, rfl, h0, by simp⟩
      · rintro ⟨before, after, p, hl, hp, hb⟩
        cases before with
        | nil =>
          simp only [List.nil_append, List.cons.injEq, Prod.mk.injEq] at hl
          obtain ⟨⟨rfl, rfl⟩, _⟩ := hl
          rw [h0] at hp; cases hp; exact ⟨rfl, rfl⟩
        | cons b bs =>
          simp only [List.cons_append, List.cons.injEq] at hl
          have := hb b (by simp)
          rw [← hl.1, h0] at this; cases this
    | none =>
      simp only
      rw [show firstMatch (List.map litRule rest) s = some (k, n) ↔ _ from ih]
      constructor
      · rintro ⟨before, after, p, rfl, hp, hb⟩
        refine ⟨(k0, p0) :: before, after, p, rfl, hp, ?_⟩
        intro kq hkq
        rcases List.mem_cons.mp hkq with rfl | hkq
        · exact h0
        · exact hb kq hkq
      · rintro ⟨before, after, p, hl, hp, hb⟩
        cases before with
        | nil =>
          simp only [List.nil_append, List.cons.injEq, Prod.mk.injEq] at hl
          obtain ⟨⟨rfl, rfl⟩, _⟩ := hl
          rw [h0] at hp; cases hp
        | cons b bs =>
          simp only [List.cons_append, List.cons.injEq] at hl
          exact ⟨bs, after, p, hl.2, hp, fun kq hkq => hb kq (by simp [hkq])⟩

/-! ## The early rules -/

/-- The early rules have the kinds `: , ( ) [ ] { } . ? true false` and the operators' kinds. -/
theorem earlyRules_kind {ops : List Operator} {r : Rule} (hr : r ∈ earlyRules ops) :
    r.kind ∈ [":", ",", "(", ")", "[", "]", "{", "}", ".", "?", "true", "false"] ∨
      ∃ o ∈ ops, o.kind = r.kind := by
  simp only [earlyRules, List.mem_append] at hr
  rcases hr with ((h | h) | h) | h
  · simp only [fixedRules, List.map_cons, List.map_nil, List.mem_cons, List.not_mem_nil,
      or_false] at h
    rcases h with rfl | rfl | rfl | rfl | rfl | rfl | rfl | rfl <;> exact .inl (by decide)
  · rcases mem_primRules h with rfl | rfl <;> exact .inl (by decide)
  · simp only [userRules, List.mem_map] at h
    obtain ⟨o, ho, rfl⟩ := h
    exact .inr ⟨o, mem_sortOps.mp ho, (operRule_kind _).symm⟩
  · simp only [boolRules, List.mem_cons, List.not_mem_nil, or_false] at h
    rcases h with rfl | rfl <;> exact .inl (by decide)

theorem run_none_of_not_prefix {k : String} {s : List Char}
    (h : k.toList.isPrefixOf s = false) :
    (strRule k).m.run s = none ∧ (keywordRule k).m.run s = none ∧
      (primOperRule k).m.run s = none ∧ (operRule k).m.run s = none := by
  refine ⟨?_, ?_, ?_, ?_⟩
  · simp [strRule, Matcher.run, h]
  · simp [keywordRule, Matcher.run, h]
  · simp [primOperRule, Matcher.run, h]
  · unfold operRule; split
    · simp [keywordRule, Matcher.run, h]
    · simp [strRule, Matcher.run, h]

/-- No early rule matches when the input starts with none of `: , ( ) [ ] { } . ?`, not with
`true` / `false`, and not with the kind of a registered operator. -/
theorem firstMatch_early_none {ops : List Operator} {s : List Char}
    (hfix : ∀ k ∈ [":", ",", "(", ")", "[", "]", "{", "}", ".", "?", "true", "false"],
      k.toList.isPrefixOf s = false)
    (hops : ∀ o ∈ ops, o.kind.toList.isPrefixOf s = false) :
    firstMatch (earlyRules ops) s = none := by
  apply firstMatch_eq_none
  intro r hr
  simp only [earlyRules, List.mem_append] at hr
  rcases hr with ((h | h) | h) | h
  · simp only [fixedRules, List.map_cons, List.map_nil, List.mem_cons, List.not_mem_nil,
      or_false] at h
    rcases h with rfl | rfl | rfl | rfl | rfl | rfl | rfl | rfl <;>
      exact (run_none_of_not_prefix (hfix _ (by decide))).1
  · rcases mem_primRules h with rfl | rfl <;>
      exact (run_none_of_not_prefix (hfix _ (by decide))).2.2.1
  · simp only [userRules, List.mem_map] at h
    obtain ⟨o, ho, rfl⟩ := h
    exact (run_none_of_not_prefix (hops o (mem_sortOps.mp ho))).2.2.2
  · simp only [boolRules, List.mem_cons, List.not_mem_nil, or_false] at h
    rcases h with rfl | rfl <;>
      exact (run_none_of_not_prefix (hfix _ (by decide))).2.1

theorem not_prefix_of_head {x c : Char} (l t : List Char) (h : c ≠ x) :
    (x :: l).isPrefixOf (c :: t) = false := by
  simp [List.isPrefixOf, Ne.symm h]

/-- ... in particular when the input starts with a digit or a quote character. -/
theorem fixed_not_prefix {c : Char} (t : List Char)
    (hc : isDigit c = true ∨ c = '"' ∨ c = '`' ∨ c = '\'') :
    ∀ k ∈ [":", ",", "(", ")", "[", "]", "{", "}", ".", "?", "true", "false"],
      k.toList.isPrefixOf (c :: t) = false := by
  have key : ∀ x : Char, (isDigit x = false ∧ x ≠ '"' ∧ x ≠ '`' ∧ x ≠ '\'') → c ≠ x := by
    rintro x ⟨h1, h2, h3, h4⟩ rfl
    rcases hc with h | h | h | h
    · rw [h1] at h; cases h
    · exact h2 h
    · exact h3 h
    · exact h4 h
  intro k hk
  simp only [List.mem_cons, List.not_mem_nil, or_false] at hk
  rcases hk with rfl | rfl | rfl | rfl | rfl | rfl | rfl | rfl | rfl | rfl | rfl | rfl <;>
    exact not_prefix_of_head _ t (key _ (by decide))

/-! ## Literal patterns that cannot match because of the first character -/

/-- The first character of every word of the pattern's language. -/
def Pat.first : Pat → Char → Bool
  | .str, c => c == '"'
  | .raw, c => c == '`'
  | .time, c => c == '\''
  | .sym, c => isIdentStart c
  | _, c => isDigit c

theorem reIntPart_none {c : Char} (t : List Char) (h : isDigit c = false) :
    reIntPart (c :: t) = none := by
  have h0 : c ≠ '0' := by rintro rfl; revert h; decide
  have h19 : ¬ ('1' ≤ c ∧ c ≤ '9') := by
    rintro ⟨h1, h9⟩
    have : isDigit c = true := by
      simp only [isDigit, Bool.and_eq_true, decide_eq_true_eq]
      exact ⟨char_le_trans (by decide) h1, h9⟩
    rw [h] at this; cases this
  simp only [reIntPart, beq_iff_eq, h0, if_false, Bool.and_eq_true, decide_eq_true_eq, h19]

theorem reRadix_none {c : Char} (t : List Char) (h : c ≠ '0') (letter : Char)
    (first rest : Char → Bool) : reRadix letter first rest (c :: t) = none := by
  match t with
  | [] => rfl
  | [_] => rfl
  | _ :: _ :: _ => simp [reRadix, h]

/-- A pattern does not match an input whose first character cannot start its words. -/
theorem Pat.run_none_of_first {p : Pat} {c : Char} (t : List Char) (h : p.first c = false) :
    p.run (c :: t) = none := by
  have hd0 : isDigit c = false → c ≠ '0' := by rintro h rfl; revert h; decide
  cases p with
  | floatA => simp [Pat.run, reFloatA, reIntPart_none t h]
  | floatB => simp [Pat.run, reFloatB, reIntPart_none t h]
  | bin => exact reRadix_none t (hd0 h) _ _ _
  | hex => exact reRadix_none t (hd0 h) _ _ _
  | oct => exact reRadix_none t (hd0 h) _ _ _
  | int => simp [Pat.run, reInt, reIntPart_none t h]
  | str => simp only [Pat.first] at h; simp [Pat.run, reStr, h]
  | raw => simp only [Pat.first] at h; simp [Pat.run, reRaw, h]
  | time => simp only [Pat.first] at h; simp [Pat.run, reTime, h]
  | sym => simp only [Pat.first] at h; simp [Pat.run, reSym, h]

theorem regex_run_none_of_first {p : Pat} {c : Char} (t : List Char) (h : p.first c = false) :
    (Matcher.regex p).run (c :: t) = none := by
  simp [Matcher.run, Pat.run_none_of_first t h]

/-- Every word of the language of pattern `p` starts with a character of `p.first`. -/
theorem Pat.first_of_matches {p : Pat} {d : List Char} (h : (reOf p).Matches d) :
    ∃ c t, d = c :: t ∧ p.first c = true := by
  have hrun : p.run (d ++ []) = some d.length :=
    Pat.run_append p h (by cases p <;> first | trivial | exact NoHead.nil _ | (intro c t e; cases e))
  rw [List.append_nil] at hrun
  cases d with
  | nil => exact absurd (Pat.run_pos hrun) (by simp)
  | cons c t =>
    refine ⟨c, t, rfl, ?_⟩
    cases hf : p.first c
    · rw [Pat.run_none_of_first t hf] at hrun; cases hrun
    · rfl

/-! ## A decimal integer: the patterns before `int` do not match -/

theorem reExps1_none {l : List Char} (h : ∀ c t, l = c :: t → c ≠ 'e' ∧ c ≠ 'E') :
    reExps1 l = none := by
  simp [reExps1, reExp_none h]

theorem reRadix_int_none {d : List Char} (h : (reOf .int).Matches d) {post : List Char}
    (hp : NumEnd post) {letter : Char} (hl : isIdentCont letter = true)
    (first rest : Char → Bool) : reRadix letter first rest (d ++ post) = none := by
  rcases intPart_inv h with rfl | ⟨c, w, rfl, h1, _, _⟩
  · match post, hp with
    | [], _ => rfl
    | [_], _ => rfl
    | l :: _ :: _, hp =>
      have : l ≠ letter := hp.ne_of hl l _ rfl
      simp [reRadix, this]
  · have h0 : c ≠ '0' := by rintro rfl; revert h1; decide
    exact reRadix_none _ h0 _ _ _

/-- Before a decimal integer literal followed by something that cannot continue a number, the
five numeric patterns tried before `int` do not match. -/
theorem int_earlier_none {d : List Char} (h : (reOf .int).Matches d) {post : List Char}
    (hp : NumEnd post) : ∀ q ∈ [Pat.floatA, .floatB, .bin, .hex, .oct], q.run (d ++ post) = none := by
  have hi := reIntPart_append h hp.noDigit
  intro q hq
  simp only [List.mem_cons, List.not_mem_nil, or_false] at hq
  rcases hq with rfl | rfl | rfl | rfl | rfl
  · simp [Pat.run, reFloatA, hi, reFrac_none hp.noDot]
  · simp [Pat.run, reFloatB, hi, reFrac_none hp.noDot, reExps1_none hp.noExp]
  · exact reRadix_int_none h hp (by decide) _ _
  · exact reRadix_int_none h hp (by decide) _ _
  · exact reRadix_int_none h hp (by decide) _ _

/-! ## The first matching rule and the literal patterns -/

/-- **token ⇒ language.**  If the first matching rule of the lexicon has a literal kind which
is not also the kind of a registered operator, then it is the rule of a literal pattern `p`
of that kind; what it matched is the leftmost-first match of `p` (reference semantics), a
non-empty prefix of the input in the language of `p`; and no prefix of the input is in the
language of any literal pattern tried before `p`. -/
theorem firstMatch_literal_inv {ops : List Operator} {s : List Char} {k : String} {n : Nat}
    (h : firstMatch (newLexicon ops) s = some (k, n))
    (hk : k ∈ ["<num>", "<str>", "<time>", "<sym>"]) (hops : ∀ o ∈ ops, o.kind ≠ k) :
    ∃ before after p, litPats = before ++ (k, p) :: after ∧
      (reOf p).find s = some n ∧ (reOf p).matchLen s = some n ∧
      0 < n ∧ n ≤ s.length ∧ (reOf p).Matches (s.take n) ∧
      ∀ kq ∈ before, ∀ u v, s = u ++ v → ¬ (reOf kq.2).Matches u := by
  rw [newLexicon_split, firstMatch_append] at h
  cases he : firstMatch (earlyRules ops) s with
  | some kn =>
    exfalso
    rw [he] at h
    simp only [Option.or, Option.some.injEq] at h
    subst h
    obtain ⟨pre, r, post, hsplit, hrk, _, _⟩ := firstMatch_spec he
    have hr : r ∈ earlyRules ops := by rw [hsplit]; simp
    rcases earlyRules_kind hr with hfix | ⟨o, ho, hok⟩
    · rw [hrk] at hfix
      simp only [List.mem_cons, List.not_mem_nil, or_false] at hk hfix
      rcases hk with rfl | rfl | rfl | rfl <;> revert hfix <;> decide
    · exact hops o ho (hok.trans hrk)
  | none =>
    rw [he, Option.none_or] at h
    obtain ⟨before, after, p, hl, hp, hb⟩ := (firstMatch_lit_iff _ _ _ _).mp h
    obtain ⟨h1, h2, h3⟩ := regex_run_some hp
    refine ⟨before, after, p, hl, by rw [← regex_run]; exact hp, ?_, h1, h2, h3, ?_⟩
    · rw [← find_eq_matchLen (reOf_not_nullable p), ← regex_run]; exact hp
    · intro kq hkq
      exact regex_run_none (hb kq hkq)

/-- **language ⇒ token.**  Let `d` be in the language of the literal pattern `p` (kind `k`),
followed by `post` which cannot continue it (`LitEnd`).  If no early rule matches `d ++ post`
and no prefix of `d ++ post` is in the language of a literal pattern tried before `p`, then the
first matching rule of the lexicon is `p`'s and it matches exactly `d`. -/
theorem firstMatch_literal {ops : List Operator} {k : String} {p : Pat}
    {before after : List (String × Pat)} (hsplit : litPats = before ++ (k, p) :: after)
    {d post : List Char} (hd : (reOf p).Matches d) (hpost : LitEnd p post)
    (hearly : firstMatch (earlyRules ops) (d ++ post) = none)
    (hbefore : ∀ kq ∈ before, ∀ u v, d ++ post = u ++ v → ¬ (reOf kq.2).Matches u) :
    firstMatch (newLexicon ops) (d ++ post) = some (k, d.length) := by
  rw [newLexicon_split, firstMatch_append, hearly, Option.none_or]
  refine (firstMatch_lit_iff _ _ _ _).mpr ⟨before, after, p, hsplit, ?_, ?_⟩
  · have hrun := Pat.run_append p hd hpost
    have hpos := Pat.run_pos hrun
    simp only [Matcher.run, hrun]
    cases hl : d.length with
    | zero => omega
    | succ m => rfl
  · intro kq hkq
    cases hr : (Matcher.regex kq.2).run (d ++ post) with
    | none => rfl
    | some m =>
      obtain ⟨_, _, hm⟩ := regex_run_some hr
      exact absurd hm (hbefore kq hkq _ _ (List.take_append_drop m _).symm)

/-- The same with the earlier literal patterns failing as recognisers (`Pat.run`), which is
equivalent (`regex_run_isSome_iff`). -/
theorem firstMatch_literal' {ops : List Operator} {k : String} {p : Pat}
    {before after : List (String × Pat)} (hsplit : litPats = before ++ (k, p) :: after)
    {d post : List Char} (hd : (reOf p).Matches d) (hpost : LitEnd p post)
    (hearly : firstMatch (earlyRules ops) (d ++ post) = none)
    (hbefore : ∀ kq ∈ before, kq.2.run (d ++ post) = none) :
    firstMatch (newLexicon ops) (d ++ post) = some (k, d.length) := by
  refine firstMatch_literal hsplit hd hpost hearly ?_
  intro kq hkq u v hs hu
  have := hbefore kq hkq
  rw [Pat.run_eq_matchLen] at this
  exact matchLen_complete this u v hs hu

/-! ## `lex` at the start of the input -/

/-- If the input starts with a non-space character and the first matching rule there is of kind
`k` and matches `n` runes, then the first token of a successful run is those `n` runes with
kind `k` at position 0. -/
theorem lex_first_token {ops : List Operator} {c : Char} {r : List Char} {k : String} {n : Nat}
    (hc : isSpace c = false) (hfm : firstMatch (newLexicon ops) (c :: r) = some (k, n))
    {ts : List Token} (h : lex ops (c :: r) = .ok ts) :
    ∃ t ts', ts = t :: ts' ∧ t.kind = k ∧ t.lexeme.toList = (c :: r).take n ∧
      t.pos = ⟨0, t.lexeme.toList.length, 0, 0⟩ := by
  have hl := lex_lexed h
  generalize hs : c :: r = s at hl
  cases hl with
  | done hws =>
    have := hws c (by rw [← hs]; simp)
    rw [hc] at this; cases this
  | @tok _ ws t ts' rest n' hws hne hhead hfm' htake hpos hrest =>
    cases ws with
    | cons w ws' =>
      simp only [List.cons_append, List.cons.injEq] at hs
      have := hws w (by simp)
      rw [← hs.1, hc] at this; cases this
    | nil =>
      simp only [List.nil_append] at hs
      rw [← hs, hfm] at hfm'
      simp only [Option.some.injEq, Prod.mk.injEq] at hfm'
      refine ⟨t, ts', rfl, hfm'.1.symm, ?_, ?_⟩
      · rw [hfm'.2]; simpa using htake
      · rw [hpos]
        have := tokPos_zero [] t.lexeme.toList
        simpa [Pos.moves, colOf] using this

/-! ## Literals that start with a digit or a quote character -/

theorem isDigit_toNat {c : Char} (h : isDigit c = true) : 48 ≤ c.toNat ∧ c.toNat ≤ 57 := by
  simp only [isDigit, Bool.and_eq_true, decide_eq_true_eq] at h
  obtain ⟨h1, h2⟩ := h
  rw [Char.le_def, UInt32.le_iff_toNat_le] at h1 h2
  exact ⟨h1, h2⟩

theorem isSpace_digit_quote {c : Char} (hc : isDigit c = true ∨ c = '"' ∨ c = '`' ∨ c = '\'') :
    isSpace c = false := by
  rcases hc with h | rfl | rfl | rfl
  · have := isDigit_toNat h
    unfold isSpace Gen.spaceRanges
    simp only [inRanges]
    rw [if_neg (by omega : ¬ c.toNat < 9), if_neg (by omega : ¬ c.toNat ≤ 13),
      if_neg (by omega : ¬ c.toNat < 32), if_neg (by omega : ¬ c.toNat ≤ 32),
      if_pos (by omega : c.toNat < 133)]
  · decide
  · decide
  · decide

/-- A string, raw-string or time literal (a word of the language of its pattern), followed by
ANYTHING, is what the first matching rule matches, provided no registered operator's kind is
a prefix of the input there. -/
theorem firstMatch_quoted {ops : List Operator} {k : String} {p : Pat}
    (hkp : (k, p) ∈ [("<str>", Pat.str), ("<str>", Pat.raw), ("<time>", Pat.time)])
    {d : List Char} (hd : (reOf p).Matches d) (post : List Char)
    (hops : ∀ o ∈ ops, o.kind.toList.isPrefixOf (d ++ post) = false) :
    firstMatch (newLexicon ops) (d ++ post) = some (k, d.length) := by
  obtain ⟨c, t, rfl, hc⟩ := Pat.first_of_matches hd
  simp only [List.mem_cons, List.not_mem_nil, or_false, Prod.mk.injEq] at hkp
  rcases hkp with ⟨rfl, rfl⟩ | ⟨rfl, rfl⟩ | ⟨rfl, rfl⟩
  · have hc' : c = '"' := by simpa [Pat.first] using hc
    subst hc'
    refine firstMatch_literal' (before := litPats.take 6) (after := litPats.drop 7) rfl hd trivial
      (firstMatch_early_none (fixed_not_prefix _ (by simp)) hops) ?_
    intro kq hkq
    simp only [litPats, List.take, List.mem_cons, List.not_mem_nil, or_false] at hkq
    rcases hkq with rfl | rfl | rfl | rfl | rfl | rfl <;>
      exact Pat.run_none_of_first _ (by decide)
  · have hc' : c = '`' := by simpa [Pat.first] using hc
    subst hc'
    refine firstMatch_literal' (before := litPats.take 7) (after := litPats.drop 8) rfl hd trivial
      (firstMatch_early_none (fixed_not_prefix _ (by simp)) hops) ?_
    intro kq hkq
    simp only [litPats, List.take, List.mem_cons, List.not_mem_nil, or_false] at hkq
    rcases hkq with rfl | rfl | rfl | rfl | rfl | rfl | rfl <;>
      exact Pat.run_none_of_first _ (by decide)
  · have hc' : c = '\'' := by simpa [Pat.first] using hc
    subst hc'
    refine firstMatch_literal' (before := litPats.take 8) (after := litPats.drop 9) rfl hd trivial
      (firstMatch_early_none (fixed_not_prefix _ (by simp)) hops) ?_
    intro kq hkq
    simp only [litPats, List.take, List.mem_cons, List.not_mem_nil, or_false] at hkq
    rcases hkq with rfl | rfl | rfl | rfl | rfl | rfl | rfl | rfl <;>
      exact Pat.run_none_of_first _ (by decide)

/-! ## Numbers -/

theorem radix_shape {letter : Char} {G : Re} {d : List Char}
    (h : (Re.cat (.chr '0') (.cat (.chr letter) G)).Matches d) : ∃ t, d = '0' :: letter :: t := by
  obtain ⟨u1, r1, rfl, h1, hr1⟩ := Matches.cat_inv h
  have := h1.chr_inv; subst this
  obtain ⟨u2, r2, rfl, h2, _⟩ := hr1.cat_inv
  have := h2.chr_inv; subst this
  exact ⟨r2, rfl⟩

/-- On `0b…`, `0x…`, `0o…` the two float patterns and the radix patterns of another letter do
not match. -/
theorem zero_letter_none {l : Char} (hl : l = 'b' ∨ l = 'x' ∨ l = 'o') (rest : List Char) :
    reFloatA ('0' :: l :: rest) = none ∧ reFloatB ('0' :: l :: rest) = none ∧
      ∀ letter first rst, letter ≠ l → reRadix letter first rst ('0' :: l :: rest) = none := by
  have h1 : l ≠ '.' := by rcases hl with rfl | rfl | rfl <;> decide
  have h2 : l ≠ 'e' ∧ l ≠ 'E' := by rcases hl with rfl | rfl | rfl <;> decide
  have hi : reIntPart ('0' :: l :: rest) = some (1, l :: rest) := by simp [reIntPart]
  have hf : reFrac (l :: rest) = none := reFrac_none (by intro c t e; cases e; exact h1)
  have he : reExps1 (l :: rest) = none := reExps1_none (by intro c t e; cases e; exact h2)
  refine ⟨by simp [reFloatA, hi, hf], by simp [reFloatB, hi, hf, he], ?_⟩
  intro letter first rst hne
  cases rest with
  | nil => rfl
  | cons c cs => simp [reRadix, Ne.symm hne]

/-- The numeric patterns tried before `p`. -/
def numBefore : Pat → List Pat
  | .floatA => []
  | .floatB => [.floatA]
  | .bin => [.floatA, .floatB]
  | .hex => [.floatA, .floatB, .bin]
  | .oct => [.floatA, .floatB, .bin, .hex]
  | .int => [.floatA, .floatB, .bin, .hex, .oct]
  | _ => []

/-- Before a numeric literal `d` of pattern `p` followed by something that cannot continue a
number, the numeric patterns tried before `p` do not match; for the second float pattern this
needs that `d` has no fraction (otherwise the first float pattern matches a prefix of `d`, or
`d` itself). -/
theorem num_earlier_none {p : Pat} {d : List Char}
    (hd : (reOf p).Matches d) {post : List Char} (hpost : NumEnd post)
    (hB : p = .floatB → '.' ∉ d) : ∀ q ∈ numBefore p, q.run (d ++ post) = none := by
  cases p with
  | floatA => intro q hq; simp [numBefore] at hq
  | floatB =>
    -- without a fraction: floatA needs one
    intro q hq
    simp only [numBefore, List.mem_cons, List.not_mem_nil, or_false] at hq
    subst hq
    obtain ⟨i, r, rfl, hi, hr⟩ := Matches.cat_inv hd
    obtain ⟨Fo, Es, rfl, hFo, hEs⟩ := hr.cat_inv
    have hFo' : Fo = [] := by
      rcases hFo.opt_inv with h | h
      · exact h
      · obtain ⟨t, rfl⟩ := fracG_head h
        exact absurd (by simp) (hB rfl)
    subst hFo'
    obtain ⟨e, t, rfl, he⟩ := plus_expG_head hEs
    have h1 : reIntPart (i ++ (e :: t ++ post)) = some (i.length, e :: t ++ post) :=
      reIntPart_append hi (NoHead.cons _ (by rcases he with rfl | rfl <;> decide))
    have h2 : reFrac (e :: t ++ post) = none :=
      reFrac_none (by intro c t' e'; cases e'; rcases he with rfl | rfl <;> decide)
    simp only [List.nil_append, List.append_assoc, List.cons_append] at h1 h2 ⊢
    simp [Pat.run, reFloatA, h1, h2]
  | bin =>
    obtain ⟨t, rfl⟩ := radix_shape hd
    obtain ⟨z1, z2, z3⟩ := zero_letter_none (l := 'b') (.inl rfl) (t ++ post)
    intro q hq
    simp only [numBefore, List.mem_cons, List.not_mem_nil, or_false] at hq
    rcases hq with rfl | rfl
    · exact z1
    · exact z2
  | hex =>
    obtain ⟨t, rfl⟩ := radix_shape hd
    obtain ⟨z1, z2, z3⟩ := zero_letter_none (l := 'x') (.inr (.inl rfl)) (t ++ post)
    intro q hq
    simp only [numBefore, List.mem_cons, List.not_mem_nil, or_false] at hq
    rcases hq with rfl | rfl | rfl
    · exact z1
    · exact z2
    · exact z3 _ _ _ (by decide)
  | oct =>
    obtain ⟨t, rfl⟩ := radix_shape hd
    obtain ⟨z1, z2, z3⟩ := zero_letter_none (l := 'o') (.inr (.inr rfl)) (t ++ post)
    intro q hq
    simp only [numBefore, List.mem_cons, List.not_mem_nil, or_false] at hq
    rcases hq with rfl | rfl | rfl | rfl
    · exact z1
    · exact z2
    · exact z3 _ _ _ (by decide)
    · exact z3 _ _ _ (by decide)
  | int => exact int_earlier_none hd hpost
  | _ => intro q hq; simp [numBefore] at hq

/-- A numeric literal (a word of the language of one of the six numeric patterns; for the
second float pattern: one without fraction), followed by the end of the input or by a character
that is neither an identifier character nor `.`, is what the first matching rule matches,
provided no registered operator's kind is a prefix of the input there. -/
theorem firstMatch_number {ops : List Operator} {p : Pat}
    (hp : p ∈ [Pat.floatA, .floatB, .bin, .hex, .oct, .int])
    {d : List Char} (hd : (reOf p).Matches d) {post : List Char} (hpost : NumEnd post)
    (hB : p = .floatB → '.' ∉ d)
    (hops : ∀ o ∈ ops, o.kind.toList.isPrefixOf (d ++ post) = false) :
    firstMatch (newLexicon ops) (d ++ post) = some ("<num>", d.length) := by
  have hbefore := num_earlier_none hd hpost hB
  obtain ⟨c, t, rfl, hc⟩ := Pat.first_of_matches hd
  simp only [List.mem_cons, List.not_mem_nil, or_false] at hp
  have hearly : isDigit c = true →
      firstMatch (earlyRules ops) (c :: t ++ post) = none := fun hc' =>
    firstMatch_early_none (fixed_not_prefix (t ++ post) (.inl hc')) hops
  rcases hp with rfl | rfl | rfl | rfl | rfl | rfl
  · exact firstMatch_literal' (before := litPats.take 0) (after := litPats.drop 1) rfl hd hpost
      (hearly hc) (fun kq hkq => hbefore kq.2 (by
        simp only [List.take] at hkq; simp at hkq))
  · exact firstMatch_literal' (before := litPats.take 1) (after := litPats.drop 2) rfl hd hpost
      (hearly hc) (fun kq hkq => hbefore kq.2 (by
        simp only [litPats, List.take, List.mem_cons, List.not_mem_nil, or_false] at hkq
        subst hkq; simp [numBefore]))
  · exact firstMatch_literal' (before := litPats.take 2) (after := litPats.drop 3) rfl hd hpost
      (hearly hc) (fun kq hkq => hbefore kq.2 (by
        simp only [litPats, List.take, List.mem_cons, List.not_mem_nil, or_false] at hkq
        rcases hkq with rfl | rfl <;> simp [numBefore]))
  · exact firstMatch_literal' (before := litPats.take 3) (after := litPats.drop 4) rfl hd hpost
      (hearly hc) (fun kq hkq => hbefore kq.2 (by
        simp only [litPats, List.take, List.mem_cons, List.not_mem_nil, or_false] at hkq
        rcases hkq with rfl | rfl | rfl <;> simp [numBefore]))
  · exact firstMatch_literal' (before := litPats.take 4) (after := litPats.drop 5) rfl hd hpost
      (hearly hc) (fun kq hkq => hbefore kq.2 (by
        simp only [litPats, List.take, List.mem_cons, List.not_mem_nil, or_false] at hkq
        rcases hkq with rfl | rfl | rfl | rfl <;> simp [numBefore]))
  · exact firstMatch_literal' (before := litPats.take 5) (after := litPats.drop 6) rfl hd hpost
      (hearly hc) (fun kq hkq => hbefore kq.2 (by
        simp only [litPats, List.take, List.mem_cons, List.not_mem_nil, or_false] at hkq
        rcases hkq with rfl | rfl | rfl | rfl | rfl <;> simp [numBefore]))

/-! ## Symbols -/

theorem inRanges_lt {n lo hi : Nat} (rest : List (Nat × Nat)) (h : n < lo) :
    inRanges n ((lo, hi) :: rest) = false := by
  simp [inRanges, h]

theorem isLetter_digit {c : Char} (h : isDigit c = true) : isLetter c = false := by
  have := isDigit_toNat h
  unfold isLetter Gen.letterRanges
  exact inRanges_lt _ (by omega)

/-- A digit cannot start an identifier. -/
theorem isIdentStart_digit {c : Char} (h : isDigit c = true) : isIdentStart c = false := by
  have hn := isDigit_toNat h
  have h1 : isAsciiAlpha c = false := by
    cases ha : isAsciiAlpha c
    · rfl
    · simp only [isAsciiAlpha, Bool.or_eq_true, Bool.and_eq_true, decide_eq_true_eq] at ha
      rcases ha with ⟨h1, _⟩ | ⟨h1, _⟩ <;>
        (rw [Char.le_def, UInt32.le_iff_toNat_le] at h1
         have h1' : _ ≤ c.toNat := h1
         simp at h1'; omega)
  have h2 : c ≠ '_' := by rintro rfl; revert h; decide
  simp [isIdentStart, h1, isLetter_digit h, h2]

/-- A symbol (a word of `[a-zA-Z\p{L}_][a-zA-Z0-9\p{L}_]*`) followed by the end of the input or
by a character that is not an identifier character is what the first matching rule matches,
provided no early rule matches (`true`, `false` and identifier-like operators are symbols
too, and are tried first). -/
theorem firstMatch_symbol {ops : List Operator} {d : List Char} (hd : (reOf .sym).Matches d)
    {post : List Char} (hpost : NoHead isIdentCont post)
    (hearly : firstMatch (earlyRules ops) (d ++ post) = none) :
    firstMatch (newLexicon ops) (d ++ post) = some ("<sym>", d.length) := by
  obtain ⟨c, t, rfl, hc⟩ := Pat.first_of_matches hd
  have hc' : isIdentStart c = true := hc
  have hnd : isDigit c = false := by
    cases h : isDigit c
    · rfl
    · rw [isIdentStart_digit h] at hc'; cases hc'
  have hq : c ≠ '"' ∧ c ≠ '`' ∧ c ≠ '\'' := by
    refine ⟨?_, ?_, ?_⟩ <;> (rintro rfl; revert hc'; decide)
  refine firstMatch_literal' (before := litPats.take 9) (after := []) rfl hd hpost hearly ?_
  intro kq hkq
  simp only [litPats, List.take, List.mem_cons, List.not_mem_nil, or_false] at hkq
  rcases hkq with rfl | rfl | rfl | rfl | rfl | rfl | rfl | rfl | rfl <;>
    exact Pat.run_none_of_first _ (by simp [Pat.first, hnd, hq.1, hq.2.1, hq.2.2])

end Yae
