/-
  From the lexer to the parser's hypothesis `OpLexemes`: a token produced by a rule that is not
  one of the ten regular-expression rules has its KIND as its lexeme (the rule matched the kind's
  own text); so for lexed input every operator token carries its kind as lexeme, provided no
  operator is NAMED like one of the four literal kinds `<num> <str> <time> <sym>`.
-/
import Yae.Proofs.LexRules
import Yae.Proofs.Lex
import Yae.Proofs.ParseCompleteTop
namespace Yae
open Yae

def literalKinds : List String := ["<num>", "<str>", "<time>", "<sym>"]

theorem take_of_prefix {a s : List Char} (h : a.isPrefixOf s = true) : s.take a.length = a := by
  have := isPrefixOf_append h
  rw [this]; simp

/-- what a non-regex rule matches is the text of its own kind -/
theorem rule_lexeme {ops : List Operator} {r : Rule} (hr : r ∈ newLexicon ops) {s : List Char}
    {n : Nat} (hm : r.m.run s = some n) : r.kind ∈ literalKinds ∨ s.take n = r.kind.toList := by
  rcases mem_newLexicon hr with h | h | ⟨o, _, rfl⟩ | h | h
  · -- fixed punctuation
    simp only [fixedRules, List.mem_map] at h
    obtain ⟨k, _, rfl⟩ := h
    simp only [strRule] at hm ⊢
    obtain ⟨rfl, hp⟩ := run_str hm
    exact .inr (take_of_prefix hp)
  · rcases mem_primRules h with rfl | rfl <;>
    · simp only [primOperRule] at hm ⊢
      obtain ⟨rfl, hp, _⟩ := run_primOper hm
      exact .inr (take_of_prefix hp)
  · unfold operRule at hm ⊢
    split at hm
    · simp only [keywordRule] at hm ⊢
      rename_i hi
      simp only [hi, if_true]
      obtain ⟨rfl, hp, _⟩ := run_keyword hm
      exact .inr (take_of_prefix hp)
    · rename_i hi
      simp only [hi]
      simp only [strRule] at hm ⊢
      obtain ⟨rfl, hp⟩ := run_str hm
      exact .inr (take_of_prefix hp)
  · simp only [boolRules, List.mem_cons, List.not_mem_nil, or_false] at h
    rcases h with rfl | rfl <;>
    · simp only [keywordRule] at hm ⊢
      obtain ⟨rfl, hp, _⟩ := run_keyword hm
      exact .inr (take_of_prefix hp)
  · left
    simp only [litRules, List.mem_cons, List.not_mem_nil, or_false] at h
    rcases h with rfl | rfl | rfl | rfl | rfl | rfl | rfl | rfl | rfl | rfl <;> simp [literalKinds]

/-- every token of lexed input either has a literal kind or carries its kind as lexeme -/
theorem lexed_lexeme_kind {ops : List Operator} {s : List Char} {ts : List Token}
    (h : lex ops s = .ok ts) {t : Token} (ht : t ∈ ts) :
    t.kind ∈ literalKinds ∨ t.lexeme = t.kind := by
  obtain ⟨pre, post, n, _, _, _, _, hfm, htk⟩ := (lex_lexed h).tokAt ht
  obtain ⟨pre', r, post', e, hrk, hrun, _⟩ := firstMatch_spec hfm
  have hr : r ∈ newLexicon ops := by rw [e]; simp
  rcases rule_lexeme hr hrun with hk | hk
  · left; rw [← hrk]; exact hk
  · right
    rw [← htk, hrk] at hk
    exact String.ext hk

theorem addOp_lookup_eq {k : String} (g : Grammar) (op : Operator) (hk : op.kind ≠ k) :
    tableLookup k (g.addOp op).prefixs = tableLookup k g.prefixs ∧
    tableLookup k (g.addOp op).infixs = tableLookup k g.infixs := by
  have hb : (op.kind == k) = false := by simpa using hk
  unfold Grammar.addOp
  repeat' split
  all_goals simp [Grammar.prefix, Grammar.infix, tableLookup, hb]

theorem foldl_addOp_lookup_eq {k : String} (l : List Operator) (g : Grammar)
    (hk : ∀ o ∈ l, o.kind ≠ k) :
    tableLookup k (l.foldl Grammar.addOp g).prefixs = tableLookup k g.prefixs ∧
    tableLookup k (l.foldl Grammar.addOp g).infixs = tableLookup k g.infixs := by
  induction l generalizing g with
  | nil => exact ⟨rfl, rfl⟩
  | cons o l ih =>
    have h1 := addOp_lookup_eq g o (hk o (by simp))
    have h2 := ih (g.addOp o) (fun o' ho' => hk o' (by simp [ho']))
    exact ⟨h2.1.trans h1.1, h2.2.trans h1.2⟩

/-- a literal kind that no operator bears has no operator entry in the grammar -/
theorem literalKind_not_opKind {ops : List Operator} {k : String} (hk : k ∈ literalKinds)
    (hops : ∀ o ∈ ops, o.kind ≠ k) : ¬ (newGrammar ops).isOpKind k := by
  have hs : ∀ o ∈ sortOps ops, o.kind ≠ k := fun o ho => hops o (mem_sortOps.mp ho)
  have hl := foldl_addOp_lookup_eq (k := k) (sortOps ops)
    ((((((((((⟨[], []⟩ : Grammar).prefix "<sym>" bpNone .ident).prefix "true" bpNone .true_).prefix
      "false" bpNone .false_).prefix "<num>" bpNone .num).prefix "<str>" bpNone .str).prefix
      "<time>" bpNone .time).prefix "[" bpNone .listMap).prefix "{" bpNone .obj).prefix "("
      bpNone .group) hs
  have hpre : (newGrammar ops).prefixs = (preGrammar ops).prefixs := rfl
  have hinf : tableLookup k (newGrammar ops).infixs = tableLookup k (preGrammar ops).infixs := by
    rw [newGrammar_eq]
    simp only [Grammar.infix, tableLookup]
    simp only [literalKinds, List.mem_cons, List.not_mem_nil, or_false] at hk
    rcases hk with rfl | rfl | rfl | rfl <;> rfl
  rw [Grammar.isOpKind_iff, hpre, hinf]
  unfold preGrammar
  rw [hl.1, hl.2]
  simp only [literalKinds, List.mem_cons, List.not_mem_nil, or_false] at hk
  rcases hk with rfl | rfl | rfl | rfl <;> decide

/-- **lexed input satisfies the parser's hypothesis**: when no operator is named like a literal
kind, every token whose kind has an operator entry in the grammar has `lexeme = kind` -/
theorem lexed_opLexemes {ops : List Operator} (hops : ∀ o ∈ ops, o.kind ∉ literalKinds)
    {s : List Char} {ts : List Token} (h : lex ops s = .ok ts) : OpLexemes ops ts := by
  intro t ht hk
  rcases lexed_lexeme_kind h ht with hl | hl
  · exact absurd hk (literalKind_not_opKind hl (fun o ho e => hops o ho (e ▸ hl)))
  · exact hl

end Yae

namespace Yae

/-- the kind of a lexed token is the kind of a rule of the lexicon -/
theorem lexed_kind_mem {ops : List Operator} {s : List Char} {ts : List Token}
    (h : lex ops s = .ok ts) {t : Token} (ht : t ∈ ts) :
    t.kind ∈ (newLexicon ops).map (·.kind) := by
  obtain ⟨pre, post, n, _, _, _, _, hfm, _⟩ := (lex_lexed h).tokAt ht
  exact firstMatch_kind_mem hfm

/-- no lexed token has the kind of the end-of-file marker, unless an operator is named so -/
theorem lexed_no_eof {ops : List Operator} (hops : ∀ o ∈ ops, o.kind ≠ tkEOF) {s : List Char}
    {ts : List Token} (h : lex ops s = .ok ts) : ∀ t ∈ ts, t.kind ≠ tkEOF := by
  intro t ht he
  have hm := lexed_kind_mem h ht
  rw [he] at hm
  obtain ⟨r, hr, hk⟩ := List.mem_map.mp hm
  rcases mem_newLexicon hr with h' | h' | ⟨o, ho, rfl⟩ | h' | h'
  · simp only [fixedRules, List.mem_map] at h'
    obtain ⟨k, hk', rfl⟩ := h'
    simp only [strRule] at hk
    simp only [List.mem_cons, List.not_mem_nil, or_false] at hk'
    rcases hk' with rfl | rfl | rfl | rfl | rfl | rfl | rfl | rfl <;> exact absurd hk (by decide)
  · rcases mem_primRules h' with rfl | rfl <;> exact absurd hk (by decide)
  · rw [operRule_kind] at hk
    exact hops o ho hk
  · simp only [boolRules, List.mem_cons, List.not_mem_nil, or_false] at h'
    rcases h' with rfl | rfl <;> exact absurd hk (by decide)
  · simp only [litRules, List.mem_cons, List.not_mem_nil, or_false] at h'
    rcases h' with rfl | rfl | rfl | rfl | rfl | rfl | rfl | rfl | rfl | rfl <;>
      exact absurd hk (by decide)

end Yae
