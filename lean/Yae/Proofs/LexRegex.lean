/-
  The ten hand-written recognisers of `Yae.Model.Lexer` ARE the ten regular expressions of
  `newLexicon` under the reference semantics of `Yae.Spec.Regex` (Go/Perl leftmost-first,
  anchored at the cursor):

      Pat.run p s = (reOf p).matchLen s                       (`Pat.run_eq_matchLen`)
      (Matcher.regex p).run s = (reOf p).find s               (`regex_run`)

  and likewise `keywordPostfix` (`Re.keyword_run`) and `oper.IsIdentOp` (`Re.isIdentOp_eq`).
  No recogniser disagrees with the reference semantics on any input; none of the patterns can
  match the empty word, so the `found == ""` test of `lexer.regex` never fires.

  Proofs: `LexRegexBase` (soundness / completeness of the matcher for the language),
  `LexRegexNum` (numeric patterns: the greedy scan is the leftmost-first match),
  `LexRegexWord` (symbol, raw string, time, keyword postfix, identifier operators),
  `LexRegexStr` (string pattern: at most one prefix of any input is in the language),
  `LexRegexPolicy` (without nullable loop bodies the treatment of empty iterations is
  irrelevant: `Pat.run_eq_policy` for the nine patterns other than the string pattern).
-/
import Yae.Proofs.LexRegexWord
import Yae.Proofs.LexRegexStr
import Yae.Proofs.LexRegexPolicy
namespace Yae
open Re

/-- Each recogniser returns the length of the leftmost-first match of its regular expression,
on every input. -/
theorem Pat.run_eq_matchLen (p : Pat) (s : List Char) : p.run s = (reOf p).matchLen s := by
  cases p with
  | floatA => exact (floatA_matchLen s).symm
  | floatB => exact (floatB_matchLen s).symm
  | bin => exact (bin_matchLen s).symm
  | hex => exact (hex_matchLen s).symm
  | oct => exact (oct_matchLen s).symm
  | int => exact (int_matchLen s).symm
  | str => exact (str_matchLen s).symm
  | raw => exact (raw_matchLen s).symm
  | time => exact (time_matchLen s).symm
  | sym => exact (sym_matchLen s).symm

/-- Nine of the ten patterns have no loop with a nullable body: whatever is decided about
iterations that consume nothing (`Re.mP first later`), the match is the same. -/
theorem Pat.run_eq_policy (first later : Bool) (p : Pat) (hp : p ≠ .str) (s : List Char) :
    p.run s = mP first later (reOf p) s (fun rest => some (s.length - rest.length)) := by
  rw [Pat.run_eq_matchLen, mP_eq_m first later (reOf p) (by cases p <;> first | rfl | exact absurd rfl hp)]
  rfl

/-- None of the ten patterns matches the empty word. -/
theorem reOf_not_nullable (p : Pat) : (reOf p).nullable = false := by
  cases p <;> decide

/-- No recogniser returns `some 0`. -/
theorem Pat.run_pos {p : Pat} {s : List Char} {n : Nat} (h : p.run s = some n) : 0 < n := by
  rw [Pat.run_eq_matchLen] at h
  exact matchLen_pos (reOf_not_nullable p) h

/-- `lexer.regex(kind, pattern)`: `FindString` of `^(?:pattern)`, the empty match counting as
no match. -/
theorem regex_run (p : Pat) (s : List Char) : (Matcher.regex p).run s = (reOf p).find s := by
  rw [find_eq_matchLen (reOf_not_nullable p), ← Pat.run_eq_matchLen]
  simp only [Matcher.run]
  cases h : p.run s with
  | none => rfl
  | some n =>
    have := Pat.run_pos h
    cases n with
    | zero => omega
    | succ n => rfl

/-- The same in the form "`FindString`, the empty match counting as no match". -/
theorem Pat.run_eq_find (p : Pat) (s : List Char) :
    p.run s = (match (reOf p).matchLen s with
      | some 0 => none
      | r => r) := by
  rw [Pat.run_eq_matchLen]
  exact (find_eq_matchLen (reOf_not_nullable p) s).symm

/-- What a literal rule matches is a non-empty prefix in the language of its pattern. -/
theorem regex_run_some {p : Pat} {s : List Char} {n : Nat} (h : (Matcher.regex p).run s = some n) :
    0 < n ∧ n ≤ s.length ∧ (reOf p).Matches (s.take n) := by
  rw [regex_run, find_eq_matchLen (reOf_not_nullable p)] at h
  exact ⟨matchLen_pos (reOf_not_nullable p) h, matchLen_take h⟩

/-- A literal rule fails only if no prefix of the input is in the language of its pattern. -/
theorem regex_run_none {p : Pat} {s : List Char} (h : (Matcher.regex p).run s = none) :
    ∀ u v, s = u ++ v → ¬ (reOf p).Matches u := by
  rw [regex_run, find_eq_matchLen (reOf_not_nullable p)] at h
  exact matchLen_complete h

/-- ... and conversely. -/
theorem regex_run_isSome_iff {p : Pat} {s : List Char} :
    ((Matcher.regex p).run s).isSome = true ↔ ∃ u v, s = u ++ v ∧ (reOf p).Matches u := by
  rw [regex_run, find_eq_matchLen (reOf_not_nullable p)]
  exact matchLen_isSome_iff

end Yae

#print axioms Yae.Pat.run_eq_matchLen
#print axioms Yae.regex_run
#print axioms Yae.Pat.run_eq_find
#print axioms Yae.Pat.run_eq_policy
#print axioms Yae.Re.keyword_run
#print axioms Yae.Re.isIdentOp_eq
#print axioms Yae.Re.str_uniquePrefix
