/-
  The reference matcher `Re.m` of `Yae.Spec.Regex` against the declarative semantics
  `Re.Matches`:

  * `Re.m_sound`:    a result of `r.m s k` comes from a split `s = u ++ v` with `u` in the
                     language of `r` and `k v` that result;
  * `Re.m_complete`: `r.m s k = none` only if `k` fails after EVERY prefix in the language;
  * `Re.loop_fuel`:  the fuel of the loop is irrelevant once it exceeds the input length
                     (`Re.m` always passes length + 1);
  * `Re.matchLen_sound` / `matchLen_complete` / `matchLen_isSome_iff`;
  * `Re.matchLen_eq_of_unique`: a function that finds exactly the words of the language is
    `matchLen` (used for the patterns that match at most one prefix of any input).

  Which of several prefixes in the language is returned (the priorities) is by definition of
  `Re.m`; the lemmas for that are in `Yae.Proofs.LexRegexNum`.
-/
import Yae.Spec.Regex
namespace Yae
namespace Re

variable {β : Type}

/-! ## `orElse` -/

@[simp] theorem orElse_some (r : β) (y : Unit → Option β) : orElse (some r) y = some r := rfl
@[simp] theorem orElse_none (y : Unit → Option β) : orElse none y = y () := rfl

theorem orElse_none_right (x : Option β) : orElse x (fun _ => none) = x := by
  cases x <;> rfl

theorem orElse_of_isSome {x : Option β} (y : Unit → Option β) (h : x.isSome = true) :
    orElse x y = x := by
  cases x with
  | none => simp at h
  | some r => rfl

theorem orElse_eq_some {x : Option β} {y : Unit → Option β} {r : β} :
    orElse x y = some r ↔ x = some r ∨ (x = none ∧ y () = some r) := by
  cases x <;> simp

theorem orElse_eq_none {x : Option β} {y : Unit → Option β} :
    orElse x y = none ↔ x = none ∧ y () = none := by
  cases x <;> simp

/-! ## Inversion of `Matches` -/

theorem Matches.eps_inv {u : List Char} (h : Matches .eps u) : u = [] := by cases h; rfl

theorem Matches.chr_inv {c : Char} {u : List Char} (h : Matches (.chr c) u) : u = [c] := by
  cases h; rfl

theorem Matches.esc_inv {c : Char} {u : List Char} (h : Matches (.esc c) u) : u = [c] := by
  cases h; rfl

theorem Matches.cls_inv {neg items} {u : List Char} (h : Matches (.cls neg items) u) :
    ∃ x, u = [x] ∧ clsTest neg items x = true := by
  cases h with
  | cls hx => exact ⟨_, rfl, hx⟩

theorem Matches.cat_inv {a b : Re} {w : List Char} (h : Matches (.cat a b) w) :
    ∃ u v, w = u ++ v ∧ Matches a u ∧ Matches b v := by
  cases h with
  | cat hu hv => exact ⟨_, _, rfl, hu, hv⟩

theorem Matches.alt_inv {a b : Re} {u : List Char} (h : Matches (.alt a b) u) :
    Matches a u ∨ Matches b u := by
  cases h with
  | altL h => exact .inl h
  | altR h => exact .inr h

theorem Matches.grp_inv {a : Re} {u : List Char} (h : Matches (.grp a) u) : Matches a u := by
  cases h with
  | grp h => exact h

theorem Matches.opt_inv {a : Re} {u : List Char} (h : Matches (.opt a) u) :
    u = [] ∨ Matches a u := by
  cases h with
  | optNone => exact .inl rfl
  | optSome h => exact .inr h

theorem Matches.plus_inv {a : Re} {w : List Char} (h : Matches (.plus a) w) :
    ∃ u v, w = u ++ v ∧ Matches a u ∧ Matches (.star a) v := by
  cases h with
  | plus hu hv => exact ⟨_, _, rfl, hu, hv⟩

theorem Matches.rep_zero_inv {a : Re} {u : List Char} (h : Matches (.rep 0 a) u) : u = [] := by
  cases h; rfl

theorem Matches.rep_succ_inv {a : Re} {n : Nat} {w : List Char} (h : Matches (.rep (n + 1) a) w) :
    ∃ u v, w = u ++ v ∧ Matches a u ∧ Matches (.rep n a) v := by
  cases h with
  | repSucc hu hv => exact ⟨_, _, rfl, hu, hv⟩

/-- One step of `*`. -/
theorem Matches.star_inv {a : Re} {w : List Char} (h : Matches (.star a) w) :
    w = [] ∨ ∃ u v, w = u ++ v ∧ Matches a u ∧ Matches (.star a) v := by
  cases h with
  | starNil => exact .inl rfl
  | starCons hu hv => exact .inr ⟨_, _, rfl, hu, hv⟩

/-- The iterations of `*` can be taken non-empty. -/
theorem Matches.star_inv_ne {a : Re} {w : List Char} (h : Matches (.star a) w) :
    w = [] ∨ ∃ u v, w = u ++ v ∧ u ≠ [] ∧ Matches a u ∧ Matches (.star a) v := by
  generalize hr : Re.star a = r at h
  induction h with
  | starNil => exact .inl rfl
  | @starCons a' u v hu hv _ ihv =>
    cases hr
    by_cases hne : u = []
    · subst hne
      simpa using ihv rfl
    · exact .inr ⟨u, v, rfl, hne, hu, hv⟩
  | _ => cases hr

theorem Matches.star_of_plus {a : Re} {w : List Char} (h : Matches (.plus a) w) :
    Matches (.star a) w := by
  obtain ⟨u, v, rfl, hu, hv⟩ := h.plus_inv
  exact .starCons hu hv

/-- Induction on the iterations of a `*`. -/
theorem Matches.star_induction {a : Re} {P : List Char → Prop} (nil : P [])
    (cons : ∀ u v, Matches a u → Matches (.star a) v → P v → P (u ++ v))
    {w : List Char} (h : Matches (.star a) w) : P w := by
  generalize hr : Re.star a = r at h
  induction h with
  | starNil => exact nil
  | @starCons a' u v hu hv _ ihv =>
    cases hr
    exact cons u v hu hv (ihv rfl)
  | _ => cases hr

/-! ## Fuel of the loop -/

theorem loop_fuel_eq (f : List Char → (List Char → Option β) → Option β)
    (k : List Char → Option β) :
    ∀ (n m : Nat) (s : List Char), s.length < n → s.length < m → loop f k n s = loop f k m s := by
  intro n
  induction n with
  | zero => intro m s h; omega
  | succ n ih =>
    intro m s hn hm
    cases m with
    | zero => omega
    | succ m =>
      simp only [loop]
      congr 2
      funext s'
      split
      · rename_i hlt
        exact ih m s' (by omega) (by omega)
      · rfl

/-- More fuel than the input length plus one changes nothing. -/
theorem loop_fuel (f : List Char → (List Char → Option β) → Option β)
    (k : List Char → Option β) (n : Nat) (s : List Char) (h : s.length < n) :
    loop f k n s = loop f k (s.length + 1) s :=
  loop_fuel_eq f k n _ s h (Nat.lt_succ_self _)

/-! ## Soundness -/

/-- what soundness says of a matcher `f` for the expression `a` -/
def SoundFor (a : Re) (f : List Char → (List Char → Option β) → Option β) : Prop :=
  ∀ s k x, f s k = some x → ∃ u v, s = u ++ v ∧ Matches a u ∧ k v = some x

/-- what completeness says of a matcher `f` for the expression `a` -/
def CompleteFor (a : Re) (f : List Char → (List Char → Option β) → Option β) : Prop :=
  ∀ s k, f s k = none → ∀ u v, s = u ++ v → Matches a u → k v = none

theorem loop_sound {a : Re} {f : List Char → (List Char → Option β) → Option β}
    (hf : SoundFor a f) (k : List Char → Option β) :
    ∀ n s x, loop f k n s = some x → ∃ u v, s = u ++ v ∧ Matches (.star a) u ∧ k v = some x := by
  intro n
  induction n with
  | zero => intro s x h; simp [loop] at h
  | succ n ih =>
    intro s x h
    simp only [loop] at h
    rcases orElse_eq_some.mp h with h1 | ⟨_, h2⟩
    · obtain ⟨u, v, rfl, hu, hk⟩ := hf _ _ _ h1
      split at hk
      · obtain ⟨u', v', rfl, hu', hk'⟩ := ih _ _ hk
        exact ⟨u ++ u', v', by simp, .starCons hu hu', hk'⟩
      · cases hk
    · exact ⟨[], s, rfl, .starNil, h2⟩

theorem plusM_sound {a : Re} {f : List Char → (List Char → Option β) → Option β}
    (hf : SoundFor a f) : SoundFor (.plus a) (plusM f) := by
  intro s k x h
  obtain ⟨u, v, rfl, hu, hk⟩ := hf _ _ _ h
  split at hk
  · obtain ⟨u', v', rfl, hu', hk'⟩ := loop_sound hf k _ _ _ hk
    exact ⟨u ++ u', v', by simp, .plus hu hu', hk'⟩
  · exact ⟨u, v, rfl, by simpa using Matches.plus hu .starNil, hk⟩

theorem repM_sound {a : Re} {f : List Char → (List Char → Option β) → Option β}
    (hf : SoundFor a f) (k : List Char → Option β) :
    ∀ n s x, repM f k n s = some x → ∃ u v, s = u ++ v ∧ Matches (.rep n a) u ∧ k v = some x := by
  intro n
  induction n with
  | zero => intro s x h; exact ⟨[], s, rfl, .repZero, h⟩
  | succ n ih =>
    intro s x h
    simp only [repM] at h
    obtain ⟨u, v, rfl, hu, hk⟩ := hf _ _ _ h
    obtain ⟨u', v', rfl, hu', hk'⟩ := ih _ _ hk
    exact ⟨u ++ u', v', by simp, .repSucc hu hu', hk'⟩

/-- **Soundness.**  Whatever `r.m s k` returns, `k` returned it after a prefix of `s` that is
in the language of `r`. -/
theorem m_sound (r : Re) : SoundFor (β := β) r r.m := by
  induction r with
  | eps => intro s k x h; exact ⟨[], s, rfl, .eps, h⟩
  | chr c =>
    intro s k x h
    cases s with
    | nil => simp [Re.m] at h
    | cons y ys =>
      simp only [Re.m] at h
      split at h
      · rename_i hy; subst hy; exact ⟨[y], ys, rfl, .chr y, h⟩
      · cases h
  | esc c =>
    intro s k x h
    cases s with
    | nil => simp [Re.m] at h
    | cons y ys =>
      simp only [Re.m] at h
      split at h
      · rename_i hy; subst hy; exact ⟨[y], ys, rfl, .esc y, h⟩
      · cases h
  | cls neg items =>
    intro s k x h
    cases s with
    | nil => simp [Re.m] at h
    | cons y ys =>
      simp only [Re.m] at h
      split at h
      · rename_i hy; exact ⟨[y], ys, rfl, .cls hy, h⟩
      · cases h
  | cat a b iha ihb =>
    intro s k x h
    simp only [Re.m] at h
    obtain ⟨u, v, rfl, hu, hk⟩ := iha _ _ _ h
    obtain ⟨u', v', rfl, hu', hk'⟩ := ihb _ _ _ hk
    exact ⟨u ++ u', v', by simp, .cat hu hu', hk'⟩
  | alt a b iha ihb =>
    intro s k x h
    simp only [Re.m] at h
    rcases orElse_eq_some.mp h with h1 | ⟨_, h2⟩
    · obtain ⟨u, v, rfl, hu, hk⟩ := iha _ _ _ h1
      exact ⟨u, v, rfl, .altL hu, hk⟩
    · obtain ⟨u, v, rfl, hu, hk⟩ := ihb _ _ _ h2
      exact ⟨u, v, rfl, .altR hu, hk⟩
  | grp a iha =>
    intro s k x h
    simp only [Re.m] at h
    obtain ⟨u, v, rfl, hu, hk⟩ := iha _ _ _ h
    exact ⟨u, v, rfl, .grp hu, hk⟩
  | star a iha =>
    intro s k x h
    simp only [Re.m] at h
    rcases orElse_eq_some.mp h with h1 | ⟨_, h2⟩
    · obtain ⟨u, v, rfl, hu, hk⟩ := plusM_sound iha _ _ _ h1
      exact ⟨u, v, rfl, hu.star_of_plus, hk⟩
    · exact ⟨[], s, rfl, .starNil, h2⟩
  | plus a iha =>
    intro s k x h
    simp only [Re.m] at h
    exact plusM_sound iha _ _ _ h
  | opt a iha =>
    intro s k x h
    simp only [Re.m] at h
    rcases orElse_eq_some.mp h with h1 | ⟨_, h2⟩
    · obtain ⟨u, v, rfl, hu, hk⟩ := iha _ _ _ h1
      exact ⟨u, v, rfl, .optSome hu, hk⟩
    · exact ⟨[], s, rfl, .optNone, h2⟩
  | rep n a iha =>
    intro s k x h
    simp only [Re.m] at h
    exact repM_sound iha k n s x h

/-! ## Completeness -/

theorem loop_complete {a : Re} {f : List Char → (List Char → Option β) → Option β}
    (hf : CompleteFor a f) (k : List Char → Option β) :
    ∀ n s, s.length < n → loop f k n s = none →
      ∀ u v, s = u ++ v → Matches (.star a) u → k v = none := by
  intro n
  induction n with
  | zero => intro s hn; omega
  | succ n ih =>
    intro s hn h u v hs hu
    simp only [loop] at h
    obtain ⟨h1, h2⟩ := orElse_eq_none.mp h
    rcases hu.star_inv_ne with rfl | ⟨u1, u2, rfl, hne, hu1, hu2⟩
    · simpa [hs] using h2
    · have hk := hf _ _ h1 u1 (u2 ++ v) (by simp [hs]) hu1
      have hlen : 0 < u1.length := List.length_pos_iff.mpr hne
      have hlt : (u2 ++ v).length < s.length := by
        subst hs; simp only [List.length_append] at *; omega
      rw [if_pos hlt] at hk
      exact ih _ (by omega) hk u2 v rfl hu2

theorem plusM_complete {a : Re} {f : List Char → (List Char → Option β) → Option β}
    (hf : CompleteFor a f) : CompleteFor (.plus a) (plusM f) := by
  intro s k h w v hs hw
  obtain ⟨u1, u2, rfl, hu1, hu2⟩ := hw.plus_inv
  -- after a non-empty first iteration the loop is entered
  have key : ∀ x y z, s = x ++ (y ++ z) → x ≠ [] → Matches a x → Matches (.star a) y →
      k z = none := by
    intro x y z hs' hne hx hy
    have hk := hf _ _ h x (y ++ z) hs' hx
    have hlen : 0 < x.length := List.length_pos_iff.mpr hne
    have hlt : (y ++ z).length < s.length := by
      subst hs'; simp only [List.length_append] at *; omega
    rw [if_pos hlt] at hk
    exact loop_complete hf k _ _ (Nat.lt_succ_self _) hk y z rfl hy
  by_cases hne : u1 = []
  · subst hne
    have hk := hf _ _ h [] (u2 ++ v) (by simpa using hs) hu1
    have hs2 : s = u2 ++ v := by simpa using hs
    rw [if_neg (by rw [hs2]; omega)] at hk
    rcases hu2.star_inv_ne with rfl | ⟨x, y, rfl, hx, hxa, hy⟩
    · simpa using hk
    · exact key x y v (by simp [hs2]) hx hxa hy
  · exact key u1 u2 v (by simp [hs]) hne hu1 hu2

theorem repM_complete {a : Re} {f : List Char → (List Char → Option β) → Option β}
    (hf : CompleteFor a f) (k : List Char → Option β) :
    ∀ n s, repM f k n s = none → ∀ u v, s = u ++ v → Matches (.rep n a) u → k v = none := by
  intro n
  induction n with
  | zero =>
    intro s h u v hs hu
    have := hu.rep_zero_inv; subst this
    simpa [hs, repM] using h
  | succ n ih =>
    intro s h w v hs hw
    obtain ⟨u1, u2, rfl, hu1, hu2⟩ := hw.rep_succ_inv
    simp only [repM] at h
    have hk := hf _ _ h u1 (u2 ++ v) (by simp [hs]) hu1
    exact ih _ hk u2 v rfl hu2

/-- **Completeness.**  `r.m s k` fails only if `k` fails after every prefix of `s` in the
language of `r` (in particular the fuel of the loops never runs out). -/
theorem m_complete (r : Re) : CompleteFor (β := β) r r.m := by
  induction r with
  | eps =>
    intro s k h u v hs hu
    have := hu.eps_inv; subst this
    simpa [hs, Re.m] using h
  | chr c =>
    intro s k h u v hs hu
    have := hu.chr_inv; subst this; subst hs
    simpa [Re.m] using h
  | esc c =>
    intro s k h u v hs hu
    have := hu.esc_inv; subst this; subst hs
    simpa [Re.m] using h
  | cls neg items =>
    intro s k h u v hs hu
    obtain ⟨x, rfl, hx⟩ := hu.cls_inv
    subst hs
    simpa [Re.m, hx] using h
  | cat a b iha ihb =>
    intro s k h w v hs hw
    obtain ⟨u1, u2, rfl, hu1, hu2⟩ := hw.cat_inv
    simp only [Re.m] at h
    have hk := iha _ _ h u1 (u2 ++ v) (by simp [hs]) hu1
    exact ihb _ _ hk u2 v rfl hu2
  | alt a b iha ihb =>
    intro s k h u v hs hu
    simp only [Re.m] at h
    obtain ⟨h1, h2⟩ := orElse_eq_none.mp h
    rcases hu.alt_inv with hu | hu
    · exact iha _ _ h1 u v hs hu
    · exact ihb _ _ h2 u v hs hu
  | grp a iha =>
    intro s k h u v hs hu
    simp only [Re.m] at h
    exact iha _ _ h u v hs hu.grp_inv
  | star a iha =>
    intro s k h u v hs hu
    simp only [Re.m] at h
    obtain ⟨h1, h2⟩ := orElse_eq_none.mp h
    rcases hu.star_inv with rfl | ⟨u1, u2, rfl, hu1, hu2⟩
    · simpa [hs] using h2
    · exact plusM_complete iha _ _ h1 (u1 ++ u2) v hs (.plus hu1 hu2)
  | plus a iha =>
    intro s k h u v hs hu
    simp only [Re.m] at h
    exact plusM_complete iha _ _ h u v hs hu
  | opt a iha =>
    intro s k h u v hs hu
    simp only [Re.m] at h
    obtain ⟨h1, h2⟩ := orElse_eq_none.mp h
    rcases hu.opt_inv with rfl | hu
    · simpa [hs] using h2
    · exact iha _ _ h1 u v hs hu
  | rep n a iha =>
    intro s k h u v hs hu
    simp only [Re.m] at h
    exact repM_complete iha k n s h u v hs hu

/-! ## `matchLen` -/

/-- `matchLen` returns the length of a prefix in the language. -/
theorem matchLen_sound {r : Re} {s : List Char} {n : Nat} (h : r.matchLen s = some n) :
    ∃ u v, s = u ++ v ∧ Matches r u ∧ n = u.length := by
  obtain ⟨u, v, rfl, hu, hk⟩ := m_sound r _ _ _ h
  refine ⟨u, v, rfl, hu, ?_⟩
  simp only [List.length_append, Option.some.injEq] at hk
  omega

/-- `matchLen` fails only if no prefix is in the language. -/
theorem matchLen_complete {r : Re} {s : List Char} (h : r.matchLen s = none) :
    ∀ u v, s = u ++ v → ¬ Matches r u := by
  intro u v hs hu
  have := m_complete r _ _ h u v hs hu
  simp at this

theorem matchLen_isSome_iff {r : Re} {s : List Char} :
    (r.matchLen s).isSome = true ↔ ∃ u v, s = u ++ v ∧ Matches r u := by
  constructor
  · intro h
    obtain ⟨n, hn⟩ := Option.isSome_iff_exists.mp h
    obtain ⟨u, v, hs, hu, _⟩ := matchLen_sound hn
    exact ⟨u, v, hs, hu⟩
  · rintro ⟨u, v, hs, hu⟩
    cases h : r.matchLen s with
    | none => exact absurd hu (matchLen_complete h u v hs)
    | some n => rfl

/-- The prefix returned, as a `take`. -/
theorem matchLen_take {r : Re} {s : List Char} {n : Nat} (h : r.matchLen s = some n) :
    n ≤ s.length ∧ Matches r (s.take n) := by
  obtain ⟨u, v, rfl, hu, rfl⟩ := matchLen_sound h
  simp [hu]

/-- If `f` finds every word of the language in front of anything, and finds only words of the
language, then `f` is `matchLen` (and the language has at most one word among the prefixes of
any input, so no priority or convention enters). -/
theorem matchLen_eq_of_unique {r : Re} {f : List Char → Option Nat}
    (h1 : ∀ u v, Matches r u → f (u ++ v) = some u.length)
    (h2 : ∀ s n, f s = some n → ∃ u v, s = u ++ v ∧ Matches r u) (s : List Char) :
    f s = r.matchLen s := by
  cases h : r.matchLen s with
  | some n =>
    obtain ⟨u, v, rfl, hu, rfl⟩ := matchLen_sound h
    exact h1 u v hu
  | none =>
    cases hf : f s with
    | none => rfl
    | some n =>
      obtain ⟨u, v, hs, hu⟩ := h2 s n hf
      exact absurd hu (matchLen_complete h u v hs)

/-- At most one prefix of any input is in the language. -/
def UniquePrefix (r : Re) : Prop :=
  ∀ u v u' v', u ++ v = u' ++ v' → Matches r u → Matches r u' → u = u'

theorem uniquePrefix_of {r : Re} {f : List Char → Option Nat}
    (h1 : ∀ u v, Matches r u → f (u ++ v) = some u.length) : UniquePrefix r := by
  intro u v u' v' hs hu hu'
  have e1 := h1 u v hu
  have e2 := h1 u' v' hu'
  rw [hs, e2] at e1
  have hl : u'.length = u.length := by simpa using e1
  have := congrArg (List.take u.length) hs
  rw [List.take_left, ← hl, List.take_left] at this
  exact this

/-- With a unique prefix in the language, `matchLen` is determined by the language alone. -/
theorem matchLen_of_unique {r : Re} (hu : UniquePrefix r) {u v : List Char} (h : Matches r u) :
    r.matchLen (u ++ v) = some u.length := by
  cases hm : r.matchLen (u ++ v) with
  | none => exact absurd h (matchLen_complete hm u v rfl)
  | some n =>
    obtain ⟨u', v', hs, hu', rfl⟩ := matchLen_sound hm
    rw [hu u v u' v' hs h hu']

/-! ## Expressions that do not match the empty word -/

theorem nullable_of_matches {r : Re} {u : List Char} (h : Matches r u) :
    u = [] → r.nullable = true := by
  induction h with
  | eps => intro _; rfl
  | chr c => intro h; cases h
  | esc c => intro h; cases h
  | cls _ => intro h; cases h
  | cat _ _ iha ihb =>
    intro h
    have := List.append_eq_nil_iff.mp h
    simp [nullable, iha this.1, ihb this.2]
  | altL _ ih => intro h; simp [nullable, ih h]
  | altR _ ih => intro h; simp [nullable, ih h]
  | grp _ ih => intro h; simpa [nullable] using ih h
  | starNil => intro _; rfl
  | starCons _ _ _ _ => intro _; rfl
  | plus _ _ iha _ =>
    intro h
    have := List.append_eq_nil_iff.mp h
    simpa [nullable] using iha this.1
  | optNone => intro _; rfl
  | optSome _ _ => intro _; rfl
  | repZero => intro _; rfl
  | repSucc _ _ iha _ =>
    intro h
    have := List.append_eq_nil_iff.mp h
    simp [nullable, iha this.1]

/-- A match of an expression that is not nullable is not empty. -/
theorem matchLen_pos {r : Re} (hr : r.nullable = false) {s : List Char} {n : Nat}
    (h : r.matchLen s = some n) : 0 < n := by
  obtain ⟨u, v, _, hu, rfl⟩ := matchLen_sound h
  cases u with
  | nil => rw [nullable_of_matches hu rfl] at hr; cases hr
  | cons c t => simp

/-- For an expression that is not nullable, Go's "`found == ""` is not matched" changes
nothing. -/
theorem find_eq_matchLen {r : Re} (hr : r.nullable = false) (s : List Char) :
    r.find s = r.matchLen s := by
  unfold find
  cases h : r.matchLen s with
  | none => rfl
  | some n =>
    have := matchLen_pos hr h
    cases n with
    | zero => omega
    | succ n => rfl

end Re
end Yae

#print axioms Yae.Re.m_sound
#print axioms Yae.Re.m_complete
#print axioms Yae.Re.loop_fuel
#print axioms Yae.Re.matchLen_eq_of_unique
#print axioms Yae.Re.matchLen_of_unique
