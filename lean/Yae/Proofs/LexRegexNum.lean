/-
  The hand-written recognisers of `Yae.Model.Lexer` against the reference matcher `Re.m`:
  the numeric patterns, the symbol pattern, the raw-string and time patterns, `keywordPostfix`
  and `oper.IsIdentOp`.  Here the PRIORITIES matter (several prefixes of the input are in the
  language): the lemmas say when the greedy choice is the leftmost-first one, namely when the
  continuation succeeds right after the greedy choice or rejects every input that starts with
  a character the loop could have given back.
-/
import Yae.Proofs.LexRegexBase
namespace Yae
namespace Re

variable {β : Type}

/-! ## Unfolding `Re.m` one constructor at a time -/

theorem m_cat (a b : Re) (s : List Char) (k : List Char → Option β) :
    (cat a b).m s k = a.m s (fun s' => b.m s' k) := by simp only [Re.m]
theorem m_alt (a b : Re) (s : List Char) (k : List Char → Option β) :
    (alt a b).m s k = orElse (a.m s k) (fun _ => b.m s k) := by simp only [Re.m]
theorem m_grp (a : Re) (s : List Char) (k : List Char → Option β) :
    (grp a).m s k = a.m s k := by simp only [Re.m]
theorem m_opt (a : Re) (s : List Char) (k : List Char → Option β) :
    (opt a).m s k = orElse (a.m s k) (fun _ => k s) := by simp only [Re.m]
theorem m_star (a : Re) (s : List Char) (k : List Char → Option β) :
    (star a).m s k = orElse (plusM a.m s k) (fun _ => k s) := by simp only [Re.m]
theorem m_plus (a : Re) (s : List Char) (k : List Char → Option β) :
    (plus a).m s k = plusM a.m s k := by simp only [Re.m]

/-- `a` matches exactly one character, one that satisfies `p`. -/
def IsChar (a : Re) (p : Char → Bool) : Prop :=
  ∀ (β : Type) (s : List Char) (k : List Char → Option β),
    a.m s k = match s with
      | c :: cs => if p c = true then k cs else none
      | [] => none

theorem isChar_cls (neg : Bool) (items : List CItem) :
    IsChar (.cls neg items) (clsTest neg items) := by
  intro β s k; cases s <;> simp [Re.m]

theorem isChar_chr (c : Char) : IsChar (.chr c) (· == c) := by
  intro β s k; cases s <;> simp [Re.m]

theorem isChar_esc (c : Char) : IsChar (.esc c) (· == c) := by
  intro β s k; cases s <;> simp [Re.m]

theorem IsChar.congr {a : Re} {p q : Char → Bool} (h : IsChar a p) (hpq : ∀ c, p c = q c) :
    IsChar a q := by
  have : p = q := funext hpq
  subst this; exact h

/-! ## `skipWhile` -/

theorem skipWhile_length (p : Char → Bool) (s : List Char) :
    (skipWhile p s).1 + (skipWhile p s).2.length = s.length := by
  induction s with
  | nil => simp [skipWhile]
  | cons c t ih =>
    simp only [skipWhile]
    split
    · simp only [List.length_cons]; omega
    · simp

theorem skipWhile_length_le (p : Char → Bool) (s : List Char) :
    (skipWhile p s).2.length ≤ s.length := by
  have := skipWhile_length p s; omega

theorem skipWhile_pos {p : Char → Bool} {c : Char} (t : List Char) (h : p c = true) :
    skipWhile p (c :: t) = ((skipWhile p t).1 + 1, (skipWhile p t).2) := by
  simp [skipWhile, h]

theorem skipWhile_neg {p : Char → Bool} {c : Char} (t : List Char) (h : p c = false) :
    skipWhile p (c :: t) = (0, c :: t) := by
  simp [skipWhile, h]

/-- The rest after the greedy run is empty iff all characters are in the class. -/
theorem skipWhile_rest_nil (p : Char → Bool) (s : List Char) :
    (skipWhile p s).2 = [] ↔ s.all p = true := by
  induction s with
  | nil => simp [skipWhile]
  | cons c t ih =>
    cases hc : p c
    · simp [skipWhile_neg t hc, hc]
    · simp [skipWhile_pos t hc, hc, ih]

/-- The greedy run of `u ++ post` is `u` when `u` is in the class and `post` does not go on. -/
theorem skipWhile_append {p : Char → Bool} {u post : List Char} (hu : u.all p = true)
    (hpost : ∀ c t, post = c :: t → p c = false) : skipWhile p (u ++ post) = (u.length, post) := by
  induction u with
  | nil =>
    cases post with
    | nil => simp [skipWhile]
    | cons c t => simp [skipWhile_neg t (hpost c t rfl)]
  | cons c t ih =>
    simp only [List.all_cons, Bool.and_eq_true] at hu
    simp [skipWhile_pos _ hu.1, ih hu.2]

/-! ## Greedy loops over one character class -/

/-- `k` rejects every input that starts with a character of the class. -/
def Rejects (p : Char → Bool) (k : List Char → Option β) : Prop :=
  ∀ c t, p c = true → k (c :: t) = none

/-- The condition under which the greedy run of `[p]*` is the leftmost-first choice when `r`
is the rest after that run: the continuation succeeds on `r`, or no shorter run can help. -/
def OK (p : Char → Bool) (k : List Char → Option β) (r : List Char) : Prop :=
  (k r).isSome = true ∨ Rejects p k

theorem OK.of_total {p : Char → Bool} {k : List Char → Option β} (h : ∀ r, (k r).isSome = true)
    (r : List Char) : OK p k r := .inl (h r)

theorem orElse_ok {p : Char → Bool} {k : List Char → Option β} {r : List Char} (h : OK p k r)
    {c : Char} (t : List Char) (hc : p c = true) : orElse (k r) (fun _ => k (c :: t)) = k r := by
  rcases h with h | h
  · exact orElse_of_isSome _ h
  · rw [h c t hc]; exact orElse_none_right _

theorem loop_char {a : Re} {p : Char → Bool} (ha : IsChar a p) (k : List Char → Option β) :
    ∀ n s, s.length < n → OK p k (skipWhile p s).2 → loop a.m k n s = k (skipWhile p s).2 := by
  intro n
  induction n with
  | zero => intro s h; omega
  | succ n ih =>
    intro s hn hok
    simp only [loop]
    rw [ha]
    cases s with
    | nil => simp [skipWhile]
    | cons c t =>
      cases hc : p c
      · simp [skipWhile_neg t hc, hc]
      · rw [skipWhile_pos t hc] at hok ⊢
        simp only [hc, if_true, List.length_cons, Nat.lt_succ_self]
        rw [ih t (by simp at hn; omega) hok]
        exact orElse_ok hok t hc

/-- `[p]*` followed by `k`: the greedy run, no backtracking needed. -/
theorem star_char {a : Re} {p : Char → Bool} (ha : IsChar a p) (s : List Char)
    (k : List Char → Option β) (hok : OK p k (skipWhile p s).2) :
    (star a).m s k = k (skipWhile p s).2 := by
  rw [m_star, plusM, ha]
  cases s with
  | nil => simp [skipWhile]
  | cons c t =>
    cases hc : p c
    · simp [skipWhile_neg t hc, hc]
    · rw [skipWhile_pos t hc] at hok ⊢
      simp only [hc, if_true, List.length_cons, Nat.lt_succ_self]
      rw [loop_char ha k _ t (Nat.lt_succ_self _) hok]
      exact orElse_ok hok t hc

/-- `[p]+` followed by `k`. -/
theorem plus_char {a : Re} {p : Char → Bool} (ha : IsChar a p) (s : List Char)
    (k : List Char → Option β) (hok : ∀ r, r.length < s.length → OK p k r) :
    (plus a).m s k = match s with
      | c :: t => if p c = true then k (skipWhile p t).2 else none
      | [] => none := by
  rw [m_plus, plusM, ha]
  cases s with
  | nil => rfl
  | cons c t =>
    cases hc : p c
    · simp [hc]
    · have hr : (skipWhile p t).2.length < (c :: t).length := by
        have := skipWhile_length_le p t; simp only [List.length_cons]; omega
      simp only [hc, if_true, List.length_cons, Nat.lt_succ_self]
      exact loop_char ha k _ t (Nat.lt_succ_self _) (hok _ hr)

/-! ## The pieces of the numeric patterns -/

theorem clsTest_digit (c : Char) : clsTest false [.range '0' '9'] c = isDigit c := by
  simp [clsTest, CItem.test, isDigit]

theorem isChar_digit : IsChar digit09 isDigit := (isChar_cls _ _).congr clsTest_digit

theorem reDigits1_cons (c : Char) (t : List Char) :
    reDigits1 (c :: t) =
      if isDigit c = true then some ((skipWhile isDigit t).1 + 1, (skipWhile isDigit t).2)
      else none := by
  cases hc : isDigit c
  · simp [reDigits1, skipWhile_neg t hc]
  · simp [reDigits1, skipWhile_pos t hc]

theorem reDigits1_nil : reDigits1 [] = none := by simp [reDigits1, skipWhile]

/-- `[0-9]+` -/
theorem digits1_m (s : List Char) (k : List Char → Option β)
    (hok : ∀ r, r.length < s.length → OK isDigit k r) :
    (plus digit09).m s k = match reDigits1 s with
      | none => none
      | some (_, r) => k r := by
  rw [plus_char isChar_digit s k hok]
  cases s with
  | nil => simp [reDigits1_nil]
  | cons c t =>
    rw [reDigits1_cons]
    cases hc : isDigit c <;> simp [hc]

theorem reDigits1_length {s r : List Char} {n : Nat} (h : reDigits1 s = some (n, r)) :
    n + r.length = s.length ∧ 0 < n := by
  cases s with
  | nil => simp [reDigits1_nil] at h
  | cons c t =>
    rw [reDigits1_cons] at h
    split at h
    · simp only [Option.some.injEq, Prod.mk.injEq] at h
      have := skipWhile_length isDigit t
      obtain ⟨rfl, rfl⟩ := h
      simp only [List.length_cons]; omega
    · cases h

theorem not_digit_of {c : Char} {l : List Char} (hl : l.all (fun x => !isDigit x) = true)
    (hc : c ∈ l) : isDigit c = false := by
  have := List.all_eq_true.mp hl c hc
  simpa using this

/-- `(?:0|[1-9][0-9]*)` -/
theorem intPart_m (s : List Char) (k : List Char → Option β)
    (hok : ∀ r, r.length < s.length → OK isDigit k r) :
    intPart.m s k = match reIntPart s with
      | none => none
      | some (_, r) => k r := by
  cases s with
  | nil => simp [intPart, Re.m, reIntPart]
  | cons c t =>
    have hstar : (star digit09).m t k = k (skipWhile isDigit t).2 :=
      star_char isChar_digit t k (hok _ (by
        have := skipWhile_length_le isDigit t; simp only [List.length_cons]; omega))
    simp only [intPart, m_grp, m_alt, m_cat, isChar_chr '0' _ _ _, isChar_cls _ _ _ _ _, hstar,
      reIntPart]
    by_cases h0 : c = '0'
    · subst h0
      simp [clsTest, CItem.test, orElse_none_right]
    · simp [h0, clsTest, CItem.test]
      split <;> rfl

theorem reIntPart_length {s r : List Char} {n : Nat} (h : reIntPart s = some (n, r)) :
    n + r.length = s.length ∧ 0 < n := by
  cases s with
  | nil => simp [reIntPart] at h
  | cons c t =>
    simp only [reIntPart] at h
    have := skipWhile_length isDigit t
    split at h
    · simp only [Option.some.injEq, Prod.mk.injEq] at h
      obtain ⟨rfl, rfl⟩ := h; simp only [List.length_cons]; omega
    · split at h
      · simp only [Option.some.injEq, Prod.mk.injEq] at h
        obtain ⟨rfl, rfl⟩ := h; simp only [List.length_cons]; omega
      · cases h

/-- `(?:[.][0-9]+)` -/
theorem fracG_m (s : List Char) (k : List Char → Option β)
    (hok : ∀ r, r.length < s.length → OK isDigit k r) :
    fracG.m s k = match reFrac s with
      | none => none
      | some (_, r) => k r := by
  cases s with
  | nil => simp [fracG, Re.m, reFrac]
  | cons c t =>
    have hd : (plus digit09).m t k = match reDigits1 t with
        | none => none
        | some (_, r) => k r :=
      digits1_m t k (fun r hr => hok r (by simp only [List.length_cons]; omega))
    simp only [fracG, m_grp, m_cat, isChar_cls _ _ _ _ _, hd, reFrac]
    by_cases h0 : c = '.'
    · subst h0
      simp [clsTest, CItem.test]
      cases reDigits1 t with
      | none => rfl
      | some x => rfl
    · simp [h0, clsTest, CItem.test]

theorem reFrac_length {s r : List Char} {n : Nat} (h : reFrac s = some (n, r)) :
    n + r.length = s.length ∧ 1 < n := by
  cases s with
  | nil => simp [reFrac] at h
  | cons c t =>
    simp only [reFrac] at h
    split at h
    · cases hd : reDigits1 t with
      | none => simp [hd] at h
      | some x =>
        obtain ⟨m, r'⟩ := x
        simp only [hd, Option.some.injEq, Prod.mk.injEq] at h
        obtain ⟨rfl, rfl⟩ := h
        have := reDigits1_length hd
        simp only [List.length_cons]; omega
    · cases h

/-- `(?:[eE][-+]?[0-9]+)`.  When the sign is taken and no digit follows, the retry without
the sign needs a digit where the sign is. -/
theorem expG_m (s : List Char) (k : List Char → Option β)
    (hok : ∀ r, r.length < s.length → OK isDigit k r) :
    expG.m s k = match reExp s with
      | none => none
      | some (_, r) => k r := by
  cases s with
  | nil => simp [expG, Re.m, reExp]
  | cons e t =>
    have hd : ∀ t' : List Char, t'.length ≤ t.length → (plus digit09).m t' k = match reDigits1 t' with
        | none => none
        | some (_, r) => k r := fun t' ht' =>
      digits1_m t' k (fun r hr => hok r (by simp only [List.length_cons]; omega))
    simp only [expG, m_grp, m_cat, m_opt, isChar_cls _ _ _ _ _, reExp]
    by_cases he : e = 'e' ∨ e = 'E'
    · have he' : clsTest false [.ch 'e', .ch 'E'] e = true := by
        rcases he with rfl | rfl <;> decide
      have he'' : (e == 'e' || e == 'E') = true := by
        rcases he with rfl | rfl <;> decide
      simp only [he', he'', if_true]
      cases t with
      | nil => simp [hd [] (Nat.le_refl _), reDigits1_nil]
      | cons sg t' =>
        by_cases hs : sg = '-' ∨ sg = '+'
        · have hs' : clsTest false [.ch '-', .ch '+'] sg = true := by
            rcases hs with rfl | rfl <;> decide
          have hs'' : (sg == '-' || sg == '+') = true := by
            rcases hs with rfl | rfl <;> decide
          have hnd : isDigit sg = false := by
            rcases hs with rfl | rfl <;> decide
          simp only [hs', hs'', if_true]
          rw [hd t' (by simp), hd (sg :: t') (Nat.le_refl _), reDigits1_cons]
          simp only [hnd, Bool.false_eq_true, if_false, orElse_none_right]
          cases reDigits1 t' with
          | none => rfl
          | some x => rfl
        · have hs' : clsTest false [.ch '-', .ch '+'] sg = false := by
            simp only [not_or] at hs
            simp [clsTest, CItem.test, hs.1, hs.2]
          have hs'' : (sg == '-' || sg == '+') = false := by
            simp only [not_or] at hs
            simp [hs.1, hs.2]
          simp only [hs', hs'', Bool.false_eq_true, if_false, orElse_none]
          rw [hd (sg :: t') (Nat.le_refl _)]
          cases reDigits1 (sg :: t') with
          | none => rfl
          | some x => rfl
    · have he' : clsTest false [.ch 'e', .ch 'E'] e = false := by
        simp only [not_or] at he
        simp [clsTest, CItem.test, he.1, he.2]
      have he'' : (e == 'e' || e == 'E') = false := by
        simp only [not_or] at he
        simp [he.1, he.2]
      simp [he', he'']

theorem reExp_length {s r : List Char} {n : Nat} (h : reExp s = some (n, r)) :
    n + r.length = s.length ∧ 1 < n := by
  cases s with
  | nil => simp [reExp] at h
  | cons e t =>
    simp only [reExp] at h
    split at h
    · cases t with
      | nil => simp at h
      | cons sg t' =>
        simp only at h
        split at h
        · cases hd : reDigits1 t' with
          | none => simp [hd] at h
          | some x =>
            obtain ⟨m, r'⟩ := x
            simp only [hd, Option.some.injEq, Prod.mk.injEq] at h
            obtain ⟨rfl, rfl⟩ := h
            have := reDigits1_length hd
            simp only [List.length_cons]; omega
        · cases hd : reDigits1 (sg :: t') with
          | none => simp [hd] at h
          | some x =>
            obtain ⟨m, r'⟩ := x
            simp only [hd, Option.some.injEq, Prod.mk.injEq] at h
            obtain ⟨rfl, rfl⟩ := h
            have := reDigits1_length hd
            simp only [List.length_cons] at this ⊢; omega
    · cases h

/-! ## Greedy loops over a piece (`(?:[.][0-9]+)*`, `(?:[eE][-+]?[0-9]+)*`) -/

/-- `a` is matched by the deterministic recogniser `f` whenever the continuation is fine after
shorter rests (the hypothesis the pieces above need). -/
def IsPiece (a : Re) (f : List Char → Option (Nat × List Char)) : Prop :=
  (∀ (β : Type) (s : List Char) (k : List Char → Option β),
    (∀ r, r.length < s.length → OK isDigit k r) →
    a.m s k = match f s with
      | none => none
      | some (_, r) => k r) ∧
  (∀ s n r, f s = some (n, r) → n + r.length = s.length ∧ 1 < n)

theorem isPiece_frac : IsPiece fracG reFrac :=
  ⟨fun _ s k h => fracG_m s k h, fun _ _ _ h => reFrac_length h⟩

theorem isPiece_exp : IsPiece expG reExp :=
  ⟨fun _ s k h => expG_m s k h, fun _ _ _ h => reExp_length h⟩

theorem loop_isSome (f : List Char → (List Char → Option β) → Option β)
    {k : List Char → Option β} (hk : ∀ r, (k r).isSome = true) (n : Nat) (s : List Char) :
    (loop f k (n + 1) s).isSome = true := by
  simp only [loop]
  cases f s _ with
  | none => simpa using hk s
  | some x => rfl

theorem reStar_length {f : List Char → Option (Nat × List Char)}
    (hf : ∀ s n r, f s = some (n, r) → n + r.length = s.length ∧ 1 < n) :
    ∀ fuel s, (reStar f fuel s).1 + (reStar f fuel s).2.length = s.length := by
  intro fuel
  induction fuel with
  | zero => intro s; simp [reStar]
  | succ fuel ih =>
    intro s
    simp only [reStar]
    cases h : f s with
    | none => simp
    | some x =>
      obtain ⟨n, r⟩ := x
      have := hf s n r h
      have := ih r
      simp only; omega

/-- The loop of `(?:piece)*` before a continuation that always succeeds: iterate greedily. -/
theorem loop_piece {a : Re} {f : List Char → Option (Nat × List Char)} (ha : IsPiece a f)
    {k : List Char → Option β} (hk : ∀ r, (k r).isSome = true) :
    ∀ n fuel s, s.length < n → s.length ≤ fuel →
      loop a.m k n s = k (reStar f fuel s).2 := by
  intro n
  induction n with
  | zero => intro fuel s h; omega
  | succ n ih =>
    intro fuel s hn hfuel
    simp only [loop]
    rw [ha.1]
    · cases h : f s with
      | none =>
        cases fuel with
        | zero => simp [reStar]
        | succ fuel => simp [reStar, h]
      | some x =>
        obtain ⟨m, r⟩ := x
        have hl := ha.2 s m r h
        cases fuel with
        | zero => omega
        | succ fuel =>
          simp only [reStar, h]
          rw [if_pos (by omega), ih fuel r (by omega) (by omega)]
          exact orElse_of_isSome _ (hk _)
    · intro r hr
      left
      simp only [if_pos hr]
      cases n with
      | zero => omega
      | succ n => exact loop_isSome _ hk _ _

/-- `(?:piece)+` before a continuation that always succeeds. -/
theorem plus_piece {a : Re} {f : List Char → Option (Nat × List Char)} (ha : IsPiece a f)
    {k : List Char → Option β} (hk : ∀ r, (k r).isSome = true) (s : List Char) :
    (plus a).m s k = match f s with
      | none => none
      | some (_, r) => k (reStar f r.length r).2 := by
  rw [m_plus, plusM, ha.1]
  · cases h : f s with
    | none => rfl
    | some x =>
      obtain ⟨m, r⟩ := x
      have hl := ha.2 s m r h
      simp only
      rw [if_pos (by omega)]
      exact loop_piece ha hk _ _ r (Nat.lt_succ_self _) (Nat.le_refl _)
  · intro r hr
    left
    simp only [if_pos hr]
    exact loop_isSome _ hk _ _

/-! ## The two float patterns -/

theorem orElse_isSome_right (x : Option β) {y : Unit → Option β} (h : (y ()).isSome = true) :
    (orElse x y).isSome = true := by
  cases x with
  | none => simpa using h
  | some r => rfl

theorem reFrac_digit {c : Char} (t : List Char) (h : isDigit c = true) : reFrac (c :: t) = none := by
  have : c ≠ '.' := by rintro rfl; revert h; decide
  simp [reFrac, this]

theorem reExp_digit {c : Char} (t : List Char) (h : isDigit c = true) : reExp (c :: t) = none := by
  have h1 : c ≠ 'e' := by rintro rfl; revert h; decide
  have h2 : c ≠ 'E' := by rintro rfl; revert h; decide
  simp [reExp, h1, h2]

/-- `(?:0|[1-9][0-9]*)(?:[.][0-9]+)+(?:[eE][-+]?[0-9]+)?`: the greedy scan is the leftmost-first
match.  (What follows the integer part must start with `.`, so its digits are never given back;
after the first fraction everything that follows can always succeed, so no fraction, and no
digit of one, is ever given back.) -/
theorem floatA_matchLen (s : List Char) : (reOf .floatA).matchLen s = reFloatA s := by
  let k0 : List Char → Option Nat := fun rest => some (s.length - rest.length)
  let K2 : List Char → Option Nat := fun s2 => (opt expG).m s2 k0
  have hk0 : ∀ r, (k0 r).isSome = true := fun _ => rfl
  have hK2 : ∀ r, (K2 r).isSome = true := fun r => by
    show ((opt expG).m r k0).isSome = true
    rw [m_opt]; exact orElse_isSome_right _ (hk0 r)
  have hK1 : Rejects isDigit (fun s1 => (plus fracG).m s1 K2) := by
    intro c t hc
    show (plus fracG).m (c :: t) K2 = none
    rw [plus_piece isPiece_frac hK2, reFrac_digit t hc]
  show (cat intPart (cat (plus fracG) (opt expG))).m s k0 = reFloatA s
  rw [m_cat]
  simp only [m_cat]
  rw [intPart_m s _ (fun r _ => .inr hK1)]
  simp only [reFloatA]
  cases h1 : reIntPart s with
  | none => rfl
  | some x1 =>
    obtain ⟨a, r1⟩ := x1
    simp only
    rw [plus_piece isPiece_frac hK2]
    cases h2 : reFrac r1 with
    | none => rfl
    | some x2 =>
      obtain ⟨b, r2⟩ := x2
      show (opt expG).m _ k0 = _
      rw [m_opt, expG_m _ _ (fun r _ => .of_total hk0 r)]
      have l1 := reIntPart_length h1
      have l2 := reFrac_length h2
      have l3 := reStar_length isPiece_frac.2 r2.length r2
      cases h3 : reExp (reStar reFrac r2.length r2).2 with
      | none =>
        simp only [h3, orElse_none, k0, Option.some.injEq]; omega
      | some x3 =>
        obtain ⟨d, r4⟩ := x3
        have l4 := reExp_length h3
        simp only [h3, orElse_some, k0, Option.some.injEq]; omega

theorem reExps1_eq (N : Nat) (r : List Char) :
    (match reExp r with
      | none => none
      | some (_, r') => (some (N - (reStar reExp r'.length r').2.length) : Option Nat))
    = match reExps1 r with
      | none => none
      | some c => some (N - (r.length - c)) := by
  simp only [reExps1]
  cases h : reExp r with
  | none => rfl
  | some x =>
    obtain ⟨c, r'⟩ := x
    have l1 := reExp_length h
    have l2 := reStar_length isPiece_exp.2 r'.length r'
    simp only [Option.some.injEq]; omega

theorem reExps1_length {r : List Char} {c : Nat} (h : reExps1 r = some c) :
    c ≤ r.length ∧ 1 < c := by
  simp only [reExps1] at h
  cases h' : reExp r with
  | none => simp [h'] at h
  | some x =>
    obtain ⟨c', r'⟩ := x
    have l1 := reExp_length h'
    have l2 := reStar_length isPiece_exp.2 r'.length r'
    simp only [h', Option.some.injEq] at h
    omega

/-- `(?:0|[1-9][0-9]*)(?:[.][0-9]+)?(?:[eE][-+]?[0-9]+)+`: take the fraction if one is there;
if the exponents then fail, try without it.  (The exponents must start with `e` / `E` and a
fraction with `.`, so no digit is ever given back; after the first exponent everything that
follows can always succeed.) -/
theorem floatB_matchLen (s : List Char) : (reOf .floatB).matchLen s = reFloatB s := by
  let k0 : List Char → Option Nat := fun rest => some (s.length - rest.length)
  let K2 : List Char → Option Nat := fun s2 => (plus expG).m s2 k0
  have hk0 : ∀ r, (k0 r).isSome = true := fun _ => rfl
  have hK2eq : ∀ r, K2 r = match reExps1 r with
      | none => none
      | some c => some (s.length - (r.length - c)) := fun r => by
    show (plus expG).m r k0 = _
    rw [plus_piece isPiece_exp hk0]
    exact reExps1_eq s.length r
  have hK2 : Rejects isDigit K2 := by
    intro c t hc
    show (plus expG).m (c :: t) k0 = none
    rw [plus_piece isPiece_exp hk0, reExp_digit t hc]
  have hK1 : Rejects isDigit (fun s1 => (opt fracG).m s1 K2) := by
    intro c t hc
    show (opt fracG).m (c :: t) K2 = none
    rw [m_opt, fracG_m _ _ (fun r _ => .inr hK2), reFrac_digit t hc, hK2 c t hc]
    rfl
  show (cat intPart (cat (opt fracG) (plus expG))).m s k0 = reFloatB s
  rw [m_cat]
  simp only [m_cat]
  rw [intPart_m s _ (fun r _ => .inr hK1)]
  simp only [reFloatB]
  cases h1 : reIntPart s with
  | none => rfl
  | some x1 =>
    obtain ⟨a, r1⟩ := x1
    have l1 := reIntPart_length h1
    simp only
    rw [m_opt, fracG_m _ _ (fun r _ => .inr hK2)]
    cases h2 : reFrac r1 with
    | none =>
      simp only [orElse_none, hK2eq]
      cases h4 : reExps1 r1 with
      | none => rfl
      | some c =>
        have := reExps1_length h4
        simp only [Option.some.injEq]; omega
    | some x2 =>
      obtain ⟨b, r2⟩ := x2
      have l2 := reFrac_length h2
      simp only [hK2eq]
      cases h3 : reExps1 r2 with
      | some c =>
        have := reExps1_length h3
        simp only [orElse_some, Option.some.injEq]; omega
      | none =>
        simp only [orElse_none]
        cases h4 : reExps1 r1 with
        | none => rfl
        | some c =>
          have := reExps1_length h4
          simp only [Option.some.injEq]; omega

/-! ## The integer patterns -/

/-- `(?:0|[1-9][0-9]*)` -/
theorem int_matchLen (s : List Char) : (reOf .int).matchLen s = reInt s := by
  show intPart.m s (fun rest => some (s.length - rest.length)) = reInt s
  rw [intPart_m s _ (fun r _ => .inl rfl)]
  simp only [reInt]
  cases h : reIntPart s with
  | none => rfl
  | some x =>
    obtain ⟨a, r⟩ := x
    have := reIntPart_length h
    simp only [Option.map_some, Option.some.injEq]; omega

/-- `0<letter>(?:0|<first><rest>*)` -/
theorem radix_matchLen {letter : Char} {F R : Re} {first rest : Char → Bool}
    (hF : IsChar F first) (hR : IsChar R rest) (s : List Char) :
    (cat (chr '0') (cat (chr letter) (grp (alt (chr '0') (cat F (star R)))))).matchLen s
      = reRadix letter first rest s := by
  unfold matchLen
  match s with
  | [] => simp [Re.m, reRadix]
  | [z] => by_cases hz : z = '0' <;> simp [Re.m, reRadix, hz]
  | [z, l] =>
    by_cases hz : z = '0' <;> by_cases hl : l = letter <;> simp [Re.m, reRadix, hz, hl, hF _ []]
  | z :: l :: c :: cs =>
    have hstar : (star R).m cs (fun rest => some ((z :: l :: c :: cs).length - rest.length))
        = some ((z :: l :: c :: cs).length - (skipWhile rest cs).2.length) :=
      star_char hR cs _ (.inl rfl)
    have := skipWhile_length rest cs
    simp only [m_cat, m_grp, m_alt, isChar_chr _ _ _ _, hF _ _, hstar, reRadix]
    by_cases hz : z = '0' <;> by_cases hl : l = letter <;> by_cases hc : c = '0' <;>
      simp [hz, hl, hc]
    all_goals first
      | omega
      | (split
         · simp only [Option.some.injEq]; omega
         · rfl)

theorem char_01 (c : Char) : ('0' ≤ c ∧ c ≤ '1') ↔ (c = '0' ∨ c = '1') := by
  constructor
  · rintro ⟨h1, h2⟩
    rw [Char.le_def, UInt32.le_iff_toNat_le] at h1 h2
    have h1' : 48 ≤ c.val.toNat := h1
    have h2' : c.val.toNat ≤ 49 := h2
    have : c.val.toNat = 48 ∨ c.val.toNat = 49 := by omega
    rcases this with h | h
    · left; exact Char.ext (UInt32.toNat_inj.mp h)
    · right; exact Char.ext (UInt32.toNat_inj.mp h)
  · rintro (rfl | rfl) <;> decide

theorem clsTest_bin (c : Char) : clsTest false [.range '0' '1'] c = isBin c := by
  have := char_01 c
  simp only [clsTest, CItem.test, isBin, List.any_cons, List.any_nil, Bool.or_false,
    Bool.false_eq_true, if_false]
  rw [Bool.eq_iff_iff]
  simpa using this

theorem bin_matchLen (s : List Char) : (reOf .bin).matchLen s = reBin s :=
  radix_matchLen (isChar_chr '1') ((isChar_cls _ _).congr clsTest_bin) s

theorem hex_matchLen (s : List Char) : (reOf .hex).matchLen s = reHex s :=
  radix_matchLen
    ((isChar_cls _ _).congr (q := isHex1) (by
      intro c; simp [clsTest, CItem.test, isHex1, Bool.or_assoc]))
    ((isChar_cls _ _).congr (q := isHex) (by
      intro c; simp [clsTest, CItem.test, isHex, isDigit, Bool.or_assoc])) s

theorem oct_matchLen (s : List Char) : (reOf .oct).matchLen s = reOct s :=
  radix_matchLen
    ((isChar_cls _ _).congr (q := isOct1) (by intro c; simp [clsTest, CItem.test, isOct1]))
    ((isChar_cls _ _).congr (q := isOct) (by intro c; simp [clsTest, CItem.test, isOct])) s

end Re
end Yae
