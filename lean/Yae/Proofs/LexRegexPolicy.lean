/-
  "When no loop body can match the empty word, nothing has to be agreed on" as a theorem.

  `Re.mP first later` is the reference matcher with the two decisions about iterations that
  consume nothing left open: if the FIRST iteration of `x+` / `x*` consumes nothing, either
  leave the loop (`first = true`, what `Re.m` does) or discard that path; the same choice
  (`later`) for an iteration entered from the loop (`Re.m` discards).  `(false, false)` is
  "every iteration must consume a rune", `(true, true)` is Perl's rule.

  `mP_eq_m`: on an expression with `Re.starsProper` all four agree with `Re.m`, for every input
  and continuation.  With `Yae.Proofs.LexRegex` this covers nine of the ten lexer patterns,
  `keywordPostfix` and `idReg`; the string pattern is covered by `str_uniquePrefix` instead
  (every SOUND and COMPLETE matcher agrees there; `mP_sound` / `mP_complete` are not proved).

  Go's engines are not of this form (they prune by visited (instruction, position) pairs); the
  argument that they too agree when no loop body is nullable is the usual one (a path can
  only re-enter a pair it is still exploring by going round a loop without consuming) and is
  not formalised.
-/
import Yae.Proofs.LexRegexBase
namespace Yae
namespace Re

variable {β : Type}

/-! ## The matcher with the policy left open -/

def loopP (later : Bool) (f : List Char → (List Char → Option β) → Option β)
    (k : List Char → Option β) : Nat → List Char → Option β
  | 0, _ => none
  | fuel + 1, s =>
    orElse (f s (fun s' => if s'.length < s.length then loopP later f k fuel s'
                           else if later then k s' else none))
      (fun _ => k s)

def plusMP (first later : Bool) (f : List Char → (List Char → Option β) → Option β)
    (s : List Char) (k : List Char → Option β) : Option β :=
  f s (fun s' => if s'.length < s.length then loopP later f k (s'.length + 1) s'
                 else if first then k s' else none)

def mP (first later : Bool) : Re → List Char → (List Char → Option β) → Option β
  | .eps, s, k => k s
  | .chr c, s, k =>
    match s with
    | x :: xs => if x = c then k xs else none
    | [] => none
  | .esc c, s, k =>
    match s with
    | x :: xs => if x = c then k xs else none
    | [] => none
  | .cls neg items, s, k =>
    match s with
    | x :: xs => if clsTest neg items x then k xs else none
    | [] => none
  | .cat a b, s, k => (mP first later a) s (fun s' => (mP first later b) s' k)
  | .alt a b, s, k => orElse ((mP first later a) s k) (fun _ => (mP first later b) s k)
  | .grp a, s, k => (mP first later a) s k
  | .star a, s, k => orElse (plusMP first later (mP first later a) s k) (fun _ => k s)
  | .plus a, s, k => plusMP first later (mP first later a) s k
  | .opt a, s, k => orElse ((mP first later a) s k) (fun _ => k s)
  | .rep n a, s, k => repM (mP first later a) k n s

/-- `Re.m` is the instance "leave after an empty first iteration, discard an empty later one". -/
theorem loopP_false (f : List Char → (List Char → Option β) → Option β)
    (k : List Char → Option β) : ∀ n s, loopP false f k n s = loop f k n s := by
  intro n
  induction n with
  | zero => intro s; rfl
  | succ n ih =>
    intro s
    simp only [loopP, loop, Bool.false_eq_true, if_false]
    congr 2
    funext s'
    split
    · exact ih s'
    · rfl

theorem mP_true_false (r : Re) : mP (β := β) true false r = r.m := by
  induction r with
  | eps => funext s k; simp [mP, Re.m]
  | chr c => funext s k; cases s <;> simp [mP, Re.m]
  | esc c => funext s k; cases s <;> simp [mP, Re.m]
  | cls neg items => funext s k; cases s <;> simp [mP, Re.m]
  | cat a b iha ihb => funext s k; simp only [mP, Re.m, iha, ihb]
  | alt a b iha ihb => funext s k; simp only [mP, Re.m, iha, ihb]
  | grp a iha => funext s k; simp only [mP, Re.m, iha]
  | star a iha =>
    funext s k
    simp only [mP, Re.m, iha, plusMP, plusM, if_true]
    congr 2; funext s'; split
    · exact loopP_false _ _ _ _
    · rfl
  | plus a iha =>
    funext s k
    simp only [mP, Re.m, iha, plusMP, plusM, if_true]
    congr 1; funext s'; split
    · exact loopP_false _ _ _ _
    · rfl
  | opt a iha => funext s k; simp only [mP, Re.m, iha]
  | rep n a iha => funext s k; simp only [mP, Re.m, iha]

/-! ## Which values of the continuation a match depends on -/

/-- `f s k` depends on `k` only at inputs not longer than `s` -/
def Local (f : List Char → (List Char → Option β) → Option β) : Prop :=
  ∀ s k k', (∀ t : List Char, t.length ≤ s.length → k t = k' t) → f s k = f s k'

/-- `f s k` depends on `k` only at inputs shorter than `s` -/
def Consuming (f : List Char → (List Char → Option β) → Option β) : Prop :=
  ∀ s k k', (∀ t : List Char, t.length < s.length → k t = k' t) → f s k = f s k'

theorem Consuming.local {f : List Char → (List Char → Option β) → Option β} (h : Consuming f) :
    Local f := fun s k k' hk => h s k k' (fun t ht => hk t (Nat.le_of_lt ht))

theorem loop_congr {f : List Char → (List Char → Option β) → Option β} (hf : Local f) :
    ∀ n s k k', (∀ t : List Char, t.length ≤ s.length → k t = k' t) →
      loop f k n s = loop f k' n s := by
  intro n
  induction n with
  | zero => intro s k k' _; rfl
  | succ n ih =>
    intro s k k' hk
    simp only [loop]
    rw [hk s (Nat.le_refl _)]
    congr 1
    apply hf
    intro t ht
    split
    · rename_i hlt
      exact ih t k k' (fun u hu => hk u (by omega))
    · rfl

theorem plusM_local {f : List Char → (List Char → Option β) → Option β} (hf : Local f) :
    Local (plusM f) := by
  intro s k k' hk
  simp only [plusM]
  apply hf
  intro t ht
  split
  · exact loop_congr hf _ t k k' (fun u hu => hk u (by omega))
  · exact hk t ht

theorem plusM_consuming {f : List Char → (List Char → Option β) → Option β} (hf : Consuming f) :
    Consuming (plusM f) := by
  intro s k k' hk
  simp only [plusM]
  apply hf
  intro t ht
  rw [if_pos ht, if_pos ht]
  exact loop_congr hf.local _ t k k' (fun u hu => hk u (by omega))

theorem repM_local {f : List Char → (List Char → Option β) → Option β} (hf : Local f) :
    ∀ n s k k', (∀ t : List Char, t.length ≤ s.length → k t = k' t) →
      repM f k n s = repM f k' n s := by
  intro n
  induction n with
  | zero => intro s k k' hk; exact hk s (Nat.le_refl _)
  | succ n ih =>
    intro s k k' hk
    simp only [repM]
    apply hf
    intro t ht
    exact ih t k k' (fun u hu => hk u (by omega))

/-- The continuation is only ever called on a suffix-length not exceeding the input's, and on a
strictly shorter one when the expression cannot match the empty word. -/
theorem m_local (r : Re) : Local (β := β) r.m ∧ (r.nullable = false → Consuming (β := β) r.m) := by
  induction r with
  | eps =>
    refine ⟨fun s k k' hk => ?_, fun h => by cases h⟩
    simpa [Re.m] using hk s (Nat.le_refl _)
  | chr c =>
    have : Consuming (β := β) (chr c).m := by
      intro s k k' hk
      cases s with
      | nil => rfl
      | cons x xs =>
        simp only [Re.m]
        split
        · exact hk xs (by simp)
        · rfl
    exact ⟨this.local, fun _ => this⟩
  | esc c =>
    have : Consuming (β := β) (esc c).m := by
      intro s k k' hk
      cases s with
      | nil => rfl
      | cons x xs =>
        simp only [Re.m]
        split
        · exact hk xs (by simp)
        · rfl
    exact ⟨this.local, fun _ => this⟩
  | cls neg items =>
    have : Consuming (β := β) (cls neg items).m := by
      intro s k k' hk
      cases s with
      | nil => rfl
      | cons x xs =>
        simp only [Re.m]
        split
        · exact hk xs (by simp)
        · rfl
    exact ⟨this.local, fun _ => this⟩
  | cat a b iha ihb =>
    refine ⟨fun s k k' hk => ?_, fun hn => fun s k k' hk => ?_⟩
    · simp only [Re.m]
      exact iha.1 s _ _ (fun t ht => ihb.1 t k k' (fun u hu => hk u (by omega)))
    · simp only [Re.m]
      simp only [nullable, Bool.and_eq_false_iff] at hn
      rcases hn with hn | hn
      · exact iha.2 hn s _ _ (fun t ht => ihb.1 t k k' (fun u hu => hk u (by omega)))
      · exact iha.1 s _ _ (fun t ht => ihb.2 hn t k k' (fun u hu => hk u (by omega)))
  | alt a b iha ihb =>
    refine ⟨fun s k k' hk => ?_, fun hn => fun s k k' hk => ?_⟩
    · simp only [Re.m]; rw [iha.1 s k k' hk, ihb.1 s k k' hk]
    · simp only [nullable, Bool.or_eq_false_iff] at hn
      simp only [Re.m]; rw [iha.2 hn.1 s k k' hk, ihb.2 hn.2 s k k' hk]
  | grp a iha =>
    refine ⟨fun s k k' hk => ?_, fun hn => fun s k k' hk => ?_⟩
    · simp only [Re.m]; exact iha.1 s k k' hk
    · simp only [Re.m]; exact iha.2 (by simpa [nullable] using hn) s k k' hk
  | star a iha =>
    refine ⟨fun s k k' hk => ?_, fun hn => by cases hn⟩
    simp only [Re.m]
    rw [plusM_local iha.1 s k k' hk, hk s (Nat.le_refl _)]
  | plus a iha =>
    refine ⟨fun s k k' hk => ?_, fun hn => fun s k k' hk => ?_⟩
    · simp only [Re.m]; exact plusM_local iha.1 s k k' hk
    · simp only [Re.m]; exact plusM_consuming (iha.2 (by simpa [nullable] using hn)) s k k' hk
  | opt a iha =>
    refine ⟨fun s k k' hk => ?_, fun hn => by cases hn⟩
    simp only [Re.m]
    rw [iha.1 s k k' hk, hk s (Nat.le_refl _)]
  | rep n a iha =>
    refine ⟨fun s k k' hk => ?_, fun hn => fun s k k' hk => ?_⟩
    · simp only [Re.m]; exact repM_local iha.1 n s k k' hk
    · simp only [nullable, Bool.or_eq_false_iff, beq_eq_false_iff_ne] at hn
      cases n with
      | zero => exact absurd rfl hn.1
      | succ n =>
        simp only [Re.m, repM]
        exact iha.2 hn.2 s _ _ (fun t ht => repM_local iha.1 n t k k' (fun u hu => hk u (by omega)))

/-! ## With proper loops the policy is irrelevant -/

theorem loopP_eq_loop {later : Bool} {f : List Char → (List Char → Option β) → Option β}
    (hf : Consuming f) (k : List Char → Option β) :
    ∀ n s, loopP later f k n s = loop f k n s := by
  intro n
  induction n with
  | zero => intro s; rfl
  | succ n ih =>
    intro s
    simp only [loopP, loop]
    congr 1
    apply hf
    intro t ht
    rw [if_pos ht, if_pos ht]
    exact ih t

theorem plusMP_eq_plusM {first later : Bool} {f : List Char → (List Char → Option β) → Option β}
    (hf : Consuming f) (s : List Char) (k : List Char → Option β) :
    plusMP first later f s k = plusM f s k := by
  simp only [plusMP, plusM]
  apply hf
  intro t ht
  rw [if_pos ht, if_pos ht]
  exact loopP_eq_loop hf k _ t

/-- **On an expression whose loop bodies cannot match the empty word, every policy for empty
iterations gives the reference matcher.** -/
theorem mP_eq_m (first later : Bool) (r : Re) (hr : r.starsProper = true) :
    mP (β := β) first later r = r.m := by
  induction r with
  | eps => funext s k; simp [mP, Re.m]
  | chr c => funext s k; cases s <;> simp [mP, Re.m]
  | esc c => funext s k; cases s <;> simp [mP, Re.m]
  | cls neg items => funext s k; cases s <;> simp [mP, Re.m]
  | cat a b iha ihb =>
    simp only [starsProper, Bool.and_eq_true] at hr
    funext s k; simp only [mP, Re.m, iha hr.1, ihb hr.2]
  | alt a b iha ihb =>
    simp only [starsProper, Bool.and_eq_true] at hr
    funext s k; simp only [mP, Re.m, iha hr.1, ihb hr.2]
  | grp a iha =>
    simp only [starsProper] at hr
    funext s k; simp only [mP, Re.m, iha hr]
  | star a iha =>
    simp only [starsProper, Bool.and_eq_true, Bool.not_eq_true'] at hr
    funext s k
    simp only [mP, Re.m, iha hr.2]
    rw [plusMP_eq_plusM ((m_local a).2 hr.1)]
  | plus a iha =>
    simp only [starsProper, Bool.and_eq_true, Bool.not_eq_true'] at hr
    funext s k
    simp only [mP, Re.m, iha hr.2]
    rw [plusMP_eq_plusM ((m_local a).2 hr.1)]
  | opt a iha =>
    simp only [starsProper] at hr
    funext s k; simp only [mP, Re.m, iha hr]
  | rep n a iha =>
    simp only [starsProper] at hr
    funext s k; simp only [mP, Re.m, iha hr]

/-- The policies do differ on loops with a nullable body: `(?:|a)*` on `aa` (the value is the
length of the REST: the match is `""` resp. `aa`). -/
example :
    mP true false (.star (.grp (.alt .eps (.chr 'a')))) "aa".toList (fun r => some r.length) = some 2 ∧
    mP false false (.star (.grp (.alt .eps (.chr 'a')))) "aa".toList (fun r => some r.length) = some 0 := by
  decide

end Re
end Yae

#print axioms Yae.Re.mP_eq_m
#print axioms Yae.Re.mP_true_false
