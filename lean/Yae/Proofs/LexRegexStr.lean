/-
  The string pattern `"(?:[^"\\]*|\\["\\trnbf\/]|\\u[0-9a-fA-F]{4})*"` against the reference
  semantics.  The body of the `*` can match the empty string and the reference matcher
  backtracks exponentially on it, so the proof goes through the LANGUAGE instead:

  * `reStr_of_matches`: if `u` is in the language then `reStr (u ++ v) = some u.length` for
    every `v`; so at most one prefix of any input is in the language (`str_uniquePrefix`) and
    neither the priorities of leftmost-first nor the treatment of empty iterations can matter;
  * `matches_of_reStr`: what `reStr` accepts is in the language;
  * hence `reStr = matchLen` (`str_matchLen`), by soundness and completeness of the matcher.
-/
import Yae.Proofs.LexRegexBase
namespace Yae
namespace Re

/-- a character of `[^"\\]` -/
def plainChar (c : Char) : Prop := c ≠ '"' ∧ c ≠ '\\'

theorem clsTest_plain (c : Char) : clsTest true [.ch '"', .esc '\\'] c = true ↔ plainChar c := by
  simp [clsTest, CItem.test, plainChar]

theorem clsTest_simpleEscape (c : Char) :
    clsTest false [.ch '"', .esc '\\', .ch 't', .ch 'r', .ch 'n', .ch 'b', .ch 'f', .esc '/'] c
      = isSimpleEscape c := by
  simp [clsTest, CItem.test, isSimpleEscape, Bool.or_assoc]

theorem clsTest_hex (c : Char) :
    clsTest false [.range '0' '9', .range 'a' 'f', .range 'A' 'F'] c = isHex c := by
  simp [clsTest, CItem.test, isHex, isDigit, Bool.or_assoc]

/-! ## `reStrBody` step by step -/

theorem reStrBody_nil : reStrBody [] = none := by rw [reStrBody.eq_def]

theorem reStrBody_cons (c : Char) (cs : List Char) :
    reStrBody (c :: cs) =
      if (c == '"') = true then some 1
      else if (c == '\\') = true then
        match cs with
        | [] => none
        | e :: cs1 =>
          if isSimpleEscape e = true then Option.map (fun x => x + 2) (reStrBody cs1)
          else if (e == 'u') = true then
            match cs1 with
            | h1 :: h2 :: h3 :: h4 :: cs2 =>
              if (isHex h1 && isHex h2 && isHex h3 && isHex h4) = true then
                Option.map (fun x => x + 6) (reStrBody cs2)
              else none
            | _ => none
          else none
      else Option.map (fun x => x + 1) (reStrBody cs) := by
  rw [reStrBody.eq_def]
  rcases cs with _ | ⟨e, _ | ⟨h1, _ | ⟨h2, _ | ⟨h3, _ | ⟨h4, cs2⟩⟩⟩⟩⟩ <;> rfl

theorem reStrBody_quote (t : List Char) : reStrBody ('"' :: t) = some 1 := by
  rw [reStrBody_cons]; rfl

theorem reStrBody_plain_cons {c : Char} (h : plainChar c) (t : List Char) :
    reStrBody (c :: t) = (reStrBody t).map (· + 1) := by
  rw [reStrBody_cons]
  simp [h.1, h.2]

theorem reStrBody_plain {u : List Char} (h : ∀ c ∈ u, plainChar c) (t : List Char) :
    reStrBody (u ++ t) = (reStrBody t).map (· + u.length) := by
  induction u with
  | nil => simp
  | cons c u ih =>
    rw [List.cons_append, reStrBody_plain_cons (h c (by simp)),
      ih (fun x hx => h x (by simp [hx]))]
    cases reStrBody t with
    | none => rfl
    | some n => simp only [Option.map_some, List.length_cons, Option.some.injEq]; omega

theorem reStrBody_esc {e : Char} (h : isSimpleEscape e = true) (t : List Char) :
    reStrBody ('\\' :: e :: t) = (reStrBody t).map (· + 2) := by
  rw [reStrBody_cons]
  simp [h]

theorem reStrBody_uni {h1 h2 h3 h4 : Char} (x1 : isHex h1 = true) (x2 : isHex h2 = true)
    (x3 : isHex h3 = true) (x4 : isHex h4 = true) (t : List Char) :
    reStrBody ('\\' :: 'u' :: h1 :: h2 :: h3 :: h4 :: t) = (reStrBody t).map (· + 6) := by
  rw [reStrBody_cons]
  simp [x1, x2, x3, x4, isSimpleEscape]

/-! ## The language of the three alternatives -/

theorem strPlain_inv {u : List Char} (h : Matches strPlain u) : ∀ c ∈ u, plainChar c := by
  refine Matches.star_induction (P := fun u => ∀ c ∈ u, plainChar c) (by simp) ?_ h
  intro u v hu _ ih c hc
  obtain ⟨x, rfl, hx⟩ := hu.cls_inv
  rcases List.mem_append.mp hc with hc | hc
  · simp only [List.mem_singleton] at hc; subst hc; exact (clsTest_plain _).mp hx
  · exact ih c hc

theorem strEsc_inv {u : List Char} (h : Matches strEsc u) :
    ∃ e, u = ['\\', e] ∧ isSimpleEscape e = true := by
  obtain ⟨u1, u2, rfl, h1, h2⟩ := h.cat_inv
  have := h1.esc_inv; subst this
  obtain ⟨e, rfl, he⟩ := h2.cls_inv
  exact ⟨e, rfl, by rw [← clsTest_simpleEscape]; exact he⟩

theorem hexDigit_inv {u : List Char} (h : Matches hexDigit u) : ∃ x, u = [x] ∧ isHex x = true := by
  obtain ⟨x, rfl, hx⟩ := h.cls_inv
  exact ⟨x, rfl, by rw [← clsTest_hex]; exact hx⟩

theorem strUni_inv {u : List Char} (h : Matches strUni u) :
    ∃ h1 h2 h3 h4, u = ['\\', 'u', h1, h2, h3, h4] ∧
      isHex h1 = true ∧ isHex h2 = true ∧ isHex h3 = true ∧ isHex h4 = true := by
  obtain ⟨u1, u2, rfl, a1, a2⟩ := h.cat_inv
  have := a1.esc_inv; subst this
  obtain ⟨u3, u4, rfl, a3, a4⟩ := a2.cat_inv
  have := a3.chr_inv; subst this
  obtain ⟨w1, r1, rfl, b1, c1⟩ := a4.rep_succ_inv
  obtain ⟨w2, r2, rfl, b2, c2⟩ := c1.rep_succ_inv
  obtain ⟨w3, r3, rfl, b3, c3⟩ := c2.rep_succ_inv
  obtain ⟨w4, r4, rfl, b4, c4⟩ := c3.rep_succ_inv
  have := c4.rep_zero_inv; subst this
  obtain ⟨x1, rfl, y1⟩ := hexDigit_inv b1
  obtain ⟨x2, rfl, y2⟩ := hexDigit_inv b2
  obtain ⟨x3, rfl, y3⟩ := hexDigit_inv b3
  obtain ⟨x4, rfl, y4⟩ := hexDigit_inv b4
  exact ⟨x1, x2, x3, x4, rfl, y1, y2, y3, y4⟩

theorem strItem_inv {u : List Char} (h : Matches strItem u) :
    (∀ c ∈ u, plainChar c) ∨ (∃ e, u = ['\\', e] ∧ isSimpleEscape e = true) ∨
    (∃ h1 h2 h3 h4, u = ['\\', 'u', h1, h2, h3, h4] ∧
      isHex h1 = true ∧ isHex h2 = true ∧ isHex h3 = true ∧ isHex h4 = true) := by
  rcases h.grp_inv.alt_inv with h | h
  · exact .inl (strPlain_inv h)
  · rcases h.alt_inv with h | h
    · exact .inr (.inl (strEsc_inv h))
    · exact .inr (.inr (strUni_inv h))

/-! ## language ⇒ recogniser -/

/-- A body in the language followed by a quote: `reStrBody` reads exactly that. -/
theorem reStrBody_of_matches {w : List Char} (h : Matches (star strItem) w) (v : List Char) :
    reStrBody (w ++ '"' :: v) = some (w.length + 1) := by
  refine Matches.star_induction
    (P := fun w => reStrBody (w ++ '"' :: v) = some (w.length + 1)) ?_ ?_ h
  · exact reStrBody_quote v
  · intro u w' hu _ ih
    rcases strItem_inv hu with hp | ⟨e, rfl, he⟩ | ⟨h1, h2, h3, h4, rfl, x1, x2, x3, x4⟩
    · rw [List.append_assoc, reStrBody_plain hp, ih]
      simp only [Option.map_some, List.length_append, Option.some.injEq]; omega
    · show reStrBody ('\\' :: e :: (w' ++ '"' :: v)) = _
      rw [reStrBody_esc he, ih]
      simp only [Option.map_some, List.length_append, List.length_cons, List.length_nil,
        Option.some.injEq]; omega
    · show reStrBody ('\\' :: 'u' :: h1 :: h2 :: h3 :: h4 :: (w' ++ '"' :: v)) = _
      rw [reStrBody_uni x1 x2 x3 x4, ih]
      simp only [Option.map_some, List.length_append, List.length_cons, List.length_nil,
        Option.some.injEq]; omega

/-- A word of the language in front of anything: `reStr` reads exactly that word. -/
theorem reStr_of_matches {u : List Char} (h : Matches (reOf .str) u) (v : List Char) :
    reStr (u ++ v) = some u.length := by
  obtain ⟨u1, u2, rfl, a1, a2⟩ := Matches.cat_inv h
  have := a1.chr_inv; subst this
  obtain ⟨w, u3, rfl, a3, a4⟩ := a2.cat_inv
  have := a4.chr_inv; subst this
  show reStr ('"' :: ((w ++ ['"']) ++ v)) = _
  rw [reStr]
  simp only [beq_self_eq_true, if_true, List.append_assoc, List.singleton_append]
  rw [reStrBody_of_matches a3]
  simp

/-! ## recogniser ⇒ language -/

theorem strItem_plain (c : Char) (h : plainChar c) : Matches strItem [c] :=
  .grp (.altL (by
    have := Matches.starCons (Matches.cls ((clsTest_plain c).mpr h)) .starNil
    simpa [strPlain] using this))

theorem strItem_esc (e : Char) (h : isSimpleEscape e = true) : Matches strItem ['\\', e] :=
  .grp (.altR (.altL (Matches.cat (.esc '\\') (.cls (by rw [clsTest_simpleEscape]; exact h)))))

theorem hexDigit_of (x : Char) (h : isHex x = true) : Matches hexDigit [x] :=
  .cls (by rw [clsTest_hex]; exact h)

theorem strItem_uni (h1 h2 h3 h4 : Char) (x1 : isHex h1 = true) (x2 : isHex h2 = true)
    (x3 : isHex h3 = true) (x4 : isHex h4 = true) :
    Matches strItem ['\\', 'u', h1, h2, h3, h4] :=
  .grp (.altR (.altR (Matches.cat (.esc '\\') (Matches.cat (.chr 'u')
    (Matches.repSucc (hexDigit_of h1 x1) (Matches.repSucc (hexDigit_of h2 x2)
      (Matches.repSucc (hexDigit_of h3 x3) (Matches.repSucc (hexDigit_of h4 x4) .repZero))))))))

/-- What `reStrBody` accepts is a body in the language followed by a quote. -/
theorem matches_of_reStrBody : ∀ (N : Nat) (t : List Char) (n : Nat), t.length ≤ N →
    reStrBody t = some n →
    ∃ w rest, t = w ++ '"' :: rest ∧ n = w.length + 1 ∧ Matches (star strItem) w := by
  intro N
  induction N with
  | zero =>
    intro t n hN h
    have : t = [] := List.length_eq_zero_iff.mp (by omega)
    subst this; simp [reStrBody_nil] at h
  | succ N ih =>
    intro t n hN h
    cases t with
    | nil => simp [reStrBody_nil] at h
    | cons c cs =>
      by_cases hq : c = '"'
      · subst hq
        rw [reStrBody_quote] at h
        exact ⟨[], cs, rfl, by simpa using h.symm, .starNil⟩
      · by_cases hb : c = '\\'
        · subst hb
          cases cs with
          | nil => simp [reStrBody_cons] at h
          | cons e cs1 =>
            by_cases he : isSimpleEscape e = true
            · rw [reStrBody_esc he] at h
              cases h' : reStrBody cs1 with
              | none => simp [h'] at h
              | some n' =>
                obtain ⟨w, rest, rfl, rfl, hw⟩ := ih cs1 n' (by simp at hN; omega) h'
                refine ⟨'\\' :: e :: w, rest, rfl, ?_, .starCons (strItem_esc e he) hw⟩
                simp only [h', Option.map_some, Option.some.injEq] at h
                simp only [List.length_cons]; omega
            · by_cases hu : e = 'u'
              · subst hu
                match cs1, h with
                | h1 :: h2 :: h3 :: h4 :: cs2, h =>
                  by_cases hx : isHex h1 = true ∧ isHex h2 = true ∧ isHex h3 = true ∧ isHex h4 = true
                  · rw [reStrBody_uni hx.1 hx.2.1 hx.2.2.1 hx.2.2.2] at h
                    cases h' : reStrBody cs2 with
                    | none => simp [h'] at h
                    | some n' =>
                      obtain ⟨w, rest, rfl, rfl, hw⟩ := ih cs2 n' (by simp at hN; omega) h'
                      refine ⟨'\\' :: 'u' :: h1 :: h2 :: h3 :: h4 :: w, rest, rfl, ?_,
                        .starCons (strItem_uni h1 h2 h3 h4 hx.1 hx.2.1 hx.2.2.1 hx.2.2.2) hw⟩
                      simp only [h', Option.map_some, Option.some.injEq] at h
                      simp only [List.length_cons]; omega
                  · exfalso
                    rw [reStrBody_cons] at h
                    simp [isSimpleEscape] at h
                    exact hx ⟨h.1.1.1.1, h.1.1.1.2, h.1.1.2, h.1.2⟩
                | [], h => simp [reStrBody_cons, isSimpleEscape] at h
                | [_], h => simp [reStrBody_cons, isSimpleEscape] at h
                | [_, _], h => simp [reStrBody_cons, isSimpleEscape] at h
                | [_, _, _], h => simp [reStrBody_cons, isSimpleEscape] at h
              · exfalso
                rw [reStrBody_cons] at h
                simp [he, hu] at h
        · have hp : plainChar c := ⟨hq, hb⟩
          rw [reStrBody_plain_cons hp] at h
          cases h' : reStrBody cs with
          | none => simp [h'] at h
          | some n' =>
            obtain ⟨w, rest, rfl, rfl, hw⟩ := ih cs n' (by simp at hN; omega) h'
            refine ⟨c :: w, rest, rfl, ?_, .starCons (strItem_plain c hp) hw⟩
            simp only [h', Option.map_some, Option.some.injEq] at h
            simp only [List.length_cons]; omega

/-- What `reStr` accepts is a word of the language. -/
theorem matches_of_reStr {s : List Char} {n : Nat} (h : reStr s = some n) :
    ∃ u v, s = u ++ v ∧ Matches (reOf .str) u := by
  cases s with
  | nil => simp [reStr] at h
  | cons c cs =>
    simp only [reStr] at h
    split at h
    · rename_i hc
      have hc : c = '"' := by simpa using hc
      subst hc
      cases h' : reStrBody cs with
      | none => simp [h'] at h
      | some n' =>
        obtain ⟨w, rest, rfl, _, hw⟩ := matches_of_reStrBody _ cs n' (Nat.le_refl _) h'
        exact ⟨'"' :: (w ++ ['"']), rest, by simp,
          Matches.cat (.chr '"') (Matches.cat hw (.chr '"'))⟩
    · cases h

/-! ## The theorem -/

/-- At most one prefix of any input is a string literal: the first unescaped quote ends it. -/
theorem str_uniquePrefix : UniquePrefix (reOf .str) :=
  uniquePrefix_of (f := reStr) (fun _ v h => reStr_of_matches h v)

/-- `"(?:[^"\\]*|\\["\\trnbf\/]|\\u[0-9a-fA-F]{4})*"` -/
theorem str_matchLen (s : List Char) : (reOf .str).matchLen s = reStr s :=
  (matchLen_eq_of_unique (fun _ v h => reStr_of_matches h v)
    (fun _ _ h => matches_of_reStr h) s).symm

end Re
end Yae
