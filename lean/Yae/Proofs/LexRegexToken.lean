/-
  From the LANGUAGE of a literal pattern to the recogniser, with what follows the literal:
  if `d` is in the language of pattern `p` and the rest `post` of the input does not start
  with a character that could continue a literal, then `Pat.run p (d ++ post) = some d.length`
  (for the string, raw-string and time patterns: whatever follows).  This is the direction
  "each literal form is read as ONE token"; `Yae.Props.C09` states it for the lexer.
-/
import Yae.Proofs.LexRegex
namespace Yae
namespace Re

/-- `l` does not start with a character satisfying `p`. -/
def NoHead (p : Char → Bool) (l : List Char) : Prop := ∀ c t, l = c :: t → p c = false

theorem NoHead.nil (p : Char → Bool) : NoHead p [] := by intro c t h; cases h

theorem NoHead.cons {p : Char → Bool} {c : Char} (t : List Char) (h : p c = false) :
    NoHead p (c :: t) := by
  intro c' t' e; cases e; exact h

theorem NoHead.append {p : Char → Bool} {u v : List Char} (hu : NoHead p u) (hv : NoHead p v) :
    NoHead p (u ++ v) := by
  cases u with
  | nil => simpa using hv
  | cons c t => exact NoHead.cons _ (hu c t rfl)

theorem NoHead.mono {p q : Char → Bool} {l : List Char} (h : NoHead q l)
    (hpq : ∀ c, p c = true → q c = true) : NoHead p l := by
  intro c t e
  cases hp : p c
  · rfl
  · have := hpq c hp; rw [h c t e] at this; cases this

/-! ## Words of loops over one class -/

theorem star_cls_inv {neg : Bool} {items : List CItem} {w : List Char}
    (h : Matches (star (cls neg items)) w) : w.all (clsTest neg items) = true := by
  refine Matches.star_induction (P := fun w => w.all (clsTest neg items) = true) rfl ?_ h
  intro u v hu _ ih
  obtain ⟨x, rfl, hx⟩ := hu.cls_inv
  simp [hx, ih]

theorem plus_cls_inv {neg : Bool} {items : List CItem} {w : List Char}
    (h : Matches (plus (cls neg items)) w) :
    ∃ c t, w = c :: t ∧ clsTest neg items c = true ∧ t.all (clsTest neg items) = true := by
  obtain ⟨u, v, rfl, hu, hv⟩ := h.plus_inv
  obtain ⟨x, rfl, hx⟩ := hu.cls_inv
  exact ⟨x, v, rfl, hx, star_cls_inv hv⟩

theorem all_congr {p q : Char → Bool} (h : ∀ c, p c = q c) (l : List Char) : l.all p = l.all q := by
  have : p = q := funext h
  rw [this]

theorem digits_star_inv {w : List Char} (h : Matches (star digit09) w) : w.all isDigit = true := by
  rw [← all_congr clsTest_digit]; exact star_cls_inv h

theorem digits_plus_inv {w : List Char} (h : Matches (plus digit09) w) :
    ∃ c t, w = c :: t ∧ isDigit c = true ∧ t.all isDigit = true := by
  obtain ⟨c, t, rfl, hc, ht⟩ := plus_cls_inv h
  exact ⟨c, t, rfl, by rw [← clsTest_digit]; exact hc, by rw [← all_congr clsTest_digit]; exact ht⟩

/-! ## The pieces of the numeric patterns -/

theorem reDigits1_append {c : Char} {t rest : List Char} (hc : isDigit c = true)
    (ht : t.all isDigit = true) (hr : NoHead isDigit rest) :
    reDigits1 (c :: t ++ rest) = some (t.length + 1, rest) := by
  rw [List.cons_append, reDigits1_cons, if_pos hc, skipWhile_append ht hr]

theorem intPart_inv {u : List Char} (h : Matches intPart u) :
    u = ['0'] ∨ ∃ c w, u = c :: w ∧ '1' ≤ c ∧ c ≤ '9' ∧ w.all isDigit = true := by
  rcases h.grp_inv.alt_inv with h | h
  · exact .inl h.chr_inv
  · obtain ⟨u1, w, rfl, h1, h2⟩ := h.cat_inv
    obtain ⟨c, rfl, hc⟩ := h1.cls_inv
    have hc' : '1' ≤ c ∧ c ≤ '9' := by simpa [clsTest, CItem.test] using hc
    exact .inr ⟨c, w, rfl, hc'.1, hc'.2, digits_star_inv h2⟩

theorem reIntPart_append {u : List Char} (h : Matches intPart u) {rest : List Char}
    (hr : NoHead isDigit rest) : reIntPart (u ++ rest) = some (u.length, rest) := by
  rcases intPart_inv h with rfl | ⟨c, w, rfl, h1, h9, hw⟩
  · simp [reIntPart]
  · have h0 : c ≠ '0' := by rintro rfl; revert h1; decide
    simp [reIntPart, h0, h1, h9, skipWhile_append hw hr]

theorem fracG_inv {u : List Char} (h : Matches fracG u) :
    ∃ c w, u = '.' :: c :: w ∧ isDigit c = true ∧ w.all isDigit = true := by
  obtain ⟨u1, u2, rfl, h1, h2⟩ := h.grp_inv.cat_inv
  obtain ⟨x, rfl, hx⟩ := h1.cls_inv
  have hx' : x = '.' := by simpa [clsTest, CItem.test] using hx
  obtain ⟨c, w, rfl, hc, hw⟩ := digits_plus_inv h2
  exact ⟨c, w, by simp [hx'], hc, hw⟩

theorem reFrac_append {u : List Char} (h : Matches fracG u) {rest : List Char}
    (hr : NoHead isDigit rest) : reFrac (u ++ rest) = some (u.length, rest) := by
  obtain ⟨c, w, rfl, hc, hw⟩ := fracG_inv h
  have := reDigits1_append hc hw hr
  simp only [List.cons_append] at this ⊢
  simp [reFrac, this]

theorem expG_inv {u : List Char} (h : Matches expG u) :
    ∃ e sg c w, (e = 'e' ∨ e = 'E') ∧ (sg = [] ∨ sg = ['-'] ∨ sg = ['+']) ∧
      u = e :: (sg ++ c :: w) ∧ isDigit c = true ∧ w.all isDigit = true := by
  obtain ⟨u1, u2, rfl, h1, h2⟩ := h.grp_inv.cat_inv
  obtain ⟨e, rfl, he⟩ := h1.cls_inv
  have he' : e = 'e' ∨ e = 'E' := by simpa [clsTest, CItem.test] using he
  obtain ⟨sg, u3, rfl, h3, h4⟩ := h2.cat_inv
  obtain ⟨c, w, rfl, hc, hw⟩ := digits_plus_inv h4
  refine ⟨e, sg, c, w, he', ?_, rfl, hc, hw⟩
  rcases h3.opt_inv with rfl | h3
  · exact .inl rfl
  · obtain ⟨x, rfl, hx⟩ := h3.cls_inv
    have hx' : x = '-' ∨ x = '+' := by simpa [clsTest, CItem.test] using hx
    rcases hx' with rfl | rfl
    · exact .inr (.inl rfl)
    · exact .inr (.inr rfl)

theorem reExp_append {u : List Char} (h : Matches expG u) {rest : List Char}
    (hr : NoHead isDigit rest) : reExp (u ++ rest) = some (u.length, rest) := by
  obtain ⟨e, sg, c, w, he, hsg, rfl, hc, hw⟩ := expG_inv h
  have hd := reDigits1_append hc hw hr
  simp only [List.cons_append] at hd
  have he' : (e == 'e' || e == 'E') = true := by rcases he with rfl | rfl <;> decide
  have hcs : (c == '-' || c == '+') = false := by
    cases hm : (c == '-' || c == '+')
    · rfl
    · simp only [Bool.or_eq_true, beq_iff_eq] at hm
      rcases hm with rfl | rfl <;> revert hc <;> decide
  rcases hsg with rfl | rfl | rfl
  · simp [reExp, he', hcs, hd]
  · simp [reExp, he', hd]
  · simp [reExp, he', hd]

/-! ## Loops over a piece -/

theorem NoHead.append_left {p : Char → Bool} {u : List Char} (hu : NoHead p u) (hne : u ≠ [])
    (v : List Char) : NoHead p (u ++ v) := by
  cases u with
  | nil => exact absurd rfl hne
  | cons c t => exact NoHead.cons _ (hu c t rfl)

/-- Words of `a*` followed by `rest` do not start with a `p`-character when no word of `a` and
not `rest` does. -/
theorem star_noHead {a : Re} {p : Char → Bool} (ha : ∀ u, Matches a u → NoHead p u)
    {v : List Char} (hv : Matches (star a) v) {rest : List Char} (hr : NoHead p rest) :
    NoHead p (v ++ rest) := by
  rcases hv.star_inv_ne with rfl | ⟨u, v', rfl, hne, hu, _⟩
  · simpa using hr
  · rw [List.append_assoc]; exact (ha u hu).append_left hne _

theorem reStar_append {a : Re} {f : List Char → Option (Nat × List Char)}
    (hf : ∀ u rest, Matches a u → NoHead isDigit rest → f (u ++ rest) = some (u.length, rest))
    (hne : ∀ u, Matches a u → u ≠ [] ∧ NoHead isDigit u)
    {w : List Char} (hw : Matches (star a) w) {rest : List Char} (hrest : NoHead isDigit rest)
    (hstop : f rest = none) :
    ∀ fuel, (w ++ rest).length ≤ fuel → reStar f fuel (w ++ rest) = (w.length, rest) := by
  refine Matches.star_induction
    (P := fun w => ∀ fuel, (w ++ rest).length ≤ fuel → reStar f fuel (w ++ rest) = (w.length, rest))
    ?_ ?_ hw
  · intro fuel _
    cases fuel with
    | zero => simp [reStar]
    | succ fuel => simp [reStar, hstop]
  · intro u v hu hv ih fuel hfuel
    have hune := (hne u hu).1
    have hlen : 0 < u.length := List.length_pos_iff.mpr hune
    cases fuel with
    | zero => simp only [List.length_append] at hfuel; omega
    | succ fuel =>
      have hnh : NoHead isDigit (v ++ rest) := star_noHead (fun u hu => (hne u hu).2) hv hrest
      rw [List.append_assoc]
      simp only [reStar, hf u _ hu hnh]
      rw [ih fuel (by simp only [List.length_append] at hfuel ⊢; omega)]
      simp only [List.length_append]

theorem fracG_head {u : List Char} (h : Matches fracG u) : ∃ t, u = '.' :: t := by
  obtain ⟨c, w, rfl, _, _⟩ := fracG_inv h; exact ⟨_, rfl⟩

theorem expG_head {u : List Char} (h : Matches expG u) : ∃ e t, u = e :: t ∧ (e = 'e' ∨ e = 'E') := by
  obtain ⟨e, sg, c, w, he, _, rfl, _, _⟩ := expG_inv h; exact ⟨e, _, rfl, he⟩

theorem fracG_ne {u : List Char} (h : Matches fracG u) : u ≠ [] ∧ NoHead isDigit u := by
  obtain ⟨t, rfl⟩ := fracG_head h
  exact ⟨by simp, NoHead.cons _ (by decide)⟩

theorem expG_ne {u : List Char} (h : Matches expG u) : u ≠ [] ∧ NoHead isDigit u := by
  obtain ⟨e, t, rfl, he⟩ := expG_head h
  exact ⟨by simp, NoHead.cons _ (by rcases he with rfl | rfl <;> decide)⟩

theorem reFrac_none {l : List Char} (h : ∀ c t, l = c :: t → c ≠ '.') : reFrac l = none := by
  cases l with
  | nil => simp [reFrac]
  | cons c t => simp [reFrac, h c t rfl]

theorem reExp_none {l : List Char} (h : ∀ c t, l = c :: t → c ≠ 'e' ∧ c ≠ 'E') : reExp l = none := by
  cases l with
  | nil => simp [reExp]
  | cons c t => simp [reExp, (h c t rfl).1, (h c t rfl).2]

/-! ## What may follow a numeric literal -/

/-- The end of the input, or a character that is neither an identifier character (ASCII
letters and digits, Unicode letters, `_`) nor `.`. -/
def NumEnd (post : List Char) : Prop :=
  ∀ c t, post = c :: t → isIdentCont c = false ∧ c ≠ '.'

theorem NumEnd.noDigit {post : List Char} (h : NumEnd post) : NoHead isDigit post := by
  intro c t e
  have := (h c t e).1
  cases hd : isDigit c
  · rfl
  · simp [isIdentCont, hd] at this

theorem NumEnd.ne_of {post : List Char} (h : NumEnd post) {x : Char} (hx : isIdentCont x = true) :
    ∀ c t, post = c :: t → c ≠ x := by
  intro c t e hc
  subst hc
  rw [(h _ t e).1] at hx; cases hx

theorem NumEnd.noDot {post : List Char} (h : NumEnd post) : ∀ c t, post = c :: t → c ≠ '.' :=
  fun c t e => (h c t e).2

theorem NumEnd.noExp {post : List Char} (h : NumEnd post) :
    ∀ c t, post = c :: t → c ≠ 'e' ∧ c ≠ 'E' :=
  fun c t e => ⟨h.ne_of (by decide) c t e, h.ne_of (by decide) c t e⟩

/-! ## The float patterns -/

/-- A word of the first float pattern followed by `post`: the recogniser reads exactly it. -/
theorem reFloatA_append {d : List Char} (h : Matches (reOf .floatA) d) {post : List Char}
    (hp : NumEnd post) : reFloatA (d ++ post) = some d.length := by
  obtain ⟨i, r, rfl, hi, hr⟩ := Matches.cat_inv h
  obtain ⟨F, E, rfl, hF, hE⟩ := hr.cat_inv
  obtain ⟨f1, F', rfl, hf1, hF'⟩ := hF.plus_inv
  -- what follows the fractions: an exponent, or `post`
  have hEpost : NoHead isDigit (E ++ post) ∧ reFrac (E ++ post) = none ∧
      ((reExp (E ++ post) = none ∧ E.length = 0) ∨ reExp (E ++ post) = some (E.length, post)) := by
    rcases hE.opt_inv with rfl | hE
    · exact ⟨by simpa using hp.noDigit, by simpa using reFrac_none hp.noDot,
        .inl ⟨by simpa using reExp_none hp.noExp, rfl⟩⟩
    · obtain ⟨e, t, rfl, he⟩ := expG_head hE
      exact ⟨NoHead.cons _ (by rcases he with rfl | rfl <;> decide),
        reFrac_none (by intro c t' e'; cases e'; rcases he with rfl | rfl <;> decide),
        .inr (reExp_append hE hp.noDigit)⟩
  have h3 := reStar_append (f := reFrac) (fun u rest hu hr => reFrac_append hu hr)
    (fun u hu => fracG_ne hu) hF' hEpost.1 hEpost.2.1 (F' ++ (E ++ post)).length (Nat.le_refl _)
  have h2 : reFrac (f1 ++ (F' ++ (E ++ post))) = some (f1.length, F' ++ (E ++ post)) :=
    reFrac_append hf1 (star_noHead (fun u hu => (fracG_ne hu).2) hF' hEpost.1)
  have h1 : reIntPart (i ++ (f1 ++ (F' ++ (E ++ post)))) = some (i.length, f1 ++ (F' ++ (E ++ post))) :=
    reIntPart_append hi ((fracG_ne hf1).2.append_left (fracG_ne hf1).1 _)
  simp only [List.append_assoc]
  rcases hEpost.2.2 with ⟨h4, h5⟩ | h4
  · simp only [reFloatA, h1, h2, h3, h4]
    simp only [List.length_append, Option.some.injEq]; omega
  · simp only [reFloatA, h1, h2, h3, h4]
    simp only [List.length_append, Option.some.injEq]; omega

theorem plus_expG_head {Es : List Char} (h : Matches (plus expG) Es) :
    ∃ e t, Es = e :: t ∧ (e = 'e' ∨ e = 'E') := by
  obtain ⟨e1, Es', rfl, he1, _⟩ := h.plus_inv
  obtain ⟨e, t, rfl, he⟩ := expG_head he1
  exact ⟨e, t ++ Es', rfl, he⟩

theorem reExps1_append {Es : List Char} (h : Matches (plus expG) Es) {post : List Char}
    (hp : NumEnd post) : reExps1 (Es ++ post) = some Es.length := by
  obtain ⟨e1, Es', rfl, he1, hEs'⟩ := h.plus_inv
  have h2 := reStar_append (f := reExp) (fun u rest hu hr => reExp_append hu hr)
    (fun u hu => expG_ne hu) hEs' hp.noDigit (reExp_none hp.noExp) (Es' ++ post).length
    (Nat.le_refl _)
  have h1 : reExp (e1 ++ (Es' ++ post)) = some (e1.length, Es' ++ post) :=
    reExp_append he1 (star_noHead (fun u hu => (expG_ne hu).2) hEs' hp.noDigit)
  simp only [List.append_assoc, reExps1, h1, h2]
  simp only [List.length_append]

/-- A word of the second float pattern followed by `post`. -/
theorem reFloatB_append {d : List Char} (h : Matches (reOf .floatB) d) {post : List Char}
    (hp : NumEnd post) : reFloatB (d ++ post) = some d.length := by
  obtain ⟨i, r, rfl, hi, hr⟩ := Matches.cat_inv h
  obtain ⟨Fo, Es, rfl, hFo, hEs⟩ := hr.cat_inv
  obtain ⟨e, t, hEse, he⟩ := plus_expG_head hEs
  have hc := reExps1_append hEs hp
  have hEsNoDigit : NoHead isDigit (Es ++ post) := by
    rw [hEse]; exact NoHead.cons _ (by rcases he with rfl | rfl <;> decide)
  have hEsNoDot : reFrac (Es ++ post) = none := by
    rw [hEse]
    exact reFrac_none (by intro c t' e'; cases e'; rcases he with rfl | rfl <;> decide)
  rcases hFo.opt_inv with rfl | hFo
  · have h1 : reIntPart (i ++ (Es ++ post)) = some (i.length, Es ++ post) :=
      reIntPart_append hi hEsNoDigit
    simp only [List.nil_append, List.append_assoc]
    simp only [reFloatB, h1, hEsNoDot, hc]
    simp only [List.length_append]
  · have h2 : reFrac (Fo ++ (Es ++ post)) = some (Fo.length, Es ++ post) :=
      reFrac_append hFo hEsNoDigit
    have h1 : reIntPart (i ++ (Fo ++ (Es ++ post))) = some (i.length, Fo ++ (Es ++ post)) :=
      reIntPart_append hi ((fracG_ne hFo).2.append_left (fracG_ne hFo).1 _)
    simp only [List.append_assoc]
    simp only [reFloatB, h1, h2, hc]
    simp only [List.length_append, Option.some.injEq]; omega

/-! ## The integer patterns -/

theorem reInt_append {d : List Char} (h : Matches (reOf .int) d) {post : List Char}
    (hp : NumEnd post) : reInt (d ++ post) = some d.length := by
  simp [reInt, reIntPart_append h hp.noDigit]

/-- a word of `F` is one character satisfying `first` -/
def IsCharL (F : Re) (first : Char → Bool) : Prop :=
  ∀ u, Matches F u → ∃ c, u = [c] ∧ first c = true

theorem isCharL_cls (neg : Bool) (items : List CItem) :
    IsCharL (cls neg items) (clsTest neg items) := fun _ h => h.cls_inv

theorem isCharL_chr (c : Char) : IsCharL (chr c) (· == c) :=
  fun _ h => ⟨c, h.chr_inv, by simp⟩

theorem IsCharL.congr {F : Re} {p q : Char → Bool} (h : IsCharL F p) (hpq : ∀ c, p c = q c) :
    IsCharL F q := by
  have : p = q := funext hpq
  subst this; exact h

theorem IsCharL.star {R : Re} {rest : Char → Bool} (hR : IsCharL R rest) {w : List Char}
    (h : Matches (star R) w) : w.all rest = true := by
  refine Matches.star_induction (P := fun w => w.all rest = true) rfl ?_ h
  intro u v hu _ ih
  obtain ⟨x, rfl, hx⟩ := hR u hu
  simp [hx, ih]

theorem reRadix_append {letter : Char} {F R : Re} {first rest : Char → Bool}
    (hF : IsCharL F first) (hR : IsCharL R rest) (h0 : first '0' = false) {d : List Char}
    (h : Matches (cat (chr '0') (cat (chr letter) (grp (alt (chr '0') (cat F (star R)))))) d)
    {post : List Char} (hp : NoHead rest post) :
    reRadix letter first rest (d ++ post) = some d.length := by
  obtain ⟨u1, r1, rfl, h1, hr1⟩ := Matches.cat_inv h
  have := h1.chr_inv; subst this
  obtain ⟨u2, r2, rfl, h2, hr2⟩ := hr1.cat_inv
  have := h2.chr_inv; subst this
  rcases hr2.grp_inv.alt_inv with h3 | h3
  · have := h3.chr_inv; subst this
    simp [reRadix]
  · obtain ⟨u3, w, rfl, h4, hw⟩ := h3.cat_inv
    obtain ⟨c, rfl, hc⟩ := hF u3 h4
    have hc0 : c ≠ '0' := by rintro rfl; rw [h0] at hc; cases hc
    have := skipWhile_append (hR.star hw) hp
    simp [reRadix, hc0, hc, this]
    omega

theorem char_le_trans {a b c : Char} (h1 : a ≤ b) (h2 : b ≤ c) : a ≤ c := by
  rw [Char.le_def, UInt32.le_iff_toNat_le] at *
  omega

theorem isDigit_identCont {c : Char} (h : isDigit c = true) : isIdentCont c = true := by
  simp [isIdentCont, h]

theorem isBin_digit {c : Char} (h : isBin c = true) : isDigit c = true := by
  simp only [isBin, Bool.or_eq_true, beq_iff_eq] at h
  rcases h with rfl | rfl <;> decide

theorem isOct_digit {c : Char} (h : isOct c = true) : isDigit c = true := by
  simp only [isOct, isDigit, Bool.and_eq_true, decide_eq_true_eq] at h ⊢
  exact ⟨h.1, char_le_trans h.2 (by decide)⟩

theorem isHex_identCont {c : Char} (h : isHex c = true) : isIdentCont c = true := by
  simp only [isHex, Bool.or_eq_true, Bool.and_eq_true, decide_eq_true_eq] at h
  rcases h with (h | h) | h
  · exact isDigit_identCont h
  · have : isAsciiAlpha c = true := by
      simp only [isAsciiAlpha, Bool.or_eq_true, Bool.and_eq_true, decide_eq_true_eq]
      exact .inl ⟨h.1, char_le_trans h.2 (by decide)⟩
    simp [isIdentCont, this]
  · have : isAsciiAlpha c = true := by
      simp only [isAsciiAlpha, Bool.or_eq_true, Bool.and_eq_true, decide_eq_true_eq]
      exact .inr ⟨h.1, char_le_trans h.2 (by decide)⟩
    simp [isIdentCont, this]

theorem NumEnd.noHead {post : List Char} (h : NumEnd post) {p : Char → Bool}
    (hp : ∀ c, p c = true → isIdentCont c = true) : NoHead p post := by
  intro c t e
  cases hc : p c
  · rfl
  · have := hp c hc; rw [(h c t e).1] at this; cases this

theorem reBin_append {d : List Char} (h : Matches (reOf .bin) d) {post : List Char}
    (hp : NumEnd post) : reBin (d ++ post) = some d.length :=
  reRadix_append (isCharL_chr '1') ((isCharL_cls _ _).congr clsTest_bin) (by decide) h
    (hp.noHead fun _ hc => isDigit_identCont (isBin_digit hc))

theorem reHex_append {d : List Char} (h : Matches (reOf .hex) d) {post : List Char}
    (hp : NumEnd post) : reHex (d ++ post) = some d.length :=
  reRadix_append (first := isHex1) (rest := isHex)
    ((isCharL_cls _ _).congr (by intro c; simp [clsTest, CItem.test, isHex1, Bool.or_assoc]))
    ((isCharL_cls _ _).congr (by intro c; simp [clsTest, CItem.test, isHex, isDigit, Bool.or_assoc]))
    (by decide) h (hp.noHead fun _ hc => isHex_identCont hc)

theorem reOct_append {d : List Char} (h : Matches (reOf .oct) d) {post : List Char}
    (hp : NumEnd post) : reOct (d ++ post) = some d.length :=
  reRadix_append (first := isOct1) (rest := isOct)
    ((isCharL_cls _ _).congr (by intro c; simp [clsTest, CItem.test, isOct1]))
    ((isCharL_cls _ _).congr (by intro c; simp [clsTest, CItem.test, isOct]))
    (by decide) h (hp.noHead fun _ hc => isDigit_identCont (isOct_digit hc))

/-! ## Symbol, raw string, time -/

theorem reSym_append {d : List Char} (h : Matches (reOf .sym) d) {post : List Char}
    (hp : NoHead isIdentCont post) : reSym (d ++ post) = some d.length := by
  obtain ⟨u, w, rfl, hu, hw⟩ := Matches.cat_inv h
  obtain ⟨c, rfl, hc⟩ := hu.cls_inv
  rw [clsTest_identStart] at hc
  have hw' : w.all isIdentCont = true := by
    rw [← all_congr clsTest_identCont]; exact star_cls_inv hw
  simp [reSym, hc, skipWhile_append hw' hp]
  omega

theorem reUntil_append {close : Char} {stops : Char → Bool} (hc : stops close = true)
    {w : List Char} (hw : ∀ c ∈ w, stops c = false) (post : List Char) :
    reUntil close stops (w ++ close :: post) = some (w.length + 1) := by
  induction w with
  | nil => simp [reUntil]
  | cons c t ih =>
    have hcs : stops c = false := hw c (by simp)
    have hne : c ≠ close := by rintro rfl; rw [hc] at hcs; cases hcs
    simp [reUntil, hne, hcs, ih (fun x hx => hw x (by simp [hx]))]

/-- words of `<open>[^stops]*<close>` -/
theorem until_inv {o close : Char} {items : List CItem} {d : List Char}
    (h : Matches (cat (chr o) (cat (star (cls true items)) (chr close))) d) :
    ∃ w, d = o :: (w ++ [close]) ∧ ∀ c ∈ w, items.any (·.test c) = false := by
  obtain ⟨u1, r1, rfl, h1, hr1⟩ := Matches.cat_inv h
  have := h1.chr_inv; subst this
  obtain ⟨w, u2, rfl, hw, h2⟩ := hr1.cat_inv
  have := h2.chr_inv; subst this
  refine ⟨w, rfl, ?_⟩
  intro c hc
  have := List.all_eq_true.mp (star_cls_inv hw) c hc
  simpa [clsTest] using this

/-- A raw string literal followed by anything: the recogniser reads exactly it. -/
theorem reRaw_append {d : List Char} (h : Matches (reOf .raw) d) (post : List Char) :
    reRaw (d ++ post) = some d.length := by
  obtain ⟨w, rfl, hw⟩ := until_inv h
  have := reUntil_append (close := '`') (stops := (· == '`')) (by decide) (w := w)
    (fun c hc => by simpa [CItem.test] using hw c hc) post
  simp [reRaw, this]

/-- A time literal followed by anything: the recogniser reads exactly it. -/
theorem reTime_append {d : List Char} (h : Matches (reOf .time) d) (post : List Char) :
    reTime (d ++ post) = some d.length := by
  obtain ⟨w, rfl, hw⟩ := until_inv h
  have := reUntil_append (close := '\'') (stops := fun c => c == '`' || c == '"' || c == '\'')
    (by decide) (w := w) (fun c hc => by simpa [CItem.test, Bool.or_assoc] using hw c hc) post
  simp [reTime, this]

theorem raw_uniquePrefix : UniquePrefix (reOf .raw) :=
  uniquePrefix_of (f := reRaw) (fun _ v h => reRaw_append h v)

theorem time_uniquePrefix : UniquePrefix (reOf .time) :=
  uniquePrefix_of (f := reTime) (fun _ v h => reTime_append h v)

end Re

/-! ## All ten -/

/-- What may follow a literal of pattern `p` for the literal to be read as a whole: anything
after a string, raw string or time literal; no identifier character after a symbol; no
identifier character and no `.` after a number. -/
def LitEnd : Pat → List Char → Prop
  | .str, _ | .raw, _ | .time, _ => True
  | .sym, post => Re.NoHead isIdentCont post
  | _, post => Re.NumEnd post

open Re in
/-- **Language ⇒ recogniser.**  A word `d` of the language of pattern `p`, followed by `post`
that cannot continue it: the recogniser (= the leftmost-first match, `Pat.run_eq_matchLen`)
reads exactly `d`. -/
theorem Pat.run_append (p : Pat) {d : List Char} (h : (reOf p).Matches d) {post : List Char}
    (hp : LitEnd p post) : p.run (d ++ post) = some d.length := by
  cases p with
  | floatA => exact reFloatA_append h hp
  | floatB => exact reFloatB_append h hp
  | bin => exact reBin_append h hp
  | hex => exact reHex_append h hp
  | oct => exact reOct_append h hp
  | int => exact reInt_append h hp
  | str => exact reStr_of_matches h post
  | raw => exact reRaw_append h post
  | time => exact reTime_append h post
  | sym => exact reSym_append h hp

end Yae
