/-
  The symbol pattern, the raw-string and time patterns, `keywordPostfix` and `oper.IsIdentOp`
  against the reference matcher (continuation of `Yae.Proofs.LexRegexNum`).
-/
import Yae.Proofs.LexRegexNum
namespace Yae
namespace Re

variable {β : Type}

theorem clsTest_identStart (c : Char) :
    clsTest false [.range 'a' 'z', .range 'A' 'Z', .letter, .ch '_'] c = isIdentStart c := by
  simp [clsTest, CItem.test, isIdentStart, isAsciiAlpha, Bool.or_assoc]

theorem clsTest_identCont (c : Char) :
    clsTest false [.range 'a' 'z', .range 'A' 'Z', .range '0' '9', .letter, .ch '_'] c
      = isIdentCont c := by
  simp [clsTest, CItem.test, isIdentCont, isAsciiAlpha, isDigit, Bool.or_assoc]

/-- the class of `keywordPostfix`, with `\d` where the symbol pattern has `0-9` -/
theorem clsTest_identCont' (c : Char) :
    clsTest false [.range 'a' 'z', .range 'A' 'Z', .digit, .letter, .ch '_'] c
      = isIdentCont c := by
  simp [clsTest, CItem.test, isIdentCont, isAsciiAlpha, Bool.or_assoc]

theorem isChar_identStart : IsChar identStart isIdentStart :=
  (isChar_cls _ _).congr clsTest_identStart
theorem isChar_identCont : IsChar identCont isIdentCont :=
  (isChar_cls _ _).congr clsTest_identCont

/-- `[a-zA-Z\p{L}_][a-zA-Z0-9\p{L}_]*` -/
theorem sym_matchLen (s : List Char) : (reOf .sym).matchLen s = reSym s := by
  show (cat identStart (star identCont)).m s (fun rest => some (s.length - rest.length)) = reSym s
  rw [m_cat, isChar_identStart]
  cases s with
  | nil => rfl
  | cons c cs =>
    simp only [reSym]
    split
    · rw [star_char isChar_identCont cs _ (.inl rfl)]
      have := skipWhile_length isIdentCont cs
      simp only [List.length_cons, Option.some.injEq]; omega
    · rfl

/-! ## `<open>[^stops]*<close>` -/

theorem reUntil_eq {p stops : Char → Bool} {close : Char} (hs : ∀ c, stops c = !p c)
    (hc : p close = false) (cs : List Char) :
    reUntil close stops cs = match (skipWhile p cs).2 with
      | x :: _ => if x = close then some ((skipWhile p cs).1 + 1) else none
      | [] => none := by
  induction cs with
  | nil => simp [reUntil, skipWhile]
  | cons x t ih =>
    simp only [reUntil]
    cases hx : p x
    · rw [skipWhile_neg t hx]
      by_cases hxc : x = close
      · simp [hxc]
      · simp [hxc, hs, hx]
    · have hxc : x ≠ close := by rintro rfl; rw [hc] at hx; cases hx
      rw [skipWhile_pos t hx, ih]
      simp only [beq_iff_eq, hxc, if_false, hs, hx, Bool.not_true, Bool.false_eq_true]
      cases (skipWhile p t).2 with
      | nil => rfl
      | cons y _ => by_cases hy : y = close <;> simp [hy]

/-- The class loop runs to the first stop; what follows is the closing character, which is a
stop, so giving back class characters cannot help. -/
theorem until_matchLen {C : Re} {p stops : Char → Bool} {o close : Char} (hC : IsChar C p)
    (hs : ∀ c, stops c = !p c) (hc : p close = false) (s : List Char) :
    (cat (chr o) (cat (star C) (chr close))).matchLen s = match s with
      | c :: cs => if c = o then (reUntil close stops cs).map (· + 1) else none
      | [] => none := by
  unfold matchLen
  rw [m_cat, isChar_chr]
  cases s with
  | nil => rfl
  | cons c cs =>
    by_cases hco : c = o
    · subst hco
      have hrej : Rejects p (fun s' => (chr close).m s' (fun rest => some ((c :: cs).length - rest.length))) := by
        intro x t hx
        have hxc : x ≠ close := by rintro rfl; rw [hc] at hx; cases hx
        simp [Re.m, hxc]
      simp only [beq_self_eq_true, if_true, m_cat]
      rw [star_char hC cs _ (.inr hrej), reUntil_eq hs hc, isChar_chr]
      have := skipWhile_length p cs
      cases h : (skipWhile p cs).2 with
      | nil => rfl
      | cons y t =>
        rw [h] at this
        by_cases hy : y = close
        · simp only [hy, beq_self_eq_true, if_true, Option.map_some, List.length_cons,
            Option.some.injEq] at this ⊢
          omega
        · simp [hy]
    · simp [hco]

/-- `` `[^`]*` `` -/
theorem raw_matchLen (s : List Char) : (reOf .raw).matchLen s = reRaw s := by
  show (cat (chr '`') (cat (star (cls true [.ch '`'])) (chr '`'))).matchLen s = reRaw s
  rw [until_matchLen (isChar_cls _ _) (stops := (· == '`')) (by intro c; simp [clsTest, CItem.test])
    (by decide)]
  cases s with
  | nil => rfl
  | cons c cs => simp [reRaw]

/-- ``'[^`"']*'`` -/
theorem time_matchLen (s : List Char) : (reOf .time).matchLen s = reTime s := by
  show (cat (chr '\'') (cat (star (cls true [.ch '`', .ch '"', .ch '\''])) (chr '\''))).matchLen s
    = reTime s
  rw [until_matchLen (isChar_cls _ _) (stops := fun c => c == '`' || c == '"' || c == '\'')
    (by intro c; simp [clsTest, CItem.test, Bool.or_assoc]) (by decide)]
  cases s with
  | nil => rfl
  | cons c cs => simp [reTime]

/-! ## `keywordPostfix` and `oper.IsIdentOp` -/

/-- `keywordPostfix.MatchString(t)`: `t` starts with an identifier character. -/
theorem keywordPostfix_matchPrefix (t : List Char) :
    reKeywordPostfix.matchPrefix t = match t with
      | c :: _ => isIdentCont c
      | [] => false := by
  unfold matchPrefix matchLen reKeywordPostfix
  rw [plus_char ((isChar_cls _ _).congr clsTest_identCont') t _ (fun r _ => .inl rfl)]
  cases t with
  | nil => rfl
  | cons c cs => cases h : isIdentCont c <;> simp [h]

/-- The keyword rule is: the word is a prefix and `keywordPostfix` does not match the rest. -/
theorem keyword_run (kw s : List Char) :
    (Matcher.keyword kw).run s =
      if kw.isPrefixOf s = true ∧ reKeywordPostfix.matchPrefix (s.drop kw.length) = false
      then some kw.length else none := by
  simp only [Matcher.run, keywordPostfix_matchPrefix]
  cases kw.isPrefixOf s
  · simp
  · cases s.drop kw.length with
    | nil => simp
    | cons c t => cases h : isIdentCont c <;> simp [h]

/-- `oper.IsIdentOp` is `^[a-zA-Z\p{L}_][a-zA-Z0-9\p{L}_]*$`. -/
theorem isIdentOp_eq (s : List Char) : isIdentOp s = reIdent.matchWhole s := by
  unfold matchWhole reIdent
  rw [m_cat, isChar_identStart]
  cases s with
  | nil => rfl
  | cons c cs =>
    simp only [isIdentOp]
    cases hc : isIdentStart c
    · simp
    · have hrej : Rejects isIdentCont
          (fun rest : List Char => if rest.isEmpty = true then some () else none) := by
        intro x t _; rfl
      simp only [Bool.true_and, if_true]
      rw [star_char isChar_identCont cs _ (.inr hrej)]
      have := skipWhile_rest_nil isIdentCont cs
      cases h : (skipWhile isIdentCont cs).2 with
      | nil => rw [h] at this; simpa using this.mp rfl
      | cons y t =>
        rw [h] at this
        have : cs.all isIdentCont = false := by
          cases hall : cs.all isIdentCont
          · rfl
          · exact absurd (this.mpr hall) (by simp)
        simp [this]

end Re
end Yae
