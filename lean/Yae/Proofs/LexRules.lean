/-
  Lemmas about the lexicon (`newLexicon`, `sortOps`, `Matcher.run`) for C09 / C12:
  `oper.Sort` is a stable sort by descending byte length; every rule of the lexicon consumes at
  least one rune (when no operator has the empty kind); which rules can produce which kinds;
  whole-word matching, the `primOper` guard, longest symbolic operator first.
-/
import Yae.Proofs.Lex
namespace Yae

/-! ## `oper.Sort` -/

/-- byte length of the kind, the sort key -/
abbrev Operator.size (o : Operator) : Nat := o.kind.utf8ByteSize

theorem insertOp_perm (x : Operator) (l : List Operator) : (insertOp x l).Perm (x :: l) := by
  induction l with
  | nil => exact List.Perm.refl _
  | cons y ys ih =>
    simp only [insertOp]
    split
    · exact (List.Perm.cons y ih).trans (List.Perm.swap x y ys)
    · exact List.Perm.refl _

theorem sortOps_perm (l : List Operator) : (sortOps l).Perm l := by
  induction l with
  | nil => exact List.Perm.refl _
  | cons x xs ih => exact (insertOp_perm x (sortOps xs)).trans (List.Perm.cons x ih)

theorem mem_sortOps {o : Operator} {l : List Operator} : o ∈ sortOps l ↔ o ∈ l :=
  (sortOps_perm l).mem_iff

theorem sortOps_length (l : List Operator) : (sortOps l).length = l.length :=
  (sortOps_perm l).length_eq

theorem insertOp_sorted (x : Operator) (l : List Operator)
    (h : l.Pairwise (fun a b => a.size ≥ b.size)) :
    (insertOp x l).Pairwise (fun a b => a.size ≥ b.size) := by
  induction l with
  | nil => simp [insertOp]
  | cons y ys ih =>
    have hy := List.pairwise_cons.mp h
    simp only [insertOp]
    split
    · rename_i hgt
      refine List.pairwise_cons.mpr ⟨?_, ih hy.2⟩
      intro z hz
      have := (insertOp_perm x ys).mem_iff.mp hz
      cases this with
      | head => exact Nat.le_of_lt hgt
      | tail _ hz => exact hy.1 z hz
    · rename_i hle
      refine List.pairwise_cons.mpr ⟨?_, h⟩
      intro z hz
      cases hz with
      | head => simp only [Operator.size] at *; omega
      | tail _ hz => have := hy.1 z hz; simp only [Operator.size] at *; omega

/-- The sorted table is in descending order of byte length. -/
theorem sortOps_sorted (l : List Operator) :
    (sortOps l).Pairwise (fun a b => a.size ≥ b.size) := by
  induction l with
  | nil => simp [sortOps]
  | cons x xs ih => exact insertOp_sorted x _ ih

theorem insertOp_filter (x : Operator) (l : List Operator) (n : Nat)
    (h : l.Pairwise (fun a b => a.size ≥ b.size)) :
    (insertOp x l).filter (fun o => o.size == n) = (x :: l).filter (fun o => o.size == n) := by
  induction l with
  | nil => rfl
  | cons y ys ih =>
    have hy := List.pairwise_cons.mp h
    simp only [insertOp]
    split
    · rename_i hgt
      simp only [List.filter_cons, ih hy.2]
      by_cases hx : x.size = n <;> by_cases hyn : y.size = n <;>
        simp_all [Operator.size] <;> omega
    · rfl

/-- `oper.Sort` is STABLE: operators of the same byte length keep their registration order. -/
theorem sortOps_stable (l : List Operator) (n : Nat) :
    (sortOps l).filter (fun o => o.size == n) = l.filter (fun o => o.size == n) := by
  induction l with
  | nil => rfl
  | cons x xs ih =>
    simp only [sortOps]
    rw [insertOp_filter x _ n (sortOps_sorted xs)]
    simp only [List.filter_cons, ih]

/-! ## `firstMatch` over a concatenation -/

theorem firstMatch_append (a b : List Rule) (s : List Char) :
    firstMatch (a ++ b) s = (firstMatch a s).or (firstMatch b s) := by
  induction a with
  | nil => simp [firstMatch]
  | cons r rs ih =>
    simp only [List.cons_append, firstMatch]
    split <;> simp [ih]

/-! ## the rules by group -/

def fixedRules : List Rule := [":", ",", "(", ")", "[", "]", "{", "}"].map strRule
def primRules : List Rule := (sortOps builtInOpers).map (fun o => primOperRule o.kind)
def userRules (ops : List Operator) : List Rule := (sortOps ops).map (fun o => operRule o.kind)
def boolRules : List Rule := [keywordRule "true", keywordRule "false"]
def litRules : List Rule :=
  [⟨"<num>", .regex .floatA⟩, ⟨"<num>", .regex .floatB⟩, ⟨"<num>", .regex .bin⟩,
   ⟨"<num>", .regex .hex⟩, ⟨"<num>", .regex .oct⟩, ⟨"<num>", .regex .int⟩,
   ⟨"<str>", .regex .str⟩, ⟨"<str>", .regex .raw⟩, ⟨"<time>", .regex .time⟩,
   ⟨"<sym>", .regex .sym⟩]

theorem primRules_eq : primRules = [primOperRule ".", primOperRule "?"] := by rfl

theorem mem_primRules {r : Rule} (h : r ∈ primRules) :
    r = primOperRule "." ∨ r = primOperRule "?" := by
  rw [primRules_eq] at h; simpa using h

theorem newLexicon_eq (ops : List Operator) :
    newLexicon ops = fixedRules ++ primRules ++ userRules ops ++ boolRules ++ litRules := rfl

/-- per iteration the loop tries at most this many rules -/
theorem newLexicon_length (ops : List Operator) : (newLexicon ops).length = ops.length + 22 := by
  simp [newLexicon, sortOps_length, builtInOpers]; omega

theorem mem_newLexicon {ops : List Operator} {r : Rule} (h : r ∈ newLexicon ops) :
    r ∈ fixedRules ∨ r ∈ primRules ∨ (∃ o ∈ ops, r = operRule o.kind) ∨ r ∈ boolRules ∨
      r ∈ litRules := by
  rw [newLexicon_eq] at h
  simp only [List.mem_append] at h
  rcases h with (((h | h) | h) | h) | h
  · exact .inl h
  · exact .inr (.inl h)
  · simp only [userRules, List.mem_map] at h
    obtain ⟨o, ho, rfl⟩ := h
    exact .inr (.inr (.inl ⟨o, mem_sortOps.mp ho, rfl⟩))
  · exact .inr (.inr (.inr (.inl h)))
  · exact .inr (.inr (.inr (.inr h)))

/-! ## what a match of each matcher says -/

theorem isPrefixOf_append {a s : List Char} (h : a.isPrefixOf s = true) :
    s = a ++ s.drop a.length := by
  have := List.isPrefixOf_iff_prefix.mp h
  exact (List.prefix_iff_eq_append.mp this).symm

theorem run_str {tok s : List Char} {n : Nat} (h : (Matcher.str tok).run s = some n) :
    n = tok.length ∧ tok.isPrefixOf s = true := by
  simp only [Matcher.run] at h
  split at h
  · rename_i hp; simp at h; exact ⟨h.symm, hp⟩
  · simp at h

theorem run_keyword {kw s : List Char} {n : Nat} (h : (Matcher.keyword kw).run s = some n) :
    n = kw.length ∧ kw.isPrefixOf s = true ∧
      ∀ c r, s.drop kw.length = c :: r → isIdentCont c = false := by
  simp only [Matcher.run] at h
  split at h
  · rename_i hp
    split at h
    · rename_i hd
      simp at h
      exact ⟨h.symm, hp, by intro c r hc; rw [hd] at hc; cases hc⟩
    · rename_i c r hd
      split at h
      · simp at h
      · rename_i hc
        simp at h
        refine ⟨h.symm, hp, ?_⟩
        intro c' r' hc'
        rw [hd] at hc'
        cases hc'
        simpa using hc
  · simp at h

theorem run_primOper {op s : List Char} {n : Nat} (h : (Matcher.primOper op).run s = some n) :
    n = op.length ∧ op.isPrefixOf s = true ∧ operHasPrefix (s.drop op.length) = false := by
  simp only [Matcher.run] at h
  split at h
  · rename_i hp
    split at h
    · simp at h
    · rename_i hc
      simp at h
      exact ⟨h.symm, hp, by simpa using hc⟩
  · simp at h

theorem run_regex_pos {p : Pat} {s : List Char} {n : Nat} (h : (Matcher.regex p).run s = some n) :
    0 < n := by
  simp only [Matcher.run] at h
  split at h
  · simp at h
  · rename_i m hm hne
    simp at h; subst h
    cases m with
    | zero => exact absurd hm (by simp)
    | succ m => omega
  · simp at h

/-! ## progress -/

theorem toList_length_pos {k : String} (h : k ≠ "") : 0 < k.toList.length := by
  apply List.length_pos_iff.mpr
  intro h'
  exact h (String.toList_eq_nil_iff.mp h')

theorem operRule_progress {k : String} (hk : k ≠ "") {s : List Char} {n : Nat}
    (h : (operRule k).m.run s = some n) : 0 < n := by
  unfold operRule at h
  split at h
  · simp only [keywordRule] at h
    rw [(run_keyword h).1]; exact toList_length_pos hk
  · simp only [strRule] at h
    rw [(run_str h).1]; exact toList_length_pos hk

/-- With no operator of empty kind every rule of the lexicon consumes at least one rune. -/
theorem newLexicon_progress {ops : List Operator} (hops : ∀ o ∈ ops, o.kind ≠ "") :
    RulesProgress (newLexicon ops) := by
  intro r hr s n hrun
  rcases mem_newLexicon hr with h | h | ⟨o, ho, rfl⟩ | h | h
  · simp only [fixedRules, List.map_cons, List.map_nil, List.mem_cons, List.not_mem_nil,
      or_false] at h
    rcases h with rfl | rfl | rfl | rfl | rfl | rfl | rfl | rfl <;>
      (simp only [strRule] at hrun; rw [(run_str hrun).1]; decide)
  · rcases mem_primRules h with rfl | rfl <;>
      (simp only [primOperRule] at hrun; rw [(run_primOper hrun).1]; decide)
  · exact operRule_progress (hops o ho) hrun
  · simp only [boolRules, List.mem_cons, List.not_mem_nil, or_false] at h
    rcases h with rfl | rfl <;>
      (simp only [keywordRule] at hrun; rw [(run_keyword hrun).1]; decide)
  · simp only [litRules, List.mem_cons, List.not_mem_nil, or_false] at h
    rcases h with rfl | rfl | rfl | rfl | rfl | rfl | rfl | rfl | rfl | rfl <;>
      exact run_regex_pos hrun

/-! ## which rule produces an identifier-like kind: whole words -/

theorem operRule_kind (k : String) : (operRule k).kind = k := by
  unfold operRule; split <;> rfl

/-- A rule of the lexicon whose kind is identifier-like is the `keyword` rule of that kind. -/
theorem newLexicon_ident_rule {ops : List Operator} {r : Rule} (hr : r ∈ newLexicon ops)
    (hk : isIdentOp r.kind.toList = true) : r.m = .keyword r.kind.toList := by
  rcases mem_newLexicon hr with h | h | ⟨o, ho, rfl⟩ | h | h
  · simp only [fixedRules, List.map_cons, List.map_nil, List.mem_cons, List.not_mem_nil,
      or_false] at h
    rcases h with rfl | rfl | rfl | rfl | rfl | rfl | rfl | rfl <;>
      exact absurd hk (by decide)
  · rcases mem_primRules h with rfl | rfl <;> exact absurd hk (by decide)
  · rw [operRule_kind] at hk ⊢
    simp [operRule, hk, keywordRule]
  · simp only [boolRules, List.mem_cons, List.not_mem_nil, or_false] at h
    rcases h with rfl | rfl <;> rfl
  · simp only [litRules, List.mem_cons, List.not_mem_nil, or_false] at h
    rcases h with rfl | rfl | rfl | rfl | rfl | rfl | rfl | rfl | rfl | rfl <;>
      exact absurd hk (by decide)

/-- Whole words: when the first matching rule has an identifier-like kind `k` (an identifier-like
operator, `true`, `false`), the input starts with `k`, exactly `k` is consumed, and the next
character, if any, cannot continue an identifier. -/
theorem firstMatch_word {ops : List Operator} {s : List Char} {k : String} {n : Nat}
    (h : firstMatch (newLexicon ops) s = some (k, n)) (hk : isIdentOp k.toList = true) :
    n = k.toList.length ∧ s = k.toList ++ s.drop k.toList.length ∧
      ∀ c r, s.drop k.toList.length = c :: r → isIdentCont c = false := by
  obtain ⟨pre, r, post, e, hrk, hrun, _⟩ := firstMatch_spec h
  have hr : r ∈ newLexicon ops := by rw [e]; simp
  subst hrk
  rw [newLexicon_ident_rule hr hk] at hrun
  obtain ⟨h1, h2, h3⟩ := run_keyword hrun
  exact ⟨h1, isPrefixOf_append h2, h3⟩

/-! ## the built-in `.` and `?` -/

/-- A rule of kind `k ∈ {".", "?"}` is the `primOper` rule unless the user registered `k`. -/
theorem newLexicon_prim_rule {ops : List Operator} {r : Rule} (hr : r ∈ newLexicon ops)
    (hk : r.kind = "." ∨ r.kind = "?") (hops : ∀ o ∈ ops, o.kind ≠ r.kind) :
    r.m = .primOper r.kind.toList := by
  rcases mem_newLexicon hr with h | h | ⟨o, ho, rfl⟩ | h | h
  · simp only [fixedRules, List.map_cons, List.map_nil, List.mem_cons, List.not_mem_nil,
      or_false] at h
    rcases h with rfl | rfl | rfl | rfl | rfl | rfl | rfl | rfl <;>
      (rcases hk with hk | hk <;> exact absurd hk (by decide))
  · rcases mem_primRules h with rfl | rfl <;> rfl
  · exact absurd (operRule_kind o.kind).symm (hops o ho)
  · simp only [boolRules, List.mem_cons, List.not_mem_nil, or_false] at h
    rcases h with rfl | rfl <;> (rcases hk with hk | hk <;> exact absurd hk (by decide))
  · simp only [litRules, List.mem_cons, List.not_mem_nil, or_false] at h
    rcases h with rfl | rfl | rfl | rfl | rfl | rfl | rfl | rfl | rfl | rfl <;>
      (rcases hk with hk | hk <;> exact absurd hk (by decide))

theorem firstMatch_prim {ops : List Operator} {s : List Char} {k : String} {n : Nat}
    (h : firstMatch (newLexicon ops) s = some (k, n)) (hk : k = "." ∨ k = "?")
    (hops : ∀ o ∈ ops, o.kind ≠ k) :
    n = 1 ∧ s = k.toList ++ s.drop 1 ∧ operHasPrefix (s.drop 1) = false := by
  obtain ⟨pre, r, post, e, hrk, hrun, _⟩ := firstMatch_spec h
  have hr : r ∈ newLexicon ops := by rw [e]; simp
  subst hrk
  rw [newLexicon_prim_rule hr hk hops] at hrun
  obtain ⟨h1, h2, h3⟩ := run_primOper hrun
  have hl : r.kind.toList.length = 1 := by rcases hk with hk | hk <;> rw [hk] <;> decide
  rw [hl] at h1 h3
  have := isPrefixOf_append h2
  rw [hl] at this
  exact ⟨h1, this, h3⟩

/-! ## longest symbolic operator -/

def fixedKinds : List String := [":", ",", "(", ")", "[", "]", "{", "}"]

theorem firstMatch_kind_mem {rules : List Rule} {s : List Char} {k : String} {n : Nat}
    (h : firstMatch rules s = some (k, n)) : k ∈ rules.map (·.kind) := by
  obtain ⟨pre, r, post, e, hrk, _, _⟩ := firstMatch_spec h
  rw [e]; simp; exact .inr (.inl hrk.symm)

/-- The first matching user rule belongs to an operator at least as long (in bytes) as every
symbolic user operator that is a prefix of the input. -/
theorem firstMatch_user_longest {ops : List Operator} {s : List Char} {k : String} {n : Nat}
    (h : firstMatch (userRules ops) s = some (k, n)) {o : Operator} (ho : o ∈ ops)
    (hsym : isIdentOp o.kind.toList = false) (hpre : o.kind.toList.isPrefixOf s = true) :
    ∃ o' ∈ ops, o'.kind = k ∧ o.size ≤ o'.size := by
  obtain ⟨pre, r, post, e, hrk, hrun, hfail⟩ := firstMatch_spec h
  unfold userRules at e
  obtain ⟨l1, l2', e1, e2, e3⟩ := List.map_eq_append_iff.mp e
  obtain ⟨o', l2, e4, e5, e6⟩ := List.map_eq_cons_iff.mp e3
  subst e4
  refine ⟨o', mem_sortOps.mp (by rw [e1]; simp), ?_, ?_⟩
  · rw [← hrk, ← e5, operRule_kind]
  · have hmem : o ∈ sortOps ops := mem_sortOps.mpr ho
    rw [e1] at hmem
    have hmatch : (operRule o.kind).m.run s = some o.kind.toList.length := by
      simp [operRule, hsym, strRule, Matcher.run, hpre]
    rcases List.mem_append.mp hmem with hm | hm
    · have := hfail (operRule o.kind) (by rw [← e2]; exact List.mem_map.mpr ⟨o, hm, rfl⟩)
      rw [hmatch] at this; cases this
    · have hs := sortOps_sorted ops
      rw [e1] at hs
      have hs2 := (List.pairwise_append.mp hs).2.1
      cases hm with
      | head => exact Nat.le_refl _
      | tail _ hm => exact (List.pairwise_cons.mp hs2).1 o hm

/-- Longest match among the registered symbolic operators, with the exceptions the lexicon
builds in: the eight punctuation rules and the two built-in operators come first. -/
theorem firstMatch_longest {ops : List Operator} {s : List Char} {k : String} {n : Nat}
    (h : firstMatch (newLexicon ops) s = some (k, n)) {o : Operator} (ho : o ∈ ops)
    (hsym : isIdentOp o.kind.toList = false) (hpre : o.kind.toList.isPrefixOf s = true) :
    k ∈ fixedKinds ∨ k = "." ∨ k = "?" ∨ ∃ o' ∈ ops, o'.kind = k ∧ o.size ≤ o'.size := by
  rw [newLexicon_eq] at h
  simp only [List.append_assoc, firstMatch_append] at h
  cases h1 : firstMatch fixedRules s with
  | some kn =>
    rw [h1] at h; simp at h; subst h
    exact .inl (by simpa [fixedRules, fixedKinds, strRule] using firstMatch_kind_mem h1)
  | none =>
    rw [h1] at h; simp only [Option.none_or] at h
    cases h2 : firstMatch primRules s with
    | some kn =>
      rw [h2] at h; simp at h; subst h
      have := firstMatch_kind_mem h2
      rw [primRules_eq] at this
      simp [primOperRule] at this
      exact .inr (by rcases this with h' | h' <;> simp [h'])
    | none =>
      rw [h2] at h; simp only [Option.none_or] at h
      have hmatch : (operRule o.kind).m.run s = some o.kind.toList.length := by
        simp [operRule, hsym, strRule, Matcher.run, hpre]
      cases h3 : firstMatch (userRules ops) s with
      | none =>
        have := firstMatch_none h3 (operRule o.kind)
          (List.mem_map.mpr ⟨o, mem_sortOps.mpr ho, rfl⟩)
        rw [hmatch] at this; cases this
      | some kn =>
        rw [h3] at h; simp at h; subst h
        exact .inr (.inr (.inr (firstMatch_user_longest h3 ho hsym hpre)))

end Yae
