/-
  Small facts about the number / quoting model that later proofs use.
  Core Lean only; no sorry, no axioms beyond the standard ones, no native_decide.
-/
import Yae.Model.Num
namespace Yae.Num

/-! ## decimal digits -/

theorem digitVal_digitChar (d : Nat) (h : d < 10) : digitVal (digitChar d) = d := by
  have : ∀ d : Fin 10, digitVal (digitChar d.val) = d.val := by decide
  exact this ⟨d, h⟩

theorem isDigit_digitChar (d : Nat) (h : d < 10) : isDigit (digitChar d) = true := by
  have : ∀ d : Fin 10, isDigit (digitChar d.val) = true := by decide
  exact this ⟨d, h⟩

theorem digitsVal_append_singleton (xs : List Char) (c : Char) :
    digitsVal (xs ++ [c]) = digitsVal xs * 10 + digitVal c := by
  simp [digitsVal, List.foldl_append]

/-- reading the digits back gives the number: `natDigits` has a left inverse -/
theorem digitsVal_natDigits (n : Nat) : digitsVal (natDigits n) = n := by
  induction n using natDigits.induct with
  | case1 n h =>
    rw [natDigits, dif_pos h]
    simp [digitsVal, digitVal_digitChar n h]
  | case2 n h ih =>
    rw [natDigits, dif_neg h, digitsVal_append_singleton, ih,
      digitVal_digitChar _ (Nat.mod_lt _ (by decide))]
    omega

theorem natDigits_injective {a b : Nat} (h : natDigits a = natDigits b) : a = b := by
  have := congrArg digitsVal h
  simpa [digitsVal_natDigits] using this

theorem natDigits_all_digits (n : Nat) : ∀ c ∈ natDigits n, isDigit c = true := by
  induction n using natDigits.induct with
  | case1 n h =>
    rw [natDigits, dif_pos h]
    intro c hc
    simp at hc
    subst hc
    exact isDigit_digitChar n h
  | case2 n h ih =>
    rw [natDigits, dif_neg h]
    intro c hc
    simp at hc
    rcases hc with hc | hc
    · exact ih c hc
    · subst hc
      exact isDigit_digitChar _ (Nat.mod_lt _ (by decide))

theorem natDigits_ne_nil (n : Nat) : natDigits n ≠ [] := by
  induction n using natDigits.induct with
  | case1 n h => rw [natDigits, dif_pos h]; simp
  | case2 n h _ => rw [natDigits, dif_neg h]; simp

/-- no leading zero, except for the number 0 itself -/
theorem natDigits_head (n : Nat) (hn : n ≠ 0) : (natDigits n).head? ≠ some '0' := by
  induction n using natDigits.induct with
  | case1 n h =>
    rw [natDigits, dif_pos h]
    have : ∀ d : Fin 10, d.val ≠ 0 → [digitChar d.val].head? ≠ some '0' := by decide
    exact this ⟨n, h⟩ hn
  | case2 n h ih =>
    rw [natDigits, dif_neg h]
    have hne := natDigits_ne_nil (n / 10)
    have : n / 10 ≠ 0 := by omega
    have ih := ih this
    cases hd : natDigits (n / 10) with
    | nil => exact absurd hd hne
    | cons x xs => simpa [hd] using ih

theorem natDigits_zero : natDigits 0 = ['0'] := by
  rw [natDigits]; rfl

/-! ## fmtInt (strconv.FormatInt(n, 10)) is injective -/

theorem fmtNat_injective {a b : Nat} (h : fmtNat a = fmtNat b) : a = b :=
  natDigits_injective (String.ofList_injective h)

theorem natDigits_ne_minus (n : Nat) (rest : List Char) : natDigits n ≠ '-' :: rest := by
  intro h
  have := natDigits_all_digits n '-' (by rw [h]; simp)
  exact absurd this (by decide)

theorem fmtInt_injective {a b : Int} (h : fmtInt a = fmtInt b) : a = b := by
  cases a with
  | ofNat x =>
    cases b with
    | ofNat y =>
      have := fmtNat_injective (a := x) (b := y) h
      rw [this]
    | negSucc y =>
      have h' := String.ofList_injective h
      exact absurd h' (natDigits_ne_minus x _)
  | negSucc x =>
    cases b with
    | ofNat y =>
      have h' := String.ofList_injective h
      exact absurd h'.symm (natDigits_ne_minus y _)
    | negSucc y =>
      have h' := String.ofList_injective h
      have h'' : natDigits (x + 1) = natDigits (y + 1) := by
        simpa using h'
      have := natDigits_injective h''
      have hxy : x = y := by omega
      rw [hxy]

/-- the text of a negative number starts with '-', that of a non-negative one with a digit -/
theorem fmtInt_nonneg_chars (n : Nat) : ∀ c ∈ (fmtInt (Int.ofNat n)).toList, isDigit c = true := by
  simp only [fmtInt, fmtNat, String.toList_ofList]
  exact natDigits_all_digits n

/-! ## strconv.Unquote ∘ strconv.Quote = id -/

theorem hexDigitVal_hexLower (d : Nat) (h : d < 16) : hexDigitVal (hexLower d) = some d := by
  have : ∀ d : Fin 16, hexDigitVal (hexLower d.val) = some d.val := by decide
  exact this ⟨d, h⟩

theorem takeHex_hexFixed (w : Nat) : ∀ (k m acc : Nat) (rest : List Char),
    takeHex (k + w) acc (hexFixed w m ++ rest) = takeHex k (acc * 16 ^ w + m % 16 ^ w) rest := by
  induction w with
  | zero => intro k m acc rest; simp [hexFixed, Nat.mod_one]
  | succ w ih =>
    intro k m acc rest
    have e1 : k + (w + 1) = (k + 1) + w := by omega
    rw [e1]
    simp only [hexFixed, List.append_assoc, List.singleton_append]
    rw [ih (k + 1) (m / 16) acc]
    simp only [takeHex, hexDigitVal_hexLower (m % 16) (Nat.mod_lt _ (by decide))]
    congr 1
    rw [Nat.pow_succ, Nat.mul_comm (16 ^ w) 16, Nat.mod_mul]
    generalize 16 ^ w = P
    generalize m / 16 % P = Q
    rw [Nat.add_mul, Nat.mul_assoc, Nat.mul_comm P 16, ← Nat.mul_assoc]
    omega

theorem isPrint_ge (c : Char) (h : isPrint c = true) : 32 ≤ c.toNat := by
  obtain ⟨rest, hr⟩ : ∃ rest, Yae.Gen.printRanges = (0x20, 0x7E) :: rest := ⟨_, rfl⟩
  unfold isPrint at h
  rw [hr] at h
  unfold inRanges at h
  by_cases hlt : c.toNat < 0x20
  · simp [hlt] at h
  · omega

theorem char_eq_of_toNat (c : Char) (n : Nat) (h : c.toNat = n) : c = Char.ofNat n := by
  rw [← h, Char.ofNat_toNat]

/-- one escaped (or verbatim) character is decoded back to itself -/
theorem unquoteBody_quoteChar (c : Char) (fuel : Nat) (acc tail : List Char) :
    unquoteBody '"' false (fuel + 1) acc (quoteChar c ++ tail)
      = unquoteBody '"' false fuel (c :: acc) tail := by
  unfold quoteChar
  split
  · -- quote or backslash
    rename_i h
    simp at h
    rcases h with h | h <;> subst h <;> simp [unquoteBody, unescape]
  · rename_i h1
    simp at h1
    split
    · -- printable
      rename_i hp
      have hge := isPrint_ge c hp
      have hnl : c ≠ '\n' := by
        intro h; subst h; simp at hge
      simp [unquoteBody, h1.1, h1.2, hnl]
    · rename_i hnp
      have named : ∀ (k : Nat) (e : Char), c.toNat = k →
          (∀ t, unescape '"' (e :: t) = some (Char.ofNat k, t)) → e ≠ '"' → 
          unquoteBody '"' false (fuel + 1) acc (['\\', e] ++ tail)
            = unquoteBody '"' false fuel (c :: acc) tail := by
        intro k e hk he _
        have := char_eq_of_toNat c k hk
        subst this
        simp [unquoteBody, he]
      simp only []
      split
      · rename_i h; exact named 7 'a' (by simpa using h) (by intro t; simp [unescape]) (by decide)
      split
      · rename_i h; exact named 8 'b' (by simpa using h) (by intro t; simp [unescape]) (by decide)
      split
      · rename_i h; exact named 12 'f' (by simpa using h) (by intro t; simp [unescape]) (by decide)
      split
      · rename_i h; exact named 10 'n' (by simpa using h) (by intro t; simp [unescape]) (by decide)
      split
      · rename_i h; exact named 13 'r' (by simpa using h) (by intro t; simp [unescape]) (by decide)
      split
      · rename_i h; exact named 9 't' (by simpa using h) (by intro t; simp [unescape]) (by decide)
      split
      · rename_i h; exact named 11 'v' (by simpa using h) (by intro t; simp [unescape]) (by decide)
      have hvalid : validRune c.toNat = true := by
        have hv : c.toNat < 0xD800 ∨ (0xDFFF < c.toNat ∧ c.toNat < 0x110000) := c.valid
        simp only [validRune]
        rcases hv with h | ⟨h1, h2⟩
        · simp; omega
        · simp; omega
      have hlt : c.toNat < 0x110000 := by
        simp [validRune] at hvalid; omega
      split
      · -- \xNN
        rename_i hx
        have hx' : c.toNat < 128 := by simp at hx; omega
        have hh := takeHex_hexFixed 2 0 c.toNat 0 tail
        simp only [Nat.zero_add, Nat.zero_mul] at hh
        have hm : c.toNat % 16 ^ 2 = c.toNat := Nat.mod_eq_of_lt (by omega)
        simp [unquoteBody, unescape, hh, hm, hx', takeHex, Char.ofNat_toNat]
      split
      · -- \uNNNN
        rename_i hu
        have hh := takeHex_hexFixed 4 0 c.toNat 0 tail
        simp only [Nat.zero_add, Nat.zero_mul] at hh
        have hm : c.toNat % 16 ^ 4 = c.toNat := Nat.mod_eq_of_lt (by omega)
        simp [unquoteBody, unescape, hh, hm, hvalid, takeHex, Char.ofNat_toNat]
      · -- \UNNNNNNNN
        have hh := takeHex_hexFixed 8 0 c.toNat 0 tail
        simp only [Nat.zero_add, Nat.zero_mul] at hh
        have hm : c.toNat % 16 ^ 8 = c.toNat := Nat.mod_eq_of_lt (by omega)
        simp [unquoteBody, unescape, hh, hm, hvalid, takeHex, Char.ofNat_toNat]

theorem quoteChar_length_pos (c : Char) : 1 ≤ (quoteChar c).length := by
  unfold quoteChar
  split
  · simp
  split
  · simp
  simp only []
  repeat' split
  all_goals simp

theorem length_le_flatMap_quoteChar (l : List Char) : l.length ≤ (l.flatMap quoteChar).length := by
  induction l with
  | nil => simp
  | cons c l ih =>
    have := quoteChar_length_pos c
    simp only [List.flatMap_cons, List.length_append, List.length_cons]
    omega

theorem unquoteBody_quoted (l : List Char) : ∀ (fuel : Nat) (acc : List Char), l.length + 1 ≤ fuel →
    unquoteBody '"' false fuel acc (l.flatMap quoteChar ++ ['"']) = some (acc.reverse ++ l, []) := by
  induction l with
  | nil =>
    intro fuel acc h
    obtain ⟨f, rfl⟩ : ∃ f, fuel = f + 1 := ⟨fuel - 1, by omega⟩
    simp [unquoteBody]
  | cons c l ih =>
    intro fuel acc h
    obtain ⟨f, rfl⟩ : ∃ f, fuel = f + 1 := ⟨fuel - 1, by omega⟩
    simp only [List.flatMap_cons, List.append_assoc]
    rw [unquoteBody_quoteChar, ih f (c :: acc) (by simpa using h)]
    simp

/-- `strconv.Unquote(strconv.Quote(s)) == s` -/
theorem unquote_quote (s : String) : unquote (quote s) = some s := by
  unfold unquote quote
  rw [String.toList_ofList]
  have hlen := length_le_flatMap_quoteChar s.toList
  cases hx : s.toList.flatMap quoteChar ++ ['"'] with
  | nil => simp at hx
  | cons y ys =>
    simp only []
    rw [← hx]
    have e1 : ('"' == '`') = false := by decide
    have e2 : ('"' == '\'') = false := by decide
    have e3 : ('"' == '"') = true := by decide
    simp only [e1, e2, e3]
    rw [unquoteBody_quoted s.toList _ [] (by simp only [List.length_append, List.length_singleton]; omega)]
    simp [String.ofList_toList]

/-! ## float64(n) for |n| < 2^53: `int64` reads it back, it is integer-valued, it prints as n -/

theorem expField_ofNat (B : Nat) (h : B < 2 ^ 64) : expField (UInt64.ofNat B) = B / 2 ^ 52 % 2048 := by
  unfold expField
  rw [UInt64.toNat_and, UInt64.toNat_shiftRight, UInt64.toNat_ofNat', Nat.mod_eq_of_lt h]
  have e1 : (52 : UInt64).toNat % 64 = 52 := by decide
  have e2 : (0x7FF : UInt64).toNat = 2 ^ 11 - 1 := by decide
  rw [e1, e2, Nat.and_two_pow_sub_one_eq_mod, Nat.shiftRight_eq_div_pow]

theorem fracField_ofNat (B : Nat) (h : B < 2 ^ 64) : fracField (UInt64.ofNat B) = B % 2 ^ 52 := by
  unfold fracField
  rw [UInt64.toNat_and, UInt64.toNat_ofNat', Nat.mod_eq_of_lt h]
  have e2 : fracMask.toNat = 2 ^ 52 - 1 := by decide
  rw [e2, Nat.and_two_pow_sub_one_eq_mod]

theorem signBit_ofNat_small (B : Nat) (h : B < 2 ^ 63) : signBit (UInt64.ofNat B) = false := by
  unfold signBit
  have hz : (UInt64.ofNat B &&& signMask) = 0 := by
    apply UInt64.toNat_inj.mp
    rw [UInt64.toNat_and, UInt64.toNat_ofNat', Nat.mod_eq_of_lt (by omega)]
    have e2 : signMask.toNat = 2 ^ 63 := by decide
    rw [e2]
    apply Nat.eq_of_testBit_eq
    intro i
    rw [Nat.testBit_and, Nat.testBit_two_pow]
    by_cases hi : 63 = i
    · subst hi
      simp [Nat.testBit_lt_two_pow h]
    · simp [hi]
  simp [hz]

theorem bitLen_bounds (n : Nat) (h0 : 0 < n) : 2 ^ (bitLen n - 1) ≤ n ∧ n < 2 ^ bitLen n ∧ 1 ≤ bitLen n := by
  have hne : n ≠ 0 := by omega
  unfold bitLen
  have : (n == 0) = false := by simp [hne]
  simp only [this]
  refine ⟨?_, ?_, by simp⟩
  · simpa using Nat.log2_self_le hne
  · exact Nat.lt_log2_self

theorem bitLen_le_of_lt (n k : Nat) (h0 : 0 < n) (h : n < 2 ^ k) : bitLen n ≤ k := by
  have hne : n ≠ 0 := by omega
  unfold bitLen
  have : (n == 0) = false := by simp [hne]
  simp only [this]
  have := (Nat.log2_lt hne (k := k)).mpr h
  simp
  omega

/-- the bit pattern of a positive integer below 2^53: exponent field 1075-s, mantissa n·2^s -/
theorem natToBits_small (n : Nat) (h0 : 0 < n) (h : n < 2 ^ 53) :
    natToBits n = UInt64.ofNat ((1074 - (53 - bitLen n)) * 2 ^ 52 + n * 2 ^ (53 - bitLen n)) := by
  have hL := bitLen_le_of_lt n 53 h0 h
  have ⟨hlo, hhi, hL1⟩ := bitLen_bounds n h0
  unfold natToBits
  have : (n == 0) = false := by simp; omega
  simp only [this]
  unfold packRound
  simp only []
  by_cases h53 : bitLen n = 53
  · have hd : max ((bitLen n : Int) - 53) (-1074 - 0) = Int.ofNat 0 := by
      rw [h53]; decide
    rw [hd]
    simp only [h53]
    have hlt : ¬ ((0 + Int.ofNat 0 + 1074) * 2 ^ 52 + (n : Int) ≥ 9218868437227405312) := by
      simp only [Int.ofNat_eq_natCast]; omega
    rw [if_neg (by decide), if_neg hlt]
    congr 1
    simp only [Int.ofNat_eq_natCast]; omega
  · obtain ⟨k, hk⟩ : ∃ k, 53 - bitLen n = k + 1 := ⟨52 - bitLen n, by omega⟩
    have hd : max ((bitLen n : Int) - 53) (-1074 - 0) = Int.negSucc k := by
      omega
    rw [hd]
    simp only [hk]
    have hpow : 2 ^ bitLen n * 2 ^ (k + 1) = 2 ^ 53 := by
      rw [← Nat.pow_add]; congr 1; omega
    have hmul : n * 2 ^ (k + 1) < 2 ^ 53 := by
      rw [← hpow]; exact Nat.mul_lt_mul_of_pos_right hhi (Nat.pow_pos (by decide))
    rw [Nat.shiftLeft_eq]
    generalize 2 ^ (k + 1) = P at *
    have hk52 : k + 1 ≤ 52 := by omega
    have hlt : ¬ ((0 + Int.negSucc k + 1074) * 2 ^ 52 + ((n * P : Nat) : Int) ≥ 9218868437227405312) := by
      rw [Int.negSucc_eq]; omega
    rw [if_neg (by decide), if_neg hlt]
    apply congrArg UInt64.ofNat
    rw [Int.negSucc_eq]; omega

theorem shiftNat_neg (m s : Nat) : shiftNat m (-(s : Int)) = m >>> s := by
  cases s with
  | zero => simp [shiftNat]
  | succ k =>
    have : (-((k + 1 : Nat) : Int)) = Int.negSucc k := by rw [Int.negSucc_eq]; omega
    rw [this]
    simp [shiftNat]

theorem signBit_ofNat_large (B : Nat) (h1 : 2 ^ 63 ≤ B) (h2 : B < 2 ^ 64) : signBit (UInt64.ofNat B) = true := by
  unfold signBit
  have hz : (UInt64.ofNat B &&& signMask) ≠ 0 := by
    intro hc
    have := congrArg UInt64.toNat hc
    rw [UInt64.toNat_and, UInt64.toNat_ofNat', Nat.mod_eq_of_lt h2] at this
    have e2 : signMask.toNat = 2 ^ 63 := by decide
    rw [e2] at this
    have hb := congrArg (fun x => Nat.testBit x 63) this
    simp only [Nat.testBit_and, Nat.testBit_two_pow] at hb
    have : B.testBit 63 = true := by
      rw [Nat.testBit_eq_decide_div_mod_eq]; simp; omega
    simp [this] at hb
  simp [hz]

theorem or_signMask (B : Nat) (h : B < 2 ^ 63) :
    (UInt64.ofNat B ||| signMask) = UInt64.ofNat (2 ^ 63 + B) := by
  apply UInt64.toNat_inj.mp
  rw [UInt64.toNat_or, UInt64.toNat_ofNat', UInt64.toNat_ofNat', Nat.mod_eq_of_lt (by omega),
    Nat.mod_eq_of_lt (by omega)]
  have e2 : signMask.toNat = 2 ^ 63 := by decide
  rw [e2, Nat.or_comm]
  have := Nat.two_pow_add_eq_or_of_lt h 1
  simpa using this.symm

/-- value of `int64(f)` read off the fields of a normal double whose integer part has no more
    than 53 bits: sign · (M >> s) where the exponent field is 1075 - s -/
theorem toInt64Bits_of_fields (b : UInt64) (M s : Nat) (hs : s ≤ 52)
    (hE : expField b = 1075 - s) (hF : fracField b = M - 2 ^ 52) (hM1 : 2 ^ 52 ≤ M) (hM2 : M < 2 ^ 53) :
    toInt64Bits b = if signBit b then -((M >>> s : Nat) : Int) else ((M >>> s : Nat) : Int) := by
  have hD : decompose b = (M, -(s : Int)) := by
    unfold decompose
    simp only [hE, hF]
    have : (1075 - s == 0) = false := by simp; omega
    simp only [this]
    rw [if_neg (by decide)]
    apply Prod.ext
    · show M - 2 ^ 52 + 2 ^ 52 = M; omega
    · show ((1075 - s : Nat) : Int) - 1075 = -(s : Int); omega
  have hle : M >>> s ≤ M := by
    rw [Nat.shiftRight_eq_div_pow]; exact Nat.div_le_self _ _
  unfold toInt64Bits
  simp only [hE, hD, shiftNat_neg]
  have : (1075 - s == 2047) = false := by simp; omega
  simp only [this, minInt64]
  generalize M >>> s = v at *
  cases signBit b <;> simp <;> omega

/-- fields of `float64(n)` for 0 < n < 2^53 -/
theorem natToBits_fields (n : Nat) (h0 : 0 < n) (h : n < 2 ^ 53) :
    ∃ s M, s ≤ 52 ∧ 2 ^ 52 ≤ M ∧ M < 2 ^ 53 ∧ M >>> s = n ∧ M % 2 ^ s = 0 ∧
      natToBits n = UInt64.ofNat ((1074 - s) * 2 ^ 52 + M) := by
  have hL := bitLen_le_of_lt n 53 h0 h
  have ⟨hlo, hhi, hL1⟩ := bitLen_bounds n h0
  refine ⟨53 - bitLen n, n * 2 ^ (53 - bitLen n), by omega, ?_, ?_, ?_, ?_, natToBits_small n h0 h⟩
  · have hpow : 2 ^ (bitLen n - 1) * 2 ^ (53 - bitLen n) = 2 ^ 52 := by
      rw [← Nat.pow_add]; congr 1; omega
    rw [← hpow]; exact Nat.mul_le_mul_right _ hlo
  · have hpow' : 2 ^ bitLen n * 2 ^ (53 - bitLen n) = 2 ^ 53 := by
      rw [← Nat.pow_add]; congr 1; omega
    rw [← hpow']; exact Nat.mul_lt_mul_of_pos_right hhi (Nat.pow_pos (by decide))
  · rw [Nat.shiftRight_eq_div_pow, Nat.mul_div_cancel _ (Nat.pow_pos (by decide))]
  · exact Nat.mul_mod_left _ _

/-- `int64(float64(n)) == n` for 0 ≤ n < 2^53 -/
theorem toInt64Bits_natToBits (n : Nat) (h : n < 2 ^ 53) : toInt64Bits (natToBits n) = n := by
  by_cases h0 : n = 0
  · subst h0; decide
  obtain ⟨s, M, hs, hM1, hM2, hsh, _, hb⟩ := natToBits_fields n (by omega) h
  have hB : (1074 - s) * 2 ^ 52 + M < 2 ^ 63 := by omega
  rw [hb, toInt64Bits_of_fields _ M s hs (by rw [expField_ofNat _ (by omega)]; omega)
    (by rw [fracField_ofNat _ (by omega)]; omega) hM1 hM2, signBit_ofNat_small _ hB, hsh]
  simp

/-- `int64(float64(n)) == n` for |n| < 2^53 -/
theorem toInt64Bits_intToBits (n : Int) (h : n.natAbs < 2 ^ 53) : toInt64Bits (intToBits n) = n := by
  unfold intToBits
  by_cases hn : n < 0
  · simp only [hn, if_true]
    obtain ⟨s, M, hs, hM1, hM2, hsh, _, hb⟩ := natToBits_fields n.natAbs (by omega) h
    have hB : (1074 - s) * 2 ^ 52 + M < 2 ^ 63 := by omega
    rw [hb, or_signMask _ hB,
      toInt64Bits_of_fields _ M s hs (by rw [expField_ofNat _ (by omega)]; omega)
        (by rw [fracField_ofNat _ (by omega)]; omega) hM1 hM2,
      signBit_ofNat_large _ (by omega) (by omega), hsh]
    simp; omega
  · simp only [hn, if_false]
    rw [toInt64Bits_natToBits _ h]
    omega

theorem fracMask_shift (s : Nat) (hs : s ≤ 52) :
    (fracMask >>> UInt64.ofNat (52 - s)).toNat = 2 ^ s - 1 := by
  have : ∀ s : Fin 53, (fracMask >>> UInt64.ofNat (52 - s.val)).toNat = 2 ^ s.val - 1 := by decide
  exact this ⟨s, by omega⟩

/-- clearing the low `s` bits of a word whose low `s` bits are zero changes nothing -/
theorem and_not_lowMask (b m : UInt64) (s : Nat) (hm : m.toNat = 2 ^ s - 1) (hb : b.toNat % 2 ^ s = 0) :
    b &&& ~~~m = b := by
  apply UInt64.toNat_inj.mp
  rw [UInt64.toNat_and, UInt64.toNat_not]
  apply Nat.eq_of_testBit_eq
  intro i
  rw [Nat.testBit_and]
  cases hbi : b.toNat.testBit i with
  | false => simp
  | true =>
    have hi64 : i < 64 := by
      have := Nat.ge_two_pow_of_testBit hbi
      have hlt := b.toNat_lt
      apply Decidable.byContradiction
      intro hge
      have : 2 ^ 64 ≤ 2 ^ i := Nat.pow_le_pow_right (by decide) (by omega)
      omega
    have his : ¬ i < s := by
      intro hlt
      have := Nat.testBit_mod_two_pow b.toNat s i
      rw [hb] at this
      simp [hlt, hbi] at this
    have hmlt : m.toNat < 2 ^ 64 := m.toNat_lt
    have e : UInt64.size - 1 - m.toNat = 2 ^ 64 - (m.toNat + 1) := by
      simp [UInt64.size]
    rw [e, Nat.testBit_two_pow_sub_succ hmlt, hm, Nat.testBit_two_pow_sub_one]
    simp [hi64, his]

theorem expField_toNat (b : UInt64) : expField b = b.toNat / 2 ^ 52 % 2048 := by
  unfold expField
  rw [UInt64.toNat_and, UInt64.toNat_shiftRight]
  have e1 : (52 : UInt64).toNat % 64 = 52 := by decide
  have e2 : (0x7FF : UInt64).toNat = 2 ^ 11 - 1 := by decide
  rw [e1, e2, Nat.and_two_pow_sub_one_eq_mod, Nat.shiftRight_eq_div_pow]

theorem magMask_toNat (b : UInt64) : (b &&& magMask).toNat = b.toNat % 2 ^ 63 := by
  rw [UInt64.toNat_and]
  have e2 : magMask.toNat = 2 ^ 63 - 1 := by decide
  rw [e2, Nat.and_two_pow_sub_one_eq_mod]

/-- a double whose exponent field is at most 1075 (|x| < 2^53) is inside the int64 range -/
theorem inInt64RangeBits_of_expField (b : UInt64) (hE : expField b ≤ 1075) :
    inInt64RangeBits b = true := by
  unfold inInt64RangeBits
  rw [expField_toNat] at hE
  have e : twoPow63Bits.toNat = 1086 * 2 ^ 52 := by decide
  have hlt := b.toNat_lt
  simp only [magMask_toNat, e]
  cases signBit b <;> simp <;> omega

theorem isIntegralBits_of_fields (b : UInt64) (s : Nat) (hs : s ≤ 52)
    (hE : expField b = 1075 - s) (hlow : b.toNat % 2 ^ s = 0) : isIntegralBits b = true := by
  unfold isIntegralBits bitsIsNaN truncBits
  have h1 : (1075 - s == 2047) = false := by simp; omega
  have h2 : ¬ (1075 - s < 1023) := by omega
  simp only [hE, h1, h2, if_false]
  by_cases h3 : 1075 - s ≥ 1075
  · simp [h3]
  · simp only [h3, if_false]
    have e : 1075 - s - 1023 = 52 - s := by omega
    rw [e, and_not_lowMask b _ s (fracMask_shift s hs) hlow]
    simp

theorem isIntBits_of_fields (b : UInt64) (s : Nat) (hs : s ≤ 52)
    (hE : expField b = 1075 - s) (hlow : b.toNat % 2 ^ s = 0) : isIntBits b = true := by
  unfold isIntBits
  rw [isIntegralBits_of_fields b s hs hE hlow, inInt64RangeBits_of_expField b (by omega)]
  rfl

theorem lowBits_zero (s M c : Nat) (hs : s ≤ 52) (hM : M % 2 ^ s = 0) :
    (2 ^ 63 * c + ((1074 - s) * 2 ^ 52 + M)) % 2 ^ s = 0 := by
  apply Nat.mod_eq_zero_of_dvd
  have d1 : 2 ^ s ∣ 2 ^ 52 := Nat.pow_dvd_pow 2 hs
  have d2 : 2 ^ s ∣ 2 ^ 63 := Nat.pow_dvd_pow 2 (by omega)
  exact Nat.dvd_add (Nat.dvd_trans d2 (Nat.dvd_mul_right _ _))
    (Nat.dvd_add (Nat.dvd_trans d1 (Nat.dvd_mul_left _ _)) (Nat.dvd_of_mod_eq_zero hM))

/-- `float64(n)` is integer-valued (`NumVal.IsInt`) for |n| < 2^53 -/
theorem isIntBits_intToBits (n : Int) (h : n.natAbs < 2 ^ 53) : isIntBits (intToBits n) = true := by
  unfold intToBits
  by_cases h0 : n.natAbs = 0
  · have : n = 0 := by omega
    subst this; decide
  obtain ⟨s, M, hs, hM1, hM2, _, hlow, hb⟩ := natToBits_fields n.natAbs (by omega) h
  have hB : (1074 - s) * 2 ^ 52 + M < 2 ^ 63 := by omega
  by_cases hn : n < 0
  · simp only [hn, if_true]
    rw [hb, or_signMask _ hB]
    apply isIntBits_of_fields _ s hs (by rw [expField_ofNat _ (by omega)]; omega)
    have e : (UInt64.ofNat (2 ^ 63 + ((1074 - s) * 2 ^ 52 + M))).toNat
        = 2 ^ 63 * 1 + ((1074 - s) * 2 ^ 52 + M) := by
      rw [UInt64.toNat_ofNat', Nat.mul_one]; exact Nat.mod_eq_of_lt (by omega)
    rw [e]
    exact lowBits_zero s M 1 hs hlow
  · simp only [hn, if_false]
    rw [hb]
    apply isIntBits_of_fields _ s hs (by rw [expField_ofNat _ (by omega)]; omega)
    have e : (UInt64.ofNat ((1074 - s) * 2 ^ 52 + M)).toNat
        = 2 ^ 63 * 0 + ((1074 - s) * 2 ^ 52 + M) := by
      rw [UInt64.toNat_ofNat', Nat.mul_zero, Nat.zero_add]; exact Nat.mod_eq_of_lt (by omega)
    rw [e]
    exact lowBits_zero s M 0 hs hlow

/-- yae prints the double nearest to an integer |n| < 2^53 as that integer's decimal text -/
theorem renderNumBits_intToBits (n : Int) (h : n.natAbs < 2 ^ 53) :
    renderNumBits (intToBits n) = fmtInt n := by
  unfold renderNumBits
  rw [isIntBits_intToBits n h, toInt64Bits_intToBits n h]
  simp

/-- consequently distinct small integers have distinct renderings (map keys do not collide) -/
theorem renderNumBits_intToBits_injective (a b : Int) (ha : a.natAbs < 2 ^ 53) (hb : b.natAbs < 2 ^ 53)
    (h : renderNumBits (intToBits a) = renderNumBits (intToBits b)) : a = b := by
  rw [renderNumBits_intToBits a ha, renderNumBits_intToBits b hb] at h
  exact fmtInt_injective h

/-! ## small corollaries -/

theorem quote_injective {a b : String} (h : quote a = quote b) : a = b := by
  have := congrArg unquote h
  simpa [unquote_quote] using this

theorem isIntBits_integral (b : UInt64) (h : isIntBits b = true) : isIntegralBits b = true := by
  unfold isIntBits at h
  simp at h
  exact h.1

theorem isIntBits_not_nan (b : UInt64) (h : isIntBits b = true) : bitsIsNaN b = false := by
  have := isIntBits_integral b h
  unfold isIntegralBits at this
  simp at this
  exact this.1

/-- on integer-valued doubles inside the int64 range the pinned and the current rendering agree -/
theorem renderNumPinnedBits_eq (b : UInt64) (h : isIntBits b = true) :
    renderNumPinnedBits b = renderNumBits b := by
  unfold renderNumPinnedBits renderNumBits
  rw [h, isIntBits_integral b h]

end Yae.Num

-- axiom audit (expected: propext, Classical.choice, Quot.sound at most)
#print axioms Yae.Num.fmtInt_injective
#print axioms Yae.Num.unquote_quote
#print axioms Yae.Num.toInt64Bits_intToBits
#print axioms Yae.Num.renderNumBits_intToBits_injective
