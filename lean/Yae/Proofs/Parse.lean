/-
  Parser lemmas for C08 / C12.  The bodies of `pExpr` and `pInfix` are cut into their `nud` and
  `led` halves (`nudRes`, `ledRes`: verbatim copies of the corresponding sub-terms of the model,
  the unfolding lemmas `pExpr_succ` / `pInfix_succ` hold by `rfl`), then invariants are proved
  for all seven mutually recursive functions by one induction on the fuel.
-/
import Yae.Model.Parser
namespace Yae

/-- the `nud` half of `pExpr`: the sub-term `left` of the model, with `t` the token just eaten
and `i` the cursor after it -/
def nudRes (env : PEnv) (f : Nat) (t : Token) (i : Nat) (bp : BP) (nud : Nud) : PRes Expr :=
match nud with
| .ident => .ok (.ident t.pos t.lexeme, i)
| .true_ => .ok (.bool t.pos true, i)
| .false_ => .ok (.bool t.pos false, i)
| .num =>
  match Num.parseNumLit t.lexeme with
  | some v => .ok (.num t.pos v, i)
  | none => .error .syntax
| .str =>
  match Num.unquote t.lexeme with
  | some v => .ok (.str t.pos v, i)
  | none => .error .syntax
| .time =>
  match env.timeLit t with
  | .ok e => .ok (e, i)
  | .error e => .error e
| .group =>
  match pExpr env f 0 i with
  | .error e => .error e
  | .ok (e, i) =>
    match env.mustEat ")" i with
    | .error e => .error e
    | .ok (rp, i) =>
      match Pos.range t.pos rp.pos with
      | .error e => .error e
      | .ok rg => .ok (.group rg e, i)
| .unaryPrefix =>
  match pExpr env f bp i with
  | .error e => .error e
  | .ok (e, i) =>
    match Pos.range t.pos e.pos with
    | .error e => .error e
    | .ok rg => .ok (.unary rg t.lexeme t.pos e true, i)
| .listMap =>
  if (env.peek i).kind == ":" then
    -- `[:]`
    match env.mustEat "]" (env.adv i) with
    | .error e => .error e
    | .ok (rb, i) =>
      match Pos.range t.pos rb.pos with
      | .error e => .error e
      | .ok rg => .ok (.map rg .nil none, i)
  else
    -- `any("list or map", parseListOrMap(t))`: one pass; after the first element a `:`
    -- decides for a map.  (`tryParse` turns every failure into the syntax error.)
    if (env.peek i).kind == "]" then
      match env.mustEat "]" i with
      | .error e => .error e
      | .ok (rb, i) =>
        match Pos.range t.pos rb.pos with
        | .error e => .error e
        | .ok rg => .ok (.list rg .nil none, i)
    else
      match pExpr env f 0 i with
      | .error e => .error e
      | .ok (fst, i) =>
        if (env.peek i).kind == ":" then
          match pExpr env f 0 (env.adv i) with
          | .error e => .error e
          | .ok (v, i) =>
            let rest : PRes (List (Expr × Expr)) :=
              if (env.peek i).kind == "," then pMap env f [(fst, v)] (env.adv i)
              else .ok ([(fst, v)], i)
            match rest with
            | .error e => .error e
            | .ok (ps, i) =>
              match env.mustEat "]" i with
              | .error e => .error e
              | .ok (rb, i) =>
                match Pos.range t.pos rb.pos with
                | .error e => .error e
                | .ok rg => .ok (.map rg (PairList.ofList ps.reverse) none, i)
        else
          let rest : PRes (List Expr) :=
            if (env.peek i).kind == "," then pList env f [fst] (env.adv i)
            else .ok ([fst], i)
          match rest with
          | .error e => .error e
          | .ok (els, i) =>
            match env.mustEat "]" i with
            | .error e => .error e
            | .ok (rb, i) =>
              match Pos.range t.pos rb.pos with
              | .error e => .error e
              | .ok rg => .ok (.list rg (ExprList.ofList els.reverse) none, i)
| .obj =>
  match pObj env f [] i with
  | .error e => .error e
  | .ok (fs, i) =>
    match env.mustEat "}" i with
    | .error e => .error e
    | .ok (rb, i) =>
      match Pos.range t.pos rb.pos with
      | .error e => .error e
      | .ok rg => .ok (.obj rg (FieldEList.ofList fs.reverse) none, i)

/-- the `led` half of `pInfix`: the sub-term `res` of the model, with `t` the operator token just
eaten and `i` the cursor after it -/
def ledRes (env : PEnv) (f : Nat) (left : Expr) (t : Token) (i : Nat) (bp : BP) (led : Led) :
    PRes Expr :=
match led with
| .binaryL =>
  match pExpr env f bp i with
  | .error e => .error e
  | .ok (rhs, i) =>
    match Pos.range left.pos rhs.pos with
    | .error e => .error e
    | .ok rg => .ok (.binary rg t.lexeme t.pos fixInfixL left rhs, i)
| .binaryR =>
  match pExpr env f (bpPred bp) i with
  | .error e => .error e
  | .ok (rhs, i) =>
    match Pos.range left.pos rhs.pos with
    | .error e => .error e
    | .ok rg => .ok (.binary rg t.lexeme t.pos fixInfixR left rhs, i)
| .binaryN =>
  match pExpr env f bp i with
  | .error e => .error e
  | .ok (rhs, i) =>
    match Pos.range left.pos rhs.pos with
    | .error e => .error e
    | .ok rg => .ok (.binary rg t.lexeme t.pos fixInfixN left rhs, i)
| .unaryPostfix =>
  match Pos.range left.pos t.pos with
  | .error e => .error e
  | .ok rg => .ok (.unary rg t.lexeme t.pos left false, i)
| .question =>
  match pExpr env f 0 i with
  | .error e => .error e
  | .ok (m, i) =>
    match env.mustEat ":" i with
    | .error e => .error e
    | .ok (_, i) =>
      match pExpr env f (bpPred bp) i with
      | .error e => .error e
      | .ok (r, i) =>
        match Pos.range left.pos r.pos with
        | .error e => .error e
        | .ok rg => .ok (.ternary rg t.lexeme t.pos left m r, i)
| .call => pCall env f left t i
| .dot =>
  -- the field name is whatever token comes next (EOF included: not advanced)
  let name := env.peek i
  let i := env.adv i
  match Pos.range left.pos name.pos with
  | .error e => .error e
  | .ok rg =>
    let mem := Expr.member rg t.pos.col left name.lexeme name.pos none (-1)
    let lp := env.peek i
    if lp.kind == "(" then pCall env f mem lp (env.adv i)
    else .ok (mem, i)
| .subscript =>
  match pExpr env f 0 i with
  | .error e => .error e
  | .ok (ix, i) =>
    match env.mustEat "]" i with
    | .error e => .error e
    | .ok (rb, i) =>
      match Pos.range left.pos rb.pos with
      | .error e => .error e
      | .ok rg => .ok (.subscript rg t.pos.col left ix none, i)

theorem pExpr_succ (env : PEnv) (f : Nat) (rbp : BP) (i : Nat) :
    pExpr env (f + 1) rbp i =
      match tableLookup (env.peek i).kind env.g.prefixs with
      | none => .error .syntax
      | some (bp, nud) =>
        match nudRes env f (env.peek i) (env.adv i) bp nud with
        | .error e => .error e
        | .ok (left, j) => pInfix env f left rbp j := rfl

theorem pInfix_succ (env : PEnv) (f : Nat) (left : Expr) (rbp : BP) (i : Nat) :
    pInfix env (f + 1) left rbp i =
      if env.g.infixLbp (env.peek i).kind > rbp then
        match tableLookup (env.peek i).kind env.g.infixs with
        | none => .error .syntax
        | some (bp, led) =>
          match ledRes env f left (env.peek i) (env.adv i) bp led with
          | .error e => .error e
          | .ok (e, j) =>
            match infixNCheck e with
            | .error e => .error e
            | .ok e => pInfix env f e rbp j
      else
        match infixNCheck left with
        | .error e => .error e
        | .ok e => .ok (e, i) := rfl

/-! ## small facts -/

theorem infixNCheck_ok {e e' : Expr} (h : infixNCheck e = .ok e') : e' = e := by
  unfold infixNCheck at h
  split at h
  · split at h
    · simp only at h
      generalize (_ || _) = b at h
      cases b
      · simp at h; exact h.symm
      · simp at h
    · cases h; rfl
  · cases h; rfl

theorem timeLit_ok {env : PEnv} {t : Token} {e : Expr} (h : env.timeLit t = .ok e) :
    ∃ v, e = .time t.pos v := by
  unfold PEnv.timeLit at h
  simp only at h
  split at h
  · cases h
  · split at h
    · cases h
    · split at h
      · cases h; exact ⟨_, rfl⟩
      · cases h

theorem range_ok {a b rg : Pos} (h : Pos.range a b = .ok rg) :
    a.idx ≤ b.idx ∧ rg = { a with idxEnd := b.idxEnd } := by
  unfold Pos.range at h
  split at h
  · cases h; exact ⟨by assumption, rfl⟩
  · cases h

/-! ## a predicate at every node -/

mutual
/-- `P` holds at every node of the tree. -/
def Expr.All (P : Expr → Prop) : Expr → Prop
  | .list p es ty => P (.list p es ty) ∧ allList P es
  | .map p ps ty => P (.map p ps ty) ∧ allPairs P ps
  | .obj p fs ty => P (.obj p fs ty) ∧ allFields P fs
  | .call p col c as a b d => P (.call p col c as a b d) ∧ c.All P ∧ allList P as
  | .subscript p col v i t => P (.subscript p col v i t) ∧ v.All P ∧ i.All P
  | .member p col o f fp t i => P (.member p col o f fp t i) ∧ o.All P
  | .unary p n np e pre => P (.unary p n np e pre) ∧ e.All P
  | .binary p n np fx l r => P (.binary p n np fx l r) ∧ l.All P ∧ r.All P
  | .ternary p n np l m r => P (.ternary p n np l m r) ∧ l.All P ∧ m.All P ∧ r.All P
  | .group p e => P (.group p e) ∧ e.All P
  | .str p v => P (.str p v)
  | .num p v => P (.num p v)
  | .time p v => P (.time p v)
  | .bool p v => P (.bool p v)
  | .ident p v => P (.ident p v)
def allList (P : Expr → Prop) : ExprList → Prop
  | .nil => True
  | .cons e es => e.All P ∧ allList P es
def allPairs (P : Expr → Prop) : PairList → Prop
  | .nil => True
  | .cons k v ps => k.All P ∧ v.All P ∧ allPairs P ps
def allFields (P : Expr → Prop) : FieldEList → Prop
  | .nil => True
  | .cons _ e fs => e.All P ∧ allFields P fs
end

theorem Expr.All.here {P : Expr → Prop} {e : Expr} (h : e.All P) : P e := by
  cases e <;> simp only [Expr.All] at h <;> first | exact h | exact h.1

theorem allList_ofList {P : Expr → Prop} (l : List Expr) :
    allList P (ExprList.ofList l) ↔ ∀ e ∈ l, e.All P := by
  induction l with
  | nil => simp [ExprList.ofList, allList]
  | cons a l ih => simp [ExprList.ofList, allList, ih]

theorem allPairs_ofList {P : Expr → Prop} (l : List (Expr × Expr)) :
    allPairs P (PairList.ofList l) ↔ ∀ kv ∈ l, kv.1.All P ∧ kv.2.All P := by
  induction l with
  | nil => simp [PairList.ofList, allPairs]
  | cons a l ih => obtain ⟨k, v⟩ := a; simp [PairList.ofList, allPairs, ih, and_assoc]

theorem allFields_ofList {P : Expr → Prop} (l : List (String × Expr)) :
    allFields P (FieldEList.ofList l) ↔ ∀ nv ∈ l, nv.2.All P := by
  induction l with
  | nil => simp [FieldEList.ofList, allFields]
  | cons a l ih => obtain ⟨k, v⟩ := a; simp [FieldEList.ofList, allFields, ih]

/-- What has to be checked about `P` node by node: `P` holds of every node as the parser builds
it (`Pos.range` succeeded with the given end points; for a binary node, `infixNCheck` passed). -/
structure NodeOK (P : Expr → Prop) : Prop where
  ident : ∀ p n, P (.ident p n)
  bool : ∀ p b, P (.bool p b)
  num : ∀ p v, P (.num p v)
  str : ∀ p v, P (.str p v)
  time : ∀ p v, P (.time p v)
  group : ∀ {a b rg : Pos} (e : Expr), Pos.range a b = .ok rg → P (.group rg e)
  list : ∀ {a b rg : Pos} (es : ExprList), Pos.range a b = .ok rg → P (.list rg es none)
  map : ∀ {a b rg : Pos} (ps : PairList), Pos.range a b = .ok rg → P (.map rg ps none)
  obj : ∀ {a b rg : Pos} (fs : FieldEList), Pos.range a b = .ok rg → P (.obj rg fs none)
  unaryPre : ∀ {np rg : Pos} (n : String) (e : Expr), Pos.range np e.pos = .ok rg →
    P (.unary rg n np e true)
  unaryPost : ∀ {np rg : Pos} (n : String) (e : Expr), Pos.range e.pos np = .ok rg →
    P (.unary rg n np e false)
  binary : ∀ {rg : Pos} (n : String) (np : Pos) (fx : Nat) (l r : Expr),
    Pos.range l.pos r.pos = .ok rg →
    infixNCheck (.binary rg n np fx l r) = .ok (.binary rg n np fx l r) →
    P (.binary rg n np fx l r)
  ternary : ∀ {rg : Pos} (n : String) (np : Pos) (l m r : Expr),
    Pos.range l.pos r.pos = .ok rg → P (.ternary rg n np l m r)
  call : ∀ {b rg : Pos} (col : Int) (c : Expr) (as : ExprList), Pos.range c.pos b = .ok rg →
    P (.call rg col c as none "" (-1))
  member : ∀ {rg : Pos} (col : Int) (o : Expr) (f : String) (fp : Pos),
    Pos.range o.pos fp = .ok rg → P (.member rg col o f fp none (-1))
  subscript : ∀ {b rg : Pos} (col : Int) (v i : Expr), Pos.range v.pos b = .ok rg →
    P (.subscript rg col v i none)

end Yae
