/-
  C08, stage 3: COMPLETENESS of the parser.  A tree that yields a token range and respects the
  declarations of a well-formed grammar is what the parser returns on that range.
  Structural recursion on the yield derivation (mutual with the list forms).
-/
import Yae.Proofs.ParseCompleteGood
namespace Yae

theorem YSeq.first_ne {env : PEnv} {as : List Expr} {i j : Nat} (h : YSeq env as i j) {k : String}
    (hk : tableLookup k env.g.prefixs = none) : (env.peek i).kind ≠ k := by
  cases h with
  | one h => exact h.first_ne hk
  | cons h _ _ => exact h.first_ne hk

theorem kind_ne_of {env : PEnv} {j : Nat} {k k' : String} (h : env.kindAt j k) (hne : k ≠ k') :
    (env.peek j).kind ≠ k' := by rw [h.2]; exact hne

-- the structural-recursion compiler needs about twice the default budget for this block
set_option maxHeartbeats 400000 in
mutual
theorem Yields.complete {env : PEnv} (W : WFGrammar env.g) (hL : env.OpLex) :
    ∀ {t i j}, Yields env t i j → Good env.g t → ∀ rbp, t.leftAbove env.g rbp →
      Compl env t i j rbp
  | _, _, _, .ident hn, _, _, _ => compl_nud hn nr_ident rfl
  | _, _, _, .true_ hn, _, _, _ => compl_nud hn nr_true rfl
  | _, _, _, .false_ hn, _, _, _ => compl_nud hn nr_false rfl
  | _, _, _, .num hn hv, _, _, _ => compl_nud hn (nr_num hv) rfl
  | _, _, _, .str hn hv, _, _, _ => compl_nud hn (nr_str hv) rfl
  | _, _, _, .time hn he, _, _, _ => by
    obtain ⟨v, rfl⟩ := timeLit_ok he
    exact compl_nud hn (nr_time he) rfl
  | _, _, _, .group hn he hk hr, hG, _, _ => by
    obtain ⟨Ge, h0⟩ := good_group hG
    have pe := (he.complete W hL Ge 0 h0).pe0 W Ge h0 (by rw [hk.2]; exact W.rparen)
      (kind_ne_of hk (by decide))
    exact compl_nud hn (nr_group pe hk hr) rfl
  | _, _, _, .pre (i := i) (bp := bp) hn he hr, hG, rbp, _ => by
    obtain ⟨Ge, hab⟩ := good_pre hG
    have hlex : (env.peek i).lexeme = (env.peek i).kind := hL i hn.1 (.inl ⟨bp, hn.2⟩)
    have hbp : env.g.prefixBp (env.peek i).lexeme = bp := by
      rw [hlex]; exact Grammar.prefixBp_of hn.2
    rw [hbp] at hab
    have hC := he.complete W hL Ge bp hab
    refine ⟨fun hF r hPI => ?_, fun hm => by cases hm⟩
    obtain ⟨hro, hm⟩ := hF
    simp only [Expr.rightOK, hbp] at hro
    simp only [Expr.endsInMember] at hm
    exact pe_of_nud hn (nr_pre (hC.pe Ge ⟨hro.2, hm⟩ hro.1) hr) hPI
  | _, _, _, .emptyMap hn h1 h2 hr, _, _, _ => compl_nud hn (nr_emptyMap h1 h2 hr) rfl
  | _, _, _, .list hn .nil hk hr, _, _, _ => compl_nud hn (nr_list0 hk hr) rfl
  | _, _, _, .list hn (.one h1) hk hr, hG, _, _ => by
    have hg := good_list hG
    obtain ⟨Ge, h0⟩ := hg _ (List.mem_singleton.mpr rfl)
    have pe := (h1.complete W hL Ge 0 h0).pe0 W Ge h0 (by rw [hk.2]; exact W.rbrack)
      (kind_ne_of hk (by decide))
    exact compl_nud hn (nr_list1 (h1.first_ne W.preColon) (h1.first_ne W.preRbrack) pe hk hr) rfl
  | _, _, _, .list (bp := bp) hn (.cons (e := e) (es := es) h1 hc hs) hk hr, hG, _, _ => by
    have hg := good_list hG
    obtain ⟨Ge, h0⟩ := hg e (List.mem_cons_self)
    have pe := (h1.complete W hL Ge 0 h0).pe0 W Ge h0 (by rw [hc.2]; exact W.comma)
      (kind_ne_of hc (by decide))
    have pl := hs.complete W hL (fun a ha => hg a (List.mem_cons_of_mem _ ha)) hk [e]
    have := nr_listN (bp := bp) (h1.first_ne W.preColon) (h1.first_ne W.preRbrack) pe hc pl hk hr
    simp only [List.reverse_append, List.reverse_reverse, List.reverse_cons, List.reverse_nil,
      List.nil_append, List.singleton_append] at this
    exact compl_nud hn this rfl
  | _, _, _, .map hn .nil hne hk hr, _, _, _ => absurd rfl hne
  | _, _, _, .map hn (.one (k := k) (v := v) h1 hc h2) _ hb hr, hG, _, _ => by
    have hg := good_map hG
    obtain ⟨⟨Gk, k0⟩, ⟨Gv, v0⟩⟩ := hg (k, v) (List.mem_singleton.mpr rfl)
    have pk := (h1.complete W hL Gk 0 k0).pe0 W Gk k0 (by rw [hc.2]; exact W.colon)
      (kind_ne_of hc (by decide))
    have pv := (h2.complete W hL Gv 0 v0).pe0 W Gv v0 (by rw [hb.2]; exact W.rbrack)
      (kind_ne_of hb (by decide))
    exact compl_nud hn
      (nr_map1 (h1.first_ne W.preColon) (h1.first_ne W.preRbrack) pk hc pv hb hr) rfl
  | _, _, _, .map (bp := bp) hn (.cons (k := k) (v := v) (ps := ps) h1 hc h2 hcm hs) _ hb hr,
      hG, _, _ => by
    have hg := good_map hG
    obtain ⟨⟨Gk, k0⟩, ⟨Gv, v0⟩⟩ := hg (k, v) (List.mem_cons_self)
    have pk := (h1.complete W hL Gk 0 k0).pe0 W Gk k0 (by rw [hc.2]; exact W.colon)
      (kind_ne_of hc (by decide))
    have pv := (h2.complete W hL Gv 0 v0).pe0 W Gv v0 (by rw [hcm.2]; exact W.comma)
      (kind_ne_of hcm (by decide))
    have pm := hs.complete W hL (fun a ha => hg a (List.mem_cons_of_mem _ ha)) hb [(k, v)]
    have := nr_mapN (bp := bp) (h1.first_ne W.preColon) (h1.first_ne W.preRbrack) pk hc pv hcm pm
      hb hr
    simp only [List.reverse_append, List.reverse_reverse, List.reverse_cons, List.reverse_nil,
      List.nil_append, List.singleton_append] at this
    exact compl_nud hn this rfl
  | _, _, _, .obj (bp := bp) hn hf hk hr, hG, _, _ => by
    have po := hf.complete W hL (good_obj hG) hk []
    have := nr_obj (bp := bp) po hk hr
    simp only [List.append_nil, List.reverse_reverse] at this
    exact compl_nud hn this rfl
  | _, _, _, .binary (j := j) (bp := bp) (led := led) (fx := fx) (l := l) hl hd hfx hr hg, hG, rbp, hab => by
    obtain ⟨Gl, Gr, habr, hrol, hnc⟩ := good_binary hG
    have hlex : (env.peek j).lexeme = (env.peek j).kind := hL j hd.1 (.inr ⟨bp, led, hd.2⟩)
    have hbp : env.g.infixLbp (env.peek j).lexeme = bp := by
      rw [hlex]; exact Grammar.infixLbp_of hd.2
    simp only [Expr.leftAbove] at hab
    rw [binRbp_led hfx hbp] at habr
    have hFl : Follow env.g (env.peek j).kind l := by
      refine ⟨by rw [← hlex]; exact hrol, fun _ hk => ?_⟩
      have := W.lparen bp led (hk ▸ hd.2)
      subst this; cases hfx
    have hCl := hl.complete W hL Gl rbp hab.2
    have hCr := hr.complete W hL Gr _ habr
    refine ⟨fun hF => ?_, fun hm => by cases hm⟩
    obtain ⟨hro, hm⟩ := hF
    simp only [Expr.rightOK, binRbp_led hfx hbp] at hro
    simp only [Expr.endsInMember] at hm
    exact reach_led hCl hFl hd (by rw [← hlex]; exact hab.1)
      (lr_binary hfx (hCr.pe Gr ⟨hro.2, hm⟩ hro.1) hg) (infixNCheck_of_noChain hnc)
  | _, _, _, .post (j := j) (bp := bp) (l := l) hl hd hg, hG, rbp, hab => by
    obtain ⟨Gl, hrol⟩ := good_post hG
    have hlex : (env.peek j).lexeme = (env.peek j).kind := hL j hd.1 (.inr ⟨bp, _, hd.2⟩)
    simp only [Expr.leftAbove] at hab
    have hFl : Follow env.g (env.peek j).kind l := by
      refine ⟨by rw [← hlex]; exact hrol, fun _ hk => ?_⟩
      have := W.lparen bp _ (hk ▸ hd.2)
      cases this
    have hCl := hl.complete W hL Gl rbp hab.2
    exact ⟨fun _ => reach_led hCl hFl hd (by rw [← hlex]; exact hab.1) (lr_post hg) rfl,
      fun hm => by cases hm⟩
  | _, _, _, .ternary (j := j) (bp := bp) (l := l) hl hd hm hk hr hg, hG, rbp, hab => by
    obtain ⟨Gl, Gm, Gr, hrol, m0, habr⟩ := good_ternary hG
    have hlex : (env.peek j).lexeme = (env.peek j).kind := hL j hd.1 (.inr ⟨bp, _, hd.2⟩)
    have hbp : env.g.infixLbp (env.peek j).lexeme = bp := by
      rw [hlex]; exact Grammar.infixLbp_of hd.2
    simp only [Expr.leftAbove] at hab
    rw [hbp] at habr
    have hFl : Follow env.g (env.peek j).kind l := by
      refine ⟨by rw [← hlex]; exact hrol, fun _ hk => ?_⟩
      have := W.lparen bp _ (hk ▸ hd.2)
      cases this
    have hCl := hl.complete W hL Gl rbp hab.2
    have pm := (hm.complete W hL Gm 0 m0).pe0 W Gm m0 (by rw [hk.2]; exact W.colon)
      (kind_ne_of hk (by decide))
    have hCr := hr.complete W hL Gr _ habr
    refine ⟨fun hF => ?_, fun hm => by cases hm⟩
    obtain ⟨hro, hme⟩ := hF
    simp only [Expr.rightOK, hbp] at hro
    simp only [Expr.endsInMember] at hme
    exact reach_led hCl hFl hd (by rw [← hlex]; exact hab.1)
      (lr_ternary pm hk (hCr.pe Gr ⟨hro.2, hme⟩ hro.1) hg) rfl
  | _, _, _, .call (j := j) (c := c) (bp := bp) hc hd ha hk hg, hG, rbp, hab => by
    obtain ⟨Gc, hcond, Gas⟩ := good_call hG
    have hkind : (env.peek j).kind = "(" := W.ledKinds.call _ _ hd.2
    simp only [Expr.leftAbove] at hab
    have hCc := hc.complete W hL Gc rbp hab.2
    have pc := ha.complete W hL Gas hk c (env.peek j) _ hg
    refine ⟨fun _ r hPI => ?_, fun hm => by cases hm⟩
    by_cases hmem : c.isMember = true
    · exact hCc.method hmem ⟨hd.1, hkind⟩ _ _ r pc rfl hPI
    · have hcond' := hcond.resolve_left hmem
      have hgt := hab.1.resolve_left hmem
      have hFc : Follow env.g (env.peek j).kind c := by
        rw [hkind]
        exact ⟨hcond'.1, fun h => by rw [hcond'.2] at h; cases h⟩
      exact reach_led hCc hFc hd (by rw [hkind]; exact hgt) (lr_call pc) rfl r hPI
  | _, _, _, .methodCall (j := j) (c := c) hc hm hp ha hk hg, hG, rbp, hab => by
    obtain ⟨Gc, _, Gas⟩ := good_call hG
    simp only [Expr.leftAbove] at hab
    have hCc := hc.complete W hL Gc rbp hab.2
    have pc := ha.complete W hL Gas hk c (env.peek j) _ hg
    exact ⟨fun _ r hPI => hCc.method hm hp _ _ r pc rfl hPI, fun hm => by cases hm⟩
  | _, _, _, .member (j := j) (bp := bp) (o := o) hl hd hi hg, hG, rbp, hab => by
    obtain ⟨Go, hroo⟩ := good_member hG
    have hkind : (env.peek j).kind = "." := W.ledKinds.dot _ _ hd.2
    simp only [Expr.leftAbove] at hab
    have hFo : Follow env.g (env.peek j).kind o := by
      rw [hkind]; exact ⟨hroo, fun _ => by decide⟩
    have hCo := hl.complete W hL Go rbp hab.2
    have hgt : rbp < env.g.infixLbp (env.peek j).kind := by rw [hkind]; exact hab.1
    refine ⟨fun hF => reach_led hCo hFo hd hgt (lr_member hi hg (hF.2 rfl)) rfl, ?_⟩
    intro _ hp e' j' r hPC hc' hPI
    exact hCo.reach hFo r (pi_step hd hgt (lr_methodCall hi hg hp hPC) hc' hPI)
  | _, _, _, .memberEOF (j := j) (bp := bp) (o := o) hl hd hi hg, hG, rbp, hab => by
    obtain ⟨Go, hroo⟩ := good_member hG
    have hkind : (env.peek j).kind = "." := W.ledKinds.dot _ _ hd.2
    simp only [Expr.leftAbove] at hab
    have hFo : Follow env.g (env.peek j).kind o := by
      rw [hkind]; exact ⟨hroo, fun _ => by decide⟩
    have hCo := hl.complete W hL Go rbp hab.2
    have hgt : rbp < env.g.infixLbp (env.peek j).kind := by rw [hkind]; exact hab.1
    refine ⟨fun _ => reach_led hCo hFo hd hgt (lr_memberEOF hi hg) rfl, ?_⟩
    intro _ hp
    have := hp.1
    omega
  | _, _, _, .subscript (j := j) (bp := bp) (v := v) hv hd hx hk hg, hG, rbp, hab => by
    obtain ⟨Gv, Gx, hrov, x0⟩ := good_subscript hG
    have hkind : (env.peek j).kind = "[" := W.ledKinds.subscript _ _ hd.2
    simp only [Expr.leftAbove] at hab
    have hFv : Follow env.g (env.peek j).kind v := by
      rw [hkind]; exact ⟨hrov, fun _ => by decide⟩
    have hCv := hv.complete W hL Gv rbp hab.2
    have hgt : rbp < env.g.infixLbp (env.peek j).kind := by rw [hkind]; exact hab.1
    have px := (hx.complete W hL Gx 0 x0).pe0 W Gx x0 (by rw [hk.2]; exact W.rbrack)
      (kind_ne_of hk (by decide))
    exact ⟨fun _ => reach_led hCv hFv hd hgt (lr_subscript px hk hg) rfl, fun hm => by cases hm⟩
theorem YArgs.complete {env : PEnv} (W : WFGrammar env.g) (hL : env.OpLex) :
    ∀ {as i j}, YArgs env as i j → (∀ a ∈ as, Good env.g a ∧ a.leftAbove env.g 0) →
      env.kindAt j ")" → ∀ (c : Expr) (t : Token) (rg : Pos),
      Pos.range c.pos (env.peek j).pos = .ok rg →
      PC env c t i (.call rg t.pos.col c (ExprList.ofList as) none "" (-1), j + 1)
  | _, _, _, .nil, _, hk, _, _, _, hg => pc_nil hk hg
  | _, _, _, .some hs, hG, hk, c, t, rg, hg => by
    have pa := hs.complete W hL hG (by rw [hk.2]; exact W.rparen) (kind_ne_of hk (by decide))
      (kind_ne_of hk (by decide)) []
    have := pc_args (c := c) (t := t) (hs.first_ne W.preRparen) pa hk hg
    simpa using this
theorem YSeq.complete {env : PEnv} (W : WFGrammar env.g) (hL : env.OpLex) :
    ∀ {as i j}, YSeq env as i j → (∀ a ∈ as, Good env.g a ∧ a.leftAbove env.g 0) →
      tableLookup (env.peek j).kind env.g.infixs = none → (env.peek j).kind ≠ "(" →
      (env.peek j).kind ≠ "," → ∀ acc, PA env acc i (as.reverse ++ acc, j)
  | _, _, _, .one (e := e) h, hG, hk, hk1, hk2, acc => by
    obtain ⟨Ge, h0⟩ := hG e (List.mem_singleton.mpr rfl)
    have pe := (h.complete W hL Ge 0 h0).pe0 W Ge h0 hk hk1
    simpa using pa_one (acc := acc) pe hk2
  | _, _, _, .cons (e := e) h hc hs, hG, hk, hk1, hk2, acc => by
    obtain ⟨Ge, h0⟩ := hG e (List.mem_cons_self)
    have pe := (h.complete W hL Ge 0 h0).pe0 W Ge h0 (by rw [hc.2]; exact W.comma)
      (kind_ne_of hc (by decide))
    have pa := hs.complete W hL (fun a ha => hG a (List.mem_cons_of_mem _ ha)) hk hk1 hk2 (e :: acc)
    simpa using pa_cons pe hc pa
theorem YElems.complete {env : PEnv} (W : WFGrammar env.g) (hL : env.OpLex) :
    ∀ {es i j}, YElems env es i j → (∀ a ∈ es, Good env.g a ∧ a.leftAbove env.g 0) →
      env.kindAt j "]" → ∀ acc, PL env acc i (es.reverse ++ acc, j)
  | _, _, _, .nil, _, hk, acc => by simpa using pl_nil (acc := acc) hk
  | _, _, _, .one (e := e) h, hG, hk, acc => by
    obtain ⟨Ge, h0⟩ := hG e (List.mem_singleton.mpr rfl)
    have pe := (h.complete W hL Ge 0 h0).pe0 W Ge h0 (by rw [hk.2]; exact W.rbrack)
      (kind_ne_of hk (by decide))
    simpa using pl_one (acc := acc) (h.first_ne W.preRbrack) pe (kind_ne_of hk (by decide))
  | _, _, _, .cons (e := e) h hc hs, hG, hk, acc => by
    obtain ⟨Ge, h0⟩ := hG e (List.mem_cons_self)
    have pe := (h.complete W hL Ge 0 h0).pe0 W Ge h0 (by rw [hc.2]; exact W.comma)
      (kind_ne_of hc (by decide))
    have pl := hs.complete W hL (fun a ha => hG a (List.mem_cons_of_mem _ ha)) hk (e :: acc)
    simpa using pl_cons (h.first_ne W.preRbrack) pe hc pl
theorem YPairs.complete {env : PEnv} (W : WFGrammar env.g) (hL : env.OpLex) :
    ∀ {ps i j}, YPairs env ps i j →
      (∀ kv ∈ ps, (Good env.g kv.1 ∧ kv.1.leftAbove env.g 0) ∧
        (Good env.g kv.2 ∧ kv.2.leftAbove env.g 0)) →
      env.kindAt j "]" → ∀ acc, PM env acc i (ps.reverse ++ acc, j)
  | _, _, _, .nil, _, hk, acc => by simpa using pm_nil (acc := acc) hk
  | _, _, _, .one (k := k) (v := v) h1 hc h2, hG, hb, acc => by
    obtain ⟨⟨Gk, k0⟩, ⟨Gv, v0⟩⟩ := hG (k, v) (List.mem_singleton.mpr rfl)
    have pk := (h1.complete W hL Gk 0 k0).pe0 W Gk k0 (by rw [hc.2]; exact W.colon)
      (kind_ne_of hc (by decide))
    have pv := (h2.complete W hL Gv 0 v0).pe0 W Gv v0 (by rw [hb.2]; exact W.rbrack)
      (kind_ne_of hb (by decide))
    simpa using pm_one (acc := acc) (h1.first_ne W.preRbrack) pk hc pv (kind_ne_of hb (by decide))
  | _, _, _, .cons (k := k) (v := v) h1 hc h2 hcm hs, hG, hb, acc => by
    obtain ⟨⟨Gk, k0⟩, ⟨Gv, v0⟩⟩ := hG (k, v) (List.mem_cons_self)
    have pk := (h1.complete W hL Gk 0 k0).pe0 W Gk k0 (by rw [hc.2]; exact W.colon)
      (kind_ne_of hc (by decide))
    have pv := (h2.complete W hL Gv 0 v0).pe0 W Gv v0 (by rw [hcm.2]; exact W.comma)
      (kind_ne_of hcm (by decide))
    have pm := hs.complete W hL (fun a ha => hG a (List.mem_cons_of_mem _ ha)) hb ((k, v) :: acc)
    simpa using pm_cons (h1.first_ne W.preRbrack) pk hc pv hcm pm
theorem YFields.complete {env : PEnv} (W : WFGrammar env.g) (hL : env.OpLex) :
    ∀ {fs i j}, YFields env fs i j → (∀ nv ∈ fs, Good env.g nv.2 ∧ nv.2.leftAbove env.g 0) →
      env.kindAt j "}" → ∀ acc, PO env acc i (fs.reverse ++ acc, j)
  | _, _, _, .nil, _, hk, acc => by simpa using po_nil (acc := acc) hk
  | _, _, _, .one (v := v) hn hc h, hG, hk, acc => by
    obtain ⟨Gv, v0⟩ := hG _ (List.mem_singleton.mpr rfl)
    have pv := (h.complete W hL Gv 0 v0).pe0 W Gv v0 (by rw [hk.2]; exact W.rbrace)
      (kind_ne_of hk (by decide))
    simpa using po_one (acc := acc) hn hc pv (kind_ne_of hk (by decide))
  | _, _, _, .cons (v := v) (i := i) hn hc h hcm hs, hG, hk, acc => by
    obtain ⟨Gv, v0⟩ := hG _ (List.mem_cons_self)
    have pv := (h.complete W hL Gv 0 v0).pe0 W Gv v0 (by rw [hcm.2]; exact W.comma)
      (kind_ne_of hcm (by decide))
    have po := hs.complete W hL (fun a ha => hG a (List.mem_cons_of_mem _ ha)) hk
      (((env.peek i).lexeme, v) :: acc)
    simpa using po_cons hn hc pv hcm po
end

end Yae
