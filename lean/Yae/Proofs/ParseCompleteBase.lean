/-
  C08, stage 3, part 2: well-formed grammars, and what follows from them for trees that respect
  the grammar.
-/
import Yae.Proofs.ParseCompleteSteps
namespace Yae

/-- **Well-formed grammar.**  What the completeness of the parser needs of the two tables:
* no entry for `<END-OF-FILE>` (otherwise Go does not terminate: C12);
* the three built-in `led`s sit under `(`, `.`, `[` and `(` is the call;
* the closing / separating tokens `)` `]` `}` `,` `:` do not continue an expression;
* `)` `]` `:` do not start one (`f()`, `[]`, `[:]` are decided by looking at that token);
* no prefix power is negative (`expr(rbp)` with `rbp < 0` demands an infix entry for whatever
  token comes next, `)` and the end of the input included).
NaNs and negative or zero infix powers are allowed: such operators are simply never applied. -/
structure WFGrammar (g : Grammar) : Prop where
  noEOF : tableLookup tkEOF g.prefixs = none ∧ tableLookup tkEOF g.infixs = none
  ledKinds : g.LedKinds
  lparen : ∀ bp led, tableLookup "(" g.infixs = some (bp, led) → led = .call
  rparen : tableLookup ")" g.infixs = none
  rbrack : tableLookup "]" g.infixs = none
  rbrace : tableLookup "}" g.infixs = none
  comma : tableLookup "," g.infixs = none
  colon : tableLookup ":" g.infixs = none
  preRparen : tableLookup ")" g.prefixs = none
  preRbrack : tableLookup "]" g.prefixs = none
  preColon : tableLookup ":" g.prefixs = none
  prefixNonneg : ∀ k, ¬ g.prefixBp k < 0

/-! ## binding powers that are not negative -/

theorem BP.zero_key : (0 : BP).key = 0 := by decide
theorem BP.zero_notNaN : (0 : BP).isNaN = false := by decide

theorem BP.nonneg_step {b l : BP} (hb : ¬ b < 0) (hl : b < l) : ¬ l < 0 ∧ ¬ bpPred l < 0 := by
  rw [BP.lt_iff] at hl
  obtain ⟨h1, h2, h3⟩ := hl
  rw [BP.not_lt h1 BP.zero_notNaN, BP.zero_key] at hb
  have hpos : 0 < l.key := by omega
  have hni : l.isNegInf = false := by
    unfold BP.isNegInf
    cases hn : l.neg
    · simp
    · exfalso
      unfold BP.key at hpos
      rw [hn] at hpos
      simp at hpos
      omega
  refine ⟨?_, ?_⟩
  · rw [BP.not_lt h2 BP.zero_notNaN, BP.zero_key]; omega
  · unfold bpPred
    rw [BP.not_lt (by rw [BP.pred_isNaN, h2]) BP.zero_notNaN, BP.zero_key, BP.pred_key h2 hni]
    omega

theorem BP.not_zero_lt_zero : ¬ (0 : BP) < 0 := BP.lt_irrefl 0

/-! ## `rightOK 0` -/

theorem binRbp_cases (g : Grammar) (n : String) (fx : Nat) :
    g.binRbp n fx = g.infixLbp n ∨ g.binRbp n fx = bpPred (g.infixLbp n) := by
  unfold Grammar.binRbp; split <;> simp

/-- In a tree whose nodes satisfy (R1), below a power that is not negative no node on the right
spine has a negative `rbp`. -/
theorem rightOK_zero {g : Grammar} (W : WFGrammar g) :
    ∀ (t : Expr) (b : BP), ¬ b < 0 → t.All (Expr.respHere g) → t.leftAbove g b → t.rightOK g 0
  | .unary _ n _ e true, _, _, hA, _ => by
    simp only [Expr.All, Expr.respHere] at hA
    simp only [Expr.rightOK]
    exact ⟨W.prefixNonneg n, rightOK_zero W e _ (W.prefixNonneg n) hA.2 hA.1⟩
  | .binary _ n _ fx l r, b, hb, hA, hab => by
    simp only [Expr.All, Expr.respHere] at hA
    simp only [Expr.leftAbove] at hab
    simp only [Expr.rightOK]
    have h := BP.nonneg_step hb hab.1
    have hr : ¬ g.binRbp n fx < 0 := by
      rcases binRbp_cases g n fx with h' | h' <;> rw [h']
      · exact h.1
      · exact h.2
    exact ⟨hr, rightOK_zero W r _ hr hA.2.2 hA.1.1⟩
  | .ternary _ n _ l m r, b, hb, hA, hab => by
    simp only [Expr.All, Expr.respHere] at hA
    simp only [Expr.leftAbove] at hab
    simp only [Expr.rightOK]
    have h := BP.nonneg_step hb hab.1
    exact ⟨h.2, rightOK_zero W r _ h.2 hA.2.2.2 hA.1.2.2⟩
  | .unary _ _ _ _ false, _, _, _, _ => by simp [Expr.rightOK]
  | .str .., _, _, _, _ => by simp [Expr.rightOK]
  | .num .., _, _, _, _ => by simp [Expr.rightOK]
  | .time .., _, _, _, _ => by simp [Expr.rightOK]
  | .bool .., _, _, _, _ => by simp [Expr.rightOK]
  | .list .., _, _, _, _ => by simp [Expr.rightOK]
  | .map .., _, _, _, _ => by simp [Expr.rightOK]
  | .obj .., _, _, _, _ => by simp [Expr.rightOK]
  | .ident .., _, _, _, _ => by simp [Expr.rightOK]
  | .call .., _, _, _, _ => by simp [Expr.rightOK]
  | .subscript .., _, _, _, _ => by simp [Expr.rightOK]
  | .member .., _, _, _, _ => by simp [Expr.rightOK]
  | .group .., _, _, _, _ => by simp [Expr.rightOK]

/-- an operand read with `expr(0)` and followed by a token that does not continue an expression -/
theorem follow_closer {g : Grammar} (W : WFGrammar g) {t : Expr} {k : String}
    (hA : t.All (Expr.respHere g)) (h0 : t.leftAbove g 0)
    (hk : tableLookup k g.infixs = none) (hk' : k ≠ "(") :
    Follow g k t ∧ ¬ (0 : BP) < g.infixLbp k := by
  unfold Follow
  rw [Grammar.infixLbp_none hk]
  exact ⟨⟨rightOK_zero W t 0 BP.not_zero_lt_zero hA h0, fun _ => hk'⟩, BP.not_zero_lt_zero⟩

/-! ## `infixNCheck` accepts what `noChainHere` allows -/

theorem infixNCheck_of_noChain {e : Expr} (h : e.noChainHere) : infixNCheck e = .ok e := by
  cases e
  case binary p n np fx l r =>
    simp only [Expr.noChainHere] at h
    by_cases hfx : fx = fixInfixN
    · obtain ⟨h1, h2⟩ := h hfx
      subst hfx
      simp only [infixNCheck, beq_self_eq_true, if_true]
      show (if (l.isBinaryNamed n || r.isBinaryNamed n) = true then _ else _) = _
      rw [h1, h2]
      rfl
    · have : (fx == fixInfixN) = false := by simpa using hfx
      simp only [infixNCheck, this]
      rfl
  all_goals rfl

/-! ## the first token of a yield starts an expression -/

theorem Yields.first {env : PEnv} : ∀ {t i j}, Yields env t i j → ∃ bp nud, env.nudAt i bp nud
  | _, _, _, .ident h => ⟨_, _, h⟩
  | _, _, _, .true_ h => ⟨_, _, h⟩
  | _, _, _, .false_ h => ⟨_, _, h⟩
  | _, _, _, .num h _ => ⟨_, _, h⟩
  | _, _, _, .str h _ => ⟨_, _, h⟩
  | _, _, _, .time h _ => ⟨_, _, h⟩
  | _, _, _, .group h _ _ _ => ⟨_, _, h⟩
  | _, _, _, .pre h _ _ => ⟨_, _, h⟩
  | _, _, _, .emptyMap h _ _ _ => ⟨_, _, h⟩
  | _, _, _, .list h _ _ _ => ⟨_, _, h⟩
  | _, _, _, .map h _ _ _ _ => ⟨_, _, h⟩
  | _, _, _, .obj h _ _ _ => ⟨_, _, h⟩
  | _, _, _, .binary hl _ _ _ _ => hl.first
  | _, _, _, .post hl _ _ => hl.first
  | _, _, _, .ternary hl _ _ _ _ _ => hl.first
  | _, _, _, .call hl _ _ _ _ => hl.first
  | _, _, _, .methodCall hl _ _ _ _ _ => hl.first
  | _, _, _, .member hl _ _ _ => hl.first
  | _, _, _, .memberEOF hl _ _ _ => hl.first
  | _, _, _, .subscript hl _ _ _ _ => hl.first

theorem Yields.first_ne {env : PEnv} {t : Expr} {i j : Nat} (h : Yields env t i j) {k : String}
    (hk : tableLookup k env.g.prefixs = none) : (env.peek i).kind ≠ k := by
  obtain ⟨bp, nud, _, h2⟩ := h.first
  intro hh
  rw [hh, hk] at h2
  cases h2

end Yae
