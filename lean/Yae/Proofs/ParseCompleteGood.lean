/-
  C08, stage 3, part 3: `Good g t` (every node of `t` satisfies (R1)–(R4)) taken apart node by
  node, and the shape of the completeness statement.
-/
import Yae.Proofs.ParseCompleteBase
namespace Yae

/-- (R1)–(R3) and (R4) at every node -/
def Good (g : Grammar) (t : Expr) : Prop := t.All (Expr.respHere g) ∧ t.All Expr.noChainHere

theorem good_group {g : Grammar} {p e} (h : Good g (.group p e)) : Good g e ∧ e.leftAbove g 0 := by
  simp only [Good, Expr.All, Expr.respHere] at h ⊢; grind

theorem good_pre {g : Grammar} {p n np e} (h : Good g (.unary p n np e true)) :
    Good g e ∧ e.leftAbove g (g.prefixBp n) := by
  simp only [Good, Expr.All, Expr.respHere] at h ⊢; grind

theorem good_post {g : Grammar} {p n np e} (h : Good g (.unary p n np e false)) :
    Good g e ∧ e.rightOK g (g.infixLbp n) := by
  simp only [Good, Expr.All, Expr.respHere] at h ⊢; grind

theorem good_binary {g : Grammar} {p n np fx l r} (h : Good g (.binary p n np fx l r)) :
    Good g l ∧ Good g r ∧ r.leftAbove g (g.binRbp n fx) ∧ l.rightOK g (g.infixLbp n) ∧
      (Expr.binary p n np fx l r).noChainHere := by
  simp only [Good, Expr.All, Expr.respHere] at h ⊢; grind

theorem good_ternary {g : Grammar} {p n np l m r} (h : Good g (.ternary p n np l m r)) :
    Good g l ∧ Good g m ∧ Good g r ∧ l.rightOK g (g.infixLbp n) ∧ m.leftAbove g 0 ∧
      r.leftAbove g (bpPred (g.infixLbp n)) := by
  simp only [Good, Expr.All, Expr.respHere] at h ⊢; grind

theorem good_member {g : Grammar} {p col o f fp a b} (h : Good g (.member p col o f fp a b)) :
    Good g o ∧ o.rightOK g (g.infixLbp ".") := by
  simp only [Good, Expr.All, Expr.respHere] at h ⊢; grind

theorem good_subscript {g : Grammar} {p col v ix a} (h : Good g (.subscript p col v ix a)) :
    Good g v ∧ Good g ix ∧ v.rightOK g (g.infixLbp "[") ∧ ix.leftAbove g 0 := by
  simp only [Good, Expr.All, Expr.respHere] at h ⊢; grind

theorem good_call {g : Grammar} {p col c as a b d}
    (h : Good g (.call p col c (ExprList.ofList as) a b d)) :
    Good g c ∧ (c.isMember = true ∨ (c.rightOK g (g.infixLbp "(") ∧ c.endsInMember = false)) ∧
      ∀ x ∈ as, Good g x ∧ x.leftAbove g 0 := by
  simp only [Good, Expr.All, Expr.respHere, ExprList.toList_ofList, allList_ofList] at h ⊢
  grind

theorem good_list {g : Grammar} {p es a} (h : Good g (.list p (ExprList.ofList es) a)) :
    ∀ x ∈ es, Good g x ∧ x.leftAbove g 0 := by
  simp only [Good, Expr.All, Expr.respHere, ExprList.toList_ofList, allList_ofList] at h ⊢
  grind

theorem good_map {g : Grammar} {p ps a} (h : Good g (.map p (PairList.ofList ps) a)) :
    ∀ kv ∈ ps, (Good g kv.1 ∧ kv.1.leftAbove g 0) ∧ (Good g kv.2 ∧ kv.2.leftAbove g 0) := by
  simp only [Good, Expr.All, Expr.respHere, PairList.toList_ofList, allPairs_ofList] at h ⊢
  grind

theorem good_obj {g : Grammar} {p fs a} (h : Good g (.obj p (FieldEList.ofList fs) a)) :
    ∀ nv ∈ fs, Good g nv.2 ∧ nv.2.leftAbove g 0 := by
  simp only [Good, Expr.All, Expr.respHere, FieldEList.toList_ofList, allFields_ofList] at h ⊢
  grind

/-- `expr(rbp)` at `i` gets to the point where the loop holds `t` with the cursor at `j` -/
def Reach (env : PEnv) (rbp : BP) (i : Nat) (t : Expr) (j : Nat) : Prop :=
  ∀ r, PI env t rbp j r → PE env rbp i r

/-- The two conclusions of completeness for a tree `t` yielding `[i, j)`, read with `expr(rbp)`:
if what follows is compatible with `t` being complete, the loop is reached with `t`; and if `t`
is a member expression followed by `(`, the `.` goes on with the method call. -/
structure Compl (env : PEnv) (t : Expr) (i j : Nat) (rbp : BP) : Prop where
  reach : Follow env.g (env.peek j).kind t → Reach env rbp i t j
  method : t.isMember = true → env.kindAt j "(" → ∀ e' j' r,
    PC env t (env.peek j) (j + 1) (e', j') → infixNCheck e' = .ok e' → PI env e' rbp j' r →
    PE env rbp i r

theorem Compl.pe {env : PEnv} {t : Expr} {i j : Nat} {rbp : BP} (h : Compl env t i j rbp)
    (hG : Good env.g t) (hF : Follow env.g (env.peek j).kind t)
    (hs : ¬ rbp < env.g.infixLbp (env.peek j).kind) : PE env rbp i (t, j) :=
  h.reach hF _ (pi_stop hs (infixNCheck_of_noChain hG.2.here))

theorem Compl.pe0 {env : PEnv} (W : WFGrammar env.g) {t : Expr} {i j : Nat}
    (h : Compl env t i j 0) (hG : Good env.g t) (h0 : t.leftAbove env.g 0)
    (hk : tableLookup (env.peek j).kind env.g.infixs = none) (hk' : (env.peek j).kind ≠ "(") :
    PE env 0 i (t, j) :=
  have ⟨hF, hs⟩ := follow_closer W hG.1 h0 hk hk'
  h.pe hG hF hs

theorem compl_nud {env : PEnv} {t : Expr} {i j : Nat} {rbp bp : BP} {nud : Nud}
    (hn : env.nudAt i bp nud) (h : NR env i bp nud (t, j)) (hm : t.isMember = false) :
    Compl env t i j rbp :=
  ⟨fun _ _ hPI => pe_of_nud hn h hPI, fun hm' => by rw [hm] at hm'; cases hm'⟩

theorem reach_led {env : PEnv} {x t : Expr} {i j0 j : Nat} {rbp bp : BP} {led : Led}
    (hx : Compl env x i j0 rbp) (hF : Follow env.g (env.peek j0).kind x)
    (hd : env.ledAt j0 bp led) (hgt : rbp < env.g.infixLbp (env.peek j0).kind)
    (hLR : LR env x j0 bp led (t, j)) (hc : infixNCheck t = .ok t) : Reach env rbp i t j :=
  fun r h => hx.reach hF r (pi_step hd hgt hLR hc h)

theorem binRbp_led {g : Grammar} {led : Led} {fx : Nat} {n : String} {bp : BP}
    (hfx : led.binFix = some fx) (hbp : g.infixLbp n = bp) : g.binRbp n fx = led.rbp bp := by
  cases led <;> simp only [Led.binFix] at hfx <;> cases hfx
  · rw [binRbp_L, hbp]; rfl
  · rw [binRbp_R, hbp]; rfl
  · rw [binRbp_N, hbp]; rfl

end Yae
