/-
  C08, stage 3, part 1: the parser's steps in "for some fuel" form.  `PE env rbp i r` = "`expr(rbp)`
  at cursor `i` returns `r`" (for some, hence for every larger, fuel), and likewise for the other
  functions; one lemma per way a `nud` / `led` / loop can succeed.
-/
import Yae.Proofs.ParseMono
import Yae.Proofs.ParseRespectsSound
namespace Yae

def PE (env : PEnv) (rbp : BP) (i : Nat) (r : Expr × Nat) : Prop := ∃ f, pExpr env f rbp i = .ok r
def PI (env : PEnv) (l : Expr) (rbp : BP) (i : Nat) (r : Expr × Nat) : Prop :=
  ∃ f, pInfix env f l rbp i = .ok r
def PC (env : PEnv) (c : Expr) (t : Token) (i : Nat) (r : Expr × Nat) : Prop :=
  ∃ f, pCall env f c t i = .ok r
def PA (env : PEnv) (acc : List Expr) (i : Nat) (r : List Expr × Nat) : Prop :=
  ∃ f, pArgs env f acc i = .ok r
def PL (env : PEnv) (acc : List Expr) (i : Nat) (r : List Expr × Nat) : Prop :=
  ∃ f, pList env f acc i = .ok r
def PM (env : PEnv) (acc : List (Expr × Expr)) (i : Nat) (r : List (Expr × Expr) × Nat) : Prop :=
  ∃ f, pMap env f acc i = .ok r
def PO (env : PEnv) (acc : List (String × Expr)) (i : Nat) (r : List (String × Expr) × Nat) : Prop :=
  ∃ f, pObj env f acc i = .ok r
def NR (env : PEnv) (i : Nat) (bp : BP) (nud : Nud) (r : Expr × Nat) : Prop :=
  ∃ f, nudRes env f (env.peek i) (i + 1) bp nud = .ok r
def LR (env : PEnv) (l : Expr) (i : Nat) (bp : BP) (led : Led) (r : Expr × Nat) : Prop :=
  ∃ f, ledRes env f l (env.peek i) (i + 1) bp led = .ok r

theorem PEnv.mustEat_of {env : PEnv} {j : Nat} {k : String} (h : env.kindAt j k) :
    env.mustEat k j = .ok (env.peek j, j + 1) := by
  unfold PEnv.mustEat
  simp [h.2, env.adv_lt h.1]

theorem PEnv.kindAt.beq {env : PEnv} {j : Nat} {k : String} (h : env.kindAt j k) :
    ((env.peek j).kind == k) = true := by simp [h.2]

theorem beq_false_of_ne {a b : String} (h : a ≠ b) : (a == b) = false := by simpa using h

/-! ## `pExpr` and `pInfix` -/

theorem pe_of_nud {env : PEnv} {i : Nat} {bp : BP} {nud : Nud} {rbp : BP} {x : Expr} {j0 : Nat}
    {r : Expr × Nat} (hn : env.nudAt i bp nud) (h1 : NR env i bp nud (x, j0))
    (h2 : PI env x rbp j0 r) : PE env rbp i r := by
  obtain ⟨f1, h1⟩ := h1
  obtain ⟨f2, h2⟩ := h2
  refine ⟨max f1 f2 + 1, ?_⟩
  rw [pExpr_succ, hn.2, env.adv_lt hn.1]
  simp only [nudRes_mono h1 (Nat.le_max_left f1 f2)]
  exact pInfix_mono h2 (Nat.le_max_right f1 f2)

theorem pi_step {env : PEnv} {l : Expr} {i : Nat} {bp : BP} {led : Led} {rbp : BP} {e : Expr}
    {j : Nat} {r : Expr × Nat} (hd : env.ledAt i bp led)
    (hgt : rbp < env.g.infixLbp (env.peek i).kind) (h1 : LR env l i bp led (e, j))
    (hc : infixNCheck e = .ok e) (h2 : PI env e rbp j r) : PI env l rbp i r := by
  obtain ⟨f1, h1⟩ := h1
  obtain ⟨f2, h2⟩ := h2
  refine ⟨max f1 f2 + 1, ?_⟩
  rw [pInfix_succ, if_pos hgt, hd.2, env.adv_lt hd.1]
  simp only [ledRes_mono h1 (Nat.le_max_left f1 f2), hc]
  exact pInfix_mono h2 (Nat.le_max_right f1 f2)

theorem pi_stop {env : PEnv} {l : Expr} {i : Nat} {rbp : BP}
    (hs : ¬ rbp < env.g.infixLbp (env.peek i).kind) (hc : infixNCheck l = .ok l) :
    PI env l rbp i (l, i) := by
  refine ⟨1, ?_⟩
  rw [pInfix_succ, if_neg hs]
  simp only [hc]

/-! ## `nud`s -/

theorem nr_ident {env : PEnv} {i : Nat} {bp : BP} :
    NR env i bp .ident (.ident (env.peek i).pos (env.peek i).lexeme, i + 1) := ⟨0, rfl⟩
theorem nr_true {env : PEnv} {i : Nat} {bp : BP} :
    NR env i bp .true_ (.bool (env.peek i).pos true, i + 1) := ⟨0, rfl⟩
theorem nr_false {env : PEnv} {i : Nat} {bp : BP} :
    NR env i bp .false_ (.bool (env.peek i).pos false, i + 1) := ⟨0, rfl⟩
theorem nr_num {env : PEnv} {i : Nat} {bp : BP} {v : Float}
    (h : Num.parseNumLit (env.peek i).lexeme = some v) :
    NR env i bp .num (.num (env.peek i).pos v, i + 1) := ⟨0, by simp only [nudRes, h]⟩
theorem nr_str {env : PEnv} {i : Nat} {bp : BP} {v : String}
    (h : Num.unquote (env.peek i).lexeme = some v) :
    NR env i bp .str (.str (env.peek i).pos v, i + 1) := ⟨0, by simp only [nudRes, h]⟩
theorem nr_time {env : PEnv} {i : Nat} {bp : BP} {e : Expr}
    (h : env.timeLit (env.peek i) = .ok e) : NR env i bp .time (e, i + 1) :=
  ⟨0, by simp only [nudRes, h]⟩

theorem nr_group {env : PEnv} {i j : Nat} {bp : BP} {e : Expr} {rg : Pos}
    (he : PE env 0 (i + 1) (e, j)) (hk : env.kindAt j ")")
    (hr : Pos.range (env.peek i).pos (env.peek j).pos = .ok rg) :
    NR env i bp .group (.group rg e, j + 1) := by
  obtain ⟨f, hf⟩ := he
  exact ⟨f, by simp only [nudRes, hf, PEnv.mustEat_of hk, hr]⟩

theorem nr_pre {env : PEnv} {i j : Nat} {bp : BP} {e : Expr} {rg : Pos}
    (he : PE env bp (i + 1) (e, j)) (hr : Pos.range (env.peek i).pos e.pos = .ok rg) :
    NR env i bp .unaryPrefix (.unary rg (env.peek i).lexeme (env.peek i).pos e true, j) := by
  obtain ⟨f, hf⟩ := he
  exact ⟨f, by simp only [nudRes, hf, hr]⟩

theorem nr_emptyMap {env : PEnv} {i : Nat} {bp : BP} {rg : Pos}
    (h1 : env.kindAt (i + 1) ":") (h2 : env.kindAt (i + 2) "]")
    (hr : Pos.range (env.peek i).pos (env.peek (i + 2)).pos = .ok rg) :
    NR env i bp .listMap (.map rg .nil none, i + 3) :=
  ⟨0, by simp only [nudRes, h1.beq, if_true, env.adv_lt h1.1, PEnv.mustEat_of h2, hr]⟩

theorem nr_list0 {env : PEnv} {i : Nat} {bp : BP} {rg : Pos}
    (h2 : env.kindAt (i + 1) "]")
    (hr : Pos.range (env.peek i).pos (env.peek (i + 1)).pos = .ok rg) :
    NR env i bp .listMap (.list rg .nil none, i + 2) := by
  have h1 : ((env.peek (i + 1)).kind == ":") = false := by rw [h2.2]; decide
  exact ⟨0, by simp only [nudRes, h1, h2.beq, if_true, PEnv.mustEat_of h2, hr]; simp⟩

theorem nr_list1 {env : PEnv} {i j : Nat} {bp : BP} {e : Expr} {rg : Pos}
    (h1 : (env.peek (i + 1)).kind ≠ ":") (h2 : (env.peek (i + 1)).kind ≠ "]")
    (he : PE env 0 (i + 1) (e, j)) (hk : env.kindAt j "]")
    (hr : Pos.range (env.peek i).pos (env.peek j).pos = .ok rg) :
    NR env i bp .listMap (.list rg (ExprList.ofList [e]) none, j + 1) := by
  obtain ⟨f, hf⟩ := he
  have h3 : ((env.peek j).kind == ":") = false := by rw [hk.2]; decide
  have h4 : ((env.peek j).kind == ",") = false := by rw [hk.2]; decide
  exact ⟨f, by simp [nudRes, beq_false_of_ne h1, beq_false_of_ne h2, hf, h3, h4,
    PEnv.mustEat_of hk, hr]⟩

theorem nr_listN {env : PEnv} {i j k : Nat} {bp : BP} {e : Expr} {els : List Expr} {rg : Pos}
    (h1 : (env.peek (i + 1)).kind ≠ ":") (h2 : (env.peek (i + 1)).kind ≠ "]")
    (he : PE env 0 (i + 1) (e, j)) (hc : env.kindAt j ",") (hl : PL env [e] (j + 1) (els, k))
    (hk : env.kindAt k "]") (hr : Pos.range (env.peek i).pos (env.peek k).pos = .ok rg) :
    NR env i bp .listMap (.list rg (ExprList.ofList els.reverse) none, k + 1) := by
  obtain ⟨f1, hf1⟩ := he
  obtain ⟨f2, hf2⟩ := hl
  refine ⟨max f1 f2, ?_⟩
  simp [nudRes, beq_false_of_ne h1, beq_false_of_ne h2, pExpr_mono hf1 (Nat.le_max_left f1 f2),
    hc.2, env.adv_lt hc.1, pList_mono hf2 (Nat.le_max_right f1 f2), PEnv.mustEat_of hk, hr]

theorem nr_map1 {env : PEnv} {i j m : Nat} {bp : BP} {k v : Expr} {rg : Pos}
    (h1 : (env.peek (i + 1)).kind ≠ ":") (h2 : (env.peek (i + 1)).kind ≠ "]")
    (hk : PE env 0 (i + 1) (k, j)) (hc : env.kindAt j ":") (hv : PE env 0 (j + 1) (v, m))
    (hb : env.kindAt m "]") (hr : Pos.range (env.peek i).pos (env.peek m).pos = .ok rg) :
    NR env i bp .listMap (.map rg (PairList.ofList [(k, v)]) none, m + 1) := by
  obtain ⟨f1, hf1⟩ := hk
  obtain ⟨f2, hf2⟩ := hv
  have h4 : ((env.peek m).kind == ",") = false := by rw [hb.2]; decide
  refine ⟨max f1 f2, ?_⟩
  simp [nudRes, beq_false_of_ne h1, beq_false_of_ne h2, pExpr_mono hf1 (Nat.le_max_left f1 f2),
    hc.2, env.adv_lt hc.1, pExpr_mono hf2 (Nat.le_max_right f1 f2), h4, PEnv.mustEat_of hb, hr]

theorem nr_mapN {env : PEnv} {i j m n : Nat} {bp : BP} {k v : Expr} {ps : List (Expr × Expr)}
    {rg : Pos}
    (h1 : (env.peek (i + 1)).kind ≠ ":") (h2 : (env.peek (i + 1)).kind ≠ "]")
    (hk : PE env 0 (i + 1) (k, j)) (hc : env.kindAt j ":") (hv : PE env 0 (j + 1) (v, m))
    (hcm : env.kindAt m ",") (hp : PM env [(k, v)] (m + 1) (ps, n))
    (hb : env.kindAt n "]") (hr : Pos.range (env.peek i).pos (env.peek n).pos = .ok rg) :
    NR env i bp .listMap (.map rg (PairList.ofList ps.reverse) none, n + 1) := by
  obtain ⟨f1, hf1⟩ := hk
  obtain ⟨f2, hf2⟩ := hv
  obtain ⟨f3, hf3⟩ := hp
  refine ⟨max f1 (max f2 f3), ?_⟩
  simp [nudRes, beq_false_of_ne h1, beq_false_of_ne h2, pExpr_mono hf1 (Nat.le_max_left _ _),
    hc.2, env.adv_lt hc.1,
    pExpr_mono hf2 (Nat.le_trans (Nat.le_max_left f2 f3) (Nat.le_max_right f1 _)), hcm.2,
    env.adv_lt hcm.1,
    pMap_mono hf3 (Nat.le_trans (Nat.le_max_right f2 f3) (Nat.le_max_right f1 _)),
    PEnv.mustEat_of hb, hr]

theorem nr_obj {env : PEnv} {i j : Nat} {bp : BP} {fs : List (String × Expr)} {rg : Pos}
    (hf : PO env [] (i + 1) (fs, j)) (hk : env.kindAt j "}")
    (hr : Pos.range (env.peek i).pos (env.peek j).pos = .ok rg) :
    NR env i bp .obj (.obj rg (FieldEList.ofList fs.reverse) none, j + 1) := by
  obtain ⟨f, hf⟩ := hf
  exact ⟨f, by simp only [nudRes, hf, PEnv.mustEat_of hk, hr]⟩

/-! ## `led`s -/

/-- the power at which a binary `led` reads its right operand -/
def Led.rbp (led : Led) (bp : BP) : BP :=
  match led with
  | .binaryR => bpPred bp
  | _ => bp

theorem lr_binary {env : PEnv} {l r : Expr} {i j : Nat} {bp : BP} {led : Led} {fx : Nat} {rg : Pos}
    (hfx : led.binFix = some fx) (hr : PE env (led.rbp bp) (i + 1) (r, j))
    (hg : Pos.range l.pos r.pos = .ok rg) :
    LR env l i bp led (.binary rg (env.peek i).lexeme (env.peek i).pos fx l r, j) := by
  obtain ⟨f, hf⟩ := hr
  cases led <;> simp only [Led.binFix] at hfx <;> cases hfx
  all_goals exact ⟨f, by simp only [Led.rbp] at hf; simp only [ledRes, hf, hg]⟩

theorem lr_post {env : PEnv} {l : Expr} {i : Nat} {bp : BP} {rg : Pos}
    (hg : Pos.range l.pos (env.peek i).pos = .ok rg) :
    LR env l i bp .unaryPostfix (.unary rg (env.peek i).lexeme (env.peek i).pos l false, i + 1) :=
  ⟨0, by simp only [ledRes, hg]⟩

theorem lr_ternary {env : PEnv} {l m r : Expr} {i j k : Nat} {bp : BP} {rg : Pos}
    (hm : PE env 0 (i + 1) (m, j)) (hc : env.kindAt j ":") (hr : PE env (bpPred bp) (j + 1) (r, k))
    (hg : Pos.range l.pos r.pos = .ok rg) :
    LR env l i bp .question (.ternary rg (env.peek i).lexeme (env.peek i).pos l m r, k) := by
  obtain ⟨f1, hf1⟩ := hm
  obtain ⟨f2, hf2⟩ := hr
  exact ⟨max f1 f2, by
    simp only [ledRes, pExpr_mono hf1 (Nat.le_max_left f1 f2), PEnv.mustEat_of hc,
      pExpr_mono hf2 (Nat.le_max_right f1 f2), hg]⟩

theorem lr_call {env : PEnv} {l : Expr} {i : Nat} {bp : BP} {r : Expr × Nat}
    (h : PC env l (env.peek i) (i + 1) r) : LR env l i bp .call r := by
  obtain ⟨f, hf⟩ := h
  exact ⟨f, by simp only [ledRes, hf]⟩

theorem lr_subscript {env : PEnv} {l ix : Expr} {i j : Nat} {bp : BP} {rg : Pos}
    (hx : PE env 0 (i + 1) (ix, j)) (hk : env.kindAt j "]")
    (hg : Pos.range l.pos (env.peek j).pos = .ok rg) :
    LR env l i bp .subscript (.subscript rg (env.peek i).pos.col l ix none, j + 1) := by
  obtain ⟨f, hf⟩ := hx
  exact ⟨f, by simp only [ledRes, hf, PEnv.mustEat_of hk, hg]⟩

theorem lr_member {env : PEnv} {l : Expr} {i : Nat} {bp : BP} {rg : Pos}
    (hi : i + 1 < env.toks.size) (hg : Pos.range l.pos (env.peek (i + 1)).pos = .ok rg)
    (hp : (env.peek (i + 2)).kind ≠ "(") :
    LR env l i bp .dot (.member rg (env.peek i).pos.col l (env.peek (i + 1)).lexeme
      (env.peek (i + 1)).pos none (-1), i + 2) :=
  ⟨0, by simp only [ledRes, hg, env.adv_lt hi, beq_false_of_ne hp]; simp⟩

theorem lr_memberEOF {env : PEnv} {l : Expr} {i : Nat} {bp : BP} {rg : Pos}
    (hi : i + 1 = env.toks.size) (hg : Pos.range l.pos eofToken.pos = .ok rg) :
    LR env l i bp .dot (.member rg (env.peek i).pos.col l eofToken.lexeme eofToken.pos none (-1),
      i + 1) := by
  have hadv : env.adv (i + 1) = i + 1 := by unfold PEnv.adv; rw [if_neg (by omega)]
  have hpk : env.peek (i + 1) = eofToken := by unfold PEnv.peek; rw [dif_neg (by omega)]
  have hne : (eofToken.kind == "(") = false := by decide
  exact ⟨0, by simp only [ledRes, hpk, hg, hadv, hne]; simp⟩

theorem lr_methodCall {env : PEnv} {l : Expr} {i : Nat} {bp : BP} {rg : Pos} {r : Expr × Nat}
    (hi : i + 1 < env.toks.size) (hg : Pos.range l.pos (env.peek (i + 1)).pos = .ok rg)
    (hp : env.kindAt (i + 2) "(")
    (hc : PC env (.member rg (env.peek i).pos.col l (env.peek (i + 1)).lexeme
      (env.peek (i + 1)).pos none (-1)) (env.peek (i + 2)) (i + 3) r) :
    LR env l i bp .dot r := by
  obtain ⟨f, hf⟩ := hc
  exact ⟨f, by simp only [ledRes, hg, env.adv_lt hi, hp.beq, env.adv_lt hp.1, hf]; simp⟩

/-! ## `pCall` and the loops -/

theorem pc_nil {env : PEnv} {c : Expr} {t : Token} {i : Nat} {rg : Pos}
    (hk : env.kindAt i ")") (hg : Pos.range c.pos (env.peek i).pos = .ok rg) :
    PC env c t i (.call rg t.pos.col c (ExprList.ofList []) none "" (-1), i + 1) :=
  ⟨1, by rw [pCall_succ]; simp only [hk.beq, if_true, PEnv.mustEat_of hk, hg, List.reverse_nil]⟩

theorem pc_args {env : PEnv} {c : Expr} {t : Token} {i k : Nat} {as : List Expr} {rg : Pos}
    (h1 : (env.peek i).kind ≠ ")") (ha : PA env [] i (as, k))
    (hk : env.kindAt k ")") (hg : Pos.range c.pos (env.peek k).pos = .ok rg) :
    PC env c t i (.call rg t.pos.col c (ExprList.ofList as.reverse) none "" (-1), k + 1) := by
  obtain ⟨f, hf⟩ := ha
  exact ⟨f + 1, by
    rw [pCall_succ]; simp [beq_false_of_ne h1, hf, PEnv.mustEat_of hk, hg]⟩

theorem pa_one {env : PEnv} {acc : List Expr} {i j : Nat} {a : Expr}
    (he : PE env 0 i (a, j)) (hc : (env.peek j).kind ≠ ",") : PA env acc i (a :: acc, j) := by
  obtain ⟨f, hf⟩ := he
  exact ⟨f + 1, by rw [pArgs_succ]; simp [hf, beq_false_of_ne hc]⟩

theorem pa_cons {env : PEnv} {acc : List Expr} {i j : Nat} {a : Expr} {r : List Expr × Nat}
    (he : PE env 0 i (a, j)) (hc : env.kindAt j ",") (hr : PA env (a :: acc) (j + 1) r) :
    PA env acc i r := by
  obtain ⟨f1, hf1⟩ := he
  obtain ⟨f2, hf2⟩ := hr
  exact ⟨max f1 f2 + 1, by
    rw [pArgs_succ]
    simp [pExpr_mono hf1 (Nat.le_max_left f1 f2), hc.2, env.adv_lt hc.1,
      pArgs_mono hf2 (Nat.le_max_right f1 f2)]⟩

theorem pl_nil {env : PEnv} {acc : List Expr} {i : Nat} (hk : env.kindAt i "]") :
    PL env acc i (acc, i) := ⟨1, by rw [pList_succ]; simp [hk.2]⟩

theorem pl_one {env : PEnv} {acc : List Expr} {i j : Nat} {a : Expr}
    (h1 : (env.peek i).kind ≠ "]") (he : PE env 0 i (a, j)) (hc : (env.peek j).kind ≠ ",") :
    PL env acc i (a :: acc, j) := by
  obtain ⟨f, hf⟩ := he
  exact ⟨f + 1, by rw [pList_succ]; simp [beq_false_of_ne h1, hf, beq_false_of_ne hc]⟩

theorem pl_cons {env : PEnv} {acc : List Expr} {i j : Nat} {a : Expr} {r : List Expr × Nat}
    (h1 : (env.peek i).kind ≠ "]") (he : PE env 0 i (a, j)) (hc : env.kindAt j ",")
    (hr : PL env (a :: acc) (j + 1) r) : PL env acc i r := by
  obtain ⟨f1, hf1⟩ := he
  obtain ⟨f2, hf2⟩ := hr
  exact ⟨max f1 f2 + 1, by
    rw [pList_succ]
    simp [beq_false_of_ne h1, pExpr_mono hf1 (Nat.le_max_left f1 f2), hc.2, env.adv_lt hc.1,
      pList_mono hf2 (Nat.le_max_right f1 f2)]⟩

theorem pm_nil {env : PEnv} {acc : List (Expr × Expr)} {i : Nat} (hk : env.kindAt i "]") :
    PM env acc i (acc, i) := ⟨1, by rw [pMap_succ]; simp [hk.2]⟩

theorem pm_one {env : PEnv} {acc : List (Expr × Expr)} {i j m : Nat} {k v : Expr}
    (h1 : (env.peek i).kind ≠ "]") (hk : PE env 0 i (k, j)) (hc : env.kindAt j ":")
    (hv : PE env 0 (j + 1) (v, m)) (hcm : (env.peek m).kind ≠ ",") :
    PM env acc i ((k, v) :: acc, m) := by
  obtain ⟨f1, hf1⟩ := hk
  obtain ⟨f2, hf2⟩ := hv
  exact ⟨max f1 f2 + 1, by
    rw [pMap_succ]
    simp [beq_false_of_ne h1, pExpr_mono hf1 (Nat.le_max_left f1 f2), PEnv.mustEat_of hc,
      pExpr_mono hf2 (Nat.le_max_right f1 f2), beq_false_of_ne hcm]⟩

theorem pm_cons {env : PEnv} {acc : List (Expr × Expr)} {i j m : Nat} {k v : Expr}
    {r : List (Expr × Expr) × Nat}
    (h1 : (env.peek i).kind ≠ "]") (hk : PE env 0 i (k, j)) (hc : env.kindAt j ":")
    (hv : PE env 0 (j + 1) (v, m)) (hcm : env.kindAt m ",")
    (hr : PM env ((k, v) :: acc) (m + 1) r) : PM env acc i r := by
  obtain ⟨f1, hf1⟩ := hk
  obtain ⟨f2, hf2⟩ := hv
  obtain ⟨f3, hf3⟩ := hr
  exact ⟨max f1 (max f2 f3) + 1, by
    rw [pMap_succ]
    simp [beq_false_of_ne h1, pExpr_mono hf1 (Nat.le_max_left _ _), PEnv.mustEat_of hc,
      pExpr_mono hf2 (Nat.le_trans (Nat.le_max_left f2 f3) (Nat.le_max_right f1 _)), hcm.2,
      env.adv_lt hcm.1,
      pMap_mono hf3 (Nat.le_trans (Nat.le_max_right f2 f3) (Nat.le_max_right f1 _))]⟩

theorem po_nil {env : PEnv} {acc : List (String × Expr)} {i : Nat} (hk : env.kindAt i "}") :
    PO env acc i (acc, i) := ⟨1, by rw [pObj_succ]; simp [hk.2]⟩

theorem po_one {env : PEnv} {acc : List (String × Expr)} {i j : Nat} {v : Expr}
    (hn : env.kindAt i "<sym>") (hc : env.kindAt (i + 1) ":") (hv : PE env 0 (i + 2) (v, j))
    (hcm : (env.peek j).kind ≠ ",") : PO env acc i (((env.peek i).lexeme, v) :: acc, j) := by
  obtain ⟨f, hf⟩ := hv
  have h1 : ((env.peek i).kind == "}") = false := by rw [hn.2]; decide
  exact ⟨f + 1, by
    rw [pObj_succ]
    simp [h1, PEnv.mustEat_of hn, PEnv.mustEat_of hc, hf, beq_false_of_ne hcm]⟩

theorem po_cons {env : PEnv} {acc : List (String × Expr)} {i j : Nat} {v : Expr}
    {r : List (String × Expr) × Nat}
    (hn : env.kindAt i "<sym>") (hc : env.kindAt (i + 1) ":") (hv : PE env 0 (i + 2) (v, j))
    (hcm : env.kindAt j ",") (hr : PO env (((env.peek i).lexeme, v) :: acc) (j + 1) r) :
    PO env acc i r := by
  obtain ⟨f1, hf1⟩ := hv
  obtain ⟨f2, hf2⟩ := hr
  have h1 : ((env.peek i).kind == "}") = false := by rw [hn.2]; decide
  exact ⟨max f1 f2 + 1, by
    rw [pObj_succ]
    simp [h1, PEnv.mustEat_of hn, PEnv.mustEat_of hc, pExpr_mono hf1 (Nat.le_max_left f1 f2),
      hcm.2, env.adv_lt hcm.1, pObj_mono hf2 (Nat.le_max_right f1 f2)]⟩

end Yae
