/-
  C08, stage 3: completeness and uniqueness for `parse`, and the well-formedness of the grammar of
  an operator table.
-/
import Yae.Proofs.ParseComplete
namespace Yae

/-! ## the grammar of an operator table is well formed -/

/-- kinds that an operator must not have: the closing / separating tokens and the end of input -/
def reservedKinds : List String := [")", "]", "}", ",", ":", tkEOF]

/-- **Well-formed operator table**: no operator is spelled like a closing or separating token or
has the kind `<END-OF-FILE>`, and no prefix operator has a negative binding power. -/
def WFOps (ops : List Operator) : Prop :=
  (∀ o ∈ ops, o.kind ∉ reservedKinds) ∧ (∀ o ∈ ops, o.fixity = fixPrefix → ¬ o.bp < 0)

theorem tableLookup_mem {α : Type} {k : String} {bp : BP} {f : α} :
    ∀ {l : List (String × BP × α)}, tableLookup k l = some (bp, f) → ∃ k', (k', bp, f) ∈ l
  | [], h => by simp [tableLookup] at h
  | (k', bp', f') :: rest, h => by
    simp only [tableLookup] at h
    split at h
    · cases h; exact ⟨k', List.mem_cons_self⟩
    · obtain ⟨k'', hk⟩ := tableLookup_mem h
      exact ⟨k'', List.mem_cons_of_mem _ hk⟩

theorem addOp_prefix_nonneg {g : Grammar} (op : Operator) (hop : op.fixity = fixPrefix → ¬ op.bp < 0)
    (h : ∀ e ∈ g.prefixs, ¬ e.2.1 < 0) : ∀ e ∈ (g.addOp op).prefixs, ¬ e.2.1 < 0 := by
  unfold Grammar.addOp
  split
  · rename_i hfx
    have hfx' : op.fixity = fixPrefix := by simpa using hfx
    intro e he
    simp only [Grammar.prefix] at he
    rcases List.mem_cons.mp he with rfl | he
    · exact hop hfx'
    · exact h e he
  · repeat' split
    all_goals exact h

theorem foldl_addOp_prefix_nonneg (l : List Operator) {g : Grammar}
    (hop : ∀ o ∈ l, o.fixity = fixPrefix → ¬ o.bp < 0)
    (h : ∀ e ∈ g.prefixs, ¬ e.2.1 < 0) : ∀ e ∈ (l.foldl Grammar.addOp g).prefixs, ¬ e.2.1 < 0 := by
  induction l generalizing g with
  | nil => exact h
  | cons o l ih =>
    exact ih (fun o' ho' => hop o' (List.mem_cons_of_mem _ ho'))
      (addOp_prefix_nonneg o (hop o List.mem_cons_self) h)

theorem preGrammar_lookup {ops : List Operator} {k : String} (hk : ∀ o ∈ ops, o.kind ≠ k)
    (h1 : tableLookup k ((((((((((⟨[], []⟩ : Grammar).prefix "<sym>" bpNone .ident).prefix "true"
      bpNone .true_).prefix "false" bpNone .false_).prefix "<num>" bpNone .num).prefix "<str>" bpNone
      .str).prefix "<time>" bpNone .time).prefix "[" bpNone .listMap).prefix "{" bpNone .obj).prefix
      "(" bpNone .group).prefixs = none) :
    tableLookup k (preGrammar ops).prefixs = none ∧ tableLookup k (preGrammar ops).infixs = none :=
  foldl_addOp_lookup (k := k) (sortOps ops) _ (fun o ho => hk o (mem_sortOps.mp ho)) h1 rfl

theorem WFOps.grammar {ops : List Operator} (h : WFOps ops) : WFGrammar (newGrammar ops) := by
  obtain ⟨hk, hp⟩ := h
  have hne : ∀ k ∈ reservedKinds, ∀ o ∈ ops, o.kind ≠ k := by
    intro k hk' o ho hh
    exact hk o ho (hh ▸ hk')
  have l1 := preGrammar_lookup (hne ")" (by decide)) (by decide)
  have l2 := preGrammar_lookup (hne "]" (by decide)) (by decide)
  have l3 := preGrammar_lookup (hne "}" (by decide)) (by decide)
  have l4 := preGrammar_lookup (hne "," (by decide)) (by decide)
  have l5 := preGrammar_lookup (hne ":" (by decide)) (by decide)
  have l6 := preGrammar_lookup (hne tkEOF (by decide)) (by decide)
  have hpre : (newGrammar ops).prefixs = (preGrammar ops).prefixs := rfl
  have hinf : ∀ k, k ≠ "[" → k ≠ "(" → k ≠ "." → k ≠ "?" →
      tableLookup k (newGrammar ops).infixs = tableLookup k (preGrammar ops).infixs := by
    intro k h1 h2 h3 h4
    rw [newGrammar_eq]
    simp only [Grammar.infix, tableLookup]
    rw [if_neg (by simpa using h1.symm), if_neg (by simpa using h2.symm),
      if_neg (by simpa using h3.symm), if_neg (by simpa using h4.symm)]
  have e6 : tableLookup tkEOF (newGrammar ops).infixs = none := by
    rw [hinf _ (by decide) (by decide) (by decide) (by decide)]; exact l6.2
  refine ⟨⟨by rw [hpre]; exact l6.1, e6⟩, newGrammar_ledKinds ops, ?_, ?_, ?_, ?_, ?_, ?_, ?_, ?_,
    ?_, ?_⟩
  · intro bp led hl
    rw [newGrammar_eq] at hl
    simp only [Grammar.infix, tableLookup] at hl
    rw [if_neg (by decide), if_pos (by decide)] at hl
    cases hl; rfl
  · rw [hinf _ (by decide) (by decide) (by decide) (by decide)]; exact l1.2
  · rw [hinf _ (by decide) (by decide) (by decide) (by decide)]; exact l2.2
  · rw [hinf _ (by decide) (by decide) (by decide) (by decide)]; exact l3.2
  · rw [hinf _ (by decide) (by decide) (by decide) (by decide)]; exact l4.2
  · rw [hinf _ (by decide) (by decide) (by decide) (by decide)]; exact l5.2
  · rw [hpre]; exact l1.1
  · rw [hpre]; exact l2.1
  · rw [hpre]; exact l5.1
  · intro k
    have hall : ∀ e ∈ (preGrammar ops).prefixs, ¬ e.2.1 < 0 :=
      foldl_addOp_prefix_nonneg (sortOps ops) (fun o ho => hp o (mem_sortOps.mp ho)) (by
        intro e he
        simp only [Grammar.prefix, List.mem_cons, List.not_mem_nil, or_false] at he
        rcases he with rfl | rfl | rfl | rfl | rfl | rfl | rfl | rfl | rfl <;> decide)
    unfold Grammar.prefixBp
    rw [hpre]
    split
    · rename_i bp f hl
      obtain ⟨k', hm⟩ := tableLookup_mem hl
      exact hall _ hm
    · exact BP.not_zero_lt_zero

/-! ## completeness -/

theorem mkEnv_peek_end (ops : List Operator) (times : List (String × Int)) (toks : List Token) :
    ((mkEnv ops times toks).peek toks.length).kind = tkEOF :=
  PEnv.peek_ge _ (by simp [mkEnv])

/-- **Completeness.**  With a well-formed grammar, a tree that yields ALL the tokens and respects
the declarations is the result of `parse`. -/
theorem parse_complete {ops : List Operator} {times : List (String × Int)} {toks : List Token}
    {t : Expr} (W : WFGrammar (newGrammar ops)) (hL : OpLexemes ops toks)
    (hy : Yields (mkEnv ops times toks) t 0 toks.length) (hR : Respects (newGrammar ops) t) :
    parse ops times toks = .ok t := by
  have hE : PEnv.NoEOF (mkEnv ops times toks) := W.noEOF
  have hend := mkEnv_peek_end ops times toks
  have hC := hy.complete (env := mkEnv ops times toks) W (hL.env (times := times)) ⟨hR.2.1, hR.2.2⟩
    0 hR.1
  obtain ⟨f, hf⟩ := hC.pe0 (env := mkEnv ops times toks) W ⟨hR.2.1, hR.2.2⟩ hR.1
    (by rw [hend]; exact W.noEOF.2) (by rw [hend]; decide)
  have hnf := ((fuel_all hE (parseFuel toks.length)).exprF 0 0
    (by simp [mkEnv, parseFuel] <;> omega)).1
  have hF : pExpr (mkEnv ops times toks) (parseFuel toks.length) 0 0 = .ok (t, toks.length) := by
    by_cases hle : f ≤ parseFuel toks.length
    · exact pExpr_mono hf hle
    · rw [← pExpr_mono_res hnf (Nat.le_of_lt (Nat.lt_of_not_le hle))]; exact hf
  have hme : (mkEnv ops times toks).mustEat tkEOF toks.length =
      .ok ((mkEnv ops times toks).peek toks.length, (mkEnv ops times toks).adv toks.length) := by
    unfold PEnv.mustEat
    simp [hend]
  show parseWith (parseFuel toks.length) ops times toks = .ok t
  unfold parseWith
  show (match pExpr (mkEnv ops times toks) (parseFuel toks.length) 0 0 with
    | .error e => .error e
    | .ok (e, i) =>
      match (mkEnv ops times toks).mustEat tkEOF i with
      | .error e => .error e
      | .ok _ => .ok e) = Except.ok t
  rw [hF]
  simp only [hme]

/-- **Uniqueness.**  Two trees that yield the same tokens and both respect the declarations are
equal. -/
theorem respects_unique {ops : List Operator} {times : List (String × Int)} {toks : List Token}
    {t t' : Expr} (W : WFGrammar (newGrammar ops)) (hL : OpLexemes ops toks)
    (hy : Yields (mkEnv ops times toks) t 0 toks.length) (hR : Respects (newGrammar ops) t)
    (hy' : Yields (mkEnv ops times toks) t' 0 toks.length) (hR' : Respects (newGrammar ops) t') :
    t = t' := by
  have h1 := parse_complete W hL hy hR
  have h2 := parse_complete W hL hy' hR'
  rw [h1] at h2
  cases h2; rfl

/-- **The parser returns exactly the tree dictated by the declarations**: `parse` succeeds with
`t` if and only if `t` yields the token list and respects the declarations. -/
theorem parse_iff {ops : List Operator} {times : List (String × Int)} {toks : List Token}
    {t : Expr} (W : WFGrammar (newGrammar ops)) (hL : OpLexemes ops toks)
    (htk : ∀ t ∈ toks, t.kind ≠ tkEOF) :
    parse ops times toks = .ok t ↔
      (Yields (mkEnv ops times toks) t 0 toks.length ∧ Respects (newGrammar ops) t) := by
  constructor
  · intro h
    exact ⟨parseWith_yields_all W.noEOF htk h, parseWith_respects W.noEOF hL h⟩
  · rintro ⟨hy, hR⟩
    exact parse_complete W hL hy hR



theorem Grammar.isOpKind_iff (g : Grammar) (k : String) :
    g.isOpKind k ↔
      ((tableLookup k g.prefixs).any (fun e => e.2 == Nud.unaryPrefix) = true ∨
        (tableLookup k g.infixs).isSome = true) := by
  unfold Grammar.isOpKind
  constructor
  · rintro (⟨bp, h⟩ | ⟨bp, led, h⟩)
    · left; rw [h]; rfl
    · right; rw [h]; rfl
  · rintro (h | h)
    · left
      cases hl : tableLookup k g.prefixs with
      | none => rw [hl] at h; cases h
      | some e =>
        obtain ⟨bp, nud⟩ := e
        rw [hl] at h
        have : nud = Nud.unaryPrefix := by simpa using h
        exact ⟨bp, by rw [this]⟩
    · right
      cases hl : tableLookup k g.infixs with
      | none => rw [hl] at h; cases h
      | some e => exact ⟨e.1, e.2, rfl⟩

instance (g : Grammar) (k : String) : Decidable (g.isOpKind k) :=
  decidable_of_iff _ (g.isOpKind_iff k).symm

instance (ops : List Operator) (toks : List Token) : Decidable (OpLexemes ops toks) := by
  unfold OpLexemes; infer_instance

instance (ts : List Token) : Decidable (TokensOrdered ts) := by
  unfold TokensOrdered; infer_instance

end Yae
