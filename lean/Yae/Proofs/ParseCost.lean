/-
  The work of the parser is linear in the number of tokens (C12).

  Cost unit (`Yae/Spec/ParseCost.lean`): one call of any of the seven parser functions.
  With no `<END-OF-FILE>` entry in the grammar (the hypothesis of `Yae/Proofs/ParseFuel.lean`),
  writing `n` for the number of tokens and `Φ i = 2 * (n - i)` for the potential of cursor `i`:

      a run of `pX` from cursor `i` that returns at cursor `j` makes at most `Φ i - Φ j + s` calls,
      a run that fails (whatever the error, `.fuel` included) makes at most `Φ i + d` calls,

  with `s = 0` for `pExpr` / `pCall`, `s = 1` for the five loops (the last round consumes
  nothing), `d = 1` for `pExpr`, `d = 2` for the loops, `d = 3` for `pCall` (`CostAt`).  The
  statements hold AT EVERY FUEL (no lower bound on the fuel is assumed): the bound is not an
  artefact of the fuel.  Proof: one induction on the fuel over all seven functions; every `pExpr`
  call eats its first token, every round of `pInfix` eats the operator token, every further round
  of the other loops eats a `,`, and the closing bracket pays for the round that stops.
-/
import Yae.Proofs.ParseCostErase
import Yae.Proofs.ParseFuel
namespace Yae

theorem PEnv.peek_lt_of_kind (env : PEnv) {i : Nat} {k : String} (hk : k ≠ tkEOF)
    (h : (env.peek i).kind = k) : i < env.toks.size := by
  apply Nat.lt_of_not_le
  intro hi
  exact hk (h ▸ env.peek_ge hi)

theorem PEnv.adv_ge (env : PEnv) {i : Nat} (h : env.toks.size ≤ i) : env.adv i = i := by
  unfold PEnv.adv; split <;> omega

theorem PEnv.mustEat_ok_kind {env : PEnv} {k : String} {i : Nat} {t : Token} {j : Nat}
    (h : env.mustEat k i = .ok (t, j)) : j = env.adv i ∧ (env.peek i).kind = k := by
  unfold PEnv.mustEat at h
  simp only at h
  split at h
  · rename_i hk
    cases h; exact ⟨rfl, by simpa using hk⟩
  · cases h

/-- the seven cost statements at fuel `f` -/
structure CostAt (env : PEnv) (f : Nat) : Prop where
  exprC : ∀ rbp i,
    (∀ e c, pExprC env f rbp i = (.error e, c) → c ≤ 2 * (env.toks.size - i) + 1) ∧
    (∀ x j c, pExprC env f rbp i = (.ok (x, j), c) →
      i < env.toks.size ∧ i < j ∧ c + 2 * (env.toks.size - j) ≤ 2 * (env.toks.size - i))
  infixC : ∀ l rbp i,
    (∀ e c, pInfixC env f l rbp i = (.error e, c) → c ≤ 2 * (env.toks.size - i) + 2) ∧
    (∀ x j c, pInfixC env f l rbp i = (.ok (x, j), c) →
      i ≤ j ∧ c + 2 * (env.toks.size - j) ≤ 2 * (env.toks.size - i) + 1)
  callC : ∀ cl t i,
    (∀ e c, pCallC env f cl t i = (.error e, c) → c ≤ 2 * (env.toks.size - i) + 3) ∧
    (∀ x j c, pCallC env f cl t i = (.ok (x, j), c) →
      i ≤ j ∧ c + 2 * (env.toks.size - j) ≤ 2 * (env.toks.size - i))
  argsC : ∀ acc i,
    (∀ e c, pArgsC env f acc i = (.error e, c) → c ≤ 2 * (env.toks.size - i) + 2) ∧
    (∀ x j c, pArgsC env f acc i = (.ok (x, j), c) →
      i ≤ j ∧ c + 2 * (env.toks.size - j) ≤ 2 * (env.toks.size - i) + 1)
  listC : ∀ acc i,
    (∀ e c, pListC env f acc i = (.error e, c) → c ≤ 2 * (env.toks.size - i) + 2) ∧
    (∀ x j c, pListC env f acc i = (.ok (x, j), c) →
      i ≤ j ∧ c + 2 * (env.toks.size - j) ≤ 2 * (env.toks.size - i) + 1)
  mapC : ∀ acc i,
    (∀ e c, pMapC env f acc i = (.error e, c) → c ≤ 2 * (env.toks.size - i) + 2) ∧
    (∀ x j c, pMapC env f acc i = (.ok (x, j), c) →
      i ≤ j ∧ c + 2 * (env.toks.size - j) ≤ 2 * (env.toks.size - i) + 1)
  objC : ∀ acc i,
    (∀ e c, pObjC env f acc i = (.error e, c) → c ≤ 2 * (env.toks.size - i) + 2) ∧
    (∀ x j c, pObjC env f acc i = (.ok (x, j), c) →
      i ≤ j ∧ c + 2 * (env.toks.size - j) ≤ 2 * (env.toks.size - i) + 1)

theorem cost_nud {env : PEnv} {f : Nat} (ih : CostAt env f) (t : Token) (i : Nat) (bp : BP)
    (nud : Nud) :
    (∀ e c, nudResC env f t i bp nud = (.error e, c) → c ≤ 2 * (env.toks.size - i) + 2) ∧
    (∀ x j c, nudResC env f t i bp nud = (.ok (x, j), c) →
      i ≤ j ∧ c + 2 * (env.toks.size - j) ≤ 2 * (env.toks.size - i)) := by
  have ihE := ih.exprC
  have ihL := ih.listC
  have ihM := ih.mapC
  have ihO := ih.objC
  have hadv := env.adv_bounds
  have hadv' := @PEnv.adv_lt env
  have hme := @PEnv.mustEat_ok_kind env
  have h1 : ∀ i, (env.peek i).kind = ")" → i < env.toks.size :=
    fun i h => env.peek_lt_of_kind (by decide) h
  have h2 : ∀ i, (env.peek i).kind = "]" → i < env.toks.size :=
    fun i h => env.peek_lt_of_kind (by decide) h
  have h3 : ∀ i, (env.peek i).kind = "}" → i < env.toks.size :=
    fun i h => env.peek_lt_of_kind (by decide) h
  have h4 : ∀ i, (env.peek i).kind = ":" → i < env.toks.size :=
    fun i h => env.peek_lt_of_kind (by decide) h
  have h5 : ∀ i, (env.peek i).kind = "," → i < env.toks.size :=
    fun i h => env.peek_lt_of_kind (by decide) h
  unfold nudResC
  cases nud <;> simp only []
  all_goals (repeat' split)
  all_goals grind

theorem cost_led {env : PEnv} {f : Nat} (ih : CostAt env f) (left : Expr) (t : Token) (i : Nat)
    (bp : BP) (led : Led) :
    (∀ e c, ledResC env f left t i bp led = (.error e, c) → c ≤ 2 * (env.toks.size - i) + 3) ∧
    (∀ x j c, ledResC env f left t i bp led = (.ok (x, j), c) →
      i ≤ j ∧ c + 2 * (env.toks.size - j) ≤ 2 * (env.toks.size - i)) := by
  have ihE := ih.exprC
  have ihC := ih.callC
  have hadv := env.adv_bounds
  have hadv' := @PEnv.adv_lt env
  have hme := @PEnv.mustEat_ok_kind env
  have h2 : ∀ i, (env.peek i).kind = "]" → i < env.toks.size :=
    fun i h => env.peek_lt_of_kind (by decide) h
  have h4 : ∀ i, (env.peek i).kind = ":" → i < env.toks.size :=
    fun i h => env.peek_lt_of_kind (by decide) h
  have h6 : ∀ i, (env.peek i).kind = "(" → i < env.toks.size :=
    fun i h => env.peek_lt_of_kind (by decide) h
  unfold ledResC
  cases led <;> simp only []
  all_goals (repeat' split)
  all_goals grind

theorem cost_expr {env : PEnv} (hE : env.NoEOF) {f : Nat} (ih : CostAt env f) (rbp : BP) (i : Nat) :
    (∀ e c, pExprC env (f + 1) rbp i = (.error e, c) → c ≤ 2 * (env.toks.size - i) + 1) ∧
    (∀ x j c, pExprC env (f + 1) rbp i = (.ok (x, j), c) →
      i < env.toks.size ∧ i < j ∧ c + 2 * (env.toks.size - j) ≤ 2 * (env.toks.size - i)) := by
  have ihI := ih.infixC
  have hadv' := @PEnv.adv_lt env
  have hpk := @PEnv.peek_ge env
  rw [pExprC_succ]
  by_cases hi : i < env.toks.size
  · have hN := cost_nud ih (env.peek i) (env.adv i)
    repeat' split
    all_goals grind
  · rw [hpk (by omega), hE.1]
    simp

theorem cost_infix {env : PEnv} (hE : env.NoEOF) {f : Nat} (ih : CostAt env f) (left : Expr)
    (rbp : BP) (i : Nat) :
    (∀ e c, pInfixC env (f + 1) left rbp i = (.error e, c) → c ≤ 2 * (env.toks.size - i) + 2) ∧
    (∀ x j c, pInfixC env (f + 1) left rbp i = (.ok (x, j), c) →
      i ≤ j ∧ c + 2 * (env.toks.size - j) ≤ 2 * (env.toks.size - i) + 1) := by
  have ihI := ih.infixC
  have hadv' := @PEnv.adv_lt env
  have hpk := @PEnv.peek_ge env
  rw [pInfixC_succ]
  by_cases hi : i < env.toks.size
  · have hL := cost_led ih left (env.peek i) (env.adv i)
    repeat' split
    all_goals grind
  · rw [hpk (by omega), hE.2]
    repeat' split
    all_goals grind

theorem cost_call {env : PEnv} {f : Nat} (ih : CostAt env f) (cl : Expr) (t : Token) (i : Nat) :
    (∀ e c, pCallC env (f + 1) cl t i = (.error e, c) → c ≤ 2 * (env.toks.size - i) + 3) ∧
    (∀ x j c, pCallC env (f + 1) cl t i = (.ok (x, j), c) →
      i ≤ j ∧ c + 2 * (env.toks.size - j) ≤ 2 * (env.toks.size - i)) := by
  have ihA := ih.argsC
  have hadv := env.adv_bounds
  have hadv' := @PEnv.adv_lt env
  have hme := @PEnv.mustEat_ok_kind env
  have h1 : ∀ i, (env.peek i).kind = ")" → i < env.toks.size :=
    fun i h => env.peek_lt_of_kind (by decide) h
  have h4 : ∀ i, (env.peek i).kind = ":" → i < env.toks.size :=
    fun i h => env.peek_lt_of_kind (by decide) h
  have h5 : ∀ i, (env.peek i).kind = "," → i < env.toks.size :=
    fun i h => env.peek_lt_of_kind (by decide) h
  have h7 : ∀ i, (env.peek i).kind = "<sym>" → i < env.toks.size :=
    fun i h => env.peek_lt_of_kind (by decide) h
  rw [pCallC_succ]
  repeat' split
  all_goals grind

theorem cost_args {env : PEnv} {f : Nat} (ih : CostAt env f) (acc : List Expr) (i : Nat) :
    (∀ e c, pArgsC env (f + 1) acc i = (.error e, c) → c ≤ 2 * (env.toks.size - i) + 2) ∧
    (∀ x j c, pArgsC env (f + 1) acc i = (.ok (x, j), c) →
      i ≤ j ∧ c + 2 * (env.toks.size - j) ≤ 2 * (env.toks.size - i) + 1) := by
  have ihE := ih.exprC
  have ihA := ih.argsC
  have hadv := env.adv_bounds
  have hadv' := @PEnv.adv_lt env
  have hme := @PEnv.mustEat_ok_kind env
  have h1 : ∀ i, (env.peek i).kind = ")" → i < env.toks.size :=
    fun i h => env.peek_lt_of_kind (by decide) h
  have h4 : ∀ i, (env.peek i).kind = ":" → i < env.toks.size :=
    fun i h => env.peek_lt_of_kind (by decide) h
  have h5 : ∀ i, (env.peek i).kind = "," → i < env.toks.size :=
    fun i h => env.peek_lt_of_kind (by decide) h
  have h7 : ∀ i, (env.peek i).kind = "<sym>" → i < env.toks.size :=
    fun i h => env.peek_lt_of_kind (by decide) h
  rw [pArgsC_succ]
  repeat' split
  all_goals grind

theorem cost_list {env : PEnv} {f : Nat} (ih : CostAt env f) (acc : List Expr) (i : Nat) :
    (∀ e c, pListC env (f + 1) acc i = (.error e, c) → c ≤ 2 * (env.toks.size - i) + 2) ∧
    (∀ x j c, pListC env (f + 1) acc i = (.ok (x, j), c) →
      i ≤ j ∧ c + 2 * (env.toks.size - j) ≤ 2 * (env.toks.size - i) + 1) := by
  have ihE := ih.exprC
  have ihL := ih.listC
  have hadv := env.adv_bounds
  have hadv' := @PEnv.adv_lt env
  have hme := @PEnv.mustEat_ok_kind env
  have h1 : ∀ i, (env.peek i).kind = ")" → i < env.toks.size :=
    fun i h => env.peek_lt_of_kind (by decide) h
  have h4 : ∀ i, (env.peek i).kind = ":" → i < env.toks.size :=
    fun i h => env.peek_lt_of_kind (by decide) h
  have h5 : ∀ i, (env.peek i).kind = "," → i < env.toks.size :=
    fun i h => env.peek_lt_of_kind (by decide) h
  have h7 : ∀ i, (env.peek i).kind = "<sym>" → i < env.toks.size :=
    fun i h => env.peek_lt_of_kind (by decide) h
  rw [pListC_succ]
  repeat' split
  all_goals grind

theorem cost_map {env : PEnv} {f : Nat} (ih : CostAt env f) (acc : List (Expr × Expr)) (i : Nat) :
    (∀ e c, pMapC env (f + 1) acc i = (.error e, c) → c ≤ 2 * (env.toks.size - i) + 2) ∧
    (∀ x j c, pMapC env (f + 1) acc i = (.ok (x, j), c) →
      i ≤ j ∧ c + 2 * (env.toks.size - j) ≤ 2 * (env.toks.size - i) + 1) := by
  have ihE := ih.exprC
  have ihM := ih.mapC
  have hadv := env.adv_bounds
  have hadv' := @PEnv.adv_lt env
  have hme := @PEnv.mustEat_ok_kind env
  have h1 : ∀ i, (env.peek i).kind = ")" → i < env.toks.size :=
    fun i h => env.peek_lt_of_kind (by decide) h
  have h4 : ∀ i, (env.peek i).kind = ":" → i < env.toks.size :=
    fun i h => env.peek_lt_of_kind (by decide) h
  have h5 : ∀ i, (env.peek i).kind = "," → i < env.toks.size :=
    fun i h => env.peek_lt_of_kind (by decide) h
  have h7 : ∀ i, (env.peek i).kind = "<sym>" → i < env.toks.size :=
    fun i h => env.peek_lt_of_kind (by decide) h
  rw [pMapC_succ]
  repeat' split
  all_goals grind

theorem cost_obj {env : PEnv} {f : Nat} (ih : CostAt env f) (acc : List (String × Expr))
    (i : Nat) :
    (∀ e c, pObjC env (f + 1) acc i = (.error e, c) → c ≤ 2 * (env.toks.size - i) + 2) ∧
    (∀ x j c, pObjC env (f + 1) acc i = (.ok (x, j), c) →
      i ≤ j ∧ c + 2 * (env.toks.size - j) ≤ 2 * (env.toks.size - i) + 1) := by
  have ihE := ih.exprC
  have ihO := ih.objC
  have hadv := env.adv_bounds
  have hadv' := @PEnv.adv_lt env
  have hme := @PEnv.mustEat_ok_kind env
  have h1 : ∀ i, (env.peek i).kind = ")" → i < env.toks.size :=
    fun i h => env.peek_lt_of_kind (by decide) h
  have h4 : ∀ i, (env.peek i).kind = ":" → i < env.toks.size :=
    fun i h => env.peek_lt_of_kind (by decide) h
  have h5 : ∀ i, (env.peek i).kind = "," → i < env.toks.size :=
    fun i h => env.peek_lt_of_kind (by decide) h
  have h7 : ∀ i, (env.peek i).kind = "<sym>" → i < env.toks.size :=
    fun i h => env.peek_lt_of_kind (by decide) h
  rw [pObjC_succ]
  repeat' split
  all_goals grind

theorem cost_succ {env : PEnv} (hE : env.NoEOF) {f : Nat} (ih : CostAt env f) :
    CostAt env (f + 1) :=
  ⟨cost_expr hE ih, cost_infix hE ih, cost_call ih, cost_args ih, cost_list ih, cost_map ih,
    cost_obj ih⟩

/-! ## the cursor stays inside `0 … n` -/

theorem PEnv.adv_le_size (env : PEnv) {i : Nat} (h : i ≤ env.toks.size) :
    env.adv i ≤ env.toks.size := by
  unfold PEnv.adv; split <;> omega

/-- a run that starts at a cursor `≤ n` returns at a cursor `≤ n` -/
structure InAt (env : PEnv) (f : Nat) : Prop where
  exprI : ∀ rbp i x j c, pExprC env f rbp i = (.ok (x, j), c) → i ≤ env.toks.size →
    j ≤ env.toks.size
  infixI : ∀ l rbp i x j c, pInfixC env f l rbp i = (.ok (x, j), c) → i ≤ env.toks.size →
    j ≤ env.toks.size
  callI : ∀ cl t i x j c, pCallC env f cl t i = (.ok (x, j), c) → i ≤ env.toks.size →
    j ≤ env.toks.size
  argsI : ∀ acc i x j c, pArgsC env f acc i = (.ok (x, j), c) → i ≤ env.toks.size →
    j ≤ env.toks.size
  listI : ∀ acc i x j c, pListC env f acc i = (.ok (x, j), c) → i ≤ env.toks.size →
    j ≤ env.toks.size
  mapI : ∀ acc i x j c, pMapC env f acc i = (.ok (x, j), c) → i ≤ env.toks.size →
    j ≤ env.toks.size
  objI : ∀ acc i x j c, pObjC env f acc i = (.ok (x, j), c) → i ≤ env.toks.size →
    j ≤ env.toks.size

theorem in_nud {env : PEnv} {f : Nat} (ih : InAt env f) (t : Token) (i : Nat) (bp : BP)
    (nud : Nud) : ∀ x j c, nudResC env f t i bp nud = (.ok (x, j), c) → i ≤ env.toks.size →
    j ≤ env.toks.size := by
  have ihE := ih.exprI
  have ihL := ih.listI
  have ihM := ih.mapI
  have ihO := ih.objI
  have hadv := @PEnv.adv_le_size env
  have hme := @PEnv.mustEat_ok env
  unfold nudResC
  cases nud <;> simp only []
  all_goals (repeat' split)
  all_goals grind

theorem in_led {env : PEnv} {f : Nat} (ih : InAt env f) (left : Expr) (t : Token) (i : Nat)
    (bp : BP) (led : Led) : ∀ x j c, ledResC env f left t i bp led = (.ok (x, j), c) →
    i ≤ env.toks.size → j ≤ env.toks.size := by
  have ihE := ih.exprI
  have ihC := ih.callI
  have hadv := @PEnv.adv_le_size env
  have hme := @PEnv.mustEat_ok env
  unfold ledResC
  cases led <;> simp only []
  all_goals (repeat' split)
  all_goals grind

theorem in_succ {env : PEnv} {f : Nat} (ih : InAt env f) : InAt env (f + 1) := by
  have ihE := ih.exprI
  have ihI := ih.infixI
  have ihA := ih.argsI
  have ihL := ih.listI
  have ihM := ih.mapI
  have ihO := ih.objI
  have hadv := @PEnv.adv_le_size env
  have hme := @PEnv.mustEat_ok env
  refine ⟨?_, ?_, ?_, ?_, ?_, ?_, ?_⟩
  · intro rbp i
    rw [pExprC_succ]
    have hN := in_nud ih (env.peek i) (env.adv i)
    repeat' split
    all_goals grind
  · intro l rbp i
    rw [pInfixC_succ]
    have hL := in_led ih l (env.peek i) (env.adv i)
    repeat' split
    all_goals grind
  · intro cl t i
    rw [pCallC_succ]
    repeat' split
    all_goals grind
  · intro acc i
    rw [pArgsC_succ]
    repeat' split
    all_goals grind
  · intro acc i
    rw [pListC_succ]
    repeat' split
    all_goals grind
  · intro acc i
    rw [pMapC_succ]
    repeat' split
    all_goals grind
  · intro acc i
    rw [pObjC_succ]
    repeat' split
    all_goals grind

theorem in_all (env : PEnv) (f : Nat) : InAt env f := by
  induction f with
  | zero =>
    refine ⟨?_, ?_, ?_, ?_, ?_, ?_, ?_⟩ <;> intros <;> rename_i h _ <;> cases h
  | succ f ih => exact in_succ ih

/-- the same for the model function (through erasure) -/
theorem pExpr_cursor_le (env : PEnv) {f : Nat} {rbp : BP} {i : Nat} {e : Expr} {j : Nat}
    (h : pExpr env f rbp i = .ok (e, j)) (hi : i ≤ env.toks.size) : j ≤ env.toks.size := by
  rw [(erase_all env f).exprE] at h
  exact (in_all env f).exprI rbp i e j (pExprC env f rbp i).2 (Prod.ext h rfl) hi

/-! ## all fuels, and the top level -/

theorem cost_all {env : PEnv} (hE : env.NoEOF) (f : Nat) : CostAt env f := by
  induction f with
  | zero =>
    refine ⟨?_, ?_, ?_, ?_, ?_, ?_, ?_⟩ <;> intros <;> refine ⟨?_, ?_⟩ <;> intros <;>
      rename_i h <;> cases h <;> omega
  | succ f ih => exact cost_succ hE ih

/-- `pExpr` from cursor `i`, any fuel, any outcome: at most `2 * (tokens left) + 1` calls; if it
returns at cursor `j` it has consumed `j - i ≥ 1` tokens and made at most `2 * (j - i)` calls. -/
theorem pExprC_calls {env : PEnv} (hE : env.NoEOF) (f : Nat) (rbp : BP) (i : Nat) :
    (pExprC env f rbp i).2 ≤ 2 * (env.toks.size - i) + 1 ∧
    ∀ x j, (pExprC env f rbp i).1 = .ok (x, j) →
      i < j ∧ j ≤ env.toks.size ∧ (pExprC env f rbp i).2 ≤ 2 * (j - i) := by
  have hc := (cost_all hE f).exprC rbp i
  have hi := (in_all env f).exprI rbp i
  generalize pExprC env f rbp i = r at hc hi
  obtain ⟨r, c⟩ := r
  cases r with
  | error e =>
    refine ⟨hc.1 e c rfl, ?_⟩
    intro x j h; cases h
  | ok v =>
    obtain ⟨x, j⟩ := v
    have h := hc.2 x j c rfl
    have hj := hi x j c rfl (by omega)
    refine ⟨by simp only; omega, ?_⟩
    intro x' j' h'
    cases h'
    exact ⟨h.2.1, hj, by simp only; omega⟩

/-- `parseWith`, any fuel, any outcome: at most `2 * #tokens + 1` calls; `2 * #tokens` when it
succeeds. -/
theorem parseWithC_calls {ops : List Operator} (hops : ∀ o ∈ ops, o.kind ≠ tkEOF)
    (times : List (String × Int)) (toks : List Token) (fuel : Nat) :
    (parseWithC fuel ops times toks).2 ≤ 2 * toks.length + 1 ∧
    ∀ e, (parseWithC fuel ops times toks).1 = .ok e →
      (parseWithC fuel ops times toks).2 ≤ 2 * toks.length := by
  have hE : PEnv.NoEOF { g := newGrammar ops, toks := toks.toArray, times := times } :=
    newGrammar_noEOF hops
  have h := pExprC_calls hE fuel 0 0
  have hsz : ({ g := newGrammar ops, toks := toks.toArray, times := times } : PEnv).toks.size
      = toks.length := by simp
  rw [hsz] at h
  unfold parseWithC
  simp only
  generalize pExprC _ fuel 0 0 = r at h
  obtain ⟨r, c⟩ := r
  cases r with
  | error e => exact ⟨by simpa using h.1, by intro e h; cases h⟩
  | ok v =>
    obtain ⟨x, j⟩ := v
    have h2 := h.2 x j rfl
    simp only at h2 ⊢
    split <;> exact ⟨by simp only; omega, by intro _ _; simp only; omega⟩

end Yae
