/-
  Erasure for the instrumented parser (`Yae/Spec/ParseCost.lean`): dropping the counter from
  `pExprC`, `pInfixC`, `pCallC`, `pArgsC`, `pListC`, `pMapC`, `pObjC` gives exactly the model
  functions `pExpr`, … (`erase_all`), for every environment, fuel and argument; hence
  `parseWithC` / `parseC` are `parseWith` / `parse` plus a counter.

  As in `Yae/Proofs/Parse.lean` the bodies of `pExprC` and `pInfixC` are cut into their `nud` and
  `led` halves (`nudResC`, `ledResC`: verbatim the sub-terms of the definitions, the unfolding
  lemmas hold by `rfl`).
-/
import Yae.Spec.ParseCost
import Yae.Proofs.ParseMono
namespace Yae

/-- the `nud` half of `pExprC` (the sub-term `left`) -/
def nudResC (env : PEnv) (f : Nat) (t : Token) (i : Nat) (bp : BP) (nud : Nud) : PResC Expr :=
match nud with
| .ident => (.ok (.ident t.pos t.lexeme, i), 0)
| .true_ => (.ok (.bool t.pos true, i), 0)
| .false_ => (.ok (.bool t.pos false, i), 0)
| .num =>
  match Num.parseNumLit t.lexeme with
  | some v => (.ok (.num t.pos v, i), 0)
  | none => (.error .syntax, 0)
| .str =>
  match Num.unquote t.lexeme with
  | some v => (.ok (.str t.pos v, i), 0)
  | none => (.error .syntax, 0)
| .time =>
  match env.timeLit t with
  | .ok e => (.ok (e, i), 0)
  | .error e => (.error e, 0)
| .group =>
  match pExprC env f 0 i with
  | (.error e, c) => (.error e, c)
  | (.ok (e, i), c) =>
    match env.mustEat ")" i with
    | .error e => (.error e, c)
    | .ok (rp, i) =>
      match Pos.range t.pos rp.pos with
      | .error e => (.error e, c)
      | .ok rg => (.ok (.group rg e, i), c)
| .unaryPrefix =>
  match pExprC env f bp i with
  | (.error e, c) => (.error e, c)
  | (.ok (e, i), c) =>
    match Pos.range t.pos e.pos with
    | .error e => (.error e, c)
    | .ok rg => (.ok (.unary rg t.lexeme t.pos e true, i), c)
| .listMap =>
  if (env.peek i).kind == ":" then
    match env.mustEat "]" (env.adv i) with
    | .error e => (.error e, 0)
    | .ok (rb, i) =>
      match Pos.range t.pos rb.pos with
      | .error e => (.error e, 0)
      | .ok rg => (.ok (.map rg .nil none, i), 0)
  else
    if (env.peek i).kind == "]" then
      match env.mustEat "]" i with
      | .error e => (.error e, 0)
      | .ok (rb, i) =>
        match Pos.range t.pos rb.pos with
        | .error e => (.error e, 0)
        | .ok rg => (.ok (.list rg .nil none, i), 0)
    else
      match pExprC env f 0 i with
      | (.error e, c) => (.error e, c)
      | (.ok (fst, i), c) =>
        if (env.peek i).kind == ":" then
          match pExprC env f 0 (env.adv i) with
          | (.error e, c₂) => (.error e, c + c₂)
          | (.ok (v, i), c₂) =>
            let rest : PResC (List (Expr × Expr)) :=
              if (env.peek i).kind == "," then pMapC env f [(fst, v)] (env.adv i)
              else (.ok ([(fst, v)], i), 0)
            match rest with
            | (.error e, c₃) => (.error e, c + c₂ + c₃)
            | (.ok (ps, i), c₃) =>
              match env.mustEat "]" i with
              | .error e => (.error e, c + c₂ + c₃)
              | .ok (rb, i) =>
                match Pos.range t.pos rb.pos with
                | .error e => (.error e, c + c₂ + c₃)
                | .ok rg =>
                  (.ok (.map rg (PairList.ofList ps.reverse) none, i), c + c₂ + c₃)
        else
          let rest : PResC (List Expr) :=
            if (env.peek i).kind == "," then pListC env f [fst] (env.adv i)
            else (.ok ([fst], i), 0)
          match rest with
          | (.error e, c₂) => (.error e, c + c₂)
          | (.ok (els, i), c₂) =>
            match env.mustEat "]" i with
            | .error e => (.error e, c + c₂)
            | .ok (rb, i) =>
              match Pos.range t.pos rb.pos with
              | .error e => (.error e, c + c₂)
              | .ok rg => (.ok (.list rg (ExprList.ofList els.reverse) none, i), c + c₂)
| .obj =>
  match pObjC env f [] i with
  | (.error e, c) => (.error e, c)
  | (.ok (fs, i), c) =>
    match env.mustEat "}" i with
    | .error e => (.error e, c)
    | .ok (rb, i) =>
      match Pos.range t.pos rb.pos with
      | .error e => (.error e, c)
      | .ok rg => (.ok (.obj rg (FieldEList.ofList fs.reverse) none, i), c)

/-- the `led` half of `pInfixC` (the sub-term `res`) -/
def ledResC (env : PEnv) (f : Nat) (left : Expr) (t : Token) (i : Nat) (bp : BP) (led : Led) :
    PResC Expr :=
match led with
| .binaryL =>
  match pExprC env f bp i with
  | (.error e, c) => (.error e, c)
  | (.ok (rhs, i), c) =>
    match Pos.range left.pos rhs.pos with
    | .error e => (.error e, c)
    | .ok rg => (.ok (.binary rg t.lexeme t.pos fixInfixL left rhs, i), c)
| .binaryR =>
  match pExprC env f (bpPred bp) i with
  | (.error e, c) => (.error e, c)
  | (.ok (rhs, i), c) =>
    match Pos.range left.pos rhs.pos with
    | .error e => (.error e, c)
    | .ok rg => (.ok (.binary rg t.lexeme t.pos fixInfixR left rhs, i), c)
| .binaryN =>
  match pExprC env f bp i with
  | (.error e, c) => (.error e, c)
  | (.ok (rhs, i), c) =>
    match Pos.range left.pos rhs.pos with
    | .error e => (.error e, c)
    | .ok rg => (.ok (.binary rg t.lexeme t.pos fixInfixN left rhs, i), c)
| .unaryPostfix =>
  match Pos.range left.pos t.pos with
  | .error e => (.error e, 0)
  | .ok rg => (.ok (.unary rg t.lexeme t.pos left false, i), 0)
| .question =>
  match pExprC env f 0 i with
  | (.error e, c) => (.error e, c)
  | (.ok (m, i), c) =>
    match env.mustEat ":" i with
    | .error e => (.error e, c)
    | .ok (_, i) =>
      match pExprC env f (bpPred bp) i with
      | (.error e, c₂) => (.error e, c + c₂)
      | (.ok (r, i), c₂) =>
        match Pos.range left.pos r.pos with
        | .error e => (.error e, c + c₂)
        | .ok rg => (.ok (.ternary rg t.lexeme t.pos left m r, i), c + c₂)
| .call => pCallC env f left t i
| .dot =>
  let name := env.peek i
  let i := env.adv i
  match Pos.range left.pos name.pos with
  | .error e => (.error e, 0)
  | .ok rg =>
    let mem := Expr.member rg t.pos.col left name.lexeme name.pos none (-1)
    let lp := env.peek i
    if lp.kind == "(" then pCallC env f mem lp (env.adv i)
    else (.ok (mem, i), 0)
| .subscript =>
  match pExprC env f 0 i with
  | (.error e, c) => (.error e, c)
  | (.ok (ix, i), c) =>
    match env.mustEat "]" i with
    | .error e => (.error e, c)
    | .ok (rb, i) =>
      match Pos.range left.pos rb.pos with
      | .error e => (.error e, c)
      | .ok rg => (.ok (.subscript rg t.pos.col left ix none, i), c)
theorem pExprC_succ (env : PEnv) (f : Nat) (rbp : BP) (i : Nat) :
    pExprC env (f + 1) rbp i =
      match tableLookup (env.peek i).kind env.g.prefixs with
      | none => (.error .syntax, 1)
      | some (bp, nud) =>
        match nudResC env f (env.peek i) (env.adv i) bp nud with
        | (.error e, c) => (.error e, c + 1)
        | (.ok (left, j), c) =>
          ((pInfixC env f left rbp j).1, c + (pInfixC env f left rbp j).2 + 1) := rfl

theorem pInfixC_succ (env : PEnv) (f : Nat) (left : Expr) (rbp : BP) (i : Nat) :
    pInfixC env (f + 1) left rbp i =
      if env.g.infixLbp (env.peek i).kind > rbp then
        match tableLookup (env.peek i).kind env.g.infixs with
        | none => (.error .syntax, 1)
        | some (bp, led) =>
          match ledResC env f left (env.peek i) (env.adv i) bp led with
          | (.error e, c) => (.error e, c + 1)
          | (.ok (e, j), c) =>
            match infixNCheck e with
            | .error e => (.error e, c + 1)
            | .ok e => ((pInfixC env f e rbp j).1, c + (pInfixC env f e rbp j).2 + 1)
      else
        match infixNCheck left with
        | .error e => (.error e, 1)
        | .ok e => (.ok (e, i), 1) := rfl

theorem pCallC_succ (env : PEnv) (f : Nat) (callee : Expr) (t : Token) (i : Nat) :
    pCallC env (f + 1) callee t i =
      match (if (env.peek i).kind == ")" then (.ok ([], i), 0) else pArgsC env f [] i :
          PResC (List Expr)) with
      | (.error e, c) => (.error e, c + 1)
      | (.ok (as, i), c) =>
        match env.mustEat ")" i with
        | .error e => (.error e, c + 1)
        | .ok (rp, i) =>
          match Pos.range callee.pos rp.pos with
          | .error e => (.error e, c + 1)
          | .ok rg =>
            (.ok (.call rg t.pos.col callee (ExprList.ofList as.reverse) none "" (-1), i), c + 1) :=
  rfl

theorem pArgsC_succ (env : PEnv) (f : Nat) (acc : List Expr) (i : Nat) :
    pArgsC env (f + 1) acc i =
      match pExprC env f 0 i with
      | (.error e, c) => (.error e, c + 1)
      | (.ok (a, i), c) =>
        if (env.peek i).kind == "," then
          ((pArgsC env f (a :: acc) (env.adv i)).1, c + (pArgsC env f (a :: acc) (env.adv i)).2 + 1)
        else (.ok (a :: acc, i), c + 1) := rfl

theorem pListC_succ (env : PEnv) (f : Nat) (acc : List Expr) (i : Nat) :
    pListC env (f + 1) acc i =
      if (env.peek i).kind == "]" then (.ok (acc, i), 1)
      else
        match pExprC env f 0 i with
        | (.error e, c) => (.error e, c + 1)
        | (.ok (el, i), c) =>
          if (env.peek i).kind == "," then
            ((pListC env f (el :: acc) (env.adv i)).1,
              c + (pListC env f (el :: acc) (env.adv i)).2 + 1)
          else (.ok (el :: acc, i), c + 1) := rfl

theorem pMapC_succ (env : PEnv) (f : Nat) (acc : List (Expr × Expr)) (i : Nat) :
    pMapC env (f + 1) acc i =
      if (env.peek i).kind == "]" then (.ok (acc, i), 1)
      else
        match pExprC env f 0 i with
        | (.error e, c) => (.error e, c + 1)
        | (.ok (k, i), c) =>
          match env.mustEat ":" i with
          | .error e => (.error e, c + 1)
          | .ok (_, i) =>
            match pExprC env f 0 i with
            | (.error e, c₂) => (.error e, c + c₂ + 1)
            | (.ok (v, i), c₂) =>
              if (env.peek i).kind == "," then
                ((pMapC env f ((k, v) :: acc) (env.adv i)).1,
                  c + c₂ + (pMapC env f ((k, v) :: acc) (env.adv i)).2 + 1)
              else (.ok ((k, v) :: acc, i), c + c₂ + 1) := rfl

theorem pObjC_succ (env : PEnv) (f : Nat) (acc : List (String × Expr)) (i : Nat) :
    pObjC env (f + 1) acc i =
      if (env.peek i).kind == "}" then (.ok (acc, i), 1)
      else
        match env.mustEat "<sym>" i with
        | .error e => (.error e, 1)
        | .ok (n, i) =>
          match env.mustEat ":" i with
          | .error e => (.error e, 1)
          | .ok (_, i) =>
            match pExprC env f 0 i with
            | (.error e, c) => (.error e, c + 1)
            | (.ok (v, i), c) =>
              if (env.peek i).kind == "," then
                ((pObjC env f ((n.lexeme, v) :: acc) (env.adv i)).1,
                  c + (pObjC env f ((n.lexeme, v) :: acc) (env.adv i)).2 + 1)
              else (.ok ((n.lexeme, v) :: acc, i), c + 1) := rfl

/-- the seven erasure statements at fuel `f` -/
structure EraseAt (env : PEnv) (f : Nat) : Prop where
  exprE : ∀ rbp i, pExpr env f rbp i = (pExprC env f rbp i).1
  infixE : ∀ l rbp i, pInfix env f l rbp i = (pInfixC env f l rbp i).1
  callE : ∀ c t i, pCall env f c t i = (pCallC env f c t i).1
  argsE : ∀ acc i, pArgs env f acc i = (pArgsC env f acc i).1
  listE : ∀ acc i, pList env f acc i = (pListC env f acc i).1
  mapE : ∀ acc i, pMap env f acc i = (pMapC env f acc i).1
  objE : ∀ acc i, pObj env f acc i = (pObjC env f acc i).1

theorem erase_nud {env : PEnv} {f : Nat} (ih : EraseAt env f) (t : Token) (i : Nat) (bp : BP)
    (nud : Nud) : nudRes env f t i bp nud = (nudResC env f t i bp nud).1 := by
  unfold nudRes nudResC
  cases nud <;> simp only [ih.exprE, ih.listE, ih.mapE, ih.objE]
  all_goals (repeat' split)
  all_goals grind

theorem erase_led {env : PEnv} {f : Nat} (ih : EraseAt env f) (left : Expr) (t : Token) (i : Nat)
    (bp : BP) (led : Led) : ledRes env f left t i bp led = (ledResC env f left t i bp led).1 := by
  unfold ledRes ledResC
  cases led <;> simp only [ih.exprE, ih.callE]
  all_goals (repeat' split)
  all_goals grind

theorem erase_succ {env : PEnv} {f : Nat} (ih : EraseAt env f) : EraseAt env (f + 1) := by
  refine ⟨?_, ?_, ?_, ?_, ?_, ?_, ?_⟩
  · intro rbp i
    rw [pExpr_succ, pExprC_succ]
    simp only [erase_nud ih, ih.infixE]
    repeat' split
    all_goals grind
  · intro l rbp i
    rw [pInfix_succ, pInfixC_succ]
    simp only [erase_led ih, ih.infixE]
    repeat' split
    all_goals grind
  · intro c t i
    rw [pCall_succ, pCallC_succ]
    simp only [ih.argsE]
    repeat' split
    all_goals grind
  · intro acc i
    rw [pArgs_succ, pArgsC_succ]
    simp only [ih.exprE, ih.argsE]
    repeat' split
    all_goals grind
  · intro acc i
    rw [pList_succ, pListC_succ]
    simp only [ih.exprE, ih.listE]
    repeat' split
    all_goals grind
  · intro acc i
    rw [pMap_succ, pMapC_succ]
    simp only [ih.exprE, ih.mapE]
    repeat' split
    all_goals grind
  · intro acc i
    rw [pObj_succ, pObjC_succ]
    simp only [ih.exprE, ih.objE]
    repeat' split
    all_goals grind

/-- ERASURE: at every fuel, each instrumented function is the model function plus a counter. -/
theorem erase_all (env : PEnv) (f : Nat) : EraseAt env f := by
  induction f with
  | zero => exact ⟨fun _ _ => rfl, fun _ _ _ => rfl, fun _ _ _ => rfl, fun _ _ => rfl,
      fun _ _ => rfl, fun _ _ => rfl, fun _ _ => rfl⟩
  | succ f ih => exact erase_succ ih

theorem parseWithC_erase (fuel : Nat) (ops : List Operator) (times : List (String × Int))
    (toks : List Token) : (parseWithC fuel ops times toks).1 = parseWith fuel ops times toks := by
  unfold parseWithC parseWith
  simp only [(erase_all _ _).exprE]
  repeat' split
  all_goals grind

theorem parseC_erase (ops : List Operator) (times : List (String × Int)) (toks : List Token) :
    (parseC ops times toks).1 = parse ops times toks :=
  parseWithC_erase _ ops times toks

end Yae
