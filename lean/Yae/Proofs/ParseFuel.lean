/-
  `parse` never runs out of fuel (C12): with no `<END-OF-FILE>` entry in the grammar every call
  of `pExpr` consumes a token, every round of the loops consumes a token, so the depth of the
  call chain is bounded by `4 * (number of remaining tokens) + c`.
-/
import Yae.Proofs.Parse
import Yae.Proofs.LexRules
namespace Yae

/-- neither table has an entry for the kind `<END-OF-FILE>` -/
def PEnv.NoEOF (env : PEnv) : Prop :=
  tableLookup tkEOF env.g.prefixs = none ∧ tableLookup tkEOF env.g.infixs = none

theorem PEnv.peek_ge (env : PEnv) {i : Nat} (h : env.toks.size ≤ i) : (env.peek i).kind = tkEOF := by
  unfold PEnv.peek
  rw [dif_neg (by omega)]; rfl

theorem PEnv.adv_lt (env : PEnv) {i : Nat} (h : i < env.toks.size) : env.adv i = i + 1 := by
  simp [PEnv.adv, h]

theorem PEnv.adv_bounds (env : PEnv) (i : Nat) : i ≤ env.adv i ∧ env.adv i ≤ i + 1 := by
  unfold PEnv.adv; split <;> omega

theorem PEnv.mustEat_ok {env : PEnv} {k : String} {i : Nat} {t : Token} {j : Nat}
    (h : env.mustEat k i = .ok (t, j)) : j = env.adv i := by
  unfold PEnv.mustEat at h
  simp only at h
  split at h
  · cases h; rfl
  · cases h

theorem PEnv.mustEat_err {env : PEnv} {k : String} {i : Nat} {e : ParseErr}
    (h : env.mustEat k i = .error e) : e = .syntax := by
  unfold PEnv.mustEat at h
  simp only at h
  split at h
  · cases h
  · cases h; rfl

theorem range_err {a b : Pos} {e : ParseErr} (h : Pos.range a b = .error e) : e = .syntax := by
  unfold Pos.range at h
  split at h
  · cases h
  · cases h; rfl

theorem infixNCheck_err {x : Expr} {e : ParseErr} (h : infixNCheck x = .error e) : e = .syntax := by
  unfold infixNCheck at h
  split at h
  · split at h
    · simp only at h
      generalize (_ || _) = b at h
      cases b
      · simp at h
      · simp at h; exact h.symm
    · cases h
  · cases h

theorem PEnv.timeLit_err {env : PEnv} {t : Token} {e : ParseErr} (h : env.timeLit t = .error e) :
    e ≠ .fuel := by
  unfold PEnv.timeLit at h
  simp only at h
  repeat' split at h
  all_goals (cases h; try simp)

/-- the seven statements at fuel `f`; `n` = number of tokens -/
structure FuelAt (env : PEnv) (f : Nat) : Prop where
  exprF : ∀ rbp i, 4 * (env.toks.size - i) + 1 ≤ f →
    pExpr env f rbp i ≠ .error .fuel ∧
    ∀ e j, pExpr env f rbp i = .ok (e, j) → i < env.toks.size ∧ i < j
  infixF : ∀ left rbp i, 4 * (env.toks.size - i) + 1 ≤ f →
    pInfix env f left rbp i ≠ .error .fuel ∧ ∀ e j, pInfix env f left rbp i = .ok (e, j) → i ≤ j
  callF : ∀ c t i, 4 * (env.toks.size - i) + 3 ≤ f →
    pCall env f c t i ≠ .error .fuel ∧ ∀ e j, pCall env f c t i = .ok (e, j) → i ≤ j
  argsF : ∀ acc i, 4 * (env.toks.size - i) + 2 ≤ f →
    pArgs env f acc i ≠ .error .fuel ∧ ∀ e j, pArgs env f acc i = .ok (e, j) → i ≤ j
  listF : ∀ acc i, 4 * (env.toks.size - i) + 2 ≤ f →
    pList env f acc i ≠ .error .fuel ∧ ∀ e j, pList env f acc i = .ok (e, j) → i ≤ j
  mapF : ∀ acc i, 4 * (env.toks.size - i) + 2 ≤ f →
    pMap env f acc i ≠ .error .fuel ∧ ∀ e j, pMap env f acc i = .ok (e, j) → i ≤ j
  objF : ∀ acc i, 4 * (env.toks.size - i) + 2 ≤ f →
    pObj env f acc i ≠ .error .fuel ∧ ∀ e j, pObj env f acc i = .ok (e, j) → i ≤ j

theorem fuel_nud {env : PEnv} {f : Nat} (ih : FuelAt env f) (t : Token) (i : Nat) (bp : BP)
    (nud : Nud) (hf : 4 * (env.toks.size - i) + 4 ≤ f) :
    nudRes env f t i bp nud ≠ .error .fuel ∧
    ∀ e j, nudRes env f t i bp nud = .ok (e, j) → i ≤ j := by
  have ihE := ih.exprF
  have ihL := ih.listF
  have ihM := ih.mapF
  have ihO := ih.objF
  have hadv := env.adv_bounds
  have hme := @PEnv.mustEat_ok env
  have hme' := @PEnv.mustEat_err env
  have hre := @range_err
  have hte := @PEnv.timeLit_err env
  unfold nudRes
  cases nud <;> simp only []
  all_goals (repeat' split)
  all_goals grind

theorem fuel_led {env : PEnv} {f : Nat} (ih : FuelAt env f) (left : Expr) (t : Token) (i : Nat)
    (bp : BP) (led : Led) (hf : 4 * (env.toks.size - i) + 4 ≤ f) :
    ledRes env f left t i bp led ≠ .error .fuel ∧
    ∀ e j, ledRes env f left t i bp led = .ok (e, j) → i ≤ j := by
  have ihE := ih.exprF
  have ihC := ih.callF
  have hadv := env.adv_bounds
  have hme := @PEnv.mustEat_ok env
  have hme' := @PEnv.mustEat_err env
  have hre := @range_err
  unfold ledRes
  cases led <;> simp only []
  all_goals (repeat' split)
  all_goals grind

theorem fuel_succ {env : PEnv} (hE : env.NoEOF) {f : Nat} (ih : FuelAt env f) :
    FuelAt env (f + 1) := by
  have ihE := ih.exprF
  have ihI := ih.infixF
  have ihA := ih.argsF
  have ihL := ih.listF
  have ihM := ih.mapF
  have ihO := ih.objF
  have hadv := env.adv_bounds
  have hadv' := @PEnv.adv_lt env
  have hpk := @PEnv.peek_ge env
  have hme := @PEnv.mustEat_ok env
  have hme' := @PEnv.mustEat_err env
  have hre := @range_err
  have hce := @infixNCheck_err
  obtain ⟨hE1, hE2⟩ := hE
  refine ⟨?_, ?_, ?_, ?_, ?_, ?_, ?_⟩
  · intro rbp i hf
    rw [pExpr_succ]
    by_cases hi : i < env.toks.size
    · have hN := fuel_nud ih (env.peek i) (env.adv i)
      repeat' split
      all_goals grind
    · rw [hpk (by omega), hE1]
      simp
  · intro left rbp i hf
    rw [pInfix_succ]
    by_cases hi : i < env.toks.size
    · have hL := fuel_led ih left (env.peek i) (env.adv i)
      have hK := @infixNCheck_ok
      repeat' split
      all_goals grind
    · rw [hpk (by omega), hE2]
      have hK := @infixNCheck_ok
      repeat' split
      all_goals grind
  · intro c t i hf
    simp only [pCall]
    repeat' split
    all_goals grind
  · intro acc i hf
    simp only [pArgs]
    repeat' split
    all_goals grind
  · intro acc i hf
    simp only [pList]
    repeat' split
    all_goals grind
  · intro acc i hf
    simp only [pMap]
    repeat' split
    all_goals grind
  · intro acc i hf
    simp only [pObj]
    repeat' split
    all_goals grind

theorem fuel_all {env : PEnv} (hE : env.NoEOF) (f : Nat) : FuelAt env f := by
  induction f with
  | zero => refine ⟨?_, ?_, ?_, ?_, ?_, ?_, ?_⟩ <;> intros <;> omega
  | succ f ih => exact fuel_succ hE ih

/-! ## the grammar of an operator table without `<END-OF-FILE>` -/

theorem addOp_lookup {k : String} (g : Grammar) (op : Operator) (hk : op.kind ≠ k)
    (h1 : tableLookup k g.prefixs = none) (h2 : tableLookup k g.infixs = none) :
    tableLookup k (g.addOp op).prefixs = none ∧ tableLookup k (g.addOp op).infixs = none := by
  have hb : (op.kind == k) = false := by simpa using hk
  unfold Grammar.addOp
  repeat' split
  all_goals simp [Grammar.prefix, Grammar.infix, tableLookup, hb, h1, h2]

theorem foldl_addOp_lookup {k : String} (l : List Operator) (g : Grammar)
    (hk : ∀ o ∈ l, o.kind ≠ k)
    (h1 : tableLookup k g.prefixs = none) (h2 : tableLookup k g.infixs = none) :
    tableLookup k (l.foldl Grammar.addOp g).prefixs = none ∧
    tableLookup k (l.foldl Grammar.addOp g).infixs = none := by
  induction l generalizing g with
  | nil => exact ⟨h1, h2⟩
  | cons o l ih =>
    have := addOp_lookup g o (hk o (by simp)) h1 h2
    exact ih _ (fun o' ho' => hk o' (by simp [ho'])) this.1 this.2

theorem newGrammar_noEOF {ops : List Operator} (hops : ∀ o ∈ ops, o.kind ≠ tkEOF) :
    tableLookup tkEOF (newGrammar ops).prefixs = none ∧
    tableLookup tkEOF (newGrammar ops).infixs = none := by
  have hs : ∀ o ∈ sortOps ops, o.kind ≠ tkEOF := by
    intro o ho
    exact hops o (mem_sortOps.mp ho)
  have := foldl_addOp_lookup (k := tkEOF) (sortOps ops)
    ((((((((((⟨[], []⟩ : Grammar).prefix "<sym>" bpNone .ident).prefix "true" bpNone .true_).prefix
      "false" bpNone .false_).prefix "<num>" bpNone .num).prefix "<str>" bpNone .str).prefix
      "<time>" bpNone .time).prefix "[" bpNone .listMap).prefix "{" bpNone .obj).prefix "("
      bpNone .group) hs (by decide) (by decide)
  unfold newGrammar
  simp only [Grammar.infix, Grammar.prefix] at this ⊢
  refine ⟨this.1, ?_⟩
  simp only [tableLookup, this.2]
  decide

/-- `parseWith` does not run out of fuel as soon as `fuel ≥ 4 * #tokens + 1`. -/
theorem parseWith_no_fuel {ops : List Operator} (hops : ∀ o ∈ ops, o.kind ≠ tkEOF)
    (times : List (String × Int)) (toks : List Token) {fuel : Nat}
    (hf : 4 * toks.length + 1 ≤ fuel) : parseWith fuel ops times toks ≠ .error .fuel := by
  have hE : PEnv.NoEOF { g := newGrammar ops, toks := toks.toArray, times := times } :=
    newGrammar_noEOF hops
  have h := (fuel_all hE fuel).exprF 0 0 (by simp; omega)
  have hme' := @PEnv.mustEat_err { g := newGrammar ops, toks := toks.toArray, times := times }
  unfold parseWith
  simp only
  repeat' split
  all_goals grind

end Yae
