/-
  The node-wise invariant of the parser: if `P` holds of every node as the parser builds it
  (`NodeOK P`), then `P` holds at every node of every tree the parser returns (`Expr.All P`).
  One induction on the fuel for the seven mutually recursive functions.
-/
import Yae.Proofs.Parse
namespace Yae

/-- the seven statements at fuel `f` -/
structure InvAt (P : Expr → Prop) (env : PEnv) (f : Nat) : Prop where
  exprI : ∀ rbp i e j, pExpr env f rbp i = .ok (e, j) → e.All P
  infixI : ∀ left rbp i e j, left.All P → pInfix env f left rbp i = .ok (e, j) → e.All P
  callI : ∀ callee t i e j, callee.All P → pCall env f callee t i = .ok (e, j) → e.All P
  argsI : ∀ acc i as j, (∀ a ∈ acc, a.All P) → pArgs env f acc i = .ok (as, j) → ∀ a ∈ as, a.All P
  listI : ∀ acc i as j, (∀ a ∈ acc, a.All P) → pList env f acc i = .ok (as, j) → ∀ a ∈ as, a.All P
  mapI : ∀ acc i ps j, (∀ k v, (k, v) ∈ acc → k.All P ∧ v.All P) → pMap env f acc i = .ok (ps, j) →
    ∀ k v, (k, v) ∈ ps → k.All P ∧ v.All P
  objI : ∀ acc i fs j, (∀ n v, (n, v) ∈ acc → v.All P) → pObj env f acc i = .ok (fs, j) →
    ∀ n v, (n, v) ∈ fs → v.All P

theorem nudRes_inv {P : Expr → Prop} (C : NodeOK P) (env : PEnv) {f : Nat} (ih : InvAt P env f)
    (t : Token) (i : Nat) (bp : BP) (nud : Nud)
    (e : Expr) (j : Nat) (h : nudRes env f t i bp nud = .ok (e, j)) : e.All P := by
  have ihE := ih.exprI
  have ihL := ih.listI
  have ihM := ih.mapI
  have ihO := ih.objI
  obtain ⟨c1, c2, c3, c4, c5, c6, c7, c8, c9, c10, c11, c12, c13, c14, c15, c16⟩ := C
  unfold nudRes at h
  cases nud <;> simp only [] at h
  case time =>
    split at h
    · rename_i e' he
      obtain ⟨v, rfl⟩ := timeLit_ok he
      cases h; exact c5 _ _
    · cases h
  case ident => cases h; exact c1 _ _
  case true_ => cases h; exact c2 _ _
  case false_ => cases h; exact c2 _ _
  case num => split at h <;> cases h; exact c3 _ _
  case str => split at h <;> cases h; exact c4 _ _
  case group =>
    repeat' split at h
    all_goals grind [Expr.All]
  case unaryPrefix =>
    repeat' split at h
    all_goals grind [Expr.All]
  case obj =>
    repeat' split at h
    all_goals grind [Expr.All, allFields_ofList]
  case listMap =>
    repeat' split at h
    all_goals grind [Expr.All, allList_ofList, allPairs_ofList, allList, allPairs]

/-- the `led` half: the node built satisfies `All P` once `infixNCheck` has passed -/
theorem ledRes_inv {P : Expr → Prop} (C : NodeOK P) (env : PEnv) {f : Nat} (ih : InvAt P env f)
    (left : Expr) (t : Token) (i : Nat) (bp : BP) (led : Led) (hl : left.All P)
    (e : Expr) (j : Nat) (h : ledRes env f left t i bp led = .ok (e, j))
    (hc : infixNCheck e = .ok e) : e.All P := by
  have ihE := ih.exprI
  have ihC := ih.callI
  obtain ⟨c1, c2, c3, c4, c5, c6, c7, c8, c9, c10, c11, c12, c13, c14, c15, c16⟩ := C
  unfold ledRes at h
  cases led <;> simp only [] at h
  case call => exact ihC _ _ _ _ _ hl h
  all_goals (repeat' split at h)
  all_goals grind [Expr.All]

theorem inv_succ {P : Expr → Prop} (C : NodeOK P) (env : PEnv) {f : Nat} (ih : InvAt P env f) :
    InvAt P env (f + 1) := by
  have ihE := ih.exprI
  have ihI := ih.infixI
  have ihA := ih.argsI
  have ihL := ih.listI
  have ihM := ih.mapI
  have ihO := ih.objI
  refine ⟨?_, ?_, ?_, ?_, ?_, ?_, ?_⟩
  · intro rbp i e j h
    rw [pExpr_succ] at h
    repeat' split at h
    · cases h
    · cases h
    · rename_i hn
      exact ihI _ _ _ _ _ (nudRes_inv C env ih _ _ _ _ _ _ hn) h
  · intro left rbp i e j hl h
    rw [pInfix_succ] at h
    have hL := ledRes_inv C env ih
    have hK := @infixNCheck_ok
    repeat' split at h
    all_goals grind
  · intro callee t i e j hc h
    have c14 := @NodeOK.call P C
    simp only [pCall] at h
    repeat' split at h
    all_goals grind [Expr.All, allList_ofList]
  · intro acc i as j hacc h
    simp only [pArgs] at h
    grind
  · intro acc i as j hacc h
    simp only [pList] at h
    grind
  · intro acc i as j hacc h
    simp only [pMap] at h
    repeat' split at h
    all_goals grind
  · intro acc i as j hacc h
    simp only [pObj] at h
    repeat' split at h
    all_goals grind

theorem inv_all {P : Expr → Prop} (C : NodeOK P) (env : PEnv) (f : Nat) : InvAt P env f := by
  induction f with
  | zero =>
    refine ⟨?_, ?_, ?_, ?_, ?_, ?_, ?_⟩ <;> intros <;>
      simp_all [pExpr, pInfix, pCall, pArgs, pList, pMap, pObj]
  | succ f ih => exact inv_succ C env ih

/-- Every tree returned by `parseWith` (any fuel) has `P` at every node. -/
theorem parseWith_all {P : Expr → Prop} (C : NodeOK P) {fuel : Nat} {ops : List Operator}
    {times : List (String × Int)} {toks : List Token} {t : Expr}
    (h : parseWith fuel ops times toks = .ok t) : t.All P := by
  unfold parseWith at h
  simp only at h
  have hE := (inv_all C { g := newGrammar ops, toks := toks.toArray, times := times } fuel).exprI
  repeat' split at h
  all_goals grind

end Yae
