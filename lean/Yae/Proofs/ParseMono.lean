/-
  More fuel does not change a result other than "out of fuel": for each of the seven parser
  functions, `pX env f … ≠ .error .fuel → pX env (f + 1) … = pX env f …`.
-/
import Yae.Proofs.Parse
namespace Yae

theorem pCall_succ (env : PEnv) (f : Nat) (callee : Expr) (t : Token) (i : Nat) :
    pCall env (f + 1) callee t i =
      match (if (env.peek i).kind == ")" then .ok ([], i) else pArgs env f [] i : PRes (List Expr)) with
      | .error e => .error e
      | .ok (as, i) =>
        match env.mustEat ")" i with
        | .error e => .error e
        | .ok (rp, i) =>
          match Pos.range callee.pos rp.pos with
          | .error e => .error e
          | .ok rg => .ok (.call rg t.pos.col callee (ExprList.ofList as.reverse) none "" (-1), i) := rfl

theorem pArgs_succ (env : PEnv) (f : Nat) (acc : List Expr) (i : Nat) :
    pArgs env (f + 1) acc i =
      match pExpr env f 0 i with
      | .error e => .error e
      | .ok (a, i) =>
        if (env.peek i).kind == "," then pArgs env f (a :: acc) (env.adv i)
        else .ok (a :: acc, i) := rfl

theorem pList_succ (env : PEnv) (f : Nat) (acc : List Expr) (i : Nat) :
    pList env (f + 1) acc i =
      if (env.peek i).kind == "]" then .ok (acc, i)
      else
        match pExpr env f 0 i with
        | .error e => .error e
        | .ok (el, i) =>
          if (env.peek i).kind == "," then pList env f (el :: acc) (env.adv i)
          else .ok (el :: acc, i) := rfl

theorem pMap_succ (env : PEnv) (f : Nat) (acc : List (Expr × Expr)) (i : Nat) :
    pMap env (f + 1) acc i =
      if (env.peek i).kind == "]" then .ok (acc, i)
      else
        match pExpr env f 0 i with
        | .error e => .error e
        | .ok (k, i) =>
          match env.mustEat ":" i with
          | .error e => .error e
          | .ok (_, i) =>
            match pExpr env f 0 i with
            | .error e => .error e
            | .ok (v, i) =>
              if (env.peek i).kind == "," then pMap env f ((k, v) :: acc) (env.adv i)
              else .ok ((k, v) :: acc, i) := rfl

theorem pObj_succ (env : PEnv) (f : Nat) (acc : List (String × Expr)) (i : Nat) :
    pObj env (f + 1) acc i =
      if (env.peek i).kind == "}" then .ok (acc, i)
      else
        match env.mustEat "<sym>" i with
        | .error e => .error e
        | .ok (n, i) =>
          match env.mustEat ":" i with
          | .error e => .error e
          | .ok (_, i) =>
            match pExpr env f 0 i with
            | .error e => .error e
            | .ok (v, i) =>
              if (env.peek i).kind == "," then pObj env f ((n.lexeme, v) :: acc) (env.adv i)
              else .ok ((n.lexeme, v) :: acc, i) := rfl

structure MonoAt (env : PEnv) (f : Nat) : Prop where
  exprM : ∀ rbp i, pExpr env f rbp i ≠ .error .fuel → pExpr env (f + 1) rbp i = pExpr env f rbp i
  infixM : ∀ l rbp i, pInfix env f l rbp i ≠ .error .fuel →
    pInfix env (f + 1) l rbp i = pInfix env f l rbp i
  callM : ∀ c t i, pCall env f c t i ≠ .error .fuel → pCall env (f + 1) c t i = pCall env f c t i
  argsM : ∀ acc i, pArgs env f acc i ≠ .error .fuel → pArgs env (f + 1) acc i = pArgs env f acc i
  listM : ∀ acc i, pList env f acc i ≠ .error .fuel → pList env (f + 1) acc i = pList env f acc i
  mapM : ∀ acc i, pMap env f acc i ≠ .error .fuel → pMap env (f + 1) acc i = pMap env f acc i
  objM : ∀ acc i, pObj env f acc i ≠ .error .fuel → pObj env (f + 1) acc i = pObj env f acc i

theorem MonoAt.exprOk {env : PEnv} {f : Nat} (ih : MonoAt env f) {rbp i r}
    (h : pExpr env f rbp i = .ok r) : pExpr env (f + 1) rbp i = .ok r := by
  rw [ih.exprM _ _ (by rw [h]; simp), h]
theorem MonoAt.exprErr {env : PEnv} {f : Nat} (ih : MonoAt env f) {rbp i e}
    (h : pExpr env f rbp i = .error e) (he : e ≠ .fuel) : pExpr env (f + 1) rbp i = .error e := by
  rw [ih.exprM _ _ (by rw [h]; (intro hh; cases hh; exact he rfl)), h]
theorem MonoAt.infixOk {env : PEnv} {f : Nat} (ih : MonoAt env f) {l rbp i r}
    (h : pInfix env f l rbp i = .ok r) : pInfix env (f + 1) l rbp i = .ok r := by
  rw [ih.infixM _ _ _ (by rw [h]; simp), h]
theorem MonoAt.infixErr {env : PEnv} {f : Nat} (ih : MonoAt env f) {l rbp i e}
    (h : pInfix env f l rbp i = .error e) (he : e ≠ .fuel) :
    pInfix env (f + 1) l rbp i = .error e := by
  rw [ih.infixM _ _ _ (by rw [h]; (intro hh; cases hh; exact he rfl)), h]
theorem MonoAt.callOk {env : PEnv} {f : Nat} (ih : MonoAt env f) {c t i r}
    (h : pCall env f c t i = .ok r) : pCall env (f + 1) c t i = .ok r := by
  rw [ih.callM _ _ _ (by rw [h]; simp), h]
theorem MonoAt.callErr {env : PEnv} {f : Nat} (ih : MonoAt env f) {c t i e}
    (h : pCall env f c t i = .error e) (he : e ≠ .fuel) : pCall env (f + 1) c t i = .error e := by
  rw [ih.callM _ _ _ (by rw [h]; (intro hh; cases hh; exact he rfl)), h]
theorem MonoAt.argsOk {env : PEnv} {f : Nat} (ih : MonoAt env f) {acc i r}
    (h : pArgs env f acc i = .ok r) : pArgs env (f + 1) acc i = .ok r := by
  rw [ih.argsM _ _ (by rw [h]; simp), h]
theorem MonoAt.argsErr {env : PEnv} {f : Nat} (ih : MonoAt env f) {acc i e}
    (h : pArgs env f acc i = .error e) (he : e ≠ .fuel) : pArgs env (f + 1) acc i = .error e := by
  rw [ih.argsM _ _ (by rw [h]; (intro hh; cases hh; exact he rfl)), h]
theorem MonoAt.listOk {env : PEnv} {f : Nat} (ih : MonoAt env f) {acc i r}
    (h : pList env f acc i = .ok r) : pList env (f + 1) acc i = .ok r := by
  rw [ih.listM _ _ (by rw [h]; simp), h]
theorem MonoAt.listErr {env : PEnv} {f : Nat} (ih : MonoAt env f) {acc i e}
    (h : pList env f acc i = .error e) (he : e ≠ .fuel) : pList env (f + 1) acc i = .error e := by
  rw [ih.listM _ _ (by rw [h]; (intro hh; cases hh; exact he rfl)), h]
theorem MonoAt.mapOk {env : PEnv} {f : Nat} (ih : MonoAt env f) {acc i r}
    (h : pMap env f acc i = .ok r) : pMap env (f + 1) acc i = .ok r := by
  rw [ih.mapM _ _ (by rw [h]; simp), h]
theorem MonoAt.mapErr {env : PEnv} {f : Nat} (ih : MonoAt env f) {acc i e}
    (h : pMap env f acc i = .error e) (he : e ≠ .fuel) : pMap env (f + 1) acc i = .error e := by
  rw [ih.mapM _ _ (by rw [h]; (intro hh; cases hh; exact he rfl)), h]
theorem MonoAt.objOk {env : PEnv} {f : Nat} (ih : MonoAt env f) {acc i r}
    (h : pObj env f acc i = .ok r) : pObj env (f + 1) acc i = .ok r := by
  rw [ih.objM _ _ (by rw [h]; simp), h]
theorem MonoAt.objErr {env : PEnv} {f : Nat} (ih : MonoAt env f) {acc i e}
    (h : pObj env f acc i = .error e) (he : e ≠ .fuel) : pObj env (f + 1) acc i = .error e := by
  rw [ih.objM _ _ (by rw [h]; (intro hh; cases hh; exact he rfl)), h]

theorem mono_nud {env : PEnv} {f : Nat} (ih : MonoAt env f) (t : Token) (i : Nat) (bp : BP)
    (nud : Nud) (r : PRes Expr) (h : nudRes env f t i bp nud = r) (hr : r ≠ .error .fuel) :
    nudRes env (f + 1) t i bp nud = r := by
  have ihE := @MonoAt.exprOk _ _ ih
  have ihE' := @MonoAt.exprErr _ _ ih
  have ihL := @MonoAt.listOk _ _ ih
  have ihL' := @MonoAt.listErr _ _ ih
  have ihM := @MonoAt.mapOk _ _ ih
  have ihM' := @MonoAt.mapErr _ _ ih
  have ihO := @MonoAt.objOk _ _ ih
  have ihO' := @MonoAt.objErr _ _ ih
  unfold nudRes at h
  cases nud <;> simp only [] at h
  all_goals (repeat' split at h)
  all_goals (subst h; simp only [nudRes])
  all_goals try (have he := fun (hh : _ = ParseErr.fuel) => hr (congrArg Except.error hh))
  all_goals grind

theorem mono_led {env : PEnv} {f : Nat} (ih : MonoAt env f) (l : Expr) (t : Token) (i : Nat)
    (bp : BP) (led : Led) (r : PRes Expr) (h : ledRes env f l t i bp led = r)
    (hr : r ≠ .error .fuel) : ledRes env (f + 1) l t i bp led = r := by
  have ihE := @MonoAt.exprOk _ _ ih
  have ihE' := @MonoAt.exprErr _ _ ih
  have ihC := ih.callM
  unfold ledRes at h
  cases led <;> simp only [] at h
  case call => subst h; simp only [ledRes]; exact ihC _ _ _ hr
  case dot =>
    repeat' split at h
    all_goals (subst h; simp only [ledRes])
    all_goals grind
  all_goals (repeat' split at h)
  all_goals (subst h; simp only [ledRes])
  all_goals try (have he := fun (hh : _ = ParseErr.fuel) => hr (congrArg Except.error hh))
  all_goals grind

theorem mono_succ {env : PEnv} {f : Nat} (ih : MonoAt env f) : MonoAt env (f + 1) := by
  have ihE := @MonoAt.exprOk _ _ ih
  have ihE' := @MonoAt.exprErr _ _ ih
  refine ⟨?_, ?_, ?_, ?_, ?_, ?_, ?_⟩
  · intro rbp i hr
    rw [pExpr_succ env (f + 1), pExpr_succ env f] at *
    split
    · rfl
    · rename_i bp nud hlk
      rw [hlk] at hr
      simp only at hr
      cases hn : nudRes env f (env.peek i) (env.adv i) bp nud with
      | error e =>
        rw [hn] at hr
        rw [mono_nud ih _ _ _ _ _ hn (by intro hh; cases hh; exact hr rfl)]
      | ok p =>
        obtain ⟨left, j⟩ := p
        rw [hn] at hr
        rw [mono_nud ih _ _ _ _ _ hn (by simp)]
        exact ih.infixM _ _ _ hr
  · intro l rbp i hr
    rw [pInfix_succ env (f + 1), pInfix_succ env f] at *
    split
    · rename_i hgt
      rw [if_pos hgt] at hr
      split
      · rfl
      · rename_i bp led hlk
        rw [hlk] at hr
        simp only at hr
        cases hn : ledRes env f l (env.peek i) (env.adv i) bp led with
        | error e =>
          rw [hn] at hr
          rw [mono_led ih _ _ _ _ _ _ hn (by intro hh; cases hh; exact hr rfl)]
        | ok p =>
          obtain ⟨e, j⟩ := p
          rw [hn] at hr
          rw [mono_led ih _ _ _ _ _ _ hn (by simp)]
          simp only at hr ⊢
          split
          · rfl
          · rename_i e2 hc
            rw [hc] at hr
            exact ih.infixM _ _ _ hr
    · rfl
  · intro c t i hr
    have ihA := @MonoAt.argsOk _ _ ih
    have ihA' := @MonoAt.argsErr _ _ ih
    generalize hres : pCall env (f + 1) c t i = r at hr
    rw [pCall_succ] at hres
    repeat' split at hres
    all_goals (subst hres; rw [pCall_succ])
    all_goals try (have he := fun (hh : _ = ParseErr.fuel) => hr (congrArg Except.error hh))
    all_goals grind
  · intro acc i hr
    have ihA := @MonoAt.argsOk _ _ ih
    have ihA' := @MonoAt.argsErr _ _ ih
    have ihA'' := ih.argsM
    generalize hres : pArgs env (f + 1) acc i = r at hr
    rw [pArgs_succ] at hres
    repeat' split at hres
    all_goals (subst hres; rw [pArgs_succ])
    all_goals try (have he := fun (hh : _ = ParseErr.fuel) => hr (congrArg Except.error hh))
    all_goals grind
  · intro acc i hr
    have ihA := @MonoAt.listOk _ _ ih
    have ihA' := @MonoAt.listErr _ _ ih
    have ihA'' := ih.listM
    generalize hres : pList env (f + 1) acc i = r at hr
    rw [pList_succ] at hres
    repeat' split at hres
    all_goals (subst hres; rw [pList_succ])
    all_goals try (have he := fun (hh : _ = ParseErr.fuel) => hr (congrArg Except.error hh))
    all_goals grind
  · intro acc i hr
    have ihA := @MonoAt.mapOk _ _ ih
    have ihA' := @MonoAt.mapErr _ _ ih
    have ihA'' := ih.mapM
    generalize hres : pMap env (f + 1) acc i = r at hr
    rw [pMap_succ] at hres
    repeat' split at hres
    all_goals (subst hres; rw [pMap_succ])
    all_goals try (have he := fun (hh : _ = ParseErr.fuel) => hr (congrArg Except.error hh))
    all_goals grind
  · intro acc i hr
    have ihA := @MonoAt.objOk _ _ ih
    have ihA' := @MonoAt.objErr _ _ ih
    have ihA'' := ih.objM
    generalize hres : pObj env (f + 1) acc i = r at hr
    rw [pObj_succ] at hres
    repeat' split at hres
    all_goals (subst hres; rw [pObj_succ])
    all_goals try (have he := fun (hh : _ = ParseErr.fuel) => hr (congrArg Except.error hh))
    all_goals grind

theorem mono_all (env : PEnv) (f : Nat) : MonoAt env f := by
  induction f with
  | zero =>
    refine ⟨?_, ?_, ?_, ?_, ?_, ?_, ?_⟩ <;> intros <;>
      simp_all [pExpr, pInfix, pCall, pArgs, pList, pMap, pObj]
  | succ f ih => exact mono_succ ih

theorem pExpr_mono {env : PEnv} {f f' : Nat} {rbp : BP} {i : Nat} {r : Expr × Nat}
    (h : pExpr env f rbp i = .ok r) (hf : f ≤ f') : pExpr env f' rbp i = .ok r := by
  induction hf with
  | refl => exact h
  | step _ ih => exact (mono_all env _).exprOk ih

theorem pInfix_mono {env : PEnv} {f f' : Nat} {l : Expr} {rbp : BP} {i : Nat} {r : Expr × Nat}
    (h : pInfix env f l rbp i = .ok r) (hf : f ≤ f') : pInfix env f' l rbp i = .ok r := by
  induction hf with
  | refl => exact h
  | step _ ih => exact (mono_all env _).infixOk ih

theorem pCall_mono {env : PEnv} {f f' : Nat} {c : Expr} {t : Token} {i : Nat} {r : Expr × Nat}
    (h : pCall env f c t i = .ok r) (hf : f ≤ f') : pCall env f' c t i = .ok r := by
  induction hf with
  | refl => exact h
  | step _ ih => exact (mono_all env _).callOk ih

theorem pArgs_mono {env : PEnv} {f f' : Nat} {acc : List Expr} {i : Nat} {r : List Expr × Nat}
    (h : pArgs env f acc i = .ok r) (hf : f ≤ f') : pArgs env f' acc i = .ok r := by
  induction hf with
  | refl => exact h
  | step _ ih => exact (mono_all env _).argsOk ih

theorem pList_mono {env : PEnv} {f f' : Nat} {acc : List Expr} {i : Nat} {r : List Expr × Nat}
    (h : pList env f acc i = .ok r) (hf : f ≤ f') : pList env f' acc i = .ok r := by
  induction hf with
  | refl => exact h
  | step _ ih => exact (mono_all env _).listOk ih

theorem pMap_mono {env : PEnv} {f f' : Nat} {acc : List (Expr × Expr)} {i : Nat}
    {r : List (Expr × Expr) × Nat}
    (h : pMap env f acc i = .ok r) (hf : f ≤ f') : pMap env f' acc i = .ok r := by
  induction hf with
  | refl => exact h
  | step _ ih => exact (mono_all env _).mapOk ih

theorem pObj_mono {env : PEnv} {f f' : Nat} {acc : List (String × Expr)} {i : Nat}
    {r : List (String × Expr) × Nat}
    (h : pObj env f acc i = .ok r) (hf : f ≤ f') : pObj env f' acc i = .ok r := by
  induction hf with
  | refl => exact h
  | step _ ih => exact (mono_all env _).objOk ih

/-- a non-`fuel` result of `pExpr` is its result at every larger fuel -/
theorem pExpr_mono_res {env : PEnv} {f f' : Nat} {rbp : BP} {i : Nat}
    (h : pExpr env f rbp i ≠ .error .fuel) (hf : f ≤ f') :
    pExpr env f' rbp i = pExpr env f rbp i := by
  induction hf with
  | refl => rfl
  | step _ ih => rw [(mono_all env _).exprM _ _ (by rw [ih]; exact h), ih]

theorem nudRes_mono {env : PEnv} {f f' : Nat} {t : Token} {i : Nat} {bp : BP} {nud : Nud}
    {r : Expr × Nat} (h : nudRes env f t i bp nud = .ok r) (hf : f ≤ f') :
    nudRes env f' t i bp nud = .ok r := by
  induction hf with
  | refl => exact h
  | step _ ih => exact mono_nud (mono_all env _) _ _ _ _ _ ih (by simp)

theorem ledRes_mono {env : PEnv} {f f' : Nat} {l : Expr} {t : Token} {i : Nat} {bp : BP} {led : Led}
    {r : Expr × Nat} (h : ledRes env f l t i bp led = .ok r) (hf : f ≤ f') :
    ledRes env f' l t i bp led = .ok r := by
  induction hf with
  | refl => exact h
  | step _ ih => exact mono_led (mono_all env _) _ _ _ _ _ _ ih (by simp)

end Yae
