/-
  The tree the parser returns has at most as many nodes as tokens were consumed (C12: ties the
  size of the tree, which bounds the work of the structural passes after the parser, to the
  length of the input).  `Expr.nodes` is from `Yae/Spec/DesugarCost.lean`.

  With no `<END-OF-FILE>` entry in the grammar: `pExpr env f rbp i = .ok (e, j)` implies
  `e.nodes + i ≤ j` (`NodesAt`, one induction on the fuel over the seven parser functions as in
  `Yae/Proofs/ParseFuel.lean`).  Every node owns a token: a leaf its token, a group / list / map
  / object its opening bracket, a unary or binary or ternary node its operator, a call its `(`, a
  subscript its `[`, a member its `.`.
-/
import Yae.Spec.DesugarCost
import Yae.Proofs.ParseCost
namespace Yae

/-- nodes of the trees of a list -/
def nodesL : List Expr → Nat
  | [] => 0
  | e :: es => e.nodes + nodesL es
def nodesP : List (Expr × Expr) → Nat
  | [] => 0
  | (k, v) :: ps => k.nodes + v.nodes + nodesP ps
def nodesF : List (String × Expr) → Nat
  | [] => 0
  | (_, e) :: fs => e.nodes + nodesF fs

theorem nodesL_append (a b : List Expr) : nodesL (a ++ b) = nodesL a + nodesL b := by
  induction a with
  | nil => simp [nodesL]
  | cons x a ih => simp [nodesL, ih]; omega
theorem nodesP_append (a b : List (Expr × Expr)) : nodesP (a ++ b) = nodesP a + nodesP b := by
  induction a with
  | nil => simp [nodesP]
  | cons x a ih => obtain ⟨k, v⟩ := x; simp [nodesP, ih]; omega
theorem nodesF_append (a b : List (String × Expr)) : nodesF (a ++ b) = nodesF a + nodesF b := by
  induction a with
  | nil => simp [nodesF]
  | cons x a ih => obtain ⟨k, v⟩ := x; simp [nodesF, ih]; omega

theorem nodesL_reverse (a : List Expr) : nodesL a.reverse = nodesL a := by
  induction a with
  | nil => rfl
  | cons x a ih => simp [nodesL_append, nodesL, ih]; omega
theorem nodesP_reverse (a : List (Expr × Expr)) : nodesP a.reverse = nodesP a := by
  induction a with
  | nil => rfl
  | cons x a ih => obtain ⟨k, v⟩ := x; simp [nodesP_append, nodesP, ih]; omega
theorem nodesF_reverse (a : List (String × Expr)) : nodesF a.reverse = nodesF a := by
  induction a with
  | nil => rfl
  | cons x a ih => obtain ⟨k, v⟩ := x; simp [nodesF_append, nodesF, ih]; omega

theorem nodesList_ofList (l : List Expr) : nodesList (ExprList.ofList l) = nodesL l := by
  induction l with
  | nil => rfl
  | cons x l ih => simp [ExprList.ofList, nodesList, nodesL, ih]
theorem nodesPairs_ofList (l : List (Expr × Expr)) : nodesPairs (PairList.ofList l) = nodesP l := by
  induction l with
  | nil => rfl
  | cons x l ih => obtain ⟨k, v⟩ := x; simp [PairList.ofList, nodesPairs, nodesP, ih]
theorem nodesFields_ofList (l : List (String × Expr)) :
    nodesFields (FieldEList.ofList l) = nodesF l := by
  induction l with
  | nil => rfl
  | cons x l ih => obtain ⟨k, v⟩ := x; simp [FieldEList.ofList, nodesFields, nodesF, ih]

theorem nodesList_rev (l : List Expr) : nodesList (ExprList.ofList l.reverse) = nodesL l := by
  rw [nodesList_ofList, nodesL_reverse]
theorem nodesPairs_rev (l : List (Expr × Expr)) :
    nodesPairs (PairList.ofList l.reverse) = nodesP l := by
  rw [nodesPairs_ofList, nodesP_reverse]
theorem nodesFields_rev (l : List (String × Expr)) :
    nodesFields (FieldEList.ofList l.reverse) = nodesF l := by
  rw [nodesFields_ofList, nodesF_reverse]

theorem timeLit_nodes {env : PEnv} {t : Token} {e : Expr} (h : env.timeLit t = .ok e) :
    e.nodes = 1 := by
  obtain ⟨v, rfl⟩ := timeLit_ok h
  rfl

/-- the seven statements at fuel `f` -/
structure NodesAt (env : PEnv) (f : Nat) : Prop where
  exprN : ∀ rbp i e j, pExpr env f rbp i = .ok (e, j) → e.nodes + i ≤ j
  infixN : ∀ l rbp i e j, pInfix env f l rbp i = .ok (e, j) → i ≤ j ∧ e.nodes + i ≤ l.nodes + j
  callN : ∀ c t i e j, pCall env f c t i = .ok (e, j) → i ≤ j ∧ e.nodes + i ≤ c.nodes + j + 1
  argsN : ∀ acc i l j, pArgs env f acc i = .ok (l, j) → i ≤ j ∧ nodesL l + i ≤ nodesL acc + j
  listN : ∀ acc i l j, pList env f acc i = .ok (l, j) → i ≤ j ∧ nodesL l + i ≤ nodesL acc + j
  mapN : ∀ acc i l j, pMap env f acc i = .ok (l, j) → i ≤ j ∧ nodesP l + i ≤ nodesP acc + j
  objN : ∀ acc i l j, pObj env f acc i = .ok (l, j) → i ≤ j ∧ nodesF l + i ≤ nodesF acc + j

theorem nodes_nud {env : PEnv} {f : Nat} (ih : NodesAt env f) (t : Token) (i : Nat) (bp : BP)
    (nud : Nud) : ∀ e j, nudRes env f t i bp nud = .ok (e, j) → i ≤ j ∧ e.nodes + i ≤ j + 1 := by
  have ihE := ih.exprN
  have ihL := ih.listN
  have ihM := ih.mapN
  have ihO := ih.objN
  have hadv := env.adv_bounds
  have hme := @PEnv.mustEat_ok env
  have hte := @timeLit_nodes env
  have hl := nodesList_rev
  have hp := nodesPairs_rev
  have hf := nodesFields_rev
  unfold nudRes
  cases nud <;> simp only []
  all_goals (repeat' split)
  all_goals grind [Expr.nodes, nodesList, nodesPairs, nodesFields, nodesL, nodesP, nodesF]

theorem nodes_led {env : PEnv} {f : Nat} (ih : NodesAt env f) (left : Expr) (t : Token) (i : Nat)
    (bp : BP) (led : Led) : ∀ e j, ledRes env f left t i bp led = .ok (e, j) →
    i ≤ j ∧ e.nodes + i ≤ left.nodes + j + 1 := by
  have ihE := ih.exprN
  have ihC := ih.callN
  have hadv := env.adv_bounds
  have hadv' := @PEnv.adv_lt env
  have hme := @PEnv.mustEat_ok env
  have h6 : ∀ i, (env.peek i).kind = "(" → i < env.toks.size := by
    intro i h
    apply Nat.lt_of_not_le
    intro hi
    rw [env.peek_ge hi] at h
    exact absurd h (by decide)
  unfold ledRes
  cases led <;> simp only []
  all_goals (repeat' split)
  all_goals grind [Expr.nodes]

theorem nodes_succ {env : PEnv} (hE : env.NoEOF) {f : Nat} (ih : NodesAt env f) :
    NodesAt env (f + 1) := by
  have ihE := ih.exprN
  have ihI := ih.infixN
  have ihA := ih.argsN
  have ihL := ih.listN
  have ihM := ih.mapN
  have ihO := ih.objN
  have hadv := env.adv_bounds
  have hadv' := @PEnv.adv_lt env
  have hpk := @PEnv.peek_ge env
  have hme := @PEnv.mustEat_ok env
  have hK := @infixNCheck_ok
  have hl := nodesList_rev
  obtain ⟨hE1, hE2⟩ := hE
  refine ⟨?_, ?_, ?_, ?_, ?_, ?_, ?_⟩
  · intro rbp i
    rw [pExpr_succ]
    by_cases hi : i < env.toks.size
    · have hN := nodes_nud ih (env.peek i) (env.adv i)
      repeat' split
      all_goals grind
    · rw [hpk (by omega), hE1]
      simp
  · intro left rbp i
    rw [pInfix_succ]
    by_cases hi : i < env.toks.size
    · have hL := nodes_led ih left (env.peek i) (env.adv i)
      repeat' split
      all_goals grind
    · rw [hpk (by omega), hE2]
      repeat' split
      all_goals grind
  · intro c t i
    rw [pCall_succ]
    repeat' split
    all_goals grind [Expr.nodes, nodesL]
  · intro acc i
    rw [pArgs_succ]
    repeat' split
    all_goals grind [nodesL]
  · intro acc i
    rw [pList_succ]
    repeat' split
    all_goals grind [nodesL]
  · intro acc i
    rw [pMap_succ]
    repeat' split
    all_goals grind [nodesP]
  · intro acc i
    rw [pObj_succ]
    repeat' split
    all_goals grind [nodesF]

theorem nodes_all {env : PEnv} (hE : env.NoEOF) (f : Nat) : NodesAt env f := by
  induction f with
  | zero =>
    refine ⟨?_, ?_, ?_, ?_, ?_, ?_, ?_⟩ <;> intros <;> rename_i h <;> cases h
  | succ f ih => exact nodes_succ hE ih

/-- the tree `parseWith` returns has at most as many nodes as there are tokens -/
theorem parseWith_nodes {ops : List Operator} (hops : ∀ o ∈ ops, o.kind ≠ tkEOF)
    (times : List (String × Int)) (toks : List Token) (fuel : Nat) {e : Expr}
    (h : parseWith fuel ops times toks = .ok e) : e.nodes ≤ toks.length := by
  have hE : PEnv.NoEOF { g := newGrammar ops, toks := toks.toArray, times := times } :=
    newGrammar_noEOF hops
  unfold parseWith at h
  simp only at h
  split at h
  · cases h
  · rename_i e' j hp
    have hn := (nodes_all hE fuel).exprN 0 0 e' j hp
    split at h
    · cases h
    · cases h
      have hj := pExpr_cursor_le _ hp (Nat.zero_le _)
      simp only [List.size_toArray] at hj
      omega

end Yae
