/-
  Two instances of the node-wise parser invariant (`Yae.Proofs.ParseInv`):
  `noChainHere` (non-associative operators are not chained) and `spanHere` (how a node's span is
  composed from its children's spans / its operator token).
-/
import Yae.Proofs.ParseInv
namespace Yae

/-! ## non-associative operators -/

/-- a `Binary` node whose operator name is `name` -/
def Expr.isBinaryNamed (name : String) : Expr → Bool
  | .binary _ n _ _ _ _ => n == name
  | _ => false

/-- At a `Binary` node of fixity `INFIX_N` neither direct child is a `Binary` node of the same
operator (a `Group` in between is fine: then the child is the `Group`). -/
def Expr.noChainHere : Expr → Prop
  | .binary _ name _ fx l r =>
    fx = fixInfixN → l.isBinaryNamed name = false ∧ r.isBinaryNamed name = false
  | _ => True

theorem infixNCheck_binary {rg : Pos} {n : String} {np : Pos} {fx : Nat} {l r e' : Expr}
    (h : infixNCheck (.binary rg n np fx l r) = .ok e') :
    fx = fixInfixN → l.isBinaryNamed n = false ∧ r.isBinaryNamed n = false := by
  intro hfx
  subst hfx
  simp only [infixNCheck, beq_self_eq_true, if_true] at h
  constructor
  · cases l <;> first | rfl | skip
    simp only [Expr.isBinaryNamed]
    cases hn : (_ == n) <;> first | rfl | skip
    simp [hn] at h
  · cases r <;> first | rfl | skip
    simp only [Expr.isBinaryNamed]
    cases hn : (_ == n) <;> first | rfl | skip
    simp [hn] at h

theorem noChain_nodeOK : NodeOK Expr.noChainHere := by
  refine ⟨?_, ?_, ?_, ?_, ?_, ?_, ?_, ?_, ?_, ?_, ?_, ?_, ?_, ?_, ?_, ?_⟩
  case refine_12 =>
    intro rg n np fx l r _ hc
    exact infixNCheck_binary hc
  all_goals (intros; trivial)

/-! ## spans -/

/-- How the span recorded at a node is composed.  `{a with idxEnd := b.idxEnd}` is `pos.Range(a,
b)`: index, column and line of the start, end index of the end; `Range` asserts
`a.idx ≤ b.idx`. -/
def Expr.spanHere : Expr → Prop
  | .binary p _ _ _ l r => p = { l.pos with idxEnd := r.pos.idxEnd } ∧ l.pos.idx ≤ r.pos.idx
  | .ternary p _ _ l _ r => p = { l.pos with idxEnd := r.pos.idxEnd } ∧ l.pos.idx ≤ r.pos.idx
  | .unary p _ np e true => p = { np with idxEnd := e.pos.idxEnd } ∧ np.idx ≤ e.pos.idx
  | .unary p _ np e false => p = { e.pos with idxEnd := np.idxEnd } ∧ e.pos.idx ≤ np.idx
  | .member p _ o _ fp _ _ => p = { o.pos with idxEnd := fp.idxEnd } ∧ o.pos.idx ≤ fp.idx
  | .call p _ c _ _ _ _ => p.idx = c.pos.idx ∧ p.col = c.pos.col ∧ p.line = c.pos.line
  | .subscript p _ v _ _ => p.idx = v.pos.idx ∧ p.col = v.pos.col ∧ p.line = v.pos.line
  | _ => True

theorem span_nodeOK : NodeOK Expr.spanHere := by
  refine ⟨?_, ?_, ?_, ?_, ?_, ?_, ?_, ?_, ?_, ?_, ?_, ?_, ?_, ?_, ?_, ?_⟩
  all_goals intros
  all_goals first
    | trivial
    | (rename_i h; obtain ⟨h1, h2⟩ := range_ok h; subst h2; simp [Expr.spanHere, h1])
    | (rename_i h _; obtain ⟨h1, h2⟩ := range_ok h; subst h2; simp [Expr.spanHere, h1])

end Yae
