/-
  C08, stage 2: what it means for a TREE to respect the binding powers and fixities of a grammar.
  Purely declarative: nothing here runs the parser.

  Vocabulary.  A node is LED-BUILT when it continues an expression: `l op r`, `l op`, `c ? a : b`,
  `f(args)`, `o.name`, `v[i]`; its FIRST OPERAND is `l` / `c` / `f` / `o` / `v` and its LEFT
  BINDING POWER `lbp` is the power of its operator in the infix table (for the three built-in
  forms: of `(`, `.`, `[`; a call whose callee is a member node is the method-call form
  `o.name(args)`, built by the `.` together with the member node, and has no power of its own).
  A node is OPEN ON THE RIGHT when its text ends with an operand the parser read with
  `expr(rbp)`: `op e` (`rbp` = the prefix power), `l op r` (`rbp` = the power of `op`, for a
  right-associative `op` its float32 predecessor), `c ? a : b` (the predecessor of the power of
  `?`).  The LEFT SPINE of `t` is `t`, the first operand of `t` if `t` is led-built, and so on; the
  RIGHT SPINE is `t`, the last operand of `t` if `t` is open on the right, and so on.

  Operator nodes record the operator's LEXEME as their name whereas the tables are keyed by the
  token KIND; the powers below are looked up under the recorded name, which is right when
  operator tokens have `lexeme = kind` (hypothesis `PEnv.OpLex` of the theorems; true of lexed
  input, where an operator token is the literal text of its kind).
-/
import Yae.Proofs.ParseYieldNest
import Yae.Proofs.ParseNodes
import Yae.Proofs.BPOrder
namespace Yae

/-- the binding power of the prefix entry, `0` without one -/
def Grammar.prefixBp (g : Grammar) (k : String) : BP :=
  match tableLookup k g.prefixs with
  | some (bp, _) => bp
  | none => 0

/-- the power at which the right operand of the binary operator `n` of recorded fixity `fx` is read -/
def Grammar.binRbp (g : Grammar) (n : String) (fx : Nat) : BP :=
  if fx = fixInfixR then bpPred (g.infixLbp n) else g.infixLbp n

/-- (R1) every led-built node on the left spine of the tree binds tighter than `b`:
`b < lbp`. -/
def Expr.leftAbove (g : Grammar) (b : BP) : Expr → Prop
  | .binary _ n _ _ l _ => b < g.infixLbp n ∧ l.leftAbove g b
  | .unary _ n _ e false => b < g.infixLbp n ∧ e.leftAbove g b
  | .ternary _ n _ l _ _ => b < g.infixLbp n ∧ l.leftAbove g b
  | .call _ _ c _ _ _ _ => (c.isMember = true ∨ b < g.infixLbp "(") ∧ c.leftAbove g b
  | .member _ _ o _ _ _ _ => b < g.infixLbp "." ∧ o.leftAbove g b
  | .subscript _ _ v _ _ => b < g.infixLbp "[" ∧ v.leftAbove g b
  | _ => True

/-- (R2) no node on the right spine of the tree that is open on the right would have let an
operator of power `b` through: `¬ rbp < b`. -/
def Expr.rightOK (g : Grammar) (b : BP) : Expr → Prop
  | .unary _ n _ e true => ¬ (g.prefixBp n < b) ∧ e.rightOK g b
  | .binary _ n _ fx _ r => ¬ (g.binRbp n fx < b) ∧ r.rightOK g b
  | .ternary _ n _ _ _ r => ¬ (bpPred (g.infixLbp n) < b) ∧ r.rightOK g b
  | _ => True

/-- the right spine of the tree ends in a member node `o.name` (so that a `(` directly after the
tree belongs to that member node: method call) -/
def Expr.endsInMember : Expr → Bool
  | .member .. => true
  | .unary _ _ _ e true => e.endsInMember
  | .binary _ _ _ _ _ r => r.endsInMember
  | .ternary _ _ _ _ _ r => r.endsInMember
  | _ => false

/-- The conditions at one node.
(R1) for the last operand of a node open on the right; (R2) for the first operand of a led-built
node; (R3) `leftAbove 0` for every operand read with `expr(0)`: group body, call arguments,
subscript index, list / map / object members, the middle of `?:`.  For a call that is not the
method-call form the callee must moreover not end in a member node. -/
def Expr.respHere (g : Grammar) : Expr → Prop
  | .binary _ n _ fx l r => r.leftAbove g (g.binRbp n fx) ∧ l.rightOK g (g.infixLbp n)
  | .unary _ n _ e true => e.leftAbove g (g.prefixBp n)
  | .unary _ n _ e false => e.rightOK g (g.infixLbp n)
  | .ternary _ n _ l m r =>
    l.rightOK g (g.infixLbp n) ∧ m.leftAbove g 0 ∧ r.leftAbove g (bpPred (g.infixLbp n))
  | .call _ _ c as _ _ _ =>
    (c.isMember = true ∨ (c.rightOK g (g.infixLbp "(") ∧ c.endsInMember = false)) ∧
    ∀ a ∈ as.toList, a.leftAbove g 0
  | .member _ _ o _ _ _ _ => o.rightOK g (g.infixLbp ".")
  | .subscript _ _ v ix _ => v.rightOK g (g.infixLbp "[") ∧ ix.leftAbove g 0
  | .group _ e => e.leftAbove g 0
  | .list _ es _ => ∀ e ∈ es.toList, e.leftAbove g 0
  | .map _ ps _ => ∀ kv ∈ ps.toList, kv.1.leftAbove g 0 ∧ kv.2.leftAbove g 0
  | .obj _ fs _ => ∀ nv ∈ fs.toList, nv.2.leftAbove g 0
  | _ => True

/-- **The tree respects the declarations of `g`**: (R3) at the root, (R1)–(R3) at every node,
(R4) no non-associative operator chained with itself. -/
def Respects (g : Grammar) (t : Expr) : Prop :=
  t.leftAbove g 0 ∧ t.All (Expr.respHere g) ∧ t.All Expr.noChainHere

/-- what has to hold of a tree and the kind `k` of the token that follows it -/
def Follow (g : Grammar) (k : String) (t : Expr) : Prop :=
  t.rightOK g (g.infixLbp k) ∧ (t.endsInMember = true → k ≠ "(")

/-- The three built-in `led` functions sit under their own token kinds. -/
structure Grammar.LedKinds (g : Grammar) : Prop where
  call : ∀ k bp, tableLookup k g.infixs = some (bp, .call) → k = "("
  dot : ∀ k bp, tableLookup k g.infixs = some (bp, .dot) → k = "."
  subscript : ∀ k bp, tableLookup k g.infixs = some (bp, .subscript) → k = "["

/-- a token kind that may end up as the name of an operator node -/
def Grammar.isOpKind (g : Grammar) (k : String) : Prop :=
  (∃ bp, tableLookup k g.prefixs = some (bp, .unaryPrefix)) ∨
  (∃ bp led, tableLookup k g.infixs = some (bp, led))

/-- operator tokens carry their kind as lexeme -/
def PEnv.OpLex (env : PEnv) : Prop :=
  ∀ i, i < env.toks.size → env.g.isOpKind (env.peek i).kind →
    (env.peek i).lexeme = (env.peek i).kind

theorem ExprList.toList_ofList (l : List Expr) : (ExprList.ofList l).toList = l := by
  induction l with
  | nil => rfl
  | cons a l ih => simp [ExprList.ofList, ExprList.toList, ih]

theorem PairList.toList_ofList (l : List (Expr × Expr)) : (PairList.ofList l).toList = l := by
  induction l with
  | nil => rfl
  | cons a l ih => obtain ⟨k, v⟩ := a; simp [PairList.ofList, PairList.toList, ih]

theorem FieldEList.toList_ofList (l : List (String × Expr)) : (FieldEList.ofList l).toList = l := by
  induction l with
  | nil => rfl
  | cons a l ih => obtain ⟨k, v⟩ := a; simp [FieldEList.ofList, FieldEList.toList, ih]

theorem Grammar.infixLbp_of {g : Grammar} {k : String} {bp : BP} {led : Led}
    (h : tableLookup k g.infixs = some (bp, led)) : g.infixLbp k = bp := by
  unfold Grammar.infixLbp; rw [h]

theorem Grammar.infixLbp_none {g : Grammar} {k : String}
    (h : tableLookup k g.infixs = none) : g.infixLbp k = 0 := by
  unfold Grammar.infixLbp; rw [h]

theorem Grammar.prefixBp_of {g : Grammar} {k : String} {bp : BP} {nud : Nud}
    (h : tableLookup k g.prefixs = some (bp, nud)) : g.prefixBp k = bp := by
  unfold Grammar.prefixBp; rw [h]

end Yae
