/-
  C08, stage 2: every tree the parser returns respects the declarations (`Respects`).
  One induction on the fuel over the seven functions; the invariant of `expr(rbp)` returning the
  tree `t` with the cursor at `j` is `Inv2`: (R1)–(R3) at every node of `t`, every led-built node
  on the left spine of `t` binds tighter than `rbp`, the loop stopped at token `j` because its
  power is not above `rbp`, and the same for every node open on the right on the right spine.
-/
import Yae.Proofs.ParseRespects
namespace Yae

structure Inv2 (env : PEnv) (rbp : BP) (t : Expr) (j : Nat) : Prop where
  resp : t.All (Expr.respHere env.g)
  above : t.leftAbove env.g rbp
  stop : ¬ (rbp < env.g.infixLbp (env.peek j).kind)
  follow : Follow env.g (env.peek j).kind t

/-- an operand read with `expr(0)` -/
def R0 (env : PEnv) (e : Expr) : Prop := e.All (Expr.respHere env.g) ∧ e.leftAbove env.g 0

structure RAt (env : PEnv) (f : Nat) : Prop where
  exprR : ∀ rbp i e j, pExpr env f rbp i = .ok (e, j) → Inv2 env rbp e j
  infixR : ∀ left rbp i e j, left.All (Expr.respHere env.g) → left.leftAbove env.g rbp →
    Follow env.g (env.peek i).kind left → pInfix env f left rbp i = .ok (e, j) → Inv2 env rbp e j
  callR : ∀ c t i e j, c.All (Expr.respHere env.g) →
    (c.isMember = true ∨ (c.rightOK env.g (env.g.infixLbp "(") ∧ c.endsInMember = false)) →
    pCall env f c t i = .ok (e, j) →
    e.All (Expr.respHere env.g) ∧ ∃ p col as a b d, e = .call p col c as a b d
  argsR : ∀ acc i as j, (∀ a ∈ acc, R0 env a) → pArgs env f acc i = .ok (as, j) →
    ∀ a ∈ as, R0 env a
  listR : ∀ acc i as j, (∀ a ∈ acc, R0 env a) → pList env f acc i = .ok (as, j) →
    ∀ a ∈ as, R0 env a
  mapR : ∀ acc i ps j, (∀ kv ∈ acc, R0 env kv.1 ∧ R0 env kv.2) → pMap env f acc i = .ok (ps, j) →
    ∀ kv ∈ ps, R0 env kv.1 ∧ R0 env kv.2
  objR : ∀ acc i fs j, (∀ nv ∈ acc, R0 env nv.2) → pObj env f acc i = .ok (fs, j) →
    ∀ nv ∈ fs, R0 env nv.2

theorem Inv2.r0 {env : PEnv} {e : Expr} {j : Nat} (h : Inv2 env 0 e j) : R0 env e := ⟨h.resp, h.above⟩

theorem follow_closed {g : Grammar} {k : String} {t : Expr}
    (h1 : ∀ b, t.rightOK g b) (h2 : t.endsInMember = false) : Follow g k t :=
  ⟨h1 _, by simp [h2]⟩

theorem nudRes_resp {env : PEnv} (hL : env.OpLex) {f : Nat} (ih : RAt env f)
    {i : Nat} {bp : BP} {nud : Nud} (hn : env.nudAt i bp nud)
    {e : Expr} {j : Nat} (h : nudRes env f (env.peek i) (i + 1) bp nud = .ok (e, j)) :
    e.All (Expr.respHere env.g) ∧ (∀ rbp, e.leftAbove env.g rbp) ∧
      Follow env.g (env.peek j).kind e := by
  have ihE := ih.exprR
  unfold nudRes at h
  cases nud <;> simp only [] at h
  case ident =>
    cases h
    exact ⟨by simp [Expr.All, Expr.respHere], by simp [Expr.leftAbove],
      follow_closed (by simp [Expr.rightOK]) rfl⟩
  case true_ =>
    cases h
    exact ⟨by simp [Expr.All, Expr.respHere], by simp [Expr.leftAbove],
      follow_closed (by simp [Expr.rightOK]) rfl⟩
  case false_ =>
    cases h
    exact ⟨by simp [Expr.All, Expr.respHere], by simp [Expr.leftAbove],
      follow_closed (by simp [Expr.rightOK]) rfl⟩
  case num =>
    split at h
    · cases h
      exact ⟨by simp [Expr.All, Expr.respHere], by simp [Expr.leftAbove],
        follow_closed (by simp [Expr.rightOK]) rfl⟩
    · cases h
  case str =>
    split at h
    · cases h
      exact ⟨by simp [Expr.All, Expr.respHere], by simp [Expr.leftAbove],
        follow_closed (by simp [Expr.rightOK]) rfl⟩
    · cases h
  case time =>
    split at h
    · rename_i e' he
      obtain ⟨v, rfl⟩ := timeLit_ok he
      cases h
      exact ⟨by simp [Expr.All, Expr.respHere], by simp [Expr.leftAbove],
        follow_closed (by simp [Expr.rightOK]) rfl⟩
    · cases h
  case group =>
    split at h
    · cases h
    · rename_i e1 i1 h1
      have I := ihE _ _ _ _ h1
      split at h
      · cases h
      · split at h
        · cases h
        · cases h
          exact ⟨by simp only [Expr.All, Expr.respHere]; exact ⟨I.above, I.resp⟩,
            by simp [Expr.leftAbove], follow_closed (by simp [Expr.rightOK]) rfl⟩
  case unaryPrefix =>
    have hlex : (env.peek i).lexeme = (env.peek i).kind := hL i hn.1 (.inl ⟨bp, hn.2⟩)
    have hbp : env.g.prefixBp (env.peek i).lexeme = bp := by
      rw [hlex]; exact Grammar.prefixBp_of hn.2
    split at h
    · cases h
    · rename_i e1 i1 h1
      have I := ihE _ _ _ _ h1
      split at h
      · cases h
      · cases h
        refine ⟨?_, by simp [Expr.leftAbove], ?_, ?_⟩
        · simp only [Expr.All, Expr.respHere, hbp]; exact ⟨I.above, I.resp⟩
        · simp only [Expr.rightOK, hbp]; exact ⟨I.stop, I.follow.1⟩
        · simp only [Expr.endsInMember]; exact I.follow.2
  case obj =>
    split at h
    · cases h
    · rename_i fs i1 h1
      have I := ih.objR _ _ _ _ (by simp) h1
      split at h
      · cases h
      · split at h
        · cases h
        · cases h
          refine ⟨?_, by simp [Expr.leftAbove], follow_closed (by simp [Expr.rightOK]) rfl⟩
          simp only [Expr.All, Expr.respHere, FieldEList.toList_ofList, allFields_ofList]
          exact ⟨fun nv hnv => (I nv (by simpa using hnv)).2,
            fun nv hnv => (I nv (by simpa using hnv)).1⟩
  case listMap =>
    split at h
    · split at h
      · cases h
      · split at h
        · cases h
        · cases h
          exact ⟨by simp [Expr.All, Expr.respHere, allPairs, PairList.toList],
            by simp [Expr.leftAbove], follow_closed (by simp [Expr.rightOK]) rfl⟩
    · split at h
      · split at h
        · cases h
        · split at h
          · cases h
          · cases h
            exact ⟨by simp [Expr.All, Expr.respHere, allList, ExprList.toList],
              by simp [Expr.leftAbove], follow_closed (by simp [Expr.rightOK]) rfl⟩
      · split at h
        · cases h
        · rename_i fst i1 h1
          have Ifst := (ihE _ _ _ _ h1).r0
          split at h
          · -- map
            split at h
            · cases h
            · rename_i v i2 h2
              have Iv := (ihE _ _ _ _ h2).r0
              split at h
              · cases h
              · rename_i ps i3 h3
                have Ips : ∀ kv ∈ ps, R0 env kv.1 ∧ R0 env kv.2 := by
                  split at h3
                  · exact ih.mapR _ _ _ _ (by simpa using ⟨Ifst, Iv⟩) h3
                  · cases h3; simpa using ⟨Ifst, Iv⟩
                split at h
                · cases h
                · split at h
                  · cases h
                  · cases h
                    refine ⟨?_, by simp [Expr.leftAbove],
                      follow_closed (by simp [Expr.rightOK]) rfl⟩
                    simp only [Expr.All, Expr.respHere, PairList.toList_ofList, allPairs_ofList]
                    exact ⟨fun kv hkv => ⟨(Ips kv (by simpa using hkv)).1.2,
                        (Ips kv (by simpa using hkv)).2.2⟩,
                      fun kv hkv => ⟨(Ips kv (by simpa using hkv)).1.1,
                        (Ips kv (by simpa using hkv)).2.1⟩⟩
          · -- list
            split at h
            · cases h
            · rename_i els i3 h3
              have Iels : ∀ a ∈ els, R0 env a := by
                split at h3
                · exact ih.listR _ _ _ _ (by simpa using Ifst) h3
                · cases h3; simpa using Ifst
              split at h
              · cases h
              · split at h
                · cases h
                · cases h
                  refine ⟨?_, by simp [Expr.leftAbove],
                    follow_closed (by simp [Expr.rightOK]) rfl⟩
                  simp only [Expr.All, Expr.respHere, ExprList.toList_ofList, allList_ofList]
                  exact ⟨fun a ha => (Iels a (by simpa using ha)).2,
                    fun a ha => (Iels a (by simpa using ha)).1⟩

theorem binRbp_L (g : Grammar) (n : String) : g.binRbp n fixInfixL = g.infixLbp n := by
  simp [Grammar.binRbp, fixInfixL, fixInfixR]
theorem binRbp_N (g : Grammar) (n : String) : g.binRbp n fixInfixN = g.infixLbp n := by
  simp [Grammar.binRbp, fixInfixN, fixInfixR]
theorem binRbp_R (g : Grammar) (n : String) : g.binRbp n fixInfixR = bpPred (g.infixLbp n) := by
  simp [Grammar.binRbp]

/-- the binary node built from a left operand and a right operand read at the operator's `rbp` -/
theorem binary_resp {env : PEnv} {rbp : BP} {left rhs : Expr} {n : String} {np rg : Pos} {fx : Nat}
    {k : String} {i1 : Nat}
    (hl : left.All (Expr.respHere env.g)) (hab : left.leftAbove env.g rbp)
    (hfo : left.rightOK env.g (env.g.infixLbp n)) (hgt : rbp < env.g.infixLbp n)
    (I : Inv2 env (env.g.binRbp n fx) rhs i1) (hk : k = (env.peek i1).kind) :
    (Expr.binary rg n np fx left rhs).All (Expr.respHere env.g) ∧
    (Expr.binary rg n np fx left rhs).leftAbove env.g rbp ∧
    Follow env.g k (Expr.binary rg n np fx left rhs) := by
  subst hk
  refine ⟨?_, ?_, ?_, ?_⟩
  · simp only [Expr.All, Expr.respHere]; exact ⟨⟨I.above, hfo⟩, hl, I.resp⟩
  · simp only [Expr.leftAbove]; exact ⟨hgt, hab⟩
  · simp only [Expr.rightOK]; exact ⟨I.stop, I.follow.1⟩
  · simp only [Expr.endsInMember]; exact I.follow.2

theorem ledRes_resp {env : PEnv} (hL : env.OpLex) (hK : env.g.LedKinds) {f : Nat} (ih : RAt env f)
    {left : Expr} {rbp : BP} {i : Nat} (hl : left.All (Expr.respHere env.g))
    (hab : left.leftAbove env.g rbp) (hfo : Follow env.g (env.peek i).kind left)
    {bp : BP} {led : Led} (hd : env.ledAt i bp led) (hgt : rbp < env.g.infixLbp (env.peek i).kind)
    {e : Expr} {j : Nat} (h : ledRes env f left (env.peek i) (i + 1) bp led = .ok (e, j)) :
    e.All (Expr.respHere env.g) ∧ e.leftAbove env.g rbp ∧ Follow env.g (env.peek j).kind e := by
  have ihE := ih.exprR
  have hlex : (env.peek i).lexeme = (env.peek i).kind := hL i hd.1 (.inr ⟨bp, led, hd.2⟩)
  have hbp : env.g.infixLbp (env.peek i).kind = bp := Grammar.infixLbp_of hd.2
  have hbp' : env.g.infixLbp (env.peek i).lexeme = bp := by rw [hlex]; exact hbp
  have hfo1 : left.rightOK env.g (env.g.infixLbp (env.peek i).lexeme) := by rw [hlex]; exact hfo.1
  have hgt' : rbp < env.g.infixLbp (env.peek i).lexeme := by rw [hlex]; exact hgt
  unfold ledRes at h
  cases led <;> simp only [] at h
  case binaryL =>
    split at h
    · cases h
    · rename_i r i1 h1
      split at h
      · cases h
      · cases h
        exact binary_resp hl hab hfo1 hgt' (by rw [binRbp_L, hbp']; exact ihE _ _ _ _ h1) rfl
  case binaryN =>
    split at h
    · cases h
    · rename_i r i1 h1
      split at h
      · cases h
      · cases h
        exact binary_resp hl hab hfo1 hgt' (by rw [binRbp_N, hbp']; exact ihE _ _ _ _ h1) rfl
  case binaryR =>
    split at h
    · cases h
    · rename_i r i1 h1
      split at h
      · cases h
      · cases h
        exact binary_resp hl hab hfo1 hgt' (by rw [binRbp_R, hbp']; exact ihE _ _ _ _ h1) rfl
  case unaryPostfix =>
    split at h
    · cases h
    · cases h
      refine ⟨?_, ?_, follow_closed (by simp [Expr.rightOK]) rfl⟩
      · simp only [Expr.All, Expr.respHere]; exact ⟨hfo1, hl⟩
      · simp only [Expr.leftAbove]; exact ⟨hgt', hab⟩
  case question =>
    split at h
    · cases h
    · rename_i m i1 h1
      have Im := ihE _ _ _ _ h1
      split at h
      · cases h
      · split at h
        · cases h
        · rename_i r i3 h3
          have Ir := ihE _ _ _ _ h3
          split at h
          · cases h
          · cases h
            refine ⟨?_, ?_, ?_, ?_⟩
            · simp only [Expr.All, Expr.respHere, hbp']
              exact ⟨⟨hbp' ▸ hfo1, Im.above, Ir.above⟩, hl, Im.resp, Ir.resp⟩
            · simp only [Expr.leftAbove]; exact ⟨hgt', hab⟩
            · simp only [Expr.rightOK, hbp']; exact ⟨Ir.stop, Ir.follow.1⟩
            · simp only [Expr.endsInMember]; exact Ir.follow.2
  case call =>
    have hk : (env.peek i).kind = "(" := hK.call _ _ hd.2
    have hcond : left.isMember = true ∨
        (left.rightOK env.g (env.g.infixLbp "(") ∧ left.endsInMember = false) := by
      right
      refine ⟨hk ▸ hfo.1, ?_⟩
      cases hm : left.endsInMember
      · rfl
      · exact absurd hk (hfo.2 hm)
    obtain ⟨h1, p, col, as, a, b, d, rfl⟩ := ih.callR _ _ _ _ _ hl hcond h
    refine ⟨h1, ?_, follow_closed (by simp [Expr.rightOK]) rfl⟩
    simp only [Expr.leftAbove]
    exact ⟨.inr (hk ▸ hgt), hab⟩
  case dot =>
    have hk : (env.peek i).kind = "." := hK.dot _ _ hd.2
    split at h
    · cases h
    · rename_i rg h1
      have hmem : (Expr.member rg (env.peek i).pos.col left (env.peek (i + 1)).lexeme
          (env.peek (i + 1)).pos none (-1)).All (Expr.respHere env.g) := by
        simp only [Expr.All, Expr.respHere]; exact ⟨hk ▸ hfo.1, hl⟩
      have hmab : (Expr.member rg (env.peek i).pos.col left (env.peek (i + 1)).lexeme
          (env.peek (i + 1)).pos none (-1)).leftAbove env.g rbp := by
        simp only [Expr.leftAbove]; exact ⟨hk ▸ hgt, hab⟩
      split at h
      · obtain ⟨h2, p, col, as, a, b, d, rfl⟩ := ih.callR _ _ _ _ _ hmem (.inl rfl) h
        refine ⟨h2, ?_, follow_closed (by simp [Expr.rightOK]) rfl⟩
        simp only [Expr.leftAbove] at hmab ⊢
        exact ⟨.inl rfl, hmab⟩
      · rename_i hp
        cases h
        refine ⟨hmem, hmab, by simp [Expr.rightOK], fun _ => ?_⟩
        simpa using hp
  case subscript =>
    have hk : (env.peek i).kind = "[" := hK.subscript _ _ hd.2
    split at h
    · cases h
    · rename_i ix i1 h1
      have Ix := ihE _ _ _ _ h1
      split at h
      · cases h
      · split at h
        · cases h
        · cases h
          refine ⟨?_, ?_, follow_closed (by simp [Expr.rightOK]) rfl⟩
          · simp only [Expr.All, Expr.respHere]; exact ⟨⟨hk ▸ hfo.1, Ix.above⟩, hl, Ix.resp⟩
          · simp only [Expr.leftAbove]; exact ⟨hk ▸ hgt, hab⟩

theorem resp_succ {env : PEnv} (hE : env.NoEOF) (hL : env.OpLex) (hK : env.g.LedKinds) {f : Nat}
    (ih : RAt env f) : RAt env (f + 1) := by
  have ihE := ih.exprR
  refine ⟨?_, ?_, ?_, ?_, ?_, ?_, ?_⟩
  · intro rbp i e j h
    rw [pExpr_succ] at h
    split at h
    · cases h
    · rename_i bp nud hlk
      have hi := PEnv.lt_of_prefix hE hlk
      rw [env.adv_lt hi] at h
      split at h
      · cases h
      · rename_i left j0 hn
        obtain ⟨h1, h2, h3⟩ := nudRes_resp hL ih ⟨hi, hlk⟩ hn
        exact ih.infixR _ _ _ _ _ h1 (h2 _) h3 h
  · intro left rbp i e j hl hab hfo h
    rw [pInfix_succ] at h
    split at h
    · rename_i hgt
      split at h
      · cases h
      · rename_i bp led hlk
        have hi := PEnv.lt_of_infix hE hlk
        rw [env.adv_lt hi] at h
        split at h
        · cases h
        · rename_i e1 j1 hr
          split at h
          · cases h
          · rename_i e2 hc
            cases infixNCheck_ok hc
            obtain ⟨h1, h2, h3⟩ := ledRes_resp hL hK ih hl hab hfo ⟨hi, hlk⟩ hgt hr
            exact ih.infixR _ _ _ _ _ h1 h2 h3 h
    · rename_i hgt
      split at h
      · cases h
      · rename_i e2 hc
        cases infixNCheck_ok hc
        cases h
        exact ⟨hl, hab, hgt, hfo⟩
  · intro c t i e j hc hcond h
    simp only [pCall] at h
    split at h
    · cases h
    · rename_i as i1 ha
      have Ias : ∀ a ∈ as, R0 env a := by
        split at ha
        · cases ha; simp
        · exact ih.argsR _ _ _ _ (by simp) ha
      split at h
      · cases h
      · split at h
        · cases h
        · cases h
          refine ⟨?_, _, _, _, _, _, _, rfl⟩
          simp only [Expr.All, Expr.respHere, ExprList.toList_ofList, allList_ofList]
          exact ⟨⟨hcond, fun a ha => (Ias a (by simpa using ha)).2⟩, hc,
            fun a ha => (Ias a (by simpa using ha)).1⟩
  · intro acc i as j hacc h
    simp only [pArgs] at h
    split at h
    · cases h
    · rename_i a i1 h1
      have Ia := (ihE _ _ _ _ h1).r0
      have hacc' : ∀ x ∈ a :: acc, R0 env x := by
        intro x hx
        rcases List.mem_cons.mp hx with rfl | hx
        · exact Ia
        · exact hacc x hx
      split at h
      · exact ih.argsR _ _ _ _ hacc' h
      · cases h; exact hacc'
  · intro acc i as j hacc h
    simp only [pList] at h
    split at h
    · cases h; exact hacc
    · split at h
      · cases h
      · rename_i a i1 h1
        have Ia := (ihE _ _ _ _ h1).r0
        have hacc' : ∀ x ∈ a :: acc, R0 env x := by
          intro x hx
          rcases List.mem_cons.mp hx with rfl | hx
          · exact Ia
          · exact hacc x hx
        split at h
        · exact ih.listR _ _ _ _ hacc' h
        · cases h; exact hacc'
  · intro acc i ps j hacc h
    simp only [pMap] at h
    split at h
    · cases h; exact hacc
    · split at h
      · cases h
      · rename_i k i1 h1
        have Ik := (ihE _ _ _ _ h1).r0
        split at h
        · cases h
        · split at h
          · cases h
          · rename_i v i3 h3
            have Iv := (ihE _ _ _ _ h3).r0
            have hacc' : ∀ x ∈ (k, v) :: acc, R0 env x.1 ∧ R0 env x.2 := by
              intro x hx
              rcases List.mem_cons.mp hx with rfl | hx
              · exact ⟨Ik, Iv⟩
              · exact hacc x hx
            split at h
            · exact ih.mapR _ _ _ _ hacc' h
            · cases h; exact hacc'
  · intro acc i fs j hacc h
    simp only [pObj] at h
    split at h
    · cases h; exact hacc
    · split at h
      · cases h
      · rename_i n i1 h1
        split at h
        · cases h
        · split at h
          · cases h
          · rename_i v i3 h3
            have Iv := (ihE _ _ _ _ h3).r0
            have hacc' : ∀ x ∈ (n.lexeme, v) :: acc, R0 env x.2 := by
              intro x hx
              rcases List.mem_cons.mp hx with rfl | hx
              · exact Iv
              · exact hacc x hx
            split at h
            · exact ih.objR _ _ _ _ hacc' h
            · cases h; exact hacc'

theorem resp_all {env : PEnv} (hE : env.NoEOF) (hL : env.OpLex) (hK : env.g.LedKinds) (f : Nat) :
    RAt env f := by
  induction f with
  | zero =>
    refine ⟨?_, ?_, ?_, ?_, ?_, ?_, ?_⟩ <;> intros <;>
      simp_all [pExpr, pInfix, pCall, pArgs, pList, pMap, pObj]
  | succ f ih => exact resp_succ hE hL hK ih

/-! ## the grammar of an operator table puts the built-in `led`s under their own kinds -/

theorem addOp_ledKinds {g : Grammar} (op : Operator)
    (h : ∀ k bp led, tableLookup k g.infixs = some (bp, led) →
      led ≠ .call ∧ led ≠ .dot ∧ led ≠ .subscript ∧ led ≠ .question) :
    ∀ k bp led, tableLookup k (g.addOp op).infixs = some (bp, led) →
      led ≠ .call ∧ led ≠ .dot ∧ led ≠ .subscript ∧ led ≠ .question := by
  intro k bp led hlk
  unfold Grammar.addOp at hlk
  repeat' split at hlk
  all_goals try simp only [Grammar.prefix, Grammar.infix, tableLookup] at hlk
  all_goals first
    | exact h k bp led hlk
    | (split at hlk
       · cases hlk; simp
       · exact h k bp led hlk)

theorem foldl_addOp_ledKinds (l : List Operator) {g : Grammar}
    (h : ∀ k bp led, tableLookup k g.infixs = some (bp, led) →
      led ≠ .call ∧ led ≠ .dot ∧ led ≠ .subscript ∧ led ≠ .question) :
    ∀ k bp led, tableLookup k (l.foldl Grammar.addOp g).infixs = some (bp, led) →
      led ≠ .call ∧ led ≠ .dot ∧ led ≠ .subscript ∧ led ≠ .question := by
  induction l generalizing g with
  | nil => exact h
  | cons o l ih => exact ih (addOp_ledKinds o h)

/-- the grammar before the four built-in `led`s are registered -/
def preGrammar (ops : List Operator) : Grammar :=
  (sortOps ops).foldl Grammar.addOp
    ((((((((((⟨[], []⟩ : Grammar).prefix "<sym>" bpNone .ident).prefix "true" bpNone .true_).prefix
      "false" bpNone .false_).prefix "<num>" bpNone .num).prefix "<str>" bpNone .str).prefix
      "<time>" bpNone .time).prefix "[" bpNone .listMap).prefix "{" bpNone .obj).prefix "("
      bpNone .group)

theorem newGrammar_eq (ops : List Operator) :
    newGrammar ops = ((((preGrammar ops).infix "?" bpCond .question).infix "." bpMember .dot).infix
      "(" bpCall .call).infix "[" bpMember .subscript := rfl

theorem preGrammar_leds (ops : List Operator) :
    ∀ k bp led, tableLookup k (preGrammar ops).infixs = some (bp, led) →
      led ≠ .call ∧ led ≠ .dot ∧ led ≠ .subscript ∧ led ≠ .question :=
  foldl_addOp_ledKinds _ (by intro k bp led h; simp [Grammar.prefix, tableLookup] at h)

theorem newGrammar_ledKinds (ops : List Operator) : (newGrammar ops).LedKinds := by
  have hp := preGrammar_leds ops
  rw [newGrammar_eq]
  refine ⟨?_, ?_, ?_⟩
  all_goals
    intro k bp h
    simp only [Grammar.infix, tableLookup] at h
    repeat' split at h
    all_goals first
      | (have := hp _ _ _ h; simp at this)
      | (rename_i hk; exact (beq_iff_eq.mp hk).symm)
      | (cases h)

/-- operator tokens carry their kind as lexeme (list form of `PEnv.OpLex`) -/
def OpLexemes (ops : List Operator) (toks : List Token) : Prop :=
  ∀ t ∈ toks, (newGrammar ops).isOpKind t.kind → t.lexeme = t.kind

theorem OpLexemes.env {ops : List Operator} {times : List (String × Int)} {toks : List Token}
    (h : OpLexemes ops toks) : (mkEnv ops times toks).OpLex := by
  intro i hi hk
  have hsz : (mkEnv ops times toks).toks.size = toks.length := by simp [mkEnv]
  have hpk : (mkEnv ops times toks).peek i = toks[i]'(by omega) := by
    rw [PEnv.peek_lt _ hi]; simp [mkEnv]
  rw [hpk] at hk ⊢
  exact h _ (List.getElem_mem _) hk

/-- **Every tree the parser returns respects the declarations.** -/
theorem parseWith_respects {fuel : Nat} {ops : List Operator}
    {times : List (String × Int)} {toks : List Token} (hE : PEnv.NoEOF (mkEnv ops times toks))
    (hL : OpLexemes ops toks) {t : Expr}
    (h : parseWith fuel ops times toks = .ok t) : Respects (newGrammar ops) t := by
  have hnc := parseWith_all noChain_nodeOK h
  have hR := (resp_all hE (hL.env (times := times)) (newGrammar_ledKinds ops) fuel).exprR
  unfold parseWith at h
  simp only at h
  split at h
  · cases h
  · rename_i e j h1
    split at h
    · cases h
    · cases h
      have I := hR _ _ _ _ h1
      exact ⟨I.above, I.resp, hnc⟩

end Yae
