/-
  Yield derivations do not depend on where the tokens sit in the array: if the tokens
  `[lo + d, hi + d)` of `env` are the tokens `[lo, hi)` of `env'` (same grammar, same `strtotime`
  table), a tree that yields a range of the former yields the shifted range of the latter.
-/
import Yae.Proofs.ParseYieldAll
namespace Yae

/-- window `[lo, hi)` of `env'` = window `[lo + d, hi + d)` of `env` -/
structure ShiftOK (env env' : PEnv) (d lo hi : Nat) : Prop where
  g : env'.g = env.g
  times : env'.times = env.times
  pk : ∀ x, lo ≤ x → x < hi → env.peek (x + d) = env'.peek x
  szf : ∀ x, lo ≤ x → x < hi → x + d < env.toks.size → x < env'.toks.size
  szb : ∀ x, lo ≤ x → x ≤ hi → x < env'.toks.size → x + d < env.toks.size

namespace ShiftOK
variable {env env' : PEnv} {d lo hi : Nat}

theorem nud (S : ShiftOK env env' d lo hi) {x : Nat} {bp : BP} {n : Nud}
    (h : env.nudAt (x + d) bp n) (h1 : lo ≤ x) (h2 : x < hi) : env'.nudAt x bp n :=
  ⟨S.szf x h1 h2 h.1, by rw [← S.pk x h1 h2, S.g]; exact h.2⟩

theorem led (S : ShiftOK env env' d lo hi) {x : Nat} {bp : BP} {n : Led}
    (h : env.ledAt (x + d) bp n) (h1 : lo ≤ x) (h2 : x < hi) : env'.ledAt x bp n :=
  ⟨S.szf x h1 h2 h.1, by rw [← S.pk x h1 h2, S.g]; exact h.2⟩

theorem kind (S : ShiftOK env env' d lo hi) {x : Nat} {k : String}
    (h : env.kindAt (x + d) k) (h1 : lo ≤ x) (h2 : x < hi) : env'.kindAt x k :=
  ⟨S.szf x h1 h2 h.1, by rw [← S.pk x h1 h2]; exact h.2⟩

theorem pk' (S : ShiftOK env env' d lo hi) {i x : Nat} (e : i = x + d) (h1 : lo ≤ x) (h2 : x < hi) :
    env.peek i = env'.peek x := by subst e; exact S.pk x h1 h2

theorem nud' (S : ShiftOK env env' d lo hi) {i x : Nat} {bp : BP} {n : Nud}
    (h : env.nudAt i bp n) (e : i = x + d) (h1 : lo ≤ x) (h2 : x < hi) : env'.nudAt x bp n := by
  subst e; exact S.nud h h1 h2

theorem led' (S : ShiftOK env env' d lo hi) {i x : Nat} {bp : BP} {n : Led}
    (h : env.ledAt i bp n) (e : i = x + d) (h1 : lo ≤ x) (h2 : x < hi) : env'.ledAt x bp n := by
  subst e; exact S.led h h1 h2

theorem kind' (S : ShiftOK env env' d lo hi) {i x : Nat} {k : String}
    (h : env.kindAt i k) (e : i = x + d) (h1 : lo ≤ x) (h2 : x < hi) : env'.kindAt x k := by
  subst e; exact S.kind h h1 h2

theorem szf' (S : ShiftOK env env' d lo hi) {i x : Nat} (e : i = x + d) (h1 : lo ≤ x) (h2 : x < hi)
    (h : i < env.toks.size) : x < env'.toks.size := by subst e; exact S.szf x h1 h2 h

theorem szb' (S : ShiftOK env env' d lo hi) {i x : Nat} (e : i = x + d) (h1 : lo ≤ x) (h2 : x ≤ hi)
    (h : x < env'.toks.size) : i < env.toks.size := by subst e; exact S.szb x h1 h2 h

theorem timeLit (S : ShiftOK env env' d lo hi) (t : Token) : env'.timeLit t = env.timeLit t := by
  unfold PEnv.timeLit; rw [S.times]

end ShiftOK

/-- `j = j' + d` for the end of a non-empty range that starts at `i' + d` -/
theorem exists_shift {i' d j : Nat} (h : i' + d < j) : ∃ j', j = j' + d ∧ i' < j' :=
  ⟨j - d, by omega, by omega⟩
theorem exists_shift_le {i' d j : Nat} (h : i' + d ≤ j) : ∃ j', j = j' + d ∧ i' ≤ j' :=
  ⟨j - d, by omega, by omega⟩

mutual
theorem Yields.shift {env env' : PEnv} {d lo hi : Nat} (S : ShiftOK env env' d lo hi) :
    ∀ {t i j}, Yields env t i j → ∀ i' j', i = i' + d → j = j' + d → lo ≤ i' → j' ≤ hi →
      Yields env' t i' j'
  | _, i, _, .ident hn, i', j', hi', hj', h1, h2 => by
    obtain rfl : j' = i' + 1 := by omega
    rw [S.pk' hi' h1 (by omega)]
    exact .ident (S.nud' hn hi' h1 (by omega))
  | _, i, _, .true_ hn, i', j', hi', hj', h1, h2 => by
    obtain rfl : j' = i' + 1 := by omega
    rw [S.pk' hi' h1 (by omega)]
    exact .true_ (S.nud' hn hi' h1 (by omega))
  | _, i, _, .false_ hn, i', j', hi', hj', h1, h2 => by
    obtain rfl : j' = i' + 1 := by omega
    rw [S.pk' hi' h1 (by omega)]
    exact .false_ (S.nud' hn hi' h1 (by omega))
  | _, i, _, .num hn hv, i', j', hi', hj', h1, h2 => by
    obtain rfl : j' = i' + 1 := by omega
    rw [S.pk' hi' h1 (by omega)] at hv ⊢
    exact .num (S.nud' hn hi' h1 (by omega)) hv
  | _, i, _, .str hn hv, i', j', hi', hj', h1, h2 => by
    obtain rfl : j' = i' + 1 := by omega
    rw [S.pk' hi' h1 (by omega)] at hv ⊢
    exact .str (S.nud' hn hi' h1 (by omega)) hv
  | _, i, _, .time hn he, i', j', hi', hj', h1, h2 => by
    obtain rfl : j' = i' + 1 := by omega
    rw [S.pk' hi' h1 (by omega), ← S.timeLit] at he
    exact .time (S.nud' hn hi' h1 (by omega)) he
  | _, i, _, .group (j := j0) hn he hk hr, i', j', hi', hj', h1, h2 => by
    have hb := he.bounds
    obtain ⟨j0', hj0, hlt⟩ := exists_shift (i' := i' + 1) (d := d) (j := j0) (by omega)
    obtain rfl : j' = j0' + 1 := by omega
    rw [S.pk' hi' h1 (by omega), S.pk' hj0 (by omega) (by omega)] at hr
    exact .group (S.nud' hn hi' h1 (by omega)) (he.shift S (i' + 1) j0' (by omega) (by omega) (by omega) (by omega))
      (S.kind' hk (by omega) (by omega) (by omega)) hr
  | _, i, _, .pre hn he hr, i', j', hi', hj', h1, h2 => by
    have hb := he.bounds
    rw [S.pk' hi' h1 (by omega)] at hr ⊢
    exact .pre (S.nud' hn hi' h1 (by omega)) (he.shift S (i' + 1) j' (by omega) (by omega) (by omega) h2) hr
  | _, i, _, .emptyMap hn hc hk hr, i', j', hi', hj', h1, h2 => by
    obtain rfl : j' = i' + 3 := by omega
    rw [S.pk' hi' h1 (by omega),
      S.pk' (i := i + 2) (x := i' + 2) (by omega) (by omega) (by omega)] at hr
    exact .emptyMap (S.nud' hn hi' h1 (by omega))
      (S.kind' (x := i' + 1) hc (by omega) (by omega) (by omega))
      (S.kind' (x := i' + 2) hk (by omega) (by omega) (by omega)) hr
  | _, i, _, .list (j := j0) hn he hk hr, i', j', hi', hj', h1, h2 => by
    have hb := he.bounds
    obtain ⟨j0', hj0, hlt⟩ := exists_shift_le (i' := i' + 1) (d := d) (j := j0) (by omega)
    obtain rfl : j' = j0' + 1 := by omega
    rw [S.pk' hi' h1 (by omega), S.pk' hj0 (by omega) (by omega)] at hr
    exact .list (S.nud' hn hi' h1 (by omega)) (he.shift S (i' + 1) j0' (by omega) (by omega) (by omega) (by omega))
      (S.kind' hk (by omega) (by omega) (by omega)) hr
  | _, i, _, .map (j := j0) hn he hne hk hr, i', j', hi', hj', h1, h2 => by
    have hb := he.bounds
    obtain ⟨j0', hj0, hlt⟩ := exists_shift_le (i' := i' + 1) (d := d) (j := j0) (by omega)
    obtain rfl : j' = j0' + 1 := by omega
    rw [S.pk' hi' h1 (by omega), S.pk' hj0 (by omega) (by omega)] at hr
    exact .map (S.nud' hn hi' h1 (by omega)) (he.shift S (i' + 1) j0' (by omega) (by omega) (by omega) (by omega))
      hne (S.kind' hk (by omega) (by omega) (by omega)) hr
  | _, i, _, .obj (j := j0) hn he hk hr, i', j', hi', hj', h1, h2 => by
    have hb := he.bounds
    obtain ⟨j0', hj0, hlt⟩ := exists_shift_le (i' := i' + 1) (d := d) (j := j0) (by omega)
    obtain rfl : j' = j0' + 1 := by omega
    rw [S.pk' hi' h1 (by omega), S.pk' hj0 (by omega) (by omega)] at hr
    exact .obj (S.nud' hn hi' h1 (by omega)) (he.shift S (i' + 1) j0' (by omega) (by omega) (by omega) (by omega))
      (S.kind' hk (by omega) (by omega) (by omega)) hr
  | _, i, _, .binary (j := j0) hl hd hfx hr hg, i', j', hi', hj', h1, h2 => by
    have hb1 := hl.bounds
    have hb2 := hr.bounds
    obtain ⟨j0', hj0, hlt⟩ := exists_shift (i' := i') (d := d) (j := j0) (by omega)
    rw [S.pk' hj0 (by omega) (by omega)]
    exact .binary (hl.shift S i' j0' (by omega) (by omega) h1 (by omega)) (S.led' hd hj0 (by omega) (by omega)) hfx
      (hr.shift S (j0' + 1) j' (by omega) (by omega) (by omega) h2) hg
  | _, i, _, .post (j := j0) hl hd hg, i', j', hi', hj', h1, h2 => by
    have hb1 := hl.bounds
    obtain ⟨j0', hj0, hlt⟩ := exists_shift (i' := i') (d := d) (j := j0) (by omega)
    obtain rfl : j' = j0' + 1 := by omega
    rw [S.pk' hj0 (by omega) (by omega)] at hg ⊢
    exact .post (hl.shift S i' j0' (by omega) (by omega) h1 (by omega)) (S.led' hd hj0 (by omega) (by omega)) hg
  | _, i, _, .ternary (j := j0) (k := k0) hl hd hm hk hr hg, i', j', hi', hj', h1, h2 => by
    have hb1 := hl.bounds
    have hb2 := hm.bounds
    have hb3 := hr.bounds
    obtain ⟨j0', hj0, hlt⟩ := exists_shift (i' := i') (d := d) (j := j0) (by omega)
    obtain ⟨k0', hk0, hlt2⟩ := exists_shift (i' := j0' + 1) (d := d) (j := k0) (by omega)
    rw [S.pk' hj0 (by omega) (by omega)]
    exact .ternary (hl.shift S i' j0' (by omega) (by omega) h1 (by omega)) (S.led' hd hj0 (by omega) (by omega))
      (hm.shift S (j0' + 1) k0' (by omega) (by omega) (by omega) (by omega))
      (S.kind' hk (by omega) (by omega) (by omega))
      (hr.shift S (k0' + 1) j' (by omega) (by omega) (by omega) h2) hg
  | _, i, _, .call (j := j0) (k := k0) hc hd ha hk hg, i', j', hi', hj', h1, h2 => by
    have hb1 := hc.bounds
    have hb2 := ha.bounds
    obtain ⟨j0', hj0, hlt⟩ := exists_shift (i' := i') (d := d) (j := j0) (by omega)
    obtain ⟨k0', hk0, hlt2⟩ := exists_shift_le (i' := j0' + 1) (d := d) (j := k0) (by omega)
    obtain rfl : j' = k0' + 1 := by omega
    rw [S.pk' hk0 (by omega) (by omega)] at hg
    rw [S.pk' hj0 (by omega) (by omega)]
    exact .call (hc.shift S i' j0' (by omega) (by omega) h1 (by omega)) (S.led' hd hj0 (by omega) (by omega))
      (ha.shift S (j0' + 1) k0' (by omega) (by omega) (by omega) (by omega))
      (S.kind' hk (by omega) (by omega) (by omega)) hg
  | _, i, _, .methodCall (j := j0) (k := k0) hc hm hp ha hk hg, i', j', hi', hj', h1, h2 => by
    have hb1 := hc.bounds
    have hb2 := ha.bounds
    obtain ⟨j0', hj0, hlt⟩ := exists_shift (i' := i') (d := d) (j := j0) (by omega)
    obtain ⟨k0', hk0, hlt2⟩ := exists_shift_le (i' := j0' + 1) (d := d) (j := k0) (by omega)
    obtain rfl : j' = k0' + 1 := by omega
    rw [S.pk' hk0 (by omega) (by omega)] at hg
    rw [S.pk' hj0 (by omega) (by omega)]
    exact .methodCall (hc.shift S i' j0' (by omega) (by omega) h1 (by omega)) hm (S.kind' hp (by omega) (by omega) (by omega))
      (ha.shift S (j0' + 1) k0' (by omega) (by omega) (by omega) (by omega))
      (S.kind' hk (by omega) (by omega) (by omega)) hg
  | _, i, _, .member (j := j0) hl hd hi hg, i', j', hi', hj', h1, h2 => by
    have hb1 := hl.bounds
    obtain ⟨j0', hj0, hlt⟩ := exists_shift (i' := i') (d := d) (j := j0) (by omega)
    obtain rfl : j' = j0' + 2 := by omega
    rw [S.pk' (i := j0 + 1) (x := j0' + 1) (by omega) (by omega) (by omega)] at hg ⊢
    rw [S.pk' hj0 (by omega) (by omega)]
    exact .member (hl.shift S i' j0' (by omega) (by omega) h1 (by omega))
      (S.led' hd hj0 (by omega) (by omega))
      (S.szf' (i := j0 + 1) (x := j0' + 1) (by omega) (by omega) (by omega) hi) hg
  | _, i, _, .memberEOF (j := j0) hl hd hi hg, i', j', hi', hj', h1, h2 => by
    have hb1 := hl.bounds
    obtain ⟨j0', hj0, hlt⟩ := exists_shift (i' := i') (d := d) (j := j0) (by omega)
    obtain rfl : j' = j0' + 1 := by omega
    rw [S.pk' hj0 (by omega) (by omega)]
    have s1 := S.szf' (i := j0) (x := j0') hj0 (by omega) (by omega) (by omega)
    have s2 := S.szb' (i := j0 + 1) (x := j0' + 1) (by omega) (by omega) (by omega)
    exact .memberEOF (hl.shift S i' j0' (by omega) (by omega) h1 (by omega)) (S.led' hd hj0 (by omega) (by omega))
      (by omega) hg
  | _, i, _, .subscript (j := j0) (k := k0) hv hd hx hk hg, i', j', hi', hj', h1, h2 => by
    have hb1 := hv.bounds
    have hb2 := hx.bounds
    obtain ⟨j0', hj0, hlt⟩ := exists_shift (i' := i') (d := d) (j := j0) (by omega)
    obtain ⟨k0', hk0, hlt2⟩ := exists_shift (i' := j0' + 1) (d := d) (j := k0) (by omega)
    obtain rfl : j' = k0' + 1 := by omega
    rw [S.pk' hk0 (by omega) (by omega)] at hg
    rw [S.pk' hj0 (by omega) (by omega)]
    exact .subscript (hv.shift S i' j0' (by omega) (by omega) h1 (by omega)) (S.led' hd hj0 (by omega) (by omega))
      (hx.shift S (j0' + 1) k0' (by omega) (by omega) (by omega) (by omega))
      (S.kind' hk (by omega) (by omega) (by omega)) hg
theorem YArgs.shift {env env' : PEnv} {d lo hi : Nat} (S : ShiftOK env env' d lo hi) :
    ∀ {as i j}, YArgs env as i j → ∀ i' j', i = i' + d → j = j' + d → lo ≤ i' → j' ≤ hi →
      YArgs env' as i' j'
  | _, _, _, .nil, i', j', hi', hj', _, _ => by
    obtain rfl : i' = j' := by omega
    exact .nil
  | _, i, _, .some h, i', j', hi', hj', h1, h2 => .some (h.shift S i' j' hi' hj' h1 h2)
theorem YSeq.shift {env env' : PEnv} {d lo hi : Nat} (S : ShiftOK env env' d lo hi) :
    ∀ {as i j}, YSeq env as i j → ∀ i' j', i = i' + d → j = j' + d → lo ≤ i' → j' ≤ hi →
      YSeq env' as i' j'
  | _, i, _, .one h, i', j', hi', hj', h1, h2 => .one (h.shift S i' j' hi' hj' h1 h2)
  | _, i, _, .cons (j := j0) h hc hs, i', j', hi', hj', h1, h2 => by
    have hb1 := h.bounds
    have hb2 := hs.bounds
    obtain ⟨j0', hj0, hlt⟩ := exists_shift (i' := i') (d := d) (j := j0) (by omega)
    exact .cons (h.shift S i' j0' (by omega) (by omega) h1 (by omega)) (S.kind' hc (by omega) (by omega) (by omega))
      (hs.shift S (j0' + 1) j' (by omega) (by omega) (by omega) h2)
theorem YElems.shift {env env' : PEnv} {d lo hi : Nat} (S : ShiftOK env env' d lo hi) :
    ∀ {as i j}, YElems env as i j → ∀ i' j', i = i' + d → j = j' + d → lo ≤ i' → j' ≤ hi →
      YElems env' as i' j'
  | _, _, _, .nil, i', j', hi', hj', _, _ => by
    obtain rfl : i' = j' := by omega
    exact .nil
  | _, i, _, .one h, i', j', hi', hj', h1, h2 => .one (h.shift S i' j' hi' hj' h1 h2)
  | _, i, _, .cons (j := j0) h hc hs, i', j', hi', hj', h1, h2 => by
    have hb1 := h.bounds
    have hb2 := hs.bounds
    obtain ⟨j0', hj0, hlt⟩ := exists_shift (i' := i') (d := d) (j := j0) (by omega)
    exact .cons (h.shift S i' j0' (by omega) (by omega) h1 (by omega)) (S.kind' hc (by omega) (by omega) (by omega))
      (hs.shift S (j0' + 1) j' (by omega) (by omega) (by omega) h2)
theorem YPairs.shift {env env' : PEnv} {d lo hi : Nat} (S : ShiftOK env env' d lo hi) :
    ∀ {ps i j}, YPairs env ps i j → ∀ i' j', i = i' + d → j = j' + d → lo ≤ i' → j' ≤ hi →
      YPairs env' ps i' j'
  | _, _, _, .nil, i', j', hi', hj', _, _ => by
    obtain rfl : i' = j' := by omega
    exact .nil
  | _, i, _, .one (j := j0) hk hc hv, i', j', hi', hj', h1, h2 => by
    have hb1 := hk.bounds
    have hb2 := hv.bounds
    obtain ⟨j0', hj0, hlt⟩ := exists_shift (i' := i') (d := d) (j := j0) (by omega)
    exact .one (hk.shift S i' j0' (by omega) (by omega) h1 (by omega)) (S.kind' hc (by omega) (by omega) (by omega))
      (hv.shift S (j0' + 1) j' (by omega) (by omega) (by omega) h2)
  | _, i, _, .cons (j := j0) (m := m0) hk hc hv hcm hs, i', j', hi', hj', h1, h2 => by
    have hb1 := hk.bounds
    have hb2 := hv.bounds
    have hb3 := hs.bounds
    obtain ⟨j0', hj0, hlt⟩ := exists_shift (i' := i') (d := d) (j := j0) (by omega)
    obtain ⟨m0', hm0, hlt2⟩ := exists_shift (i' := j0' + 1) (d := d) (j := m0) (by omega)
    exact .cons (hk.shift S i' j0' (by omega) (by omega) h1 (by omega)) (S.kind' hc (by omega) (by omega) (by omega))
      (hv.shift S (j0' + 1) m0' (by omega) (by omega) (by omega) (by omega))
      (S.kind' hcm (by omega) (by omega) (by omega))
      (hs.shift S (m0' + 1) j' (by omega) (by omega) (by omega) h2)
theorem YFields.shift {env env' : PEnv} {d lo hi : Nat} (S : ShiftOK env env' d lo hi) :
    ∀ {fs i j}, YFields env fs i j → ∀ i' j', i = i' + d → j = j' + d → lo ≤ i' → j' ≤ hi →
      YFields env' fs i' j'
  | _, _, _, .nil, i', j', hi', hj', _, _ => by
    obtain rfl : i' = j' := by omega
    exact .nil
  | _, i, _, .one hn hc hv, i', j', hi', hj', h1, h2 => by
    have hb2 := hv.bounds
    rw [S.pk' hi' h1 (by omega)]
    exact .one (S.kind' hn hi' h1 (by omega))
      (S.kind' (x := i' + 1) hc (by omega) (by omega) (by omega))
      (hv.shift S (i' + 2) j' (by omega) (by omega) (by omega) h2)
  | _, i, _, .cons (j := j0) hn hc hv hcm hs, i', j', hi', hj', h1, h2 => by
    have hb2 := hv.bounds
    have hb3 := hs.bounds
    obtain ⟨j0', hj0, hlt⟩ := exists_shift (i' := i' + 2) (d := d) (j := j0) (by omega)
    rw [S.pk' hi' h1 (by omega)]
    exact .cons (S.kind' hn hi' h1 (by omega))
      (S.kind' (x := i' + 1) hc (by omega) (by omega) (by omega))
      (hv.shift S (i' + 2) j0' (by omega) (by omega) (by omega) (by omega))
      (S.kind' hcm (by omega) (by omega) (by omega))
      (hs.shift S (j0' + 1) j' (by omega) (by omega) (by omega) h2)
end

end Yae
