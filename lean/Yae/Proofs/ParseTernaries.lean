/-
  A tree read off tokens whose `?` tokens carry their kind as lexeme has every ternary node named
  `?` (`Expr.ternariesOk`): `trans.Desugar` does not reach its `Unreachable()` on parsed input.
-/
import Yae.Proofs.ParseYieldAll
import Yae.Proofs.ParseRespectsSound
import Yae.Model.Desugar
namespace Yae

/-- the token under a `question` led is named `?` -/
def PEnv.QuestionNamed (env : PEnv) : Prop :=
  ∀ j bp, env.ledAt j bp .question → (env.peek j).lexeme = "?"

theorem ternariesOkList_ofList (l : List Expr) :
    ternariesOkList (ExprList.ofList l) = l.all Expr.ternariesOk := by
  induction l with
  | nil => rfl
  | cons e es ih => simp [ExprList.ofList, ternariesOkList, ih]

theorem ternariesOkPairs_ofList (l : List (Expr × Expr)) :
    ternariesOkPairs (PairList.ofList l) = l.all (fun kv => kv.1.ternariesOk && kv.2.ternariesOk) := by
  induction l with
  | nil => rfl
  | cons e es ih => obtain ⟨k, v⟩ := e; simp [PairList.ofList, ternariesOkPairs, ih, Bool.and_assoc]

theorem ternariesOkFields_ofList (l : List (String × Expr)) :
    ternariesOkFields (FieldEList.ofList l) = l.all (fun nv => nv.2.ternariesOk) := by
  induction l with
  | nil => rfl
  | cons e es ih => obtain ⟨k, v⟩ := e; simp [FieldEList.ofList, ternariesOkFields, ih]

mutual
theorem Yields.ternariesOk {env : PEnv} (hq : env.QuestionNamed) :
    ∀ {t i j}, Yields env t i j → t.ternariesOk = true
  | _, _, _, .ident _ => rfl
  | _, _, _, .true_ _ => rfl
  | _, _, _, .false_ _ => rfl
  | _, _, _, .num _ _ => rfl
  | _, _, _, .str _ _ => rfl
  | _, _, _, .time _ he => by
    obtain ⟨v, rfl⟩ := timeLit_ok he
    rfl
  | _, _, _, .group _ he _ _ => by simp [Expr.ternariesOk, he.ternariesOk hq]
  | _, _, _, .pre _ he _ => by simp [Expr.ternariesOk, he.ternariesOk hq]
  | _, _, _, .emptyMap _ _ _ _ => rfl
  | _, _, _, .list _ he _ _ => by
    simp only [Expr.ternariesOk, ternariesOkList_ofList]; exact he.ternariesOk hq
  | _, _, _, .map _ he _ _ _ => by
    simp only [Expr.ternariesOk, ternariesOkPairs_ofList]; exact he.ternariesOk hq
  | _, _, _, .obj _ he _ _ => by
    simp only [Expr.ternariesOk, ternariesOkFields_ofList]; exact he.ternariesOk hq
  | _, _, _, .binary hl _ _ hr _ => by
    simp [Expr.ternariesOk, hl.ternariesOk hq, hr.ternariesOk hq]
  | _, _, _, .post hl _ _ => by simp [Expr.ternariesOk, hl.ternariesOk hq]
  | _, _, _, .ternary hl hd hm _ hr _ => by
    simp [Expr.ternariesOk, hl.ternariesOk hq, hm.ternariesOk hq, hr.ternariesOk hq, hq _ _ hd]
  | _, _, _, .call hc _ ha _ _ => by
    simp only [Expr.ternariesOk, ternariesOkList_ofList, hc.ternariesOk hq, Bool.true_and]
    exact ha.ternariesOk hq
  | _, _, _, .methodCall hc _ _ ha _ _ => by
    simp only [Expr.ternariesOk, ternariesOkList_ofList, hc.ternariesOk hq, Bool.true_and]
    exact ha.ternariesOk hq
  | _, _, _, .member ho _ _ _ => by simp [Expr.ternariesOk, ho.ternariesOk hq]
  | _, _, _, .memberEOF ho _ _ _ => by simp [Expr.ternariesOk, ho.ternariesOk hq]
  | _, _, _, .subscript hv _ hi _ _ => by
    simp [Expr.ternariesOk, hv.ternariesOk hq, hi.ternariesOk hq]
theorem YArgs.ternariesOk {env : PEnv} (hq : env.QuestionNamed) :
    ∀ {as i j}, YArgs env as i j → as.all Expr.ternariesOk = true
  | _, _, _, .nil => rfl
  | _, _, _, .some h => h.ternariesOk hq
theorem YSeq.ternariesOk {env : PEnv} (hq : env.QuestionNamed) :
    ∀ {as i j}, YSeq env as i j → as.all Expr.ternariesOk = true
  | _, _, _, .one h => by simp [h.ternariesOk hq]
  | _, _, _, .cons h _ hs => by simp [h.ternariesOk hq, hs.ternariesOk hq]
theorem YElems.ternariesOk {env : PEnv} (hq : env.QuestionNamed) :
    ∀ {as i j}, YElems env as i j → as.all Expr.ternariesOk = true
  | _, _, _, .nil => rfl
  | _, _, _, .one h => by simp [h.ternariesOk hq]
  | _, _, _, .cons h _ hs => by simp [h.ternariesOk hq, hs.ternariesOk hq]
theorem YPairs.ternariesOk {env : PEnv} (hq : env.QuestionNamed) :
    ∀ {ps i j}, YPairs env ps i j →
      ps.all (fun kv => kv.1.ternariesOk && kv.2.ternariesOk) = true
  | _, _, _, .nil => rfl
  | _, _, _, .one hk _ hv => by simp [hk.ternariesOk hq, hv.ternariesOk hq]
  | _, _, _, .cons hk _ hv _ hs => by
    simp [hk.ternariesOk hq, hv.ternariesOk hq, hs.ternariesOk hq]
theorem YFields.ternariesOk {env : PEnv} (hq : env.QuestionNamed) :
    ∀ {fs i j}, YFields env fs i j → fs.all (fun nv => nv.2.ternariesOk) = true
  | _, _, _, .nil => rfl
  | _, _, _, .one _ _ hv => by simp [hv.ternariesOk hq]
  | _, _, _, .cons _ _ hv _ hs => by simp [hv.ternariesOk hq, hs.ternariesOk hq]
end

end Yae

namespace Yae

/-- the `question` led sits under the kind `?` only -/
theorem newGrammar_question (ops : List Operator) {k : String} {bp : BP}
    (h : tableLookup k (newGrammar ops).infixs = some (bp, .question)) : k = "?" := by
  have hp := preGrammar_leds ops
  rw [newGrammar_eq] at h
  simp only [Grammar.infix, tableLookup] at h
  repeat' split at h
  all_goals first
    | (have := hp _ _ _ h; simp at this)
    | (rename_i hk; exact (beq_iff_eq.mp hk).symm)
    | (cases h)

theorem OpLexemes.questionNamed {ops : List Operator} {times : List (String × Int)}
    {toks : List Token} (h : OpLexemes ops toks) : (mkEnv ops times toks).QuestionNamed := by
  intro j bp ⟨hj, hl⟩
  have hk : ((mkEnv ops times toks).peek j).kind = "?" := newGrammar_question ops hl
  have := h.env (times := times) j hj (Or.inr ⟨bp, .question, hl⟩)
  rw [this, hk]

/-- **`trans.Desugar` is defined on every tree the parser returns** (for tokens whose operator
tokens carry their kind as lexeme, e.g. lexed input): no ternary node is named otherwise than `?` -/
theorem parse_ternariesOk {ops : List Operator} (hops : ∀ o ∈ ops, o.kind ≠ "<END-OF-FILE>")
    {times : List (String × Int)} {toks : List Token} (hL : OpLexemes ops toks) {t : Expr}
    (h : parse ops times toks = .ok t) : t.ternariesOk = true := by
  obtain ⟨j, hy, _⟩ := parseWith_yields (show PEnv.NoEOF (mkEnv ops times toks) from newGrammar_noEOF hops) h
  exact hy.ternariesOk hL.questionNamed

end Yae
