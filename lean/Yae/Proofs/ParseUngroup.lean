/-
  C08, stage 3: deleting a pair of parentheses.  `UG p e t t'`: the tree `t'` is the tree `t` with
  one occurrence of the node `Group p e` replaced by its body `e`; the spans recorded at the
  ancestors of that node may differ (a span that started with the `(` or ended with the `)` now
  starts / ends with the body), everything else is the same.
-/
import Yae.Proofs.ParseShift
namespace Yae

mutual
inductive UG (p : Pos) (e : Expr) : Expr → Expr → Prop
  | here : UG p e (.group p e) e
  | group {q q' x x'} : UG p e x x' → UG p e (.group q x) (.group q' x')
  | unary {q q' n np x x' pre} : UG p e x x' → UG p e (.unary q n np x pre) (.unary q' n np x' pre)
  | binL {q q' n np fx l l' r} : UG p e l l' →
      UG p e (.binary q n np fx l r) (.binary q' n np fx l' r)
  | binR {q q' n np fx l r r'} : UG p e r r' →
      UG p e (.binary q n np fx l r) (.binary q' n np fx l r')
  | ternL {q q' n np l l' m r} : UG p e l l' →
      UG p e (.ternary q n np l m r) (.ternary q' n np l' m r)
  | ternM {q q' n np l m m' r} : UG p e m m' →
      UG p e (.ternary q n np l m r) (.ternary q' n np l m' r)
  | ternR {q q' n np l m r r'} : UG p e r r' →
      UG p e (.ternary q n np l m r) (.ternary q' n np l m r')
  | callee {q q' col c c' as a b d} : UG p e c c' →
      UG p e (.call q col c as a b d) (.call q' col c' as a b d)
  | args {q q' col c as as' a b d} : UGL p e as as' →
      UG p e (.call q col c as a b d) (.call q' col c as' a b d)
  | member {q q' col o o' f fp a b} : UG p e o o' →
      UG p e (.member q col o f fp a b) (.member q' col o' f fp a b)
  | subV {q q' col v v' ix a} : UG p e v v' →
      UG p e (.subscript q col v ix a) (.subscript q' col v' ix a)
  | subI {q q' col v ix ix' a} : UG p e ix ix' →
      UG p e (.subscript q col v ix a) (.subscript q' col v ix' a)
  | list {q q' es es' ty} : UGL p e es es' → UG p e (.list q es ty) (.list q' es' ty)
  | map {q q' ps ps' ty} : UGP p e ps ps' → UG p e (.map q ps ty) (.map q' ps' ty)
  | obj {q q' fs fs' ty} : UGF p e fs fs' → UG p e (.obj q fs ty) (.obj q' fs' ty)
inductive UGL (p : Pos) (e : Expr) : ExprList → ExprList → Prop
  | head {x x' xs} : UG p e x x' → UGL p e (.cons x xs) (.cons x' xs)
  | tail {x xs xs'} : UGL p e xs xs' → UGL p e (.cons x xs) (.cons x xs')
inductive UGP (p : Pos) (e : Expr) : PairList → PairList → Prop
  | key {k k' v ps} : UG p e k k' → UGP p e (.cons k v ps) (.cons k' v ps)
  | val {k v v' ps} : UG p e v v' → UGP p e (.cons k v ps) (.cons k v' ps)
  | tail {k v ps ps'} : UGP p e ps ps' → UGP p e (.cons k v ps) (.cons k v ps')
inductive UGF (p : Pos) (e : Expr) : FieldEList → FieldEList → Prop
  | head {n x x' fs} : UG p e x x' → UGF p e (.cons n x fs) (.cons n x' fs)
  | tail {n x fs fs'} : UGF p e fs fs' → UGF p e (.cons n x fs) (.cons n x fs')
end

/-! ## inversion (stated so that nothing is substituted in the tree that is taken apart) -/

theorem UG.inv_group {p e q x t0} (h : UG p e (.group q x) t0) :
    (q = p ∧ x = e) ∨ ∃ x', UG p e x x' := by
  cases h with
  | here => exact .inl ⟨rfl, rfl⟩
  | group h => exact .inr ⟨_, h⟩
theorem UG.inv_unary {p e q n np x pre t0} (h : UG p e (.unary q n np x pre) t0) :
    ∃ x', UG p e x x' := by
  cases h with | unary h => exact ⟨_, h⟩
theorem UG.inv_binary {p e q n np fx l r t0} (h : UG p e (.binary q n np fx l r) t0) :
    (∃ l', UG p e l l') ∨ ∃ r', UG p e r r' := by
  cases h with
  | binL h => exact .inl ⟨_, h⟩
  | binR h => exact .inr ⟨_, h⟩
theorem UG.inv_ternary {p e q n np l m r t0} (h : UG p e (.ternary q n np l m r) t0) :
    (∃ l', UG p e l l') ∨ (∃ m', UG p e m m') ∨ ∃ r', UG p e r r' := by
  cases h with
  | ternL h => exact .inl ⟨_, h⟩
  | ternM h => exact .inr (.inl ⟨_, h⟩)
  | ternR h => exact .inr (.inr ⟨_, h⟩)
theorem UG.inv_call {p e q col c as a b d t0} (h : UG p e (.call q col c as a b d) t0) :
    (∃ c', UG p e c c') ∨ ∃ as', UGL p e as as' := by
  cases h with
  | callee h => exact .inl ⟨_, h⟩
  | args h => exact .inr ⟨_, h⟩
theorem UG.inv_member {p e q col o f fp a b t0} (h : UG p e (.member q col o f fp a b) t0) :
    ∃ o', UG p e o o' := by
  cases h with | member h => exact ⟨_, h⟩
theorem UG.inv_subscript {p e q col v ix a t0} (h : UG p e (.subscript q col v ix a) t0) :
    (∃ v', UG p e v v') ∨ ∃ ix', UG p e ix ix' := by
  cases h with
  | subV h => exact .inl ⟨_, h⟩
  | subI h => exact .inr ⟨_, h⟩
theorem UG.inv_list {p e q es ty t0} (h : UG p e (.list q es ty) t0) : ∃ es', UGL p e es es' := by
  cases h with | list h => exact ⟨_, h⟩
theorem UG.inv_map {p e q ps ty t0} (h : UG p e (.map q ps ty) t0) : ∃ ps', UGP p e ps ps' := by
  cases h with | map h => exact ⟨_, h⟩
theorem UG.inv_obj {p e q fs ty t0} (h : UG p e (.obj q fs ty) t0) : ∃ fs', UGF p e fs fs' := by
  cases h with | obj h => exact ⟨_, h⟩
theorem UGL.inv {p e x xs X} (h : UGL p e (.cons x xs) X) :
    (∃ x', UG p e x x') ∨ ∃ xs', UGL p e xs xs' := by
  cases h with
  | head h => exact .inl ⟨_, h⟩
  | tail h => exact .inr ⟨_, h⟩
theorem UGL.inv_nil {p e X} (h : UGL p e .nil X) : False := by cases h
theorem UGP.inv {p e k v ps X} (h : UGP p e (.cons k v ps) X) :
    (∃ k', UG p e k k') ∨ (∃ v', UG p e v v') ∨ ∃ ps', UGP p e ps ps' := by
  cases h with
  | key h => exact .inl ⟨_, h⟩
  | val h => exact .inr (.inl ⟨_, h⟩)
  | tail h => exact .inr (.inr ⟨_, h⟩)
theorem UGP.inv_nil {p e X} (h : UGP p e .nil X) : False := by cases h
theorem UGF.inv {p e n x fs X} (h : UGF p e (.cons n x fs) X) :
    (∃ x', UG p e x x') ∨ ∃ fs', UGF p e fs fs' := by
  cases h with
  | head h => exact .inl ⟨_, h⟩
  | tail h => exact .inr ⟨_, h⟩
theorem UGF.inv_nil {p e X} (h : UGF p e .nil X) : False := by cases h

theorem UG.isMember {p e c c'} (h : UG p e c c') (hm : c.isMember = true) : c'.isMember = true := by
  cases h <;> first | rfl | (simp [Expr.isMember] at hm)

/-! ## spans determine ranges -/

theorem PEnv.Span.inj {env : PEnv} (ho : env.Ordered) {q : Pos} {i j a b : Nat}
    (h1 : env.Span q i j) (h2 : env.Span q a b) : i = a ∧ j = b := by
  obtain ⟨f1, f2, f3⟩ := h1.facts ho
  obtain ⟨g1, g2, g3⟩ := h2.facts ho
  have hi := h1.1; have hj := h1.2.1; have ha := h2.1; have hb := h2.2.1
  constructor
  · by_cases h : i = a
    · exact h
    · exfalso
      rcases Nat.lt_or_gt_of_ne h with h | h
      · have := ho.apart i a h (by omega); have := ho.nonempty i (by omega); omega
      · have := ho.apart a i h (by omega); have := ho.nonempty a (by omega); omega
  · by_cases h : j = b
    · exact h
    · exfalso
      rcases Nat.lt_or_gt_of_ne h with h | h
      · have := ho.apart (j - 1) (b - 1) (by omega) (by omega)
        have := ho.nonempty (b - 1) (by omega); omega
      · have := ho.apart (b - 1) (j - 1) (by omega) (by omega)
        have := ho.nonempty (j - 1) (by omega); omega

/-- in an ordered environment `pos.Range` of two spans in order succeeds -/
theorem range_ex {env : PEnv} (ho : env.Ordered) {q1 q2 : Pos} {i j i' k : Nat}
    (h1 : env.Span q1 i j) (h2 : env.Span q2 i' k) (h : i ≤ i') : ∃ rg, Pos.range q1 q2 = .ok rg := by
  obtain ⟨f1, _, _⟩ := h1.facts ho
  obtain ⟨g1, _, _⟩ := h2.facts ho
  have := ho.start_mono h (show i' < env.toks.size by have := h2.1; have := h2.2.1; omega)
  unfold Pos.range
  rw [if_pos (by omega)]
  exact ⟨_, rfl⟩

end Yae
