/-
  C08, stage 3: the yield of a tree along the deletion of a pair of parentheses.
  `Del env env' a b`: `env'` is `env` without the tokens `a` (the `(`) and `b` (the `)`).
  If `Group p e` yields `[a, b+1)` and occurs in `t` (`UG p e t _`), then the tree `t'` without it
  yields the corresponding range of `env'`.
-/
import Yae.Proofs.ParseUngroup
namespace Yae

structure Del (env env' : PEnv) (a b : Nat) : Prop where
  ho : env.Ordered
  ho' : env'.Ordered
  s0 : ShiftOK env env' 0 0 a
  s1 : ShiftOK env env' 1 a (b - 1)
  s2 : ShiftOK env env' 2 (b - 1) env'.toks.size
  hab : a + 2 ≤ b
  sz : env.toks.size = env'.toks.size + 2
  hb : b < env.toks.size

namespace Del
variable {env env' : PEnv} {a b : Nat}

theorem tokL (D : Del env env' a b) {x : Nat} (hx : x < a) :
    x < env'.toks.size ∧ env.peek x = env'.peek x :=
  ⟨by have := D.sz; have := D.hab; have := D.hb; omega,
    D.s0.pk x (Nat.zero_le _) hx⟩

theorem tokR (D : Del env env' a b) {x : Nat} (hx : b + 1 ≤ x) (hlt : x < env.toks.size) :
    ∃ x', x = x' + 2 ∧ x' < env'.toks.size ∧ env.peek x = env'.peek x' := by
  have := D.sz
  have := D.hab
  refine ⟨x - 2, by omega, by omega, ?_⟩
  have := D.s2.pk (x - 2) (by omega) (by omega)
  rwa [show x - 2 + 2 = x by omega] at this

theorem tokR' (D : Del env env' a b) {x x' : Nat} (e : x = x' + 2) (hx : b + 1 ≤ x)
    (hlt : x < env.toks.size) : x' < env'.toks.size ∧ env.peek x = env'.peek x' := by
  obtain ⟨x'', e', h1, h2⟩ := D.tokR hx hlt
  obtain rfl : x'' = x' := by omega
  exact ⟨h1, h2⟩

theorem left (D : Del env env' a b) {t i j} (h : Yields env t i j) (hj : j ≤ a) :
    Yields env' t i j := h.shift D.s0 i j rfl rfl (Nat.zero_le _) hj
theorem right (D : Del env env' a b) {t i j i' j'} (h : Yields env t i j) (hi : b + 1 ≤ i)
    (e1 : i = i' + 2) (e2 : j = j' + 2) : Yields env' t i' j' :=
  h.shift D.s2 i' j' e1 e2 (by omega) (by have := h.bounds; have := D.sz; omega)
theorem leftA (D : Del env env' a b) {t i j} (h : YArgs env t i j) (hj : j ≤ a) :
    YArgs env' t i j := h.shift D.s0 i j rfl rfl (Nat.zero_le _) hj
theorem rightA (D : Del env env' a b) {t i j i' j'} (h : YArgs env t i j) (hi : b + 1 ≤ i)
    (hs : j ≤ env.toks.size) (e1 : i = i' + 2) (e2 : j = j' + 2) : YArgs env' t i' j' :=
  h.shift D.s2 i' j' e1 e2 (by omega) (by have := D.sz; omega)
theorem leftS (D : Del env env' a b) {t i j} (h : YSeq env t i j) (hj : j ≤ a) :
    YSeq env' t i j := h.shift D.s0 i j rfl rfl (Nat.zero_le _) hj
theorem rightS (D : Del env env' a b) {t i j i' j'} (h : YSeq env t i j) (hi : b + 1 ≤ i)
    (hs : j ≤ env.toks.size) (e1 : i = i' + 2) (e2 : j = j' + 2) : YSeq env' t i' j' :=
  h.shift D.s2 i' j' e1 e2 (by omega) (by have := D.sz; omega)
theorem leftE (D : Del env env' a b) {t i j} (h : YElems env t i j) (hj : j ≤ a) :
    YElems env' t i j := h.shift D.s0 i j rfl rfl (Nat.zero_le _) hj
theorem rightE (D : Del env env' a b) {t i j i' j'} (h : YElems env t i j) (hi : b + 1 ≤ i)
    (hs : j ≤ env.toks.size) (e1 : i = i' + 2) (e2 : j = j' + 2) : YElems env' t i' j' :=
  h.shift D.s2 i' j' e1 e2 (by omega) (by have := D.sz; omega)
theorem leftP (D : Del env env' a b) {t i j} (h : YPairs env t i j) (hj : j ≤ a) :
    YPairs env' t i j := h.shift D.s0 i j rfl rfl (Nat.zero_le _) hj
theorem rightP (D : Del env env' a b) {t i j i' j'} (h : YPairs env t i j) (hi : b + 1 ≤ i)
    (hs : j ≤ env.toks.size) (e1 : i = i' + 2) (e2 : j = j' + 2) : YPairs env' t i' j' :=
  h.shift D.s2 i' j' e1 e2 (by omega) (by have := D.sz; omega)
theorem leftF (D : Del env env' a b) {t i j} (h : YFields env t i j) (hj : j ≤ a) :
    YFields env' t i j := h.shift D.s0 i j rfl rfl (Nat.zero_le _) hj
theorem rightF (D : Del env env' a b) {t i j i' j'} (h : YFields env t i j) (hi : b + 1 ≤ i)
    (hs : j ≤ env.toks.size) (e1 : i = i' + 2) (e2 : j = j' + 2) : YFields env' t i' j' :=
  h.shift D.s2 i' j' e1 e2 (by omega) (by have := D.sz; omega)

end Del

theorem PEnv.kindAt.tr {env env' : PEnv} {x x' : Nat} {k : String} (h : env.kindAt x k)
    (hp : env.peek x = env'.peek x') (hs : x' < env'.toks.size) : env'.kindAt x' k :=
  ⟨hs, hp ▸ h.2⟩
theorem PEnv.ledAt.tr {env env' : PEnv} {x x' : Nat} {bp : BP} {led : Led} (h : env.ledAt x bp led)
    (hg : env'.g = env.g) (hp : env.peek x = env'.peek x') (hs : x' < env'.toks.size) :
    env'.ledAt x' bp led := ⟨hs, by rw [← hp, hg]; exact h.2⟩
theorem PEnv.nudAt.tr {env env' : PEnv} {x x' : Nat} {bp : BP} {nud : Nud} (h : env.nudAt x bp nud)
    (hg : env'.g = env.g) (hp : env.peek x = env'.peek x') (hs : x' < env'.toks.size) :
    env'.nudAt x' bp nud := ⟨hs, by rw [← hp, hg]; exact h.2⟩

mutual
theorem Yields.ungroup {env env' : PEnv} {a b : Nat} (D : Del env env' a b) {p : Pos} {e : Expr}
    (hG : Yields env (.group p e) a (b + 1)) :
    ∀ {t i j}, Yields env t i j → ∀ t0, UG p e t t0 →
      i ≤ a ∧ b + 1 ≤ j ∧ ∃ j' t', j = j' + 2 ∧ UG p e t t' ∧ Yields env' t' i j'
  | _, _, _, .ident _, _, hU => by cases hU
  | _, _, _, .true_ _, _, hU => by cases hU
  | _, _, _, .false_ _, _, hU => by cases hU
  | _, _, _, .num _ _, _, hU => by cases hU
  | _, _, _, .str _ _, _, hU => by cases hU
  | _, _, _, .time _ he, _, hU => by
    obtain ⟨v, hv⟩ := timeLit_ok he
    rw [hv] at hU
    cases hU
  | _, _, _, .emptyMap _ _ _ _, _, hU => by
    obtain ⟨_, h⟩ := hU.inv_map
    exact (h.inv_nil).elim
  | _, i, _, .group (j := j0) (e := x) (rg := rg) hn he hk hr, _, hU => by
    rcases hU.inv_group with ⟨hq, hx⟩ | ⟨x0, hx0⟩
    · have hs := (Yields.group hn he hk hr).span D.ho
      rw [hq] at hs
      obtain ⟨e1, e2⟩ := hs.inj D.ho (hG.span D.ho)
      have hab := D.hab
      have hy := he.shift D.s1 a (b - 1) (by omega) (by omega) (Nat.le_refl _) (Nat.le_refl _)
      have hUG : UG p e (.group rg x) x := by rw [hq, hx]; exact .here
      exact ⟨by omega, by omega, b - 1, x, by omega, hUG, e1 ▸ hy⟩
    · obtain ⟨h1, h2, j0', x', ej, hUx, hy⟩ := Yields.ungroup D hG he x0 hx0
      obtain ⟨hl, pl⟩ := D.tokL (x := i) (by omega)
      obtain ⟨hr', pr⟩ := D.tokR' (x := j0) (x' := j0') ej (by omega) hk.1
      rw [pl, pr] at hr
      exact ⟨by omega, by omega, j0' + 1, _, by omega, .group hUx,
        .group (hn.tr D.s0.g pl hl) hy (hk.tr pr hr') hr⟩
  | _, i, _, .pre hn he hr, _, hU => by
    obtain ⟨x0, hx0⟩ := hU.inv_unary
    obtain ⟨h1, h2, j', x', ej, hUx, hy⟩ := Yields.ungroup D hG he x0 hx0
    obtain ⟨hl, pl⟩ := D.tokL (x := i) (by omega)
    obtain ⟨rg', hrg⟩ := range_ex D.ho' (env'.span_tok hl) (hy.span D.ho') (Nat.le_succ _)
    have Y := Yields.pre (hn.tr D.s0.g pl hl) hy hrg
    rw [← pl] at Y
    exact ⟨by omega, h2, j', _, ej, .unary hUx, Y⟩
  | _, i, _, .list (j := j0) hn he hk hr, _, hU => by
    obtain ⟨es0, hes0⟩ := hU.inv_list
    obtain ⟨h1, h2, j0', es', ej, hUe, hy⟩ := he.ungroup D hG (Nat.le_of_lt hk.1) es0 hes0
    obtain ⟨hl, pl⟩ := D.tokL (x := i) (by omega)
    obtain ⟨hr', pr⟩ := D.tokR' (x := j0) (x' := j0') ej (by omega) hk.1
    rw [pl, pr] at hr
    exact ⟨by omega, by omega, j0' + 1, _, by omega, .list hUe,
      .list (hn.tr D.s0.g pl hl) hy (hk.tr pr hr') hr⟩
  | _, i, _, .map (j := j0) hn he hne hk hr, _, hU => by
    obtain ⟨ps0, hps0⟩ := hU.inv_map
    obtain ⟨h1, h2, j0', ps', ej, hne', hUe, hy⟩ := he.ungroup D hG (Nat.le_of_lt hk.1) ps0 hps0
    obtain ⟨hl, pl⟩ := D.tokL (x := i) (by omega)
    obtain ⟨hr', pr⟩ := D.tokR' (x := j0) (x' := j0') ej (by omega) hk.1
    rw [pl, pr] at hr
    exact ⟨by omega, by omega, j0' + 1, _, by omega, .map hUe,
      .map (hn.tr D.s0.g pl hl) hy hne' (hk.tr pr hr') hr⟩
  | _, i, _, .obj (j := j0) hn he hk hr, _, hU => by
    obtain ⟨fs0, hfs0⟩ := hU.inv_obj
    obtain ⟨h1, h2, j0', fs', ej, hUe, hy⟩ := he.ungroup D hG (Nat.le_of_lt hk.1) fs0 hfs0
    obtain ⟨hl, pl⟩ := D.tokL (x := i) (by omega)
    obtain ⟨hr', pr⟩ := D.tokR' (x := j0) (x' := j0') ej (by omega) hk.1
    rw [pl, pr] at hr
    exact ⟨by omega, by omega, j0' + 1, _, by omega, .obj hUe,
      .obj (hn.tr D.s0.g pl hl) hy (hk.tr pr hr') hr⟩
  | _, i, j, .binary (j := j0) hl hd hfx hr hg, _, hU => by
    have hbl := hl.bounds
    have hbr := hr.bounds
    rcases hU.inv_binary with ⟨l0, hl0⟩ | ⟨r0, hr0⟩
    · obtain ⟨h1, h2, j0', l', ej, hUl, hyl⟩ := Yields.ungroup D hG hl l0 hl0
      obtain ⟨ht, pt⟩ := D.tokR' (x := j0) (x' := j0') ej (by omega) hd.1
      have hyr := D.right (i' := j0' + 1) (j' := j - 2) hr (by omega) (by omega) (by omega)
      obtain ⟨rg', hrg⟩ := range_ex D.ho' (hyl.span D.ho') (hyr.span D.ho') (by omega)
      have Y := Yields.binary hyl (hd.tr D.s0.g pt ht) hfx hyr hrg
      rw [← pt] at Y
      exact ⟨h1, by omega, j - 2, _, by omega, .binL hUl, Y⟩
    · obtain ⟨h1, h2, j', r', ej, hUr, hyr⟩ := Yields.ungroup D hG hr r0 hr0
      obtain ⟨ht, pt⟩ := D.tokL (x := j0) (by omega)
      have hyl := D.left hl (by omega)
      obtain ⟨rg', hrg⟩ := range_ex D.ho' (hyl.span D.ho') (hyr.span D.ho') (by omega)
      have Y := Yields.binary hyl (hd.tr D.s0.g pt ht) hfx hyr hrg
      rw [← pt] at Y
      exact ⟨by omega, h2, j', _, ej, .binR hUr, Y⟩
  | _, i, _, .post (j := j0) hl hd hg, _, hU => by
    obtain ⟨l0, hl0⟩ := hU.inv_unary
    obtain ⟨h1, h2, j0', l', ej, hUl, hyl⟩ := Yields.ungroup D hG hl l0 hl0
    obtain ⟨ht, pt⟩ := D.tokR' (x := j0) (x' := j0') ej (by omega) hd.1
    obtain ⟨rg', hrg⟩ := range_ex D.ho' (hyl.span D.ho') (env'.span_tok ht)
      (by have := hyl.bounds; omega)
    have Y := Yields.post hyl (hd.tr D.s0.g pt ht) hrg
    rw [← pt] at Y
    exact ⟨h1, by omega, j0' + 1, _, by omega, .unary hUl, Y⟩
  | _, i, j, .ternary (j := j0) (k := k0) hl hd hm hk hr hg, _, hU => by
    have hbl := hl.bounds
    have hbm := hm.bounds
    have hbr := hr.bounds
    rcases hU.inv_ternary with ⟨l0, hl0⟩ | ⟨m0, hm0⟩ | ⟨r0, hr0⟩
    · obtain ⟨h1, h2, j0', l', ej, hUl, hyl⟩ := Yields.ungroup D hG hl l0 hl0
      obtain ⟨ht, pt⟩ := D.tokR' (x := j0) (x' := j0') ej (by omega) hd.1
      obtain ⟨k0', ek, htk, ptk⟩ := D.tokR (x := k0) (by omega) hk.1
      have hym := D.right (i' := j0' + 1) (j' := k0') hm (by omega) (by omega) ek
      have hyr := D.right (i' := k0' + 1) (j' := j - 2) hr (by omega) (by omega) (by omega)
      obtain ⟨rg', hrg⟩ := range_ex D.ho' (hyl.span D.ho') (hyr.span D.ho')
        (by have := hym.bounds; omega)
      have Y := Yields.ternary hyl (hd.tr D.s0.g pt ht) hym (hk.tr ptk htk) hyr hrg
      rw [← pt] at Y
      exact ⟨h1, by omega, j - 2, _, by omega, .ternL hUl, Y⟩
    · obtain ⟨h1, h2, k0', m', ek, hUm, hym⟩ := Yields.ungroup D hG hm m0 hm0
      obtain ⟨ht, pt⟩ := D.tokL (x := j0) (by omega)
      have hyl := D.left hl (by omega)
      obtain ⟨htk, ptk⟩ := D.tokR' (x := k0) (x' := k0') ek (by omega) hk.1
      have hyr := D.right (i' := k0' + 1) (j' := j - 2) hr (by omega) (by omega) (by omega)
      obtain ⟨rg', hrg⟩ := range_ex D.ho' (hyl.span D.ho') (hyr.span D.ho')
        (by have := hym.bounds; omega)
      have Y := Yields.ternary hyl (hd.tr D.s0.g pt ht) hym (hk.tr ptk htk) hyr hrg
      rw [← pt] at Y
      exact ⟨by omega, by omega, j - 2, _, by omega, .ternM hUm, Y⟩
    · obtain ⟨h1, h2, j', r', ej, hUr, hyr⟩ := Yields.ungroup D hG hr r0 hr0
      obtain ⟨ht, pt⟩ := D.tokL (x := j0) (by omega)
      obtain ⟨htk, ptk⟩ := D.tokL (x := k0) (by omega)
      have hyl := D.left hl (by omega)
      have hym := D.left hm (by omega)
      obtain ⟨rg', hrg⟩ := range_ex D.ho' (hyl.span D.ho') (hyr.span D.ho') (by omega)
      have Y := Yields.ternary hyl (hd.tr D.s0.g pt ht) hym (hk.tr ptk htk) hyr hrg
      rw [← pt] at Y
      exact ⟨by omega, h2, j', _, ej, .ternR hUr, Y⟩
  | _, i, _, .call (j := j0) (k := k0) hc hd ha hk hg, _, hU => by
    have hbc := hc.bounds
    have hba := ha.bounds
    rcases hU.inv_call with ⟨c0, hc0⟩ | ⟨as0, has0⟩
    · obtain ⟨h1, h2, j0', c', ej, hUc, hyc⟩ := Yields.ungroup D hG hc c0 hc0
      obtain ⟨ht, pt⟩ := D.tokR' (x := j0) (x' := j0') ej (by omega) hd.1
      obtain ⟨k0', ek, htk, ptk⟩ := D.tokR (x := k0) (by omega) hk.1
      have hya := D.rightA (i' := j0' + 1) (j' := k0') ha (by omega) (Nat.le_of_lt hk.1) (by omega) ek
      obtain ⟨rg', hrg⟩ := range_ex D.ho' (hyc.span D.ho') (env'.span_tok htk)
        (by have := hya.bounds; have := hyc.bounds; omega)
      have Y := Yields.call hyc (hd.tr D.s0.g pt ht) hya (hk.tr ptk htk) hrg
      rw [← pt] at Y
      exact ⟨h1, by omega, k0' + 1, _, by omega, .callee hUc, Y⟩
    · obtain ⟨h1, h2, k0', as', ek, hUa, hya⟩ := ha.ungroup D hG (Nat.le_of_lt hk.1) as0 has0
      obtain ⟨ht, pt⟩ := D.tokL (x := j0) (by omega)
      have hyc := D.left hc (by omega)
      obtain ⟨htk, ptk⟩ := D.tokR' (x := k0) (x' := k0') ek (by omega) hk.1
      obtain ⟨rg', hrg⟩ := range_ex D.ho' (hyc.span D.ho') (env'.span_tok htk)
        (by have := hya.bounds; omega)
      have Y := Yields.call hyc (hd.tr D.s0.g pt ht) hya (hk.tr ptk htk) hrg
      rw [← pt] at Y
      exact ⟨by omega, by omega, k0' + 1, _, by omega, .args hUa, Y⟩
  | _, i, _, .methodCall (j := j0) (k := k0) hc hm hp ha hk hg, _, hU => by
    have hbc := hc.bounds
    have hba := ha.bounds
    rcases hU.inv_call with ⟨c0, hc0⟩ | ⟨as0, has0⟩
    · obtain ⟨h1, h2, j0', c', ej, hUc, hyc⟩ := Yields.ungroup D hG hc c0 hc0
      obtain ⟨ht, pt⟩ := D.tokR' (x := j0) (x' := j0') ej (by omega) hp.1
      obtain ⟨k0', ek, htk, ptk⟩ := D.tokR (x := k0) (by omega) hk.1
      have hya := D.rightA (i' := j0' + 1) (j' := k0') ha (by omega) (Nat.le_of_lt hk.1) (by omega) ek
      obtain ⟨rg', hrg⟩ := range_ex D.ho' (hyc.span D.ho') (env'.span_tok htk)
        (by have := hya.bounds; have := hyc.bounds; omega)
      have Y := Yields.methodCall hyc (hUc.isMember hm) (hp.tr pt ht) hya (hk.tr ptk htk) hrg
      rw [← pt] at Y
      exact ⟨h1, by omega, k0' + 1, _, by omega, .callee hUc, Y⟩
    · obtain ⟨h1, h2, k0', as', ek, hUa, hya⟩ := ha.ungroup D hG (Nat.le_of_lt hk.1) as0 has0
      obtain ⟨ht, pt⟩ := D.tokL (x := j0) (by omega)
      have hyc := D.left hc (by omega)
      obtain ⟨htk, ptk⟩ := D.tokR' (x := k0) (x' := k0') ek (by omega) hk.1
      obtain ⟨rg', hrg⟩ := range_ex D.ho' (hyc.span D.ho') (env'.span_tok htk)
        (by have := hya.bounds; omega)
      have Y := Yields.methodCall hyc hm (hp.tr pt ht) hya (hk.tr ptk htk) hrg
      rw [← pt] at Y
      exact ⟨by omega, by omega, k0' + 1, _, by omega, .args hUa, Y⟩
  | _, i, _, .member (j := j0) hl hd hi hg, _, hU => by
    obtain ⟨o0, ho0⟩ := hU.inv_member
    obtain ⟨h1, h2, j0', o', ej, hUo, hyo⟩ := Yields.ungroup D hG hl o0 ho0
    obtain ⟨ht, pt⟩ := D.tokR' (x := j0) (x' := j0') ej (by omega) hd.1
    obtain ⟨n', en, htn, ptn⟩ := D.tokR (x := j0 + 1) (by omega) hi
    obtain rfl : n' = j0' + 1 := by omega
    obtain ⟨rg', hrg⟩ := range_ex D.ho' (hyo.span D.ho') (env'.span_tok htn)
      (by have := hyo.bounds; omega)
    have Y := Yields.member hyo (hd.tr D.s0.g pt ht) htn hrg
    rw [← pt, ← ptn] at Y
    exact ⟨h1, by omega, j0' + 2, _, by omega, .member hUo, Y⟩
  | _, i, _, .memberEOF (j := j0) hl hd hi hg, _, hU => by
    exfalso
    obtain ⟨hh, _⟩ := range_ok hg
    obtain ⟨g1, g2, g3⟩ := hl.span D.ho
    rw [g3] at hh
    have h5 := D.ho.nonneg _ (Nat.lt_of_lt_of_le g1 g2)
    have h6 : eofToken.pos.idx = -1 := rfl
    rw [h6] at hh
    simp only at hh
    omega
  | _, i, _, .subscript (j := j0) (k := k0) hv hd hx hk hg, _, hU => by
    have hbv := hv.bounds
    have hbx := hx.bounds
    rcases hU.inv_subscript with ⟨v0, hv0⟩ | ⟨x0, hx0⟩
    · obtain ⟨h1, h2, j0', v', ej, hUv, hyv⟩ := Yields.ungroup D hG hv v0 hv0
      obtain ⟨ht, pt⟩ := D.tokR' (x := j0) (x' := j0') ej (by omega) hd.1
      obtain ⟨k0', ek, htk, ptk⟩ := D.tokR (x := k0) (by omega) hk.1
      have hyx := D.right (i' := j0' + 1) (j' := k0') hx (by omega) (by omega) ek
      obtain ⟨rg', hrg⟩ := range_ex D.ho' (hyv.span D.ho') (env'.span_tok htk)
        (by have := hyx.bounds; have := hyv.bounds; omega)
      have Y := Yields.subscript hyv (hd.tr D.s0.g pt ht) hyx (hk.tr ptk htk) hrg
      rw [← pt] at Y
      exact ⟨h1, by omega, k0' + 1, _, by omega, .subV hUv, Y⟩
    · obtain ⟨h1, h2, k0', x', ek, hUx, hyx⟩ := Yields.ungroup D hG hx x0 hx0
      obtain ⟨ht, pt⟩ := D.tokL (x := j0) (by omega)
      have hyv := D.left hv (by omega)
      obtain ⟨htk, ptk⟩ := D.tokR' (x := k0) (x' := k0') ek (by omega) hk.1
      obtain ⟨rg', hrg⟩ := range_ex D.ho' (hyv.span D.ho') (env'.span_tok htk)
        (by have := hyx.bounds; omega)
      have Y := Yields.subscript hyv (hd.tr D.s0.g pt ht) hyx (hk.tr ptk htk) hrg
      rw [← pt] at Y
      exact ⟨by omega, by omega, k0' + 1, _, by omega, .subI hUx, Y⟩
theorem YArgs.ungroup {env env' : PEnv} {a b : Nat} (D : Del env env' a b) {p : Pos} {e : Expr}
    (hG : Yields env (.group p e) a (b + 1)) :
    ∀ {as i j}, YArgs env as i j → j ≤ env.toks.size → ∀ X, UGL p e (ExprList.ofList as) X →
      i ≤ a ∧ b + 1 ≤ j ∧ ∃ j' as', j = j' + 2 ∧
        UGL p e (ExprList.ofList as) (ExprList.ofList as') ∧ YArgs env' as' i j'
  | _, _, _, .nil, _, _, hU => (hU.inv_nil).elim
  | _, _, _, .some h, hs, X, hU => by
    obtain ⟨h1, h2, j', as', ej, hUa, hy⟩ := h.ungroup D hG hs X hU
    exact ⟨h1, h2, j', as', ej, hUa, .some hy⟩
theorem YSeq.ungroup {env env' : PEnv} {a b : Nat} (D : Del env env' a b) {p : Pos} {e : Expr}
    (hG : Yields env (.group p e) a (b + 1)) :
    ∀ {as i j}, YSeq env as i j → j ≤ env.toks.size → ∀ X, UGL p e (ExprList.ofList as) X →
      i ≤ a ∧ b + 1 ≤ j ∧ ∃ j' as', j = j' + 2 ∧
        UGL p e (ExprList.ofList as) (ExprList.ofList as') ∧ YSeq env' as' i j'
  | _, _, _, .one (e := x) h, _, X, hU => by
    rcases UGL.inv (x := x) (xs := .nil) hU with ⟨x0, hx0⟩ | ⟨_, hn⟩
    · obtain ⟨h1, h2, j', x', ej, hUx, hy⟩ := Yields.ungroup D hG h x0 hx0
      exact ⟨h1, h2, j', [x'], ej, .head hUx, .one hy⟩
    · exact (hn.inv_nil).elim
  | _, i, j, .cons (e := x) (es := xs) (j := j0) h hc hs, hsz, X, hU => by
    have hb1 := h.bounds
    have hb2 := hs.bounds
    rcases UGL.inv (x := x) (xs := ExprList.ofList xs) hU with ⟨x0, hx0⟩ | ⟨xs0, hxs0⟩
    · obtain ⟨h1, h2, j0', x', ej, hUx, hy⟩ := Yields.ungroup D hG h x0 hx0
      obtain ⟨ht, pt⟩ := D.tokR' (x := j0) (x' := j0') ej (by omega) hc.1
      have hys := D.rightS (i' := j0' + 1) (j' := j - 2) hs (by omega) hsz (by omega) (by omega)
      exact ⟨h1, by omega, j - 2, x' :: xs, by omega, .head hUx, .cons hy (hc.tr pt ht) hys⟩
    · obtain ⟨h1, h2, j', xs', ej, hUs, hys⟩ := hs.ungroup D hG hsz xs0 hxs0
      obtain ⟨ht, pt⟩ := D.tokL (x := j0) (by omega)
      exact ⟨by omega, h2, j', x :: xs', ej, .tail hUs, .cons (D.left h (by omega)) (hc.tr pt ht) hys⟩
theorem YElems.ungroup {env env' : PEnv} {a b : Nat} (D : Del env env' a b) {p : Pos} {e : Expr}
    (hG : Yields env (.group p e) a (b + 1)) :
    ∀ {as i j}, YElems env as i j → j ≤ env.toks.size → ∀ X, UGL p e (ExprList.ofList as) X →
      i ≤ a ∧ b + 1 ≤ j ∧ ∃ j' as', j = j' + 2 ∧
        UGL p e (ExprList.ofList as) (ExprList.ofList as') ∧ YElems env' as' i j'
  | _, _, _, .nil, _, _, hU => (hU.inv_nil).elim
  | _, _, _, .one (e := x) h, _, X, hU => by
    rcases UGL.inv (x := x) (xs := .nil) hU with ⟨x0, hx0⟩ | ⟨_, hn⟩
    · obtain ⟨h1, h2, j', x', ej, hUx, hy⟩ := Yields.ungroup D hG h x0 hx0
      exact ⟨h1, h2, j', [x'], ej, .head hUx, .one hy⟩
    · exact (hn.inv_nil).elim
  | _, i, j, .cons (e := x) (es := xs) (j := j0) h hc hs, hsz, X, hU => by
    have hb1 := h.bounds
    have hb2 := hs.bounds
    rcases UGL.inv (x := x) (xs := ExprList.ofList xs) hU with ⟨x0, hx0⟩ | ⟨xs0, hxs0⟩
    · obtain ⟨h1, h2, j0', x', ej, hUx, hy⟩ := Yields.ungroup D hG h x0 hx0
      obtain ⟨ht, pt⟩ := D.tokR' (x := j0) (x' := j0') ej (by omega) hc.1
      have hys := D.rightE (i' := j0' + 1) (j' := j - 2) hs (by omega) hsz (by omega) (by omega)
      exact ⟨h1, by omega, j - 2, x' :: xs, by omega, .head hUx, .cons hy (hc.tr pt ht) hys⟩
    · obtain ⟨h1, h2, j', xs', ej, hUs, hys⟩ := hs.ungroup D hG hsz xs0 hxs0
      obtain ⟨ht, pt⟩ := D.tokL (x := j0) (by omega)
      exact ⟨by omega, h2, j', x :: xs', ej, .tail hUs, .cons (D.left h (by omega)) (hc.tr pt ht) hys⟩
theorem YPairs.ungroup {env env' : PEnv} {a b : Nat} (D : Del env env' a b) {p : Pos} {e : Expr}
    (hG : Yields env (.group p e) a (b + 1)) :
    ∀ {ps i j}, YPairs env ps i j → j ≤ env.toks.size → ∀ X, UGP p e (PairList.ofList ps) X →
      i ≤ a ∧ b + 1 ≤ j ∧ ∃ j' ps', j = j' + 2 ∧ ps' ≠ [] ∧
        UGP p e (PairList.ofList ps) (PairList.ofList ps') ∧ YPairs env' ps' i j'
  | _, _, _, .nil, _, _, hU => (hU.inv_nil).elim
  | _, i, j, .one (k := k) (v := v) (j := j0) hk hc hv, _, X, hU => by
    have hb1 := hk.bounds
    have hb2 := hv.bounds
    rcases UGP.inv (k := k) (v := v) (ps := .nil) hU with ⟨k0, hk0⟩ | ⟨v0, hv0⟩ | ⟨_, hn⟩
    · obtain ⟨h1, h2, j0', k', ej, hUk, hy⟩ := Yields.ungroup D hG hk k0 hk0
      obtain ⟨ht, pt⟩ := D.tokR' (x := j0) (x' := j0') ej (by omega) hc.1
      have hyv := D.right (i' := j0' + 1) (j' := j - 2) hv (by omega) (by omega) (by omega)
      exact ⟨h1, by omega, j - 2, [(k', v)], by omega, by simp, .key hUk, .one hy (hc.tr pt ht) hyv⟩
    · obtain ⟨h1, h2, j', v', ej, hUv, hy⟩ := Yields.ungroup D hG hv v0 hv0
      obtain ⟨ht, pt⟩ := D.tokL (x := j0) (by omega)
      exact ⟨by omega, h2, j', [(k, v')], ej, by simp, .val hUv,
        .one (D.left hk (by omega)) (hc.tr pt ht) hy⟩
    · exact (hn.inv_nil).elim
  | _, i, j, .cons (k := k) (v := v) (ps := ps) (j := j0) (m := m0) hk hc hv hcm hs, hsz, X, hU => by
    have hb1 := hk.bounds
    have hb2 := hv.bounds
    have hb3 := hs.bounds
    rcases UGP.inv (k := k) (v := v) (ps := PairList.ofList ps) hU with
      ⟨k0, hk0⟩ | ⟨v0, hv0⟩ | ⟨ps0, hps0⟩
    · obtain ⟨h1, h2, j0', k', ej, hUk, hy⟩ := Yields.ungroup D hG hk k0 hk0
      obtain ⟨ht, pt⟩ := D.tokR' (x := j0) (x' := j0') ej (by omega) hc.1
      obtain ⟨m0', em, htm, ptm⟩ := D.tokR (x := m0) (by omega) hcm.1
      have hyv := D.right (i' := j0' + 1) (j' := m0') hv (by omega) (by omega) em
      have hys := D.rightP (i' := m0' + 1) (j' := j - 2) hs (by omega) hsz (by omega) (by omega)
      exact ⟨h1, by omega, j - 2, (k', v) :: ps, by omega, by simp, .key hUk,
        .cons hy (hc.tr pt ht) hyv (hcm.tr ptm htm) hys⟩
    · obtain ⟨h1, h2, m0', v', em, hUv, hy⟩ := Yields.ungroup D hG hv v0 hv0
      obtain ⟨ht, pt⟩ := D.tokL (x := j0) (by omega)
      obtain ⟨htm, ptm⟩ := D.tokR' (x := m0) (x' := m0') em (by omega) hcm.1
      have hys := D.rightP (i' := m0' + 1) (j' := j - 2) hs (by omega) hsz (by omega) (by omega)
      exact ⟨by omega, by omega, j - 2, (k, v') :: ps, by omega, by simp, .val hUv,
        .cons (D.left hk (by omega)) (hc.tr pt ht) hy (hcm.tr ptm htm) hys⟩
    · obtain ⟨h1, h2, j', ps', ej, _, hUs, hys⟩ := hs.ungroup D hG hsz ps0 hps0
      obtain ⟨ht, pt⟩ := D.tokL (x := j0) (by omega)
      obtain ⟨htm, ptm⟩ := D.tokL (x := m0) (by omega)
      exact ⟨by omega, h2, j', (k, v) :: ps', ej, by simp, .tail hUs,
        .cons (D.left hk (by omega)) (hc.tr pt ht) (D.left hv (by omega)) (hcm.tr ptm htm) hys⟩
theorem YFields.ungroup {env env' : PEnv} {a b : Nat} (D : Del env env' a b) {p : Pos} {e : Expr}
    (hG : Yields env (.group p e) a (b + 1)) :
    ∀ {fs i j}, YFields env fs i j → j ≤ env.toks.size → ∀ X, UGF p e (FieldEList.ofList fs) X →
      i ≤ a ∧ b + 1 ≤ j ∧ ∃ j' fs', j = j' + 2 ∧
        UGF p e (FieldEList.ofList fs) (FieldEList.ofList fs') ∧ YFields env' fs' i j'
  | _, _, _, .nil, _, _, hU => (hU.inv_nil).elim
  | _, i, _, .one (v := v) hn hc hv, _, X, hU => by
    rcases UGF.inv (n := (env.peek i).lexeme) (x := v) (fs := .nil) hU with ⟨v0, hv0⟩ | ⟨_, hnil⟩
    · obtain ⟨h1, h2, j', v', ej, hUv, hy⟩ := Yields.ungroup D hG hv v0 hv0
      obtain ⟨ht, pt⟩ := D.tokL (x := i) (by omega)
      obtain ⟨ht1, pt1⟩ := D.tokL (x := i + 1) (by omega)
      have Y := YFields.one (hn.tr pt ht) (hc.tr pt1 ht1) hy
      rw [← pt] at Y
      exact ⟨by omega, h2, j', [((env.peek i).lexeme, v')], ej, .head hUv, Y⟩
    · exact (hnil.inv_nil).elim
  | _, i, j, .cons (v := v) (fs := fs) (j := j0) hn hc hv hcm hs, hsz, X, hU => by
    have hb2 := hv.bounds
    have hb3 := hs.bounds
    rcases UGF.inv (n := (env.peek i).lexeme) (x := v) (fs := FieldEList.ofList fs) hU with
      ⟨v0, hv0⟩ | ⟨fs0, hfs0⟩
    · obtain ⟨h1, h2, j0', v', ej, hUv, hy⟩ := Yields.ungroup D hG hv v0 hv0
      obtain ⟨ht, pt⟩ := D.tokL (x := i) (by omega)
      obtain ⟨ht1, pt1⟩ := D.tokL (x := i + 1) (by omega)
      obtain ⟨htm, ptm⟩ := D.tokR' (x := j0) (x' := j0') ej (by omega) hcm.1
      have hys := D.rightF (i' := j0' + 1) (j' := j - 2) hs (by omega) hsz (by omega) (by omega)
      have Y := YFields.cons (hn.tr pt ht) (hc.tr pt1 ht1) hy (hcm.tr ptm htm) hys
      rw [← pt] at Y
      exact ⟨by omega, by omega, j - 2, ((env.peek i).lexeme, v') :: fs, by omega, .head hUv, Y⟩
    · obtain ⟨h1, h2, j', fs', ej, hUs, hys⟩ := hs.ungroup D hG hsz fs0 hfs0
      obtain ⟨ht, pt⟩ := D.tokL (x := i) (by omega)
      obtain ⟨ht1, pt1⟩ := D.tokL (x := i + 1) (by omega)
      obtain ⟨htm, ptm⟩ := D.tokL (x := j0) (by omega)
      have Y := YFields.cons (hn.tr pt ht) (hc.tr pt1 ht1) (D.left hv (by omega)) (hcm.tr ptm htm) hys
      rw [← pt] at Y
      exact ⟨by omega, h2, j', ((env.peek i).lexeme, v) :: fs', ej, .tail hUs, Y⟩
end

end Yae
