/-
  C08, stage 3: REDUNDANT PARENTHESES.  If the tree returned for a token list contains a `Group`
  node and the tree without that node still respects the declarations, then `parse` on the token
  list without that pair of parentheses returns the tree without that node (the spans of its
  ancestors adjusted).
-/
import Yae.Proofs.ParseUngroupPath
import Yae.Proofs.ParseCompleteTop
namespace Yae

theorem Yields.group_body {env : PEnv} {p : Pos} {e : Expr} {i j : Nat}
    (h : Yields env (.group p e) i j) : ∃ j0, j = j0 + 1 ∧ Yields env e (i + 1) j0 := by
  cases h with
  | time hn he => obtain ⟨v, hv⟩ := timeLit_ok he; cases hv
  | group hn he hk hr => exact ⟨_, rfl, he⟩

theorem mkEnv_peek_getD (ops : List Operator) (times : List (String × Int)) (toks : List Token)
    (x : Nat) : (mkEnv ops times toks).peek x = (toks[x]?).getD eofToken := by
  unfold PEnv.peek mkEnv
  by_cases h : x < toks.length
  · simp [h]
  · simp [h]

/-- the token list without the tokens `a` and `b` (`a < b`) -/
def dropTwo (toks : List Token) (a b : Nat) : List Token := (toks.eraseIdx b).eraseIdx a

theorem dropTwo_getElem? (toks : List Token) {a b : Nat} (hab : a < b) (x : Nat) :
    (dropTwo toks a b)[x]? =
      if x < a then toks[x]? else if x + 1 < b then toks[x + 1]? else toks[x + 2]? := by
  unfold dropTwo
  rw [List.getElem?_eraseIdx]
  split
  · rw [List.getElem?_eraseIdx, if_pos (by omega)]
  · rw [List.getElem?_eraseIdx]

theorem dropTwo_length (toks : List Token) {a b : Nat} (hab : a < b) (hb : b < toks.length) :
    (dropTwo toks a b).length + 2 = toks.length := by
  unfold dropTwo
  rw [List.length_eraseIdx, List.length_eraseIdx]
  simp only [hb, if_true]
  rw [if_pos (by omega)]
  omega

theorem dropTwo_sublist (toks : List Token) (a b : Nat) : (dropTwo toks a b).Sublist toks :=
  (List.eraseIdx_sublist _ _).trans (List.eraseIdx_sublist _ _)

theorem TokensOrdered.sublist {l l' : List Token} (h : TokensOrdered l) (hs : l'.Sublist l) :
    TokensOrdered l' :=
  ⟨fun t ht => h.1 t (hs.subset ht), h.2.sublist hs⟩

theorem OpLexemes.sublist {ops : List Operator} {l l' : List Token} (h : OpLexemes ops l)
    (hs : l'.Sublist l) : OpLexemes ops l' := fun t ht => h t (hs.subset ht)

theorem del_of {ops : List Operator} {times : List (String × Int)} {toks : List Token} {a b : Nat}
    (hord : TokensOrdered toks) (hab : a + 2 ≤ b) (hb : b < toks.length) :
    Del (mkEnv ops times toks) (mkEnv ops times (dropTwo toks a b)) a b := by
  have hlen := dropTwo_length toks (a := a) (b := b) (by omega) hb
  have hsz : (mkEnv ops times toks).toks.size = toks.length := by simp [mkEnv]
  have hsz' : (mkEnv ops times (dropTwo toks a b)).toks.size = (dropTwo toks a b).length := by
    simp [mkEnv]
  have hget := dropTwo_getElem? toks (a := a) (b := b) (by omega)
  refine ⟨hord.env, (hord.sublist (dropTwo_sublist toks a b)).env, ⟨rfl, rfl, ?_, ?_, ?_⟩,
    ⟨rfl, rfl, ?_, ?_, ?_⟩, ⟨rfl, rfl, ?_, ?_, ?_⟩, hab, by omega, by omega⟩
  · intro x _ hx
    rw [mkEnv_peek_getD, mkEnv_peek_getD, hget, if_pos hx]; rfl
  · intro x _ hx _; omega
  · intro x _ hx _; omega
  · intro x h1 hx
    rw [mkEnv_peek_getD, mkEnv_peek_getD, hget, if_neg (by omega), if_pos (by omega)]
  · intro x _ hx _; omega
  · intro x _ hx _; omega
  · intro x h1 hx
    rw [mkEnv_peek_getD, mkEnv_peek_getD, hget, if_neg (by omega), if_neg (by omega)]
  · intro x _ hx _; omega
  · intro x _ hx _; omega

/-- **Redundant parentheses never change the tree.**  Let `parse` return `t` on `toks`, let the
node `Group p e` of `t` be read from the tokens `[a, b]` (`a` the `(`, `b` the `)`), and suppose
every tree obtained from `t` by deleting that node (`UG p e t ·`: the spans of its ancestors
aside, there is only one) still respects the declarations.  Then on the token list without the two
parentheses `parse` returns `t` without that node. -/
theorem parse_ungroup {ops : List Operator} {times : List (String × Int)} {toks : List Token}
    {t : Expr} {p : Pos} {e : Expr} {a b : Nat}
    (W : WFGrammar (newGrammar ops)) (hL : OpLexemes ops toks) (hord : TokensOrdered toks)
    (htk : ∀ t ∈ toks, t.kind ≠ tkEOF) (h : parse ops times toks = .ok t)
    (hG : Yields (mkEnv ops times toks) (.group p e) a (b + 1))
    (hsub : ∃ t0, UG p e t t0)
    (hR : ∀ t', UG p e t t' → Respects (newGrammar ops) t') :
    ∃ t', UG p e t t' ∧ parse ops times (dropTwo toks a b) = .ok t' := by
  have hy := parseWith_yields_all W.noEOF htk h
  obtain ⟨j0, ej0, hbody⟩ := hG.group_body
  have hbb := hbody.bounds
  have hGb := hG.bounds
  have hsz : (mkEnv ops times toks).toks.size = toks.length := by simp [mkEnv]
  have hab : a + 2 ≤ b := by omega
  have hb : b < toks.length := by omega
  have D := del_of (ops := ops) (times := times) hord hab hb
  obtain ⟨t0, hU⟩ := hsub
  obtain ⟨_, _, j', t', ej, hUG, hy'⟩ := Yields.ungroup D hG hy t0 hU
  have hlen := dropTwo_length toks (a := a) (b := b) (by omega) hb
  obtain rfl : j' = (dropTwo toks a b).length := by omega
  exact ⟨t', hUG, parse_complete W (hL.sublist (dropTwo_sublist toks a b)) hy' (hR t' hUG)⟩

end Yae
