/-
  C08, stage 1: the YIELD of a tree.

  The tree forgets tokens (parentheses, commas, colons, the lexeme of a number), so "the tree was
  read off these tokens" is a relation `Yields env t i j` between a tree and the token range
  `env.toks[i..j)`.  It is the ambiguous context-free grammar of the language: which token may
  start / continue an expression is taken from the two tables of the grammar (`env.g`), but NO
  binding power is ever compared.  The constructors build the node exactly as the model does
  (`nudRes` / `ledRes` / `pCall`), the `Pos.range` checks included.

  The model's peculiarities are followed exactly:
  * a trailing comma is accepted in lists, maps and objects, not in call arguments;
  * `[:]` is the only empty map, `[]` the empty list;
  * after `.` ANY token is the member name (finding D28), even the end of the input
    (`memberEOF`: the name is then `lexer.EOF`, nothing is consumed for it);
  * a member expression directly followed by a `(` token is a method call whatever the tables
    say about `(` (`methodCall`).
-/
import Yae.Proofs.ParseFuel
namespace Yae

namespace PEnv

/-- the token at `i` exists and starts an expression through the `nud` function `nud` -/
def nudAt (env : PEnv) (i : Nat) (bp : BP) (nud : Nud) : Prop :=
  i < env.toks.size ∧ tableLookup (env.peek i).kind env.g.prefixs = some (bp, nud)

/-- the token at `i` exists and continues an expression through the `led` function `led` -/
def ledAt (env : PEnv) (i : Nat) (bp : BP) (led : Led) : Prop :=
  i < env.toks.size ∧ tableLookup (env.peek i).kind env.g.infixs = some (bp, led)

/-- the token at `i` exists and has kind `k` -/
def kindAt (env : PEnv) (i : Nat) (k : String) : Prop :=
  i < env.toks.size ∧ (env.peek i).kind = k

end PEnv

/-- the fixity recorded in a `Binary` node by the three binary `led` functions -/
def Led.binFix : Led → Option Nat
  | .binaryL => some fixInfixL
  | .binaryR => some fixInfixR
  | .binaryN => some fixInfixN
  | _ => none

mutual

/-- `Yields env t i j`: the tree `t` is read off the tokens `i, …, j-1`. -/
inductive Yields (env : PEnv) : Expr → Nat → Nat → Prop
  | ident {i bp} : env.nudAt i bp .ident →
      Yields env (.ident (env.peek i).pos (env.peek i).lexeme) i (i + 1)
  | true_ {i bp} : env.nudAt i bp .true_ → Yields env (.bool (env.peek i).pos true) i (i + 1)
  | false_ {i bp} : env.nudAt i bp .false_ → Yields env (.bool (env.peek i).pos false) i (i + 1)
  | num {i bp v} : env.nudAt i bp .num → Num.parseNumLit (env.peek i).lexeme = some v →
      Yields env (.num (env.peek i).pos v) i (i + 1)
  | str {i bp v} : env.nudAt i bp .str → Num.unquote (env.peek i).lexeme = some v →
      Yields env (.str (env.peek i).pos v) i (i + 1)
  | time {i bp e} : env.nudAt i bp .time → env.timeLit (env.peek i) = .ok e →
      Yields env e i (i + 1)
  /-- `( e )` -/
  | group {i j bp e rg} : env.nudAt i bp .group → Yields env e (i + 1) j → env.kindAt j ")" →
      Pos.range (env.peek i).pos (env.peek j).pos = .ok rg → Yields env (.group rg e) i (j + 1)
  /-- `op e` -/
  | pre {i j bp e rg} : env.nudAt i bp .unaryPrefix → Yields env e (i + 1) j →
      Pos.range (env.peek i).pos e.pos = .ok rg →
      Yields env (.unary rg (env.peek i).lexeme (env.peek i).pos e true) i j
  /-- `[:]` -/
  | emptyMap {i bp rg} : env.nudAt i bp .listMap → env.kindAt (i + 1) ":" →
      env.kindAt (i + 2) "]" → Pos.range (env.peek i).pos (env.peek (i + 2)).pos = .ok rg →
      Yields env (.map rg .nil none) i (i + 3)
  /-- `[ e, … ]` (possibly empty, possibly with a trailing comma) -/
  | list {i j bp es rg} : env.nudAt i bp .listMap → YElems env es (i + 1) j → env.kindAt j "]" →
      Pos.range (env.peek i).pos (env.peek j).pos = .ok rg →
      Yields env (.list rg (ExprList.ofList es) none) i (j + 1)
  /-- `[ k : v, … ]` (not empty, possibly with a trailing comma) -/
  | map {i j bp ps rg} : env.nudAt i bp .listMap → YPairs env ps (i + 1) j → ps ≠ [] →
      env.kindAt j "]" → Pos.range (env.peek i).pos (env.peek j).pos = .ok rg →
      Yields env (.map rg (PairList.ofList ps) none) i (j + 1)
  /-- `{ name : v, … }` (possibly empty, possibly with a trailing comma) -/
  | obj {i j bp fs rg} : env.nudAt i bp .obj → YFields env fs (i + 1) j → env.kindAt j "}" →
      Pos.range (env.peek i).pos (env.peek j).pos = .ok rg →
      Yields env (.obj rg (FieldEList.ofList fs) none) i (j + 1)
  /-- `l op r` -/
  | binary {i j k bp led fx l r rg} : Yields env l i j → env.ledAt j bp led → led.binFix = some fx →
      Yields env r (j + 1) k → Pos.range l.pos r.pos = .ok rg →
      Yields env (.binary rg (env.peek j).lexeme (env.peek j).pos fx l r) i k
  /-- `l op` -/
  | post {i j bp l rg} : Yields env l i j → env.ledAt j bp .unaryPostfix →
      Pos.range l.pos (env.peek j).pos = .ok rg →
      Yields env (.unary rg (env.peek j).lexeme (env.peek j).pos l false) i (j + 1)
  /-- `l ? m : r` -/
  | ternary {i j k n bp l m r rg} : Yields env l i j → env.ledAt j bp .question →
      Yields env m (j + 1) k → env.kindAt k ":" → Yields env r (k + 1) n →
      Pos.range l.pos r.pos = .ok rg →
      Yields env (.ternary rg (env.peek j).lexeme (env.peek j).pos l m r) i n
  /-- `c ( args )` -/
  | call {i j k bp c as rg} : Yields env c i j → env.ledAt j bp .call → YArgs env as (j + 1) k →
      env.kindAt k ")" → Pos.range c.pos (env.peek k).pos = .ok rg →
      Yields env (.call rg (env.peek j).pos.col c (ExprList.ofList as) none "" (-1)) i (k + 1)
  /-- `o . name ( args )`: `( args )` directly after a member expression -/
  | methodCall {i j k c as rg} : Yields env c i j → c.isMember = true → env.kindAt j "(" →
      YArgs env as (j + 1) k → env.kindAt k ")" → Pos.range c.pos (env.peek k).pos = .ok rg →
      Yields env (.call rg (env.peek j).pos.col c (ExprList.ofList as) none "" (-1)) i (k + 1)
  /-- `o . name`, any token as the name -/
  | member {i j bp o rg} : Yields env o i j → env.ledAt j bp .dot → j + 1 < env.toks.size →
      Pos.range o.pos (env.peek (j + 1)).pos = .ok rg →
      Yields env (.member rg (env.peek j).pos.col o (env.peek (j + 1)).lexeme
        (env.peek (j + 1)).pos none (-1)) i (j + 2)
  /-- `o .` at the very end of the input: the name is `lexer.EOF` -/
  | memberEOF {i j bp o rg} : Yields env o i j → env.ledAt j bp .dot → j + 1 = env.toks.size →
      Pos.range o.pos eofToken.pos = .ok rg →
      Yields env (.member rg (env.peek j).pos.col o eofToken.lexeme eofToken.pos none (-1)) i (j + 1)
  /-- `v [ ix ]` -/
  | subscript {i j k bp v ix rg} : Yields env v i j → env.ledAt j bp .subscript →
      Yields env ix (j + 1) k → env.kindAt k "]" → Pos.range v.pos (env.peek k).pos = .ok rg →
      Yields env (.subscript rg (env.peek j).pos.col v ix none) i (k + 1)

/-- call arguments: empty, or expressions separated by commas (no trailing comma) -/
inductive YArgs (env : PEnv) : List Expr → Nat → Nat → Prop
  | nil {i} : YArgs env [] i i
  | some {as i j} : YSeq env as i j → YArgs env as i j

/-- `e , e , … , e`, at least one -/
inductive YSeq (env : PEnv) : List Expr → Nat → Nat → Prop
  | one {e i j} : Yields env e i j → YSeq env [e] i j
  | cons {e es i j k} : Yields env e i j → env.kindAt j "," → YSeq env es (j + 1) k →
      YSeq env (e :: es) i k

/-- list elements: empty, or expressions separated by commas with an optional trailing comma -/
inductive YElems (env : PEnv) : List Expr → Nat → Nat → Prop
  | nil {i} : YElems env [] i i
  | one {e i j} : Yields env e i j → YElems env [e] i j
  | cons {e es i j k} : Yields env e i j → env.kindAt j "," → YElems env es (j + 1) k →
      YElems env (e :: es) i k

/-- map entries `k : v`, separated by commas, optional trailing comma -/
inductive YPairs (env : PEnv) : List (Expr × Expr) → Nat → Nat → Prop
  | nil {i} : YPairs env [] i i
  | one {k v i j m} : Yields env k i j → env.kindAt j ":" → Yields env v (j + 1) m →
      YPairs env [(k, v)] i m
  | cons {k v ps i j m n} : Yields env k i j → env.kindAt j ":" → Yields env v (j + 1) m →
      env.kindAt m "," → YPairs env ps (m + 1) n → YPairs env ((k, v) :: ps) i n

/-- object fields `name : v` (the name is a `<sym>` token), commas, optional trailing comma -/
inductive YFields (env : PEnv) : List (String × Expr) → Nat → Nat → Prop
  | nil {i} : YFields env [] i i
  | one {v i j} : env.kindAt i "<sym>" → env.kindAt (i + 1) ":" → Yields env v (i + 2) j →
      YFields env [((env.peek i).lexeme, v)] i j
  | cons {v fs i j k} : env.kindAt i "<sym>" → env.kindAt (i + 1) ":" → Yields env v (i + 2) j →
      env.kindAt j "," → YFields env fs (j + 1) k →
      YFields env (((env.peek i).lexeme, v) :: fs) i k

end

end Yae
