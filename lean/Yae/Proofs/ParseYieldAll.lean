/-
  C08, stage 1: every node of a yielded tree yields a sub-range.  If `P` holds of every tree that
  yields some range inside `[i, j)`, then `P` holds at every node of a tree that yields `[i, j)`.
-/
import Yae.Proofs.ParseYieldNest
namespace Yae

/-- `n` yields some range within `[i, j)` -/
def SubYield (env : PEnv) (i j : Nat) (n : Expr) : Prop :=
  ∃ a b, i ≤ a ∧ b ≤ j ∧ Yields env n a b

theorem SubYield.mono {env : PEnv} {i j i' j' : Nat} {n : Expr} (h : SubYield env i j n)
    (hi : i' ≤ i) (hj : j ≤ j') : SubYield env i' j' n := by
  obtain ⟨a, b, h1, h2, h3⟩ := h
  exact ⟨a, b, by omega, by omega, h3⟩

theorem Expr.All.imp {P Q : Expr → Prop} (h : ∀ e, P e → Q e) : ∀ {t : Expr}, t.All P → t.All Q := by
  intro t
  induction t using Expr.rec (motive_2 := fun es => allList P es → allList Q es)
    (motive_3 := fun ps => allPairs P ps → allPairs Q ps)
    (motive_4 := fun fs => allFields P fs → allFields Q fs) with
  | _ => simp only [Expr.All, allList, allPairs, allFields] at *; first | done | grind

mutual
theorem Yields.all_sub {env : PEnv} :
    ∀ {t i j}, Yields env t i j → t.All (SubYield env i j)
  | _, _, _, h@(.ident _) => ⟨_, _, Nat.le_refl _, Nat.le_refl _, h⟩
  | _, _, _, h@(.true_ _) => ⟨_, _, Nat.le_refl _, Nat.le_refl _, h⟩
  | _, _, _, h@(.false_ _) => ⟨_, _, Nat.le_refl _, Nat.le_refl _, h⟩
  | _, _, _, h@(.num _ _) => ⟨_, _, Nat.le_refl _, Nat.le_refl _, h⟩
  | _, _, _, h@(.str _ _) => ⟨_, _, Nat.le_refl _, Nat.le_refl _, h⟩
  | _, _, _, h@(.time hn he) => by
    have h' := h
    obtain ⟨v, rfl⟩ := timeLit_ok he
    exact ⟨_, _, Nat.le_refl _, Nat.le_refl _, h'⟩
  | _, _, _, h@(.group hn he hk hr) =>
    ⟨⟨_, _, Nat.le_refl _, Nat.le_refl _, h⟩,
      Expr.All.imp (fun _ hs => hs.mono (by omega) (by omega)) he.all_sub⟩
  | _, _, _, h@(.pre hn he hr) =>
    ⟨⟨_, _, Nat.le_refl _, Nat.le_refl _, h⟩,
      Expr.All.imp (fun _ hs => hs.mono (by omega) (by omega)) he.all_sub⟩
  | _, _, _, h@(.emptyMap hn h1 h2 hr) => ⟨⟨_, _, Nat.le_refl _, Nat.le_refl _, h⟩, trivial⟩
  | _, _, _, h@(.list hn he hk hr) =>
    ⟨⟨_, _, Nat.le_refl _, Nat.le_refl _, h⟩, (allList_ofList _).mpr fun e' he' =>
      Expr.All.imp (fun _ hs => hs.mono (by omega) (by omega)) (he.all_sub e' he')⟩
  | _, _, _, h@(.map hn he _ hk hr) =>
    ⟨⟨_, _, Nat.le_refl _, Nat.le_refl _, h⟩, (allPairs_ofList _).mpr fun kv hkv =>
      ⟨Expr.All.imp (fun _ hs => hs.mono (by omega) (by omega)) (he.all_sub kv hkv).1,
       Expr.All.imp (fun _ hs => hs.mono (by omega) (by omega)) (he.all_sub kv hkv).2⟩⟩
  | _, _, _, h@(.obj hn he hk hr) =>
    ⟨⟨_, _, Nat.le_refl _, Nat.le_refl _, h⟩, (allFields_ofList _).mpr fun nv hnv =>
      Expr.All.imp (fun _ hs => hs.mono (by omega) (by omega)) (he.all_sub nv hnv)⟩
  | _, _, _, h@(.binary hl hd _ hr hg) =>
    ⟨⟨_, _, Nat.le_refl _, Nat.le_refl _, h⟩,
      Expr.All.imp (fun _ hs => hs.mono (Nat.le_refl _) (by have := hr.bounds; omega)) hl.all_sub,
      Expr.All.imp (fun _ hs => hs.mono (by have := hl.bounds; omega) (Nat.le_refl _)) hr.all_sub⟩
  | _, _, _, h@(.post hl hd hg) =>
    ⟨⟨_, _, Nat.le_refl _, Nat.le_refl _, h⟩,
      Expr.All.imp (fun _ hs => hs.mono (Nat.le_refl _) (by omega)) hl.all_sub⟩
  | _, _, _, h@(.ternary hl hd hm hk hr hg) =>
    ⟨⟨_, _, Nat.le_refl _, Nat.le_refl _, h⟩,
      Expr.All.imp (fun _ hs => hs.mono (Nat.le_refl _)
        (by have := hm.bounds; have := hr.bounds; omega)) hl.all_sub,
      Expr.All.imp (fun _ hs => hs.mono (by have := hl.bounds; omega)
        (by have := hr.bounds; omega)) hm.all_sub,
      Expr.All.imp (fun _ hs => hs.mono (by have := hl.bounds; have := hm.bounds; omega)
        (Nat.le_refl _)) hr.all_sub⟩
  | _, _, _, h@(.call hc hd ha hk hg) =>
    ⟨⟨_, _, Nat.le_refl _, Nat.le_refl _, h⟩,
      Expr.All.imp (fun _ hs => hs.mono (Nat.le_refl _) (by have := ha.bounds; omega)) hc.all_sub,
      (allList_ofList _).mpr fun e' he' => Expr.All.imp
        (fun _ hs => hs.mono (by have := hc.bounds; omega) (by omega)) (ha.all_sub e' he')⟩
  | _, _, _, h@(.methodCall hc _ hd ha hk hg) =>
    ⟨⟨_, _, Nat.le_refl _, Nat.le_refl _, h⟩,
      Expr.All.imp (fun _ hs => hs.mono (Nat.le_refl _) (by have := ha.bounds; omega)) hc.all_sub,
      (allList_ofList _).mpr fun e' he' => Expr.All.imp
        (fun _ hs => hs.mono (by have := hc.bounds; omega) (by omega)) (ha.all_sub e' he')⟩
  | _, _, _, h@(.member hl hd hi hg) =>
    ⟨⟨_, _, Nat.le_refl _, Nat.le_refl _, h⟩,
      Expr.All.imp (fun _ hs => hs.mono (Nat.le_refl _) (by omega)) hl.all_sub⟩
  | _, _, _, h@(.memberEOF hl hd hi hg) =>
    ⟨⟨_, _, Nat.le_refl _, Nat.le_refl _, h⟩,
      Expr.All.imp (fun _ hs => hs.mono (Nat.le_refl _) (by omega)) hl.all_sub⟩
  | _, _, _, h@(.subscript hv hd hx hk hg) =>
    ⟨⟨_, _, Nat.le_refl _, Nat.le_refl _, h⟩,
      Expr.All.imp (fun _ hs => hs.mono (Nat.le_refl _) (by have := hx.bounds; omega)) hv.all_sub,
      Expr.All.imp (fun _ hs => hs.mono (by have := hv.bounds; omega) (by omega)) hx.all_sub⟩
theorem YArgs.all_sub {env : PEnv} :
    ∀ {as i j}, YArgs env as i j → ∀ e ∈ as, e.All (SubYield env i j)
  | _, _, _, .nil => by simp
  | _, _, _, .some h => h.all_sub
theorem YSeq.all_sub {env : PEnv} :
    ∀ {as i j}, YSeq env as i j → ∀ e ∈ as, e.All (SubYield env i j)
  | _, _, _, .one h => fun e he => by rw [List.mem_singleton.mp he]; exact h.all_sub
  | _, _, _, .cons h _ hs => by
    intro e he
    rcases List.mem_cons.mp he with he | he
    · rw [he]
      exact Expr.All.imp (fun _ hx => hx.mono (Nat.le_refl _) (by have := hs.bounds; omega)) h.all_sub
    · exact Expr.All.imp (fun _ hx => hx.mono (by have := h.bounds; omega) (Nat.le_refl _))
        (hs.all_sub e he)
theorem YElems.all_sub {env : PEnv} :
    ∀ {as i j}, YElems env as i j → ∀ e ∈ as, e.All (SubYield env i j)
  | _, _, _, .nil => by simp
  | _, _, _, .one h => fun e he => by rw [List.mem_singleton.mp he]; exact h.all_sub
  | _, _, _, .cons h _ hs => by
    intro e he
    rcases List.mem_cons.mp he with he | he
    · rw [he]
      exact Expr.All.imp (fun _ hx => hx.mono (Nat.le_refl _) (by have := hs.bounds; omega)) h.all_sub
    · exact Expr.All.imp (fun _ hx => hx.mono (by have := h.bounds; omega) (Nat.le_refl _))
        (hs.all_sub e he)
theorem YPairs.all_sub {env : PEnv} :
    ∀ {ps i j}, YPairs env ps i j →
      ∀ kv ∈ ps, kv.1.All (SubYield env i j) ∧ kv.2.All (SubYield env i j)
  | _, _, _, .nil => by simp
  | _, _, _, .one hk _ hv => by
    intro kv hkv
    rw [List.mem_singleton.mp hkv]
    exact ⟨Expr.All.imp (fun _ hx => hx.mono (Nat.le_refl _) (by have := hv.bounds; omega)) hk.all_sub,
      Expr.All.imp (fun _ hx => hx.mono (by have := hk.bounds; omega) (Nat.le_refl _)) hv.all_sub⟩
  | _, _, _, .cons hk _ hv _ hs => by
    intro kv hkv
    rcases List.mem_cons.mp hkv with hkv | hkv
    · rw [hkv]
      exact ⟨Expr.All.imp (fun _ hx => hx.mono (Nat.le_refl _)
          (by have := hv.bounds; have := hs.bounds; omega)) hk.all_sub,
        Expr.All.imp (fun _ hx => hx.mono (by have := hk.bounds; omega)
          (by have := hs.bounds; omega)) hv.all_sub⟩
    · have := hs.all_sub kv hkv
      exact ⟨Expr.All.imp (fun _ hx => hx.mono (by have := hk.bounds; have := hv.bounds; omega)
          (Nat.le_refl _)) this.1,
        Expr.All.imp (fun _ hx => hx.mono (by have := hk.bounds; have := hv.bounds; omega)
          (Nat.le_refl _)) this.2⟩
theorem YFields.all_sub {env : PEnv} :
    ∀ {fs i j}, YFields env fs i j → ∀ nv ∈ fs, nv.2.All (SubYield env i j)
  | _, _, _, .nil => by simp
  | _, _, _, .one _ _ hv => by
    intro nv hnv
    rw [List.mem_singleton.mp hnv]
    exact Expr.All.imp (fun _ hx => hx.mono (by omega) (Nat.le_refl _)) hv.all_sub
  | _, _, _, .cons _ _ hv _ hs => by
    intro nv hnv
    rcases List.mem_cons.mp hnv with hnv | hnv
    · rw [hnv]
      exact Expr.All.imp (fun _ hx => hx.mono (by omega) (by have := hs.bounds; omega)) hv.all_sub
    · exact Expr.All.imp (fun _ hx => hx.mono (by have := hv.bounds; omega) (Nat.le_refl _))
        (hs.all_sub nv hnv)
end

/-- **Every node records exactly the span of the tokens it was read from**: each node `n` of a
tree that yields `[i, j)` yields a sub-range `[a, b)` and `n.pos` is the span of `[a, b)`. -/
theorem Yields.all_span {env : PEnv} (ho : env.Ordered) {t : Expr} {i j : Nat}
    (h : Yields env t i j) :
    t.All (fun n => ∃ a b, i ≤ a ∧ b ≤ j ∧ Yields env n a b ∧ env.Span n.pos a b) :=
  Expr.All.imp (fun _ ⟨a, b, h1, h2, h3⟩ => ⟨a, b, h1, h2, h3, h3.span ho⟩) h.all_sub

end Yae
