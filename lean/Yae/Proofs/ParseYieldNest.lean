/-
  C08, stage 1: span nesting.  In a tree that yields a token range (token positions in source
  order), at EVERY node the children's spans (and the operator / field-name token) lie within the
  node's span, are not empty, are pairwise disjoint and in source order (`Expr.spanNested`).
-/
import Yae.Proofs.ParseYieldSpan
namespace Yae

theorem Expr.all_iff {P : Expr → Prop} (e : Expr) : e.All P → P e := Expr.All.here

mutual
theorem Yields.nested {env : PEnv} (ho : env.Ordered) :
    ∀ {t i j}, Yields env t i j → t.All Expr.spanNested
  | _, _, _, h@(.ident _) => spanNested_of ho (h.span ho) (Nat.le_of_lt (h.bounds).1)
  | _, _, _, h@(.true_ _) => spanNested_of ho (h.span ho) (Nat.le_of_lt (h.bounds).1)
  | _, _, _, h@(.false_ _) => spanNested_of ho (h.span ho) (Nat.le_of_lt (h.bounds).1)
  | _, _, _, h@(.num _ _) => spanNested_of ho (h.span ho) (Nat.le_of_lt (h.bounds).1)
  | _, _, _, h@(.str _ _) => spanNested_of ho (h.span ho) (Nat.le_of_lt (h.bounds).1)
  | _, _, _, h@(.time hn he) => by
    have hs := h.span ho
    obtain ⟨v, rfl⟩ := timeLit_ok he
    exact spanNested_of ho hs (Nat.le_of_lt (h.bounds).1)
  | _, _, _, h@(.group hn he hk hr) =>
    ⟨spanNested_of ho (h.span ho) ⟨_, _, Nat.le_succ _, he.span ho, Nat.le_succ _⟩, he.nested ho⟩
  | _, _, _, h@(.pre hn he hr) =>
    ⟨spanNested_of ho (h.span ho) ⟨_, _, Nat.le_refl _, env.span_tok hn.1,
      ⟨_, _, Nat.le_refl _, he.span ho, Nat.le_refl _⟩⟩, he.nested ho⟩
  | _, _, _, h@(.emptyMap hn h1 h2 hr) =>
    ⟨spanNested_of ho (h.span ho) (Nat.le_of_lt (h.bounds).1), trivial⟩
  | _, _, _, h@(.list hn he hk hr) => by
    obtain ⟨h1, h2⟩ := he.nested ho
    refine ⟨spanNested_of ho (h.span ho) ?_, (allList_ofList _).mpr h1⟩
    simp only [Expr.parts, posList_ofList]
    exact h2.weaken (Nat.le_succ _) (Nat.le_succ _)
  | _, _, _, h@(.map hn he _ hk hr) => by
    obtain ⟨h1, h2⟩ := he.nested ho
    refine ⟨spanNested_of ho (h.span ho) ?_, (allPairs_ofList _).mpr h1⟩
    simp only [Expr.parts, posPairs_ofList]
    exact h2.weaken (Nat.le_succ _) (Nat.le_succ _)
  | _, _, _, h@(.obj hn he hk hr) => by
    obtain ⟨h1, h2⟩ := he.nested ho
    refine ⟨spanNested_of ho (h.span ho) ?_, (allFields_ofList _).mpr h1⟩
    simp only [Expr.parts, posFields_ofList]
    exact h2.weaken (Nat.le_succ _) (Nat.le_succ _)
  | _, _, _, h@(.binary hl hd _ hr hg) =>
    ⟨spanNested_of ho (h.span ho) ⟨_, _, Nat.le_refl _, hl.span ho,
      ⟨_, _, Nat.le_refl _, env.span_tok hd.1, ⟨_, _, Nat.le_refl _, hr.span ho, Nat.le_refl _⟩⟩⟩,
      hl.nested ho, hr.nested ho⟩
  | _, _, _, h@(.post hl hd hg) =>
    ⟨spanNested_of ho (h.span ho) ⟨_, _, Nat.le_refl _, hl.span ho,
      ⟨_, _, Nat.le_refl _, env.span_tok hd.1, Nat.le_refl _⟩⟩, hl.nested ho⟩
  | _, _, _, h@(.ternary hl hd hm hk hr hg) =>
    ⟨spanNested_of ho (h.span ho) ⟨_, _, Nat.le_refl _, hl.span ho,
      ⟨_, _, Nat.le_refl _, env.span_tok hd.1, ⟨_, _, Nat.le_refl _, hm.span ho,
        ⟨_, _, Nat.le_succ _, hr.span ho, Nat.le_refl _⟩⟩⟩⟩,
      hl.nested ho, hm.nested ho, hr.nested ho⟩
  | _, _, _, h@(.call hc hd ha hk hg) => by
    obtain ⟨h1, h2⟩ := ha.nested ho
    refine ⟨spanNested_of ho (h.span ho) ?_, hc.nested ho, (allList_ofList _).mpr h1⟩
    simp only [Expr.parts, posList_ofList]
    exact ⟨_, _, Nat.le_refl _, hc.span ho, h2.weaken (Nat.le_succ _) (Nat.le_succ _)⟩
  | _, _, _, h@(.methodCall hc _ hd ha hk hg) => by
    obtain ⟨h1, h2⟩ := ha.nested ho
    refine ⟨spanNested_of ho (h.span ho) ?_, hc.nested ho, (allList_ofList _).mpr h1⟩
    simp only [Expr.parts, posList_ofList]
    exact ⟨_, _, Nat.le_refl _, hc.span ho, h2.weaken (Nat.le_succ _) (Nat.le_succ _)⟩
  | _, _, _, h@(.member hl hd hi hg) =>
    ⟨spanNested_of ho (h.span ho) ⟨_, _, Nat.le_refl _, hl.span ho,
      ⟨_, _, Nat.le_succ _, env.span_tok hi, Nat.le_refl _⟩⟩, hl.nested ho⟩
  | _, _, _, h@(.memberEOF hl hd hi hg) => by
    exfalso
    obtain ⟨h1, _⟩ := range_ok hg
    obtain ⟨h2, h3, h4⟩ := hl.span ho
    rw [h4] at h1
    have h5 := ho.nonneg _ (Nat.lt_of_lt_of_le h2 h3)
    have h6 : eofToken.pos.idx = -1 := rfl
    rw [h6] at h1
    simp only at h1
    omega
  | _, _, _, h@(.subscript hv hd hx hk hg) =>
    ⟨spanNested_of ho (h.span ho) ⟨_, _, Nat.le_refl _, hv.span ho,
      ⟨_, _, Nat.le_succ _, hx.span ho, Nat.le_succ _⟩⟩, hv.nested ho, hx.nested ho⟩
theorem YArgs.nested {env : PEnv} (ho : env.Ordered) :
    ∀ {as i j}, YArgs env as i j →
      (∀ e ∈ as, e.All Expr.spanNested) ∧ env.Placed (as.map Expr.pos) i j
  | _, _, _, .nil => ⟨by simp, Nat.le_refl _⟩
  | _, _, _, .some h => h.nested ho
theorem YSeq.nested {env : PEnv} (ho : env.Ordered) :
    ∀ {as i j}, YSeq env as i j →
      (∀ e ∈ as, e.All Expr.spanNested) ∧ env.Placed (as.map Expr.pos) i j
  | _, _, _, .one h => ⟨by simpa using h.nested ho, ⟨_, _, Nat.le_refl _, h.span ho, Nat.le_refl _⟩⟩
  | _, _, _, .cons h _ hs => by
    obtain ⟨h1, h2⟩ := hs.nested ho
    exact ⟨by simpa using ⟨h.nested ho, h1⟩,
      ⟨_, _, Nat.le_refl _, h.span ho, h2.weaken (Nat.le_succ _) (Nat.le_refl _)⟩⟩
theorem YElems.nested {env : PEnv} (ho : env.Ordered) :
    ∀ {as i j}, YElems env as i j →
      (∀ e ∈ as, e.All Expr.spanNested) ∧ env.Placed (as.map Expr.pos) i j
  | _, _, _, .nil => ⟨by simp, Nat.le_refl _⟩
  | _, _, _, .one h => ⟨by simpa using h.nested ho, ⟨_, _, Nat.le_refl _, h.span ho, Nat.le_refl _⟩⟩
  | _, _, _, .cons h _ hs => by
    obtain ⟨h1, h2⟩ := hs.nested ho
    exact ⟨by simpa using ⟨h.nested ho, h1⟩,
      ⟨_, _, Nat.le_refl _, h.span ho, h2.weaken (Nat.le_succ _) (Nat.le_refl _)⟩⟩
theorem YPairs.nested {env : PEnv} (ho : env.Ordered) :
    ∀ {ps i j}, YPairs env ps i j →
      (∀ kv ∈ ps, kv.1.All Expr.spanNested ∧ kv.2.All Expr.spanNested) ∧
      env.Placed (ps.flatMap (fun kv => [kv.1.pos, kv.2.pos])) i j
  | _, _, _, .nil => ⟨by simp, Nat.le_refl _⟩
  | _, _, _, .one hk _ hv =>
    ⟨by simpa using ⟨hk.nested ho, hv.nested ho⟩,
      ⟨_, _, Nat.le_refl _, hk.span ho, ⟨_, _, Nat.le_succ _, hv.span ho, Nat.le_refl _⟩⟩⟩
  | _, _, _, .cons hk _ hv _ hs => by
    obtain ⟨h1, h2⟩ := hs.nested ho
    exact ⟨by simpa using ⟨⟨hk.nested ho, hv.nested ho⟩, fun a b hab => h1 (a, b) hab⟩,
      ⟨_, _, Nat.le_refl _, hk.span ho, ⟨_, _, Nat.le_succ _, hv.span ho,
        h2.weaken (Nat.le_succ _) (Nat.le_refl _)⟩⟩⟩
theorem YFields.nested {env : PEnv} (ho : env.Ordered) :
    ∀ {fs i j}, YFields env fs i j →
      (∀ nv ∈ fs, nv.2.All Expr.spanNested) ∧ env.Placed (fs.map (fun nv => nv.2.pos)) i j
  | _, _, _, .nil => ⟨by simp, Nat.le_refl _⟩
  | _, _, _, .one _ _ hv =>
    ⟨by simpa using hv.nested ho, ⟨_, _, by omega, hv.span ho, Nat.le_refl _⟩⟩
  | _, _, _, .cons _ _ hv _ hs => by
    obtain ⟨h1, h2⟩ := hs.nested ho
    exact ⟨by simpa using ⟨hv.nested ho, fun a b hab => h1 (a, b) hab⟩,
      ⟨_, _, by omega, hv.span ho, h2.weaken (Nat.le_succ _) (Nat.le_refl _)⟩⟩
end

end Yae
