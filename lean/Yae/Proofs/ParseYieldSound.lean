/-
  C08, stage 1: every tree the parser returns yields the tokens it consumed
  (`pExpr env f rbp i = .ok (t, j) → Yields env t i j`, and the analogous statements for the other
  six functions; one induction on the fuel).
-/
import Yae.Proofs.ParseYield
namespace Yae

theorem PEnv.lt_of_kind {env : PEnv} {i : Nat} {k : String} (h : (env.peek i).kind = k)
    (hk : k ≠ tkEOF) : i < env.toks.size := by
  by_cases hi : i < env.toks.size
  · exact hi
  · rw [env.peek_ge (by omega)] at h; exact absurd h.symm hk

theorem PEnv.mustEat_kind {env : PEnv} {k : String} {i : Nat} {t : Token} {j : Nat}
    (hk : k ≠ tkEOF) (h : env.mustEat k i = .ok (t, j)) :
    env.kindAt i k ∧ t = env.peek i ∧ j = i + 1 := by
  unfold PEnv.mustEat at h
  simp only at h
  split at h
  · rename_i hk'
    have hk'' : (env.peek i).kind = k := by simpa using hk'
    have hi := PEnv.lt_of_kind hk'' hk
    cases h
    exact ⟨⟨hi, hk''⟩, rfl, env.adv_lt hi⟩
  · cases h

theorem PEnv.lt_of_prefix {env : PEnv} (hE : env.NoEOF) {i : Nat} {r : BP × Nud}
    (h : tableLookup (env.peek i).kind env.g.prefixs = some r) : i < env.toks.size := by
  by_cases hi : i < env.toks.size
  · exact hi
  · rw [env.peek_ge (by omega), hE.1] at h; cases h

theorem PEnv.lt_of_infix {env : PEnv} (hE : env.NoEOF) {i : Nat} {r : BP × Led}
    (h : tableLookup (env.peek i).kind env.g.infixs = some r) : i < env.toks.size := by
  by_cases hi : i < env.toks.size
  · exact hi
  · rw [env.peek_ge (by omega), hE.2] at h; cases h

theorem PEnv.kindAt_of_beq {env : PEnv} {i : Nat} {k : String}
    (h : ((env.peek i).kind == k) = true) (hk : k ≠ tkEOF) : env.kindAt i k := by
  have : (env.peek i).kind = k := by simpa using h
  exact ⟨PEnv.lt_of_kind this hk, this⟩

/-- the head of a call: the `(` found by the `led` table, or the `(` after a member expression -/
def CallHead (env : PEnv) (c : Expr) (k : Nat) : Prop :=
  (∃ bp, env.ledAt k bp .call) ∨ (c.isMember = true ∧ env.kindAt k "(")

/-- the seven statements at fuel `f` -/
structure YAt (env : PEnv) (f : Nat) : Prop where
  exprY : ∀ rbp i e j, pExpr env f rbp i = .ok (e, j) → Yields env e i j
  infixY : ∀ left rbp i0 i e j, Yields env left i0 i → pInfix env f left rbp i = .ok (e, j) →
    Yields env e i0 j
  callY : ∀ c i0 k e j, Yields env c i0 k → CallHead env c k →
    pCall env f c (env.peek k) (k + 1) = .ok (e, j) → Yields env e i0 j
  argsY : ∀ acc i as j, pArgs env f acc i = .ok (as, j) →
    ∃ new, as = new.reverse ++ acc ∧ YSeq env new i j
  listY : ∀ acc i as j, pList env f acc i = .ok (as, j) →
    ∃ new, as = new.reverse ++ acc ∧ YElems env new i j
  mapY : ∀ acc i ps j, pMap env f acc i = .ok (ps, j) →
    ∃ new, ps = new.reverse ++ acc ∧ YPairs env new i j
  objY : ∀ acc i fs j, pObj env f acc i = .ok (fs, j) →
    ∃ new, fs = new.reverse ++ acc ∧ YFields env new i j

theorem ne_eof_rparen : ")" ≠ tkEOF := by decide
theorem ne_eof_rbrack : "]" ≠ tkEOF := by decide
theorem ne_eof_rbrace : "}" ≠ tkEOF := by decide
theorem ne_eof_colon : ":" ≠ tkEOF := by decide
theorem ne_eof_comma : "," ≠ tkEOF := by decide
theorem ne_eof_sym : "<sym>" ≠ tkEOF := by decide
theorem ne_eof_lparen : "(" ≠ tkEOF := by decide

theorem nudRes_yields {env : PEnv} {f : Nat} (ih : YAt env f)
    {i : Nat} {bp : BP} {nud : Nud} (hn : env.nudAt i bp nud)
    {e : Expr} {j : Nat} (h : nudRes env f (env.peek i) (i + 1) bp nud = .ok (e, j)) :
    Yields env e i j := by
  have ihE := ih.exprY
  unfold nudRes at h
  cases nud <;> simp only [] at h
  case ident => cases h; exact .ident hn
  case true_ => cases h; exact .true_ hn
  case false_ => cases h; exact .false_ hn
  case num =>
    split at h
    · rename_i v hv; cases h; exact .num hn hv
    · cases h
  case str =>
    split at h
    · rename_i v hv; cases h; exact .str hn hv
    · cases h
  case time =>
    split at h
    · rename_i e' he; cases h; exact .time hn he
    · cases h
  case group =>
    split at h
    · cases h
    · rename_i e1 i1 h1
      split at h
      · cases h
      · rename_i rp i2 h2
        obtain ⟨hk, rfl, rfl⟩ := PEnv.mustEat_kind ne_eof_rparen h2
        split at h
        · cases h
        · rename_i rg h3
          cases h
          exact .group hn (ihE _ _ _ _ h1) hk h3
  case unaryPrefix =>
    split at h
    · cases h
    · rename_i e1 i1 h1
      split at h
      · cases h
      · rename_i rg h3
        cases h
        exact .pre hn (ihE _ _ _ _ h1) h3
  case obj =>
    split at h
    · cases h
    · rename_i fs i1 h1
      obtain ⟨new, rfl, hy⟩ := ih.objY _ _ _ _ h1
      split at h
      · cases h
      · rename_i rb i2 h2
        obtain ⟨hk, rfl, rfl⟩ := PEnv.mustEat_kind ne_eof_rbrace h2
        split at h
        · cases h
        · rename_i rg h3
          cases h
          simp only [List.append_nil, List.reverse_reverse]
          exact .obj hn hy hk h3
  case listMap =>
    split at h
    · -- `[:]`
      rename_i hc
      have hc' := PEnv.kindAt_of_beq hc ne_eof_colon
      rw [env.adv_lt hc'.1] at h
      split at h
      · cases h
      · rename_i rb i2 h2
        obtain ⟨hk, rfl, rfl⟩ := PEnv.mustEat_kind ne_eof_rbrack h2
        split at h
        · cases h
        · rename_i rg h3
          cases h
          exact .emptyMap hn hc' hk h3
    · split at h
      · -- `[]`
        split at h
        · cases h
        · rename_i rb i2 h2
          obtain ⟨hk, rfl, rfl⟩ := PEnv.mustEat_kind ne_eof_rbrack h2
          split at h
          · cases h
          · rename_i rg h3
            cases h
            exact .list (es := []) hn .nil hk h3
      · split at h
        · cases h
        · rename_i fst i1 h1
          have hfst := ihE _ _ _ _ h1
          split at h
          · -- map
            rename_i hc
            have hc' := PEnv.kindAt_of_beq hc ne_eof_colon
            rw [env.adv_lt hc'.1] at h
            split at h
            · cases h
            · rename_i v i2 h2
              have hv := ihE _ _ _ _ h2
              split at h
              · cases h
              · rename_i ps i3 h3
                split at h
                · cases h
                · rename_i rb i4 h4
                  obtain ⟨hk, rfl, rfl⟩ := PEnv.mustEat_kind ne_eof_rbrack h4
                  split at h
                  · cases h
                  · rename_i rg h5
                    cases h
                    split at h3
                    · rename_i hcm
                      have hcm' := PEnv.kindAt_of_beq hcm ne_eof_comma
                      rw [env.adv_lt hcm'.1] at h3
                      obtain ⟨new, rfl, hy⟩ := ih.mapY _ _ _ _ h3
                      simp only [List.reverse_append, List.reverse_reverse, List.reverse_cons,
                        List.reverse_nil, List.nil_append, List.singleton_append]
                      exact .map hn (.cons hfst hc' hv hcm' hy) (by simp) hk h5
                    · cases h3
                      exact .map hn (.one hfst hc' hv) (by simp) hk h5
          · -- list
            split at h
            · cases h
            · rename_i els i3 h3
              split at h
              · cases h
              · rename_i rb i4 h4
                obtain ⟨hk, rfl, rfl⟩ := PEnv.mustEat_kind ne_eof_rbrack h4
                split at h
                · cases h
                · rename_i rg h5
                  cases h
                  split at h3
                  · rename_i hcm
                    have hcm' := PEnv.kindAt_of_beq hcm ne_eof_comma
                    rw [env.adv_lt hcm'.1] at h3
                    obtain ⟨new, rfl, hy⟩ := ih.listY _ _ _ _ h3
                    simp only [List.reverse_append, List.reverse_reverse, List.reverse_cons,
                      List.reverse_nil, List.nil_append, List.singleton_append]
                    exact .list hn (.cons hfst hcm' hy) hk h5
                  · cases h3
                    exact .list hn (.one hfst) hk h5

theorem ledRes_yields {env : PEnv} {f : Nat} (ih : YAt env f)
    {left : Expr} {i0 i : Nat} (hl : Yields env left i0 i) {bp : BP} {led : Led}
    (hd : env.ledAt i bp led)
    {e : Expr} {j : Nat} (h : ledRes env f left (env.peek i) (i + 1) bp led = .ok (e, j)) :
    Yields env e i0 j := by
  have ihE := ih.exprY
  unfold ledRes at h
  cases led <;> simp only [] at h
  case binaryL =>
    split at h
    · cases h
    · rename_i r i1 h1
      split at h
      · cases h
      · rename_i rg h2
        cases h
        exact .binary hl hd rfl (ihE _ _ _ _ h1) h2
  case binaryR =>
    split at h
    · cases h
    · rename_i r i1 h1
      split at h
      · cases h
      · rename_i rg h2
        cases h
        exact .binary hl hd rfl (ihE _ _ _ _ h1) h2
  case binaryN =>
    split at h
    · cases h
    · rename_i r i1 h1
      split at h
      · cases h
      · rename_i rg h2
        cases h
        exact .binary hl hd rfl (ihE _ _ _ _ h1) h2
  case unaryPostfix =>
    split at h
    · cases h
    · rename_i rg h2
      cases h
      exact .post hl hd h2
  case question =>
    split at h
    · cases h
    · rename_i m i1 h1
      split at h
      · cases h
      · rename_i c i2 h2
        obtain ⟨hk, rfl, rfl⟩ := PEnv.mustEat_kind ne_eof_colon h2
        split at h
        · cases h
        · rename_i r i3 h3
          split at h
          · cases h
          · rename_i rg h4
            cases h
            exact .ternary hl hd (ihE _ _ _ _ h1) hk (ihE _ _ _ _ h3) h4
  case call => exact ih.callY _ _ _ _ _ hl (.inl ⟨_, hd⟩) h
  case subscript =>
    split at h
    · cases h
    · rename_i ix i1 h1
      split at h
      · cases h
      · rename_i rb i2 h2
        obtain ⟨hk, rfl, rfl⟩ := PEnv.mustEat_kind ne_eof_rbrack h2
        split at h
        · cases h
        · rename_i rg h4
          cases h
          exact .subscript hl hd (ihE _ _ _ _ h1) hk h4
  case dot =>
    split at h
    · cases h
    · rename_i rg h1
      by_cases hi : i + 1 < env.toks.size
      · rw [env.adv_lt hi] at h
        have hm : Yields env (.member rg (env.peek i).pos.col left (env.peek (i + 1)).lexeme
            (env.peek (i + 1)).pos none (-1)) i0 (i + 2) := .member hl hd hi h1
        split at h
        · rename_i hp
          have hp' := PEnv.kindAt_of_beq hp ne_eof_lparen
          rw [env.adv_lt hp'.1] at h
          exact ih.callY _ _ _ _ _ hm (.inr ⟨rfl, hp'⟩) h
        · cases h; exact hm
      · have hsz : i + 1 = env.toks.size := by have := hd.1; omega
        have hadv : env.adv (i + 1) = i + 1 := by unfold PEnv.adv; rw [if_neg hi]
        have hpk : env.peek (i + 1) = eofToken := by unfold PEnv.peek; rw [dif_neg hi]
        rw [hadv, hpk] at h
        rw [hpk] at h1
        split at h
        · rename_i hp; exact absurd hp (by decide)
        · cases h; exact .memberEOF hl hd hsz h1

theorem yields_succ {env : PEnv} (hE : env.NoEOF) {f : Nat} (ih : YAt env f) : YAt env (f + 1) := by
  have ihE := ih.exprY
  refine ⟨?_, ?_, ?_, ?_, ?_, ?_, ?_⟩
  · intro rbp i e j h
    rw [pExpr_succ] at h
    split at h
    · cases h
    · rename_i bp nud hlk
      have hi := PEnv.lt_of_prefix hE hlk
      rw [env.adv_lt hi] at h
      split at h
      · cases h
      · rename_i left j0 hn
        exact ih.infixY _ _ _ _ _ _ (nudRes_yields ih ⟨hi, hlk⟩ hn) h
  · intro left rbp i0 i e j hl h
    rw [pInfix_succ] at h
    split at h
    · split at h
      · cases h
      · rename_i bp led hlk
        have hi := PEnv.lt_of_infix hE hlk
        rw [env.adv_lt hi] at h
        split at h
        · cases h
        · rename_i e1 j1 hr
          split at h
          · cases h
          · rename_i e2 hc
            cases infixNCheck_ok hc
            exact ih.infixY _ _ _ _ _ _ (ledRes_yields ih hl ⟨hi, hlk⟩ hr) h
    · split at h
      · cases h
      · rename_i e2 hc
        cases infixNCheck_ok hc
        cases h; exact hl
  · intro c i0 k e j hc hh h
    simp only [pCall] at h
    split at h
    · cases h
    · rename_i as i1 ha
      split at h
      · cases h
      · rename_i rp i2 h2
        obtain ⟨hk, rfl, rfl⟩ := PEnv.mustEat_kind ne_eof_rparen h2
        split at h
        · cases h
        · rename_i rg h3
          cases h
          have hargs : YArgs env as.reverse (k + 1) i1 := by
            split at ha
            · cases ha; exact .nil
            · obtain ⟨new, rfl, hy⟩ := ih.argsY _ _ _ _ ha
              simp only [List.append_nil, List.reverse_reverse]
              exact .some hy
          rcases hh with ⟨bp, hd⟩ | ⟨hm, hp⟩
          · exact .call hc hd hargs hk h3
          · exact .methodCall hc hm hp hargs hk h3
  · intro acc i as j h
    simp only [pArgs] at h
    split at h
    · cases h
    · rename_i a i1 h1
      have ha := ihE _ _ _ _ h1
      split at h
      · rename_i hcm
        have hcm' := PEnv.kindAt_of_beq hcm ne_eof_comma
        rw [env.adv_lt hcm'.1] at h
        obtain ⟨new, rfl, hy⟩ := ih.argsY _ _ _ _ h
        exact ⟨a :: new, by simp, .cons ha hcm' hy⟩
      · cases h; exact ⟨[a], by simp, .one ha⟩
  · intro acc i as j h
    simp only [pList] at h
    split at h
    · cases h; exact ⟨[], by simp, .nil⟩
    · split at h
      · cases h
      · rename_i a i1 h1
        have ha := ihE _ _ _ _ h1
        split at h
        · rename_i hcm
          have hcm' := PEnv.kindAt_of_beq hcm ne_eof_comma
          rw [env.adv_lt hcm'.1] at h
          obtain ⟨new, rfl, hy⟩ := ih.listY _ _ _ _ h
          exact ⟨a :: new, by simp, .cons ha hcm' hy⟩
        · cases h; exact ⟨[a], by simp, .one ha⟩
  · intro acc i ps j h
    simp only [pMap] at h
    split at h
    · cases h; exact ⟨[], by simp, .nil⟩
    · split at h
      · cases h
      · rename_i k i1 h1
        have hk := ihE _ _ _ _ h1
        split at h
        · cases h
        · rename_i c i2 h2
          obtain ⟨hc, rfl, rfl⟩ := PEnv.mustEat_kind ne_eof_colon h2
          split at h
          · cases h
          · rename_i v i3 h3
            have hv := ihE _ _ _ _ h3
            split at h
            · rename_i hcm
              have hcm' := PEnv.kindAt_of_beq hcm ne_eof_comma
              rw [env.adv_lt hcm'.1] at h
              obtain ⟨new, rfl, hy⟩ := ih.mapY _ _ _ _ h
              exact ⟨(k, v) :: new, by simp, .cons hk hc hv hcm' hy⟩
            · cases h; exact ⟨[(k, v)], by simp, .one hk hc hv⟩
  · intro acc i fs j h
    simp only [pObj] at h
    split at h
    · cases h; exact ⟨[], by simp, .nil⟩
    · split at h
      · cases h
      · rename_i n i1 h1
        obtain ⟨hn, rfl, rfl⟩ := PEnv.mustEat_kind ne_eof_sym h1
        split at h
        · cases h
        · rename_i c i2 h2
          obtain ⟨hc, rfl, rfl⟩ := PEnv.mustEat_kind ne_eof_colon h2
          split at h
          · cases h
          · rename_i v i3 h3
            have hv := ihE _ _ _ _ h3
            split at h
            · rename_i hcm
              have hcm' := PEnv.kindAt_of_beq hcm ne_eof_comma
              rw [env.adv_lt hcm'.1] at h
              obtain ⟨new, rfl, hy⟩ := ih.objY _ _ _ _ h
              exact ⟨_ :: new, by simp, .cons hn hc hv hcm' hy⟩
            · cases h; exact ⟨[_], by simp, .one hn hc hv⟩

theorem yields_all {env : PEnv} (hE : env.NoEOF) (f : Nat) : YAt env f := by
  induction f with
  | zero =>
    refine ⟨?_, ?_, ?_, ?_, ?_, ?_, ?_⟩ <;> intros <;>
      simp_all [pExpr, pInfix, pCall, pArgs, pList, pMap, pObj]
  | succ f ih => exact yields_succ hE ih

/-- the environment `parseWith` runs in -/
def mkEnv (ops : List Operator) (times : List (String × Int)) (toks : List Token) : PEnv :=
  { g := newGrammar ops, toks := toks.toArray, times := times }

/-- Every tree returned by `parseWith` yields a prefix `[0, j)` of the tokens and the token at `j`
is the end of the input (no token left, or a token of kind `<END-OF-FILE>`). -/
theorem parseWith_yields {fuel : Nat} {ops : List Operator}
    {times : List (String × Int)} {toks : List Token} (hE : PEnv.NoEOF (mkEnv ops times toks))
    {t : Expr} (h : parseWith fuel ops times toks = .ok t) :
    ∃ j, Yields (mkEnv ops times toks) t 0 j ∧ ((mkEnv ops times toks).peek j).kind = tkEOF := by
  unfold parseWith at h
  simp only at h
  split at h
  · cases h
  · rename_i e j h1
    split at h
    · cases h
    · rename_i x h2
      cases h
      refine ⟨j, (yields_all hE fuel).exprY _ _ _ _ h1, ?_⟩
      unfold PEnv.mustEat at h2
      simp only at h2
      split at h2
      · rename_i hk
        have hk' : (PEnv.peek ⟨newGrammar ops, toks.toArray, times⟩ j).kind = tkEOF := by
          simpa using hk
        exact hk'
      · cases h2

end Yae
