/-
  C08, stage 1: exact spans.  A tree that yields the tokens `[i, j)` records the span that starts
  with token `i` (index, column, line) and ends where token `j-1` ends; with token positions in
  source order and not overlapping (`PEnv.Ordered`, what `Yae.C09.lex_ordered` states of lexed
  input) every child's span lies within its parent's span and siblings are disjoint and in order.
-/
import Yae.Proofs.ParseYieldSound
namespace Yae

/-! ## ranges are not empty and inside the token array -/

mutual
theorem Yields.bounds {env : PEnv} : ∀ {t i j}, Yields env t i j → i < j ∧ j ≤ env.toks.size
  | _, _, _, .ident h => ⟨by omega, h.1⟩
  | _, _, _, .true_ h => ⟨by omega, h.1⟩
  | _, _, _, .false_ h => ⟨by omega, h.1⟩
  | _, _, _, .num h _ => ⟨by omega, h.1⟩
  | _, _, _, .str h _ => ⟨by omega, h.1⟩
  | _, _, _, .time h _ => ⟨by omega, h.1⟩
  | _, _, _, .group h he hk _ => by have := he.bounds; have := hk.1; omega
  | _, _, _, .pre h he _ => by have := he.bounds; omega
  | _, _, _, .emptyMap h h1 h2 _ => by have := h2.1; omega
  | _, _, _, .list h he hk _ => by have := he.bounds; have := hk.1; omega
  | _, _, _, .map h he _ hk _ => by have := he.bounds; have := hk.1; omega
  | _, _, _, .obj h he hk _ => by have := he.bounds; have := hk.1; omega
  | _, _, _, .binary hl _ _ hr _ => by have := hl.bounds; have := hr.bounds; omega
  | _, _, _, .post hl hd _ => by have := hl.bounds; have := hd.1; omega
  | _, _, _, .ternary hl _ hm _ hr _ => by have := hl.bounds; have := hm.bounds; have := hr.bounds; omega
  | _, _, _, .call hc _ ha hk _ => by have := hc.bounds; have := ha.bounds; have := hk.1; omega
  | _, _, _, .methodCall hc _ _ ha hk _ => by have := hc.bounds; have := ha.bounds; have := hk.1; omega
  | _, _, _, .member ho _ hi _ => by have := ho.bounds; omega
  | _, _, _, .memberEOF ho _ hi _ => by have := ho.bounds; omega
  | _, _, _, .subscript hv _ hx hk _ => by have := hv.bounds; have := hx.bounds; have := hk.1; omega
theorem YArgs.bounds {env : PEnv} : ∀ {t i j}, YArgs env t i j → i ≤ j
  | _, _, _, .nil => Nat.le_refl _
  | _, _, _, .some h => h.bounds
theorem YSeq.bounds {env : PEnv} : ∀ {t i j}, YSeq env t i j → i ≤ j
  | _, _, _, .one h => by have := h.bounds; omega
  | _, _, _, .cons h _ hs => by have := h.bounds; have := hs.bounds; omega
theorem YElems.bounds {env : PEnv} : ∀ {t i j}, YElems env t i j → i ≤ j
  | _, _, _, .nil => Nat.le_refl _
  | _, _, _, .one h => by have := h.bounds; omega
  | _, _, _, .cons h _ hs => by have := h.bounds; have := hs.bounds; omega
theorem YPairs.bounds {env : PEnv} : ∀ {t i j}, YPairs env t i j → i ≤ j
  | _, _, _, .nil => Nat.le_refl _
  | _, _, _, .one h _ hv => by have := h.bounds; have := hv.bounds; omega
  | _, _, _, .cons h _ hv _ hs => by have := h.bounds; have := hv.bounds; have := hs.bounds; omega
theorem YFields.bounds {env : PEnv} : ∀ {t i j}, YFields env t i j → i ≤ j
  | _, _, _, .nil => Nat.le_refl _
  | _, _, _, .one _ _ hv => by have := hv.bounds; omega
  | _, _, _, .cons _ _ hv _ hs => by have := hv.bounds; have := hs.bounds; omega
end

/-- … and all of them when no token has the kind `<END-OF-FILE>`. -/
theorem parseWith_yields_all {fuel : Nat} {ops : List Operator}
    {times : List (String × Int)} {toks : List Token} (hE : PEnv.NoEOF (mkEnv ops times toks))
    (htk : ∀ t ∈ toks, t.kind ≠ tkEOF) {t : Expr}
    (h : parseWith fuel ops times toks = .ok t) :
    Yields (mkEnv ops times toks) t 0 toks.length := by
  obtain ⟨j, hy, hk⟩ := parseWith_yields hE h
  have hb := hy.bounds
  have hsz : (mkEnv ops times toks).toks.size = toks.length := by simp [mkEnv]
  by_cases hj : j < toks.length
  · exfalso
    have : (mkEnv ops times toks).peek j = toks[j] := by
      unfold PEnv.peek mkEnv
      simp [hj]
    rw [this] at hk
    exact htk _ (List.getElem_mem hj) hk
  · have : j = toks.length := by omega
    exact this ▸ hy

/-! ## exact spans -/

/-- Token positions are in source order and do not overlap (the conclusion of
`Yae.C09.lex_ordered`, minus the facts about the input length and the lexeme). -/
def TokensOrdered (ts : List Token) : Prop :=
  (∀ t ∈ ts, 0 ≤ t.pos.idx ∧ t.pos.idx < t.pos.idxEnd) ∧
  ts.Pairwise (fun a b => a.pos.idxEnd ≤ b.pos.idx)

/-- the same, on the token array of a parser environment -/
structure PEnv.Ordered (env : PEnv) : Prop where
  nonneg : ∀ i, i < env.toks.size → 0 ≤ (env.peek i).pos.idx
  nonempty : ∀ i, i < env.toks.size → (env.peek i).pos.idx < (env.peek i).pos.idxEnd
  apart : ∀ a b, a < b → b < env.toks.size → (env.peek a).pos.idxEnd ≤ (env.peek b).pos.idx

theorem PEnv.peek_lt (env : PEnv) {i : Nat} (h : i < env.toks.size) : env.peek i = env.toks[i] := by
  unfold PEnv.peek; rw [dif_pos h]

theorem TokensOrdered.env {ops : List Operator} {times : List (String × Int)} {toks : List Token}
    (h : TokensOrdered toks) : (mkEnv ops times toks).Ordered := by
  obtain ⟨h1, h2⟩ := h
  have hsz : (mkEnv ops times toks).toks.size = toks.length := by simp [mkEnv]
  have hpk : ∀ i (hi : i < toks.length), (mkEnv ops times toks).peek i = toks[i] := by
    intro i hi
    rw [PEnv.peek_lt _ (by omega)]; simp [mkEnv]
  refine ⟨?_, ?_, ?_⟩
  · intro i hi
    rw [hsz] at hi; rw [hpk i hi]
    exact (h1 _ (List.getElem_mem hi)).1
  · intro i hi
    rw [hsz] at hi; rw [hpk i hi]
    exact (h1 _ (List.getElem_mem hi)).2
  · intro a b hab hb
    rw [hsz] at hb
    rw [hpk a (by omega), hpk b hb]
    exact (List.pairwise_iff_getElem.mp h2) a b (by omega) hb hab

theorem PEnv.Ordered.start_mono {env : PEnv} (h : env.Ordered) {a b : Nat} (hab : a ≤ b)
    (hb : b < env.toks.size) : (env.peek a).pos.idx ≤ (env.peek b).pos.idx := by
  by_cases hab' : a = b
  · subst hab'; omega
  · have := h.apart a b (by omega) hb
    have := h.nonempty a (by omega)
    omega

theorem PEnv.Ordered.end_mono {env : PEnv} (h : env.Ordered) {a b : Nat} (hab : a ≤ b)
    (hb : b < env.toks.size) : (env.peek a).pos.idxEnd ≤ (env.peek b).pos.idxEnd := by
  by_cases hab' : a = b
  · subst hab'; omega
  · have := h.apart a b (by omega) hb
    have := h.nonempty b hb
    omega

/-- `p` is the span of the tokens `[i, j)`: it starts with token `i` (index, column, line) and ends
where token `j-1` ends. -/
def PEnv.Span (env : PEnv) (p : Pos) (i j : Nat) : Prop :=
  i < j ∧ j ≤ env.toks.size ∧
  p = { (env.peek i).pos with idxEnd := (env.peek (j - 1)).pos.idxEnd }

theorem PEnv.span_tok (env : PEnv) {i : Nat} (h : i < env.toks.size) :
    env.Span (env.peek i).pos i (i + 1) :=
  ⟨by omega, by omega, by simp⟩

theorem PEnv.Span.range {env : PEnv} {a b rg : Pos} {i j i' k : Nat} (ha : env.Span a i j)
    (hb : env.Span b i' k) (h : Pos.range a b = .ok rg) (hjk : j ≤ k) : env.Span rg i k := by
  obtain ⟨_, rfl⟩ := range_ok h
  obtain ⟨h1, h2, rfl⟩ := ha
  obtain ⟨h3, h4, rfl⟩ := hb
  exact ⟨by omega, h4, rfl⟩

/-- **Exact spans.**  A tree that yields the tokens `[i, j)` records exactly their span. -/
theorem Yields.span {env : PEnv} (ho : env.Ordered) :
    ∀ {t i j}, Yields env t i j → env.Span t.pos i j
  | _, _, _, .ident h => env.span_tok h.1
  | _, _, _, .true_ h => env.span_tok h.1
  | _, _, _, .false_ h => env.span_tok h.1
  | _, _, _, .num h _ => env.span_tok h.1
  | _, _, _, .str h _ => env.span_tok h.1
  | _, _, _, .time h he => by
    obtain ⟨v, rfl⟩ := timeLit_ok he
    exact env.span_tok h.1
  | _, _, _, .group h he hk hr => (env.span_tok h.1).range (env.span_tok hk.1) hr (by have := he.bounds; omega)
  | _, _, _, .pre h he hr => (env.span_tok h.1).range (he.span ho) hr (by have := he.bounds; omega)
  | _, _, _, .emptyMap h h1 h2 hr => (env.span_tok h.1).range (env.span_tok h2.1) hr (by omega)
  | _, _, _, .list h he hk hr => (env.span_tok h.1).range (env.span_tok hk.1) hr (by have := he.bounds; omega)
  | _, _, _, .map h he _ hk hr => (env.span_tok h.1).range (env.span_tok hk.1) hr (by have := he.bounds; omega)
  | _, _, _, .obj h he hk hr => (env.span_tok h.1).range (env.span_tok hk.1) hr (by have := he.bounds; omega)
  | _, _, _, .binary hl _ _ hr hg => (hl.span ho).range (hr.span ho) hg (by have := hr.bounds; omega)
  | _, _, _, .post hl hd hg => (hl.span ho).range (env.span_tok hd.1) hg (by omega)
  | _, _, _, .ternary hl _ hm _ hr hg => (hl.span ho).range (hr.span ho) hg
      (by have := hm.bounds; have := hr.bounds; omega)
  | _, _, _, .call hc _ ha hk hg => (hc.span ho).range (env.span_tok hk.1) hg (by have := ha.bounds; omega)
  | _, _, _, .methodCall hc _ _ ha hk hg => (hc.span ho).range (env.span_tok hk.1) hg
      (by have := ha.bounds; omega)
  | _, _, _, .member hl _ hi hg => (hl.span ho).range (env.span_tok hi) hg (by omega)
  | _, _, _, .memberEOF hl _ hi hg => by
    exfalso
    obtain ⟨h1, _⟩ := range_ok hg
    obtain ⟨h2, h3, h4⟩ := hl.span ho
    rw [h4] at h1
    have h5 := ho.nonneg _ (Nat.lt_of_lt_of_le h2 h3)
    have h6 : eofToken.pos.idx = -1 := rfl
    rw [h6] at h1
    simp only at h1
    omega
  | _, _, _, .subscript hv _ hx hk hg => (hv.span ho).range (env.span_tok hk.1) hg
      (by have := hx.bounds; omega)

/-! ## nesting -/

def posList : ExprList → List Pos
  | .nil => []
  | .cons e es => e.pos :: posList es
def posPairs : PairList → List Pos
  | .nil => []
  | .cons k v ps => k.pos :: v.pos :: posPairs ps
def posFields : FieldEList → List Pos
  | .nil => []
  | .cons _ e fs => e.pos :: posFields fs

/-- The spans of the parts of a node in source order: its children and, where the node records
it, the position of its operator / field-name token. -/
def Expr.parts : Expr → List Pos
  | .list _ es _ => posList es
  | .map _ ps _ => posPairs ps
  | .obj _ fs _ => posFields fs
  | .call _ _ c as _ _ _ => c.pos :: posList as
  | .subscript _ _ v i _ => [v.pos, i.pos]
  | .member _ _ o _ fp _ _ => [o.pos, fp]
  | .unary _ _ np e true => [np, e.pos]
  | .unary _ _ np e false => [e.pos, np]
  | .binary _ _ np _ l r => [l.pos, np, r.pos]
  | .ternary _ _ np l m r => [l.pos, np, m.pos, r.pos]
  | .group _ e => [e.pos]
  | _ => []

/-- The node's span is not empty, every part is a non-empty span inside it, and the parts are
disjoint and in source order. -/
def Expr.spanNested (e : Expr) : Prop :=
  e.pos.idx < e.pos.idxEnd ∧
  (∀ p ∈ e.parts, e.pos.idx ≤ p.idx ∧ p.idx < p.idxEnd ∧ p.idxEnd ≤ e.pos.idxEnd) ∧
  e.parts.Pairwise (fun a b => a.idxEnd ≤ b.idx)

/-- `ps` are the spans of consecutive, disjoint token ranges inside `[i, j)`. -/
def PEnv.Placed (env : PEnv) : List Pos → Nat → Nat → Prop
  | [], i, j => i ≤ j
  | p :: ps, i, j => ∃ a b, i ≤ a ∧ env.Span p a b ∧ env.Placed ps b j

theorem PEnv.Placed.le {env : PEnv} : ∀ {ps i j}, env.Placed ps i j → i ≤ j
  | [], _, _, h => h
  | _ :: _, _, _, ⟨_, _, h1, h2, h3⟩ => by have := h3.le; have := h2.1; omega

theorem PEnv.Placed.weaken {env : PEnv} {ps i i' j j'} (h : env.Placed ps i j) (hi : i' ≤ i)
    (hj : j ≤ j') : env.Placed ps i' j' := by
  induction ps generalizing i i' with
  | nil => simp only [PEnv.Placed] at *; omega
  | cons p ps ih =>
    obtain ⟨a, b, h1, h2, h3⟩ := h
    exact ⟨a, b, by omega, h2, ih h3 (Nat.le_refl _)⟩

theorem PEnv.Span.facts {env : PEnv} (ho : env.Ordered) {p : Pos} {a b : Nat} (h : env.Span p a b) :
    p.idx = (env.peek a).pos.idx ∧ p.idxEnd = (env.peek (b - 1)).pos.idxEnd ∧ p.idx < p.idxEnd := by
  obtain ⟨h1, h2, rfl⟩ := h
  refine ⟨rfl, rfl, ?_⟩
  have := ho.nonempty a (by omega)
  have := ho.end_mono (a := a) (b := b - 1) (by omega) (by omega)
  simp only
  omega

theorem PEnv.Placed.inside {env : PEnv} (ho : env.Ordered) {P : Pos} {i0 j0 : Nat}
    (hP : env.Span P i0 j0) :
    ∀ {ps i j}, env.Placed ps i j → i0 ≤ i → j ≤ j0 →
      (∀ p ∈ ps, P.idx ≤ p.idx ∧ p.idx < p.idxEnd ∧ p.idxEnd ≤ P.idxEnd ∧
        (env.peek i).pos.idx ≤ p.idx) ∧
      ps.Pairwise (fun a b => a.idxEnd ≤ b.idx)
  | [], _, _, _, _, _ => by simp
  | p :: ps, i, j, ⟨a, b, h1, h2, h3⟩, hi, hj => by
    have ih := PEnv.Placed.inside ho hP h3 (by have := h2.1; omega) hj
    obtain ⟨f1, f2, f3⟩ := h2.facts ho
    obtain ⟨g1, g2, g3⟩ := hP.facts ho
    have hb := h3.le
    have ha := h2.1
    have hb2 := h2.2.1
    have hj0 := hP.2.1
    have e1 := ho.start_mono (a := i0) (b := a) (by omega) (by omega)
    have e2 := ho.end_mono (a := b - 1) (b := j0 - 1) (by omega) (by omega)
    have e3 := ho.start_mono (a := i) (b := a) (by omega) (by omega)
    refine ⟨?_, ?_⟩
    · intro q hq
      rcases List.mem_cons.mp hq with rfl | hq
      · exact ⟨by omega, f3, by omega, by omega⟩
      · obtain ⟨k1, k2, k3, k4⟩ := ih.1 q hq
        exact ⟨k1, k2, k3, by
          by_cases hbs : b < env.toks.size
          · have := ho.start_mono (a := i) (b := b) (by omega) hbs
            omega
          · -- `b = size`: the rest is empty
            exfalso
            cases ps with
            | nil => simp at hq
            | cons r rs =>
              obtain ⟨a', b', l1, l2, _⟩ := h3
              have := l2.1; have := l2.2.1; omega⟩
    · refine List.pairwise_cons.mpr ⟨?_, ih.2⟩
      intro q hq
      obtain ⟨k1, k2, k3, k4⟩ := ih.1 q hq
      have hbs : b < env.toks.size := by
        cases ps with
        | nil => simp at hq
        | cons r rs =>
          obtain ⟨a', b', l1, l2, _⟩ := h3
          have := l2.1; have := l2.2.1; omega
      have := ho.apart (b - 1) b (by omega) hbs
      omega

/-- a node whose span is that of `[i, j)` and whose parts are placed inside is `spanNested` -/
theorem spanNested_of {env : PEnv} (ho : env.Ordered) {e : Expr} {i j : Nat}
    (hs : env.Span e.pos i j) (hp : env.Placed e.parts i j) : e.spanNested := by
  obtain ⟨h1, h2⟩ := PEnv.Placed.inside ho hs hp (Nat.le_refl _) (Nat.le_refl _)
  exact ⟨(hs.facts ho).2.2, fun p hp' => by obtain ⟨a, b, c, _⟩ := h1 p hp'; exact ⟨a, b, c⟩, h2⟩

theorem posList_ofList (l : List Expr) : posList (ExprList.ofList l) = l.map Expr.pos := by
  induction l with
  | nil => rfl
  | cons a l ih => simp [ExprList.ofList, posList, ih]

theorem posPairs_ofList (l : List (Expr × Expr)) :
    posPairs (PairList.ofList l) = l.flatMap (fun kv => [kv.1.pos, kv.2.pos]) := by
  induction l with
  | nil => rfl
  | cons a l ih => obtain ⟨k, v⟩ := a; simp [PairList.ofList, posPairs, ih]

theorem posFields_ofList (l : List (String × Expr)) :
    posFields (FieldEList.ofList l) = l.map (fun nv => nv.2.pos) := by
  induction l with
  | nil => rfl
  | cons a l ih => obtain ⟨k, v⟩ := a; simp [FieldEList.ofList, posFields, ih]

end Yae
