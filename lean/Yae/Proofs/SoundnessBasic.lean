/-
  Basic lemmas for C01/C02: syntactic type equality, `HasTy` inversion and conversion,
  well-formed containers, field lookup by name.
-/
import Yae.Spec.WF
namespace Yae.Sound

/-! ### `tyBeq` is syntactic equality -/

mutual
theorem tyBeq_eq : ∀ a b : Ty, tyBeq a b = true → a = b
  | .top, b, h => by cases b <;> simp [tyBeq] at h; rfl
  | .bot, b, h => by cases b <;> simp [tyBeq] at h; rfl
  | .var n, b, h => by cases b <;> simp [tyBeq] at h; subst h; rfl
  | .num, b, h => by cases b <;> simp [tyBeq] at h; rfl
  | .str, b, h => by cases b <;> simp [tyBeq] at h; rfl
  | .bool, b, h => by cases b <;> simp [tyBeq] at h; rfl
  | .time, b, h => by cases b <;> simp [tyBeq] at h; rfl
  | .tuple xs, b, h => by
    cases b with
    | tuple ys => rw [tyListBeq_eq xs ys (by simpa [tyBeq] using h)]
    | _ => simp [tyBeq] at h
  | .list a, b, h => by
    cases b with
    | list b => rw [tyBeq_eq a b (by simpa [tyBeq] using h)]
    | _ => simp [tyBeq] at h
  | .map k v, b, h => by
    cases b with
    | map k' v' =>
      simp only [tyBeq, Bool.and_eq_true] at h
      rw [tyBeq_eq k k' h.1, tyBeq_eq v v' h.2]
    | _ => simp [tyBeq] at h
  | .obj fs, b, h => by
    cases b with
    | obj gs => rw [fieldListBeq_eq fs gs (by simpa [tyBeq] using h)]
    | _ => simp [tyBeq] at h
  | .fn n ps r, b, h => by
    cases b with
    | fn n' qs s =>
      simp only [tyBeq, Bool.and_eq_true, beq_iff_eq] at h
      rw [h.1.1, tyListBeq_eq ps qs h.1.2, tyBeq_eq r s h.2]
    | _ => simp [tyBeq] at h
  | .maybe a, b, h => by
    cases b with
    | maybe b => rw [tyBeq_eq a b (by simpa [tyBeq] using h)]
    | _ => simp [tyBeq] at h
theorem tyListBeq_eq : ∀ xs ys : TyList, tyListBeq xs ys = true → xs = ys
  | .nil, ys, h => by cases ys <;> simp [tyListBeq] at h; rfl
  | .cons x xs, ys, h => by
    cases ys with
    | nil => simp [tyListBeq] at h
    | cons y ys =>
      simp only [tyListBeq, Bool.and_eq_true] at h
      rw [tyBeq_eq x y h.1, tyListBeq_eq xs ys h.2]
theorem fieldListBeq_eq : ∀ fs gs : FieldList, fieldListBeq fs gs = true → fs = gs
  | .nil, gs, h => by cases gs <;> simp [fieldListBeq] at h; rfl
  | .cons n t fs, gs, h => by
    cases gs with
    | nil => simp [fieldListBeq] at h
    | cons m u gs =>
      simp only [fieldListBeq, Bool.and_eq_true, beq_iff_eq] at h
      rw [h.1.1, tyBeq_eq t u h.1.2, fieldListBeq_eq fs gs h.2]
end

/-! ### substitution facts -/

theorem TyList.get?_substGList (σ : Subst) : ∀ (ps : TyList) (i : Nat),
    (substGList σ ps).get? i = (ps.get? i).map (substG σ)
  | .nil, _ => by simp [substGList, TyList.get?]
  | .cons p ps, 0 => by simp [substGList, TyList.get?]
  | .cons p ps, i+1 => by simp [substGList, TyList.get?, TyList.get?_substGList σ ps i]

theorem StructEqList.get? : ∀ {xs ys : TyList}, StructEqList xs ys → ∀ i x, xs.get? i = some x →
    ∃ y, ys.get? i = some y ∧ StructEq x y
  | _, _, .nil, i, x, h => by simp [TyList.get?] at h
  | _, _, .cons h1 h2, 0, x, h => by
    simp only [TyList.get?] at h ⊢
    cases h; exact ⟨_, rfl, h1⟩
  | _, _, .cons h1 h2, i+1, x, h => by
    simp only [TyList.get?] at h ⊢
    exact StructEqList.get? h2 i x h

theorem TyList.get?_lt : ∀ (ps : TyList) (i : Nat), i < ps.length → ∃ p, ps.get? i = some p
  | .nil, i, h => by simp [TyList.length] at h
  | .cons p ps, 0, _ => ⟨p, rfl⟩
  | .cons p ps, i+1, h => by
    simp only [TyList.length] at h
    simpa [TyList.get?] using TyList.get?_lt ps i (by omega)

theorem wfList_get? : ∀ (ps : TyList) (i : Nat) (p : Ty), wfList ps = true → ps.get? i = some p →
    p.wf = true
  | .nil, _, _, _, h => by simp [TyList.get?] at h
  | .cons q ps, 0, p, hw, h => by
    simp only [wfList, Bool.and_eq_true] at hw
    simp only [TyList.get?] at h; cases h; exact hw.1
  | .cons q ps, i+1, p, hw, h => by
    simp only [wfList, Bool.and_eq_true] at hw
    simp only [TyList.get?] at h
    exact wfList_get? ps i p hw.2 h

theorem slotFreeList_get? : ∀ (ps : TyList) (i : Nat) (p : Ty), slotFreeList ps = true →
    ps.get? i = some p → slotFree p = true
  | .nil, _, _, _, h => by simp [TyList.get?] at h
  | .cons q ps, 0, p, hw, h => by
    simp only [slotFreeList, Bool.and_eq_true] at hw
    simp only [TyList.get?] at h; cases h; exact hw.1
  | .cons q ps, i+1, p, hw, h => by
    simp only [slotFreeList, Bool.and_eq_true] at hw
    simp only [TyList.get?] at h
    exact slotFreeList_get? ps i p hw.2 h

/-! ### the type a well-formed value carries -/

theorem WF_typeOf_wf : ∀ v : Val, WF v = true → v.typeOf.wf = true
  | .num _, _ | .str _, _ | .bool _, _ | .time _, _ => rfl
  | .list ty vs, h => by
    cases ty <;> simp [WF] at h
    simp only [Val.typeOf]; exact h.1
  | .map ty es, h => by
    cases ty <;> simp [WF] at h
    simp only [Val.typeOf]; exact h.1
  | .obj ty vs, h => by
    cases ty <;> simp [WF] at h
    simp only [Val.typeOf]; exact h.1
  | .fn ty ref l, h => by
    simp only [WF, declOK, Bool.and_eq_true] at h
    simp only [Val.typeOf]
    cases ty <;> simp at h
    simp only [Ty.wf, Bool.and_eq_true]
    exact ⟨h.1.1.1.1, h.1.1.1.2⟩
  | .just el v, h => by
    simp only [WF, Bool.and_eq_true] at h
    simp only [Val.typeOf, Ty.wf]; exact h.1.1
  | .nothing el, h => by
    simp only [WF] at h
    simp only [Val.typeOf, Ty.wf]; exact h
  | .nil, h => by simp [WF] at h

theorem HasTy.typeOf_wf {v : Val} {T : Ty} (h : HasTy v T) : v.typeOf.wf = true :=
  WF_typeOf_wf v h.1

/-- conversion along type equality -/
theorem HasTy.conv {v : Val} {A B : Ty} (h : HasTy v A) (hA : A.wf = true) (hB : B.wf = true)
    (e : tyEq B A = true) : HasTy v B :=
  ⟨h.1, tyEq_trans' hB hA e h.2⟩

theorem HasTy.convS {v : Val} {A B : Ty} (h : HasTy v A) (hA : A.wf = true) (hB : B.wf = true)
    (e : StructEq B A) : HasTy v B :=
  h.conv hA hB (tyEq_complete B A hB e)

theorem HasTy.self {v : Val} (h : WF v = true) : HasTy v v.typeOf :=
  ⟨h, tyEq_refl' (WF_typeOf_wf v h)⟩

/-! ### inversion -/

theorem HasTy.num_inv {v : Val} (h : HasTy v .num) : ∃ x, v = .num x := by
  obtain ⟨hw, ht⟩ := h
  cases v with
  | num x => exact ⟨x, rfl⟩
  | list ty _ | map ty _ | obj ty _ => cases ty <;> simp [Val.typeOf, tyEq, WF] at ht hw
  | fn ty _ _ => cases ty <;> simp [Val.typeOf, tyEq, WF, declOK] at ht hw
  | _ => simp [Val.typeOf, tyEq] at ht

theorem HasTy.str_inv {v : Val} (h : HasTy v .str) : ∃ x, v = .str x := by
  obtain ⟨hw, ht⟩ := h
  cases v with
  | str x => exact ⟨x, rfl⟩
  | list ty _ | map ty _ | obj ty _ => cases ty <;> simp [Val.typeOf, tyEq, WF] at ht hw
  | fn ty _ _ => cases ty <;> simp [Val.typeOf, tyEq, WF, declOK] at ht hw
  | _ => simp [Val.typeOf, tyEq] at ht

theorem HasTy.bool_inv {v : Val} (h : HasTy v .bool) : ∃ x, v = .bool x := by
  obtain ⟨hw, ht⟩ := h
  cases v with
  | bool x => exact ⟨x, rfl⟩
  | list ty _ | map ty _ | obj ty _ => cases ty <;> simp [Val.typeOf, tyEq, WF] at ht hw
  | fn ty _ _ => cases ty <;> simp [Val.typeOf, tyEq, WF, declOK] at ht hw
  | _ => simp [Val.typeOf, tyEq] at ht

theorem HasTy.time_inv {v : Val} (h : HasTy v .time) : ∃ x, v = .time x := by
  obtain ⟨hw, ht⟩ := h
  cases v with
  | time x => exact ⟨x, rfl⟩
  | list ty _ | map ty _ | obj ty _ => cases ty <;> simp [Val.typeOf, tyEq, WF] at ht hw
  | fn ty _ _ => cases ty <;> simp [Val.typeOf, tyEq, WF, declOK] at ht hw
  | _ => simp [Val.typeOf, tyEq] at ht

/-- no well-formed value has the empty-container element type `⊥` -/
theorem HasTy.bot_inv {v : Val} (h : HasTy v .bot) : False := by
  obtain ⟨hw, ht⟩ := h
  cases v with
  | nil => simp [WF] at hw
  | list ty _ | map ty _ | obj ty _ => cases ty <;> simp [Val.typeOf, tyEq, WF] at ht hw
  | fn ty _ _ => cases ty <;> simp [Val.typeOf, tyEq, WF, declOK] at ht hw
  | _ => simp [Val.typeOf, tyEq] at ht

theorem HasTy.list_inv {v : Val} {el : Ty} (h : HasTy v (.list el)) :
    ∃ el' vs, v = .list (.list el') vs ∧ (Ty.list el').wf = true ∧ WFList el' vs = true ∧
      tyEq el el' = true := by
  obtain ⟨hw, ht⟩ := h
  cases v with
  | list ty vs =>
    cases ty <;> simp [Val.typeOf, tyEq, WF] at ht hw
    exact ⟨_, _, rfl, hw.1, hw.2, ht⟩
  | map ty _ | obj ty _ => cases ty <;> simp [Val.typeOf, tyEq, WF] at ht hw
  | fn ty _ _ => cases ty <;> simp [Val.typeOf, tyEq, WF, declOK] at ht hw
  | _ => simp [Val.typeOf, tyEq] at ht

theorem HasTy.map_inv {v : Val} {k x : Ty} (h : HasTy v (.map k x)) :
    ∃ k' x' es, v = .map (.map k' x') es ∧ (Ty.map k' x').wf = true ∧ WFEntries k' x' es = true ∧
      tyEq k k' = true ∧ tyEq x x' = true := by
  obtain ⟨hw, ht⟩ := h
  cases v with
  | map ty vs =>
    cases ty <;> simp [Val.typeOf, tyEq, WF] at ht hw
    exact ⟨_, _, _, rfl, hw.1, hw.2, ht.1, ht.2⟩
  | list ty _ | obj ty _ => cases ty <;> simp [Val.typeOf, tyEq, WF] at ht hw
  | fn ty _ _ => cases ty <;> simp [Val.typeOf, tyEq, WF, declOK] at ht hw
  | _ => simp [Val.typeOf, tyEq] at ht

theorem HasTy.obj_inv {v : Val} {fs : FieldList} (h : HasTy v (.obj fs)) :
    ∃ gs vs, v = .obj (.obj gs) vs ∧ (Ty.obj gs).wf = true ∧ WFObj gs vs = true ∧
      tyEq (.obj fs) (.obj gs) = true := by
  obtain ⟨hw, ht⟩ := h
  cases v with
  | obj ty vs =>
    cases ty with
    | obj gs =>
      simp only [WF, Bool.and_eq_true] at hw
      exact ⟨_, _, rfl, hw.1, hw.2, ht⟩
    | _ => simp [Val.typeOf, tyEq, WF] at ht hw
  | list ty _ | map ty _ => cases ty <;> simp [Val.typeOf, tyEq, WF] at ht hw
  | fn ty _ _ => cases ty <;> simp [Val.typeOf, tyEq, WF, declOK] at ht hw
  | _ => simp [Val.typeOf, tyEq] at ht

theorem HasTy.maybe_inv {v : Val} {el : Ty} (h : HasTy v (.maybe el)) :
    (∃ el' x, v = .just el' x ∧ el'.wf = true ∧ WF x = true ∧ tyEq el' x.typeOf = true ∧
      tyEq el el' = true) ∨ (∃ el', v = .nothing el' ∧ el'.wf = true ∧ tyEq el el' = true) := by
  obtain ⟨hw, ht⟩ := h
  cases v with
  | just el' x =>
    simp only [WF, Bool.and_eq_true] at hw
    simp only [Val.typeOf, tyEq] at ht
    exact .inl ⟨_, _, rfl, hw.1.1, hw.1.2, hw.2, ht⟩
  | nothing el' =>
    simp only [Val.typeOf, tyEq] at ht
    exact .inr ⟨_, rfl, by simpa [WF] using hw, ht⟩
  | list ty _ | map ty _ | obj ty _ => cases ty <;> simp [Val.typeOf, tyEq, WF] at ht hw
  | fn ty _ _ => cases ty <;> simp [Val.typeOf, tyEq, WF, declOK] at ht hw
  | _ => simp [Val.typeOf, tyEq] at ht

theorem HasTy.fn_inv {v : Val} {n : String} {ps : TyList} {r : Ty} (h : HasTy v (.fn n ps r)) :
    ∃ n' ps' r' ref l, v = .fn (.fn n' ps' r') ref l ∧ declOK ⟨.fn n' ps' r', ref, l⟩ = true ∧
      tyEq (.fn n ps r) (.fn n' ps' r') = true := by
  obtain ⟨hw, ht⟩ := h
  cases v with
  | fn ty ref l =>
    cases ty with
    | fn n' ps' r' => exact ⟨_, _, _, _, _, rfl, by simpa [WF] using hw, ht⟩
    | _ => simp [Val.typeOf, tyEq] at ht
  | list ty _ | map ty _ | obj ty _ => cases ty <;> simp [Val.typeOf, tyEq, WF] at ht hw
  | _ => simp [Val.typeOf, tyEq] at ht

/-- a value of a primitive type has a key of that kind -/
theorem HasTy.key_of_prim {v : Val} {T : Ty} (h : HasTy v T) (hp : T.isPrimitive = true) :
    ∃ ks, v.key? = some (T.kind, ks) := by
  cases T <;> simp [Ty.isPrimitive, Ty.kind, Kind.isPrimitive] at hp
  · obtain ⟨x, rfl⟩ := h.num_inv; exact ⟨_, rfl⟩
  · obtain ⟨x, rfl⟩ := h.str_inv; exact ⟨_, rfl⟩
  · obtain ⟨x, rfl⟩ := h.bool_inv
    simp only [Val.key?, Ty.kind]; exact ⟨_, rfl⟩
  · obtain ⟨x, rfl⟩ := h.time_inv; exact ⟨_, rfl⟩

/-- a variable-free keyable type is primitive or `⊥` -/
theorem keyable_ground {k : Ty} (hk : k.keyable = true) (hs : slotFree k = true) :
    k.isPrimitive = true ∨ k = .bot := by
  cases k <;> simp [Ty.keyable, Ty.isPrimitive, Ty.kind, Kind.isPrimitive, slotFree] at hk hs ⊢

theorem tyEq_kind {a b : Ty} (h : tyEq a b = true) : a.kind = b.kind := by
  cases a <;> cases b <;> simp [tyEq] at h <;> rfl

theorem tyEq_prim_left {a b : Ty} (h : tyEq a b = true) (hp : b.isPrimitive = true) :
    a.isPrimitive = true := by
  simp only [Ty.isPrimitive] at hp ⊢
  rw [tyEq_kind h]; exact hp

/-! ### well-formed containers -/

theorem WFList_get? : ∀ (el : Ty) (vs : ValList) (i : Nat) (v : Val), WFList el vs = true →
    vs.get? i = some v → WF v = true ∧ tyEq el v.typeOf = true
  | _, .nil, _, _, _, h => by simp [ValList.get?] at h
  | el, .cons x vs, 0, v, hw, h => by
    simp only [WFList, Bool.and_eq_true] at hw
    simp only [ValList.get?] at h; cases h; exact hw.1
  | el, .cons x vs, i+1, v, hw, h => by
    simp only [WFList, Bool.and_eq_true] at hw
    simp only [ValList.get?] at h
    exact WFList_get? el vs i v hw.2 h

theorem ValList.get?_lt : ∀ (vs : ValList) (i : Nat), i < vs.length → ∃ v, vs.get? i = some v
  | .nil, i, h => by simp [ValList.length] at h
  | .cons v vs, 0, _ => ⟨v, rfl⟩
  | .cons v vs, i+1, h => by
    simp only [ValList.length] at h
    simpa [ValList.get?] using ValList.get?_lt vs i (by omega)

theorem WFEntries_find? : ∀ (k x : Ty) (es : EntryList) (t : Kind) (ks : String) (v : Val),
    WFEntries k x es = true → es.find? t ks = some v → WF v = true ∧ tyEq x v.typeOf = true
  | _, _, .nil, _, _, _, _, h => by simp [EntryList.find?] at h
  | k, x, .cons t' k' v' es, t, ks, v, hw, h => by
    simp only [WFEntries, Bool.and_eq_true] at hw
    simp only [EntryList.find?] at h
    split at h
    · cases h; exact ⟨hw.1.1.2, hw.1.2⟩
    · exact WFEntries_find? k x es t ks v hw.2 h

theorem WFEntries_insert : ∀ (k x : Ty) (es : EntryList) (t : Kind) (ks : String) (v : Val),
    WFEntries k x es = true → t = k.kind → WF v = true → tyEq x v.typeOf = true →
    WFEntries k x (es.insert t ks v) = true
  | k, x, .nil, t, ks, v, _, ht, hv, he => by
    simp [EntryList.insert, WFEntries, ht, hv, he]
  | k, x, .cons t' k' v' es, t, ks, v, hw, ht, hv, he => by
    simp only [WFEntries, Bool.and_eq_true] at hw
    simp only [EntryList.insert]
    split
    · simp only [WFEntries, Bool.and_eq_true]
      exact ⟨⟨⟨hw.1.1.1, hv⟩, he⟩, hw.2⟩
    · simp only [WFEntries, Bool.and_eq_true]
      exact ⟨hw.1, WFEntries_insert k x es t ks v hw.2 ht hv he⟩

theorem WFEntries_tag : ∀ (k x : Ty) (es : EntryList), WFEntries k x es = true →
    ∀ t ks v, (t, ks, v) ∈ es.toList → t = k.kind
  | _, _, .nil, _, t, ks, v, hm => by simp [EntryList.toList] at hm
  | k, x, .cons t0 k0 x0 es, hwf, t, ks, v, hm => by
    simp only [WFEntries, Bool.and_eq_true, beq_iff_eq] at hwf
    simp only [EntryList.toList, List.mem_cons, Prod.mk.injEq] at hm
    rcases hm with ⟨rfl, _, _⟩ | hm
    · exact hwf.1.1.1
    · exact WFEntries_tag k x es hwf.2 t ks v hm

/-! ### fields by name -/

theorem FieldList.find?_indexOf? : ∀ (fs : FieldList) (n : String) (T : Ty),
    fs.find? n = some T → ∃ i, fs.indexOf? n = some i ∧ fs.get? i = some (n, T)
  | .nil, _, _, h => by simp [FieldList.find?] at h
  | .cons m t fs, n, T, h => by
    simp only [FieldList.find?] at h
    simp only [FieldList.indexOf?]
    split at h
    · next hmn => cases h; subst hmn; exact ⟨0, by simp, rfl⟩
    · next hmn =>
      obtain ⟨i, hi, hg⟩ := FieldList.find?_indexOf? fs n T h
      exact ⟨i+1, by simp [hmn, hi], by simpa [FieldList.get?] using hg⟩

theorem WFObj_get? : ∀ (fs : FieldList) (vs : ValList) (i : Nat) (n : String) (T : Ty),
    WFObj fs vs = true → fs.get? i = some (n, T) →
    ∃ v, vs.get? i = some v ∧ WF v = true ∧ tyEq T v.typeOf = true
  | .nil, _, _, _, _, _, h => by simp [FieldList.get?] at h
  | .cons m t fs, .nil, _, _, _, hw, _ => by simp [WFObj] at hw
  | .cons m t fs, .cons v vs, 0, n, T, hw, h => by
    simp only [WFObj, Bool.and_eq_true] at hw
    simp only [FieldList.get?] at h
    cases h; exact ⟨v, rfl, hw.1.1, hw.1.2⟩
  | .cons m t fs, .cons v vs, i+1, n, T, hw, h => by
    simp only [WFObj, Bool.and_eq_true] at hw
    simp only [FieldList.get?] at h
    simpa [ValList.get?] using WFObj_get? fs vs i n T hw.2 h

theorem tyEqFields_find : ∀ (fs gs : FieldList) (n : String) (T : Ty),
    tyEqFields fs gs = true → fs.find? n = some T →
    ∃ U, gs.find? n = some U ∧ tyEq T U = true
  | .nil, _, _, _, _, h => by simp [FieldList.find?] at h
  | .cons m t fs, gs, n, T, he, h => by
    simp only [tyEqFields, Bool.and_eq_true] at he
    simp only [FieldList.find?] at h
    split at h
    · next hmn =>
      cases h; subst hmn
      obtain ⟨h1, _⟩ := he
      split at h1
      · next u hu => exact ⟨u, hu, h1⟩
      · cases h1
    · exact tyEqFields_find fs gs n T he.2 h

/-- member access by name on a well-formed object value whose own type is equal (by name) to
the static object type: the field is found, whatever the value's own field order. -/
theorem objGet_of_hasTy {fs gs : FieldList} {vs : ValList} {field : String} {T : Ty}
    (hfs : (Ty.obj fs).wf = true) (hgs : (Ty.obj gs).wf = true)
    (hw : WFObj gs vs = true) (he : tyEq (.obj fs) (.obj gs) = true)
    (hf : fs.find? field = some T) :
    ∃ v, objGet? (.obj gs) vs field = some v ∧ HasTy v T := by
  simp only [tyEq, Bool.and_eq_true] at he
  obtain ⟨U, hU, hTU⟩ := tyEqFields_find fs gs field T he.2 hf
  obtain ⟨i, hi, hg⟩ := FieldList.find?_indexOf? gs field U hU
  obtain ⟨v, hv, hwv, htv⟩ := WFObj_get? gs vs i field U hw hg
  refine ⟨v, by simp [objGet?, hi, hv], hwv, ?_⟩
  simp only [Ty.wf] at hfs hgs
  exact tyEq_trans' (wfFields_find fs field T hfs hf) (wfFields_find gs field U hgs hU) hTU htv

/-! ### no absent component -/

mutual
theorem WF_noNil : ∀ v : Val, WF v = true → noNil v = true
  | .num _, _ | .str _, _ | .bool _, _ | .time _, _ | .fn _ _ _, _ | .nothing _, _ => rfl
  | .nil, h => by simp [WF] at h
  | .list ty vs, h => by
    cases ty <;> simp [WF] at h
    simp only [noNil]; exact WFList_noNil _ vs h.2
  | .map ty es, h => by
    cases ty <;> simp [WF] at h
    simp only [noNil]; exact WFEntries_noNil _ _ es h.2
  | .obj ty vs, h => by
    cases ty <;> simp [WF] at h
    simp only [noNil]; exact WFObj_noNil _ vs h.2
  | .just el v, h => by
    simp only [WF, Bool.and_eq_true] at h
    simp only [noNil]; exact WF_noNil v h.1.2
theorem WFList_noNil : ∀ (el : Ty) (vs : ValList), WFList el vs = true → noNilList vs = true
  | _, .nil, _ => rfl
  | el, .cons v vs, h => by
    simp only [WFList, Bool.and_eq_true] at h
    simp only [noNilList, Bool.and_eq_true]
    exact ⟨WF_noNil v h.1.1, WFList_noNil el vs h.2⟩
theorem WFObj_noNil : ∀ (fs : FieldList) (vs : ValList), WFObj fs vs = true → noNilList vs = true
  | _, .nil, _ => rfl
  | fs, .cons v vs, h => by
    cases fs with
    | nil => simp [WFObj] at h
    | cons n t fs =>
      simp only [WFObj, Bool.and_eq_true] at h
      simp only [noNilList, Bool.and_eq_true]
      exact ⟨WF_noNil v h.1.1, WFObj_noNil fs vs h.2⟩
theorem WFEntries_noNil : ∀ (k x : Ty) (es : EntryList), WFEntries k x es = true →
    noNilEntries es = true
  | _, _, .nil, _ => rfl
  | k, x, .cons _ _ v es, h => by
    simp only [WFEntries, Bool.and_eq_true] at h
    simp only [noNilEntries, Bool.and_eq_true]
    exact ⟨WF_noNil v h.1.1.2, WFEntries_noNil k x es h.2⟩
end

/-! ### argument lists -/

theorem HasTyList.length : ∀ {vs : List Val} {ts : TyList}, HasTyList vs ts →
    vs.length = ts.length
  | [], .nil, _ => rfl
  | [], .cons _ _, h => by simp [HasTyList] at h
  | _ :: _, .nil, h => by simp [HasTyList] at h
  | _ :: vs, .cons _ ts, h => by
    simp only [HasTyList] at h
    simp [TyList.length, HasTyList.length h.2]

theorem HasTyList.get? : ∀ {vs : List Val} {ts : TyList}, HasTyList vs ts → ∀ i t,
    ts.get? i = some t → ∃ v, vs[i]? = some v ∧ HasTy v t
  | [], .nil, _, i, t, h => by simp [TyList.get?] at h
  | [], .cons _ _, h, _, _, _ => by simp [HasTyList] at h
  | _ :: _, .nil, h, _, _, _ => by simp [HasTyList] at h
  | v :: vs, .cons t' ts, h, 0, t, hg => by
    simp only [HasTyList] at h
    simp only [TyList.get?] at hg; cases hg
    exact ⟨v, rfl, h.1⟩
  | v :: vs, .cons t' ts, h, i+1, t, hg => by
    simp only [HasTyList] at h
    simp only [TyList.get?] at hg
    simpa using HasTyList.get? h.2 i t hg

end Yae.Sound
