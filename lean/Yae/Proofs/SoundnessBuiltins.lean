/-
  C01 for the strict built-ins: every strict built-in, at every ground instance of its signature,
  applied to well-formed arguments of the instantiated parameter types, returns a well-formed
  value of the instantiated return type, or fails with the documented failure of that built-in
  (`%` by zero, invalid regular expression), or misses the harness' table of externs.
-/
import Yae.Proofs.SoundnessBasic
namespace Yae.Sound

/-! ### the table, with the private abbreviations of `Builtins.lean` unfolded -/

theorem builtins_eq : builtins = [
  ⟨.ABS_NUM, .fn "abs" (.cons .num .nil) .num, false⟩,
  ⟨.ADD_NUM, .fn "+" (.cons .num .nil) .num, false⟩,
  ⟨.ADD_NUM_NUM, .fn "+" (.cons .num (.cons .num .nil)) .num, false⟩,
  ⟨.ADD_STR_STR, .fn "+" (.cons .str (.cons .str .nil)) .str, false⟩,
  ⟨.CEIL_NUM, .fn "ceil" (.cons .num .nil) .num, false⟩,
  ⟨.DIFF_LIST_LIST, .fn "diff" (.cons (.list (.var "a")) (.cons (.list (.var "a")) .nil)) (.list (.var "a")), false⟩,
  ⟨.DIV_NUM_NUM, .fn "/" (.cons .num (.cons .num .nil)) .num, false⟩,
  ⟨.EQ_BOOL_BOOL, .fn "==" (.cons .bool (.cons .bool .nil)) .bool, false⟩,
  ⟨.EQ_LIST_LIST, .fn "==" (.cons (.list (.var "a")) (.cons (.list (.var "a")) .nil)) .bool, false⟩,
  ⟨.EQ_MAP_MAP, .fn "==" (.cons (.map (.var "k") (.var "v")) (.cons (.map (.var "k") (.var "v")) .nil)) .bool, false⟩,
  ⟨.EQ_NUM_NUM, .fn "==" (.cons .num (.cons .num .nil)) .bool, false⟩,
  ⟨.EQ_STR_STR, .fn "==" (.cons .str (.cons .str .nil)) .bool, false⟩,
  ⟨.EQ_TIME_TIME, .fn "==" (.cons .time (.cons .time .nil)) .bool, false⟩,
  ⟨.EXP_NUM_NUM, .fn "^" (.cons .num (.cons .num .nil)) .num, false⟩,
  ⟨.FLOOR_NUM, .fn "floor" (.cons .num .nil) .num, false⟩,
  ⟨.GET_LIST_NUM_ANY, .fn "get" (.cons (.list (.var "a")) (.cons .num (.cons (.var "a") .nil))) (.var "a"), false⟩,
  ⟨.GET_MAP_ANY_ANY, .fn "get" (.cons (.map (.var "k") (.var "v")) (.cons (.var "k") (.cons (.var "v") .nil))) (.var "v"), false⟩,
  ⟨.GET_MAYBE, .fn "get" (.cons (.maybe (.var "a")) (.cons (.var "a") .nil)) (.var "a"), false⟩,
  ⟨.GE_NUM_NUM, .fn ">=" (.cons .num (.cons .num .nil)) .bool, false⟩,
  ⟨.GE_TIME_TIME, .fn ">=" (.cons .time (.cons .time .nil)) .bool, false⟩,
  ⟨.GT_NUM_NUM, .fn ">" (.cons .num (.cons .num .nil)) .bool, false⟩,
  ⟨.GT_TIME_TIME, .fn ">" (.cons .time (.cons .time .nil)) .bool, false⟩,
  ⟨.IF_BOOL_ANY_ANY, .fn "if" (.cons .bool (.cons (.var "a") (.cons (.var "a") .nil))) (.var "a"), true⟩,
  ⟨.INTERSECT_LIST_LIST, .fn "intersect" (.cons (.list (.var "a")) (.cons (.list (.var "a")) .nil)) (.list (.var "a")), false⟩,
  ⟨.ISSET_MAP_ANY, .fn "isset" (.cons (.map (.var "k") (.var "v")) (.cons (.var "k") .nil)) .bool, false⟩,
  ⟨.LEN_LIST, .fn "len" (.cons (.list (.var "a")) .nil) .num, false⟩,
  ⟨.LEN_MAP, .fn "len" (.cons (.map (.var "k") (.var "v")) .nil) .num, false⟩,
  ⟨.LEN_STR, .fn "len" (.cons .str .nil) .num, false⟩,
  ⟨.LE_NUM_NUM, .fn "<=" (.cons .num (.cons .num .nil)) .bool, false⟩,
  ⟨.LE_TIME_TIME, .fn "<=" (.cons .time (.cons .time .nil)) .bool, false⟩,
  ⟨.LOGIC_AND_BOOL_BOOL, .fn "&&" (.cons .bool (.cons .bool .nil)) .bool, true⟩,
  ⟨.LOGIC_NOT_BOOL, .fn "!" (.cons .bool .nil) .bool, false⟩,
  ⟨.LOGIC_OR_BOOL_BOOL, .fn "||" (.cons .bool (.cons .bool .nil)) .bool, true⟩,
  ⟨.LT_NUM_NUM, .fn "<" (.cons .num (.cons .num .nil)) .bool, false⟩,
  ⟨.LT_TIME_TIME, .fn "<" (.cons .time (.cons .time .nil)) .bool, false⟩,
  ⟨.MATCH_STR_STR, .fn "match" (.cons .str (.cons .str .nil)) .bool, false⟩,
  ⟨.MAX_LIST, .fn "max" (.cons (.list .num) .nil) .num, false⟩,
  ⟨.MAX_NUM_NUM, .fn "max" (.cons .num (.cons .num .nil)) .num, false⟩,
  ⟨.MIN_LIST, .fn "min" (.cons (.list .num) .nil) .num, false⟩,
  ⟨.MIN_NUM_NUM, .fn "min" (.cons .num (.cons .num .nil)) .num, false⟩,
  ⟨.MOD_NUM_NUM, .fn "%" (.cons .num (.cons .num .nil)) .num, false⟩,
  ⟨.MUL_NUM_NUM, .fn "*" (.cons .num (.cons .num .nil)) .num, false⟩,
  ⟨.NE_BOOL_BOOL, .fn "!=" (.cons .bool (.cons .bool .nil)) .bool, false⟩,
  ⟨.NE_LIST_LIST, .fn "!=" (.cons (.list (.var "a")) (.cons (.list (.var "a")) .nil)) .bool, false⟩,
  ⟨.NE_MAP_MAP, .fn "!=" (.cons (.map (.var "k") (.var "v")) (.cons (.map (.var "k") (.var "v")) .nil)) .bool, false⟩,
  ⟨.NE_NUM_NUM, .fn "!=" (.cons .num (.cons .num .nil)) .bool, false⟩,
  ⟨.NE_STR_STR, .fn "!=" (.cons .str (.cons .str .nil)) .bool, false⟩,
  ⟨.NE_TIME_TIME, .fn "!=" (.cons .time (.cons .time .nil)) .bool, false⟩,
  ⟨.PRINT_ANY, .fn "print" (.cons (.var "a") .nil) (.var "a"), false⟩,
  ⟨.ROUND_NUM, .fn "round" (.cons .num .nil) .num, false⟩,
  ⟨.STRING_ANY, .fn "string" (.cons (.var "a") .nil) .str, false⟩,
  ⟨.STRTOTIME_STR, .fn "strtotime" (.cons .str .nil) .time, false⟩,
  ⟨.SUB_NUM, .fn "-" (.cons .num .nil) .num, false⟩,
  ⟨.SUB_NUM_NUM, .fn "-" (.cons .num (.cons .num .nil)) .num, false⟩,
  ⟨.SUB_TIME_TIME, .fn "-" (.cons .time (.cons .time .nil)) .num, false⟩,
  ⟨.UNION_LIST_LIST, .fn "union" (.cons (.list (.var "a")) (.cons (.list (.var "a")) .nil)) (.list (.var "a")), false⟩
] := rfl

/-! ### outcome of one application -/

/-- What an application of a strict built-in to arguments of its parameter types does: a
well-formed value of type `T`, or the failure that built-in is allowed. -/
def Outcome (ext : Externs) (id : BId) (vs : List Val) (T : Ty) : Prop :=
  (∃ v evs, applyBuiltin ext id vs = .ok (v, evs) ∧ HasTy v T) ∨
  (id = .MOD_NUM_NUM ∧ applyBuiltin ext id vs = .error .modZero) ∨
  (id = .MATCH_STR_STR ∧ (applyBuiltin ext id vs = .error .badRegex ∨
      applyBuiltin ext id vs = .error (.stuck "extern-miss:regex"))) ∨
  (id = .STRTOTIME_STR ∧ applyBuiltin ext id vs = .error (.stuck "extern-miss:strtotime"))

theorem Outcome.ok {ext : Externs} {id : BId} {vs : List Val} {T : Ty} {v : Val}
    {evs : List Event} (h : applyBuiltin ext id vs = .ok (v, evs)) (hv : HasTy v T) :
    Outcome ext id vs T := .inl ⟨v, evs, h, hv⟩

/-! ### argument lists of known length -/

theorem HasTyList.inv1 {vs : List Val} {A : Ty} (h : HasTyList vs (.cons A .nil)) :
    ∃ x, vs = [x] ∧ HasTy x A := by
  match vs, h with
  | [x], h => simp only [HasTyList] at h; exact ⟨x, rfl, h.1⟩
  | _ :: _ :: _, h => simp [HasTyList] at h

theorem HasTyList.inv2 {vs : List Val} {A B : Ty} (h : HasTyList vs (.cons A (.cons B .nil))) :
    ∃ x y, vs = [x, y] ∧ HasTy x A ∧ HasTy y B := by
  match vs, h with
  | [x], h => simp [HasTyList] at h
  | [x, y], h => simp only [HasTyList] at h; exact ⟨x, y, rfl, h.1, h.2.1⟩
  | _ :: _ :: _ :: _, h => simp [HasTyList] at h

theorem HasTyList.inv3 {vs : List Val} {A B C : Ty}
    (h : HasTyList vs (.cons A (.cons B (.cons C .nil)))) :
    ∃ x y z, vs = [x, y, z] ∧ HasTy x A ∧ HasTy y B ∧ HasTy z C := by
  match vs, h with
  | [x], h => simp [HasTyList] at h
  | [x, y], h => simp [HasTyList] at h
  | [x, y, z], h => simp only [HasTyList] at h; exact ⟨x, y, z, rfl, h.1, h.2.1, h.2.2.1⟩
  | _ :: _ :: _ :: _ :: _, h => simp [HasTyList] at h

theorem hasTy_num (x : Float) : HasTy (.num x) .num := ⟨rfl, rfl⟩
theorem hasTy_str (x : String) : HasTy (.str x) .str := ⟨rfl, rfl⟩
theorem hasTy_bool (x : Bool) : HasTy (.bool x) .bool := ⟨rfl, rfl⟩
theorem hasTy_time (x : TimeV) : HasTy (.time x) .time := ⟨rfl, rfl⟩

/-! ### the routine built-ins: primitive arguments, primitive result -/

/-- one argument of a type whose values are `cA _`, result `cR _` -/
theorem out1 {ext : Externs} {id : BId} {vs : List Val} {α γ : Type} {A R : Ty}
    {cA : α → Val} {cR : γ → Val}
    (invA : ∀ v, HasTy v A → ∃ x, v = cA x) (hR : ∀ z, HasTy (cR z) R) {g : α → γ}
    (happ : ∀ x, applyBuiltin ext id [cA x] = .ok (cR (g x), []))
    (h : HasTyList vs (.cons A .nil)) : Outcome ext id vs R := by
  obtain ⟨x, rfl, hx⟩ := h.inv1
  obtain ⟨x, rfl⟩ := invA x hx
  exact .ok (happ x) (hR _)

theorem out2 {ext : Externs} {id : BId} {vs : List Val} {α β γ : Type} {A B R : Ty}
    {cA : α → Val} {cB : β → Val} {cR : γ → Val}
    (invA : ∀ v, HasTy v A → ∃ x, v = cA x) (invB : ∀ v, HasTy v B → ∃ x, v = cB x)
    (hR : ∀ z, HasTy (cR z) R) {g : α → β → γ}
    (happ : ∀ x y, applyBuiltin ext id [cA x, cB y] = .ok (cR (g x y), []))
    (h : HasTyList vs (.cons A (.cons B .nil))) : Outcome ext id vs R := by
  obtain ⟨x, y, rfl, hx, hy⟩ := h.inv2
  obtain ⟨x, rfl⟩ := invA x hx
  obtain ⟨y, rfl⟩ := invB y hy
  exact .ok (happ x y) (hR _)

theorem invNum : ∀ v, HasTy v .num → ∃ x, v = .num x := fun _ h => h.num_inv
theorem invStr : ∀ v, HasTy v .str → ∃ x, v = .str x := fun _ h => h.str_inv
theorem invBool : ∀ v, HasTy v .bool → ∃ x, v = .bool x := fun _ h => h.bool_inv
theorem invTime : ∀ v, HasTy v .time → ∃ x, v = .time x := fun _ h => h.time_inv
/-- no inversion: the built-in takes the argument as it is -/
theorem invAny (A : Ty) : ∀ v, HasTy v A → ∃ x : Val, v = id x := fun v _ => ⟨v, rfl⟩

section routine
variable (ext : Externs) {vs : List Val}

theorem snd_ABS_NUM (h : HasTyList vs (.cons .num .nil)) : Outcome ext .ABS_NUM vs .num :=
  out1 invNum hasTy_num (fun _ => rfl) h
theorem snd_ADD_NUM (h : HasTyList vs (.cons .num .nil)) : Outcome ext .ADD_NUM vs .num :=
  out1 (g := fun x => x) invNum hasTy_num (fun _ => rfl) h
theorem snd_CEIL_NUM (h : HasTyList vs (.cons .num .nil)) : Outcome ext .CEIL_NUM vs .num :=
  out1 invNum hasTy_num (fun _ => rfl) h
theorem snd_FLOOR_NUM (h : HasTyList vs (.cons .num .nil)) : Outcome ext .FLOOR_NUM vs .num :=
  out1 invNum hasTy_num (fun _ => rfl) h
theorem snd_ROUND_NUM (h : HasTyList vs (.cons .num .nil)) : Outcome ext .ROUND_NUM vs .num :=
  out1 invNum hasTy_num (fun _ => rfl) h
theorem snd_SUB_NUM (h : HasTyList vs (.cons .num .nil)) : Outcome ext .SUB_NUM vs .num :=
  out1 invNum hasTy_num (fun _ => rfl) h
theorem snd_LOGIC_NOT_BOOL (h : HasTyList vs (.cons .bool .nil)) :
    Outcome ext .LOGIC_NOT_BOOL vs .bool :=
  out1 invBool hasTy_bool (fun _ => rfl) h
theorem snd_LEN_STR (h : HasTyList vs (.cons .str .nil)) : Outcome ext .LEN_STR vs .num :=
  out1 invStr hasTy_num (fun _ => rfl) h

theorem snd_ADD_NUM_NUM (h : HasTyList vs (.cons .num (.cons .num .nil))) :
    Outcome ext .ADD_NUM_NUM vs .num := out2 invNum invNum hasTy_num (fun _ _ => rfl) h
theorem snd_SUB_NUM_NUM (h : HasTyList vs (.cons .num (.cons .num .nil))) :
    Outcome ext .SUB_NUM_NUM vs .num := out2 invNum invNum hasTy_num (fun _ _ => rfl) h
theorem snd_MUL_NUM_NUM (h : HasTyList vs (.cons .num (.cons .num .nil))) :
    Outcome ext .MUL_NUM_NUM vs .num := out2 invNum invNum hasTy_num (fun _ _ => rfl) h
theorem snd_DIV_NUM_NUM (h : HasTyList vs (.cons .num (.cons .num .nil))) :
    Outcome ext .DIV_NUM_NUM vs .num := out2 invNum invNum hasTy_num (fun _ _ => rfl) h
theorem snd_EXP_NUM_NUM (h : HasTyList vs (.cons .num (.cons .num .nil))) :
    Outcome ext .EXP_NUM_NUM vs .num := out2 invNum invNum hasTy_num (fun _ _ => rfl) h
theorem snd_MAX_NUM_NUM (h : HasTyList vs (.cons .num (.cons .num .nil))) :
    Outcome ext .MAX_NUM_NUM vs .num := out2 invNum invNum hasTy_num (fun _ _ => rfl) h
theorem snd_MIN_NUM_NUM (h : HasTyList vs (.cons .num (.cons .num .nil))) :
    Outcome ext .MIN_NUM_NUM vs .num := out2 invNum invNum hasTy_num (fun _ _ => rfl) h

theorem snd_EQ_NUM_NUM (h : HasTyList vs (.cons .num (.cons .num .nil))) :
    Outcome ext .EQ_NUM_NUM vs .bool := out2 invNum invNum hasTy_bool (fun _ _ => rfl) h
theorem snd_NE_NUM_NUM (h : HasTyList vs (.cons .num (.cons .num .nil))) :
    Outcome ext .NE_NUM_NUM vs .bool := out2 invNum invNum hasTy_bool (fun _ _ => rfl) h
theorem snd_GT_NUM_NUM (h : HasTyList vs (.cons .num (.cons .num .nil))) :
    Outcome ext .GT_NUM_NUM vs .bool := out2 invNum invNum hasTy_bool (fun _ _ => rfl) h
theorem snd_GE_NUM_NUM (h : HasTyList vs (.cons .num (.cons .num .nil))) :
    Outcome ext .GE_NUM_NUM vs .bool := out2 invNum invNum hasTy_bool (fun _ _ => rfl) h
theorem snd_LT_NUM_NUM (h : HasTyList vs (.cons .num (.cons .num .nil))) :
    Outcome ext .LT_NUM_NUM vs .bool := out2 invNum invNum hasTy_bool (fun _ _ => rfl) h
theorem snd_LE_NUM_NUM (h : HasTyList vs (.cons .num (.cons .num .nil))) :
    Outcome ext .LE_NUM_NUM vs .bool := out2 invNum invNum hasTy_bool (fun _ _ => rfl) h

theorem snd_ADD_STR_STR (h : HasTyList vs (.cons .str (.cons .str .nil))) :
    Outcome ext .ADD_STR_STR vs .str := out2 invStr invStr hasTy_str (fun _ _ => rfl) h
theorem snd_EQ_STR_STR (h : HasTyList vs (.cons .str (.cons .str .nil))) :
    Outcome ext .EQ_STR_STR vs .bool := out2 invStr invStr hasTy_bool (fun _ _ => rfl) h
theorem snd_NE_STR_STR (h : HasTyList vs (.cons .str (.cons .str .nil))) :
    Outcome ext .NE_STR_STR vs .bool := out2 invStr invStr hasTy_bool (fun _ _ => rfl) h

theorem snd_EQ_BOOL_BOOL (h : HasTyList vs (.cons .bool (.cons .bool .nil))) :
    Outcome ext .EQ_BOOL_BOOL vs .bool := out2 invBool invBool hasTy_bool (fun _ _ => rfl) h
theorem snd_NE_BOOL_BOOL (h : HasTyList vs (.cons .bool (.cons .bool .nil))) :
    Outcome ext .NE_BOOL_BOOL vs .bool := out2 invBool invBool hasTy_bool (fun _ _ => rfl) h

theorem snd_EQ_TIME_TIME (h : HasTyList vs (.cons .time (.cons .time .nil))) :
    Outcome ext .EQ_TIME_TIME vs .bool := out2 invTime invTime hasTy_bool (fun _ _ => rfl) h
theorem snd_NE_TIME_TIME (h : HasTyList vs (.cons .time (.cons .time .nil))) :
    Outcome ext .NE_TIME_TIME vs .bool := out2 invTime invTime hasTy_bool (fun _ _ => rfl) h
theorem snd_GT_TIME_TIME (h : HasTyList vs (.cons .time (.cons .time .nil))) :
    Outcome ext .GT_TIME_TIME vs .bool := out2 invTime invTime hasTy_bool (fun _ _ => rfl) h
theorem snd_GE_TIME_TIME (h : HasTyList vs (.cons .time (.cons .time .nil))) :
    Outcome ext .GE_TIME_TIME vs .bool := out2 invTime invTime hasTy_bool (fun _ _ => rfl) h
theorem snd_LT_TIME_TIME (h : HasTyList vs (.cons .time (.cons .time .nil))) :
    Outcome ext .LT_TIME_TIME vs .bool := out2 invTime invTime hasTy_bool (fun _ _ => rfl) h
theorem snd_LE_TIME_TIME (h : HasTyList vs (.cons .time (.cons .time .nil))) :
    Outcome ext .LE_TIME_TIME vs .bool := out2 invTime invTime hasTy_bool (fun _ _ => rfl) h
theorem snd_SUB_TIME_TIME (h : HasTyList vs (.cons .time (.cons .time .nil))) :
    Outcome ext .SUB_TIME_TIME vs .num := out2 invTime invTime hasTy_num (fun _ _ => rfl) h

/-! equality of containers: a `bool` whatever `valEq` answers -/
theorem snd_EQ_LIST_LIST {A B : Ty} (h : HasTyList vs (.cons A (.cons B .nil))) :
    Outcome ext .EQ_LIST_LIST vs .bool :=
  out2 (invAny A) (invAny B) hasTy_bool (fun _ _ => rfl) h
theorem snd_NE_LIST_LIST {A B : Ty} (h : HasTyList vs (.cons A (.cons B .nil))) :
    Outcome ext .NE_LIST_LIST vs .bool :=
  out2 (invAny A) (invAny B) hasTy_bool (fun _ _ => rfl) h
theorem snd_EQ_MAP_MAP {A B : Ty} (h : HasTyList vs (.cons A (.cons B .nil))) :
    Outcome ext .EQ_MAP_MAP vs .bool :=
  out2 (invAny A) (invAny B) hasTy_bool (fun _ _ => rfl) h
theorem snd_NE_MAP_MAP {A B : Ty} (h : HasTyList vs (.cons A (.cons B .nil))) :
    Outcome ext .NE_MAP_MAP vs .bool :=
  out2 (invAny A) (invAny B) hasTy_bool (fun _ _ => rfl) h
theorem snd_STRING_ANY {A : Ty} (h : HasTyList vs (.cons A .nil)) :
    Outcome ext .STRING_ANY vs .str :=
  out1 (invAny A) hasTy_str (fun _ => rfl) h

end routine

/-! ### output, lengths -/

theorem snd_PRINT_ANY (ext : Externs) {vs : List Val} {A : Ty} (h : HasTyList vs (.cons A .nil)) :
    Outcome ext .PRINT_ANY vs A := by
  obtain ⟨x, rfl, hx⟩ := h.inv1
  exact .ok rfl hx

theorem snd_LEN_LIST (ext : Externs) {vs : List Val} {A : Ty}
    (h : HasTyList vs (.cons (.list A) .nil)) : Outcome ext .LEN_LIST vs .num := by
  obtain ⟨x, rfl, hx⟩ := h.inv1
  obtain ⟨el', xs, rfl, -, -, -⟩ := hx.list_inv
  exact .ok rfl (hasTy_num _)

theorem snd_LEN_MAP (ext : Externs) {vs : List Val} {K V : Ty}
    (h : HasTyList vs (.cons (.map K V) .nil)) : Outcome ext .LEN_MAP vs .num := by
  obtain ⟨x, rfl, hx⟩ := h.inv1
  obtain ⟨k', x', es, rfl, -, -, -, -⟩ := hx.map_inv
  exact .ok rfl (hasTy_num _)

/-! ### the ones that can fail -/

theorem app_MOD (ext : Externs) (x y : Float) : applyBuiltin ext .MOD_NUM_NUM [.num x, .num y] =
    if Num.toInt64 y = 0 then .error .modZero
    else .ok (.num (Float.ofInt (Int.tmod (Num.toInt64 x) (Num.toInt64 y))), []) := rfl

theorem snd_MOD_NUM_NUM (ext : Externs) {vs : List Val}
    (h : HasTyList vs (.cons .num (.cons .num .nil))) : Outcome ext .MOD_NUM_NUM vs .num := by
  obtain ⟨x, y, rfl, hx, hy⟩ := h.inv2
  obtain ⟨x, rfl⟩ := hx.num_inv
  obtain ⟨y, rfl⟩ := hy.num_inv
  by_cases hd : Num.toInt64 y = 0
  · exact .inr (.inl ⟨rfl, by rw [app_MOD, if_pos hd]⟩)
  · exact .ok (by rw [app_MOD, if_neg hd]) (hasTy_num _)

theorem app_MATCH (ext : Externs) (p s : String) : applyBuiltin ext .MATCH_STR_STR [.str p, .str s] =
    (match ext.regex? p s with
     | some (some b) => .ok (.bool b, [])
     | some none => .error .badRegex
     | none => .error (.stuck "extern-miss:regex")) := rfl

theorem snd_MATCH_STR_STR (ext : Externs) {vs : List Val}
    (h : HasTyList vs (.cons .str (.cons .str .nil))) : Outcome ext .MATCH_STR_STR vs .bool := by
  obtain ⟨x, y, rfl, hx, hy⟩ := h.inv2
  obtain ⟨p, rfl⟩ := hx.str_inv
  obtain ⟨s, rfl⟩ := hy.str_inv
  cases hr : ext.regex? p s with
  | none => exact .inr (.inr (.inl ⟨rfl, .inr (by rw [app_MATCH, hr])⟩))
  | some o =>
    cases o with
    | none => exact .inr (.inr (.inl ⟨rfl, .inl (by rw [app_MATCH, hr])⟩))
    | some b => exact .ok (by rw [app_MATCH, hr]) (hasTy_bool b)

theorem app_STRTOTIME (ext : Externs) (s : String) : applyBuiltin ext .STRTOTIME_STR [.str s] =
    (match ext.strtotime? s with
     | some ts => .ok (.time (TimeV.unix ts), [])
     | none => .error (.stuck "extern-miss:strtotime")) := rfl

theorem snd_STRTOTIME_STR (ext : Externs) {vs : List Val}
    (h : HasTyList vs (.cons .str .nil)) : Outcome ext .STRTOTIME_STR vs .time := by
  obtain ⟨x, rfl, hx⟩ := h.inv1
  obtain ⟨s, rfl⟩ := hx.str_inv
  cases hr : ext.strtotime? s with
  | none => exact .inr (.inr (.inr ⟨rfl, by rw [app_STRTOTIME, hr]⟩))
  | some ts => exact .ok (by rw [app_STRTOTIME, hr]) (hasTy_time _)

/-! ### `max` / `min` of a list of numbers -/

/-- a value list of element type `num` is empty or starts with a number -/
theorem WFList_num_head {el : Ty} {vs : ValList} (he : tyEq .num el = true)
    (hw : WFList el vs = true) : vs = .nil ∨ ∃ x rest, vs = .cons (.num x) rest := by
  cases vs with
  | nil => exact .inl rfl
  | cons v rest =>
    simp only [WFList, Bool.and_eq_true] at hw
    have hel : el = .num := by cases el <;> simp [tyEq] at he; rfl
    subst hel
    obtain ⟨x, rfl⟩ := HasTy.num_inv ⟨hw.1.1, hw.1.2⟩
    exact .inr ⟨x, rest, rfl⟩

theorem snd_MAX_LIST (ext : Externs) {vs : List Val}
    (h : HasTyList vs (.cons (.list .num) .nil)) : Outcome ext .MAX_LIST vs .num := by
  obtain ⟨x, rfl, hx⟩ := h.inv1
  obtain ⟨el', xs, rfl, -, hw, he⟩ := hx.list_inv
  rcases WFList_num_head he hw with rfl | ⟨x, rest, rfl⟩
  · exact .ok rfl (hasTy_num _)
  · exact .ok rfl (hasTy_num _)

theorem snd_MIN_LIST (ext : Externs) {vs : List Val}
    (h : HasTyList vs (.cons (.list .num) .nil)) : Outcome ext .MIN_LIST vs .num := by
  obtain ⟨x, rfl, hx⟩ := h.inv1
  obtain ⟨el', xs, rfl, -, hw, he⟩ := hx.list_inv
  rcases WFList_num_head he hw with rfl | ⟨x, rest, rfl⟩
  · exact .ok rfl (hasTy_num _)
  · exact .ok rfl (hasTy_num _)

/-! ### the three `get` built-ins and `isset`: total -/

theorem snd_GET_MAYBE (ext : Externs) {vs : List Val} {A : Ty} (hA : A.wf = true)
    (h : HasTyList vs (.cons (.maybe A) (.cons A .nil))) : Outcome ext .GET_MAYBE vs A := by
  obtain ⟨m, d, rfl, hm, hd⟩ := h.inv2
  rcases hm.maybe_inv with ⟨el', x, rfl, hel', hx, hxt, he⟩ | ⟨el', rfl, -, -⟩
  · exact .ok rfl ⟨hx, tyEq_trans' hA hel' he hxt⟩
  · exact .ok rfl hd

theorem app_GET_LIST (ext : Externs) (ty : Ty) (xs : ValList) (i : Float) (d : Val) :
    applyBuiltin ext .GET_LIST_NUM_ANY [.list ty xs, .num i, d] =
    if Num.toInt i < 0 || Num.toInt i ≥ xs.length then .ok (d, [])
    else (match xs.get? (Num.toInt i).toNat with
      | some .nil => .ok (d, [])
      | some x => .ok (x, [])
      | none => .ok (d, [])) := rfl

theorem snd_GET_LIST_NUM_ANY (ext : Externs) {vs : List Val} {A : Ty} (hA : A.wf = true)
    (h : HasTyList vs (.cons (.list A) (.cons .num (.cons A .nil)))) :
    Outcome ext .GET_LIST_NUM_ANY vs A := by
  obtain ⟨l, i, d, rfl, hl, hi, hd⟩ := h.inv3
  obtain ⟨el', xs, rfl, hel', hw, he⟩ := hl.list_inv
  obtain ⟨i, rfl⟩ := hi.num_inv
  simp only [Ty.wf] at hel'
  rw [Outcome, app_GET_LIST]
  split
  · exact .inl ⟨_, _, rfl, hd⟩
  · split
    · exact .inl ⟨_, _, rfl, hd⟩
    · next x _ hg =>
      obtain ⟨hx, hxt⟩ := WFList_get? el' xs _ x hw hg
      exact .inl ⟨_, _, rfl, hx, tyEq_trans' hA hel' he hxt⟩
    · exact .inl ⟨_, _, rfl, hd⟩

/-- a well-formed value of a variable-free keyable type is a key -/
theorem HasTy.key_of_keyable {v : Val} {K : Ty} (h : HasTy v K) (hk : K.keyable = true)
    (hs : slotFree K = true) : ∃ ks, v.key? = some (K.kind, ks) := by
  rcases keyable_ground hk hs with hp | rfl
  · exact h.key_of_prim hp
  · exact (h.bot_inv).elim

theorem app_GET_MAP (ext : Externs) (ty : Ty) (es : EntryList) (key d : Val) :
    applyBuiltin ext .GET_MAP_ANY_ANY [.map ty es, key, d] =
    (match key.key? with
     | some (t, ks) =>
       (match es.find? t ks with
        | some .nil => .ok (d, [])
        | some x => .ok (x, [])
        | none => .ok (d, []))
     | none => .error (.stuck "invalid map key type")) := rfl

theorem snd_GET_MAP_ANY_ANY (ext : Externs) {vs : List Val} {K V : Ty}
    (hK : K.keyable = true) (hKs : slotFree K = true) (hV : V.wf = true)
    (h : HasTyList vs (.cons (.map K V) (.cons K (.cons V .nil)))) :
    Outcome ext .GET_MAP_ANY_ANY vs V := by
  obtain ⟨m, key, d, rfl, hm, hkey, hd⟩ := h.inv3
  obtain ⟨k', x', es, rfl, hwf, hw, -, he⟩ := hm.map_inv
  obtain ⟨ks, hks⟩ := hkey.key_of_keyable hK hKs
  simp only [Ty.wf, Bool.and_eq_true] at hwf
  rw [Outcome, app_GET_MAP, hks]
  simp only
  split
  · exact .inl ⟨_, _, rfl, hd⟩
  · next x _ hg =>
    obtain ⟨hx, hxt⟩ := WFEntries_find? k' x' es _ _ x hw hg
    exact .inl ⟨_, _, rfl, hx, tyEq_trans' hV hwf.2 he hxt⟩
  · exact .inl ⟨_, _, rfl, hd⟩

theorem app_ISSET (ext : Externs) (ty : Ty) (es : EntryList) (key : Val) :
    applyBuiltin ext .ISSET_MAP_ANY [.map ty es, key] =
    (match key.key? with
     | some (t, ks) => .ok (.bool (es.find? t ks).isSome, [])
     | none => .error (.stuck "invalid map key type")) := rfl

theorem snd_ISSET_MAP_ANY (ext : Externs) {vs : List Val} {K V : Ty}
    (hK : K.keyable = true) (hKs : slotFree K = true)
    (h : HasTyList vs (.cons (.map K V) (.cons K .nil))) :
    Outcome ext .ISSET_MAP_ANY vs .bool := by
  obtain ⟨m, key, rfl, hm, hkey⟩ := h.inv2
  obtain ⟨k', x', es, rfl, -, -, -, -⟩ := hm.map_inv
  obtain ⟨ks, hks⟩ := hkey.key_of_keyable hK hKs
  exact .ok (by rw [app_ISSET, hks]) (hasTy_bool _)

/-! ### set functions: every element of the result is an element of an argument -/

theorem valSetOf_mem : ∀ (xs : ValList) (e : String × Val), e ∈ valSetOf xs → e.2 ∈ xs.toList
  | .nil, e, h => by simp [valSetOf] at h
  | .cons x xs, e, h => by
    simp only [valSetOf, List.mem_cons, List.mem_filter] at h
    rcases h with rfl | ⟨h, _⟩
    · simp [ValList.toList]
    · simp [ValList.toList, valSetOf_mem xs e h]

theorem setUnion_mem {x y : List (String × Val)} {v : Val} (h : v ∈ setUnion x y) :
    (∃ e ∈ x, e.2 = v) ∨ (∃ e ∈ y, e.2 = v) := by
  simp only [setUnion, List.mem_append, List.mem_map, List.mem_filter] at h
  rcases h with ⟨e, he, rfl⟩ | ⟨e, ⟨he, _⟩, rfl⟩
  · exact .inl ⟨e, he, rfl⟩
  · exact .inr ⟨e, he, rfl⟩

theorem setGet_mem {y : List (String × Val)} {h : String} {v : Val} (hg : setGet y h = some v) :
    ∃ e ∈ y, e.2 = v := by
  simp only [setGet, Option.map_eq_some_iff] at hg
  obtain ⟨e, he, rfl⟩ := hg
  exact ⟨e, List.mem_of_find?_eq_some he, rfl⟩

theorem setIntersect_mem {x y : List (String × Val)} {v : Val} (h : v ∈ setIntersect x y) :
    ∃ e ∈ y, e.2 = v := by
  simp only [setIntersect, List.mem_filterMap] at h
  obtain ⟨_, _, hg⟩ := h
  exact setGet_mem hg

theorem setDiff_mem {x y : List (String × Val)} {v : Val} (h : v ∈ setDiff x y) :
    ∃ e ∈ x, e.2 = v := by
  simp only [setDiff, List.mem_map, List.mem_filter] at h
  obtain ⟨e, ⟨he, _⟩, rfl⟩ := h
  exact ⟨e, he, rfl⟩

theorem WFList_iff : ∀ (el : Ty) (vs : ValList),
    WFList el vs = true ↔ ∀ v ∈ vs.toList, WF v = true ∧ tyEq el v.typeOf = true
  | _, .nil => by simp [WFList, ValList.toList]
  | el, .cons x xs => by
    simp only [WFList, Bool.and_eq_true, ValList.toList, List.mem_cons, forall_eq_or_imp,
      WFList_iff el xs]

theorem ValList.toList_ofList : ∀ l : List Val, (ValList.ofList l).toList = l
  | [] => rfl
  | v :: l => by simp [ValList.ofList, ValList.toList, ValList.toList_ofList l]

theorem WFList_ofList (el : Ty) (l : List Val) :
    WFList el (ValList.ofList l) = true ↔ ∀ v ∈ l, WF v = true ∧ tyEq el v.typeOf = true := by
  rw [WFList_iff, ValList.toList_ofList]

/-- the two list arguments of `union`/`intersect`/`diff`: both element types are equal to the
first list's own element type -/
theorem setArgs {vs : List Val} {A : Ty} (hA : A.wf = true)
    (h : HasTyList vs (.cons (.list A) (.cons (.list A) .nil))) :
    ∃ el xs ty ys, vs = [.list (.list el) xs, .list ty ys] ∧ (Ty.list el).wf = true ∧
      tyEq A el = true ∧
      (∀ v ∈ xs.toList, WF v = true ∧ tyEq el v.typeOf = true) ∧
      (∀ v ∈ ys.toList, WF v = true ∧ tyEq el v.typeOf = true) := by
  obtain ⟨l1, l2, rfl, h1, h2⟩ := h.inv2
  obtain ⟨el1, xs, rfl, hw1, hx, he1⟩ := h1.list_inv
  obtain ⟨el2, ys, rfl, hw2, hy, he2⟩ := h2.list_inv
  refine ⟨el1, xs, _, ys, rfl, hw1, he1, (WFList_iff _ _).1 hx, ?_⟩
  simp only [Ty.wf] at hw1 hw2
  have e1A : tyEq el1 A = true := by rw [← tyEq_symm' hA hw1]; exact he1
  have e12 : tyEq el1 el2 = true := tyEq_trans' hw1 hA e1A he2
  intro v hv
  obtain ⟨hv1, hv2⟩ := (WFList_iff _ _).1 hy v hv
  exact ⟨hv1, tyEq_trans' hw1 hw2 e12 hv2⟩

theorem hasTy_setResult {A el : Ty} {l : List Val} (hw : (Ty.list el).wf = true)
    (he : tyEq A el = true) (hl : ∀ v ∈ l, WF v = true ∧ tyEq el v.typeOf = true) :
    HasTy (.list (.list el) (ValList.ofList l)) (.list A) := by
  refine ⟨?_, ?_⟩
  · simp only [WF, Bool.and_eq_true]
    exact ⟨hw, (WFList_ofList el l).2 hl⟩
  · simpa [Val.typeOf, tyEq] using he

theorem snd_UNION_LIST_LIST (ext : Externs) {vs : List Val} {A : Ty} (hA : A.wf = true)
    (h : HasTyList vs (.cons (.list A) (.cons (.list A) .nil))) :
    Outcome ext .UNION_LIST_LIST vs (.list A) := by
  obtain ⟨el, xs, ty, ys, rfl, hw, he, hx, hy⟩ := setArgs hA h
  refine .ok rfl (hasTy_setResult hw he ?_)
  intro v hv
  rcases setUnion_mem hv with ⟨e, hm, rfl⟩ | ⟨e, hm, rfl⟩
  · exact hx _ (valSetOf_mem xs e hm)
  · exact hy _ (valSetOf_mem ys e hm)

theorem snd_INTERSECT_LIST_LIST (ext : Externs) {vs : List Val} {A : Ty} (hA : A.wf = true)
    (h : HasTyList vs (.cons (.list A) (.cons (.list A) .nil))) :
    Outcome ext .INTERSECT_LIST_LIST vs (.list A) := by
  obtain ⟨el, xs, ty, ys, rfl, hw, he, hx, hy⟩ := setArgs hA h
  refine .ok rfl (hasTy_setResult hw he ?_)
  intro v hv
  obtain ⟨e, hm, rfl⟩ := setIntersect_mem hv
  exact hy _ (valSetOf_mem ys e hm)

theorem snd_DIFF_LIST_LIST (ext : Externs) {vs : List Val} {A : Ty} (hA : A.wf = true)
    (h : HasTyList vs (.cons (.list A) (.cons (.list A) .nil))) :
    Outcome ext .DIFF_LIST_LIST vs (.list A) := by
  obtain ⟨el, xs, ty, ys, rfl, hw, he, hx, hy⟩ := setArgs hA h
  refine .ok rfl (hasTy_setResult hw he ?_)
  intro v hv
  obtain ⟨e, hm, rfl⟩ := setDiff_mem hv
  exact hx _ (valSetOf_mem xs e hm)

/-! ### all of them -/

theorem wf_hd {t : Ty} {ts : TyList} (h : wfList (.cons t ts) = true) : t.wf = true := by
  simp only [wfList, Bool.and_eq_true] at h; exact h.1
theorem sf_hd {t : Ty} {ts : TyList} (h : slotFreeList (.cons t ts) = true) :
    slotFree t = true := by
  simp only [slotFreeList, Bool.and_eq_true] at h; exact h.1
theorem sf_tl {t : Ty} {ts : TyList} (h : slotFreeList (.cons t ts) = true) :
    slotFreeList ts = true := by
  simp only [slotFreeList, Bool.and_eq_true] at h; exact h.2
theorem map_wf_inv {K V : Ty} (h : (Ty.map K V).wf = true) :
    K.keyable = true ∧ K.wf = true ∧ V.wf = true := by
  simp only [Ty.wf, Bool.and_eq_true] at h; exact ⟨h.1.1, h.1.2, h.2⟩

/-- the outcome of every strict built-in at every ground instance of its signature -/
theorem builtin_outcome (ext : Externs) (b : BuiltinDecl) (hb : b ∈ builtins)
    (hstrict : b.isLazy = false)
    {name : String} {ps : TyList} {ret : Ty} (hty : b.ty = .fn name ps ret)
    (σ : Subst)
    (hw : wfList (substGList σ ps) = true) (hs : slotFreeList (substGList σ ps) = true)
    (vs : List Val) (hvs : HasTyList vs (substGList σ ps)) :
    Outcome ext b.id vs (substG σ ret) := by
  rw [builtins_eq] at hb
  simp only [List.mem_cons, List.not_mem_nil, or_false] at hb
  rcases hb with rfl | rfl | rfl | rfl | rfl | rfl | rfl | rfl | rfl | rfl | rfl | rfl | rfl | rfl | rfl | rfl | rfl | rfl | rfl | rfl | rfl | rfl | rfl | rfl | rfl | rfl | rfl | rfl | rfl | rfl | rfl | rfl | rfl | rfl | rfl | rfl | rfl | rfl | rfl | rfl | rfl | rfl | rfl | rfl | rfl | rfl | rfl | rfl | rfl | rfl | rfl | rfl | rfl | rfl | rfl | rfl
  · cases hty; exact snd_ABS_NUM ext hvs
  · cases hty; exact snd_ADD_NUM ext hvs
  · cases hty; exact snd_ADD_NUM_NUM ext hvs
  · cases hty; exact snd_ADD_STR_STR ext hvs
  · cases hty; exact snd_CEIL_NUM ext hvs
  · cases hty; exact snd_DIFF_LIST_LIST ext (A := (substG σ (.var "a"))) (wf_hd hw) hvs
  · cases hty; exact snd_DIV_NUM_NUM ext hvs
  · cases hty; exact snd_EQ_BOOL_BOOL ext hvs
  · cases hty; exact snd_EQ_LIST_LIST ext hvs
  · cases hty; exact snd_EQ_MAP_MAP ext hvs
  · cases hty; exact snd_EQ_NUM_NUM ext hvs
  · cases hty; exact snd_EQ_STR_STR ext hvs
  · cases hty; exact snd_EQ_TIME_TIME ext hvs
  · cases hty; exact snd_EXP_NUM_NUM ext hvs
  · cases hty; exact snd_FLOOR_NUM ext hvs
  · cases hty; exact snd_GET_LIST_NUM_ANY ext (A := (substG σ (.var "a"))) (wf_hd hw) hvs
  · cases hty; exact snd_GET_MAP_ANY_ANY ext (map_wf_inv (wf_hd hw)).1 (sf_hd (sf_tl hs)) (map_wf_inv (wf_hd hw)).2.2 hvs
  · cases hty; exact snd_GET_MAYBE ext (A := (substG σ (.var "a"))) (wf_hd hw) hvs
  · cases hty; exact snd_GE_NUM_NUM ext hvs
  · cases hty; exact snd_GE_TIME_TIME ext hvs
  · cases hty; exact snd_GT_NUM_NUM ext hvs
  · cases hty; exact snd_GT_TIME_TIME ext hvs
  · cases hstrict
  · cases hty; exact snd_INTERSECT_LIST_LIST ext (A := (substG σ (.var "a"))) (wf_hd hw) hvs
  · cases hty; exact snd_ISSET_MAP_ANY ext (map_wf_inv (wf_hd hw)).1 (sf_hd (sf_tl hs)) hvs
  · cases hty; exact snd_LEN_LIST ext hvs
  · cases hty; exact snd_LEN_MAP ext hvs
  · cases hty; exact snd_LEN_STR ext hvs
  · cases hty; exact snd_LE_NUM_NUM ext hvs
  · cases hty; exact snd_LE_TIME_TIME ext hvs
  · cases hstrict
  · cases hty; exact snd_LOGIC_NOT_BOOL ext hvs
  · cases hstrict
  · cases hty; exact snd_LT_NUM_NUM ext hvs
  · cases hty; exact snd_LT_TIME_TIME ext hvs
  · cases hty; exact snd_MATCH_STR_STR ext hvs
  · cases hty; exact snd_MAX_LIST ext hvs
  · cases hty; exact snd_MAX_NUM_NUM ext hvs
  · cases hty; exact snd_MIN_LIST ext hvs
  · cases hty; exact snd_MIN_NUM_NUM ext hvs
  · cases hty; exact snd_MOD_NUM_NUM ext hvs
  · cases hty; exact snd_MUL_NUM_NUM ext hvs
  · cases hty; exact snd_NE_BOOL_BOOL ext hvs
  · cases hty; exact snd_NE_LIST_LIST ext hvs
  · cases hty; exact snd_NE_MAP_MAP ext hvs
  · cases hty; exact snd_NE_NUM_NUM ext hvs
  · cases hty; exact snd_NE_STR_STR ext hvs
  · cases hty; exact snd_NE_TIME_TIME ext hvs
  · cases hty; exact snd_PRINT_ANY ext hvs
  · cases hty; exact snd_ROUND_NUM ext hvs
  · cases hty; exact snd_STRING_ANY ext hvs
  · cases hty; exact snd_STRTOTIME_STR ext hvs
  · cases hty; exact snd_SUB_NUM ext hvs
  · cases hty; exact snd_SUB_NUM_NUM ext hvs
  · cases hty; exact snd_SUB_TIME_TIME ext hvs
  · cases hty; exact snd_UNION_LIST_LIST ext (A := (substG σ (.var "a"))) (wf_hd hw) hvs

/-! ### the statements of C01 for built-ins -/

/-- every strict built-in, at every ground instance of its signature, applied to well-formed
arguments of the instantiated parameter types, returns a well-formed value of the instantiated
return type, or fails with a documented failure, or misses the externs table -/
theorem builtin_sound (ext : Externs) (b : BuiltinDecl) (hb : b ∈ builtins)
    (hstrict : b.isLazy = false)
    {name : String} {ps : TyList} {ret : Ty} (hty : b.ty = .fn name ps ret)
    (σ : Subst) (hσ : σ.Ground)
    (hw : wfList (substGList σ ps) = true) (hs : slotFreeList (substGList σ ps) = true)
    (vs : List Val) (hvs : HasTyList vs (substGList σ ps)) :
    match applyBuiltin ext b.id vs with
    | .ok (v, _) => HasTy v (substG σ ret)
    | .error f => Documented f ∨ f = .stuck "extern-miss:regex" ∨
        f = .stuck "extern-miss:strtotime" := by
  have _ := hσ
  rcases builtin_outcome ext b hb hstrict hty σ hw hs vs hvs with
    ⟨v, evs, h, hv⟩ | ⟨_, h⟩ | ⟨_, h | h⟩ | ⟨_, h⟩
  · rw [h]; exact hv
  · rw [h]; exact .inl trivial
  · rw [h]; exact .inl trivial
  · rw [h]; exact .inr (.inl rfl)
  · rw [h]; exact .inr (.inr rfl)

/-- sharper: which failure each built-in can produce -/
theorem builtin_fail_exact (ext : Externs) (b : BuiltinDecl) (hb : b ∈ builtins)
    (hstrict : b.isLazy = false)
    {name : String} {ps : TyList} {ret : Ty} (hty : b.ty = .fn name ps ret)
    (σ : Subst) (hσ : σ.Ground)
    (hw : wfList (substGList σ ps) = true) (hs : slotFreeList (substGList σ ps) = true)
    (vs : List Val) (hvs : HasTyList vs (substGList σ ps)) (f : Fail)
    (h : (applyBuiltin ext b.id vs) = .error f) :
    (b.id = .MOD_NUM_NUM ∧ f = .modZero) ∨
    (b.id = .MATCH_STR_STR ∧ (f = .badRegex ∨ f = .stuck "extern-miss:regex")) ∨
    (b.id = .STRTOTIME_STR ∧ f = .stuck "extern-miss:strtotime") := by
  have _ := hσ
  rcases builtin_outcome ext b hb hstrict hty σ hw hs vs hvs with
    ⟨v, evs, h', hv⟩ | ⟨hid, h'⟩ | ⟨hid, h' | h'⟩ | ⟨hid, h'⟩
  · rw [h'] at h; cases h
  · rw [h'] at h; cases h; exact .inl ⟨hid, rfl⟩
  · rw [h'] at h; cases h; exact .inr (.inl ⟨hid, .inl rfl⟩)
  · rw [h'] at h; cases h; exact .inr (.inl ⟨hid, .inr rfl⟩)
  · rw [h'] at h; cases h; exact .inr (.inr ⟨hid, rfl⟩)

/-- every strict built-in other than `%`, `match` and `strtotime` is total on well-typed
arguments: in particular the three `get` built-ins (`GET_LIST_NUM_ANY`, `GET_MAP_ANY_ANY`,
`GET_MAYBE`) never fail -/
theorem builtin_total (ext : Externs) (b : BuiltinDecl) (hb : b ∈ builtins)
    (hstrict : b.isLazy = false)
    {name : String} {ps : TyList} {ret : Ty} (hty : b.ty = .fn name ps ret)
    (σ : Subst) (hσ : σ.Ground)
    (hw : wfList (substGList σ ps) = true) (hs : slotFreeList (substGList σ ps) = true)
    (vs : List Val) (hvs : HasTyList vs (substGList σ ps))
    (hid : b.id ≠ .MOD_NUM_NUM ∧ b.id ≠ .MATCH_STR_STR ∧ b.id ≠ .STRTOTIME_STR) :
    ∃ v evs, applyBuiltin ext b.id vs = .ok (v, evs) := by
  have _ := hσ
  rcases builtin_outcome ext b hb hstrict hty σ hw hs vs hvs with
    ⟨v, evs, h, _⟩ | ⟨h, _⟩ | ⟨h, _⟩ | ⟨h, _⟩
  · exact ⟨v, evs, h⟩
  · exact (hid.1 h).elim
  · exact (hid.2.1 h).elim
  · exact (hid.2.2 h).elim

/-- the same with the type of the result -/
theorem builtin_total_typed (ext : Externs) (b : BuiltinDecl) (hb : b ∈ builtins)
    (hstrict : b.isLazy = false)
    {name : String} {ps : TyList} {ret : Ty} (hty : b.ty = .fn name ps ret)
    (σ : Subst) (hσ : σ.Ground)
    (hw : wfList (substGList σ ps) = true) (hs : slotFreeList (substGList σ ps) = true)
    (vs : List Val) (hvs : HasTyList vs (substGList σ ps))
    (hid : b.id ≠ .MOD_NUM_NUM ∧ b.id ≠ .MATCH_STR_STR ∧ b.id ≠ .STRTOTIME_STR) :
    ∃ v evs, applyBuiltin ext b.id vs = .ok (v, evs) ∧ HasTy v (substG σ ret) := by
  have _ := hσ
  rcases builtin_outcome ext b hb hstrict hty σ hw hs vs hvs with
    ⟨v, evs, h, hv⟩ | ⟨h, _⟩ | ⟨h, _⟩ | ⟨h, _⟩
  · exact ⟨v, evs, h, hv⟩
  · exact (hid.1 h).elim
  · exact (hid.2.1 h).elim
  · exact (hid.2.2 h).elim

/-- the three `get` built-ins never fail (no index-out-of-range, no missing key): they return
the element, entry or payload, or the default, of the instantiated return type -/
theorem builtin_get_total (ext : Externs) (b : BuiltinDecl) (hb : b ∈ builtins)
    (hstrict : b.isLazy = false)
    {name : String} {ps : TyList} {ret : Ty} (hty : b.ty = .fn name ps ret)
    (σ : Subst) (hσ : σ.Ground)
    (hw : wfList (substGList σ ps) = true) (hs : slotFreeList (substGList σ ps) = true)
    (vs : List Val) (hvs : HasTyList vs (substGList σ ps))
    (hid : b.id = .GET_LIST_NUM_ANY ∨ b.id = .GET_MAP_ANY_ANY ∨ b.id = .GET_MAYBE) :
    ∃ v evs, applyBuiltin ext b.id vs = .ok (v, evs) ∧ HasTy v (substG σ ret) := by
  refine builtin_total_typed ext b hb hstrict hty σ hσ hw hs vs hvs ?_
  rcases hid with h | h | h <;> rw [h] <;> exact ⟨by decide, by decide, by decide⟩

/-- `%` fails exactly on a zero divisor (after conversion to `int64`) -/
theorem mod_fails_iff (ext : Externs) (x y : Float) :
    (∃ f, applyBuiltin ext .MOD_NUM_NUM [.num x, .num y] = .error f) ↔ Num.toInt64 y = 0 := by
  rw [app_MOD]
  by_cases hd : Num.toInt64 y = 0
  · simp [hd]
  · simp [hd]

#print axioms builtin_sound
#print axioms builtin_fail_exact
#print axioms builtin_total
#print axioms builtin_total_typed
#print axioms builtin_get_total
#print axioms mod_fails_iff

end Yae.Sound
