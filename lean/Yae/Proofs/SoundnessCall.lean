/-
  Function application (`callFun`) is sound relative to the induction hypothesis on fuel:
  strict and lazy built-ins, strict and lazy host functions.
-/
import Yae.Proofs.SoundnessEval
namespace Yae.Sound

theorem allowed_of_documented {f : Fail}
    (h : Documented f ∨ f = .stuck "extern-miss:regex" ∨ f = .stuck "extern-miss:strtotime") :
    Allowed f := by
  rcases h with h | rfl | rfl
  · cases f <;> simp [Documented] at h <;> trivial
  · exact .inl rfl
  · exact .inr rfl

theorem Sat.lift {α : Type} {x : Except Fail α} {P : α → Prop} {en : Prop}
    (h : match x with
      | .ok a => P a
      | .error f => Allowed f) : Sat (EvalM.lift x) P en := by
  intro log
  show Res P en x
  cases x with
  | ok a => exact h
  | error f => exact .inl h

theorem HasTyList.convS : ∀ {vs : List Val} {As Ps : TyList}, HasTyList vs As →
    StructEqList Ps As → wfList Ps = true → wfList As = true → HasTyList vs Ps
  | [], _, _, h, .nil, _, _ => h
  | [], _, _, h, .cons _ _, _, _ => by simp [HasTyList] at h
  | _ :: _, _, _, h, .nil, _, _ => by simp [HasTyList] at h
  | v :: vs, _, _, h, .cons e es, hp, ha => by
    simp only [HasTyList] at h ⊢
    simp only [wfList, Bool.and_eq_true] at hp ha
    exact ⟨h.1.convS ha.1 hp.1 e, HasTyList.convS h.2 es hp.2 ha.2⟩

section
variable {Γ : TEnv} {ρ : REnv} {dbg : Bool} {fuel : Nat}

/-- a lazy host function forces some of its arguments in order and returns the last result -/
theorem forceSeq_ok (ih : EvalOK Γ ρ dbg fuel) {args : ExprList} {As : TyList}
    (hargs : AnnArgs Γ args As) (hAw : wfList As = true) {R : Ty} (hR : R.wf = true) :
    ∀ (order : List Nat) (acc : Option Val),
    (∀ i ∈ order, i < args.length) →
    (match order.getLast? with
      | some i => ∃ A, As.get? i = some A ∧ StructEq R A
      | none => ∃ v, acc = some v ∧ HasTy v R) →
    Sat (forceSeq fuel dbg ρ args order acc) (fun v => HasTy v R) (depthList args < fuel)
  | [], acc, _, h => by
    simp only [List.getLast?_nil] at h
    obtain ⟨v, rfl, hv⟩ := h
    simp only [forceSeq]
    exact Sat.pure hv
  | i :: rest, acc, hlt, h => by
    simp only [forceSeq]
    obtain ⟨a, ha⟩ := ExprList.get?_lt args i (hlt i (by simp))
    simp only [ha]
    obtain ⟨A, hA, hAnn, hd⟩ := annArgs_get? args As hargs i a ha
    refine Sat.bind (ih a A hAnn) (by omega) (fun v hv => ?_)
    refine forceSeq_ok ih hargs hAw hR rest (some v) (fun j hj => hlt j (by simp [hj])) ?_
    cases rest with
    | nil =>
      simp only [List.getLast?_singleton] at h
      obtain ⟨A', hA', hse⟩ := h
      rw [hA] at hA'; cases hA'
      simp only [List.getLast?_nil]
      exact ⟨v, rfl, hv.convS (wfList_get? As i A hAw hA) hR hse⟩
    | cons j rest' =>
      rw [List.getLast?_cons_cons] at h
      exact h

theorem callFun_ok (hvars : VarsOK Γ) (ih : EvalOK Γ ρ dbg fuel)
    {n : String} {ps : TyList} {ret : Ty} {ref : FunRef} {isLazy : Bool}
    (hd : declOK ⟨.fn n ps ret, ref, isLazy⟩ = true)
    {σ : Subst} (hσ : σ.Ground) {args : ExprList} {As : TyList} (hargs : AnnArgs Γ args As)
    (hse : StructEqList (substGList σ ps) As) (hRw : (substG σ ret).wf = true) :
    Sat (callFun fuel dbg ρ ref isLazy args) (fun v => HasTy v (substG σ ret))
      (depthList args < fuel) := by
  obtain ⟨hAw, hAs⟩ := annArgs_wf hvars args As hargs
  simp only [declOK, Bool.and_eq_true] at hd
  obtain ⟨⟨⟨⟨hpsw, hretw⟩, hokp⟩, hokr⟩, href⟩ := hd
  have hPw : wfList (substGList σ ps) = true := wf_substGList_of_structEq hσ ps As hpsw hAw hse
  have hPs : slotFreeList (substGList σ ps) = true := slotFreeList_of_structEq _ _ hPw hse hAs
  have hlenA : args.length = ps.length := by
    rw [annArgs_length args As hargs, ← StructEqList.length' hse, length_substGList]
  cases ref with
  | builtin idx =>
    simp only at href
    cases hb : builtins[idx]? with
    | none => simp [hb] at href
    | some b =>
      simp only [hb, Bool.and_eq_true, beq_iff_eq] at href
      have hty := tyBeq_eq _ _ href.1
      have hlz := href.2
      have hmem := List.mem_of_getElem? hb
      simp only [callFun, hb]
      cases isLazy with
      | true =>
        simp only [if_true]
        have hbool : substG σ Ty.bool = Ty.bool := by simp [substG]
        rcases lazy_builtin hmem hlz with ⟨hid, hty'⟩ | ⟨hid, hty'⟩ | ⟨hid, hty'⟩
        · -- if
          rw [hty] at hty'; cases hty'
          simp only [substGList, hbool] at hse
          cases hse with
          | cons e0 hse => cases hse with
            | cons e1 hse => cases hse with
              | cons e2 hse =>
                cases hse; cases e0
                cases hargs with
                | cons hc hargs => cases hargs with
                  | cons ht hargs => cases hargs with
                    | cons hf hargs =>
                      cases hargs
                      simp only [wfList, Bool.and_eq_true] at hAw
                      simp only [hid]
                      refine Sat.bind (ih _ _ hc) (by simp only [depthList]; omega) (fun v hv => ?_)
                      obtain ⟨bv, rfl⟩ := hv.bool_inv
                      cases bv
                      · exact (ih _ _ hf).mono (fun v hv => hv.convS hAw.2.2.1 hRw e2)
                          (by simp only [depthList]; omega)
                      · exact (ih _ _ ht).mono (fun v hv => hv.convS hAw.2.1 hRw e1)
                          (by simp only [depthList]; omega)
        · -- &&
          rw [hty] at hty'; cases hty'
          simp only [substGList, hbool] at hse
          cases hse with
          | cons e0 hse => cases hse with
            | cons e1 hse =>
              cases hse; cases e0; cases e1
              cases hargs with
              | cons hx hargs => cases hargs with
                | cons hy hargs =>
                  cases hargs
                  simp only [hid]
                  refine Sat.bind (ih _ _ hx) (by simp only [depthList]; omega) (fun v hv => ?_)
                  obtain ⟨bv, rfl⟩ := hv.bool_inv
                  cases bv
                  · exact Sat.pure ⟨rfl, rfl⟩
                  · refine Sat.bind (ih _ _ hy) (by simp only [depthList]; omega) (fun w hw => ?_)
                    obtain ⟨bw, rfl⟩ := hw.bool_inv
                    exact Sat.pure ⟨rfl, rfl⟩
        · -- ||
          rw [hty] at hty'; cases hty'
          simp only [substGList, hbool] at hse
          cases hse with
          | cons e0 hse => cases hse with
            | cons e1 hse =>
              cases hse; cases e0; cases e1
              cases hargs with
              | cons hx hargs => cases hargs with
                | cons hy hargs =>
                  cases hargs
                  simp only [hid]
                  refine Sat.bind (ih _ _ hx) (by simp only [depthList]; omega) (fun v hv => ?_)
                  obtain ⟨bv, rfl⟩ := hv.bool_inv
                  cases bv
                  · refine Sat.bind (ih _ _ hy) (by simp only [depthList]; omega) (fun w hw => ?_)
                    obtain ⟨bw, rfl⟩ := hw.bool_inv
                    exact Sat.pure ⟨rfl, rfl⟩
                  · exact Sat.pure ⟨rfl, rfl⟩
      | false =>
        simp only [Bool.false_eq_true, if_false]
        refine Sat.bind (evalArgs_ok ih args As hargs) id (fun vs hvs => ?_)
        have hvs' : HasTyList vs.toList (substGList σ ps) := hvs.convS hse hPw hAw
        have hbs := builtin_sound ρ.ext b hmem hlz hty σ hσ hPw hPs vs.toList hvs'
        refine Sat.bind (Q := fun r => HasTy r.1 (substG σ ret)) (Sat.lift ?_) id ?_
        · cases hr : applyBuiltin ρ.ext b.id vs.toList with
          | ok r => rw [hr] at hbs; exact hbs
          | error f => rw [hr] at hbs; exact allowed_of_documented hbs
        · rintro ⟨v, evs⟩ hv
          exact Sat.bind Sat.emitAll id (fun _ _ => Sat.pure hv)
  | host name beh =>
    simp only [hostRespects] at href
    cases beh with
    | retArg i =>
      simp only [Bool.and_eq_true, Bool.not_eq_true'] at href
      obtain ⟨rfl, hp⟩ := href
      simp only [callFun, Bool.false_eq_true, if_false]
      refine Sat.bind (evalArgs_ok ih args As hargs) id (fun vs hvs => ?_)
      simp only [hostStrict]
      refine Sat.bind Sat.emit id (fun _ _ => ?_)
      cases hpi : ps.get? i with
      | none => simp [hpi] at hp
      | some p =>
        simp only [hpi] at hp
        have := tyBeq_eq _ _ hp; subst this
        have h1 : (substGList σ ps).get? i = some (substG σ p) := by
          rw [TyList.get?_substGList, hpi]; rfl
        obtain ⟨A, hA, hseA⟩ := StructEqList.get? hse i _ h1
        obtain ⟨v, hv, hvA⟩ := hvs.get? i A hA
        simp only [hv]
        exact Sat.pure (hvA.convS (wfList_get? As i A hAw hA) hRw hseA)
    | constNum x =>
      simp only [Bool.and_eq_true, Bool.not_eq_true'] at href
      obtain ⟨rfl, hp⟩ := href
      have := tyBeq_eq _ _ hp; subst this
      simp only [callFun, Bool.false_eq_true, if_false]
      refine Sat.bind (evalArgs_ok ih args As hargs) id (fun vs hvs => ?_)
      simp only [hostStrict]
      exact Sat.bind Sat.emit id (fun _ _ => Sat.pure ⟨rfl, rfl⟩)
    | constStr x =>
      simp only [Bool.and_eq_true, Bool.not_eq_true'] at href
      obtain ⟨rfl, hp⟩ := href
      have := tyBeq_eq _ _ hp; subst this
      simp only [callFun, Bool.false_eq_true, if_false]
      refine Sat.bind (evalArgs_ok ih args As hargs) id (fun vs hvs => ?_)
      simp only [hostStrict]
      exact Sat.bind Sat.emit id (fun _ _ => Sat.pure ⟨rfl, rfl⟩)
    | constBool x =>
      simp only [Bool.and_eq_true, Bool.not_eq_true'] at href
      obtain ⟨rfl, hp⟩ := href
      have := tyBeq_eq _ _ hp; subst this
      simp only [callFun, Bool.false_eq_true, if_false]
      refine Sat.bind (evalArgs_ok ih args As hargs) id (fun vs hvs => ?_)
      simp only [hostStrict]
      exact Sat.bind Sat.emit id (fun _ _ => Sat.pure ⟨rfl, rfl⟩)
    | fail =>
      simp only [Bool.not_eq_true'] at href
      subst href
      simp only [callFun, Bool.false_eq_true, if_false]
      refine Sat.bind (evalArgs_ok ih args As hargs) id (fun vs hvs => ?_)
      simp only [hostStrict]
      exact Sat.bind Sat.emit id (fun _ _ => Sat.fail trivial)
    | force order =>
      simp only [Bool.and_eq_true, List.all_eq_true, decide_eq_true_eq] at href
      obtain ⟨⟨rfl, hall⟩, hlast⟩ := href
      simp only [callFun, if_true]
      refine Sat.bind Sat.emit id (fun _ _ => ?_)
      refine forceSeq_ok ih hargs hAw hRw order none (fun i hi => by rw [hlenA]; exact hall i hi) ?_
      cases hl : order.getLast? with
      | none => simp [hl] at hlast
      | some i =>
        simp only [hl] at hlast ⊢
        cases hpi : ps.get? i with
        | none => simp [hpi] at hlast
        | some p =>
          simp only [hpi] at hlast
          have := tyBeq_eq _ _ hlast; subst this
          have h1 : (substGList σ ps).get? i = some (substG σ p) := by
            rw [TyList.get?_substGList, hpi]; rfl
          obtain ⟨A, hA, hseA⟩ := StructEqList.get? hse i _ h1
          exact ⟨A, hA, hseA⟩

end

end Yae.Sound
