/-
  `check_annotated`: the tree returned by `check` satisfies `Ann`, and the inferred type is well
  formed and variable free.
-/
import Yae.Proofs.SoundnessBasic
import Yae.Proofs.SoundnessInfer
namespace Yae.Sound

/-! ### `Except` plumbing -/

theorem Except.bind_eq_ok' {ε α β : Type} {a : Except ε α} {f : α → Except ε β} {v : β} :
    (a >>= f) = .ok v ↔ ∃ x, a = .ok x ∧ f x = .ok v := by
  cases a <;> simp [bind, Except.bind]

theorem CR.pure_eq_ok {α : Type} {x v : α} : (pure x : CR α) = .ok v ↔ x = v := by
  simp [pure, Except.pure]

theorem CR.throw_ne_ok {α : Type} {e : CheckErr} {v : α} : (throw e : CR α) ≠ .ok v := by
  simp [throw, throwThe, MonadExceptOf.throw]

theorem typeAssert_tyEq {a b : Ty} (h : typeAssert a b = .ok ()) : tyEq a b = true := by
  unfold typeAssert at h
  split at h
  · assumption
  · exact absurd h CR.throw_ne_ok

theorem liftU_some {α : Type} {x : UM α} {a : α} (h : liftU x = .ok (some a)) : x = .ok a := by
  unfold liftU at h
  split at h
  · have := CR.pure_eq_ok.1 h; cases this; rfl
  · have := CR.pure_eq_ok.1 h; cases this
  · exact absurd h CR.throw_ne_ok
  · exact absurd h CR.throw_ne_ok

theorem assertParams_tyEqList : ∀ (ps as : TyList), ps.length = as.length →
    assertParams ps as = .ok () → tyEqList ps as = true
  | .nil, .nil, _, _ => rfl
  | .nil, .cons _ _, h, _ => by simp [TyList.length] at h
  | .cons _ _, .nil, h, _ => by simp [TyList.length] at h
  | .cons p ps, .cons a as, hl, h => by
    simp only [assertParams, Except.bind_eq_ok'] at h
    obtain ⟨_, h1, h2⟩ := h
    simp only [TyList.length] at hl
    simp only [tyEqList, Bool.and_eq_true]
    exact ⟨typeAssert_tyEq h1, assertParams_tyEqList ps as (by omega) h2⟩

/-! ### variable-free types use no variable names at all -/

mutual
theorem okVars_of_slotFree : ∀ t : Ty, slotFree t = true → okVars t = true
  | .var _, h => by simp [slotFree] at h
  | .top, _ | .bot, _ | .num, _ | .str, _ | .bool, _ | .time, _ => rfl
  | .tuple ts, h => by
    simp only [slotFree] at h; simp only [okVars]; exact okVarsList_of_slotFree ts h
  | .list a, h => by
    simp only [slotFree] at h; simp only [okVars]; exact okVars_of_slotFree a h
  | .map k v, h => by
    simp only [slotFree, Bool.and_eq_true] at h
    simp only [okVars, Bool.and_eq_true]
    exact ⟨okVars_of_slotFree k h.1, okVars_of_slotFree v h.2⟩
  | .obj fs, h => by
    simp only [slotFree] at h; simp only [okVars]; exact okVarsFields_of_slotFree fs h
  | .fn _ ps r, h => by
    simp only [slotFree, Bool.and_eq_true] at h
    simp only [okVars, Bool.and_eq_true]
    exact ⟨okVarsList_of_slotFree ps h.1, okVars_of_slotFree r h.2⟩
  | .maybe a, h => by
    simp only [slotFree] at h; simp only [okVars]; exact okVars_of_slotFree a h
theorem okVarsList_of_slotFree : ∀ ts : TyList, slotFreeList ts = true → okVarsList ts = true
  | .nil, _ => rfl
  | .cons t ts, h => by
    simp only [slotFreeList, Bool.and_eq_true] at h
    simp only [okVarsList, Bool.and_eq_true]
    exact ⟨okVars_of_slotFree t h.1, okVarsList_of_slotFree ts h.2⟩
theorem okVarsFields_of_slotFree : ∀ fs : FieldList, slotFreeFields fs = true →
    okVarsFields fs = true
  | .nil, _ => rfl
  | .cons _ t fs, h => by
    simp only [slotFreeFields, Bool.and_eq_true] at h
    simp only [okVarsFields, Bool.and_eq_true]
    exact ⟨okVars_of_slotFree t h.1, okVarsFields_of_slotFree fs h.2⟩
end

/-! ### object types -/

/-- every field type is well formed -/
def wfTysFields : FieldList → Bool
  | .nil => true
  | .cons _ t fs => t.wf && wfTysFields fs

theorem wfFields_of_shallow : ∀ fs : FieldList, mkObj.wfFieldsShallow fs = true →
    wfTysFields fs = true → wfFields fs = true
  | .nil, _, _ => rfl
  | .cons n t fs, h1, h2 => by
    simp only [mkObj.wfFieldsShallow, Bool.and_eq_true] at h1
    simp only [wfTysFields, Bool.and_eq_true] at h2
    simp only [wfFields, Bool.and_eq_true]
    exact ⟨⟨h1.1, h2.1⟩, wfFields_of_shallow fs h1.2 h2.2⟩

theorem mkObj_inv {fs : FieldList} {T : Ty} (h : mkObj fs = .ok T) :
    T = .obj fs ∧ mkObj.wfFieldsShallow fs = true := by
  unfold mkObj at h
  split at h
  · next hs => have := CR.pure_eq_ok.1 h; exact ⟨this.symm, hs⟩
  · exact absurd h CR.throw_ne_ok

/-! ### overload resolution -/

theorem decl_key_mono {d : FunDecl} {n : String} {ps : TyList} {ret : Ty} {key : String}
    (ht : d.ty = .fn n ps ret) (hk : (d.key == (key, true)) = true) :
    slotFree (.fn n ps ret) = true := by
  simp only [FunDecl.key, ht, overloadKey] at hk
  split at hk
  · assumption
  · simp at hk

theorem lookupMono_some {funs : List FunDecl} {key : String} {d : FunDecl}
    (h : lookupMono funs key = some d) : d ∈ funs ∧ (d.key == (key, true)) = true := by
  unfold lookupMono at h
  have := List.mem_of_getLast? h
  rw [List.mem_filter] at this
  exact this

theorem lookupPoly_some {funs : List FunDecl} {key : String} {d : FunDecl} {i : Nat}
    (h : (lookupPoly funs key)[i]? = some d) : d ∈ funs := by
  unfold lookupPoly at h
  have := List.mem_of_getElem? h
  rw [List.mem_filter] at this
  exact this.1

theorem tryPoly_some : ∀ (cands : List FunDecl) (ctr : Nat) (args : TyList) (i0 : Nat)
    (i : Nat) (ps' : TyList) (ret' : Ty) (name : String) (ctr' : Nat),
    tryPoly ctr args cands i0 = .ok (some (i, ps', ret', name), ctr') →
    ∃ d ps ret c, i0 ≤ i ∧ cands[i - i0]? = some d ∧ d.ty = .fn name ps ret ∧
      inferFun c name ps ret args = .ok (ps', ret')
  | [], ctr, args, i0, i, ps', ret', name, ctr', h => by
    simp only [tryPoly] at h
    have := CR.pure_eq_ok.1 h
    cases this
  | d :: rest, ctr, args, i0, i, ps', ret', name, ctr', h => by
    simp only [tryPoly] at h
    split at h
    · next nm ps ret hty =>
      simp only [Except.bind_eq_ok'] at h
      obtain ⟨r, hr, h⟩ := h
      cases r with
      | some r =>
        obtain ⟨qs, rt⟩ := r
        simp only at h
        have := CR.pure_eq_ok.1 h
        cases this
        exact ⟨d, ps, ret, ctr, Nat.le_refl _, by simp, hty, liftU_some hr⟩
      | none =>
        simp only at h
        obtain ⟨d', ps, ret, c, hle, hg, hty', hinf⟩ :=
          tryPoly_some rest _ args (i0+1) i ps' ret' name ctr' h
        refine ⟨d', ps, ret, c, by omega, ?_, hty', hinf⟩
        have : i - i0 = (i - (i0+1)) + 1 := by omega
        rw [this]; simpa using hg
    · exact absurd h CR.throw_ne_ok

theorem key_ne_empty_mono (name : String) (args : TyList) :
    ((overloadKey name args .bot).1 == "") = false := by
  simp only [overloadKey]
  split <;> simp

/-- what a successful overload resolution guarantees -/
theorem resolve_ok {Γ : TEnv} (hf : FunsOK Γ.funs) {ctr : Nat} {fname : String} {args : TyList}
    {r : Resolved} {ctr' : Nat}
    (hargs : slotFreeList args = true) (hargsw : wfList args = true)
    (h : resolveOverloadedFun Γ ctr fname args = .ok (r, ctr'))
    (hlen : r.params.length = args.length) (hass : assertParams r.params args = .ok ()) :
    (r.key == "") = false ∧
    ∃ d n ps ret, resolveStatic Γ.funs r.key r.index = some d ∧ d.ty = .fn n ps ret ∧
      Inst ps ret args r.ret := by
  unfold resolveOverloadedFun at h
  simp only [] at h
  split at h
  · -- monomorphic
    next d hd =>
    obtain ⟨hmem, hkey⟩ := lookupMono_some hd
    split at h
    · next name ps ret hty =>
      have := CR.pure_eq_ok.1 h
      cases this
      refine ⟨key_ne_empty_mono _ _, d, name, ps, ret, ?_, hty, ?_⟩
      · simp [resolveStatic, hd]
      · have hok := hf d hmem
        simp only [declOK, hty, Bool.and_eq_true] at hok
        have hsf := decl_key_mono hty hkey
        simp only [slotFree, Bool.and_eq_true] at hsf
        refine ⟨[], Subst.ground_nil, ?_, (substG_nil ret).symm, hok.1.1.1.2, hsf.2⟩
        rw [substGList_nil]
        exact tyEqList_sound ps args hok.1.1.1.1 (assertParams_tyEqList _ _ hlen hass)
    · exact absurd h CR.throw_ne_ok
  · -- polymorphic
    next hnone =>
    split at h
    · exact absurd h CR.throw_ne_ok
    · simp only [Except.bind_eq_ok'] at h
      obtain ⟨⟨res, c1⟩, htry, h⟩ := h
      simp only at h
      split at h
      · next i ps' ret' name =>
        have := CR.pure_eq_ok.1 h
        cases this
        obtain ⟨d, ps, ret, c, _, hg, hty, hinf⟩ := tryPoly_some _ _ _ _ _ _ _ _ _ htry
        simp only [Nat.sub_zero] at hg
        refine ⟨by simp, d, name, ps, ret, ?_, hty, ?_⟩
        · simp only [resolveStatic]
          rw [if_neg (by omega)]
          simpa using hg
        · have hok := hf d (lookupPoly_some hg)
          simp only [declOK, hty, Bool.and_eq_true] at hok
          exact inferFun_inst hok.1.1.1.1 hok.1.1.1.2 hok.1.1.2 hok.1.2 hargs hargsw hinf
            (assertParams_tyEqList _ _ hlen hass)
      · exact absurd h CR.throw_ne_ok

/-! ### the main theorem -/

/-- declared variable types are well formed and variable free -/
def VarsOK (Γ : TEnv) : Prop := ∀ p ∈ Γ.vars, p.2.wf = true ∧ slotFree p.2 = true

theorem lookupVar_ok {Γ : TEnv} (hv : VarsOK Γ) {x : String} {T : Ty}
    (h : Γ.lookupVar x = some T) : T.wf = true ∧ slotFree T = true := by
  unfold TEnv.lookupVar at h
  cases hq : Γ.vars.find? (fun p => p.1 == x) with
  | none => simp [hq] at h
  | some p =>
    simp only [hq, Option.map_some, Option.some.injEq] at h
    subst h
    exact hv p (List.mem_of_find?_eq_some hq)

theorem wf_find_field {fs : FieldList} {n : String} {T : Ty} (hw : (Ty.obj fs).wf = true)
    (hs : slotFree (.obj fs) = true) (h : fs.find? n = some T) :
    T.wf = true ∧ slotFree T = true := by
  simp only [Ty.wf] at hw
  simp only [slotFree] at hs
  exact ⟨wfFields_find fs n T hw h, slotFreeFields_find fs n T hs h⟩

/-- what `check` did on a call: static dispatch when the callee is an identifier, otherwise the
callee is checked and its function type instantiated -/
theorem check_call_inv {Γ : TEnv} {c : Nat} {p : Pos} {col : Int} {callee : Expr}
    {args : ExprList} {cty : Option Ty} {res : String} {idx : Int} {T : Ty} {e' : Expr} {c' : Nat}
    (h : check Γ c (.call p col callee args cty res idx) = .ok (T, e', c')) :
    ∃ argTys args' c1, checkArgs Γ c args = .ok (argTys, args', c1) ∧
      ((∃ cp fname r, callee = .ident cp fname ∧
          resolveOverloadedFun Γ c1 fname argTys = .ok (r, c') ∧
          r.params.length = argTys.length ∧ assertParams r.params argTys = .ok () ∧
          T = r.ret ∧
          e' = .call p col (.ident cp fname) args' (some (.fn r.fname r.params r.ret)) r.key
            r.index) ∨
       (∃ name ps ret callee' c2 ps', check Γ c1 callee = .ok (.fn name ps ret, callee', c2) ∧
          inferFun c2 name ps ret argTys = .ok (ps', T) ∧ ps'.length = argTys.length ∧
          assertParams ps' argTys = .ok () ∧
          e' = .call p col callee' args' (some (.fn name ps' T)) "" (-1))) := by
  by_cases hid : ∃ cp fname, callee = .ident cp fname
  · obtain ⟨cp, fname, rfl⟩ := hid
    simp only [check, Except.bind_eq_ok'] at h
    obtain ⟨⟨argTys, args', c1⟩, h1, ⟨r, c2⟩, h2, h⟩ := h
    simp only [] at h
    refine ⟨argTys, args', c1, h1, .inl ?_⟩
    split at h
    · exact absurd h (by simp [bind, Except.bind, throw, throwThe, MonadExceptOf.throw])
    · next hlen =>
      simp only [Except.bind_eq_ok'] at h
      obtain ⟨_, hass, h⟩ := h
      have := CR.pure_eq_ok.1 h; cases this
      exact ⟨cp, fname, r, rfl, h2, by simpa using hlen, hass, rfl, rfl⟩
  · have hdyn : ∃ argTys args' c1, checkArgs Γ c args = .ok (argTys, args', c1) ∧
        ∃ fTy callee' c2, check Γ c1 callee = .ok (fTy, callee', c2) ∧
        (match fTy with
          | Ty.fn name ps ret => do
            let __do_lift ← liftU (inferFun c2 name ps ret argTys)
            match __do_lift with
              | none => throw CheckErr.type
              | some (ps', ret') =>
                if (ps'.length != argTys.length) = true then do
                  throw CheckErr.arity
                  assertParams ps' argTys
                  pure (ret', Expr.call p col callee' args' (some (Ty.fn name ps' ret')) "" (-1),
                        c2 + argTys.length + 1)
                else do
                  assertParams ps' argTys
                  pure (ret', Expr.call p col callee' args' (some (Ty.fn name ps' ret')) "" (-1),
                        c2 + argTys.length + 1)
          | _ => throw CheckErr.noncallable : CR (Ty × Expr × Nat)) = .ok (T, e', c') := by
      cases callee with
      | ident cp fname => exact absurd ⟨cp, fname, rfl⟩ hid
      | _ =>
        rw [check] at h
        simp only [Except.bind_eq_ok'] at h
        obtain ⟨⟨argTys, args', c1⟩, h1, ⟨fTy, callee', c2⟩, h2, h⟩ := h
        exact ⟨argTys, args', c1, h1, fTy, callee', c2, h2, h⟩
    obtain ⟨argTys, args', c1, h1, fTy, callee', c2, h2, h⟩ := hdyn
    refine ⟨argTys, args', c1, h1, .inr ?_⟩
    split at h
    · next name ps ret =>
      simp only [Except.bind_eq_ok'] at h
      obtain ⟨r, hr, h⟩ := h
      split at h
      · exact absurd h CR.throw_ne_ok
      · next ps' ret' =>
        split at h
        · exact absurd h (by simp [bind, Except.bind, throw, throwThe, MonadExceptOf.throw])
        · next hlen =>
          simp only [Except.bind_eq_ok'] at h
          obtain ⟨_, hass, h⟩ := h
          have := CR.pure_eq_ok.1 h; cases this
          exact ⟨name, ps, ret, callee', c2, ps', h2, liftU_some hr, by simpa using hlen, hass, rfl⟩
    · exact absurd h CR.throw_ne_ok

mutual
theorem check_ann {Γ : TEnv} (hf : FunsOK Γ.funs) (hv : VarsOK Γ) :
    ∀ (e : Expr) (c : Nat) (T : Ty) (e' : Expr) (c' : Nat),
    check Γ c e = .ok (T, e', c') → Ann Γ e' T ∧ T.wf = true ∧ slotFree T = true
  | .str p v, c, T, e', c', h => by
    simp only [check] at h
    have := CR.pure_eq_ok.1 h; cases this
    exact ⟨.str, rfl, rfl⟩
  | .num p v, c, T, e', c', h => by
    simp only [check] at h
    have := CR.pure_eq_ok.1 h; cases this
    exact ⟨.num, rfl, rfl⟩
  | .time p v, c, T, e', c', h => by
    simp only [check] at h
    have := CR.pure_eq_ok.1 h; cases this
    exact ⟨.time, rfl, rfl⟩
  | .bool p v, c, T, e', c', h => by
    simp only [check] at h
    have := CR.pure_eq_ok.1 h; cases this
    exact ⟨.bool, rfl, rfl⟩
  | .list p .nil ty, c, T, e', c', h => by
    simp only [check] at h
    have := CR.pure_eq_ok.1 h; cases this
    exact ⟨.listNil, rfl, rfl⟩
  | .list p (.cons e rest) ty, c, T, e', c', h => by
    simp only [check, Except.bind_eq_ok'] at h
    obtain ⟨⟨elTy, e1, c1⟩, h1, ⟨rest', c2⟩, h2, h⟩ := h
    have := CR.pure_eq_ok.1 h; cases this
    obtain ⟨a1, w1, s1⟩ := check_ann hf hv e c _ _ _ h1
    exact ⟨.listCons a1 (checkElems_ann hf hv rest c1 elTy _ _ h2),
      by simpa [Ty.wf] using w1, by simpa [slotFree] using s1⟩
  | .map p .nil ty, c, T, e', c', h => by
    simp only [check] at h
    have := CR.pure_eq_ok.1 h; cases this
    exact ⟨.mapNil, rfl, rfl⟩
  | .map p (.cons k v rest) ty, c, T, e', c', h => by
    simp only [check, Except.bind_eq_ok'] at h
    obtain ⟨⟨kTy, k1, c1⟩, h1, h⟩ := h
    simp only [] at h
    split at h
    · exact absurd h (by simp [bind, Except.bind, throw, throwThe, MonadExceptOf.throw])
    · next hprim =>
      simp only [Except.bind_eq_ok'] at h
      obtain ⟨⟨vTy, v1, c2⟩, h2, ⟨rest', c3⟩, h3, h⟩ := h
      have := CR.pure_eq_ok.1 h; cases this
      obtain ⟨a1, w1, s1⟩ := check_ann hf hv k c _ _ _ h1
      obtain ⟨a2, w2, s2⟩ := check_ann hf hv v c1 _ _ _ h2
      have hp : kTy.isPrimitive = true := by simpa using hprim
      refine ⟨.mapCons a1 hp a2 (checkPairs_ann hf hv rest c2 kTy vTy _ _ h3), ?_, ?_⟩
      · simp [Ty.wf, Ty.keyable, hp, w1, w2]
      · simp [slotFree, s1, s2]
  | .obj p fs ty, c, T, e', c', h => by
    simp only [check, Except.bind_eq_ok'] at h
    obtain ⟨⟨tys, fs', c1⟩, h1, T', h2, h⟩ := h
    have := CR.pure_eq_ok.1 h; cases this
    obtain ⟨rfl, hsh⟩ := mkObj_inv h2
    obtain ⟨a1, w1, s1⟩ := checkFields_ann hf hv fs c _ _ _ h1
    exact ⟨.obj a1 hsh, by simpa [Ty.wf] using wfFields_of_shallow tys hsh w1,
      by simpa [slotFree] using s1⟩
  | .ident p name, c, T, e', c', h => by
    simp only [check] at h
    split at h
    · exact absurd h (by simp [bind, Except.bind, throw, throwThe, MonadExceptOf.throw])
    · split at h
      · next ty hl =>
        have := CR.pure_eq_ok.1 h; cases this
        exact ⟨.ident hl, lookupVar_ok hv hl⟩
      · exact absurd h CR.throw_ne_ok
  | .call p col callee args cty res idx, c, T, e', c', h => by
    obtain ⟨argTys, args', c1, h1, hcases⟩ := check_call_inv h
    obtain ⟨a1, w1, s1⟩ := checkArgs_ann hf hv args c _ _ _ h1
    rcases hcases with ⟨cp, fname, r, _, h2, hlen, hass, rfl, rfl⟩ |
      ⟨name, ps, ret, callee', c2, ps', h2, hinf, hlen, hass, rfl⟩
    · obtain ⟨hne, d, n, ps, ret, hres, hty, hinst⟩ := resolve_ok hf s1 w1 h2 hlen hass
      obtain ⟨σ, hσ, hse, hT, hTw, hTs⟩ := hinst
      exact ⟨.callStatic a1 hne hres hty ⟨σ, hσ, hse, hT, hTw, hTs⟩, hTw, hTs⟩
    · obtain ⟨a2, w2, s2⟩ := check_ann hf hv callee c1 _ _ _ h2
      simp only [Ty.wf, slotFree, Bool.and_eq_true] at w2 s2
      have hinst := inferFun_inst w2.1 w2.2 (okVarsList_of_slotFree ps s2.1)
        (okVars_of_slotFree ret s2.2) s1 w1 hinf (assertParams_tyEqList _ _ hlen hass)
      obtain ⟨σ, hσ, hse, hT, hTw, hTs⟩ := hinst
      exact ⟨.callDyn a2 a1 ⟨σ, hσ, hse, hT, hTw, hTs⟩, hTw, hTs⟩
  | .subscript p col var idx vty, c, T, e', c', h => by
    simp only [check, Except.bind_eq_ok'] at h
    obtain ⟨⟨varTy, var', c1⟩, h1, h⟩ := h
    obtain ⟨a1, w1, s1⟩ := check_ann hf hv var c _ _ _ h1
    simp only [] at h
    split at h
    · next el =>
      simp only [Except.bind_eq_ok'] at h
      obtain ⟨⟨idxTy, idx', c2⟩, h2, _, hta, h⟩ := h
      have := CR.pure_eq_ok.1 h; cases this
      obtain ⟨a2, _, _⟩ := check_ann hf hv idx c1 _ _ _ h2
      exact ⟨.subList a1 a2 (typeAssert_tyEq hta), by simpa [Ty.wf] using w1,
        by simpa [slotFree] using s1⟩
    · next k v =>
      simp only [Except.bind_eq_ok'] at h
      obtain ⟨⟨idxTy, idx', c2⟩, h2, _, hta, h⟩ := h
      have := CR.pure_eq_ok.1 h; cases this
      obtain ⟨a2, _, _⟩ := check_ann hf hv idx c1 _ _ _ h2
      simp only [Ty.wf, slotFree, Bool.and_eq_true] at w1 s1
      exact ⟨.subMap a1 a2 (typeAssert_tyEq hta), w1.2, s1.2⟩
    · exact absurd h CR.throw_ne_ok
  | .member p col obj field fp oty index, c, T, e', c', h => by
    simp only [check, Except.bind_eq_ok'] at h
    obtain ⟨⟨objTy, obj', c1⟩, h1, h⟩ := h
    obtain ⟨a1, w1, s1⟩ := check_ann hf hv obj c _ _ _ h1
    simp only [] at h
    split at h
    · next fs =>
      split at h
      · next fty i hfind _ =>
        have := CR.pure_eq_ok.1 h; cases this
        exact ⟨.member a1 hfind, wf_find_field w1 s1 hfind⟩
      · exact absurd h CR.throw_ne_ok
    · exact absurd h CR.throw_ne_ok
  | .unary .., c, T, e', c', h => by simp only [check] at h; exact absurd h CR.throw_ne_ok
  | .binary .., c, T, e', c', h => by simp only [check] at h; exact absurd h CR.throw_ne_ok
  | .ternary .., c, T, e', c', h => by simp only [check] at h; exact absurd h CR.throw_ne_ok
  | .group .., c, T, e', c', h => by simp only [check] at h; exact absurd h CR.throw_ne_ok
theorem checkElems_ann {Γ : TEnv} (hf : FunsOK Γ.funs) (hv : VarsOK Γ) :
    ∀ (es : ExprList) (c : Nat) (el : Ty) (es' : ExprList) (c' : Nat),
    checkElems Γ c el es = .ok (es', c') → AnnElems Γ es' el
  | .nil, c, el, es', c', h => by
    simp only [checkElems] at h
    have := CR.pure_eq_ok.1 h; cases this
    exact .nil
  | .cons e es, c, el, es', c', h => by
    simp only [checkElems, Except.bind_eq_ok'] at h
    obtain ⟨⟨ty, e1, c1⟩, h1, _, hta, ⟨es1, c2⟩, h2, h⟩ := h
    have := CR.pure_eq_ok.1 h; cases this
    exact .cons (check_ann hf hv e c _ _ _ h1).1 (typeAssert_tyEq hta)
      (checkElems_ann hf hv es c1 el _ _ h2)
theorem checkPairs_ann {Γ : TEnv} (hf : FunsOK Γ.funs) (hv : VarsOK Γ) :
    ∀ (ps : PairList) (c : Nat) (kT vT : Ty) (ps' : PairList) (c' : Nat),
    checkPairs Γ c kT vT ps = .ok (ps', c') → AnnPairs Γ ps' kT vT
  | .nil, c, kT, vT, ps', c', h => by
    simp only [checkPairs] at h
    have := CR.pure_eq_ok.1 h; cases this
    exact .nil
  | .cons k v ps, c, kT, vT, ps', c', h => by
    simp only [checkPairs, Except.bind_eq_ok'] at h
    obtain ⟨⟨ty1, k1, c1⟩, h1, _, hta1, ⟨ty2, v1, c2⟩, h2, _, hta2, ⟨ps1, c3⟩, h3, h⟩ := h
    have := CR.pure_eq_ok.1 h; cases this
    exact .cons (check_ann hf hv k c _ _ _ h1).1 (typeAssert_tyEq hta1)
      (check_ann hf hv v c1 _ _ _ h2).1 (typeAssert_tyEq hta2)
      (checkPairs_ann hf hv ps c2 kT vT _ _ h3)
theorem checkFields_ann {Γ : TEnv} (hf : FunsOK Γ.funs) (hv : VarsOK Γ) :
    ∀ (fs : FieldEList) (c : Nat) (tys : FieldList) (fs' : FieldEList) (c' : Nat),
    checkFields Γ c fs = .ok (tys, fs', c') →
    AnnFields Γ fs' tys ∧ wfTysFields tys = true ∧ slotFreeFields tys = true
  | .nil, c, tys, fs', c', h => by
    simp only [checkFields] at h
    have := CR.pure_eq_ok.1 h; cases this
    exact ⟨.nil, rfl, rfl⟩
  | .cons n e fs, c, tys, fs', c', h => by
    simp only [checkFields, Except.bind_eq_ok'] at h
    obtain ⟨⟨ty, e1, c1⟩, h1, ⟨tys1, fs1, c2⟩, h2, h⟩ := h
    have := CR.pure_eq_ok.1 h; cases this
    obtain ⟨a1, w1, s1⟩ := check_ann hf hv e c _ _ _ h1
    obtain ⟨a2, w2, s2⟩ := checkFields_ann hf hv fs c1 _ _ _ h2
    exact ⟨.cons a1 a2, by simp [wfTysFields, w1, w2], by simp [slotFreeFields, s1, s2]⟩
theorem checkArgs_ann {Γ : TEnv} (hf : FunsOK Γ.funs) (hv : VarsOK Γ) :
    ∀ (es : ExprList) (c : Nat) (tys : TyList) (es' : ExprList) (c' : Nat),
    checkArgs Γ c es = .ok (tys, es', c') →
    AnnArgs Γ es' tys ∧ wfList tys = true ∧ slotFreeList tys = true
  | .nil, c, tys, es', c', h => by
    simp only [checkArgs] at h
    have := CR.pure_eq_ok.1 h; cases this
    exact ⟨.nil, rfl, rfl⟩
  | .cons e es, c, tys, es', c', h => by
    simp only [checkArgs, Except.bind_eq_ok'] at h
    obtain ⟨⟨ty, e1, c1⟩, h1, ⟨tys1, es1, c2⟩, h2, h⟩ := h
    have := CR.pure_eq_ok.1 h; cases this
    obtain ⟨a1, w1, s1⟩ := check_ann hf hv e c _ _ _ h1
    obtain ⟨a2, w2, s2⟩ := checkArgs_ann hf hv es c1 _ _ _ h2
    exact ⟨.cons a1 a2, by simp [wfList, w1, w2], by simp [slotFreeList, s1, s2]⟩
end

end Yae.Sound
