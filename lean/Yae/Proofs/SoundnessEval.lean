/-
  Evaluation of an annotated tree in a conforming environment: a small weakest-precondition
  calculus for `EvalM` (`Sat`), soundness of the list evaluators and of function application
  relative to the induction hypothesis on fuel.
-/
import Yae.Proofs.SoundnessBasic
import Yae.Proofs.SoundnessBuiltins
import Yae.Proofs.SoundnessCheck
namespace Yae.Sound

/-! ### outcomes -/

/-- the result is a value satisfying `P`, or an allowed failure, or — only if `en` ("enough
fuel") does not hold — fuel exhaustion -/
def Res {α : Type} (P : α → Prop) (en : Prop) : Except Fail α → Prop
  | .ok a => P a
  | .error f => Allowed f ∨ (f = .fuel ∧ ¬ en)

def Sat {α : Type} (x : EvalM α) (P : α → Prop) (en : Prop) : Prop :=
  ∀ log, Res P en (x log).1

theorem Sat.pure {α : Type} {a : α} {P : α → Prop} {en : Prop} (h : P a) :
    Sat (pure a : EvalM α) P en := fun _ => h

theorem Sat.fail {α : Type} {f : Fail} {P : α → Prop} {en : Prop} (h : Allowed f) :
    Sat (EvalM.fail f : EvalM α) P en := fun _ => .inl h

theorem Sat.fuel {α : Type} {P : α → Prop} {en : Prop} (h : ¬ en) :
    Sat (EvalM.fail .fuel : EvalM α) P en := fun _ => .inr ⟨rfl, h⟩

theorem Sat.bind {α β : Type} {x : EvalM α} {f : α → EvalM β} {Q : α → Prop} {P : β → Prop}
    {en1 en : Prop} (hx : Sat x Q en1) (hen : en → en1) (hf : ∀ a, Q a → Sat (f a) P en) :
    Sat (x >>= f) P en := by
  intro log
  have h1 := hx log
  show Res P en (match x log with
    | (.ok a, log') => f a log'
    | (.error e, log') => (.error e, log')).1
  rcases hxl : x log with ⟨r, l⟩
  rw [hxl] at h1
  cases r with
  | ok a => exact hf a h1 l
  | error e =>
    rcases h1 with h1 | ⟨h1, h2⟩
    · exact .inl h1
    · exact .inr ⟨h1, fun h => h2 (hen h)⟩

theorem Sat.mono {α : Type} {x : EvalM α} {P Q : α → Prop} {en en' : Prop} (hx : Sat x P en)
    (hPQ : ∀ a, P a → Q a) (hen : en' → en) : Sat x Q en' := by
  intro log
  have h1 := hx log
  rcases hxl : (x log).1 with e | a
  · rw [hxl] at h1
    rcases h1 with h1 | ⟨h1, h2⟩
    · exact .inl h1
    · exact .inr ⟨h1, fun h => h2 (hen h)⟩
  · rw [hxl] at h1; exact hPQ a h1

theorem Sat.emit {e : Event} {en : Prop} : Sat (EvalM.emit e) (fun _ => True) en :=
  fun _ => trivial

theorem Sat.emitAll {es : List Event} {en : Prop} : Sat (EvalM.emitAll es) (fun _ => True) en :=
  fun _ => trivial

theorem Sat.recDbg {dbg : Bool} {v : Val} {col : Int} {P : Val → Prop} {en : Prop} (h : P v) :
    Sat (recDbg dbg v col) P en := by
  cases dbg <;> intro log <;> exact h

/-! ### the lazy built-ins -/

theorem lazy_builtin {b : BuiltinDecl} (hb : b ∈ builtins) (hl : b.isLazy = true) :
    (b.id = .IF_BOOL_ANY_ANY ∧
      b.ty = .fn "if" (.cons .bool (.cons (.var "a") (.cons (.var "a") .nil))) (.var "a")) ∨
    (b.id = .LOGIC_AND_BOOL_BOOL ∧ b.ty = .fn "&&" (.cons .bool (.cons .bool .nil)) .bool) ∨
    (b.id = .LOGIC_OR_BOOL_BOOL ∧ b.ty = .fn "||" (.cons .bool (.cons .bool .nil)) .bool) := by
  rw [builtins_eq] at hb
  simp only [List.mem_cons, List.not_mem_nil, or_false] at hb
  rcases hb with rfl | rfl | rfl | rfl | rfl | rfl | rfl | rfl | rfl | rfl | rfl | rfl | rfl | rfl | rfl | rfl | rfl | rfl | rfl | rfl | rfl | rfl | rfl | rfl | rfl | rfl | rfl | rfl | rfl | rfl | rfl | rfl | rfl | rfl | rfl | rfl | rfl | rfl | rfl | rfl | rfl | rfl | rfl | rfl | rfl | rfl | rfl | rfl | rfl | rfl | rfl | rfl | rfl | rfl | rfl | rfl
  all_goals first
    | exact .inl ⟨rfl, rfl⟩
    | exact .inr (.inl ⟨rfl, rfl⟩)
    | exact .inr (.inr ⟨rfl, rfl⟩)
    | exact absurd hl (by decide)

/-! ### variable-freeness is invariant under structural equality -/

theorem slotFreeFields_of_find : ∀ fs : FieldList, wfFields fs = true →
    (∀ n t, fs.find? n = some t → slotFree t = true) → slotFreeFields fs = true
  | .nil, _, _ => rfl
  | .cons n t fs, hw, h => by
    simp only [wfFields, Bool.and_eq_true] at hw
    simp only [slotFreeFields, Bool.and_eq_true]
    refine ⟨h n t (FieldList.find?_cons_self n t fs), slotFreeFields_of_find fs hw.2 ?_⟩
    intro m u hm
    by_cases hmn : n = m
    · subst hmn
      have := hw.1.1
      simp [hm] at this
    · exact h m u (by rw [FieldList.find?_cons_ne t fs hmn]; exact hm)

mutual
theorem slotFree_of_structEq : ∀ a b : Ty, a.wf = true → StructEq a b → slotFree b = true →
    slotFree a = true
  | .top, _, _, _, _ | .bot, _, _, _, _ | .num, _, _, _, _ | .str, _, _, _, _
  | .bool, _, _, _, _ | .time, _, _, _, _ => rfl
  | .var n, _, _, h, hs => by cases h; exact hs
  | .tuple xs, _, hw, h, hs => by
    cases h with
    | tuple h =>
      simp only [Ty.wf, slotFree] at hw hs ⊢
      exact slotFreeList_of_structEq xs _ hw h hs
  | .list a, _, hw, h, hs => by
    cases h with
    | list h =>
      simp only [Ty.wf, slotFree] at hw hs ⊢
      exact slotFree_of_structEq a _ hw h hs
  | .map k v, _, hw, h, hs => by
    cases h with
    | map h1 h2 =>
      simp only [Ty.wf, slotFree, Bool.and_eq_true] at hw hs ⊢
      exact ⟨slotFree_of_structEq k _ hw.1.2 h1 hs.1, slotFree_of_structEq v _ hw.2 h2 hs.2⟩
  | .obj fs, _, hw, h, hs => by
    cases h with
    | @obj _ gs hl hsome hrel =>
      simp only [Ty.wf, slotFree] at hw hs ⊢
      refine slotFreeFields_of_find fs hw (fun n t hn => ?_)
      have h1 : (gs.find? n).isSome = true := by rw [← hsome n, hn]; rfl
      obtain ⟨u, hu⟩ := Option.isSome_iff_exists.1 h1
      exact slotFree_of_structEq_fields fs n t hn u (wfFields_find fs n t hw hn)
        (hrel n t u hn hu) (slotFreeFields_find gs n u hs hu)
  | .fn _ ps r, _, hw, h, hs => by
    cases h with
    | fn h1 h2 =>
      simp only [Ty.wf, slotFree, Bool.and_eq_true] at hw hs ⊢
      exact ⟨slotFreeList_of_structEq ps _ hw.1 h1 hs.1, slotFree_of_structEq r _ hw.2 h2 hs.2⟩
  | .maybe a, _, hw, h, hs => by
    cases h with
    | maybe h =>
      simp only [Ty.wf, slotFree] at hw hs ⊢
      exact slotFree_of_structEq a _ hw h hs
theorem slotFreeList_of_structEq : ∀ xs ys : TyList, wfList xs = true → StructEqList xs ys →
    slotFreeList ys = true → slotFreeList xs = true
  | .nil, _, _, _, _ => rfl
  | .cons x xs, _, hw, h, hs => by
    cases h with
    | cons h1 h2 =>
      simp only [wfList, slotFreeList, Bool.and_eq_true] at hw hs ⊢
      exact ⟨slotFree_of_structEq x _ hw.1 h1 hs.1, slotFreeList_of_structEq xs _ hw.2 h2 hs.2⟩
theorem slotFree_of_structEq_fields : ∀ (fs : FieldList) (n : String) (t : Ty),
    fs.find? n = some t → ∀ u, t.wf = true → StructEq t u → slotFree u = true →
    slotFree t = true
  | .nil, _, _, h, _, _, _, _ => by simp [FieldList.find?] at h
  | .cons m t' fs, n, t, h, u, hw, he, hs => by
    simp only [FieldList.find?] at h
    split at h
    · cases h; exact slotFree_of_structEq t' u hw he hs
    · exact slotFree_of_structEq_fields fs n t h u hw he hs
end

/-! ### types of annotated trees are well formed and variable free -/

mutual
theorem ann_wf {Γ : TEnv} (hv : VarsOK Γ) : ∀ (e : Expr) (T : Ty), Ann Γ e T →
    T.wf = true ∧ slotFree T = true
  | .str _ _, _, h => by cases h; exact ⟨rfl, rfl⟩
  | .num _ _, _, h => by cases h; exact ⟨rfl, rfl⟩
  | .time _ _, _, h => by cases h; exact ⟨rfl, rfl⟩
  | .bool _ _, _, h => by cases h; exact ⟨rfl, rfl⟩
  | .list _ .nil _, _, h => by cases h; exact ⟨rfl, rfl⟩
  | .list _ (.cons e es) _, _, h => by
    cases h with
    | listCons h1 _ =>
      have := ann_wf hv e _ h1
      simpa [Ty.wf, slotFree] using this
  | .map _ .nil _, _, h => by cases h; exact ⟨rfl, rfl⟩
  | .map _ (.cons k v ps) _, _, h => by
    cases h with
    | mapCons h1 hp h2 _ =>
      have a1 := ann_wf hv k _ h1
      have a2 := ann_wf hv v _ h2
      simp [Ty.wf, slotFree, Ty.keyable, hp, a1, a2]
  | .obj _ fs _, _, h => by
    cases h with
    | obj h1 hsh =>
      have := annFields_wf hv fs _ h1
      exact ⟨by simpa [Ty.wf] using wfFields_of_shallow _ hsh this.1,
        by simpa [slotFree] using this.2⟩
  | .ident _ _, _, h => by cases h with | ident hl => exact lookupVar_ok hv hl
  | .call _ _ callee args _ _ _, _, h => by
    cases h with
    | callStatic _ _ _ _ hi => obtain ⟨_, _, _, _, h1, h2⟩ := hi; exact ⟨h1, h2⟩
    | callDyn _ _ hi => obtain ⟨_, _, _, _, h1, h2⟩ := hi; exact ⟨h1, h2⟩
  | .subscript _ _ var idx _, _, h => by
    cases h with
    | subList h1 _ _ =>
      have := ann_wf hv var _ h1
      simpa [Ty.wf, slotFree] using this
    | subMap h1 _ _ =>
      have := ann_wf hv var _ h1
      simp only [Ty.wf, slotFree, Bool.and_eq_true] at this
      exact ⟨this.1.2, this.2.2⟩
  | .member _ _ o _ _ _ _, _, h => by
    cases h with
    | member h1 hf =>
      have := ann_wf hv o _ h1
      exact wf_find_field this.1 this.2 hf
  | .unary .., _, h => by cases h
  | .binary .., _, h => by cases h
  | .ternary .., _, h => by cases h
  | .group .., _, h => by cases h
theorem annFields_wf {Γ : TEnv} (hv : VarsOK Γ) : ∀ (fs : FieldEList) (tys : FieldList),
    AnnFields Γ fs tys → wfTysFields tys = true ∧ slotFreeFields tys = true
  | .nil, _, h => by cases h; exact ⟨rfl, rfl⟩
  | .cons _ e fs, _, h => by
    cases h with
    | cons h1 h2 =>
      have a1 := ann_wf hv e _ h1
      have a2 := annFields_wf hv fs _ h2
      simp [wfTysFields, slotFreeFields, a1, a2]
end

theorem annArgs_wf {Γ : TEnv} (hv : VarsOK Γ) : ∀ (es : ExprList) (tys : TyList),
    AnnArgs Γ es tys → wfList tys = true ∧ slotFreeList tys = true
  | .nil, _, h => by cases h; exact ⟨rfl, rfl⟩
  | .cons e es, _, h => by
    cases h with
    | cons h1 h2 =>
      have a1 := ann_wf hv e _ h1
      have a2 := annArgs_wf hv es _ h2
      simp [wfList, slotFreeList, a1, a2]

theorem annArgs_get? {Γ : TEnv} : ∀ (es : ExprList) (tys : TyList), AnnArgs Γ es tys →
    ∀ i a, es.get? i = some a → ∃ A, tys.get? i = some A ∧ Ann Γ a A ∧ a.depth ≤ depthList es
  | .nil, _, _, _, _, hg => by simp [ExprList.get?] at hg
  | .cons e es, _, h, 0, a, hg => by
    cases h with
    | cons h1 h2 =>
      simp only [ExprList.get?] at hg; cases hg
      exact ⟨_, rfl, h1, by simp only [depthList]; omega⟩
  | .cons e es, _, h, i+1, a, hg => by
    cases h with
    | cons h1 h2 =>
      simp only [ExprList.get?] at hg
      obtain ⟨A, hA, hAnn, hd⟩ := annArgs_get? es _ h2 i a hg
      exact ⟨A, by simpa [TyList.get?] using hA, hAnn, by simp only [depthList]; omega⟩

theorem annArgs_length {Γ : TEnv} : ∀ (es : ExprList) (tys : TyList), AnnArgs Γ es tys →
    es.length = tys.length
  | .nil, _, h => by cases h; rfl
  | .cons e es, _, h => by
    cases h with
    | cons h1 h2 => simp [ExprList.length, TyList.length, annArgs_length es _ h2]

theorem ExprList.get?_lt : ∀ (es : ExprList) (i : Nat), i < es.length → ∃ a, es.get? i = some a
  | .nil, i, h => by simp [ExprList.length] at h
  | .cons e es, 0, _ => ⟨e, rfl⟩
  | .cons e es, i+1, h => by
    simp only [ExprList.length] at h
    simpa [ExprList.get?] using ExprList.get?_lt es i (by omega)

theorem StructEqList.length' : ∀ {xs ys : TyList}, StructEqList xs ys → xs.length = ys.length
  | _, _, .nil => rfl
  | _, _, .cons _ h => by simp [TyList.length, StructEqList.length' h]

/-! ### the induction hypothesis and the list evaluators -/

/-- evaluation with `fuel` of every annotated tree yields a value of its type or an allowed
failure (or runs out of fuel, if `fuel` is not more than the depth of the tree) -/
def EvalOK (Γ : TEnv) (ρ : REnv) (dbg : Bool) (fuel : Nat) : Prop :=
  ∀ e T, Ann Γ e T → Sat (eval fuel dbg ρ e) (fun v => HasTy v T) (e.depth < fuel)

section
variable {Γ : TEnv} {ρ : REnv} {dbg : Bool} {fuel : Nat}

theorem evalArgs_ok (ih : EvalOK Γ ρ dbg fuel) : ∀ (es : ExprList) (As : TyList),
    AnnArgs Γ es As →
    Sat (evalList fuel dbg ρ es) (fun vs => HasTyList vs.toList As) (depthList es < fuel)
  | .nil, _, h => by
    cases h
    simp only [evalList]
    exact Sat.pure trivial
  | .cons e es, _, h => by
    cases h with
    | cons h1 h2 =>
      simp only [evalList]
      refine Sat.bind (ih e _ h1) (by simp only [depthList]; omega) (fun v hv => ?_)
      refine Sat.bind (evalArgs_ok ih es _ h2) (by simp only [depthList]; omega) (fun vs hvs => ?_)
      exact Sat.pure ⟨hv, hvs⟩

theorem evalElems_ok (hvars : VarsOK Γ) (ih : EvalOK Γ ρ dbg fuel) {el : Ty}
    (hel : el.wf = true) : ∀ (es : ExprList), AnnElems Γ es el →
    Sat (evalList fuel dbg ρ es) (fun vs => WFList el vs = true) (depthList es < fuel)
  | .nil, h => by
    simp only [evalList]
    exact Sat.pure rfl
  | .cons e es, h => by
    cases h with
    | cons h1 he h2 =>
      simp only [evalList]
      refine Sat.bind (ih e _ h1) (by simp only [depthList]; omega) (fun v hv => ?_)
      refine Sat.bind (evalElems_ok hvars ih hel es h2) (by simp only [depthList]; omega)
        (fun vs hvs => ?_)
      have hc := hv.conv (ann_wf hvars e _ h1).1 hel he
      exact Sat.pure (by simp [WFList, hc.1, hc.2, hvs])

theorem evalPairs_ok (hvars : VarsOK Γ) (ih : EvalOK Γ ρ dbg fuel) {kT vT : Ty}
    (hk : kT.wf = true) (hkp : kT.isPrimitive = true) (hvT : vT.wf = true) :
    ∀ (ps : PairList) (acc : EntryList), AnnPairs Γ ps kT vT → WFEntries kT vT acc = true →
    Sat (evalPairs fuel dbg ρ ps acc) (fun es => WFEntries kT vT es = true) (depthPairs ps < fuel)
  | .nil, acc, _, hacc => by
    simp only [evalPairs]
    exact Sat.pure hacc
  | .cons k v ps, acc, h, hacc => by
    cases h with
    | cons h1 he1 h2 he2 h3 =>
      simp only [evalPairs]
      refine Sat.bind (ih k _ h1) (by simp only [depthPairs]; omega) (fun kv hkv => ?_)
      have hc := hkv.conv (ann_wf hvars k _ h1).1 hk he1
      obtain ⟨ks, hks⟩ := hc.key_of_prim hkp
      simp only [hks]
      refine Sat.bind (ih v _ h2) (by simp only [depthPairs]; omega) (fun vv hvv => ?_)
      have hc2 := hvv.conv (ann_wf hvars v _ h2).1 hvT he2
      exact Sat.mono (evalPairs_ok hvars ih hk hkp hvT ps _ h3
        (WFEntries_insert kT vT acc _ ks vv hacc rfl hc2.1 hc2.2)) (fun _ h => h)
        (by simp only [depthPairs]; omega)

theorem evalFields_ok (ih : EvalOK Γ ρ dbg fuel) : ∀ (fs : FieldEList) (tys : FieldList),
    AnnFields Γ fs tys →
    Sat (evalFields fuel dbg ρ fs) (fun vs => WFObj tys vs = true) (depthFields fs < fuel)
  | .nil, _, h => by
    cases h
    simp only [evalFields]
    exact Sat.pure rfl
  | .cons n e fs, _, h => by
    cases h with
    | cons h1 h2 =>
      simp only [evalFields]
      refine Sat.bind (ih e _ h1) (by simp only [depthFields]; omega) (fun v hv => ?_)
      refine Sat.bind (evalFields_ok ih fs _ h2) (by simp only [depthFields]; omega)
        (fun vs hvs => ?_)
      exact Sat.pure (by simp [WFObj, hv.1, hv.2, hvs])

end

end Yae.Sound
