/-
  A concrete conforming environment and accepted program, used as the non-vacuity witness of
  the C01/C02 theorems, and the evaluation lemmas behind the `C02.exact` characterisations.

  Typing environment: all built-ins registered as the engine does, one variable
  `o : {a: num, b: str}`.  Run-time environment: `o` is bound to an object VALUE whose own type
  lists the fields in the other order, `{b: str, a: num}` (as host data may).  Program:
  `o.a + 2`.
-/
import Yae.Proofs.SoundnessMain
namespace Yae.Sound.Example
open Yae

/-- the engine's function table: every built-in, in registration order -/
def funs : List FunDecl :=
  (List.range builtins.length).filterMap fun i =>
    builtins[i]?.map fun b => ⟨b.ty, .builtin i, b.isLazy⟩

def objT  : Ty := .obj (.cons "a" .num (.cons "b" .str .nil))
/-- the same object type with the fields written in the other order -/
def objT' : Ty := .obj (.cons "b" .str (.cons "a" .num .nil))

def Γ : TEnv := ⟨[("o", objT)], funs, reservedWords⟩
/-- positional values in the order of the value's OWN type `{b, a}` -/
def oVal : Val := .obj objT' (.cons (.str "x") (.cons (.num 1) .nil))
def ρ : REnv := ⟨[("o", oVal)], funs, {}⟩
def p0 : Pos := Pos.unknown

/-- `o.a + 2` as the parser/desugarer produces it (no attachments yet) -/
def prog : Expr :=
  .call p0 0 (.ident p0 "+")
    (.cons (.member p0 0 (.ident p0 "o") "a" p0 none 0) (.cons (.num p0 2) .nil)) none "" 0

/-- the annotated tree -/
def prog' : Expr :=
  .call p0 0 (.ident p0 "+")
    (.cons (.member p0 0 (.ident p0 "o") "a" p0 (some objT) 0) (.cons (.num p0 2) .nil))
    (some (.fn "+" (.cons .num (.cons .num .nil)) .num)) "λ + (num, num)" (-1)

theorem funsOK : FunsOK Γ.funs := by
  intro d hd
  have : funs.all declOK = true := by decide
  exact List.all_eq_true.1 this d hd

theorem envOK : EnvOK Γ ρ where
  vars := by
    intro x T h
    simp only [TEnv.lookupVar, Γ, List.find?] at h
    split at h
    · next hx =>
      simp only [Option.map_some, Option.some.injEq] at h
      subst h
      refine ⟨oVal, ?_, by decide, by decide⟩
      simp only [REnv.lookupVar, ρ, List.find?, hx]; rfl
    · simp at h
  funs := rfl
  tys := by
    intro p hp
    simp only [Γ, List.mem_singleton] at hp
    subst hp
    exact ⟨by decide, by decide⟩

/-- the checker accepts `o.a + 2` with type `num` and returns the annotated tree -/
theorem checked : check Γ 0 prog = .ok (.num, prog', 0) := by rfl

theorem resolved : resolveStatic ρ.funs "λ + (num, num)" (-1) =
    some ⟨.fn "+" (.cons .num (.cons .num .nil)) .num, .builtin 2, false⟩ := by rfl

/-- it evaluates (by name through the permuted object) to `1 + 2` -/
theorem evaluated : eval 3 false ρ prog' [] = (.ok (.num ((1 : Float) + 2)), []) := by
  have hb : builtins[2]? =
      some ⟨.ADD_NUM_NUM, .fn "+" (.cons .num (.cons .num .nil)) .num, false⟩ := rfl
  have ho : ρ.lookupVar "o" = some oVal := rfl
  simp only [prog', eval, resolved, callFun, hb, evalList, ho, oVal, recDbg]
  rfl

theorem depth_prog' : prog'.depth = 3 := by decide

end Yae.Sound.Example

namespace Yae.Sound

/-! ### running `EvalM` computations whose first step is known -/

theorem EvalM.bind_ok {α β : Type} {x : EvalM α} {f : α → EvalM β} {log l : List Event} {a : α}
    (h : x log = (.ok a, l)) : (x >>= f) log = f a l := by
  show (match x log with
    | (.ok a, log') => f a log'
    | (.error e, log') => (.error e, log')) = _
  rw [h]

theorem EvalM.bind_err {α β : Type} {x : EvalM α} {f : α → EvalM β} {log l : List Event}
    {e : Fail} (h : x log = (.error e, l)) : (x >>= f) log = (.error e, l) := by
  show (match x log with
    | (.ok a, log') => f a log'
    | (.error e, log') => (.error e, log')) = _
  rw [h]

theorem recDbg_result (dbg : Bool) (v : Val) (col : Int) (log : List Event) :
    (recDbg dbg v col log).1 = .ok v := by
  cases dbg <;> rfl

/-- subscript on a list value: the result, exactly -/
theorem eval_subscript_list {fuel : Nat} {dbg : Bool} {ρ : REnv} {p : Pos} {col : Int}
    {var idx : Expr} {vty : Option Ty} {log log1 log2 : List Event} {ty : Ty} {vs : ValList}
    {f : Float}
    (hvar : eval fuel dbg ρ var log = (.ok (.list ty vs), log1))
    (hidx : eval fuel dbg ρ idx log1 = (.ok (.num f), log2)) :
    (eval (fuel+1) dbg ρ (.subscript p col var idx vty) log).1 =
      if Num.toInt f < 0 ∨ Num.toInt f ≥ vs.length then .error .indexOutOfRange
      else match vs.get? (Num.toInt f).toNat with
        | some v => .ok v
        | none => .error .indexOutOfRange := by
  simp only [eval]
  rw [EvalM.bind_ok hvar]
  simp only []
  by_cases hc : Num.toInt f < 0 ∨ Num.toInt f ≥ vs.length
  · rw [if_pos hc]
    rw [EvalM.bind_err (l := log2) (e := .indexOutOfRange)]
    rw [EvalM.bind_ok hidx]
    simp only []
    have : (decide (Num.toInt f < 0) || decide (Num.toInt f ≥ ↑vs.length)) = true := by
      simpa using hc
    rw [if_pos this]; rfl
  · rw [if_neg hc]
    have hc' : ¬ ((decide (Num.toInt f < 0) || decide (Num.toInt f ≥ ↑vs.length)) = true) := by
      simpa using hc
    cases hg : vs.get? (Num.toInt f).toNat with
    | none =>
      rw [EvalM.bind_err (l := log2) (e := .indexOutOfRange)]
      rw [EvalM.bind_ok hidx]
      simp only []
      rw [if_neg hc', hg]; rfl
    | some v =>
      rw [EvalM.bind_ok (a := v) (l := log2)]
      · exact recDbg_result _ _ _ _
      · rw [EvalM.bind_ok hidx]
        simp only []
        rw [if_neg hc', hg]; rfl

/-- subscript on a map value: the result, exactly -/
theorem eval_subscript_map {fuel : Nat} {dbg : Bool} {ρ : REnv} {p : Pos} {col : Int}
    {var idx : Expr} {vty : Option Ty} {log log1 log2 : List Event} {ty : Ty} {es : EntryList}
    {k : Val} {t : Kind} {ks : String}
    (hvar : eval fuel dbg ρ var log = (.ok (.map ty es), log1))
    (hidx : eval fuel dbg ρ idx log1 = (.ok k, log2)) (hk : k.key? = some (t, ks)) :
    (eval (fuel+1) dbg ρ (.subscript p col var idx vty) log).1 =
      match es.find? t ks with
      | some v => .ok v
      | none => .error .missingKey := by
  simp only [eval]
  rw [EvalM.bind_ok hvar]
  simp only []
  cases hg : es.find? t ks with
  | none =>
    rw [EvalM.bind_err (l := log2) (e := .missingKey)]
    rw [EvalM.bind_ok hidx]
    simp only [hk, hg]; rfl
  | some v =>
    rw [EvalM.bind_ok (a := v) (l := log2)]
    · exact recDbg_result _ _ _ _
    · rw [EvalM.bind_ok hidx]
      simp only [hk, hg]; rfl

end Yae.Sound
