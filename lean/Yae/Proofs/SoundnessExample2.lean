/-
  More non-vacuity witnesses (trees built by hand, since kernel evaluation of `check` stops at
  the well-founded `applySubst` as soon as `inferFun` is involved):
  * `get(["x"], 7, "d")`: a polymorphic built-in, statically dispatched;
  * `id(h.f(1))`: a polymorphic host function applied to the result of a dynamically dispatched
    call of a function VALUE stored in an object of the environment.
-/
import Yae.Proofs.SoundnessTotal
namespace Yae.Sound.Example
open Yae

/-! ### `get(["x"], 7, "d")`: a polymorphic, statically dispatched call (tree built by hand) -/

def getProg' : Expr :=
  .call p0 0 (.ident p0 "get")
    (.cons (.list p0 (.cons (.str p0 "x") .nil) (some (.list .str)))
      (.cons (.num p0 7) (.cons (.str p0 "d") .nil)))
    (some (.fn "get" (.cons (.list .str) (.cons .num (.cons .str .nil))) .str)) "∀.λ get 3" 0

def getDecl : FunDecl :=
  ⟨.fn "get" (.cons (.list (.var "a")) (.cons .num (.cons (.var "a") .nil))) (.var "a"),
    .builtin 15, false⟩

theorem getResolved : resolveStatic Γ.funs "∀.λ get 3" 0 = some getDecl := by rfl

theorem ground_a_str : Subst.Ground [("a", Ty.str)] := by
  intro n k h
  simp only [Subst.get?] at h
  split at h
  · cases h; exact ⟨rfl, rfl⟩
  · cases h

theorem getAnn : Ann Γ getProg' .str := by
  refine .callStatic (As := .cons (.list .str) (.cons .num (.cons .str .nil)))
    (.cons (.listCons .str .nil) (.cons .num (.cons .str .nil))) (by decide) getResolved rfl ?_
  exact ⟨[("a", .str)], ground_a_str, StructEqList.refl _, rfl, rfl, rfl⟩

theorem getArgs : evalList 2 false ρ
    (.cons (.list p0 (.cons (.str p0 "x") .nil) (some (.list .str)))
      (.cons (.num p0 7) (.cons (.str p0 "d") .nil))) [] =
    (.ok (.cons (.list (.list .str) (.cons (.str "x") .nil))
      (.cons (.num 7) (.cons (.str "d") .nil))), []) := by
  simp only [evalList, eval]
  rfl

/-! ### host functions and a dynamically dispatched call: `id(f(1))` -/

def funs2 : List FunDecl := funs ++ [
  ⟨.fn "id" (.cons (.var "a") .nil) (.var "a"), .host "id" (.retArg 0), false⟩,
  ⟨.fn "boom" .nil .num, .host "boom" .fail, false⟩,
  ⟨.fn "last" (.cons .str (.cons .num .nil)) .num, .host "last" (.force [0, 1]), true⟩]

def fTy : Ty := .fn "f" (.cons .num .nil) .num
def fVal : Val := .fn fTy (.host "f" (.constNum 7)) false
def hTy : Ty := .obj (.cons "f" fTy .nil)
def hVal : Val := .obj hTy (.cons fVal .nil)
def Γ2 : TEnv := ⟨[("h", hTy)], funs2, reservedWords⟩
def ρ2 : REnv := ⟨[("h", hVal)], funs2, {}⟩

/-- `h.f`: an expression (not an identifier) of function type -/
def calleeE : Expr := .member p0 0 (.ident p0 "h") "f" p0 (some hTy) 0

/-- `id(h.f(1))` -/
def idProg' : Expr :=
  .call p0 0 (.ident p0 "id")
    (.cons (.call p0 0 calleeE (.cons (.num p0 1) .nil) (some fTy) "" (-1)) .nil)
    (some (.fn "id" (.cons .num .nil) .num)) "∀.λ id 1" 0

def idDecl : FunDecl :=
  ⟨.fn "id" (.cons (.var "a") .nil) (.var "a"), .host "id" (.retArg 0), false⟩

theorem idResolved : resolveStatic Γ2.funs "∀.λ id 1" 0 = some idDecl := by rfl

theorem ground_a_num : Subst.Ground [("a", Ty.num)] := by
  intro n k h
  simp only [Subst.get?] at h
  split at h
  · cases h; exact ⟨rfl, rfl⟩
  · cases h

theorem idAnn : Ann Γ2 idProg' .num := by
  have hcallee : Ann Γ2 calleeE fTy :=
    .member (fs := .cons "f" fTy .nil) (.ident rfl) rfl
  have hdyn : Ann Γ2 (.call p0 0 calleeE (.cons (.num p0 1) .nil) (some fTy) "" (-1)) .num :=
    .callDyn (As := .cons .num .nil) hcallee (.cons .num .nil)
      ⟨[], Subst.ground_nil, StructEqList.refl _, rfl, rfl, rfl⟩
  exact .callStatic (As := .cons .num .nil) (.cons hdyn .nil) (by decide) idResolved rfl
    ⟨[("a", .num)], ground_a_num, StructEqList.refl _, rfl, rfl, rfl⟩

theorem funsOK2 : FunsOK Γ2.funs := by
  intro d hd
  have : funs2.all declOK = true := by decide
  exact List.all_eq_true.1 this d hd

theorem envOK2 : EnvOK Γ2 ρ2 where
  vars := by
    intro x T h
    simp only [TEnv.lookupVar, Γ2, List.find?] at h
    split at h
    · next hx =>
      simp only [Option.map_some, Option.some.injEq] at h
      subst h
      refine ⟨hVal, ?_, by decide, by decide⟩
      simp only [REnv.lookupVar, ρ2, List.find?, hx]; rfl
    · simp at h
  funs := rfl
  tys := by
    intro p hp
    simp only [Γ2, List.mem_singleton] at hp
    subst hp
    exact ⟨by decide, by decide⟩


theorem EvalM.pure_bind' {α β : Type} (a : α) (f : α → EvalM β) :
    (pure a >>= f) = f a := rfl

theorem idEval : (eval 5 false ρ2 idProg' []).1 = .ok (.num 7) := by
  have hf : ρ2.lookupVar "h" = some hVal := rfl
  have hr : resolveStatic ρ2.funs "∀.λ id 1" 0 = some idDecl := idResolved
  simp only [idProg', calleeE, eval, evalList, hr, idDecl, callFun, hf, hVal, hTy, fVal, fTy,
    hostStrict, recDbg, objGet?, FieldList.indexOf?, ValList.get?, EvalM.pure_bind',
    Bool.false_eq_true, if_false, beq_self_eq_true, if_true, Option.bind, ValList.toList]
  rfl

/-! ### object literals with different field orders in one list -/

/-- the binary64 `1.0` given by its bit pattern, so that the kernel can convert it to an index -/
def one : Float := Float.ofBits 0x3FF0000000000000

def objAB (x : Float) (s : String) (ty : Option Ty) : Expr :=
  .obj p0 (.cons "a" (.num p0 x) (.cons "b" (.str p0 s) .nil)) ty
def objBA (x : Float) (s : String) (ty : Option Ty) : Expr :=
  .obj p0 (.cons "b" (.str p0 s) (.cons "a" (.num p0 x) .nil)) ty

/-- `[{a: 1, b: "x"}, {b: "y", a: 2}][1].a`: the two literals list their fields in different
orders -/
def mixed : Expr :=
  .member p0 0 (.subscript p0 0
    (.list p0 (.cons (objAB 1 "x" none) (.cons (objBA 2 "y" none) .nil)) none)
    (.num p0 one) none) "a" p0 none 0

def mixed' : Expr :=
  .member p0 0 (.subscript p0 0
    (.list p0 (.cons (objAB 1 "x" (some objT)) (.cons (objBA 2 "y" (some objT')) .nil))
      (some (.list objT)))
    (.num p0 one) (some (.list objT))) "a" p0 (some objT) 0

theorem mixedChecked : check Γ 0 mixed = .ok (.num, mixed', 0) := by rfl

theorem mixedEval : (eval 5 false ρ mixed' []).1 = .ok (.num 2) := by
  have h1 : Num.toInt one = 1 := by decide
  simp only [mixed', objAB, objBA, eval, evalList, evalFields, recDbg, EvalM.pure_bind', h1,
    Bool.false_eq_true, if_false, objT, objT']
  rfl

end Yae.Sound.Example
